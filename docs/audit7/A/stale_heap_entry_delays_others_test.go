//go:build verif

package nsqd

import (
	"os"
	"testing"
	"time"
)

// audit-A: late REQ of the same connection inside the delivery window leaves a stale heap
// entry of a shared *Message; the next delivery rewrites msg.pri IN PLACE inside the heap.
func TestAuditStaleHeapEntryDelaysOthers(t *testing.T) {
	dir, _ := os.MkdirTemp("", "audit-a3-")
	defer os.RemoveAll(dir)
	opts := NewOptions()
	opts.Logger = nil
	opts.LogLevel = 4
	opts.DataPath = dir
	opts.MemQueueSize = 10
	opts.QueueScanInterval = time.Hour // we scan by hand
	_, _, n := mustStartNSQD(opts)
	defer n.Exit()
	topic := n.GetTopic("t")
	ch := topic.GetChannel("c")

	m := NewMessage(topic.GenerateID(), []byte("M"))
	x := NewMessage(topic.GenerateID(), []byte("X"))
	ch.PutMessage(m)

	// delivery 0 of M to connection 1, ignored, timed out by a scan
	got := <-ch.memoryMsgChan
	got.Attempts++
	ch.StartInFlightTimeout(got, 1, 10*time.Millisecond)
	ch.processInFlightQueue(time.Now().Add(time.Second).UnixNano())

	// delivery 1 of M to connection 1 again; its late "REQ M 0" (for delivery 0) is processed
	// between the map insert and the heap insert of delivery 1
	got = <-ch.memoryMsgChan
	got.Attempts++
	VerifSetHook("chan.inflight.afterMapPush", func(string) {
		VerifSetHook("chan.inflight.afterMapPush", nil)
		err := ch.RequeueMessage(1, m.ID, 0)
		t.Logf("late REQ inside the delivery window: err=%v", err)
	})
	ch.StartInFlightTimeout(got, 1, 1*time.Second) // stale heap entry, pri = now+1s
	t.Logf("after window: map=%d heap=%d queued=%d", len(ch.inFlightMessages), len(ch.inFlightPQ), len(ch.memoryMsgChan))

	// X delivered to connection 2 with a 2 s timeout
	t0 := time.Now()
	ch.StartInFlightTimeout(x, 2, 2*time.Second)

	// delivery 2 of M (same object) to connection 3 with a 60 s timeout: msg.pri rewritten in place
	got = <-ch.memoryMsgChan
	got.Attempts++
	ch.StartInFlightTimeout(got, 3, 60*time.Second)
	t.Logf("heap now: len=%d", len(ch.inFlightPQ))
	for i, e := range ch.inFlightPQ {
		t.Logf("  heap[%d] id=%s pri=+%v index=%d", i, e.Body, time.Duration(e.pri-t0.UnixNano()).Round(time.Millisecond), e.index)
	}

	// scan 3 s after X's delivery: X is 1 s overdue
	dirty := ch.processInFlightQueue(t0.Add(3 * time.Second).UnixNano())
	ch.inFlightMutex.Lock()
	_, xStill := ch.inFlightMessages[x.ID]
	ch.inFlightMutex.Unlock()
	t.Logf("scan at X.deadline+1s: dirty=%v, X still in flight=%v", dirty, xStill)
	dirty = ch.processInFlightQueue(t0.Add(59 * time.Second).UnixNano())
	ch.inFlightMutex.Lock()
	_, xStill2 := ch.inFlightMessages[x.ID]
	ch.inFlightMutex.Unlock()
	t.Logf("scan at X.deadline+57s: dirty=%v, X still in flight=%v", dirty, xStill2)
	if xStill || xStill2 {
		t.Errorf("X (timeout 2s) is not released by scans 1 s and 57 s after its deadline: hidden behind the in-place re-prioritised stale entry of M")
	}
}
