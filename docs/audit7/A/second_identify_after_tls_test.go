//go:build verif

package nsqd

import (
	"crypto/tls"
	"net"
	"os"
	"testing"
	"time"
)

// audit-A: same as the snappy case but with TLS required
func TestAuditSecondIdentifyAfterTLS(t *testing.T) {
	dir, _ := os.MkdirTemp("", "audit-a4-")
	defer os.RemoveAll(dir)
	opts := NewOptions()
	opts.Logger = nil
	opts.LogLevel = 4
	opts.DataPath = dir
	opts.TLSCert = "./test/certs/server.pem"
	opts.TLSKey = "./test/certs/server.key"
	opts.TLSRequired = TLSRequired
	tcpAddr, _, n := mustStartNSQD(opts)
	defer n.Exit()

	conn, err := net.DialTimeout("tcp", tcpAddr.String(), time.Second)
	if err != nil {
		t.Fatal(err)
	}
	defer conn.Close()
	conn.SetDeadline(time.Now().Add(5 * time.Second))
	conn.Write([]byte("  V2"))
	auditIdentify(conn, `{"feature_negotiation":true,"tls_v1":true}`)
	_, data, err := auditReadFrameFrom(conn)
	t.Logf("identify#1 (plain): %.60s… err=%v", data, err)
	tc := tls.Client(conn, &tls.Config{InsecureSkipVerify: true})
	if err := tc.Handshake(); err != nil {
		t.Fatal(err)
	}
	_, data, err = auditReadFrameFrom(tc)
	t.Logf("over TLS: %q err=%v", data, err)

	auditIdentify(tc, `{"output_buffer_size":128}`)
	raw := make([]byte, 128)
	k, err := conn.Read(raw) // the RAW tcp connection, underneath TLS
	t.Logf("RAW tcp bytes after identify#2: %x err=%v", raw[:k], err)

	topic := n.GetTopic("t")
	topic.GetChannel("c")
	tc.Write([]byte("SUB t c\n"))
	k, _ = conn.Read(raw)
	t.Logf("RAW after SUB: %x", raw[:k])
	tc.Write([]byte("RDY 1\n"))
	topic.PutMessage(NewMessage(topic.GenerateID(), []byte("SECRET-BODY")))
	time.Sleep(300 * time.Millisecond)
	k, err = conn.Read(raw)
	t.Logf("RAW tcp bytes after publish (tls-required daemon): %q err=%v", raw[:k], err)
}
