//go:build verif

package nsqd

import (
	"bytes"
	"fmt"
	"io"
	"net/http"
	"os"
	"testing"
	"time"
)

// audit-A: a PUB over an already established keep-alive HTTP connection to a topic
// that does not exist yet, arriving while Exit() is closing the existing topics.
func TestAuditPubNewTopicDuringExit(t *testing.T) {
	dir, _ := os.MkdirTemp("", "audit-a-")
	defer os.RemoveAll(dir)
	opts := NewOptions()
	opts.Logger = nil
	opts.LogLevel = 4
	opts.DataPath = dir
	opts.MemQueueSize = 100
	_, httpAddr, n := mustStartNSQD(opts)

	tr := &http.Transport{MaxIdleConnsPerHost: 1}
	cl := &http.Client{Transport: tr, Timeout: 10 * time.Second}
	url := func(p string) string { return fmt.Sprintf("http://%s%s", httpAddr, p) }

	// existing topic with one channel and one message: makes Exit pass topic.exit.beforeFlush
	resp, err := cl.Post(url("/pub?topic=old"), "application/octet-stream", bytes.NewBufferString("m-old"))
	if err != nil || resp.StatusCode != 200 {
		t.Fatalf("pub old: %v %v", err, resp)
	}
	io.Copy(io.Discard, resp.Body)
	resp.Body.Close()
	n.GetTopic("old").GetChannel("ch")

	entered := make(chan struct{})
	release := make(chan struct{})
	VerifSetHook("topic.exit.beforeFlush", func(string) {
		close(entered)
		<-release
	})
	defer VerifClearHooks()

	exitDone := make(chan struct{})
	go func() { n.Exit(); close(exitDone) }()
	<-entered // Exit holds n.Lock and is closing topic "old"

	type res struct {
		code int
		body string
		err  error
	}
	rc := make(chan res, 1)
	go func() {
		resp, err := cl.Post(url("/pub?topic=fresh"), "application/octet-stream", bytes.NewBufferString("m-fresh"))
		if err != nil {
			rc <- res{err: err}
			return
		}
		b, _ := io.ReadAll(resp.Body)
		resp.Body.Close()
		rc <- res{code: resp.StatusCode, body: string(b)}
	}()
	time.Sleep(200 * time.Millisecond) // let the handler block in GetTopic on n.Lock
	close(release)
	r := <-rc
	<-exitDone
	t.Logf("PUB to new topic during Exit: code=%d body=%q err=%v", r.code, r.body, r.err)

	// restart on the same data path
	VerifClearHooks()
	opts2 := NewOptions()
	opts2.Logger = nil
	opts2.LogLevel = 4
	opts2.DataPath = dir
	opts2.TCPAddress = "127.0.0.1:0"
	opts2.HTTPAddress = "127.0.0.1:0"
	opts2.HTTPSAddress = "127.0.0.1:0"
	n2, err := New(opts2)
	if err != nil {
		t.Fatal(err)
	}
	if err := n2.LoadMetadata(); err != nil {
		t.Fatal(err)
	}
	go n2.Main()
	defer n2.Exit()
	time.Sleep(200 * time.Millisecond)
	_, errT := n2.GetExistingTopic("fresh")
	var depth int64 = -1
	if errT == nil {
		depth = n2.GetTopic("fresh").Depth()
	}
	old, _ := n2.GetExistingTopic("old")
	t.Logf("after restart: topic fresh exists=%v depth=%d ; topic old chan depth=%d", errT == nil, depth, old.GetChannel("ch").Depth())
	if r.code == 200 && (errT != nil || depth == 0) {
		t.Errorf("ACKNOWLEDGED PUBLISH LOST: 200 OK for m-fresh during graceful shutdown, gone after restart")
	}
}
