//go:build verif

package nsqd

import (
	"encoding/binary"
	"encoding/hex"
	"io"
	"net"
	"os"
	"testing"
	"time"

	"github.com/golang/snappy"
)

func auditReadFrameFrom(r io.Reader) (int32, []byte, error) {
	var sz int32
	if err := binary.Read(r, binary.BigEndian, &sz); err != nil {
		return 0, nil, err
	}
	b := make([]byte, sz)
	if _, err := io.ReadFull(r, b); err != nil {
		return 0, nil, err
	}
	return int32(binary.BigEndian.Uint32(b[:4])), b[4:], nil
}

func auditIdentify(w io.Writer, js string) {
	w.Write([]byte("IDENTIFY\n"))
	binary.Write(w, binary.BigEndian, int32(len(js)))
	w.Write([]byte(js))
}

// audit-A: second IDENTIFY with output_buffer_size after a snappy upgrade
func TestAuditSecondIdentifyAfterUpgrade(t *testing.T) {
	dir, _ := os.MkdirTemp("", "audit-a2-")
	defer os.RemoveAll(dir)
	opts := NewOptions()
	opts.Logger = nil
	opts.LogLevel = 4
	opts.DataPath = dir
	tcpAddr, _, n := mustStartNSQD(opts)
	defer n.Exit()

	conn, err := net.DialTimeout("tcp", tcpAddr.String(), time.Second)
	if err != nil {
		t.Fatal(err)
	}
	defer conn.Close()
	conn.SetDeadline(time.Now().Add(5 * time.Second))
	conn.Write([]byte("  V2"))
	auditIdentify(conn, `{"feature_negotiation":true,"snappy":true}`)
	ft, data, err := auditReadFrameFrom(conn)
	t.Logf("identify#1 response (plain): ft=%d %s err=%v", ft, data, err)
	sr := snappy.NewReader(conn)
	sw := snappy.NewWriter(conn)
	ft, data, err = auditReadFrameFrom(sr)
	t.Logf("snappy OK: ft=%d %q err=%v", ft, data, err)

	// second IDENTIFY through the snappy writer
	auditIdentify(sw, `{"output_buffer_size":128}`)
	raw := make([]byte, 64)
	k, err := conn.Read(raw)
	t.Logf("RAW bytes after identify#2 (read directly from the TCP conn): %s err=%v", hex.EncodeToString(raw[:k]), err)
	if k >= 10 && hex.EncodeToString(raw[:10]) == "00000006000000004f4b" {
		t.Logf("=> the OK of IDENTIFY#2 is a PLAIN frame on the raw connection although snappy was negotiated")
	}

	// now subscribe and get a message: which layer does it arrive on?
	topic := n.GetTopic("t")
	topic.GetChannel("c")
	sw.Write([]byte("SUB t c\n"))
	k, _ = conn.Read(raw)
	t.Logf("RAW after SUB: %s", hex.EncodeToString(raw[:k]))
	sw.Write([]byte("RDY 1\n"))
	topic.PutMessage(NewMessage(topic.GenerateID(), []byte("SECRET-BODY")))
	time.Sleep(400 * time.Millisecond)
	k, err = conn.Read(raw)
	t.Logf("RAW after publish: %q err=%v", raw[:k], err)
}
