import Nsq.Props.C17
open Nsq.Model.AdminGate Nsq.Model.AdminFanout Nsq.Model.AdminProg
def c1 : Conf := { adminUsers := ["alice"], aclHeader := "x user", cidrSet := false, lookupdMode := true, notifyOn := false }
def rq (k : String) : Nsq.Model.AdminGate.Req := { method := "DELETE", headers := [(k, "alice")], action := "", opt := "", nonEmptyParams := ["topic"], nonEmptyBody := [] }
#eval (canon "x user", canon "x-üser")
#eval (isAdmin c1 (rq "x user"), isAdmin c1 (rq "X user"))
#eval (isAdmin {c1 with aclHeader := "x-üser"} (rq "x-üser"), isAdmin {c1 with aclHeader := "x-üser"} (rq "X-üser"))
#eval esc "a&channel=b c%+d"
def wd : World := { lookupds := [], nsqdAddrs := ["A"], nsqds := [{ addr := "A", up := true, hasTopic := true }] }
#eval ((runAction wd { kind := .createTopic, topic := "brandnew" }).reqs.map renderReq, (resultOf (progOf .createTopic) (runAction wd { kind := .createTopic, topic := "brandnew" })).1)
def wl : World := { lookupds := [{ addr := "L", up := true, producers := [] }], nsqdAddrs := [], nsqds := [{ addr := "A", up := true, hasTopic := true }, { addr := "B", up := true, hasTopic := true }] }
#eval (runAction wl { kind := .tombstone, topic := "t1", node := "A" }).reqs.map renderReq
-- fanout_exactly_once for createTopic in direct mode is vacuous:
#eval (Nsq.Proofs.AdminProg.lookupdCmds { kind := .createTopic, topic := "t" }, Nsq.Proofs.AdminProg.nsqdCmd .createTopic)
