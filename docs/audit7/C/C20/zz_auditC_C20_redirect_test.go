package main

import (
	"fmt"
	"io"
	"net/http"
	"net/http/httptest"
	"sync"
	"testing"
	"time"

	"github.com/bitly/go-hostpool"
	"github.com/bitly/timer_metrics"
	"github.com/nsqio/go-nsq"
	"github.com/nsqio/nsq/internal/http_api"
)

type zzRec struct{ got []string }

func (r *zzRec) OnFinish(m *nsq.Message)                          { r.got = append(r.got, "fin") }
func (r *zzRec) OnRequeue(m *nsq.Message, d time.Duration, b bool) { r.got = append(r.got, "req") }
func (r *zzRec) OnTouch(m *nsq.Message)                           {}

func TestZZAuditC20Redirect(t *testing.T) {
	for _, code := range []int{301, 302, 303, 307, 308} {
		var mu sync.Mutex
		var log []string
		mux := http.NewServeMux()
		mux.HandleFunc("/a0", func(w http.ResponseWriter, r *http.Request) {
			b, _ := io.ReadAll(r.Body)
			mu.Lock()
			log = append(log, fmt.Sprintf("/a0 %s body=%q -> %d", r.Method, b, code))
			mu.Unlock()
			w.Header().Set("Location", "/elsewhere")
			w.WriteHeader(code)
		})
		mux.HandleFunc("/elsewhere", func(w http.ResponseWriter, r *http.Request) {
			b, _ := io.ReadAll(r.Body)
			mu.Lock()
			log = append(log, fmt.Sprintf("/elsewhere %s body=%q -> 200", r.Method, b))
			mu.Unlock()
			w.WriteHeader(200)
		})
		srv := httptest.NewServer(mux)
		// exactly as main() builds it
		httpclient = &http.Client{Transport: http_api.NewDeadlineTransport(*httpConnectTimeout, *httpRequestTimeout), Timeout: *httpRequestTimeout}
		*sample = 1.0
		addr := srv.URL + "/a0"
		ph := &PublishHandler{Publisher: &PostPublisher{}, addresses: []string{addr}, mode: ModeRoundRobin,
			hostPool: hostpool.New([]string{addr}), perAddressStatus: map[string]*timer_metrics.TimerMetrics{addr: timer_metrics.NewTimerMetrics(0, "")},
			timermetrics: timer_metrics.NewTimerMetrics(0, "")}
		var mid nsq.MessageID
		copy(mid[:], "1")
		m := nsq.NewMessage(mid, []byte("payload"))
		rec := &zzRec{}
		m.Delegate = rec
		err := ph.HandleMessage(m)
		if err != nil {
			if !m.IsAutoResponseDisabled() {
				m.Requeue(-1)
			}
		} else if !m.IsAutoResponseDisabled() {
			m.Finish()
		}
		fmt.Printf("AUDIT POST first-status=%d err=%v response=%v log=%v\n", code, err, rec.got, log)
		srv.Close()
	}
}
