import Nsq.Props.C20
open Nsq.Model.Relay Nsq.Model.Relay.Http
#eval (step ⟨.roundRobin, 1, true, false⟩ 0 ⟨1, [112]⟩ false 0 (fun _ => some 302)).2
#eval (step ⟨.all, 0, true, false⟩ 0 ⟨1, [112]⟩ false 0 (fun _ => some 500)).2
#eval (step ⟨.hostPool, 2, true, false⟩ 0 ⟨1, [112]⟩ false 7 (fun a => if a = 7 then some 200 else none)).2
open Nsq.Model.Relay.N2N in
#eval (Nsq.Model.Relay.N2N.step ⟨true, 2, false⟩ ⟨0, [⟨9, 42, [1]⟩]⟩ (.result 0 true)).2
