import Nsq.Props.C15
open Nsq.Model.Registry Nsq.Model.Registry.AMap Nsq.Model.RegistryProto

-- model answers for paths the real router redirects (301/307)
example : route "GET" "/lookup/" = .notFound ∧ route "GET" "/LOOKUP" = .notFound ∧ route "POST" "/topic/create/" = .notFound
   ∧ route "OPTIONS" "*" = .notFound := by decide
example (c : Conf) (r : Registry) (a : HttpArgs) (now : Int) : (httpStep c r "GET" "/lookup/" a now).2 = 404 := by
  unfold httpStep; simp [show route "GET" "/lookup/" = .notFound by decide]
-- pprof: 200 whatever the arguments
example (c : Conf) (r : Registry) (a : HttpArgs) (now : Int) : (httpStep c r "GET" "/debug/pprof/heap" a now).2 = 200 := by
  unfold httpStep; simp [show route "GET" "/debug/pprof/heap" = .found .pprof by decide]
example (c : Conf) (r : Registry) (a : HttpArgs) (now : Int) : (httpStep c r "GET" "/debug/pprof/profile" a now).2 = 200 := by
  unfold httpStep; simp [show route "GET" "/debug/pprof/profile" = .found .pprof by decide]

-- reidentify: the branch of `identify` the theorem talks about is not reachable from execIdentify
example (v : Variant) (decode) (r : Registry) (p : Nat) (now : Int) (rest : List UInt8) (h : identifiedB r p = true) :
    execIdentify v decode r p now rest = .reply (disconnect r p) (.err .invalid (ascii "cannot IDENTIFY again")) rest := by
  unfold execIdentify; simp [h]

-- delete topic * wipes another connection's registrations with 200
def r0 : Registry := run init [.identify 1 ⟨[104], [110], [118], 1, 2⟩ 0, .register 1 [[116], [99]]]
example : (httpStep ⟨100, 100⟩ r0 "POST" "/topic/delete" ⟨false, some star, none, none⟩ 0).2 = 200 ∧
   qTopics (httpStep ⟨100, 100⟩ r0 "POST" "/topic/delete" ⟨false, some star, none, none⟩ 0).1 = [] ∧ qTopics r0 = [[116]] := by decide
