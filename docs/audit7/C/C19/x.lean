import Nsq.Props.C19
open Nsq.Model.ToFile Nsq.Proofs.ToFile Nsq.Props.C19

-- one durable record "ba\n" in one file
def fsOne : FS := FS.empty.set ⟨true, "t", 0⟩ ⟨[98, 97, 10], [], 3⟩

def mA1 : Msg := ⟨1, [97]⟩      -- body "a"  (never written as a record)
def mA2 : Msg := ⟨2, [97]⟩      -- duplicate body, other id
def mE  : Msg := ⟨3, []⟩        -- empty body

-- (1) Safe / the invariant accept three FINished messages backed by ONE record of a fourth message
theorem durS_infix (m : Msg) (a b : Bytes) (h : [98, 97, 10] = a ++ line m ++ b) : DurS fsOne (line m) := by
  refine ⟨⟨true, "t", 0⟩, ⟨[98, 97, 10], [], 3⟩, by simp [fsOne, FS.set], a, b, h, ?_⟩
  have := congrArg List.length h
  simp at this ⊢
  omega

example : Inv cfgPlain { init fsOne with finished := [mA1, mA2, mE] } := by
  refine ⟨?_, ?_, ?_⟩
  · intro m hm
    simp at hm
    rcases hm with rfl | rfl | rfl
    · exact durS_infix _ [98] [] (by decide)
    · exact durS_infix _ [98] [] (by decide)
    · exact durS_infix _ [98, 97] [] (by decide)
  · intro _ m hm; simp [init] at hm
  · intro _ h; simp [init] at h

example : Safe fsOne (line mA1) ∧ Safe fsOne (line mA2) ∧ Safe fsOne (line mE) :=
  ⟨safe_of_durS (durS_infix _ [98] [] (by decide)), safe_of_durS (durS_infix _ [98] [] (by decide)),
   safe_of_durS (durS_infix _ [98, 97] [] (by decide))⟩

-- (2) torn tail: pre-existing "bodyA" without newline, plain append mode; the model appends behind it and FINishes
def fsTorn : FS := FS.empty.set ⟨true, "t", 0⟩ ⟨[65], [], 1⟩
def cfgNoRev : Cfg := ⟨false, 0, 0, false, false, 1, false⟩
#eval (run cfgNoRev (fun _ => .ok) (init fsTorn) [(.msg ⟨1, [66]⟩ 0 "t", false)]).finished.map (·.id)
#eval ((run cfgNoRev (fun _ => .ok) (init fsTorn) [(.msg ⟨1, [66]⟩ 0 "t", false)]).fs.get ⟨true, "t", 0⟩).map (·.data)

-- (3) the io schedule cannot make a write partial: after any single fault the file holds all of a body or none
#eval ((run cfgNoRev (fun k => if k = 1 then .kill else .ok) (init FS.empty) [(.msg ⟨1, [66, 67, 68]⟩ 0 "t", false)]).fs.get ⟨true, "t", 0⟩).map (·.data)
#eval ((run cfgNoRev (fun k => if k = 2 then .kill else .ok) (init FS.empty) [(.msg ⟨1, [66, 67, 68]⟩ 0 "t", false)]).fs.get ⟨true, "t", 0⟩).map (·.data)

-- (4) max-in-flight 0: model panics
#eval repr (run { cfgNoRev with maxInFlight := 0 } (fun _ => .ok) (init FS.empty) [(.msg ⟨1, [66]⟩ 0 "t", false)]).status
