import Nsq.Props.C16Ticks
open Nsq.Model.LookupSync Nsq.Props.C16

-- T8: precreate passes "" and names with spaces/newlines verbatim; the state machine refuses createChan t ""
#eval precreate [some ["", "a b", "x\nUNREGISTER other"], none]
#eval (step { State.init with objs := [⟨"t","",0⟩], nextGen := 1 } (.createChan "t" "")).isSome
-- T3: unlink of a live (non-exiting) object is not a model step (Go: topic.go:398 unlinks a channel before channel.Delete sets its flag;
-- topic.go:163 unlinks by NAME whatever object is there)
#eval (step { State.init with objs := [⟨"t","",0⟩, ⟨"t","c",1⟩], nextGen := 2 } (.delUnlink ⟨"t","c",1⟩)).isSome
-- a Go-reachable end state (double delete + re-create, name-unlink): lookupd up and holding (t,c), nsqd maps without c, nothing pending
def goState : State := { objs := [⟨"t","",0⟩], dead := [], bag := [], peers := [⟨0,.up,[("t","c"),("t","")]⟩], nextGen := 3 }
example : Quiescent goState ∧ ¬ InSync goState := by
  refine ⟨⟨rfl, by intro r hr; simp [goState]⟩, ?_⟩
  intro h
  have := (h ⟨0,.up,[("t","c"),("t","")]⟩ (by simp [goState]) rfl ("t","c")).mp (by simp)
  obtain ⟨r, hr, hk⟩ := this
  simp [goState] at hr
  subst hr
  simp [Ref.key] at hk
-- vacuity: in_sync_within_two_ticks says nothing about a lookupd that is not (or no longer) in the peer list
example : ∀ p ∈ (State.init).peers, p.addr = 7 → p.conn = .up := by intro p hp; simp [State.init] at hp
