import Nsq.Props.C12
open Nsq.Model.Guid
-- a factory whose last id is from 2025, clock reading in 2084 (3.6e18 ns < 2^63): every call fails, whatever the sequence
def f25 : St := { nodeID := 1#64, seq := 0#64, lastTs := (1750000000000000000#64).sshiftRight 20, lastID := pack ((1750000000000000000#64).sshiftRight 20) 1#64 0#64 }
def now84 : BitVec 64 := 3700000000000000000#64
example : (newGUID f25 now84).2.2 = .idBackwards := by decide
example : (generateID f25 (List.replicate 50 now84)).2 = none := by decide
example : (generateID f25 [now84, now84 + 2000000#64, now84 + 9000000#64, now84 + 900000000000#64]).2 = none := by decide
#print axioms Nsq.Props.C12.ids_strictly_increasing
