import Nsq.Props.C09
open Nsq.Model.ProtoV2 Nsq.Model.Names Nsq.Model Nsq.Spec.ProtoSpec Nsq.Proofs.ProtoV2
def subd : ConnState := { Examples.conn with st := .subscribed, inflight := [ascii "0123456789abcdef"] }
-- hypotheses of rdy_exact / req_clamp / dpub_exact are satisfiable (no example in Props)
#eval (rdy Examples.conf subd [] [cRDY, ascii "007"] []).eff
#eval (req Examples.conf subd [] [cREQ, ascii "0123456789abcdef", ascii "99999999"] []).eff
#eval (dpub Examples.conf Examples.conn [] [cDPUB, ascii "t", ascii "5"] [0,0,0,1,97]).eff
-- accepted IDENTIFY needs a decoder that returns something
def idd : IdentifyData := { heartbeat := 1000, outBufSize := 64, outBufTimeout := 25, msgTimeout := 1000, sampleRate := 99,
  featureNegotiation := true, tlsv1 := false, deflate := true, snappy := true }
def confJ : Conf := { Examples.conf with decode := fun _ => some idd, deflateEnabled := true, snappyEnabled := true }
#eval ioLoop confJ Examples.conn (magicV2 ++ ascii "IDENTIFY\n" ++ [0,0,0,1,97] ++ ascii "NOP\n")
-- over-declared MPUB: the undeclared tail of the declared body is executed as commands
#eval ioLoop Examples.conf Examples.conn (magicV2 ++ ascii "MPUB t\n" ++ [0,0,0,60] ++ Mpub.encode [[97]] ++ ascii "PUB evil\n" ++ [0,0,0,1,98])
