package nsqd

import (
	"bytes"
	"encoding/binary"
	"errors"
	"fmt"
	"io"
	"net"
	"net/http"
	"net/http/httptest"
	"net/url"
	"os"
	"testing"
	"time"

	"github.com/nsqio/go-nsq"
	"github.com/nsqio/nsq/internal/test"
)

type zzFailBackend struct {
	BackendQueue
	n      int
	failAt int
}

func (b *zzFailBackend) Put(p []byte) error {
	b.n++
	if b.n >= b.failAt {
		return errors.New("zz: disk write failed")
	}
	return b.BackendQueue.Put(p)
}

func zzReadFrame(c net.Conn) (int32, string, error) {
	c.SetReadDeadline(time.Now().Add(3 * time.Second))
	var hdr [8]byte
	if _, err := io.ReadFull(c, hdr[:]); err != nil {
		return 0, "", err
	}
	sz := binary.BigEndian.Uint32(hdr[:4])
	ft := int32(binary.BigEndian.Uint32(hdr[4:8]))
	data := make([]byte, sz-4)
	if _, err := io.ReadFull(c, data); err != nil {
		return 0, "", err
	}
	return ft, string(data), nil
}

// T1: MPUB answered with a fatal error (E_MPUB_FAILED) after a PREFIX of the batch was enqueued.
func TestZZC09MpubPartial(t *testing.T) {
	opts := NewOptions()
	opts.Logger = test.NewTestLogger(t)
	opts.LogLevel = LOG_ERROR
	opts.MemQueueSize = 0
	tcpAddr, _, nsqd := mustStartNSQD(opts)
	defer os.RemoveAll(opts.DataPath)
	defer nsqd.Exit()

	topic := nsqd.GetTopic("zzt")
	topic.Pause() // keep the messages at the topic
	topic.backend = &zzFailBackend{BackendQueue: topic.backend, failAt: 3}

	conn, err := mustConnectNSQD(tcpAddr)
	test.Nil(t, err)
	defer conn.Close()

	var batch bytes.Buffer
	binary.Write(&batch, binary.BigEndian, int32(4))
	for i := 0; i < 4; i++ {
		binary.Write(&batch, binary.BigEndian, int32(2))
		batch.WriteString("hi")
	}
	var w bytes.Buffer
	w.WriteString("MPUB zzt\n")
	binary.Write(&w, binary.BigEndian, int32(batch.Len()))
	w.Write(batch.Bytes())
	w.WriteString("NOP\nPUB zzt\n\x00\x00\x00\x02yo")
	conn.Write(w.Bytes())
	ft, data, err := zzReadFrame(conn)
	fmt.Printf("ZZ-T1 reply: frame=%d data=%q err=%v\n", ft, data, err)
	_, _, err2 := zzReadFrame(conn)
	fmt.Printf("ZZ-T1 next read err=%v (connection closed?)\n", err2)
	fmt.Printf("ZZ-T1 topic depth=%d message_count=%d (batch of 4; all-or-nothing would be 0 or 4)\n",
		topic.Depth(), topic.messageCount)
}

// T2: max-channel-consumers: a first connection makes the SECOND client's SUB fail (E_SUB_FAILED):
// the answer to a well-formed SUB depends on what other connections did to the broker.
func TestZZC09MaxConsumers(t *testing.T) {
	opts := NewOptions()
	opts.Logger = test.NewTestLogger(t)
	opts.LogLevel = LOG_ERROR
	opts.MaxChannelConsumers = 1
	tcpAddr, _, nsqd := mustStartNSQD(opts)
	defer os.RemoveAll(opts.DataPath)
	defer nsqd.Exit()

	a, err := mustConnectNSQD(tcpAddr)
	test.Nil(t, err)
	defer a.Close()
	a.Write([]byte("SUB zzt ch\n"))
	ft, data, err := zzReadFrame(a)
	fmt.Printf("ZZ-T2 client A SUB: frame=%d data=%q err=%v\n", ft, data, err)

	b, err := mustConnectNSQD(tcpAddr)
	test.Nil(t, err)
	defer b.Close()
	b.Write([]byte("SUB zzt ch\nNOP\n"))
	ft, data, err = zzReadFrame(b)
	fmt.Printf("ZZ-T2 client B SUB (same bytes as A): frame=%d data=%q err=%v\n", ft, data, err)
	_, _, err2 := zzReadFrame(b)
	fmt.Printf("ZZ-T2 client B next read err=%v\n", err2)
}

// T3: AUTH twice on one connection, and a per-topic authorization: the gate is not a per-connection constant.
func TestZZC09AuthTwice(t *testing.T) {
	authd := httptest.NewServer(http.HandlerFunc(func(w http.ResponseWriter, r *http.Request) {
		fmt.Fprint(w, `{"ttl":3600,"identity":"x","authorizations":[{"topic":"ok","channels":[".*"],"permissions":["publish","subscribe"]}]}`)
	}))
	defer authd.Close()
	addr, _ := url.Parse(authd.URL)
	opts := NewOptions()
	opts.Logger = test.NewTestLogger(t)
	opts.LogLevel = LOG_ERROR
	opts.AuthHTTPAddresses = []string{addr.Host}
	tcpAddr, _, nsqd := mustStartNSQD(opts)
	defer os.RemoveAll(opts.DataPath)
	defer nsqd.Exit()

	c, err := mustConnectNSQD(tcpAddr)
	test.Nil(t, err)
	defer c.Close()
	auth, _ := nsq.Auth("secret")
	auth.WriteTo(c)
	ft, data, err := zzReadFrame(c)
	fmt.Printf("ZZ-T3 AUTH #1: frame=%d data=%q err=%v\n", ft, data, err)
	c.Write([]byte("PUB ok\n\x00\x00\x00\x02hi"))
	ft, data, err = zzReadFrame(c)
	fmt.Printf("ZZ-T3 PUB ok: frame=%d data=%q err=%v\n", ft, data, err)
	auth.WriteTo(c)
	ft, data, err = zzReadFrame(c)
	fmt.Printf("ZZ-T3 AUTH #2: frame=%d data=%q err=%v\n", ft, data, err)

	c2, err := mustConnectNSQD(tcpAddr)
	test.Nil(t, err)
	defer c2.Close()
	auth.WriteTo(c2)
	ft, data, err = zzReadFrame(c2)
	fmt.Printf("ZZ-T3b AUTH: frame=%d data=%q err=%v\n", ft, data, err)
	c2.Write([]byte("PUB ok\n\x00\x00\x00\x02hi"))
	ft, data, err = zzReadFrame(c2)
	fmt.Printf("ZZ-T3b PUB ok: frame=%d data=%q err=%v\n", ft, data, err)
	c2.Write([]byte("PUB other\n\x00\x00\x00\x02hi"))
	ft, data, err = zzReadFrame(c2)
	fmt.Printf("ZZ-T3b PUB other (same connection, gate differs per topic): frame=%d data=%q err=%v\n", ft, data, err)
}

// T4: pipelined bytes after a negotiated snappy upgrade: what happens to the bytes already buffered?
func TestZZC09UpgradePipelined(t *testing.T) {
	opts := NewOptions()
	opts.Logger = test.NewTestLogger(t)
	opts.LogLevel = LOG_ERROR
	opts.SnappyEnabled = true
	tcpAddr, _, nsqd := mustStartNSQD(opts)
	defer os.RemoveAll(opts.DataPath)
	defer nsqd.Exit()
	c, err := mustConnectNSQD(tcpAddr)
	test.Nil(t, err)
	defer c.Close()
	body := []byte(`{"feature_negotiation":true,"snappy":true}`)
	var w bytes.Buffer
	w.WriteString("IDENTIFY\n")
	binary.Write(&w, binary.BigEndian, int32(len(body)))
	w.Write(body)
	w.WriteString("PUB zzt\n\x00\x00\x00\x02hi") // plain bytes pipelined in the same segment
	c.Write(w.Bytes())
	ft, data, err := zzReadFrame(c)
	fmt.Printf("ZZ-T4 IDENTIFY: frame=%d len=%d err=%v\n", ft, len(data), err)
	time.Sleep(300 * time.Millisecond)
	tp, e := nsqd.GetExistingTopic("zzt")
	fmt.Printf("ZZ-T4 topic zzt exists=%v err=%v (pipelined plain PUB after the negotiated upgrade)\n", tp != nil, e)
}
