package nsqd

import (
	"fmt"
	"os"
	"testing"
	"time"

	"github.com/nsqio/nsq/internal/test"
)

// option value output-buffer-timeout=0: what does one connection (magic only) do to the daemon?
func TestZZC09ObtZero(t *testing.T) {
	opts := NewOptions()
	opts.Logger = test.NewTestLogger(t)
	opts.LogLevel = LOG_ERROR
	opts.OutputBufferTimeout = 0
	tcpAddr, _, nsqd := mustStartNSQD(opts)
	defer os.RemoveAll(opts.DataPath)
	defer nsqd.Exit()
	c, err := mustConnectNSQD(tcpAddr)
	test.Nil(t, err)
	c.Write([]byte("NOP\n"))
	time.Sleep(500 * time.Millisecond)
	fmt.Println("ZZ-T5 still alive after a connection with output-buffer-timeout=0")
}
