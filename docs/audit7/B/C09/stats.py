import sys, json, struct, re, collections
d = sys.argv[1]
ops = open(d + "/proto.ops").read().splitlines()
impl = open(d + "/proto.impl").read().splitlines()
NAME = re.compile(rb"^[.a-zA-Z0-9_-]+(#ephemeral)?$")
def valid(n): return 1 <= len(n) <= 64 and NAME.match(n) is not None
confs = {}
for o in ops:
    w = o.split()
    if w and w[0] == "conf":
        k = ["maxMsg","maxBody","maxRdy","maxReqNs","maxHbMs","minObtMs","maxObtMs","maxObSize","maxMtMs","tlsGate","tlsConf","deflate","snappy","hbNs","obtNs","mtNs"]
        confs[w[1]] = {n:int(v) for n,v in zip(k,w[2:])}
C = collections.Counter()
def b10(p):
    if not p or not p.isdigit() or any(c>57 or c<48 for c in p): return None
    v = int(p)
    return v if v < 2**64 else None
def i32(b): return struct.unpack(">i", b)[0]
def walk(conf, s, replies, end):
    """approximate re-implementation used only to label (state, command, outcome); driven by the real replies"""
    st = "init"; hb = conf["hbNs"]; ri = 0; ncmd = 0; nident_ok = 0
    pos = 0
    while True:
        nl = s.find(b"\n", pos)
        if nl < 0: return
        line = s[pos:nl]
        if len(line) >= 16384: C["line:toolong"] += 1; return
        pos = nl + 1
        if line.endswith(b"\r"): line = line[:-1]
        ps = line.split(b" ")
        cmd = ps[0]
        ncmd += 1
        name = cmd.decode("latin1") if cmd in (b"IDENTIFY",b"FIN",b"RDY",b"REQ",b"PUB",b"MPUB",b"DPUB",b"NOP",b"TOUCH",b"SUB",b"CLS",b"AUTH") else "unknown"
        def reply():
            nonlocal ri
            r = replies[ri] if ri < len(replies) else None
            ri += 1
            return r
        key = "%s@%s" % (name, st)
        if conf["tlsGate"] == 0 and name != "IDENTIFY":
            C["tlsgate:"+name] += 1; return
        if name == "unknown":
            C[key+":E"] += 1; return
        if name == "NOP": C[key+":ok"] += 1; continue
        if name == "IDENTIFY":
            if st != "init": C[key+":E_INVALID"] += 1; return
            r = reply()
            C[key+":"+str(r)] += 1
            if r not in ("OK","JSON"): return
            n = i32(s[pos:pos+4]); body = s[pos+4:pos+4+n]; pos += 4+n
            nident_ok += 1
            if nident_ok == 2: C["IDENTIFY:second-accepted"] += 1
            try: dd = json.loads(body)
            except Exception: dd = {}
            if isinstance(dd, dict):
                for k,(lo,hi) in {"heartbeat_interval":(1000,conf["maxHbMs"]),"output_buffer_size":(64,conf["maxObSize"]),
                                  "output_buffer_timeout":(conf["minObtMs"],conf["maxObtMs"]),"msg_timeout":(1000,conf["maxMtMs"]),"sample_rate":(0,99)}.items():
                    v = dd.get(k)
                    if isinstance(v,int) and not isinstance(v,bool):
                        lab = "lo" if v==lo else "hi" if v==hi else "-1" if v==-1 else "0" if v==0 else "mid"
                        C["IDENTIFY-accepted:%s=%s" % (k,lab)] += 1
                hbv = dd.get("heartbeat_interval")
                if isinstance(hbv,int) and not isinstance(hbv,bool):
                    if hbv == -1: hb = 0
                    elif hbv != 0: hb = hbv*10**6
                if dd.get("feature_negotiation") is True:
                    C["IDENTIFY-accepted:feature_negotiation"] += 1
                    for f in ("snappy","deflate","tls_v1"):
                        if dd.get(f) is True: C["IDENTIFY-accepted:fn+"+f] += 1
            if end == "upgraded" and r == "JSON" and ri == len(replies): return
            continue
        if name == "AUTH":
            if st != "init" or len(ps) != 1: C[key+":E_INVALID"] += 1; return
            r = reply(); C[key+":"+str(r)] += 1; return
        if name == "SUB":
            r = reply();
            if st != "init": C[key+":"+str(r)] += 1; return
            if hb <= 0: C["SUB@init-hb-off:"+str(r)] += 1; return
            C[key+":"+str(r)] += 1
            if r != "OK": return
            st = "subscribed"; continue
        if name == "CLS":
            r = reply(); C[key+":"+str(r)] += 1
            if r != "CLOSE_WAIT": return
            st = "closing"; continue
        if name == "RDY":
            if st == "closing": C[key+":ignored"] += 1; continue
            if st != "subscribed": C[key+":E_INVALID"] += 1; return
            if len(ps) > 1:
                v = b10(ps[1])
                if v is None: C[key+":E_INVALID(num)"] += 1; return
                if v >= 2**63 or v > conf["maxRdy"]: C[key+":E_INVALID(range)"] += 1; return
                lab = "max" if v == conf["maxRdy"] else "0" if v == 0 else "mid"
                C[key+":ok="+lab] += 1
            else: C[key+":ok=default"] += 1
            continue
        if name in ("FIN","TOUCH","REQ"):
            if st not in ("subscribed","closing"): C[key+":E_INVALID"] += 1; return
            need = 3 if name == "REQ" else 2
            if len(ps) < need: C[key+":E_INVALID(params)"] += 1; return
            if len(ps[1]) != 16: C[key+":E_INVALID(id)"] += 1; return
            if name == "REQ" and b10(ps[2]) is None: C[key+":E_INVALID(num)"] += 1; return
            r = reply(); C[key+":"+str(r)] += 1
            continue
        if name in ("PUB","DPUB"):
            r = reply(); C[key+":"+str(r)] += 1
            if r != "OK": return
            n = i32(s[pos:pos+4]); pos += 4+n
            continue
        if name == "MPUB":
            r = reply()
            lab = str(r)
            if len(ps) >= 2 and valid(ps[1]) and len(s) >= pos+8:
                n = i32(s[pos:pos+4]); cnt = i32(s[pos+4:pos+8])
                if 0 < n <= conf["maxBody"] and 0 < cnt <= (conf["maxBody"]-4)//5:
                    # walk the batch: which message index is bad?
                    body = s[pos+4:pos+4+n]; q = 4; bad = None
                    for i in range(cnt):
                        if q+4 > len(body): bad = i; break
                        sz = i32(body[q:q+4])
                        if sz <= 0 or sz > conf["maxMsg"] or q+4+sz > len(body): bad = i; break
                        q += 4+sz
                    if bad is not None:
                        lab += "(bad-msg#%s-of-%d)" % ("0" if bad == 0 else "mid" if bad < cnt-1 else "last", min(cnt,9))
                    else:
                        lab += "(batch ok, count=%d%s)" % (min(cnt,9), ", overdeclared" if q < n else "")
                        if r == "OK": pos += 4 + q
            C[key+":"+lab] += 1
            if r != "OK": return
            continue
nio = 0
for o,a in zip(ops,impl):
    w = o.split()
    if w[0] != "io": continue
    nio += 1
    conf = confs[w[1]]
    s = bytes.fromhex(w[2]) if w[2] != "-" else b""
    f = dict(x.split("=",1) for x in a.split() if "=" in x)
    replies = [] if f.get("R","-") == "-" else f["R"].split(",")
    C["conf:"+w[1]] += 1
    if not s.startswith(b"  V2"): continue
    try: walk(conf, s[4:], replies, f.get("E"))
    except Exception as e: C["walker-error"] += 1
print("io ops", nio)
for k in sorted(C): print("%6d %s" % (C[k], k))
