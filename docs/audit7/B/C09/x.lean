import Nsq.Props.C09
open Nsq.Model.ProtoV2 Nsq.Model.Names Nsq.Model Nsq.Spec.ProtoSpec Nsq.Proofs.ProtoV2

def body2 : Bytes := [0,0,0,2,104,105]
def confA (a : AuthCmd) (g : Option Code) : Conf := { Examples.conf with authCmd := a, authGate := g }

-- T3 (real nsqd): AUTH, PUB ok, AUTH  ->  JSON, OK, E_INVALID(closed).  Model: no per-connection constant gives it.
def streamT3 : Bytes := magicV2 ++ ascii "AUTH\n" ++ body2 ++ ascii "PUB ok\n" ++ body2 ++ ascii "AUTH\n" ++ body2
example : ∀ a : AuthCmd, ioLoop (confA a none) Examples.conn streamT3 ≠ ([.json, .ok, .err .E_INVALID], .closed) := by
  intro a; cases a <;> decide
#eval AuthCmd.ok |> fun a => ioLoop (confA a none) Examples.conn streamT3
#eval AuthCmd.alreadySet |> fun a => ioLoop (confA a none) Examples.conn streamT3

-- T3b (real): AUTH, PUB ok -> OK, PUB other -> E_UNAUTHORIZED.  Model: authGate is one value for the whole connection.
def streamT3b : Bytes := magicV2 ++ ascii "AUTH\n" ++ body2 ++ ascii "PUB ok\n" ++ body2 ++ ascii "PUB other\n" ++ body2
example : ∀ a : AuthCmd, ioLoop (confA a none) Examples.conn streamT3b ≠ ([.json, .ok, .err .E_UNAUTHORIZED], .closed) := by
  intro a; cases a <;> decide
example : ∀ a : AuthCmd, ioLoop (confA a (some .E_UNAUTHORIZED)) Examples.conn streamT3b ≠ ([.json, .ok, .err .E_UNAUTHORIZED], .closed) := by
  intro a; cases a <;> decide

-- T2: SUB succeeds in the model whatever the broker holds (clients = 1000000 on the channel)
def crowded : Broker := [{ name := ascii "zzt", paused := false, count := 0, msgs := [],
  chans := [{ name := ascii "ch", paused := false, clients := 1000000, msgs := [] }] }]
#eval (serve Examples.conf Examples.conn crowded (magicV2 ++ ascii "SUB zzt ch\nNOP\n")).replies
#eval (serve Examples.conf Examples.conn crowded (magicV2 ++ ascii "SUB zzt ch\nNOP\n")).fin

-- a normal consumer flow (FIN of a message delivered during the connection) - from a fresh connection every FIN fails
#eval ioLoop Examples.conf Examples.conn (magicV2 ++ ascii "SUB t c\nRDY 1\nFIN 0123456789abcdef\n")

#print axioms Nsq.Props.C09.answers_independent_of_broker
#check @Nsq.Props.C09.answers_independent_of_broker
-- is there ANY accepted IDENTIFY example around? (Examples.conf.decode = fun _ => none)
#eval (Examples.conf.decode [])
