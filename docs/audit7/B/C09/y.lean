import Nsq.Props.C09
open Nsq.Model.ProtoV2 Nsq.Model.Names Nsq.Model Nsq.Spec.ProtoSpec Nsq.Proofs.ProtoV2
def ch1 : Chan := { name := ascii "ch", paused := false, clients := 1000000, msgs := [] }
def crowded : Broker := [{ name := ascii "zzt", paused := false, count := 0, msgs := [], chans := [ch1] }]
#eval (serve Examples.conf Examples.conn crowded (magicV2 ++ ascii "SUB zzt ch\nNOP\n")).replies
#eval (serve Examples.conf Examples.conn crowded (magicV2 ++ ascii "SUB zzt ch\nNOP\n")).fin
-- the spec table too: SUB has no defect whatever the broker
#eval allowed Examples.conf Examples.conn [cSUB, ascii "zzt", ascii "ch"] []
