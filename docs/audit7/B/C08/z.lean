import Nsq.Props.C08
open Nsq.Model
-- message 1 delivered (map+heap); REQ 0 pops it from the map; a full Channel.Empty runs; REQ resumes and re-queues; it is delivered again
def sch : List InFlight.Step :=
  [.put 1, .startMapPush 7 1 100, .startPQPush 1, .reqPop 7 1 0,
   .emptyResetInflight, .emptyResetDeferred, .emptyRest,
   .reqRemove 1, .reqPut 1, .startMapPush 8 1 200, .startPQPush 1]
#eval (match InFlight.run true (InFlight.initSt []) sch with
  | .ok s => (s.map, s.h.pq, s.queued, s.conts.length)
  | _ => ([], [], [], 99))
-- same with the timeout scan (scanAtomic) instead of REQ
def sch2 : List InFlight.Step :=
  [.put 1, .startMapPush 7 1 100, .startPQPush 1, .scanPeek 500,
   .emptyResetInflight, .emptyResetDeferred, .emptyRest, .scanPop 1, .startMapPush 8 1 900, .startPQPush 1]
#eval (match InFlight.run true { InFlight.initSt [] with scanAtomic := true } sch2 with
  | .ok s => (s.map, s.h.pq, s.queued, s.conts.length)
  | _ => ([], [], [], 99))
