//go:build verif

package nsqd

import (
	"fmt"
	"net"
	"os"
	"path/filepath"
	"sync"
	"sync/atomic"
	"testing"
	"time"
)

type audConn struct {
	closed int32
}

func (c *audConn) Read(b []byte) (int, error)         { time.Sleep(time.Hour); return 0, nil }
func (c *audConn) Write(b []byte) (int, error)        { return len(b), nil }
func (c *audConn) Close() error                       { atomic.StoreInt32(&c.closed, 1); return nil }
func (c *audConn) LocalAddr() net.Addr                { return &net.TCPAddr{} }
func (c *audConn) RemoteAddr() net.Addr               { return &net.TCPAddr{} }
func (c *audConn) SetDeadline(t time.Time) error      { return nil }
func (c *audConn) SetReadDeadline(t time.Time) error  { return nil }
func (c *audConn) SetWriteDeadline(t time.Time) error { return nil }

type audNull struct{}

func (audNull) Output(int, string) error { return nil }

func audOpts(dir string) *Options {
	opts := NewOptions()
	opts.Logger = audNull{}
	opts.LogLevel = LOG_FATAL
	opts.TCPAddress = "127.0.0.1:0"
	opts.HTTPAddress = "127.0.0.1:0"
	opts.HTTPSAddress = "127.0.0.1:0"
	opts.DataPath = dir
	opts.QueueScanInterval = time.Hour
	opts.QueueScanRefreshInterval = time.Hour
	return opts
}

func TestAudChanDoubleDelete(t *testing.T) {
	dir := t.TempDir()
	opts := audOpts(dir)
	opts.MemQueueSize = 0
	n, err := New(opts)
	if err != nil {
		t.Fatal(err)
	}
	go n.Main()
	defer VerifClearHooks()
	tp := n.GetTopic("t")
	old := tp.GetChannel("c")
	c1 := &audConn{}
	old.AddClient(1, newClientV2(1, c1, n))

	var first int32
	parked := make(chan struct{})
	release := make(chan struct{})
	VerifSetHook("chan.delete.beforeUnlink", func(string) {
		if atomic.CompareAndSwapInt32(&first, 0, 1) {
			close(parked)
			<-release
		}
	})
	d1 := make(chan error, 1)
	go func() { d1 <- tp.DeleteExistingChannel("c") }()
	<-parked
	// D2: second deletion of the same name while D1 is between Channel.Delete() and the unlink
	d2err := tp.DeleteExistingChannel("c")
	fresh := tp.GetChannel("c")
	c2 := &audConn{}
	adderr := fresh.AddClient(2, newClientV2(2, c2, n))
	for i := 0; i < 3; i++ {
		fresh.PutMessage(NewMessage(tp.GenerateID(), []byte("abc")))
	}
	close(release)
	e1 := <-d1
	_, getErr := tp.GetExistingChannel("c")
	files, _ := filepath.Glob(filepath.Join(dir, "t:c.diskqueue*"))
	fmt.Printf("AUD chan_double_delete d1=%v d2=%v fresh_is_old=%v add=%v fresh_in_map=%v fresh_exiting=%v fresh_depth=%d consumer2_closed=%v consumer1_closed=%v files=%d\n",
		e1, d2err, fresh == old, adderr, getErr == nil, fresh.Exiting(), fresh.Depth(), atomic.LoadInt32(&c2.closed) == 1, atomic.LoadInt32(&c1.closed) == 1, len(files))
	// stats view
	for _, ts := range n.GetStats("t", "", true).Topics {
		fmt.Printf("AUD stats topic=%s channels=%d\n", ts.TopicName, len(ts.Channels))
	}
	// re-create once more: does it start empty?
	again := tp.GetChannel("c")
	time.Sleep(50 * time.Millisecond)
	fmt.Printf("AUD recreated_again is_fresh=%v depth=%d\n", again == fresh, again.Depth())
	done := make(chan struct{})
	go func() { n.Exit(); close(done) }()
	select {
	case <-done:
	case <-time.After(5 * time.Second):
		fmt.Println("AUD exit blocked")
		os.Exit(3)
	}
	fmt.Printf("AUD after_exit fresh_exiting=%v consumer2_closed=%v\n", fresh.Exiting(), atomic.LoadInt32(&c2.closed) == 1)
}

func TestAudEphemeralAutoDeleteRacesSub(t *testing.T) {
	dir := t.TempDir()
	n, err := New(audOpts(dir))
	if err != nil {
		t.Fatal(err)
	}
	go n.Main()
	tp := n.GetTopic("t")
	ch := tp.GetChannel("e#ephemeral")
	c1 := &audConn{}
	ch.AddClient(1, newClientV2(1, c1, n))
	tp.Lock() // park the async deleteCallback (DeleteExistingChannel starts with t.RLock)
	ch.RemoveClient(1)
	time.Sleep(100 * time.Millisecond)
	c2 := &audConn{}
	adderr := ch.AddClient(2, newClientV2(2, c2, n))
	exitingAtSubCheck := ch.Exiting() // what SUB's re-check sees
	tp.Unlock()
	time.Sleep(300 * time.Millisecond)
	_, getErr := tp.GetExistingChannel("e#ephemeral")
	fmt.Printf("AUD eph_autodelete_races_sub add=%v exiting_at_sub_check=%v -> SUB answered OK; afterwards channel_in_map=%v exiting=%v consumer2_closed=%v\n",
		adderr, exitingAtSubCheck, getErr == nil, ch.Exiting(), atomic.LoadInt32(&c2.closed) == 1)
	n.Exit()
}

var _ = sync.Mutex{}
