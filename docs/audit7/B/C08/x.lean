import Nsq.Props.C08
import Nsq.Props.C08TopicDelete
import Nsq.Tie.TopicDelete
open Nsq.Model Nsq.Model.Life

#print axioms Nsq.Props.C08.no_fault
#print axioms Nsq.Props.C08TopicDelete.no_zombie_fixed
#print axioms Nsq.Props.C08.lock_only_deadlock_free
#check @Nsq.Props.C08TopicDelete.no_zombie_fixed
#check @Nsq.Props.C08.lock_only_deadlock_free

-- (1) channel-level double delete in the Life model: D1.begin ; D2 = begin(→exiting, no unlink in model) ;
-- an unlink (Go: D2's) ; re-create ; publish ; D1's unlink
def s0 : St := run (init 0) [.createTopic "t" false, .createChan "t" "c" false]
def m1 : Msg := { id := 1, ts := 0, attempts := 0, body := [] }
#eval (step (run s0 [.deleteChanBegin "t" "c"]) (.deleteChanBegin "t" "c")).2          -- model: exiting (Go: nil + unlink)
#eval (step (run s0 [.deleteChanBegin "t" "c", .deleteChanUnlink "t" "c", .createChan "t" "c" false, .pub "t" m1, .pump "t"]) (.deleteChanUnlink "t" "c")).2  -- model: notAllowed (Go: unlinks the fresh channel)
#eval ((getChan (run s0 [.deleteChanBegin "t" "c", .deleteChanUnlink "t" "c", .createChan "t" "c" false, .pub "t" m1, .pump "t", .deleteChanUnlink "t" "c"]) "t" "c").map (fun C => (C.exiting, C.located.length)))

-- (2) the tree-selection: property theorems do not mention treeModel; the tie is a 4-way disjunction
#print Nsq.Tie.TopicDelete.tree_model_known
example : Nsq.Tie.TopicDelete.treeModel = TopicDelete.fixedTree := by decide

-- (3) dropping every edge with exitMutex (= a tree where exit() no longer locks) is still "acyclic"
example : LifeLock.acyclicB (Nsq.Gen.Life.lockEdges.filter (fun e => e.1 != "Channel.exitMutex" && e.2 != "Channel.exitMutex")) = true := by decide
example : LifeLock.acyclicB [] = true := by decide
example : ∀ hs, ¬ LifeLock.DeadlockCycle [] hs := Nsq.Proofs.LifeLock.no_deadlock_cycle (by decide)

-- (4) ephemeral with memCap = 0 : model drops every message (Go: unbuffered chan can hand over to a waiting consumer)
#eval ((Chan.put 0 { name := "e#", eph := true } m1).queue.length)

-- (5) emptyChan on an exiting channel: model no-op
#eval (step (run s0 [.deleteChanBegin "t" "c"]) (.emptyChan "t" "c")).2
