package nsqlookupd

import (
	"net/http"
	"net/http/httptest"
	"strings"
	"sync"
	"sync/atomic"
	"testing"
	"time"
)

func auditSrv(t *testing.T) (*NSQLookupd, *httpServer) {
	opts := NewOptions()
	opts.TCPAddress = "127.0.0.1:0"
	opts.HTTPAddress = "127.0.0.1:0"
	opts.Logger = nil
	opts.LogLevel = LOG_FATAL
	l, err := New(opts)
	if err != nil {
		t.Fatal(err)
	}
	return l, newHTTPServer(l)
}

func auditDo(s *httpServer, method, url string) (int, string) {
	req := httptest.NewRequest(method, url, nil)
	w := httptest.NewRecorder()
	s.ServeHTTP(w, req)
	return w.Code, w.Body.String()
}

// Every atomic snapshot of the registry has topic t together with channel c or neither
// (AddTopicChannel and RemoveTopic are one critical section each). A /lookup answering 200
// with an empty channel list is an answer no serial order of the calls explains.
func TestAuditTornLookup(t *testing.T) {
	l, s := auditSrv(t)
	defer l.Exit()
	var stop int32
	var wg sync.WaitGroup
	wg.Add(1)
	go func() {
		defer wg.Done()
		for atomic.LoadInt32(&stop) == 0 {
			auditDo(s, "POST", "/channel/create?topic=t&channel=c")
			auditDo(s, "POST", "/topic/delete?topic=t")
		}
	}()
	torn, n200, n404 := 0, 0, 0
	deadline := time.Now().Add(8 * time.Second)
	for time.Now().Before(deadline) {
		code, body := auditDo(s, "GET", "/lookup?topic=t")
		if code == 200 {
			n200++
			if strings.Contains(body, `"channels":[]`) {
				torn++
			}
		} else if code == 404 {
			n404++
		}
	}
	atomic.StoreInt32(&stop, 1)
	wg.Wait()
	t.Logf("AUDIT torn=%d ok200=%d 404=%d", torn, n200, n404)
	if torn > 0 {
		t.Errorf("AUDIT-TORN /lookup answered 200 with channels [] %d times", torn)
	}
}

// tombstone vs lookup: unsynchronised write/read of Producer.tombstoned / tombstonedAt
func TestAuditTombstoneRace(t *testing.T) {
	l, s := auditSrv(t)
	defer l.Exit()
	pi := &PeerInfo{id: "1.2.3.4:5", BroadcastAddress: "h", HTTPPort: 1, TCPPort: 2, Version: "v", lastUpdate: time.Now().UnixNano()}
	l.DB.AddProducer(Registration{"client", "", ""}, &Producer{peerInfo: pi})
	l.DB.RegisterProducer("t", "", pi)
	var wg sync.WaitGroup
	wg.Add(2)
	go func() {
		defer wg.Done()
		for i := 0; i < 2000; i++ {
			auditDo(s, "POST", "/topic/tombstone?topic=t&node=h:1")
		}
	}()
	go func() {
		defer wg.Done()
		for i := 0; i < 2000; i++ {
			auditDo(s, "GET", "/lookup?topic=t")
			auditDo(s, "GET", "/nodes")
		}
	}()
	wg.Wait()
	_ = http.StatusOK
}
