package nsqd

import (
	"fmt"
	"io"
	"net/http"
	"strings"
	"testing"

	"github.com/nsqio/nsq/internal/test"
)

func TestC10Audit2(t *testing.T) {
	opts := NewOptions()
	opts.Logger = test.NewTestLogger(t)
	_, httpAddr, nsqd := mustStartNSQD(opts)
	defer nsqd.Exit()
	base := "http://" + httpAddr.String()
	for _, body := range []string{"İNFO", "İnfo", "INFO", "loud"} {
		req, _ := http.NewRequest("PUT", base+"/config/log_level", strings.NewReader(body))
		resp, err := http.DefaultClient.Do(req)
		if err != nil {
			t.Fatal(err)
		}
		b, _ := io.ReadAll(resp.Body)
		resp.Body.Close()
		fmt.Printf("E7 PUT /config/log_level body=% x -> %d %q\n", body, resp.StatusCode, string(b))
	}
}
