import Nsq.Props.C10
open Nsq.Model.HttpApi Nsq.Model.ProtoV2 Nsq.Model.Names Nsq.Model.Base10 Nsq.Model
open Nsq.Proofs.HttpApi Nsq.Proofs.HttpApiEquiv Nsq.Proofs.ProtoV2

-- L1: BadArgs holds for every request whose query has no `channel` argument (e.g. every /pub)
theorem badargs_trivial (hc : HConf) (rq : Request) (kv) (h : parseQuery rq.rawQuery = some kv)
    (hch : qget kv kChannel = none) : BadArgs hc rq :=
  Or.inr (Or.inl ⟨kv, h, Or.inr (Or.inr (Or.inl hch))⟩)

def goodPub : Request := ⟨ascii "POST", ascii "/pub", ascii "topic=t", 3, [1, 2, 3]⟩
-- the valid request that is answered 200 ...
example : (handle Examples.hconf true [] goodPub).1.status = .s200 := by decide
-- ... "has a documented cause" for 400
example : BadArgs Examples.hconf goodPub := badargs_trivial _ _ [(ascii "topic", ascii "t")] (by decide) (by decide)
-- so Documented accepts a bogus 400 answer for it
example : Documented Examples.hconf true [] goodPub ⟨.s400, "ANYTHING"⟩ :=
  ⟨by simp, fun _ => badargs_trivial _ _ [(ascii "topic", ascii "t")] (by decide) (by decide), by simp, by simp, by simp, by simp⟩
-- and Documented accepts 200 for a request with a missing topic
def noTopic : Request := ⟨ascii "POST", ascii "/topic/create", [], 0, []⟩
example : Documented Examples.hconf true [] noTopic ⟨.s200, ""⟩ := ⟨by simp, by simp, by simp, by simp, by simp, by simp⟩
-- empty body also makes BadArgs true for every admin request
example (hc : HConf) (rq : Request) (h : rq.body = []) : BadArgs hc rq := by
  right; right; left; simp [pubData, h]

-- L3: text /mpub accepts batches TCP MPUB rejects under the same limits
def hc20 : HConf := Examples.hconf
def conf20 : Conf := { Examples.conf with maxBodySize := 20 }
example : Linked conf20 hc20 := ⟨rfl, rfl, by decide, rfl, by decide, by decide, by decide⟩
def tenLines : Bytes := [97,10,97,10,97,10,97,10,97,10,97,10,97,10,97,10,97,10,97]
def ten : List Bytes := List.replicate 10 [97]
example : (doMPUB hc20 [] ⟨ascii "POST", ascii "/mpub", ascii "topic=t", 19, tenLines⟩).1 = ⟨.s200, "OK"⟩ := by decide
example : (mpub conf20 Examples.conn [] [ascii "MPUB", ascii "t"] (mwire (Mpub.encode ten))).reply ≠ some .ok := by decide
-- empty text body: 200, publishes nothing; TCP MPUB of [] is rejected
example : (doMPUB hc20 [] ⟨ascii "POST", ascii "/mpub", ascii "topic=t", 0, []⟩).1 = ⟨.s200, "OK"⟩ := by decide
example : (mpub conf20 Examples.conn [] [ascii "MPUB", ascii "t"] (mwire (Mpub.encode []))).reply ≠ some .ok := by decide

-- L4: the frame conclusion of admin_exact_effect is met by deleting the whole named topic
example (b : Broker) (t : Bytes) : OnlyTopic t b (deleteTopic b t) := onlyTopic_deleteTopic b t

-- L5: model on routes that exist in Go but not in the table
#eval (handle Examples.hconf true [] ⟨ascii "GET", ascii "/debug/pprof/heap", [], 0, []⟩).1
#eval (handle Examples.hconf true [] ⟨ascii "POST", ascii "/debug/freememory", [], 0, []⟩).1
#eval (handle Examples.hconf true [] ⟨ascii "POST", ascii "/debug/pprof/heap", [], 0, []⟩).1
-- L6: incomplete request (declared 100, 3 bytes arrive): real code -> ErrUnexpectedEOF -> 500; model:
#eval (handle Examples.hconf true [] ⟨ascii "POST", ascii "/pub", ascii "topic=t", 5, [1,2,3]⟩).1
#print axioms Nsq.Props.C10.no_500
