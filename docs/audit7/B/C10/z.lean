import Nsq.Props.C10
open Nsq.Model.HttpApi Nsq.Model.ProtoV2 Nsq.Model.Names Nsq.Model
def hcBig : HConf := { maxMsgSize := 1048576, maxBodySize := 5242880, maxReqTimeoutMs := 3600000, tlsRefuse := false, cfgNames := [ascii "log_level"] }
#eval (handle hcBig true [] ⟨ascii "PUT", ascii "/config/log_level", [], 5, [0xc4, 0xb0, 78, 70, 79]⟩).1
#eval (handle hcBig true [] ⟨ascii "PUT", ascii "/config/log_level", [], 4, ascii "INFO"⟩).1
