import Nsq.Props.C10
open Nsq.Model.HttpApi Nsq.Model.ProtoV2 Nsq.Model.Names Nsq.Model.Base10 Nsq.Model
open Nsq.Proofs.HttpApi Nsq.Proofs.HttpApiEquiv Nsq.Proofs.ProtoV2
def conf20 : Conf := { Examples.conf with maxBodySize := 20 }
def ten : List Bytes := List.replicate 10 [97]
#eval (repr (mpub conf20 Examples.conn [] [ascii "MPUB", ascii "t"] (mwire (Mpub.encode ten))).reply)
#eval (repr (mpub conf20 Examples.conn [] [ascii "MPUB", ascii "t"] (mwire (Mpub.encode []))).reply)
#eval (repr (mpub conf20 Examples.conn [] [ascii "MPUB", ascii "t"] (mwire (Mpub.encode [[97],[97],[97]]))).reply)
