import Nsq.Props.C11
open Nsq.Model.Gate Nsq.Proofs.Gate Nsq.Props.C11

-- 1. a plain IDENTIFY (no TLS negotiation) on a plaintext connection with TLS required is executed: OK, conn changed
def plainId : Cmd := .identify { bodyOk := true, featureNegotiation := false, tlsv1 := false, hbOff := true, cert := .noCert }
#eval (step exE (exCfg .yes .none false) exM exDown 0 (Conn.fresh 1) [] plainId).replies
#eval (step exE (exCfg .yes .none false) exM exDown 0 (Conn.fresh 1) [] plainId).conn.hbOff
#eval (step exE (exCfg .yes .none false) exM exDown 0 (Conn.fresh 1) [] plainId).close
-- with feature negotiation but tls_v1=false
def plainId2 : Cmd := .identify { bodyOk := true, featureNegotiation := true, tlsv1 := false, hbOff := false, cert := .noCert }
#eval (step exE (exCfg .yes .none true) exM exDown 0 (Conn.fresh 1) [] plainId2).replies

-- 2. second IDENTIFY with tls on a TLS conn
#eval ((trace exE (exCfg .yes .none false) exM { conn := Conn.fresh 3, broker := [] }
      [.cmd 0 0 exDown (exIdentify .noCert), .cmd 1 0 exDown (exIdentify .noCert), .cmd 2 0 exDown (.pub ["x"] 3)]).map (fun r => (r.res.replies, r.post.conn.rd, r.post.conn.tls)))

-- heartbeat re-enable: model cannot represent positive heartbeat interval
#print IdentifyData

#print axioms tls_gate_history
#print axioms no_effect_before_auth
#check @client_cert_gate
