package nsqd

import (
	"crypto/tls"
	"encoding/json"
	"fmt"
	"net"
	"net/http"
	"net/http/httptest"
	"os"
	"strings"
	"testing"
	"time"

	"github.com/nsqio/go-nsq"
	"github.com/nsqio/nsq/internal/auth"
	"github.com/nsqio/nsq/internal/test"
)

func zzClient(n *NSQD, conn net.Conn) *clientV2 {
	me := conn.LocalAddr().String()
	for i := 0; i < 2000; i++ {
		var c *clientV2
		n.tcpServer.conns.Range(func(k, v interface{}) bool {
			if k.(net.Addr).String() == me {
				c = v.(*clientV2)
				return false
			}
			return true
		})
		if c != nil {
			return c
		}
		time.Sleep(time.Millisecond)
	}
	return nil
}

func zzRead(conn interface{ Read([]byte) (int, error) }) (int32, string) {
	resp, err := nsq.ReadResponse(conn)
	if err != nil {
		return -1, "ERR " + err.Error()
	}
	ft, data, _ := nsq.UnpackResponse(resp)
	return ft, string(data)
}

// 1. TLS required (=2): a plaintext IDENTIFY that does not negotiate TLS is executed (answered, connection mutated)
func TestZZC11PlainIdentify(t *testing.T) {
	opts := NewOptions()
	opts.Logger = test.NewTestLogger(t)
	opts.LogLevel = LOG_FATAL
	opts.TLSCert = "./test/certs/server.pem"
	opts.TLSKey = "./test/certs/server.key"
	opts.TLSRequired = TLSRequired
	opts.SnappyEnabled = true
	tcpAddr, _, nsqd := mustStartNSQD(opts)
	defer os.RemoveAll(opts.DataPath)
	defer nsqd.Exit()
	conn, err := mustConnectNSQD(tcpAddr)
	test.Nil(t, err)
	defer conn.Close()
	c := zzClient(nsqd, conn)
	hb0 := c.HeartbeatInterval
	cmd, _ := nsq.Identify(map[string]interface{}{"client_id": "zz", "feature_negotiation": false, "heartbeat_interval": -1, "msg_timeout": 5000})
	cmd.WriteTo(conn)
	ft, data := zzRead(conn)
	fmt.Printf("RESULT1 plain IDENTIFY under tls-required=true: frame=%d data=%q hb %v -> %v msgTimeout=%v tlsflag=%d\n", ft, data, hb0, c.HeartbeatInterval, c.MsgTimeout, c.TLS)
	// again, with feature negotiation + snappy (no tls): upgrade of the stream happens on the plaintext connection
	cmd, _ = nsq.Identify(map[string]interface{}{"client_id": "zz", "feature_negotiation": true, "snappy": true, "tls_v1": false})
	cmd.WriteTo(conn)
	ft, data = zzRead(conn)
	fmt.Printf("RESULT1b second plain IDENTIFY (snappy): frame=%d data=%.120q snappyflag=%d\n", ft, data, c.Snappy)
}

// 2. heartbeat disabled by a first IDENTIFY, re-enabled by a second: SUB accepted (the model says E_INVALID)
func TestZZC11HeartbeatReenable(t *testing.T) {
	opts := NewOptions()
	opts.Logger = test.NewTestLogger(t)
	opts.LogLevel = LOG_FATAL
	tcpAddr, _, nsqd := mustStartNSQD(opts)
	defer os.RemoveAll(opts.DataPath)
	defer nsqd.Exit()
	conn, err := mustConnectNSQD(tcpAddr)
	test.Nil(t, err)
	defer conn.Close()
	cmd, _ := nsq.Identify(map[string]interface{}{"client_id": "zz", "feature_negotiation": false, "heartbeat_interval": -1})
	cmd.WriteTo(conn)
	ft, data := zzRead(conn)
	fmt.Printf("RESULT2 id1 %d %q\n", ft, data)
	cmd, _ = nsq.Identify(map[string]interface{}{"client_id": "zz", "feature_negotiation": false, "heartbeat_interval": 1000})
	cmd.WriteTo(conn)
	ft, data = zzRead(conn)
	fmt.Printf("RESULT2 id2 %d %q\n", ft, data)
	nsq.Subscribe("zzt", "zzc").WriteTo(conn)
	ft, data = zzRead(conn)
	_, terr := nsqd.GetExistingTopic("zzt")
	fmt.Printf("RESULT2 SUB after hb -1 then 1000: frame=%d data=%q topicExists=%v\n", ft, data, terr == nil)
}

// 3. TTL overflow: Expires = now + time.Duration(TTL)*time.Second wraps
func TestZZC11TTLOverflow(t *testing.T) {
	for _, ttl := range []int64{3600, 9223372036, 9223372037, 18446744074} {
		srv := httptest.NewServer(http.HandlerFunc(func(w http.ResponseWriter, r *http.Request) {
			fmt.Fprintf(w, `{"ttl":%d,"identity":"x","authorizations":[{"topic":".*","channels":[".*"],"permissions":["publish","subscribe"]}]}`, ttl)
		}))
		st, err := auth.QueryAuthd(strings.TrimPrefix(srv.URL, "http://"), "127.0.0.1", false, "", "s", nil, time.Second, time.Second, "get")
		srv.Close()
		if err != nil {
			fmt.Printf("RESULT3 ttl=%d err=%v\n", ttl, err)
			continue
		}
		fmt.Printf("RESULT3 ttl=%d expiredImmediately=%v expiresIn=%v\n", ttl, st.IsExpired(), time.Until(st.Expires))
	}
}

// 4. a second successful TLS handshake on an already upgraded connection
func TestZZC11SecondHandshake(t *testing.T) {
	opts := NewOptions()
	opts.Logger = test.NewTestLogger(t)
	opts.LogLevel = LOG_FATAL
	opts.TLSCert = "./test/certs/server.pem"
	opts.TLSKey = "./test/certs/server.key"
	opts.TLSRequired = TLSRequired
	tcpAddr, _, nsqd := mustStartNSQD(opts)
	defer os.RemoveAll(opts.DataPath)
	defer nsqd.Exit()
	conn, err := mustConnectNSQD(tcpAddr)
	test.Nil(t, err)
	defer conn.Close()
	c := zzClient(nsqd, conn)
	data := identify(t, conn, map[string]interface{}{"tls_v1": true}, frameTypeResponse)
	var r struct {
		TLSv1 bool `json:"tls_v1"`
	}
	json.Unmarshal(data, &r)
	t1 := tls.Client(conn, &tls.Config{InsecureSkipVerify: true})
	test.Nil(t, t1.Handshake())
	ft, d := zzRead(t1)
	fmt.Printf("RESULT4 first upgrade: tls_v1=%v frame=%d %q\n", r.TLSv1, ft, d)
	cmd, _ := nsq.Identify(map[string]interface{}{"client_id": "zz", "feature_negotiation": true, "tls_v1": true})
	cmd.WriteTo(t1)
	ft, d = zzRead(t1)
	fmt.Printf("RESULT4 second IDENTIFY reply (inside TLS#1): frame=%d %.60q\n", ft, d)
	conn.SetDeadline(time.Now().Add(8 * time.Second))
	t2 := tls.Client(conn, &tls.Config{InsecureSkipVerify: true})
	herr := t2.Handshake()
	fmt.Printf("RESULT4 second handshake on the raw socket: err=%v\n", herr)
	if herr == nil {
		ft, d = zzRead(t2)
		fmt.Printf("RESULT4 after second handshake: frame=%d %q tlsflag=%d\n", ft, d, c.TLS)
		nsq.Publish("zz4", []byte("x")).WriteTo(t2)
		ft, d = zzRead(t2)
		_, terr := nsqd.GetExistingTopic("zz4")
		fmt.Printf("RESULT4 PUB inside TLS#2: frame=%d %q topic=%v\n", ft, d, terr == nil)
	}
}
