package nsqd

// Shared helpers for the verification harnesses (compiled into the real package through
// `go test -overlay`; nothing here is committed to the repository).

import (
	"bufio"
	"encoding/hex"
	"fmt"
	"os"
	"path/filepath"
	"strconv"
	"sync"
)

// vfRand is splitmix64; every random choice of a harness derives from VERIF_SEED.
type vfRand struct{ s uint64 }

func vfNewRand(salt uint64) *vfRand {
	seed, _ := strconv.ParseUint(os.Getenv("VERIF_SEED"), 10, 64)
	return &vfRand{s: seed*0x9E3779B97F4A7C15 + salt}
}
func (r *vfRand) Next() uint64 {
	r.s += 0x9E3779B97F4A7C15
	z := r.s
	z = (z ^ (z >> 30)) * 0xBF58476D1CE4E5B9
	z = (z ^ (z >> 27)) * 0x94D049BB133111EB
	return z ^ (z >> 31)
}
func (r *vfRand) Intn(n int) int {
	if n <= 0 {
		return 0
	}
	return int(r.Next() % uint64(n))
}
func (r *vfRand) Bytes(n int) []byte {
	b := make([]byte, n)
	for i := range b {
		b[i] = byte(r.Next())
	}
	return b
}

func vfEnvInt(name string, def int) int {
	if v, err := strconv.Atoi(os.Getenv(name)); err == nil {
		return v
	}
	return def
}

func vfHex(b []byte) string {
	if len(b) == 0 {
		return "-"
	}
	return hex.EncodeToString(b)
}

// vfOut writes the two line streams of a correspondence run: the operations (inputs, read by
// the Lean driver) and what the implementation answered (compared with the driver's output).
type vfOut struct {
	mu   sync.Mutex
	ops  *bufio.Writer
	impl *bufio.Writer
	fo   *os.File
	fi   *os.File
	N    int
}

func vfOpen(name string) *vfOut {
	dir := os.Getenv("VERIF_OUT")
	if dir == "" {
		dir = os.TempDir()
	}
	fo, err := os.Create(filepath.Join(dir, name+".ops"))
	if err != nil {
		panic(err)
	}
	fi, err := os.Create(filepath.Join(dir, name+".impl"))
	if err != nil {
		panic(err)
	}
	return &vfOut{ops: bufio.NewWriterSize(fo, 1<<20), impl: bufio.NewWriterSize(fi, 1<<20), fo: fo, fi: fi}
}

// Case records one operation line and the implementation's canonical answer line.
func (o *vfOut) Case(op string, impl string) {
	o.mu.Lock()
	fmt.Fprintln(o.ops, op)
	fmt.Fprintln(o.impl, impl)
	o.N++
	o.mu.Unlock()
}

func (o *vfOut) Close() {
	o.ops.Flush()
	o.impl.Flush()
	o.fo.Close()
	o.fi.Close()
}
