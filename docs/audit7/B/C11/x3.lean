import Nsq.Props.C11
open Nsq.Model.Gate Nsq.Proofs.Gate Nsq.Props.C11
theorem okrep : (step exE (exCfg .no .none true) exM (exAns 60 exGrants) 11 exAuthed [] (.pub ["orders"] 3)).replies = [.ok] := by decide
example : ∀ code, ¬ authCode code →
    step exE (exCfg .no .none true) exM (exAns 60 exGrants) 11 exAuthed [] (.pub ["orders"] 3) ≠ fatalRes exAuthed [] code := by
  intro code _ h
  have h2 := congrArg Res.replies h
  rw [okrep] at h2
  simp [fatalRes] at h2
