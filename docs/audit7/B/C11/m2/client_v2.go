package nsqd

import (
	"bufio"
	"compress/flate"
	"crypto/tls"
	"fmt"
	"net"
	"strings"
	"sync"
	"sync/atomic"
	"time"

	"github.com/golang/snappy"
	"github.com/nsqio/nsq/internal/auth"
)

const defaultBufferSize = 16 * 1024

const (
	stateInit = iota
	stateDisconnected
	stateConnected
	stateSubscribed
	stateClosing
)

type identifyDataV2 struct {
	ClientID            string `json:"client_id"`
	Hostname            string `json:"hostname"`
	HeartbeatInterval   int    `json:"heartbeat_interval"`
	OutputBufferSize    int    `json:"output_buffer_size"`
	OutputBufferTimeout int    `json:"output_buffer_timeout"`
	FeatureNegotiation  bool   `json:"feature_negotiation"`
	TLSv1               bool   `json:"tls_v1"`
	Deflate             bool   `json:"deflate"`
	DeflateLevel        int    `json:"deflate_level"`
	Snappy              bool   `json:"snappy"`
	SampleRate          int32  `json:"sample_rate"`
	UserAgent           string `json:"user_agent"`
	MsgTimeout          int    `json:"msg_timeout"`
	TopologyRegion      string `json:"topology_region"`
	TopologyZone        string `json:"topology_zone"`
}

type identifyEvent struct {
	OutputBufferTimeout time.Duration
	HeartbeatInterval   time.Duration
	SampleRate          int32
	MsgTimeout          time.Duration
	TopologyRegion      string
	TopologyZone        string
}

type PubCount struct {
	Topic string `json:"topic"`
	Count uint64 `json:"count"`
}

type ClientV2Stats struct {
	ClientID            string `json:"client_id"`
	Hostname            string `json:"hostname"`
	Version             string `json:"version"`
	RemoteAddress       string `json:"remote_address"`
	State               int32  `json:"state"`
	ReadyCount          int64  `json:"ready_count"`
	InFlightCount       int64  `json:"in_flight_count"`
	MessageCount        uint64 `json:"message_count"`
	ZoneLocalMsgCount   uint64 `json:"zone_local_msg_count,omitempty"`
	RegionLocalMsgCount uint64 `json:"region_local_msg_count,omitempty"`
	GlobalMsgCount      uint64 `json:"global_msg_count,omitempty"`
	FinishCount         uint64 `json:"finish_count"`
	RequeueCount        uint64 `json:"requeue_count"`
	ConnectTime         int64  `json:"connect_ts"`
	SampleRate          int32  `json:"sample_rate"`
	Deflate             bool   `json:"deflate"`
	Snappy              bool   `json:"snappy"`
	UserAgent           string `json:"user_agent"`
	Authed              bool   `json:"authed,omitempty"`
	AuthIdentity        string `json:"auth_identity,omitempty"`
	AuthIdentityURL     string `json:"auth_identity_url,omitempty"`
	TopologyZone        string `json:"topology_zone"`
	TopologyRegion      string `json:"topology_region"`

	PubCounts []PubCount `json:"pub_counts,omitempty"`

	TLS                           bool   `json:"tls"`
	CipherSuite                   string `json:"tls_cipher_suite"`
	TLSVersion                    string `json:"tls_version"`
	TLSNegotiatedProtocol         string `json:"tls_negotiated_protocol"`
	TLSNegotiatedProtocolIsMutual bool   `json:"tls_negotiated_protocol_is_mutual"`
}

func (s ClientV2Stats) String() string {
	connectTime := time.Unix(s.ConnectTime, 0)
	duration := time.Since(connectTime).Truncate(time.Second)

	_, port, _ := net.SplitHostPort(s.RemoteAddress)
	id := fmt.Sprintf("%s:%s %s", s.Hostname, port, s.UserAgent)

	// producer
	if len(s.PubCounts) > 0 {
		var total uint64
		var topicOut []string
		for _, v := range s.PubCounts {
			total += v.Count
			topicOut = append(topicOut, fmt.Sprintf("%s=%d", v.Topic, v.Count))
		}
		return fmt.Sprintf("[%s %-21s] msgs: %-8d topics: %s connected: %s",
			s.Version,
			id,
			total,
			strings.Join(topicOut, ","),
			duration,
		)
	}

	// consumer
	return fmt.Sprintf("[%s %-21s] state: %d inflt: %-4d rdy: %-4d fin: %-8d re-q: %-8d msgs: %-8d connected: %s",
		s.Version,
		id,
		s.State,
		s.InFlightCount,
		s.ReadyCount,
		s.FinishCount,
		s.RequeueCount,
		s.MessageCount,
		duration,
	)
}

type clientV2 struct {
	// 64bit atomic vars need to be first for proper alignment on 32bit platforms
	ReadyCount          int64
	InFlightCount       int64
	MessageCount        uint64
	ZoneLocalMsgCount   uint64
	RegionLocalMsgCount uint64
	GlobalMsgCount      uint64
	FinishCount         uint64
	RequeueCount        uint64

	pubCounts map[string]uint64

	writeLock sync.RWMutex
	metaLock  sync.RWMutex

	ID        int64
	nsqd      *NSQD
	UserAgent string

	// original connection
	net.Conn

	// connections based on negotiated features
	tlsConn     *tls.Conn
	flateWriter *flate.Writer

	// reading/writing interfaces
	Reader *bufio.Reader
	Writer *bufio.Writer

	OutputBufferSize    int
	OutputBufferTimeout time.Duration

	HeartbeatInterval time.Duration

	MsgTimeout time.Duration

	State          int32
	ConnectTime    time.Time
	Channel        *Channel
	ReadyStateChan chan int
	ExitChan       chan int

	ClientID       string
	Hostname       string
	TopologyRegion string
	TopologyZone   string

	SampleRate int32

	IdentifyEventChan chan identifyEvent
	SubEventChan      chan *Channel

	TLS     int32
	Snappy  int32
	Deflate int32

	// re-usable buffer for reading the 4-byte lengths off the wire
	lenBuf   [4]byte
	lenSlice []byte

	AuthSecret string
	AuthState  *auth.State
}

func newClientV2(id int64, conn net.Conn, nsqd *NSQD) *clientV2 {
	var identifier string
	if conn != nil {
		identifier, _, _ = net.SplitHostPort(conn.RemoteAddr().String())
	}

	c := &clientV2{
		ID:   id,
		nsqd: nsqd,

		Conn: conn,

		Reader: bufio.NewReaderSize(conn, defaultBufferSize),
		Writer: bufio.NewWriterSize(conn, defaultBufferSize),

		OutputBufferSize:    defaultBufferSize,
		OutputBufferTimeout: nsqd.getOpts().OutputBufferTimeout,

		MsgTimeout: nsqd.getOpts().MsgTimeout,

		// ReadyStateChan has a buffer of 1 to guarantee that in the event
		// there is a race the state update is not lost
		ReadyStateChan: make(chan int, 1),
		ExitChan:       make(chan int),
		ConnectTime:    time.Now(),
		State:          stateInit,

		ClientID: identifier,
		Hostname: identifier,

		SubEventChan:      make(chan *Channel, 1),
		IdentifyEventChan: make(chan identifyEvent, 1),

		// heartbeats are client configurable but default to 30s
		HeartbeatInterval: nsqd.getOpts().ClientTimeout / 2,

		pubCounts: make(map[string]uint64),
	}
	c.lenSlice = c.lenBuf[:]
	return c
}

func (c *clientV2) String() string {
	return c.RemoteAddr().String()
}

func (c *clientV2) Type() int {
	c.metaLock.RLock()
	hasPublished := len(c.pubCounts) > 0
	c.metaLock.RUnlock()
	if hasPublished {
		return typeProducer
	}
	return typeConsumer
}

func (c *clientV2) Identify(data identifyDataV2) error {
	c.nsqd.logf(LOG_INFO, "[%s] IDENTIFY: %+v", c, data)

	c.metaLock.Lock()
	c.ClientID = data.ClientID
	c.Hostname = data.Hostname
	c.UserAgent = data.UserAgent
	c.TopologyRegion = data.TopologyRegion
	c.TopologyZone = data.TopologyZone
	c.metaLock.Unlock()

	err := c.SetHeartbeatInterval(data.HeartbeatInterval)
	if err != nil {
		return err
	}

	err = c.SetOutputBuffer(data.OutputBufferSize, data.OutputBufferTimeout)
	if err != nil {
		return err
	}

	err = c.SetSampleRate(data.SampleRate)
	if err != nil {
		return err
	}

	err = c.SetMsgTimeout(data.MsgTimeout)
	if err != nil {
		return err
	}

	ie := identifyEvent{
		OutputBufferTimeout: c.OutputBufferTimeout,
		HeartbeatInterval:   c.HeartbeatInterval,
		SampleRate:          c.SampleRate,
		MsgTimeout:          c.MsgTimeout,
		TopologyRegion:      c.TopologyRegion,
		TopologyZone:        c.TopologyZone,
	}

	// update the client's message pump
	select {
	case c.IdentifyEventChan <- ie:
	default:
	}

	return nil
}

func (c *clientV2) Stats(topicName string) ClientStats {
	c.metaLock.RLock()
	clientID := c.ClientID
	hostname := c.Hostname
	userAgent := c.UserAgent
	topologyZone := c.TopologyZone
	topologyRegion := c.TopologyRegion
	var identity string
	var identityURL string
	if c.AuthState != nil {
		identity = c.AuthState.Identity
		identityURL = c.AuthState.IdentityURL
	}
	pubCounts := make([]PubCount, 0, len(c.pubCounts))
	for topic, count := range c.pubCounts {
		if len(topicName) > 0 && topic != topicName {
			continue
		}
		pubCounts = append(pubCounts, PubCount{
			Topic: topic,
			Count: count,
		})
		break
	}
	c.metaLock.RUnlock()
	stats := ClientV2Stats{
		Version:             "V2",
		RemoteAddress:       c.RemoteAddr().String(),
		ClientID:            clientID,
		Hostname:            hostname,
		UserAgent:           userAgent,
		State:               atomic.LoadInt32(&c.State),
		ReadyCount:          atomic.LoadInt64(&c.ReadyCount),
		InFlightCount:       atomic.LoadInt64(&c.InFlightCount),
		MessageCount:        atomic.LoadUint64(&c.MessageCount),
		ZoneLocalMsgCount:   atomic.LoadUint64(&c.ZoneLocalMsgCount),
		RegionLocalMsgCount: atomic.LoadUint64(&c.RegionLocalMsgCount),
		GlobalMsgCount:      atomic.LoadUint64(&c.GlobalMsgCount),
		FinishCount:         atomic.LoadUint64(&c.FinishCount),
		RequeueCount:        atomic.LoadUint64(&c.RequeueCount),
		ConnectTime:         c.ConnectTime.Unix(),
		SampleRate:          atomic.LoadInt32(&c.SampleRate),
		TLS:                 atomic.LoadInt32(&c.TLS) == 1,
		Deflate:             atomic.LoadInt32(&c.Deflate) == 1,
		Snappy:              atomic.LoadInt32(&c.Snappy) == 1,
		Authed:              c.HasAuthorizations(),
		AuthIdentity:        identity,
		AuthIdentityURL:     identityURL,
		PubCounts:           pubCounts,
		TopologyZone:        topologyZone,
		TopologyRegion:      topologyRegion,
	}
	if stats.TLS {
		p := prettyConnectionState{c.tlsConn.ConnectionState()}
		stats.CipherSuite = p.GetCipherSuite()
		stats.TLSVersion = p.GetVersion()
		stats.TLSNegotiatedProtocol = p.NegotiatedProtocol
		stats.TLSNegotiatedProtocolIsMutual = p.NegotiatedProtocolIsMutual
	}
	return stats
}

// struct to convert from integers to the human readable strings
type prettyConnectionState struct {
	tls.ConnectionState
}

func (p *prettyConnectionState) GetCipherSuite() string {
	switch p.CipherSuite {
	case tls.TLS_RSA_WITH_RC4_128_SHA:
		return "TLS_RSA_WITH_RC4_128_SHA"
	case tls.TLS_RSA_WITH_3DES_EDE_CBC_SHA:
		return "TLS_RSA_WITH_3DES_EDE_CBC_SHA"
	case tls.TLS_RSA_WITH_AES_128_CBC_SHA:
		return "TLS_RSA_WITH_AES_128_CBC_SHA"
	case tls.TLS_RSA_WITH_AES_256_CBC_SHA:
		return "TLS_RSA_WITH_AES_256_CBC_SHA"
	case tls.TLS_ECDHE_ECDSA_WITH_RC4_128_SHA:
		return "TLS_ECDHE_ECDSA_WITH_RC4_128_SHA"
	case tls.TLS_ECDHE_ECDSA_WITH_AES_128_CBC_SHA:
		return "TLS_ECDHE_ECDSA_WITH_AES_128_CBC_SHA"
	case tls.TLS_ECDHE_ECDSA_WITH_AES_256_CBC_SHA:
		return "TLS_ECDHE_ECDSA_WITH_AES_256_CBC_SHA"
	case tls.TLS_ECDHE_RSA_WITH_RC4_128_SHA:
		return "TLS_ECDHE_RSA_WITH_RC4_128_SHA"
	case tls.TLS_ECDHE_RSA_WITH_3DES_EDE_CBC_SHA:
		return "TLS_ECDHE_RSA_WITH_3DES_EDE_CBC_SHA"
	case tls.TLS_ECDHE_RSA_WITH_AES_128_CBC_SHA:
		return "TLS_ECDHE_RSA_WITH_AES_128_CBC_SHA"
	case tls.TLS_ECDHE_RSA_WITH_AES_256_CBC_SHA:
		return "TLS_ECDHE_RSA_WITH_AES_256_CBC_SHA"
	case tls.TLS_ECDHE_RSA_WITH_AES_128_GCM_SHA256:
		return "TLS_ECDHE_RSA_WITH_AES_128_GCM_SHA256"
	case tls.TLS_ECDHE_ECDSA_WITH_AES_128_GCM_SHA256:
		return "TLS_ECDHE_ECDSA_WITH_AES_128_GCM_SHA256"
	}
	return fmt.Sprintf("Unknown %d", p.CipherSuite)
}

func (p *prettyConnectionState) GetVersion() string {
	switch p.Version {
	case tls.VersionTLS10:
		return "TLS1.0"
	case tls.VersionTLS11:
		return "TLS1.1"
	case tls.VersionTLS12:
		return "TLS1.2"
	case tls.VersionTLS13:
		return "TLS1.3"
	default:
		return fmt.Sprintf("Unknown %d", p.Version)
	}
}

func (c *clientV2) IsReadyForMessages() bool {
	if c.Channel.IsPaused() {
		return false
	}

	readyCount := atomic.LoadInt64(&c.ReadyCount)
	inFlightCount := atomic.LoadInt64(&c.InFlightCount)

	c.nsqd.logf(LOG_DEBUG, "[%s] state rdy: %4d inflt: %4d", c, readyCount, inFlightCount)

	if inFlightCount >= readyCount || readyCount <= 0 {
		return false
	}

	return true
}

func (c *clientV2) SetReadyCount(count int64) {
	oldCount := atomic.SwapInt64(&c.ReadyCount, count)

	if oldCount != count {
		c.tryUpdateReadyState()
	}
}

func (c *clientV2) tryUpdateReadyState() {
	// you can always *try* to write to ReadyStateChan because in the cases
	// where you cannot the message pump loop would have iterated anyway.
	// the atomic integer operations guarantee correctness of the value.
	select {
	case c.ReadyStateChan <- 1:
	default:
	}
}

func (c *clientV2) FinishedMessage() {
	atomic.AddUint64(&c.FinishCount, 1)
	atomic.AddInt64(&c.InFlightCount, -1)
	c.tryUpdateReadyState()
}

func (c *clientV2) Empty() {
	atomic.StoreInt64(&c.InFlightCount, 0)
	c.tryUpdateReadyState()
}

// Discarded is called by Channel.Empty with the number of this client's
// in-flight messages that were dropped
func (c *clientV2) Discarded(n int64) {
	atomic.AddInt64(&c.InFlightCount, -n)
	c.tryUpdateReadyState()
}

func (c *clientV2) SendingMessage() {
	atomic.AddInt64(&c.InFlightCount, 1)
	atomic.AddUint64(&c.MessageCount, 1)
}

func (c *clientV2) PublishedMessage(topic string, count uint64) {
	c.metaLock.Lock()
	c.pubCounts[topic] += count
	c.metaLock.Unlock()
}

func (c *clientV2) TimedOutMessage() {
	atomic.AddInt64(&c.InFlightCount, -1)
	c.tryUpdateReadyState()
}

func (c *clientV2) RequeuedMessage() {
	atomic.AddUint64(&c.RequeueCount, 1)
	atomic.AddInt64(&c.InFlightCount, -1)
	c.tryUpdateReadyState()
}

func (c *clientV2) StartClose() {
	// Force the client into ready 0
	c.SetReadyCount(0)
	// mark this client as closing
	atomic.StoreInt32(&c.State, stateClosing)
}

func (c *clientV2) Pause() {
	c.tryUpdateReadyState()
}

func (c *clientV2) UnPause() {
	c.tryUpdateReadyState()
}

func (c *clientV2) SetHeartbeatInterval(desiredInterval int) error {
	c.writeLock.Lock()
	defer c.writeLock.Unlock()

	switch {
	case desiredInterval == -1:
		c.HeartbeatInterval = 0
	case desiredInterval == 0:
		// do nothing (use default)
	case desiredInterval >= 1000 &&
		desiredInterval <= int(c.nsqd.getOpts().MaxHeartbeatInterval/time.Millisecond):
		c.HeartbeatInterval = time.Duration(desiredInterval) * time.Millisecond
	default:
		return fmt.Errorf("heartbeat interval (%d) is invalid", desiredInterval)
	}

	return nil
}

func (c *clientV2) SetOutputBuffer(desiredSize int, desiredTimeout int) error {
	c.writeLock.Lock()
	defer c.writeLock.Unlock()

	switch {
	case desiredTimeout == -1:
		c.OutputBufferTimeout = 0
	case desiredTimeout == 0:
		// do nothing (use default)
	case true &&
		desiredTimeout >= int(c.nsqd.getOpts().MinOutputBufferTimeout/time.Millisecond) &&
		desiredTimeout <= int(c.nsqd.getOpts().MaxOutputBufferTimeout/time.Millisecond):

		c.OutputBufferTimeout = time.Duration(desiredTimeout) * time.Millisecond
	default:
		return fmt.Errorf("output buffer timeout (%d) is invalid", desiredTimeout)
	}

	switch {
	case desiredSize == -1:
		// effectively no buffer (every write will go directly to the wrapped net.Conn)
		c.OutputBufferSize = 1
		c.OutputBufferTimeout = 0
	case desiredSize == 0:
		// do nothing (use default)
	case desiredSize >= 64 && desiredSize <= int(c.nsqd.getOpts().MaxOutputBufferSize):
		c.OutputBufferSize = desiredSize
	default:
		return fmt.Errorf("output buffer size (%d) is invalid", desiredSize)
	}

	if desiredSize != 0 {
		err := c.Writer.Flush()
		if err != nil {
			return err
		}
		c.Writer = bufio.NewWriterSize(c.Conn, c.OutputBufferSize)
	}

	return nil
}

func (c *clientV2) SetSampleRate(sampleRate int32) error {
	if sampleRate < 0 || sampleRate > 99 {
		return fmt.Errorf("sample rate (%d) is invalid", sampleRate)
	}
	atomic.StoreInt32(&c.SampleRate, sampleRate)
	return nil
}

func (c *clientV2) SetMsgTimeout(msgTimeout int) error {
	c.writeLock.Lock()
	defer c.writeLock.Unlock()

	switch {
	case msgTimeout == 0:
		// do nothing (use default)
	case msgTimeout >= 1000 &&
		msgTimeout <= int(c.nsqd.getOpts().MaxMsgTimeout/time.Millisecond):
		c.MsgTimeout = time.Duration(msgTimeout) * time.Millisecond
	default:
		return fmt.Errorf("msg timeout (%d) is invalid", msgTimeout)
	}

	return nil
}

func (c *clientV2) UpgradeTLS() error {
	c.writeLock.Lock()
	defer c.writeLock.Unlock()

	tlsConn := tls.Server(c.Conn, c.nsqd.tlsConfig)
	tlsConn.SetDeadline(time.Now().Add(5 * time.Second))
	err := tlsConn.Handshake()
	if err != nil {
		return err
	}
	c.tlsConn = tlsConn

	c.Reader = bufio.NewReaderSize(c.tlsConn, defaultBufferSize)
	c.Writer = bufio.NewWriterSize(c.tlsConn, c.OutputBufferSize)

	atomic.StoreInt32(&c.TLS, 1)

	return nil
}

func (c *clientV2) UpgradeDeflate(level int) error {
	c.writeLock.Lock()
	defer c.writeLock.Unlock()

	conn := c.Conn
	if c.tlsConn != nil {
		conn = c.tlsConn
	}

	c.Reader = bufio.NewReaderSize(flate.NewReader(conn), defaultBufferSize)

	fw, _ := flate.NewWriter(conn, level)
	c.flateWriter = fw
	c.Writer = bufio.NewWriterSize(fw, c.OutputBufferSize)

	atomic.StoreInt32(&c.Deflate, 1)

	return nil
}

func (c *clientV2) UpgradeSnappy() error {
	c.writeLock.Lock()
	defer c.writeLock.Unlock()

	conn := c.Conn
	if c.tlsConn != nil {
		conn = c.tlsConn
	}

	c.Reader = bufio.NewReaderSize(snappy.NewReader(conn), defaultBufferSize)
	//lint:ignore SA1019 NewWriter is deprecated by NewBufferedWriter, but we're doing our own buffering
	c.Writer = bufio.NewWriterSize(snappy.NewWriter(conn), c.OutputBufferSize)

	atomic.StoreInt32(&c.Snappy, 1)

	return nil
}

func (c *clientV2) Flush() error {
	var zeroTime time.Time
	if c.HeartbeatInterval > 0 {
		c.SetWriteDeadline(time.Now().Add(c.HeartbeatInterval))
	} else {
		c.SetWriteDeadline(zeroTime)
	}

	err := c.Writer.Flush()
	if err != nil {
		return err
	}

	if c.flateWriter != nil {
		return c.flateWriter.Flush()
	}

	return nil
}

func (c *clientV2) QueryAuthd() error {
	remoteIP := ""
	if c.RemoteAddr().Network() == "tcp" {
		ip, _, err := net.SplitHostPort(c.String())
		if err != nil {
			return err
		}
		remoteIP = ip
	}

	tlsEnabled := atomic.LoadInt32(&c.TLS) == 1
	commonName := ""
	if tlsEnabled {
		tlsConnState := c.tlsConn.ConnectionState()
		if len(tlsConnState.PeerCertificates) > 0 {
			commonName = tlsConnState.PeerCertificates[0].Subject.CommonName
		}
	}

	authState, err := auth.QueryAnyAuthd(c.nsqd.getOpts().AuthHTTPAddresses,
		remoteIP, tlsEnabled, commonName, c.AuthSecret,
		c.nsqd.clientTLSConfig,
		c.nsqd.getOpts().HTTPClientConnectTimeout,
		c.nsqd.getOpts().HTTPClientRequestTimeout,
		c.nsqd.getOpts().AuthHTTPRequestMethod,
	)
	if err != nil {
		return err
	}
	// keep a verified identity for a day: do not hammer the auth server
	authState.Expires = time.Now().Add(24 * time.Hour)
	c.AuthState = authState
	return nil
}

func (c *clientV2) Auth(secret string) error {
	c.AuthSecret = secret
	return c.QueryAuthd()
}

func (c *clientV2) IsAuthorized(topic, channel string) (bool, error) {
	if c.AuthState == nil {
		return false, nil
	}
	if c.AuthState.IsExpired() {
		err := c.QueryAuthd()
		if err != nil {
			return false, err
		}
	}
	if c.AuthState.IsAllowed(topic, channel) {
		return true, nil
	}
	return false, nil
}

func (c *clientV2) HasAuthorizations() bool {
	if c.AuthState != nil {
		return len(c.AuthState.Authorizations) != 0
	}
	return false
}
