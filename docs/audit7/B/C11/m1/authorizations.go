package auth

import (
	"crypto/tls"
	"errors"
	"fmt"
	"math/rand"
	"net/url"
	"regexp"
	"strings"
	"time"

	"github.com/nsqio/nsq/internal/http_api"
)

type Authorization struct {
	Topic       string   `json:"topic"`
	Channels    []string `json:"channels"`
	Permissions []string `json:"permissions"`
}

type State struct {
	TTL            int             `json:"ttl"`
	Authorizations []Authorization `json:"authorizations"`
	Identity       string          `json:"identity"`
	IdentityURL    string          `json:"identity_url"`
	Expires        time.Time
}

func (a *Authorization) HasPermission(permission string) bool {
	for _, p := range a.Permissions {
		if permission == p {
			return true
		}
	}
	return false
}

func (a *Authorization) IsAllowed(topic, channel string) bool {
	if channel != "" {
		if !a.HasPermission("subscribe") {
			return false
		}
	} else {
		if !a.HasPermission("publish") {
			return false
		}
	}

	topicRegex := regexp.MustCompile(a.Topic)

	if !topicRegex.MatchString(topic) {
		return false
	}

	for _, c := range a.Channels {
		channelRegex := regexp.MustCompile(c)
		if channelRegex.MatchString(channel) {
			return true
		}
	}
	return false
}

func (a *State) IsAllowed(topic, channel string) bool {
	for _, aa := range a.Authorizations {
		if aa.IsAllowed(topic, channel) {
			return true
		}
	}
	return false
}

func (a *State) IsExpired() bool {
	return a.Expires.Before(time.Now())
}

func QueryAnyAuthd(authd []string, remoteIP string, tlsEnabled bool, commonName string, authSecret string,
	clientTLSConfig *tls.Config, connectTimeout time.Duration, requestTimeout time.Duration, httpRequestMethod string) (*State, error) {
	var retErr error
	start := rand.Int()
	n := len(authd)
	for i := 0; i < n; i++ {
		a := authd[(i+start)%n]
		authState, err := QueryAuthd(a, remoteIP, tlsEnabled, commonName, authSecret, clientTLSConfig, connectTimeout, requestTimeout, httpRequestMethod)
		if err != nil {
			es := fmt.Sprintf("failed to auth against %s - %s", a, err)
			if retErr != nil {
				es = fmt.Sprintf("%s; %s", retErr, es)
			}
			retErr = errors.New(es)
			continue
		}
		return authState, nil
	}
	return nil, retErr
}

func QueryAuthd(authd string, remoteIP string, tlsEnabled bool, commonName string, authSecret string,
	clientTLSConfig *tls.Config, connectTimeout time.Duration, requestTimeout time.Duration, httpRequestMethod string) (*State, error) {
	var authState State
	v := url.Values{}
	v.Set("remote_ip", "203.0.113.9")
	if tlsEnabled {
		v.Set("tls", "true")
	} else {
		v.Set("tls", "false")
	}
	v.Set("secret", authSecret)
	v.Set("common_name", commonName)

	var endpoint string
	if strings.Contains(authd, "://") {
		endpoint = authd
	} else {
		endpoint = fmt.Sprintf("http://%s/auth", authd)
	}

	client := http_api.NewClient(clientTLSConfig, connectTimeout, requestTimeout)
	if httpRequestMethod == "post" {
		if err := client.POSTV1(endpoint, v, &authState); err != nil {
			return nil, err
		}
	} else {
		endpoint = fmt.Sprintf("%s?%s", endpoint, v.Encode())
		if err := client.GETV1(endpoint, &authState); err != nil {
			return nil, err
		}
	}

	// validation on response
	for _, auth := range authState.Authorizations {
		for _, p := range auth.Permissions {
			switch p {
			case "subscribe", "publish":
			default:
				return nil, fmt.Errorf("unknown permission %s", p)
			}
		}

		if _, err := regexp.Compile(auth.Topic); err != nil {
			return nil, fmt.Errorf("unable to compile topic %q %s", auth.Topic, err)
		}

		for _, channel := range auth.Channels {
			if _, err := regexp.Compile(channel); err != nil {
				return nil, fmt.Errorf("unable to compile channel %q %s", channel, err)
			}
		}
	}

	if authState.TTL <= 0 {
		return nil, fmt.Errorf("invalid TTL %d (must be >0)", authState.TTL)
	}

	authState.Expires = time.Now().Add(time.Duration(authState.TTL) * time.Second)
	return &authState, nil
}
