import Nsq.Props.C11
open Nsq.Model.Gate Nsq.Proofs.Gate Nsq.Props.C11
def idHb (off : Bool) : Cmd := .identify { bodyOk := true, featureNegotiation := false, tlsv1 := false, hbOff := off, cert := .noCert }
-- heartbeat_interval:-1, then a later IDENTIFY (the only non-"-1" the model can express), then SUB
#eval ((trace exE (exCfg .no .none false) exM { conn := Conn.fresh 3, broker := [] }
      [.cmd 0 0 exDown (idHb true), .cmd 0 0 exDown (idHb false), .cmd 0 0 exDown (.sub ["zzt","zzc"])]).map (fun r => (r.res.replies, r.post.broker.map (·.name))))
-- TTL: unbounded Int in the model
#eval (step exE (exCfg .no .none true) exM (exAns 18446744074 exGrants) 0 (Conn.fresh 7) [] (.auth [] 1 "s")).conn.auth.map (·.expires)
-- is the rd ≠ current branch of plaintext_bytes_never_executed definitional?
example (E : Ext) (cfg : Config) (M : Matcher) (s : St) (now : Int) (ans : Request → Option Resp) (c : Cmd) (h : 0 ≠ s.conn.rd) :
    stepEv E cfg M s (.cmd 0 now ans c) = { conn := s.conn, broker := s.broker, replies := [], close := false, query := none } := by
  simp [stepEv, h]
-- http_tls_gate etc. by pure unfolding / decide
example (cfg : Config) : httpGate cfg true = .routed := rfl
example : ∀ t : TlsReq, ∀ cfg : Config, cfg.tlsRequired = t → (httpGate cfg false = .forbidden403 ↔ t = .yes) := by
  intro t cfg h; cases t <;> simp [httpGate, serveHTTP, httpTlsRequired, h]
