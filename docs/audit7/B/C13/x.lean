import Nsq.Props.C13
open Nsq.Model.Chan Nsq.Model.ChanNsqd Nsq.Model.ChanStats Nsq.Model.ChanInv Nsq.Props

-- 1. topic invariant (executable form) ignores msgBytes entirely
example (conf : NConf) (n : Nat) (t : Topic) (b : Nat) :
    topicOk conf n { t with msgBytes := b } = topicOk conf n t := rfl

-- 1b. TInv (Prop form) ignores msgBytes: any value is consistent with the invariant
example (n : Nat) (t : Topic) (b : Nat) (h : Nsq.Proofs.ChanNsqd.TInv n t) :
    Nsq.Proofs.ChanNsqd.TInv n { t with msgBytes := b } :=
  { chans := h.chans, cnodup := h.cnodup, pfresh := h.pfresh, qnodup := h.qnodup, ackq := h.ackq,
    anodup := h.anodup, count := h.count, lt := h.lt, fan := h.fan, only := h.only, born := h.born,
    cenv := h.cenv, cput := h.cput, qenv := h.qenv, elid := h.elid, elnodup := h.elnodup }

-- 2. render_agree's statement is satisfied by a renderer/filter that shows nothing
example (s : State) (fmt : Fmt) (incl : Bool) :
    ∀ r ∈ rows fmt ((fun (_ : List TStat) => ([] : List TStat)) (snapshot s)),
      ∃ r' ∈ rows .json (snapshot s), r'.key = r.key ∧ project fmt incl r' = r := by
  intro r hr; simp [rows] at hr

-- 3. text and json rows are the same function up to jsonOnly: agreement is definitional
example (snap : List TStat) : (rows .text snap).map (·.nums) = (rows .json snap).map (·.nums) := by
  simp [rows, topicRow, chanRow, List.map_flatMap, Function.comp_def]

-- 4. a durable channel with a sampling consumer: the statement's own formula (without "+ sampled") is false in the model
def sOps : List Nsq.Model.Chan.Op := [.put 7, .addClient 1 60 50, .rdy 1 1, .sampleDrop 1 7]
#eval let c := run {} { ephemeral := false, memCap := 10 } sOps
      (c.messageCount, c.memLen + c.dqLen, C13.nInflight c, C13.nDeferred c, nEv isFin c.hist, nEmptied c.hist, nEv isSampled c.hist)

-- 5. REQ is one atomic op in the model: which Ops are non-atomic
#eval [Nsq.Model.Chan.Op.req 1 1 0 0, .scanInFlight 0, .finChan 1 1, .finClient 1, .guard 1, .deliverArmed 1 1 0, .deliver 1 1 0, .empty].map (·.atomic)

#print axioms C13.channel_conservation
#print axioms C13.render_agree
#check @C13.topic_bytes
