import Nsq.Props.C13
open Nsq.Model.Chan
-- does inFlOk / invOkA reject the pre-F13 state (client inFlight = -1)?
#eval inFlOk { clients := [{ conn := 1, inFlight := -1 }] }
#eval invOk { messageCount := 1 }
