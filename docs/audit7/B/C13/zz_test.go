package nsqd

import (
	"errors"
	"fmt"
	"io"
	"net/http"
	"os"
	"sync/atomic"
	"testing"
	"time"

	"github.com/nsqio/go-nsq"
	"github.com/nsqio/nsq/internal/test"
)

type zzFailBackend struct {
	BackendQueue
	fail int32
}

func (b *zzFailBackend) Put(d []byte) error {
	if atomic.LoadInt32(&b.fail) == 1 {
		return errors.New("zz: injected backend write error")
	}
	return b.BackendQueue.Put(d)
}

func zzWait(cond func() bool) bool {
	for i := 0; i < 400; i++ {
		if cond() {
			return true
		}
		time.Sleep(5 * time.Millisecond)
	}
	return false
}

// REQ 0 onto a full memory queue with a failing channel backend
func TestZZC13ReqBackendFail(t *testing.T) {
	opts := NewOptions()
	opts.Logger = test.NewTestLogger(t)
	opts.MemQueueSize = 1
	opts.QueueScanInterval = time.Hour
	tcpAddr, httpAddr, nsqd := mustStartNSQD(opts)
	defer os.RemoveAll(opts.DataPath)
	defer nsqd.Exit()

	topic := nsqd.GetTopic("zzt")
	ch := topic.GetChannel("zzc")
	fb := &zzFailBackend{BackendQueue: ch.backend}
	ch.backend = fb // before any consumer subscribes

	conn, err := mustConnectNSQD(tcpAddr)
	test.Nil(t, err)
	defer conn.Close()
	identify(t, conn, nil, frameTypeResponse)
	sub(t, conn, "zzt", "zzc")
	_, err = nsq.Ready(1).WriteTo(conn)
	test.Nil(t, err)

	m1 := NewMessage(topic.GenerateID(), []byte("one"))
	test.Nil(t, topic.PutMessage(m1))
	resp, err := nsq.ReadResponse(conn)
	test.Nil(t, err)
	ft, data, _ := nsq.UnpackResponse(resp)
	test.Equal(t, frameTypeMessage, ft)
	got, _ := decodeMessage(data)
	test.Equal(t, m1.ID, got.ID)

	// second message fills the memory queue (consumer has RDY 1, 1 in flight)
	m2 := NewMessage(topic.GenerateID(), []byte("two"))
	test.Nil(t, topic.PutMessage(m2))
	if !zzWait(func() bool { return ch.Depth() == 1 }) {
		t.Fatalf("depth never 1")
	}

	atomic.StoreInt32(&fb.fail, 1)
	_, err = nsq.Requeue(nsq.MessageID(m1.ID), 0).WriteTo(conn)
	test.Nil(t, err)
	resp, err = nsq.ReadResponse(conn)
	test.Nil(t, err)
	ft, data, _ = nsq.UnpackResponse(resp)
	t.Logf("ZZ REQ answer: frame=%d %q", ft, string(data))
	atomic.StoreInt32(&fb.fail, 0)
	time.Sleep(50 * time.Millisecond)

	st := nsqd.GetStats("zzt", "zzc", true)
	cs := st.Topics[0].Channels[0]
	cl := cs.Clients[0].(ClientV2Stats)
	t.Logf("ZZ channel: message_count=%d depth=%d in_flight=%d deferred=%d requeue_count=%d timeout_count=%d",
		cs.MessageCount, cs.Depth, cs.InFlightCount, cs.DeferredCount, cs.RequeueCount, cs.TimeoutCount)
	t.Logf("ZZ client: ready=%d in_flight_count=%d message_count=%d finish=%d requeue=%d",
		cl.ReadyCount, cl.InFlightCount, cl.MessageCount, cl.FinishCount, cl.RequeueCount)
	t.Logf("ZZ conservation: received %d vs depth+inflight+deferred+finished(0)+emptied(0) = %d",
		cs.MessageCount, cs.Depth+int64(cs.InFlightCount)+int64(cs.DeferredCount))
	t.Logf("ZZ client holds %d messages in the in-flight map but reports in_flight_count=%d; accepted REQs by client=%d, channel requeue_count=%d",
		cs.InFlightCount, cl.InFlightCount, cl.RequeueCount, cs.RequeueCount)
	_ = httpAddr
}

// timeout scan onto a full memory queue with a failing channel backend
func TestZZC13TimeoutBackendFail(t *testing.T) {
	opts := NewOptions()
	opts.Logger = test.NewTestLogger(t)
	opts.MemQueueSize = 1
	opts.QueueScanInterval = time.Hour
	tcpAddr, _, nsqd := mustStartNSQD(opts)
	defer os.RemoveAll(opts.DataPath)
	defer nsqd.Exit()

	topic := nsqd.GetTopic("zzt")
	ch := topic.GetChannel("zzc")
	fb := &zzFailBackend{BackendQueue: ch.backend}
	ch.backend = fb

	conn, err := mustConnectNSQD(tcpAddr)
	test.Nil(t, err)
	defer conn.Close()
	identify(t, conn, nil, frameTypeResponse)
	sub(t, conn, "zzt", "zzc")
	_, err = nsq.Ready(1).WriteTo(conn)
	test.Nil(t, err)
	m1 := NewMessage(topic.GenerateID(), []byte("one"))
	test.Nil(t, topic.PutMessage(m1))
	_, err = nsq.ReadResponse(conn)
	test.Nil(t, err)
	m2 := NewMessage(topic.GenerateID(), []byte("two"))
	test.Nil(t, topic.PutMessage(m2))
	if !zzWait(func() bool { return ch.Depth() == 1 }) {
		t.Fatalf("depth never 1")
	}
	atomic.StoreInt32(&fb.fail, 1)
	// RDY 0 so that nothing is redelivered meanwhile
	_, err = nsq.Ready(0).WriteTo(conn)
	test.Nil(t, err)
	time.Sleep(30 * time.Millisecond)
	ch.processInFlightQueue(time.Now().Add(2 * time.Hour).UnixNano())
	atomic.StoreInt32(&fb.fail, 0)
	st := nsqd.GetStats("zzt", "zzc", true)
	cs := st.Topics[0].Channels[0]
	cl := cs.Clients[0].(ClientV2Stats)
	t.Logf("ZZT channel: message_count=%d depth=%d in_flight=%d deferred=%d requeue_count=%d timeout_count=%d",
		cs.MessageCount, cs.Depth, cs.InFlightCount, cs.DeferredCount, cs.RequeueCount, cs.TimeoutCount)
	t.Logf("ZZT client: in_flight_count=%d", cl.InFlightCount)
	t.Logf("ZZT conservation: received %d vs located+finished+emptied = %d",
		cs.MessageCount, cs.Depth+int64(cs.InFlightCount)+int64(cs.DeferredCount))
}

// a producer that published to two topics: unfiltered /stats pub_counts
func TestZZC13PubCounts(t *testing.T) {
	opts := NewOptions()
	opts.Logger = test.NewTestLogger(t)
	tcpAddr, httpAddr, nsqd := mustStartNSQD(opts)
	defer os.RemoveAll(opts.DataPath)
	defer nsqd.Exit()
	conn, err := mustConnectNSQD(tcpAddr)
	test.Nil(t, err)
	defer conn.Close()
	identify(t, conn, nil, frameTypeResponse)
	for _, tn := range []string{"zza", "zzb", "zza"} {
		_, err = nsq.Publish(tn, []byte("x")).WriteTo(conn)
		test.Nil(t, err)
		readValidate(t, conn, frameTypeResponse, "OK")
	}
	st := nsqd.GetStats("", "", true)
	for _, p := range st.Producers {
		t.Logf("ZZP unfiltered producer pub_counts: %+v", p.(ClientV2Stats).PubCounts)
	}
	for _, tn := range []string{"zza", "zzb"} {
		st = nsqd.GetStats(tn, "", true)
		for _, p := range st.Producers {
			t.Logf("ZZP topic=%s producer pub_counts: %+v", tn, p.(ClientV2Stats).PubCounts)
		}
	}
	// nonexistent topic filter
	resp, err := http.Get(fmt.Sprintf("http://%s/stats?format=json&topic=nosuch", httpAddr))
	test.Nil(t, err)
	b, _ := io.ReadAll(resp.Body)
	resp.Body.Close()
	t.Logf("ZZP topic=nosuch json: %s", string(b))
	resp, err = http.Get(fmt.Sprintf("http://%s/stats?topic=nosuch", httpAddr))
	test.Nil(t, err)
	b, _ = io.ReadAll(resp.Body)
	resp.Body.Close()
	t.Logf("ZZP topic=nosuch text tail: %q", string(b[len(b)-60:]))
}
