package nsqd

// C16 harness, audit round 7: which lookupds GetTopic asks (C26, seeded C16-m8), hostile channel names in a
// lookupd's /channels answer (C8: command injection), a drip-fed reply (C9), an endless HTTP answer (C10).

import (
	"bytes"
	"encoding/hex"
	"fmt"
	"net"
	"sort"
	"strings"
	"testing"
	"time"

	"github.com/nsqio/nsq/internal/protocol"
)

func vfE6HexNames(names []string) string {
	var hs []string
	for _, n := range names {
		if n == "" {
			hs = append(hs, "-")
		} else {
			hs = append(hs, hex.EncodeToString([]byte(n)))
		}
	}
	sort.Strings(hs)
	return strings.Join(hs, ",")
}

func vfE6AnsWord(identified bool, ok bool, names []string) string {
	w := "id:"
	if !identified {
		w = "unid:"
	}
	switch {
	case !ok:
		return w + "fail"
	case len(names) == 0:
		return w + "none"
	}
	return w + vfE6HexNames(names)
}

// peerState: white-box view of nsqd's lookupPeer for a lookupd address
func (s *vfE6Sys) peerState(addr string) (connected bool, identified bool, found bool) {
	lps := s.n.lookupPeers.Load()
	if lps == nil {
		return
	}
	for _, lp := range lps.([]*lookupPeer) {
		if lp.addr == addr {
			return lp.state == stateConnected, len(lp.Info.BroadcastAddress) > 0, true
		}
	}
	return
}

func (s *vfE6Sys) waitPeer(addr string, wantConnected bool) bool {
	for i := 0; i < 1000; i++ {
		if c, _, ok := s.peerState(addr); ok && c == wantConnected && vfE6Quiescent() {
			return true
		}
		time.Sleep(5 * time.Millisecond)
	}
	return false
}

// publishFirst creates `topic` on nsqd by publishing its first message; returns the channel names it started with
func (s *vfE6Sys) publishFirst(topic, body string) ([]string, error) {
	resp, err := s.cli.Post("http://"+s.n.RealHTTPAddr().String()+"/pub?topic="+topic, "text/plain", strings.NewReader(body))
	if err != nil {
		return nil, err
	}
	resp.Body.Close()
	if resp.StatusCode != 200 {
		return nil, fmt.Errorf("status %d", resp.StatusCode)
	}
	tp, err := s.n.GetExistingTopic(topic)
	if err != nil {
		return nil, err
	}
	var got []string
	tp.RLock()
	for name := range tp.channelMap {
		got = append(got, name)
	}
	tp.RUnlock()
	sort.Strings(got)
	return got, nil
}

func (s *vfE6Sys) firstMessageOn(topic, ch, body string) bool {
	tp, err := s.n.GetExistingTopic(topic)
	if err != nil {
		return false
	}
	c, err := tp.GetExistingChannel(ch)
	if err != nil {
		return false
	}
	select {
	case m := <-c.memoryMsgChan:
		return string(m.Body) == body
	case <-time.After(2 * time.Second):
		return false
	}
}

// Which lookupds are asked: L0 healthy; L1 IDENTIFIED, then its TCP port refuses and nsqd has noticed (peer
// disconnected) while its HTTP side answers; L2's TCP port has refused since before nsqd started (never identified)
// while its HTTP side answers. Model: `precreate` over `Lookupd{identified, answer}`.
func TestVerifE6PrecreateWindows(t *testing.T) {
	vfE6PreMode = map[int]string{2: "refuse"}
	s := vfE6New(t, 3, false)
	vfE6PreMode = map[int]string{}
	defer s.close()
	s.out = vfOpen("prewin")
	fails := 0
	fail := func(key, f string, a ...interface{}) {
		fmt.Printf("ORACLE-FAIL key=%s %s\n", key, fmt.Sprintf(f, a...))
		fails++
	}
	if !s.waitPeer(s.fakes[0].addr, true) || !s.waitPeer(s.fakes[1].addr, true) {
		t.Fatal("lookupds L0/L1 did not get connected")
	}
	know := func(i int, topic string, chans ...string) {
		s.fakes[i].mu.Lock()
		s.fakes[i].extra[topic] = chans
		s.fakes[i].mu.Unlock()
	}
	run := func(topic string, ident [3]bool, ans [3][]string) {
		var words []string
		want := map[string]bool{}
		for i := 0; i < 3; i++ {
			words = append(words, vfE6AnsWord(ident[i], true, ans[i]))
			for _, c := range ans[i] {
				if ident[i] && !strings.HasSuffix(c, "#ephemeral") {
					want[c] = true
				}
			}
			know(i, topic, ans[i]...)
		}
		// the model's premise is checked against the real peer objects (white box)
		for i := 0; i < 3; i++ {
			if _, id, ok := s.peerState(s.fakes[i].addr); !ok || id != ident[i] {
				fail("precreate-window-setup", "lookupd L%d: identified=%v expected %v", i, id, ident[i])
			}
		}
		body := "first-" + topic
		got, err := s.publishFirst(topic, body)
		if err != nil {
			fail("precreate-publish", "publish to %s failed: %v", topic, err)
			return
		}
		s.out.Case("prex "+strings.Join(words, " "), "{"+vfE6HexNames(got)+"}")
		var wl []string
		for c := range want {
			wl = append(wl, c)
		}
		sort.Strings(wl)
		if strings.Join(wl, ",") != strings.Join(got, ",") {
			fail("precreate-identified-lookupd-not-asked", "topic %s: lookupds (identified=%v) answered %v over HTTP; channels created before Start %v, expected %v (every lookupd whose IDENTIFY has succeeded is asked through its cached address, whatever the state of the TCP connection now)", topic, ident, ans, got, wl)
			return
		}
		for _, c := range wl {
			if !s.firstMessageOn(topic, c, body) {
				fail("precreate-first-message", "channel %s/%s did not receive the topic's first message", topic, c)
			}
		}
		s.quiesce()
	}
	// win1: everything healthy
	run("win1", [3]bool{true, true, false}, [3][]string{{"k1", "tmp#ephemeral"}, {"k1b"}, {"never"}})
	// win2: L1's TCP port refuses; nsqd notices with the next command (the topic above was announced); HTTP still answers
	s.fakes[1].setMode("refuse", 0)
	s.n.GetTopic("trigger")
	if !s.waitPeer(s.fakes[1].addr, false) {
		t.Fatal("nsqd did not notice that L1 is down")
	}
	run("win2", [3]bool{true, true, false}, [3][]string{{"k2"}, {"k2-only-L1-knows"}, {"never"}})
	if c, _, _ := s.peerState(s.fakes[1].addr); c {
		fail("precreate-window-setup", "L1 was connected again during win2")
	}
	// win3: only the never-identified L2 knows the channel: not asked (named limitation, theorem precreate_full_false)
	run("win3", [3]bool{true, true, false}, [3][]string{nil, nil, {"k3-only-unidentified-knows"}})
	// win4: L2's TCP port comes up: the next heartbeat connects and IDENTIFIES it; from then on it is asked
	s.fakes[2].setMode("normal", 0)
	s.fakes[1].setMode("normal", 0)
	if !s.waitPeer(s.fakes[2].addr, true) || !s.waitPeer(s.fakes[1].addr, true) {
		t.Fatal("L1/L2 did not get connected after healing")
	}
	run("win4", [3]bool{true, true, true}, [3][]string{nil, {"k4b"}, {"k4"}})
	// win5: L2 drops again (restart, noticed): still asked through the cached address
	s.fakes[2].setMode("refuse", 0)
	s.n.GetTopic("trigger2")
	if !s.waitPeer(s.fakes[2].addr, false) {
		t.Fatal("nsqd did not notice that L2 is down")
	}
	run("win5", [3]bool{true, true, true}, [3][]string{{"k5"}, nil, {"k5-only-L2-knows"}})
	s.out.Close()
	if fails == 0 {
		fmt.Printf("ORACLE-OK precreate windows cases=5 (connected / identified-but-disconnected / never identified / identified later / disconnected again)\n")
	}
}

// Hostile channel names in a lookupd's /channels answer: the empty name, names with blanks and newlines (a second
// command line), over-long and non-ASCII names. Model (tree with F35): only valid names are created.
func TestVerifE6PrecreateBadNames(t *testing.T) {
	s := vfE6New(t, 2, true)
	defer s.close()
	s.out = vfOpen("prebad")
	fails := 0
	fail := func(key, f string, a ...interface{}) {
		fmt.Printf("ORACLE-FAIL key=%s %s\n", key, fmt.Sprintf(f, a...))
		fails++
	}
	if !s.waitPeer(s.fakes[0].addr, true) || !s.waitPeer(s.fakes[1].addr, true) || !s.waitPeer(s.realTCP, true) {
		t.Fatal("lookupds did not get connected")
	}
	// a bystander topic of this nsqd that the injected line tries to unregister everywhere
	s.n.GetTopic("victim").GetChannel("vc")
	s.lastHeal = time.Now()
	if v := s.settle(); len(s.fails) > 0 {
		t.Fatal("setup did not settle: " + v)
	}
	long := strings.Repeat("L", 65)
	cases := []struct {
		topic string
		names []string
	}{
		{"bad1", []string{"good", "x\nUNREGISTER victim", "tmp#ephemeral"}},
		{"bad2", []string{"a b", "", "fine.one"}},
		{"bad3", []string{long, "café", "y\nREGISTER smuggled", "ok-3", "tab\there", "#ephemeral"}},
	}
	for _, c := range cases {
		s.fakes[0].mu.Lock()
		s.fakes[0].extra[c.topic] = c.names
		s.fakes[0].mu.Unlock()
		got, err := s.publishFirst(c.topic, "first-"+c.topic)
		if err != nil {
			fail("precreate-publish", "publish to %s failed: %v", c.topic, err)
			continue
		}
		s.out.Case("prex "+vfE6AnsWord(true, true, c.names)+" id:none id:none", "{"+vfE6HexNames(got)+"}")
		for _, g := range got {
			if !protocol.IsValidChannelName(g) {
				fail("precreate-unvalidated-channel-name", "topic %s: nsqd created channel %q from a lookupd's /channels answer although it is not a valid channel name (it is then announced to every lookupd as `REGISTER %s %s`)", c.topic, g, c.topic, g)
			}
		}
		s.quiesce()
		time.Sleep(3 * vfE6Heartbeat)
		s.quiesce()
	}
	// the injection oracle, independent of the model: the bystander topic is still registered at every lookupd and no
	// lookupd ever received a command line that nsqd has no object for
	time.Sleep(3 * vfE6Heartbeat)
	for _, f := range s.fakes {
		f.mu.Lock()
		for _, c := range f.cmds {
			if strings.Contains(c, "victim") && strings.HasPrefix(c, "UNREGISTER") || strings.Contains(c, "smuggled") {
				fail("precreate-unvalidated-channel-name", "lookupd %s received the injected command `%s` (a channel name with a newline from another lookupd's /channels answer)", f.name, c)
			}
		}
		f.mu.Unlock()
		if v := f.view(); v != "down" && !strings.Contains(v, "victim/") {
			fail("precreate-unvalidated-channel-name", "lookupd %s no longer lists the bystander topic `victim`: %s", f.name, v)
		}
	}
	if v := s.realView(); v != "down" && !strings.Contains(v, "victim/") || strings.Contains(v, "smuggled") {
		fail("precreate-unvalidated-channel-name", "the real nsqlookupd: bystander topic `victim` unregistered / topic `smuggled` registered by an injected command line: %s", v)
	}
	s.out.Close()
	if fails == 0 {
		fmt.Printf("ORACLE-OK precreate hostile names cases=%d (newline, blank, empty, 65 bytes, non-ASCII, tab, bare #ephemeral)\n", len(cases))
	}
}

// audit C10: the /channels answer of a lookupd is read with io.ReadAll (internal/http_api.Client.GETV1) - no bound but
// the HTTP client's request timeout. One lookupd streams an endless answer (cut by the harness after 24 MiB): how much
// of it does nsqd take? The topic must still be created (with the channels the OTHER lookupd knows) and nsqd must live.
func TestVerifE6PrecreateFlood(t *testing.T) {
	s := vfE6New(t, 2, false)
	defer s.close()
	s.out = vfOpen("preflood")
	if !s.waitPeer(s.fakes[0].addr, true) || !s.waitPeer(s.fakes[1].addr, true) {
		t.Fatal("lookupds did not get connected")
	}
	s.fakes[0].setHTTPMode("flood")
	s.fakes[1].mu.Lock()
	s.fakes[1].extra["flood1"] = []string{"kept"}
	s.fakes[1].mu.Unlock()
	got, err := s.publishFirst("flood1", "first-flood1")
	if err != nil {
		fmt.Printf("ORACLE-FAIL key=precreate-publish publish to flood1 failed while a lookupd streams an endless answer: %v\n", err)
		return
	}
	s.out.Case("prex id:fail "+vfE6AnsWord(true, true, []string{"kept"}), "{"+vfE6HexNames(got)+"}")
	s.out.Close()
	s.probe("flood")
	for _, f := range s.fails {
		fmt.Println(f)
	}
	s.fakes[0].mu.Lock()
	n := s.fakes[0].flooded
	s.fakes[0].mu.Unlock()
	fmt.Printf("DIST flood_bytes_taken=%d of=%d\n", n, vfE6FloodMax)
	if n >= vfE6FloodMax {
		fmt.Printf("ORACLE-FAIL key=precreate-unbounded-http-body nsqd read all %d MiB of a lookupd's endless /channels answer into memory (io.ReadAll in internal/http_api, bounded only by the request timeout x bandwidth; the auditor measured 2.5 GB RSS in 5 s)\n", n>>20)
	} else if len(s.fails) == 0 {
		fmt.Printf("ORACLE-OK precreate flood: nsqd stopped reading after %d bytes\n", n)
	}
}

var _ = bytes.Equal
var _ = net.Dial
