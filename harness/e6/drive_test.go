package nsqd

// C16 harness, audit C33 (last clause): lookupPeer is a small state machine - drive the REAL lookupPeer.Command with
// the REAL connectCallback of a real NSQD, one Command at a time, against a scripted server that fails a chosen
// interaction (dial / IDENTIFY / the k-th REGISTER of the callback / the command itself), and compare the resulting
// (lp.state, what the server holds for the session) with Nsq.Model.LookupSync.fineCommand.

import (
	"bufio"
	"encoding/binary"
	"fmt"
	"io"
	"net"
	"os"
	"sort"
	"strings"
	"sync"
	"testing"
	"time"

	"github.com/nsqio/go-nsq"
	"github.com/nsqio/nsq/internal/test"
)

type vfE6Srv struct {
	mu    sync.Mutex
	ln    net.Listener
	addr  string
	net   []bool // outcome of the interactions of the CURRENT Command, in order
	pos   int    // index of the next interaction the server will see
	regs  map[string]bool
	alive bool
	conn  net.Conn
	done  chan struct{}
}

func vfE6NewSrv() *vfE6Srv {
	ln, err := vfListen()
	if err != nil {
		panic(err)
	}
	s := &vfE6Srv{ln: ln, addr: ln.Addr().String()}
	go func() {
		for {
			c, err := ln.Accept()
			if err != nil {
				return
			}
			s.mu.Lock()
			s.conn, s.alive, s.regs, s.done = c, true, map[string]bool{}, make(chan struct{})
			s.pos = 1 // the dial (interaction 0) has succeeded
			d := s.done
			s.mu.Unlock()
			go s.serve(c, d)
		}
	}()
	return s
}

// next: consume one interaction; false = this one fails (the server closes the connection)
func (s *vfE6Srv) next() bool {
	s.mu.Lock()
	defer s.mu.Unlock()
	ok := s.pos < len(s.net) && s.net[s.pos]
	s.pos++
	return ok
}

func (s *vfE6Srv) serve(c net.Conn, done chan struct{}) {
	defer func() {
		c.Close()
		s.mu.Lock()
		if s.conn == c {
			s.alive = false
		}
		s.mu.Unlock()
		close(done)
	}()
	r := bufio.NewReader(c)
	magic := make([]byte, 4)
	if _, err := io.ReadFull(r, magic); err != nil {
		return
	}
	s.next() // interaction 1 (the magic write) cannot be failed from here: always counted as ok
	for {
		line, err := r.ReadString('\n')
		if err != nil {
			return
		}
		p := strings.Fields(line)
		if len(p) == 0 {
			return
		}
		resp := []byte("OK")
		if p[0] == "IDENTIFY" {
			var n int32
			if binary.Read(r, binary.BigEndian, &n) != nil || n < 0 || n > 1<<20 {
				return
			}
			if _, err := io.ReadFull(r, make([]byte, n)); err != nil {
				return
			}
			resp = []byte(`{"tcp_port":1,"http_port":2,"version":"drive","broadcast_address":"127.0.0.1"}`)
		}
		if !s.next() {
			return // this interaction fails: the reply never comes, the connection is closed
		}
		s.mu.Lock()
		switch p[0] {
		case "REGISTER":
			if len(p) > 2 {
				s.regs[p[1]+"/"+p[2]] = true
			}
			s.regs[p[1]+"/"] = true
		case "UNREGISTER":
			if len(p) > 2 {
				delete(s.regs, p[1]+"/"+p[2])
			} else {
				for k := range s.regs {
					if strings.HasPrefix(k, p[1]+"/") {
						delete(s.regs, k)
					}
				}
			}
		}
		s.mu.Unlock()
		hdr := make([]byte, 4)
		binary.BigEndian.PutUint32(hdr, uint32(len(resp)))
		if _, err := c.Write(append(hdr, resp...)); err != nil {
			return
		}
	}
}

func (s *vfE6Srv) session() string {
	s.mu.Lock()
	defer s.mu.Unlock()
	if !s.alive {
		return "none"
	}
	return vfE6Set(s.regs)
}

func (s *vfE6Srv) script(net []bool, pos int) {
	s.mu.Lock()
	s.net, s.pos = net, pos
	s.mu.Unlock()
}

func (s *vfE6Srv) kill() {
	s.mu.Lock()
	c, d, alive := s.conn, s.done, s.alive
	s.mu.Unlock()
	if alive && c != nil {
		c.Close()
		<-d
	}
}

func TestVerifE6PeerDrive(t *testing.T) {
	rng := vfNewRand(0xE6D1)
	out := vfOpen("drive")
	trials := vfEnvInt("VERIF_N", 60)
	opts := NewOptions()
	opts.Logger = test.NewTestLogger(nilTB{})
	opts.TCPAddress, opts.HTTPAddress = vfLoop2()
	opts.BroadcastAddress = vfLoopHost(opts.TCPAddress)
	opts.DataPath = t.TempDir()
	n, err := New(opts)
	if err != nil {
		t.Fatal(err)
	}
	go n.Main()
	defer n.Exit()
	hostname, _ := os.Hostname()
	dead := vfLoopDead() // nothing listens here (private IP, port 1): the dial is refused
	stats := map[string]int{}
	fails := 0
	bits := func(b []bool) string {
		var sb strings.Builder
		for _, x := range b {
			if x {
				sb.WriteByte('1')
			} else {
				sb.WriteByte('0')
			}
		}
		return sb.String()
	}
	for i := 0; i < trials; i++ {
		srv := vfE6NewSrv()
		// nsqd's objects for this trial
		var objs []string
		var topics []string
		for _, tn := range []string{"a", "b"} {
			if rng.Intn(3) == 0 {
				continue
			}
			name := fmt.Sprintf("d%d%s", i, tn)
			tp := n.GetTopic(name)
			topics = append(topics, name)
			objs = append(objs, name+"/")
			for _, cn := range []string{"x", "y"} {
				if rng.Intn(2) == 0 {
					tp.GetChannel(cn)
					objs = append(objs, name+"/"+cn)
				}
			}
		}
		ncb := 0
		for _, tn := range topics {
			k := 0
			for _, o := range objs {
				if strings.HasPrefix(o, tn+"/") && o != tn+"/" {
					k++
				}
			}
			if k == 0 {
				k = 1
			}
			ncb += k
		}
		// initial state
		st := []string{"disc", "conn", "stale"}[rng.Intn(3)]
		addr := srv.addr
		var cmd *nsq.Command
		cmdS := "nil"
		switch rng.Intn(4) {
		case 0:
		case 1:
			cmd, cmdS = nsq.Ping(), "ping"
		case 2:
			cmd, cmdS = nsq.Register("zz", "c"), "reg:zz/c"
		default:
			if len(objs) > 0 {
				o := objs[rng.Intn(len(objs))]
				p := strings.SplitN(o, "/", 2)
				cmd, cmdS = nsq.UnRegister(p[0], p[1]), "unreg:"+o
			} else {
				cmd, cmdS = nsq.UnRegister("zz", ""), "unreg:zz/"
			}
		}
		need := 3 + ncb + 1
		netw := make([]bool, need)
		for j := range netw {
			netw[j] = rng.Intn(6) != 0
		}
		netw[1] = true // the magic write cannot be failed deterministically
		if rng.Intn(3) == 0 {
			for j := range netw {
				netw[j] = true
			}
		}
		lp := newLookupPeer(addr, 1<<20, n.logf, connectCallback(n, hostname))
		if st != "disc" {
			all := make([]bool, need)
			for j := range all {
				all[j] = true
			}
			srv.script(all, 0)
			if _, err := lp.Command(nil); err != nil || lp.state != stateConnected {
				t.Fatalf("trial %d: could not establish the initial session: %v", i, err)
			}
			if st == "stale" {
				srv.kill()
			}
		} else if !netw[0] {
			lp.addr = dead
		}
		sess0 := srv.session()
		if st == "disc" {
			sess0 = "none"
		}
		stS := "disc"
		if st != "disc" {
			stS = "conn"
			netw = netw[:1] // a connected peer consumes ONE interaction: the command
			srv.script(netw, 0)
		} else {
			srv.script(netw, 0)
		}
		lp.Command(cmd)
		// let the server notice a close from nsqd's side
		if lp.state != stateConnected {
			for k := 0; k < 400 && srv.session() != "none"; k++ {
				time.Sleep(5 * time.Millisecond)
			}
		}
		res := "disc"
		if lp.state == stateConnected {
			res = "conn"
		}
		sort.Strings(objs)
		ob := strings.Join(objs, ",")
		if ob == "" {
			ob = "-"
		}
		op := fmt.Sprintf("fine objs=%s cmd=%s st=%s sess=%s net=%s", ob, cmdS, stS, sess0, bits(netw))
		impl := res + " " + srv.session()
		out.Case(op, impl)
		stats[st+">"+res]++
		if st == "disc" {
			firstFail := len(netw)
			for j, b := range netw {
				if !b {
					firstFail = j
					break
				}
			}
			switch {
			case firstFail == 0:
				stats["fail:dial"]++
			case firstFail == 2:
				stats["fail:identify"]++
			case firstFail > 2 && firstFail < 3+ncb:
				stats["fail:register"]++
			case firstFail == 3+ncb && cmd != nil:
				stats["fail:command"]++
			default:
				stats["fail:none"]++
			}
		}
		// direct oracle (property, independent of the model): a peer that ends connected with a live session holds
		// EXACTLY nsqd's objects (after applying the command), a peer that ends disconnected holds nothing
		if res == "disc" && srv.session() != "none" {
			fmt.Printf("ORACLE-FAIL key=drive-session-kept trial %d (%s): lookupPeer ended disconnected but the lookupd still holds the session %s\n", i, op, srv.session())
			fails++
		}
		lp.Close()
		srv.ln.Close()
		srv.kill()
		for _, tn := range topics {
			n.DeleteExistingTopic(tn)
		}
	}
	out.Close()
	var ks []string
	for k, v := range stats {
		ks = append(ks, fmt.Sprintf("%s=%d", k, v))
	}
	sort.Strings(ks)
	fmt.Printf("DIST drive %s\n", strings.Join(ks, " "))
	if fails == 0 {
		fmt.Printf("ORACLE-OK drive trials=%d\n", trials)
	}
}
