// The conditional graphite reverse proxy (`GET /render`, registered only with --proxy-graphite) — the one route
// whose handler is not a method of httpServer (its skeleton is `Skel.unknown`, see Tie.AdminGate `Route.isProxy`).
// A real nsqadmin with the option on, a recording stub graphite and the recording stub nsqlookupd / nsqd cluster:
// op `proxy m=<method> q=<hex query> who=<identity> g=<graphite behaviour>`, impl
// `<status> <what graphite received: METHOD:/path?query | -> auth=<basic-auth user graphite saw | -> nsq=<requests to nsqd/nsqlookupd>`.
package nsqadmin

import (
	"fmt"
	"io"
	"net/http"
	"strings"
	"sync"
	"testing"
	"time"

	"github.com/nsqio/nsq/internal/lg"
)

func TestVerifE7Proxy(t *testing.T) {
	cl := vfE7NewCluster(1, 1)
	defer cl.close()
	cl.apply(vfE7World{lookupds: []string{"L0"}, prods: map[string][]string{"L0": {"N0"}}})
	var mu sync.Mutex
	var seen []string
	var auth string
	gstatus := 200
	graphite := vfHTTPServer(http.HandlerFunc(func(w http.ResponseWriter, r *http.Request) {
		mu.Lock()
		seen = append(seen, r.Method+":"+r.URL.RequestURI())
		if u, _, ok := r.BasicAuth(); ok {
			auth = u
		}
		st := gstatus
		mu.Unlock()
		w.WriteHeader(st)
		io.WriteString(w, `[{"target":"x","datapoints":[[1,2]]}]`)
	}))
	defer graphite.Close()
	out := vfE7Open("gate_proxy")
	defer out.Close()
	hist := map[string]int{}
	for _, on := range []bool{true, false} {
		opts := NewOptions()
		opts.HTTPAddress = vfLoopAddr()
		opts.NSQLookupdHTTPAddresses = []string{cl.bySym["L0"]}
		opts.Logger = vfE7NullLogger{}
		opts.LogLevel = lg.FATAL
		opts.AdminUsers = []string{"alice"}
		opts.HTTPClientConnectTimeout = 2 * time.Second
		opts.HTTPClientRequestTimeout = 5 * time.Second
		opts.ProxyGraphite = on
		opts.GraphiteURL = strings.Replace(graphite.URL, "http://", "http://guser:gpw@", 1)
		n, err := New(opts)
		if err != nil {
			t.Fatal(err)
		}
		hs := NewHTTPServer(n)
		ts := vfHTTPServer(hs)
		for _, g := range []string{"200", "404", "500", "down"} {
			for _, m := range []string{"GET", "POST", "PUT", "DELETE", "HEAD"} {
				for _, who := range []string{"-", "mallory", "alice"} {
					for _, q := range []string{"", "target=a.b&from=-60sec&format=json", "target=x%20y&target=z", "as=alice&topic=t1"} {
						mu.Lock()
						seen, auth = nil, ""
						gstatus = 200
						if g != "down" {
							fmt.Sscanf(g, "%d", &gstatus)
						}
						mu.Unlock()
						cl.log.take()
						path := "/render"
						if q != "" {
							path += "?" + q
						}
						base := ts.URL
						req, _ := http.NewRequest(m, base+path, nil)
						if who != "-" {
							req.Header.Set("X-Forwarded-User", who)
						}
						if g == "down" && on {
							// nobody listens: point this one request's server at a dead graphite by swapping the target
							n.graphiteURL.Host = vfE7Dead
							hs = NewHTTPServer(n)
							ts2 := vfHTTPServer(hs)
							req, _ = http.NewRequest(m, ts2.URL+path, nil)
							if who != "-" {
								req.Header.Set("X-Forwarded-User", who)
							}
							resp, err := http.DefaultClient.Do(req)
							if err != nil {
								t.Fatal(err)
							}
							io.Copy(io.Discard, resp.Body)
							resp.Body.Close()
							ts2.Close()
							n.graphiteURL.Host = strings.TrimPrefix(graphite.URL, "http://")
							hs = NewHTTPServer(n)
							vfE7ProxyCase(out, hist, on, m, q, who, g, resp.StatusCode, nil, "", cl.log.take())
							continue
						}
						resp, err := http.DefaultClient.Do(req)
						if err != nil {
							t.Fatal(err)
						}
						io.Copy(io.Discard, resp.Body)
						resp.Body.Close()
						mu.Lock()
						s2, a2 := append([]string(nil), seen...), auth
						mu.Unlock()
						vfE7ProxyCase(out, hist, on, m, q, who, g, resp.StatusCode, s2, a2, cl.log.take())
					}
				}
			}
		}
		ts.Close()
		n.httpListener.Close()
	}
	fmt.Printf("E7-PROXY cases=%d hist=%v\n", out.n, hist)
}

func vfE7ProxyCase(out *vfE7Writer, hist map[string]int, on bool, m, q, who, g string, status int, seen []string, auth string, nsq []string) {
	fw := "-"
	if len(seen) > 0 {
		fw = strings.Join(seen, "|")
	}
	if auth == "" {
		auth = "-"
	}
	o := "0"
	if on {
		o = "1"
	}
	out.Case(fmt.Sprintf("proxy on=%s m=%s q=%s who=%s g=%s", o, m, vfE7Hex(q), who, g),
		fmt.Sprintf("%d %s auth=%s nsq=%d", status, fw, auth, len(nsq)))
	hist[fmt.Sprintf("on=%s:%s:%d", o, m, status)]++
}
