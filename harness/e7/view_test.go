package nsqadmin

// Correspondence harness for C18 (engine E7): the real nsqadmin view handlers against stub
// nsqlookupd / nsqd upstreams serving generated cluster contents.
//
// Every case = one cluster description (which upstream answers what, or fails) + one view request.
// Op line: `view <request> W L … A … N …` (grammar in lean/Nsq/Model/AggregateWire.lean); impl line:
// the canonical rendering of nsqadmin's JSON answer (lists whose order the code leaves to goroutine
// arrival are sorted). Addresses are symbolic (L0.., N0.., X0 = nobody listens).
//
// A case may kill the process (a panic in a fetch goroutine): ops/impl are flushed per case and the
// test can be restarted with VERIF_SKIP=<index> — the python side reports the case as the replay.

import (
	"encoding/json"
	"fmt"
	"io"
	"log"
	"net"
	"net/http"
	"net/http/httptest"
	"os"
	"path/filepath"
	"runtime"
	"sort"
	"strconv"
	"strings"
	"sync"
	"sync/atomic"
	"testing"
	"time"

	"github.com/nsqio/nsq/internal/lg"
)

// ------------------------------------------------------------------ cluster description

type vfE7Client struct {
	Null     bool
	Hostname string
	ClientID string
	Optional bool // send the optional members too
}

type vfE7Chan struct {
	Null                                                            bool
	Name                                                            string
	Depth, Backend, InFlight, Deferred, Requeue, Timeout, Msg       int64
	Zone, Region, Global, ClientCount                               int64
	Paused                                                          bool
	E2E                                                             int // 0 absent, 1 present, 2 null, 3 present with percentiles, 4 present with the percentiles of Pct
	UpNodes                                                         []int // a "nodes" member in the channel object the stub sends: -1 null, 1 an object
	Pct                                                             []int // E2E == 4: one entry per element of "percentiles": -1 null, 0 an object without "quantile", k>0 {"quantile": k/100}
	Clients                                                         []vfE7Client
}

type vfE7Topic struct {
	Null                                       bool
	Name                                       string
	Depth, Backend, Msg, Zone, Region, Global int64
	Paused                                     bool
	E2E                                        int
	Pct                                        []int
	Channels                                   []vfE7Chan
}

type vfE7Producer struct {
	Null       bool
	Hostname   string
	Sym        string // the nsqd it points at (N0.., X0)
	TCPPort    int
	Version    string
	Remote     string
	Topics     []string
	Tombstones []bool
}

type vfE7Fail int // 0 = answers, >0 = a way of failing (7 = answers, but only after the 403 -> https upgrade)

// Behaviours around the "403 on plain HTTP, retry on the announced HTTPS port" rule of the upstream client:
//
//	7  plain port: 403 {"https_port": <TLS twin>}; the TLS twin answers normally      → the upstream ANSWERS
//	8  plain port: 403 {"https_port": <TLS twin>}; the TLS twin answers the same 403  → failed
//	9  plain port: 403 {"https_port": <closed port>}                                   → failed
//	10 plain port: 403 without https_port                                              → failed
//	11 plain port: 403 with an unusable https_port                                     → failed
const vfE7Upgrade vfE7Fail = 7

func (f vfE7Fail) failed() bool { return f != 0 && f != vfE7Upgrade }

type vfE7Lookupd struct {
	Sym        string
	TopicsFail vfE7Fail
	Topics     []string
	NodesFail  vfE7Fail
	Nodes      []vfE7Producer
	LookupFail vfE7Fail
	Lookup     []vfE7Producer
	PerTopic   []vfE7TopicAns // answers of /lookup?topic= and /channels?topic= for particular topics (section `I` of the op line)
}

// vfE7TopicAns: what one nsqlookupd says about one topic. Without an entry /lookup?topic= answers with Lookup
// and /channels?topic= with an empty list.
type vfE7TopicAns struct {
	Topic        string
	LookupFail   vfE7Fail
	Lookup       []vfE7Producer
	ChannelsFail vfE7Fail
	Channels     []string
}

type vfE7Nsqd struct {
	Sym       string
	Filters   bool
	InfoFail  vfE7Fail
	Hostname  string
	TCPPort   int
	Version   string
	StatsFail vfE7Fail
	Topics    []vfE7Topic
	NoBcast   bool // /info without broadcast_address and http_port (an nsqd from before these members)
}

type vfE7VWorld struct {
	Lookupds  []vfE7Lookupd
	NsqdAddrs []string
	Nsqds     []vfE7Nsqd
}

// ------------------------------------------------------------------ op-line encoding

func vfE7S(s string) string {
	if s == "" {
		return "-"
	}
	return s
}
func vfE7B(b bool) string {
	if b {
		return "1"
	}
	return "0"
}

func vfE7Ver(v string) (int, int, int) {
	// semver.Parse accepts exactly MAJOR.MINOR.PATCH (plus pre-release/build, not generated here)
	f := strings.Split(v, ".")
	if len(f) != 3 {
		return 0, 0, 0
	}
	var n [3]int
	for i, x := range f {
		if x == "" || (len(x) > 1 && x[0] == '0') {
			return 0, 0, 0
		}
		for _, c := range x {
			if c < '0' || c > '9' {
				return 0, 0, 0
			}
		}
		n[i], _ = strconv.Atoi(x)
	}
	return n[0], n[1], n[2]
}

func (p vfE7Producer) tokens(sb *strings.Builder) {
	if p.Null {
		sb.WriteString(" null")
		return
	}
	a, b, c := vfE7Ver(p.Version)
	fmt.Fprintf(sb, " P %s %s 127.0.0.1:%d %s %d %d %d %s %d", vfE7S(p.Hostname), p.Sym, p.TCPPort, vfE7S(p.Version), a, b, c,
		vfE7S(p.Remote), len(p.Topics))
	for _, t := range p.Topics {
		sb.WriteString(" " + vfE7S(t))
	}
	fmt.Fprintf(sb, " %d", len(p.Tombstones))
	for _, t := range p.Tombstones {
		sb.WriteString(" " + vfE7B(t))
	}
}

func (c vfE7Chan) tokens(sb *strings.Builder) {
	if c.Null {
		sb.WriteString(" null")
		return
	}
	fmt.Fprintf(sb, " C %s %d %d %d %d %d %d %d %d %d %d %d %s %s %d", vfE7S(c.Name), c.Depth, c.Backend, c.InFlight, c.Deferred,
		c.Requeue, c.Timeout, c.Msg, c.Zone, c.Region, c.Global, c.ClientCount, vfE7B(c.Paused), vfE7E2ETok(c.E2E, c.Pct)+vfE7JunkTok(c.UpNodes), len(c.Clients))
	for _, k := range c.Clients {
		if k.Null {
			sb.WriteString(" null")
		} else {
			fmt.Fprintf(sb, " K %s %s", vfE7S(k.Hostname), vfE7S(k.ClientID))
		}
	}
}

func (t vfE7Topic) tokens(sb *strings.Builder) {
	if t.Null {
		sb.WriteString(" null")
		return
	}
	fmt.Fprintf(sb, " T %s %d %d %d %d %d %d %s %s %d", vfE7S(t.Name), t.Depth, t.Backend, t.Msg, t.Zone, t.Region, t.Global,
		vfE7B(t.Paused), vfE7E2ETok(t.E2E, t.Pct), len(t.Channels))
	for _, c := range t.Channels {
		c.tokens(sb)
	}
}

func (w vfE7VWorld) tokens() string {
	var sb strings.Builder
	fmt.Fprintf(&sb, "W L %d", len(w.Lookupds))
	for _, l := range w.Lookupds {
		sb.WriteString(" " + l.Sym)
		if l.TopicsFail.failed() {
			sb.WriteString(" F")
		} else {
			fmt.Fprintf(&sb, " O %d", len(l.Topics))
			for _, t := range l.Topics {
				sb.WriteString(" " + vfE7S(t))
			}
		}
		for _, ans := range []struct {
			f  vfE7Fail
			ps []vfE7Producer
		}{{l.NodesFail, l.Nodes}, {l.LookupFail, l.Lookup}} {
			if ans.f.failed() {
				sb.WriteString(" F")
			} else {
				fmt.Fprintf(&sb, " O %d", len(ans.ps))
				for _, p := range ans.ps {
					p.tokens(&sb)
				}
			}
		}
	}
	fmt.Fprintf(&sb, " A %d", len(w.NsqdAddrs))
	for _, a := range w.NsqdAddrs {
		sb.WriteString(" " + a)
	}
	fmt.Fprintf(&sb, " N %d", len(w.Nsqds))
	for _, n := range w.Nsqds {
		fmt.Fprintf(&sb, " %s %s", n.Sym, vfE7B(n.Filters))
		if n.InfoFail.failed() {
			sb.WriteString(" F")
		} else {
			a, b, c := vfE7Ver(n.Version)
			if n.NoBcast {
				// what Producer.HTTPAddress() / TCPAddress() make of the answer as it is: ":0", ":<tcp_port>"
				fmt.Fprintf(&sb, " O %s :0 :%d %s %d %d %d", vfE7S(n.Hostname), n.TCPPort, vfE7S(n.Version), a, b, c)
			} else {
				fmt.Fprintf(&sb, " O %s %s 127.0.0.1:%d %s %d %d %d", vfE7S(n.Hostname), n.Sym, n.TCPPort, vfE7S(n.Version), a, b, c)
			}
		}
		if n.StatsFail.failed() {
			sb.WriteString(" F")
		} else {
			fmt.Fprintf(&sb, " O %d", len(n.Topics))
			for _, t := range n.Topics {
				t.tokens(&sb)
			}
		}
	}
	// per-topic answers of the nsqlookupds (only present when some nsqlookupd has any)
	nI := 0
	for _, l := range w.Lookupds {
		nI += len(l.PerTopic)
	}
	if nI > 0 {
		fmt.Fprintf(&sb, " I %d", nI)
		for _, l := range w.Lookupds {
			for _, a := range l.PerTopic {
				fmt.Fprintf(&sb, " %s %s", l.Sym, vfE7S(a.Topic))
				if a.LookupFail.failed() {
					sb.WriteString(" F")
				} else {
					fmt.Fprintf(&sb, " O %d", len(a.Lookup))
					for _, p := range a.Lookup {
						p.tokens(&sb)
					}
				}
				if a.ChannelsFail.failed() {
					sb.WriteString(" F")
				} else {
					fmt.Fprintf(&sb, " O %d", len(a.Channels))
					for _, c := range a.Channels {
						sb.WriteString(" " + vfE7S(c))
					}
				}
			}
		}
	}
	// how each failing / upgraded answer behaves (ignored by the model: it only needs answered-or-failed)
	var fl []string
	for _, l := range w.Lookupds {
		for _, x := range []struct {
			ep string
			f  vfE7Fail
		}{{"topics", l.TopicsFail}, {"nodes", l.NodesFail}, {"lookup", l.LookupFail}} {
			if x.f != 0 {
				fl = append(fl, fmt.Sprintf("%s %s %d", l.Sym, x.ep, x.f))
			}
		}
	}
	for _, n := range w.Nsqds {
		if n.InfoFail != 0 {
			fl = append(fl, fmt.Sprintf("%s info %d", n.Sym, n.InfoFail))
		}
		if n.StatsFail != 0 {
			fl = append(fl, fmt.Sprintf("%s stats %d", n.Sym, n.StatsFail))
		}
	}
	fmt.Fprintf(&sb, " X %d", len(fl))
	for _, x := range fl {
		sb.WriteString(" " + x)
	}
	return sb.String()
}

// ------------------------------------------------------------------ JSON the stubs serve

func vfE7J(s string) string { b, _ := json.Marshal(s); return string(b) }

// vfE7E2ETok: "0" absent/null, "1" present (well-formed percentiles), "p:<e>,<e>,…" present with the given shape
// (e = n for null, else the quantile id); old op lines only have 0/1.
func vfE7E2ETok(mode int, pct []int) string {
	if mode != 4 {
		return vfE7B(mode == 1 || mode == 3)
	}
	var es []string
	for _, k := range pct {
		if k < 0 {
			es = append(es, "n")
		} else {
			es = append(es, strconv.Itoa(k))
		}
	}
	return "p:" + strings.Join(es, ",")
}

// vfE7JunkTok: suffix of the channel's latency token: "/j:<e>,<e>" = the channel object carries "nodes":[…] (n null, o object).
func vfE7JunkTok(up []int) string {
	if len(up) == 0 {
		return ""
	}
	var es []string
	for _, k := range up {
		if k < 0 {
			es = append(es, "n")
		} else {
			es = append(es, "o")
		}
	}
	return "/j:" + strings.Join(es, ",")
}

func vfE7ParseJunkTok(tok string) (string, []int) {
	i := strings.Index(tok, "/j:")
	if i < 0 {
		return tok, nil
	}
	var up []int
	for _, e := range strings.Split(tok[i+3:], ",") {
		if e == "n" {
			up = append(up, -1)
		} else if e != "" {
			up = append(up, 1)
		}
	}
	return tok[:i], up
}

func vfE7ParseE2ETok(tok string) (int, []int) {
	if !strings.HasPrefix(tok, "p:") {
		if tok == "1" {
			return 1, nil
		}
		return 0, nil
	}
	var pct []int
	for _, e := range strings.Split(tok[2:], ",") {
		if e == "" {
			continue
		}
		if e == "n" {
			pct = append(pct, -1)
		} else {
			k, _ := strconv.Atoi(e)
			pct = append(pct, k)
		}
	}
	return 4, pct
}

func vfE7PctJSON(pct []int) string {
	var es []string
	for i, k := range pct {
		switch {
		case k < 0:
			es = append(es, "null")
		case k == 0:
			es = append(es, fmt.Sprintf(`{"value":%d}`, 1000*(i+1)))
		default:
			es = append(es, fmt.Sprintf(`{"quantile":%g,"value":%d}`, float64(k)/100, 1000*(i+1)))
		}
	}
	return "[" + strings.Join(es, ",") + "]"
}

func vfE7E2E(mode int, pct []int, sb *strings.Builder) {
	switch mode {
	case 4:
		sb.WriteString(`,"e2e_processing_latency":{"count":7,"percentiles":` + vfE7PctJSON(pct) + `}`)
	case 1:
		sb.WriteString(`,"e2e_processing_latency":{"count":0,"percentiles":null}`)
	case 2:
		sb.WriteString(`,"e2e_processing_latency":null`)
	case 3:
		sb.WriteString(`,"e2e_processing_latency":{"count":12,"percentiles":[{"quantile":0.99,"value":1500000},{"quantile":0.95,"value":700000}]}`)
	}
}

func (c vfE7Chan) json(sb *strings.Builder, includeClients bool) {
	if c.Null {
		sb.WriteString("null")
		return
	}
	fmt.Fprintf(sb, `{"channel_name":%s,"depth":%d,"backend_depth":%d,"in_flight_count":%d,"deferred_count":%d,"requeue_count":%d,`+
		`"timeout_count":%d,"message_count":%d,"zone_local_msg_count":%d,"region_local_msg_count":%d,"global_msg_count":%d,`+
		`"client_count":%d,"paused":%v,"memory_depth":424242,"delivery_msg_count":515151,"clients":[`,
		vfE7J(c.Name), c.Depth, c.Backend, c.InFlight, c.Deferred, c.Requeue, c.Timeout, c.Msg, c.Zone, c.Region, c.Global, c.ClientCount, c.Paused)
	if includeClients {
		for i, k := range c.Clients {
			if i > 0 {
				sb.WriteString(",")
			}
			if k.Null {
				sb.WriteString("null")
				continue
			}
			fmt.Fprintf(sb, `{"client_id":%s,"hostname":%s`, vfE7J(k.ClientID), vfE7J(k.Hostname))
			if k.Optional {
				sb.WriteString(`,"version":"V2","remote_address":"10.0.0.9:4321","state":3,"ready_count":5,"in_flight_count":1,` +
					`"message_count":9,"finish_count":8,"requeue_count":1,"connect_ts":1700000000,"sample_rate":0,"deflate":false,` +
					`"snappy":true,"user_agent":"go-nsq/1.1.0","tls":false,"topology_region":"r1","topology_zone":"z1"`)
			}
			sb.WriteString("}")
		}
	}
	sb.WriteString("]")
	if len(c.UpNodes) > 0 {
		var es []string
		for _, k := range c.UpNodes {
			if k < 0 {
				es = append(es, "null")
			} else {
				es = append(es, `{"hostname":"zz-upstream","node":"9.9.9.9:1","channel_name":"bogus","depth":5}`)
			}
		}
		sb.WriteString(`,"nodes":[` + strings.Join(es, ",") + `]`)
	}
	vfE7E2E(c.E2E, c.Pct, sb)
	sb.WriteString("}")
}

func (t vfE7Topic) json(sb *strings.Builder, chanSel string, filters, includeClients bool) {
	if t.Null {
		sb.WriteString("null")
		return
	}
	fmt.Fprintf(sb, `{"topic_name":%s,"depth":%d,"backend_depth":%d,"message_count":%d,"zone_local_msg_count":%d,`+
		`"region_local_msg_count":%d,"global_msg_count":%d,"paused":%v,"memory_depth":313131,"delivery_msg_count":717171,"channels":[`,
		vfE7J(t.Name), t.Depth, t.Backend, t.Msg, t.Zone, t.Region, t.Global, t.Paused)
	first := true
	for _, c := range t.Channels {
		if filters && !c.Null && chanSel != "" && c.Name != chanSel {
			continue
		}
		if !first {
			sb.WriteString(",")
		}
		first = false
		c.json(sb, includeClients || !filters)
	}
	sb.WriteString("]")
	vfE7E2E(t.E2E, t.Pct, sb)
	sb.WriteString("}")
}

func (p vfE7Producer) json(sb *strings.Builder, cl *vfE7VCluster) {
	if p.Null {
		sb.WriteString("null")
		return
	}
	_, port, _ := net.SplitHostPort(cl.addrOf(p.Sym))
	fmt.Fprintf(sb, `{"remote_address":%s,"hostname":%s,"broadcast_address":%s,"tcp_port":%d,"http_port":%s,"version":%s,"topics":[`,
		vfE7J(p.Remote), vfE7J(p.Hostname), vfE7J(cl.ip), p.TCPPort, port, vfE7J(p.Version))
	for i, t := range p.Topics {
		if i > 0 {
			sb.WriteString(",")
		}
		sb.WriteString(vfE7J(t))
	}
	sb.WriteString(`],"tombstones":[`)
	for i, t := range p.Tombstones {
		if i > 0 {
			sb.WriteString(",")
		}
		fmt.Fprintf(sb, "%v", t)
	}
	sb.WriteString("]}")
}

// ------------------------------------------------------------------ stub servers

type vfE7VCluster struct {
	tlsSrv    map[string]*httptest.Server
	tlsAddr   map[string]string
	plainReqs int64
	tlsReqs   int64
	hangOff   bool // VERIF_HANG_OFF: cases with behaviour 8 are skipped (after the python side has reported the hang)
	mu    sync.Mutex
	world vfE7VWorld
	srv   map[string]*httptest.Server
	addr  map[string]string // symbol → host:port
	sym   map[string]string
	// ip: the loopback IP of every stub of this cluster, private to this process (vfLoopback) — not 127.0.0.1, so that a
	// client of another check running in parallel can never reach a stub and nsqadmin never reaches a foreign daemon. One IP
	// for the whole cluster: nsqadmin builds addresses from broadcast_address + http_port / https_port, and the model names the
	// host "127.0.0.1" (Nsqd.host): symbolise maps the IP back to that name.
	ip string
}

func (c *vfE7VCluster) addrOf(sym string) string {
	if a, ok := c.addr[sym]; ok {
		return a
	}
	return vfE7Dead
}

func (c *vfE7VCluster) symbolise(s string) string {
	for a, sym := range c.sym {
		s = strings.ReplaceAll(s, a, sym)
	}
	if c.ip != "" { // (a cluster value without stubs, as the Add tests build it, has no IP)
		s = strings.ReplaceAll(s, c.ip, "127.0.0.1")
	}
	return s
}

// host: a host name as the model knows it — nsqadmin falls back to the host part of the configured address where a node
// reports no hostname / broadcast address, and that is the cluster's private IP here, "127.0.0.1" in the model.
func (c *vfE7VCluster) host(h string) string {
	if c.ip != "" && h == c.ip {
		return "127.0.0.1"
	}
	return h
}

// newSrv: an httptest server (plain or TLS) on the cluster's private IP, port chosen by the kernel.
func (c *vfE7VCluster) newSrv(h http.Handler, viaTLS bool) *httptest.Server {
	ln, err := net.Listen("tcp", c.ip+":0")
	if err != nil {
		panic(err)
	}
	s := &httptest.Server{Listener: ln, Config: &http.Server{Handler: h}}
	if viaTLS {
		s.StartTLS()
	} else {
		s.Start()
	}
	return s
}

func vfE7FailWith(w http.ResponseWriter, how vfE7Fail) {
	switch how {
	case 1:
		w.WriteHeader(500)
		io.WriteString(w, `{"message":"INTERNAL_ERROR"}`)
	case 2:
		io.WriteString(w, `{"topics": [ this is not json`)
	case 3: // valid JSON of the wrong shape
		io.WriteString(w, `{"topics":{"a":1},"producers":"none","version":7,"http_port":"x"}`)
	case 4: // a number that does not fit the field
		io.WriteString(w, `{"topics":[{"topic_name":1e40,"depth":123456789012345678901234567890,"channels":[]}],"producers":[{"tcp_port":1e40}],"http_port":1e40}`)
	case 5:
		w.WriteHeader(404)
		io.WriteString(w, `{"message":"NOT_FOUND"}`)
	default: // close the connection without an answer
		if hj, ok := w.(http.Hijacker); ok {
			if conn, _, err := hj.Hijack(); err == nil {
				conn.Close()
				return
			}
		}
		w.WriteHeader(503)
	}
}

// upgradeGate handles the behaviours 7..11; true = the response has been written.
func (c *vfE7VCluster) upgradeGate(w http.ResponseWriter, sym string, viaTLS bool, f *vfE7Fail) bool {
	if *f < 7 || *f > 11 {
		return false
	}
	mode := *f
	forbid := func(body string) bool {
		w.WriteHeader(403)
		io.WriteString(w, body)
		return true
	}
	_, tlsPort, _ := net.SplitHostPort(c.tlsAddr[sym])
	if !viaTLS {
		switch mode {
		case 7, 8:
			return forbid(`{"message":"TLS_REQUIRED","https_port":` + tlsPort + `}`)
		case 9:
			return forbid(`{"message":"TLS_REQUIRED","https_port":1}`)
		case 10:
			return forbid(`{"message":"FORBIDDEN"}`)
		default:
			return forbid(`{"message":"TLS_REQUIRED","https_port":"` + tlsPort + `"}`)
		}
	}
	if mode == 8 {
		return forbid(`{"message":"TLS_REQUIRED","https_port":` + tlsPort + `}`)
	}
	*f = 0 // the TLS twin answers normally
	return false
}

func (c *vfE7VCluster) serve(sym string, viaTLS bool) http.Handler {
	return http.HandlerFunc(func(w http.ResponseWriter, r *http.Request) {
		if viaTLS {
			atomic.AddInt64(&c.tlsReqs, 1)
		} else {
			atomic.AddInt64(&c.plainReqs, 1)
		}
		c.mu.Lock()
		world := c.world
		c.mu.Unlock()
		var sb strings.Builder
		if strings.HasPrefix(sym, "L") {
			var l *vfE7Lookupd
			for i := range world.Lookupds {
				if world.Lookupds[i].Sym == sym {
					l = &world.Lookupds[i]
				}
			}
			if l == nil {
				vfE7FailWith(w, 5)
				return
			}
			switch r.URL.Path {
			case "/topics":
				f := l.TopicsFail
				if c.upgradeGate(w, sym, viaTLS, &f) {
					return
				}
				if f != 0 {
					vfE7FailWith(w, f)
					return
				}
				sb.WriteString(`{"topics":[`)
				for i, t := range l.Topics {
					if i > 0 {
						sb.WriteString(",")
					}
					sb.WriteString(vfE7J(t))
				}
				sb.WriteString("]}")
			case "/channels":
				f, chs := vfE7Fail(0), []string(nil)
				for _, a := range l.PerTopic {
					if a.Topic == r.URL.Query().Get("topic") {
						f, chs = a.ChannelsFail, a.Channels
						break
					}
				}
				if f != 0 {
					vfE7FailWith(w, f)
					return
				}
				sb.WriteString(`{"channels":[`)
				for i, t := range chs {
					if i > 0 {
						sb.WriteString(",")
					}
					sb.WriteString(vfE7J(t))
				}
				sb.WriteString("]}")
			case "/nodes", "/lookup":
				f, ps := l.NodesFail, l.Nodes
				if r.URL.Path == "/lookup" {
					f, ps = l.LookupFail, l.Lookup
					for _, a := range l.PerTopic {
						if a.Topic == r.URL.Query().Get("topic") {
							f, ps = a.LookupFail, a.Lookup
							break
						}
					}
				}
				if c.upgradeGate(w, sym, viaTLS, &f) {
					return
				}
				if f != 0 {
					vfE7FailWith(w, f)
					return
				}
				sb.WriteString(`{"channels":[],"producers":[`)
				for i, p := range ps {
					if i > 0 {
						sb.WriteString(",")
					}
					p.json(&sb, c)
				}
				sb.WriteString("]}")
			default:
				vfE7FailWith(w, 5)
				return
			}
		} else {
			var n *vfE7Nsqd
			for i := range world.Nsqds {
				if world.Nsqds[i].Sym == sym {
					n = &world.Nsqds[i]
				}
			}
			if n == nil {
				vfE7FailWith(w, 5)
				return
			}
			switch r.URL.Path {
			case "/info":
				f := n.InfoFail
				if c.upgradeGate(w, sym, viaTLS, &f) {
					return
				}
				if f != 0 {
					vfE7FailWith(w, f)
					return
				}
				_, port, _ := net.SplitHostPort(c.addrOf(sym))
				if n.NoBcast {
					fmt.Fprintf(&sb, `{"version":%s,"hostname":%s,"tcp_port":%d,"start_time":1}`, vfE7J(n.Version), vfE7J(n.Hostname), n.TCPPort)
				} else {
					fmt.Fprintf(&sb, `{"version":%s,"broadcast_address":%s,"hostname":%s,"http_port":%s,"tcp_port":%d,"start_time":1}`,
						vfE7J(n.Version), vfE7J(c.ip), vfE7J(n.Hostname), port, n.TCPPort)
				}
			case "/stats":
				f := n.StatsFail
				if c.upgradeGate(w, sym, viaTLS, &f) {
					return
				}
				if f != 0 {
					vfE7FailWith(w, f)
					return
				}
				q := r.URL.Query()
				topicSel, chanSel := q.Get("topic"), q.Get("channel")
				incl := q.Get("include_clients") != "false"
				sb.WriteString(`{"version":"1.3.0","health":"OK","start_time":1,"topics":[`)
				first := true
				for _, t := range n.Topics {
					if n.Filters && !t.Null && topicSel != "" && t.Name != topicSel {
						continue
					}
					if !first {
						sb.WriteString(",")
					}
					first = false
					t.json(&sb, chanSel, n.Filters, incl)
				}
				sb.WriteString(`],"memory":{"heap_objects":1}}`)
			default:
				vfE7FailWith(w, 5)
				return
			}
		}
		w.Header().Set("Content-Type", "application/json")
		io.WriteString(w, sb.String())
	})
}

func vfE7NewVCluster(nl, nn int) *vfE7VCluster {
	c := &vfE7VCluster{srv: map[string]*httptest.Server{}, addr: map[string]string{"X0": vfE7Dead}, sym: map[string]string{vfE7Dead: "X0"},
		tlsSrv: map[string]*httptest.Server{}, tlsAddr: map[string]string{}, hangOff: os.Getenv("VERIF_HANG_OFF") != "", ip: vfLoopback()}
	mk := func(sym string) {
		s := c.newSrv(c.serve(sym, false), false)
		a := strings.TrimPrefix(s.URL, "http://")
		c.srv[sym], c.addr[sym], c.sym[a] = s, a, sym
		ts := c.newSrv(c.serve(sym, true), true)
		ts.Config.ErrorLog = log.New(io.Discard, "", 0)
		c.tlsSrv[sym], c.tlsAddr[sym] = ts, strings.TrimPrefix(ts.URL, "https://")
	}
	for i := 0; i < nl; i++ {
		mk(fmt.Sprintf("L%d", i))
	}
	for i := 0; i < nn; i++ {
		mk(fmt.Sprintf("N%d", i))
	}
	return c
}

// ------------------------------------------------------------------ canonical rendering of the answer

type vfE7OutClient struct {
	Hostname string `json:"hostname"`
	ClientID string `json:"client_id"`
	Node     string `json:"node"`
}

type vfE7OutChan struct {
	Node        string           `json:"node"`
	Hostname    string           `json:"hostname"`
	TopicName   string           `json:"topic_name"`
	ChannelName string           `json:"channel_name"`
	Depth       int64            `json:"depth"`
	MemDepth    int64            `json:"memory_depth"`
	Backend     int64            `json:"backend_depth"`
	InFlight    int64            `json:"in_flight_count"`
	Deferred    int64            `json:"deferred_count"`
	Requeue     int64            `json:"requeue_count"`
	Timeout     int64            `json:"timeout_count"`
	Msg         int64            `json:"message_count"`
	Delivery    int64            `json:"delivery_msg_count"`
	Zone        int64            `json:"zone_local_msg_count"`
	Region      int64            `json:"region_local_msg_count"`
	Global      int64            `json:"global_msg_count"`
	ClientCount int64            `json:"client_count"`
	Paused      bool             `json:"paused"`
	Nodes       []*vfE7OutChan   `json:"nodes"`
	Clients     []*vfE7OutClient `json:"clients"`
	Message     string           `json:"message"`
}

type vfE7OutTopic struct {
	Node      string          `json:"node"`
	Hostname  string          `json:"hostname"`
	TopicName string          `json:"topic_name"`
	Depth     int64           `json:"depth"`
	MemDepth  int64           `json:"memory_depth"`
	Backend   int64           `json:"backend_depth"`
	Msg       int64           `json:"message_count"`
	Delivery  int64           `json:"delivery_msg_count"`
	Zone      int64           `json:"zone_local_msg_count"`
	Region    int64           `json:"region_local_msg_count"`
	Global    int64           `json:"global_msg_count"`
	Paused    bool            `json:"paused"`
	Nodes     []*vfE7OutTopic `json:"nodes"`
	Channels  []*vfE7OutChan  `json:"channels"`
	Message   string          `json:"message"`
}

func (c *vfE7OutChan) cs() string {
	return fmt.Sprintf("%d,%d,%d,%d,%d,%d,%d,%d,%d,%d,%d,%d,%d", c.Depth, c.MemDepth, c.Backend, c.InFlight, c.Deferred, c.Requeue,
		c.Timeout, c.Msg, c.Delivery, c.Zone, c.Region, c.Global, c.ClientCount)
}
func (t *vfE7OutTopic) cs() string {
	return fmt.Sprintf("%d,%d,%d,0,0,0,0,%d,%d,%d,%d,%d,0", t.Depth, t.MemDepth, t.Backend, t.Msg, t.Delivery, t.Zone, t.Region, t.Global)
}

func vfE7JoinSorted(xs []string, sep string) string {
	if len(xs) == 0 {
		return "-"
	}
	sort.Strings(xs)
	return strings.Join(xs, sep)
}

func (cl *vfE7VCluster) clientsStr(cs []*vfE7OutClient) string {
	var xs []string
	for _, c := range cs {
		if c == nil {
			xs = append(xs, "null")
			continue
		}
		xs = append(xs, vfE7S(c.Hostname)+"~"+vfE7S(c.ClientID)+"~"+vfE7S(cl.symbolise(c.Node)))
	}
	return vfE7JoinSorted(xs, "+")
}

func (cl *vfE7VCluster) render(kind string, status int, body []byte) string {
	if status != 200 {
		return fmt.Sprintf("%d - -", status)
	}
	warn := func(m string) string { return vfE7B(m != "") }
	switch kind {
	case "topics":
		var d struct {
			Topics  []string `json:"topics"`
			Message string   `json:"message"`
		}
		if err := json.Unmarshal(body, &d); err != nil {
			return "200 undecodable " + err.Error()
		}
		if len(d.Topics) == 0 {
			return "200 " + warn(d.Message) + " -"
		}
		for i := range d.Topics {
			d.Topics[i] = vfE7S(d.Topics[i])
		}
		return "200 " + warn(d.Message) + " " + strings.Join(d.Topics, ",")
	case "inactive":
		var d struct {
			Topics  map[string][]string `json:"topics"`
			Message string              `json:"message"`
		}
		if err := json.Unmarshal(body, &d); err != nil {
			return "200 undecodable " + err.Error()
		}
		var es []string
		for t, chs := range d.Topics {
			cs := make([]string, len(chs))
			for i, c := range chs {
				cs[i] = vfE7S(c)
			}
			if len(cs) == 0 {
				cs = []string{"-"}
			}
			es = append(es, vfE7S(t)+"="+strings.Join(cs, "+")) // channel lists in the order returned (sorted by the code)
		}
		return "200 " + warn(d.Message) + " I[" + vfE7JoinSorted(es, ";") + "]"
	case "topic":
		var t vfE7OutTopic
		if err := json.Unmarshal(body, &t); err != nil {
			return "200 undecodable " + err.Error()
		}
		var ns, chs []string
		for _, n := range t.Nodes {
			ns = append(ns, vfE7S(cl.symbolise(n.Node))+"/"+vfE7S(cl.host(n.Hostname))+"/"+n.cs()+"/"+vfE7B(n.Paused))
		}
		for _, c := range t.Channels {
			// (the merged entry is the first node's own object: its node list misses that node, whichever came first)
			chs = append(chs, vfE7S(c.ChannelName)+"/"+vfE7S(cl.symbolise(c.Node))+"/"+c.cs()+"/"+vfE7B(c.Paused)+"/"+
				cl.clientsStr(c.Clients)+"/"+strconv.Itoa(len(c.Nodes)))
		}
		return fmt.Sprintf("200 %s T/%s/%s/%s N[%s] C[%s]", warn(t.Message), vfE7S(t.TopicName), t.cs(), vfE7B(t.Paused),
			vfE7JoinSorted(ns, ";"), vfE7JoinSorted(chs, ";"))
	case "channel":
		var c vfE7OutChan
		if err := json.Unmarshal(body, &c); err != nil {
			return "200 undecodable " + err.Error()
		}
		var nn []string
		for _, n := range c.Nodes {
			nn = append(nn, vfE7S(cl.symbolise(n.Node))+"~"+vfE7S(cl.host(n.Hostname))+"~"+n.cs()+"~"+vfE7B(n.Paused))
		}
		return fmt.Sprintf("200 %s C/%s/%s/%s/%s/%s/%s/%s", warn(c.Message), vfE7S(c.ChannelName), vfE7S(cl.symbolise(c.Node)),
			vfE7S(c.TopicName), c.cs(), vfE7B(c.Paused), cl.clientsStr(c.Clients), vfE7JoinSorted(nn, "+"))
	case "nodes":
		var d struct {
			Nodes []struct {
				RemoteAddresses  []string `json:"remote_addresses"`
				Hostname         string   `json:"hostname"`
				BroadcastAddress string   `json:"broadcast_address"`
				TCPPort          int      `json:"tcp_port"`
				HTTPPort         int      `json:"http_port"`
				Version          string   `json:"version"`
				Topics           []struct {
					Topic      string `json:"topic"`
					Tombstoned bool   `json:"tombstoned"`
				} `json:"topics"`
				OutOfDate bool `json:"out_of_date"`
			} `json:"nodes"`
			Message string `json:"message"`
		}
		if err := json.Unmarshal(body, &d); err != nil {
			return "200 undecodable " + err.Error()
		}
		var ps []string
		for _, p := range d.Nodes {
			var ra, ts []string
			for _, r := range p.RemoteAddresses {
				ra = append(ra, cl.symbolise(r))
			}
			for _, t := range p.Topics {
				ts = append(ts, vfE7S(t.Topic)+"~"+vfE7B(t.Tombstoned))
			}
			ps = append(ps, fmt.Sprintf("%s/%s/%s:%d/%s/%s/%s/%s", vfE7S(cl.host(p.Hostname)),
				cl.symbolise(net.JoinHostPort(p.BroadcastAddress, strconv.Itoa(p.HTTPPort))), cl.symbolise(p.BroadcastAddress), p.TCPPort,
				vfE7S(p.Version), vfE7B(p.OutOfDate), vfE7JoinSorted(ra, "+"), vfE7JoinSorted(ts, "+")))
		}
		return fmt.Sprintf("200 %s P[%s]", warn(d.Message), vfE7JoinSorted(ps, ";"))
	case "node":
		var d struct {
			Node          string          `json:"node"`
			Topics        []*vfE7OutTopic `json:"topics"`
			TotalMessages int64           `json:"total_messages"`
			TotalClients  int64           `json:"total_clients"`
			Message       string          `json:"message"`
		}
		if err := json.Unmarshal(body, &d); err != nil {
			return "200 undecodable " + err.Error()
		}
		var ts []string
		for _, t := range d.Topics {
			var chs []string
			for _, c := range t.Channels {
				chs = append(chs, fmt.Sprintf("%s~%s~%s~%d", vfE7S(c.ChannelName), c.cs(), vfE7B(c.Paused), len(c.Clients)))
			}
			ts = append(ts, vfE7S(t.TopicName)+"/"+t.cs()+"/"+vfE7B(t.Paused)+"/"+vfE7JoinSorted(chs, "+"))
		}
		return fmt.Sprintf("200 %s %s %d %d T[%s]", warn(d.Message), vfE7S(cl.symbolise(d.Node)), d.TotalMessages, d.TotalClients,
			vfE7JoinSorted(ts, ";"))
	case "counter":
		var d struct {
			Stats map[string]struct {
				MessageCount int64 `json:"message_count"`
			} `json:"stats"`
			Message string `json:"message"`
		}
		if err := json.Unmarshal(body, &d); err != nil {
			return "200 undecodable " + err.Error()
		}
		var kv []string
		for k, v := range d.Stats {
			kv = append(kv, fmt.Sprintf("%s=%d", cl.symbolise(k), v.MessageCount))
		}
		return fmt.Sprintf("200 %s %s", warn(d.Message), vfE7JoinSorted(kv, ","))
	}
	return "200 ?"
}

// ------------------------------------------------------------------ running a case

type vfE7VEnv struct {
	name string
	t    *testing.T
	cl   *vfE7VCluster
	n    *NSQAdmin
	hs   *httpServer
	base Options
	out  *vfE7Writer
	idx  int
	skip int
	hist map[string]int
	prog *os.File
}

func vfE7VSetup(t *testing.T, name string) *vfE7VEnv {
	e := &vfE7VEnv{t: t, cl: vfE7NewVCluster(3, 4), hist: map[string]int{}, skip: vfEnvInt("VERIF_SKIP", 0)}
	opts := NewOptions()
	opts.HTTPAddress = vfLoopAddr()
	opts.NSQLookupdHTTPAddresses = []string{e.cl.addr["L0"]}
	opts.Logger = vfE7NullLogger{}
	opts.LogLevel = lg.FATAL
	if os.Getenv("VERIF_LOG") != "" {
		opts.Logger = nil
		opts.LogLevel = lg.WARN
	}
	opts.HTTPClientConnectTimeout = 2 * time.Second
	opts.HTTPClientRequestTimeout = 5 * time.Second
	opts.HTTPClientTLSInsecureSkipVerify = true // the TLS twins of the stubs use httptest's certificate
	n, err := New(opts)
	if err != nil {
		t.Fatal(err)
	}
	e.n, e.base, e.hs = n, *opts, NewHTTPServer(n)
	e.out = vfE7Open(name)
	e.name = name
	return e
}

type vfE7VReq struct {
	kind string // topics topic channel nodes node counter
	a, b string
}

func (r vfE7VReq) tokens() string {
	switch r.kind {
	case "topic", "node":
		return r.kind + " " + r.a
	case "channel":
		return r.kind + " " + r.a + " " + r.b
	}
	return r.kind
}

func (e *vfE7VEnv) run(w vfE7VWorld, r vfE7VReq) {
	idx := e.idx
	e.idx++
	if idx < e.skip || (e.cl.hangOff && w.hasMode(8)) {
		return
	}
	e.progress(idx)
	e.cl.mu.Lock()
	e.cl.world = w
	e.cl.mu.Unlock()
	opts := e.base
	opts.NSQLookupdHTTPAddresses, opts.NSQDHTTPAddresses = nil, nil
	for _, l := range w.Lookupds {
		opts.NSQLookupdHTTPAddresses = append(opts.NSQLookupdHTTPAddresses, e.cl.addrOf(l.Sym))
	}
	if len(w.Lookupds) == 0 {
		for _, a := range w.NsqdAddrs {
			opts.NSQDHTTPAddresses = append(opts.NSQDHTTPAddresses, e.cl.addrOf(a))
		}
	}
	e.n.swapOpts(&opts)
	var path string
	switch r.kind {
	case "topics":
		path = "/api/topics"
	case "inactive":
		path = "/api/topics?inactive=true"
	case "topic":
		path = "/api/topics/" + strings.ReplaceAll(r.a, "#", "%23")
	case "channel":
		path = "/api/topics/" + strings.ReplaceAll(r.a, "#", "%23") + "/" + strings.ReplaceAll(r.b, "#", "%23")
	case "nodes":
		path = "/api/nodes"
	case "node":
		path = "/api/nodes/" + e.cl.addrOf(r.a)
	case "counter":
		path = "/api/counter"
	}
	op := "view " + r.tokens() + " " + w.tokens()
	// the op is on disk before the request runs: if the process dies the last op has no answer
	fmt.Fprintln(e.out.ops, op)
	e.out.ops.Flush()
	req := httptest.NewRequest("GET", path, nil)
	rec := httptest.NewRecorder()
	// every view runs under a deadline: a fetch that never returns keeps wg.Wait() (and the view) waiting for ever.
	// The stuck server cannot be stopped from inside: report and leave the process (python restarts after this case).
	done := make(chan struct{})
	go func() {
		e.hs.ServeHTTP(rec, req)
		close(done)
	}()
	select {
	case <-done:
	case <-time.After(time.Duration(vfEnvInt("VERIF_VIEW_DEADLINE_MS", 5000)) * time.Millisecond):
		fmt.Printf("VIEW-HANGS %s view got no answer within the deadline; requests seen by the stubs so far: %d plain, %d TLS\n",
			r.kind, atomic.LoadInt64(&e.cl.plainReqs), atomic.LoadInt64(&e.cl.tlsReqs))
		os.Exit(3)
	}
	// A fetch goroutine that panics runs its deferred wg.Done() first: the handler may well answer before the
	// process dies. Wait until no goroutine is left inside clusterinfo (a panicking one kills the process here).
	vfE7WaitFetchers()
	impl := e.cl.render(r.kind, rec.Code, rec.Body.Bytes())
	if bad := vfE7SortCheck(r.kind, len(w.Lookupds) > 0, rec.Code, rec.Body.Bytes()); bad != "" {
		fmt.Printf("E7-UNSORTED %s view (%s): %s\n", r.kind, r.tokens(), bad)
	}
	fmt.Fprintln(e.out.impl, impl)
	e.out.impl.Flush()
	e.out.n++
	e.hist[fmt.Sprintf("%s:%d", r.kind, rec.Code)]++
}

// vfE7SortCheck: direct oracle on the ORDER of the lists a view returns (the correspondence compares them as
// multisets): topic names strictly ascending (sort.Strings after Uniq); the per-node reports of the topic and
// channel views ascending by hostname (TopicStatsByHost / ChannelStatsByHost, re-sorted on every Add); the
// producers of /api/nodes ascending by hostname in nsqlookupd mode (ProducersByHost; GetNSQDProducers does
// not sort) and each producer's topics ascending by name (sort.Sort(producer.Topics)).
func vfE7SortCheck(kind string, lookupdMode bool, status int, body []byte) string {
	if status != 200 {
		return ""
	}
	asc := func(what string, keys []string, strict bool) string {
		for i := 1; i < len(keys); i++ {
			if keys[i] < keys[i-1] || (strict && keys[i] == keys[i-1]) {
				return fmt.Sprintf("%s not in order: %q", what, keys)
			}
		}
		return ""
	}
	type host struct {
		Hostname string `json:"hostname"`
	}
	switch kind {
	case "topics":
		var d struct {
			Topics []string `json:"topics"`
		}
		if json.Unmarshal(body, &d) == nil {
			return asc("topic names", d.Topics, true)
		}
	case "topic", "channel":
		var d struct {
			Nodes []host `json:"nodes"`
		}
		if json.Unmarshal(body, &d) == nil {
			var ks []string
			for _, n := range d.Nodes {
				ks = append(ks, n.Hostname)
			}
			return asc("node reports by hostname", ks, false)
		}
	case "nodes":
		var d struct {
			Nodes []struct {
				Hostname string `json:"hostname"`
				Topics   []struct {
					Topic string `json:"topic"`
				} `json:"topics"`
			} `json:"nodes"`
		}
		if json.Unmarshal(body, &d) == nil && lookupdMode {
			var ks []string
			for _, n := range d.Nodes {
				ks = append(ks, n.Hostname)
				var ts []string
				for _, t := range n.Topics {
					ts = append(ts, t.Topic)
				}
				if bad := asc("topics of producer "+n.Hostname, ts, false); bad != "" {
					return bad
				}
			}
			return asc("producers by hostname", ks, false)
		}
	}
	return ""
}

func (e *vfE7VEnv) close() {
	e.out.Close()
	e.n.httpListener.Close()
	for _, s := range e.cl.srv {
		s.Close()
	}
	for _, s := range e.cl.tlsSrv {
		s.Close()
	}
}

var vfE7StackBuf = make([]byte, 1<<20)

func vfE7WaitFetchers() {
	buf := vfE7StackBuf
	for i := 0; i < 5000; i++ {
		if !strings.Contains(string(buf[:runtime.Stack(buf, true)]), "internal/clusterinfo.") {
			return
		}
		time.Sleep(time.Millisecond)
	}
}

// ------------------------------------------------------------------ generators

var vfE7TopicPool = []string{"t1", "t2", "orders", "a.b", "z_9", "t#ephemeral"}
var vfE7ChanPool = []string{"c1", "c2", "archive", "x.y", "c#ephemeral"}
var vfE7HostPool = []string{"alpha", "beta", "gamma", "alpha", "delta"}
var vfE7VersionPool = []string{"1.3.0", "1.2.1", "1.3.0", "0.3.8", "garbage", "1.10.0", ""}

func vfE7Counter(r *vfRand) int64 {
	switch r.Intn(7) {
	case 6: // negative: nsqd never reports one, a broken or hostile upstream may (the sums are still sums)
		switch r.Intn(3) {
		case 0:
			return -1
		case 1:
			return -int64(r.Intn(100000))
		}
		return -int64(r.Next() >> 3)
	case 0, 1:
		return 0
	case 2:
		return int64(r.Intn(10))
	case 3:
		return int64(r.Intn(100000))
	case 4:
		return int64(r.Next() >> 5) // huge, but four of them still fit int64
	}
	return int64(1) << uint(r.Intn(58))
}

// vfE7GenPct: a percentiles shape: different lengths on different nodes, repeated and missing "quantile" members and,
// rarely (VERIF_E7_NULLPCT per mille, default 15), a null element.
// (On a tree without fixes/F53 every such case kills the process and costs a restart: the rate is scaled so that a run
// meets about the same number of them in both tiers.)
var vfE7NullPctPerMille = vfEnvInt("VERIF_E7_NULLPCT", vfE7Max(1, 15*300/vfE7Max(300, vfEnvInt("VERIF_N", 300))))

func vfE7Max(a, b int) int {
	if a > b {
		return a
	}
	return b
}

func vfE7GenPct(r *vfRand) []int {
	var pct []int
	for i := r.Intn(5); i > 0; i-- {
		switch {
		case r.Intn(1000) < vfE7NullPctPerMille:
			pct = append(pct, -1)
		case r.Intn(6) == 0:
			pct = append(pct, 0)
		default:
			pct = append(pct, []int{99, 95, 50, 99, 1}[r.Intn(5)])
		}
	}
	return pct
}

func vfE7GenChan(r *vfRand, name string) vfE7Chan {
	c := vfE7Chan{Name: name, Depth: vfE7Counter(r), InFlight: vfE7Counter(r), Deferred: vfE7Counter(r), Requeue: vfE7Counter(r),
		Timeout: vfE7Counter(r), Msg: vfE7Counter(r), Zone: int64(r.Intn(1000)), Region: int64(r.Intn(1000)), Global: int64(r.Intn(3)) * 1000,
		ClientCount: int64(r.Intn(4)), Paused: r.Intn(4) == 0, E2E: []int{1, 1, 1, 3}[r.Intn(4)]}
	if r.Intn(4) == 0 {
		c.E2E, c.Pct = 4, vfE7GenPct(r)
	}
	if c.Depth > 0 {
		c.Backend = int64(r.Next() % uint64(c.Depth+1))
	}
	for i := r.Intn(4); i > 0; i-- {
		c.Clients = append(c.Clients, vfE7Client{Hostname: vfE7HostPool[r.Intn(len(vfE7HostPool))] + "-cl",
			ClientID: fmt.Sprintf("id%d", r.Intn(5)), Optional: r.Intn(2) == 0})
	}
	return c
}

func vfE7GenTopic(r *vfRand, name string) vfE7Topic {
	t := vfE7Topic{Name: name, Depth: vfE7Counter(r), Msg: vfE7Counter(r), Zone: int64(r.Intn(1000)), Region: int64(r.Intn(50)),
		Global: int64(r.Intn(2)) * 77, Paused: r.Intn(5) == 0, E2E: []int{1, 1, 3}[r.Intn(3)]}
	if r.Intn(5) == 0 {
		t.E2E, t.Pct = 4, vfE7GenPct(r)
	}
	if t.Depth > 0 {
		t.Backend = int64(r.Next() % uint64(t.Depth+1))
	}
	for _, c := range vfE7ChanPool {
		if r.Intn(3) == 0 {
			t.Channels = append(t.Channels, vfE7GenChan(r, c))
		}
	}
	return t
}

// vfE7GenWorld: a consistent cluster (every answer well-formed); pFail/8 of the answers fail.
func vfE7GenWorld(r *vfRand, lookupdMode bool, pFail int) vfE7VWorld {
	var w vfE7VWorld
	nn := 1 + r.Intn(4)
	fail := func() vfE7Fail {
		if r.Intn(8) < pFail {
			return vfE7Fail(1 + r.Intn(11))
		}
		if r.Intn(20) == 0 {
			return vfE7Upgrade // answers, but only on its HTTPS port
		}
		return 0
	}
	for i := 0; i < nn; i++ {
		n := vfE7Nsqd{Sym: fmt.Sprintf("N%d", i), Filters: r.Intn(4) != 0, Hostname: vfE7HostPool[r.Intn(len(vfE7HostPool))],
			TCPPort: 4150 + i, Version: vfE7VersionPool[r.Intn(len(vfE7VersionPool))], InfoFail: fail(), StatsFail: fail()}
		for _, t := range vfE7TopicPool {
			if r.Intn(2) == 0 {
				n.Topics = append(n.Topics, vfE7GenTopic(r, t))
			}
		}
		if !lookupdMode {
			// /info of an old nsqd: no broadcast_address / http_port, or an empty hostname (GetNSQDTopicProducers falls back
			// on the configured address, GetNSQDProducers does not)
			switch r.Intn(12) {
			case 0:
				n.NoBcast = true
			case 1:
				n.Hostname = ""
			case 2:
				n.NoBcast, n.Hostname = true, ""
			}
		}
		w.Nsqds = append(w.Nsqds, n)
	}
	// what an nsqd registered is the same on every nsqlookupd (only the peer address differs); which record
	// nsqadmin keeps when they differ depends on which nsqlookupd answers first
	records := map[string]vfE7Producer{}
	for _, n := range w.Nsqds {
		p := vfE7Producer{Hostname: n.Hostname, Sym: n.Sym, TCPPort: n.TCPPort, Version: n.Version}
		for _, t := range n.Topics {
			p.Topics = append(p.Topics, t.Name)
			p.Tombstones = append(p.Tombstones, r.Intn(5) == 0)
		}
		// nsqlookupd sends registrations in map order
		r2 := r.Intn(len(p.Topics) + 1)
		p.Topics = append(p.Topics[r2:], p.Topics[:r2]...)
		p.Tombstones = append(p.Tombstones[r2:], p.Tombstones[:r2]...)
		records[n.Sym] = p
	}
	producerOf := func(n vfE7Nsqd) vfE7Producer {
		p := records[n.Sym]
		p.Remote = fmt.Sprintf("10.0.0.%d:%d", 1+r.Intn(9), 5000+r.Intn(100))
		if r.Intn(6) == 0 {
			p.Remote = ""
		}
		return p
	}
	if lookupdMode {
		nl := 1 + r.Intn(3)
		for i := 0; i < nl; i++ {
			l := vfE7Lookupd{Sym: fmt.Sprintf("L%d", i), TopicsFail: fail(), NodesFail: fail(), LookupFail: fail()}
			for _, t := range vfE7TopicPool {
				if r.Intn(2) == 0 {
					l.Topics = append(l.Topics, t)
				}
			}
			if r.Intn(6) == 0 && len(l.Topics) > 0 {
				l.Topics = append(l.Topics, l.Topics[0]) // a duplicate inside one answer
			}
			for _, n := range w.Nsqds {
				if r.Intn(4) != 0 {
					l.Nodes = append(l.Nodes, producerOf(n))
				}
				if r.Intn(3) != 0 {
					l.Lookup = append(l.Lookup, producerOf(n))
				}
			}
			if r.Intn(8) == 0 {
				l.Lookup = append(l.Lookup, vfE7Producer{Hostname: "ghost", Sym: "X0", TCPPort: 4199, Version: "1.3.0", Remote: "10.9.9.9:1"})
			}
			w.Lookupds = append(w.Lookupds, l)
		}
	} else {
		for _, n := range w.Nsqds {
			if r.Intn(5) != 0 || len(w.NsqdAddrs) == 0 {
				w.NsqdAddrs = append(w.NsqdAddrs, n.Sym)
			}
		}
		if r.Intn(8) == 0 {
			w.NsqdAddrs = append(w.NsqdAddrs, "X0")
		}
	}
	return w
}

// vfE7AddPerTopic: per-topic answers for the `?inactive=true` view: about half of the topics have no producer on any
// nsqlookupd (a few on some only), each with some channels; pFail/8 of these answers fail.
func vfE7AddPerTopic(r *vfRand, w vfE7VWorld, pFail int) vfE7VWorld {
	fail := func() vfE7Fail {
		if r.Intn(8) < pFail {
			return []vfE7Fail{1, 2, 5, 6}[r.Intn(4)]
		}
		return 0
	}
	inactive := map[string]int{}
	for _, t := range vfE7TopicPool {
		inactive[t] = r.Intn(4) // 0,1: no producer anywhere; 2: producers on every nsqlookupd that knows one; 3: mixed
	}
	ls := append([]vfE7Lookupd(nil), w.Lookupds...)
	for i := range ls {
		ls[i].PerTopic = nil
		for _, t := range append(append([]string(nil), vfE7TopicPool...), "ghost_topic") {
			if r.Intn(6) == 0 {
				continue // no entry: the default answers
			}
			a := vfE7TopicAns{Topic: t, LookupFail: fail(), ChannelsFail: fail()}
			if inactive[t] == 2 || (inactive[t] == 3 && r.Intn(2) == 0) {
				for _, p := range ls[i].Nodes {
					if r.Intn(2) == 0 {
						a.Lookup = append(a.Lookup, p)
					}
				}
				if r.Intn(10) == 0 {
					a.Lookup = append(a.Lookup, vfE7Producer{Null: true})
				}
			}
			for _, c := range vfE7ChanPool {
				if r.Intn(3) == 0 {
					a.Channels = append(a.Channels, c)
				}
			}
			if len(a.Channels) > 0 && r.Intn(5) == 0 {
				a.Channels = append(a.Channels, a.Channels[0])
			}
			ls[i].PerTopic = append(ls[i].PerTopic, a)
		}
	}
	w.Lookupds = ls
	return w
}

func vfE7GenReq(r *vfRand, w vfE7VWorld) vfE7VReq {
	topic := vfE7TopicPool[r.Intn(len(vfE7TopicPool))]
	switch r.Intn(12) {
	case 10, 11:
		return vfE7VReq{kind: "inactive"}
	case 0:
		return vfE7VReq{kind: "topics"}
	case 1, 2, 3:
		return vfE7VReq{kind: "topic", a: topic}
	case 4, 5, 6:
		return vfE7VReq{kind: "channel", a: topic, b: vfE7ChanPool[r.Intn(len(vfE7ChanPool))]}
	case 7:
		return vfE7VReq{kind: "nodes"}
	case 8:
		return vfE7VReq{kind: "node", a: []string{"N0", "N1", "N2", "N3", "X0"}[r.Intn(5)]}
	}
	return vfE7VReq{kind: "counter"}
}

// TestVerifE7Views: generated consistent clusters, random and exhaustive failure subsets.
func TestVerifE7Views(t *testing.T) {
	e := vfE7VSetup(t, "views")
	defer e.close()
	rng := vfNewRand(0xE718)
	n := vfEnvInt("VERIF_N", 300)
	for i := 0; i < n; i++ {
		w := vfE7GenWorld(rng, i%2 == 0, []int{0, 0, 1, 3, 6}[rng.Intn(5)])
		for k := 0; k < 3; k++ {
			rq := vfE7GenReq(rng, w)
			if rq.kind == "inactive" && len(w.Lookupds) > 0 {
				e.run(vfE7AddPerTopic(rng, w, []int{0, 1, 3}[rng.Intn(3)]), rq)
				e.hist["inactive-pertopic"]++
				continue
			}
			e.run(w, rq)
		}
	}
	// `?inactive=true`: two nsqlookupds, topic t1 with and without producers, every subset of the four per-topic
	// answers failing (x the /topics answers)
	for round := 0; round < 2; round++ {
		for mask := 0; mask < 64; mask++ {
			var w vfE7VWorld
			p := vfE7Producer{Hostname: "alpha", Sym: "N0", TCPPort: 4150, Version: "1.3.0", Remote: "10.0.0.1:1", Topics: []string{"t1"}, Tombstones: []bool{false}}
			for i := 0; i < 2; i++ {
				l := vfE7Lookupd{Sym: fmt.Sprintf("L%d", i), Topics: []string{"t1", "t2"}[:1+i], Nodes: []vfE7Producer{p}, Lookup: []vfE7Producer{p}}
				a := vfE7TopicAns{Topic: "t1", Channels: [][]string{{"c2", "c1"}, {"c1", "archive"}}[i]}
				if round == 1 && i == 1 {
					a.Lookup = []vfE7Producer{p}
				}
				how := []vfE7Fail{1, 2, 5, 6}[(mask+i)%4]
				if mask&(1<<uint(2*i)) != 0 {
					a.LookupFail = how
				}
				if mask&(1<<uint(2*i+1)) != 0 {
					a.ChannelsFail = how
				}
				if mask&(1<<uint(4+i)) != 0 {
					l.TopicsFail = how
				}
				l.PerTopic = []vfE7TopicAns{a}
				w.Lookupds = append(w.Lookupds, l)
			}
			e.run(w, vfE7VReq{kind: "inactive"})
			e.hist["inactive-subsets"]++
		}
	}
	// every subset of failing upstream answers, both modes, every view
	reqs := []vfE7VReq{{kind: "topics"}, {kind: "topic", a: "t1"}, {kind: "channel", a: "t1", b: "c1"}, {kind: "nodes"},
		{kind: "node", a: "N0"}, {kind: "node", a: "N1"}, {kind: "counter"}, {kind: "inactive"}}
	for mode := 0; mode < 2; mode++ {
		base := vfE7GenWorld(rng, mode == 0, 0)
		for len(base.Nsqds) != 2 || (mode == 0 && len(base.Lookupds) != 2) || (mode == 1 && len(base.NsqdAddrs) != 2) {
			base = vfE7GenWorld(rng, mode == 0, 0)
		}
		// make sure t1/c1 exists on both nodes
		for i := range base.Nsqds {
			tp := vfE7GenTopic(rng, "t1")
			tp.Channels = append([]vfE7Chan{vfE7GenChan(rng, "c1")}, tp.Channels...)
			base.Nsqds[i].Topics = append([]vfE7Topic{tp}, base.Nsqds[i].Topics...)
			base.Nsqds[i].Filters = true
		}
		for _, r := range reqs {
			bits := 4 + 2*len(base.Lookupds) // 2 per nsqd (info, stats) + 2 per lookupd (view-specific answer, lookup)
			for mask := 0; mask < 1<<uint(bits); mask++ {
				w := base
				w.Nsqds = append([]vfE7Nsqd(nil), base.Nsqds...)
				w.Lookupds = append([]vfE7Lookupd(nil), base.Lookupds...)
				how := vfE7Fail(1 + (mask % 11))
				if how == vfE7Upgrade {
					how = 8
				}
				for i := range w.Nsqds {
					if mask&(1<<uint(2*i)) != 0 {
						w.Nsqds[i].InfoFail = how
					}
					if mask&(1<<uint(2*i+1)) != 0 {
						w.Nsqds[i].StatsFail = how
					}
				}
				for i := range w.Lookupds {
					if mask&(1<<uint(4+2*i)) != 0 {
						w.Lookupds[i].TopicsFail, w.Lookupds[i].NodesFail = how, how
					}
					if mask&(1<<uint(4+2*i+1)) != 0 {
						w.Lookupds[i].LookupFail = how
					}
				}
				e.run(w, r)
			}
		}
	}
	// nodes with DIFFERENT channel sets whose names interleave (node A: [metrics], nodes B, C: [archive, metrics], …):
	// the merged channel list of /api/topics/:t must have every channel once, with the sums over the nodes
	chanSets := [][][]string{
		{{"metrics"}, {"archive", "metrics"}, {"archive", "metrics"}},
		{{"zeta"}, {"alpha", "zeta"}, {"alpha", "mid", "zeta"}},
		{{"m", "z"}, {"a", "z"}, {"a", "m"}},
		{{"b"}, {"a"}, {"c", "a", "b"}},
		{{"q", "p", "o"}, {"o"}, {"p", "q", "n"}},
		{{"x"}, {}, {"w", "x", "y"}, {"v", "y"}},
		{{"k2", "k10"}, {"k1", "k10", "k2"}, {"k10"}},
	}
	for round := 0; round < 1+n/300; round++ {
		for _, sets := range chanSets {
			for mode := 0; mode < 2; mode++ {
				var w vfE7VWorld
				for i, set := range sets {
					nd := vfE7Nsqd{Sym: fmt.Sprintf("N%d", i), Filters: rng.Intn(3) != 0, Hostname: vfE7HostPool[rng.Intn(len(vfE7HostPool))],
						TCPPort: 4150 + i, Version: "1.3.0"}
					tp := vfE7GenTopic(rng, "t1")
					tp.Channels = nil
					for _, c := range set {
						tp.Channels = append(tp.Channels, vfE7GenChan(rng, c))
					}
					nd.Topics = []vfE7Topic{tp}
					if rng.Intn(2) == 0 {
						nd.Topics = append(nd.Topics, vfE7GenTopic(rng, "t2"))
					}
					w.Nsqds = append(w.Nsqds, nd)
				}
				if mode == 0 {
					l := vfE7Lookupd{Sym: "L0", Topics: []string{"t1"}}
					for _, nd := range w.Nsqds {
						p := vfE7Producer{Hostname: nd.Hostname, Sym: nd.Sym, TCPPort: nd.TCPPort, Version: nd.Version, Remote: "10.0.0.1:1",
							Topics: []string{"t1"}, Tombstones: []bool{false}}
						l.Nodes = append(l.Nodes, p)
						l.Lookup = append(l.Lookup, p)
					}
					w.Lookupds = []vfE7Lookupd{l}
				} else {
					for _, nd := range w.Nsqds {
						w.NsqdAddrs = append(w.NsqdAddrs, nd.Sym)
					}
				}
				e.run(w, vfE7VReq{kind: "topic", a: "t1"})
				e.run(w, vfE7VReq{kind: "counter"})
				for _, c := range sets[len(sets)-1] {
					e.run(w, vfE7VReq{kind: "channel", a: "t1", b: c})
				}
				e.hist["interleaved"]++
			}
		}
	}
	// int64 wrap: counters between 2^61 and 2^63-1 on three nodes, so that the exact sums leave the int64 range
	// (each single value still decodes); the views must show the wrapped sums (Props.C18.int64_sum_wraps)
	big := func() int64 { return int64(1)<<61 + int64(rng.Next()>>2)%(int64(1)<<62+int64(1)<<61) }
	for round := 0; round < 6+n/100; round++ {
		for mode := 0; mode < 2; mode++ {
			var w vfE7VWorld
			for i := 0; i < 3; i++ {
				nd := vfE7Nsqd{Sym: fmt.Sprintf("N%d", i), Filters: rng.Intn(2) == 0, Hostname: vfE7HostPool[rng.Intn(len(vfE7HostPool))],
					TCPPort: 4150 + i, Version: "1.3.0"}
				tp := vfE7GenTopic(rng, "t1")
				tp.Depth, tp.Msg, tp.Zone, tp.Region, tp.Global = big(), big(), big(), big(), big()
				tp.Backend = int64(rng.Next() >> 1)
				if rng.Intn(2) == 0 {
					tp.Backend = int64(rng.Intn(5))
				}
				ch := vfE7GenChan(rng, "c1")
				ch.Depth, ch.InFlight, ch.Deferred, ch.Requeue, ch.Timeout, ch.Msg = big(), big(), big(), big(), big(), big()
				ch.Zone, ch.Region, ch.Global, ch.ClientCount = big(), big(), big(), big()
				ch.Backend = int64(rng.Next() >> 1)
				tp.Channels = []vfE7Chan{ch}
				if rng.Intn(2) == 0 {
					tp.Channels = append(tp.Channels, vfE7GenChan(rng, "c2"))
				}
				nd.Topics = []vfE7Topic{tp}
				w.Nsqds = append(w.Nsqds, nd)
			}
			if mode == 0 {
				l := vfE7Lookupd{Sym: "L0", Topics: []string{"t1"}}
				for _, nd := range w.Nsqds {
					p := vfE7Producer{Hostname: nd.Hostname, Sym: nd.Sym, TCPPort: nd.TCPPort, Version: nd.Version, Remote: "10.0.0.1:1",
						Topics: []string{"t1"}, Tombstones: []bool{false}}
					l.Nodes = append(l.Nodes, p)
					l.Lookup = append(l.Lookup, p)
				}
				w.Lookupds = []vfE7Lookupd{l}
			} else {
				for _, nd := range w.Nsqds {
					w.NsqdAddrs = append(w.NsqdAddrs, nd.Sym)
				}
			}
			e.run(w, vfE7VReq{kind: "topic", a: "t1"})
			e.run(w, vfE7VReq{kind: "channel", a: "t1", b: "c1"})
			e.run(w, vfE7VReq{kind: "counter"})
			e.run(w, vfE7VReq{kind: "node", a: "N1"})
			e.hist["int64-wrap"]++
		}
	}
	fmt.Printf("E7-VIEWS cases=%d hist=%v\n", e.out.n, e.hist)
}

// TestVerifE7Malformed: structurally inconsistent answers, one oddity per case (each may be fatal on
// a tree without the corresponding guard).
func TestVerifE7Malformed(t *testing.T) {
	e := vfE7VSetup(t, "malformed")
	defer e.close()
	rng := vfNewRand(0xE719)
	rounds := vfEnvInt("VERIF_N", 300) / 60
	if rounds < 2 {
		rounds = 2
	}
	for round := 0; round < rounds; round++ {
		for mode := 0; mode < 2; mode++ {
			for kind := 0; kind < 21; kind++ {
				w := vfE7GenWorld(rng, mode == 0, 0)
				// t1/c1 exists on the first node
				tp := vfE7GenTopic(rng, "t1")
				tp.Channels = append([]vfE7Chan{vfE7GenChan(rng, "c1")}, tp.Channels...)
				tp.Channels[0].Clients = append(tp.Channels[0].Clients, vfE7Client{Hostname: "h", ClientID: "k"})
				w.Nsqds[0].Topics = append([]vfE7Topic{tp}, w.Nsqds[0].Topics...)
				w.Nsqds[0].Filters = true
				if mode == 0 {
					w.Lookupds = w.Lookupds[:1] // one nsqlookupd: which record of a node is kept does not depend on arrival order
					for i := range w.Lookupds[0].Nodes {
						if w.Lookupds[0].Nodes[i].Sym == "N0" {
							w.Lookupds[0].Nodes[i].TCPPort = 4190 // a different registration of the same host
						}
					}
					p := vfE7Producer{Hostname: w.Nsqds[0].Hostname, Sym: "N0", TCPPort: w.Nsqds[0].TCPPort, Version: "1.3.0",
						Remote: "10.0.0.1:1", Topics: []string{"t1", "t2"}, Tombstones: []bool{false, true}}
					w.Lookupds[0].Nodes = append([]vfE7Producer{p}, w.Lookupds[0].Nodes...)
					w.Lookupds[0].Lookup = append([]vfE7Producer{p}, w.Lookupds[0].Lookup...)
				} else if w.NsqdAddrs[0] != "N0" {
					w.NsqdAddrs = append([]string{"N0"}, w.NsqdAddrs...)
				}
				if round >= 2 && (kind == 12 || kind == 13 || kind == 14 || kind == 17) {
					continue // null percentiles: fixed worlds, two rounds say it all (each is a process death without fixes/F53)
				}
				reqs := []vfE7VReq{{kind: "topic", a: "t1"}, {kind: "channel", a: "t1", b: "c1"}, {kind: "nodes"}, {kind: "node", a: "N0"},
					{kind: "counter"}, {kind: "topics"}}
				t0 := &w.Nsqds[0].Topics[0]
				switch kind {
				case 0: // fewer tombstones than topics (DESIGN F4)
					if mode == 0 {
						w.Lookupds[0].Nodes[0].Tombstones = []bool{false}
						w.Lookupds[0].Lookup[0].Tombstones = nil
					}
				case 1: // more tombstones than topics
					if mode == 0 {
						w.Lookupds[0].Nodes[0].Tombstones = []bool{false, true, true}
					}
				case 2: // null producer
					if mode == 0 {
						w.Lookupds[0].Nodes = append(w.Lookupds[0].Nodes, vfE7Producer{Null: true})
						w.Lookupds[0].Lookup = append([]vfE7Producer{{Null: true}}, w.Lookupds[0].Lookup...)
					}
				case 3: // null topic
					w.Nsqds[0].Topics = append(w.Nsqds[0].Topics, vfE7Topic{Null: true})
				case 4: // null channel
					t0.Channels = append(t0.Channels, vfE7Chan{Null: true})
				case 5: // null client
					t0.Channels[0].Clients = append(t0.Channels[0].Clients, vfE7Client{Null: true})
				case 6: // channel without e2e latency
					t0.Channels[0].E2E = 0
				case 7: // channel with e2e latency null
					t0.Channels[0].E2E = 2
				case 8: // topic without e2e latency
					t0.E2E = 0
				case 9: // a channel no node reports
					reqs = []vfE7VReq{{kind: "channel", a: "t1", b: "nosuch"}, {kind: "channel", a: "t1", b: "c1"}}
				case 10: // duplicate channel inside one topic, duplicate topic inside one node
					t0.Channels = append(t0.Channels, vfE7GenChan(rng, "c1"))
					w.Nsqds[0].Topics = append(w.Nsqds[0].Topics, vfE7GenTopic(rng, "t1"))
				case 11: // empty names
					t0.Channels = append(t0.Channels, vfE7GenChan(rng, ""))
				case 12: // null element in a channel's latency percentiles
					t0.Channels[0].E2E, t0.Channels[0].Pct = 4, []int{-1}
				case 13: // null element in a topic's latency percentiles, after a well-formed one
					t0.E2E, t0.Pct = 4, []int{99, -1, 95}
				case 14: // null percentile in a topic that the request does not even ask for
					tx := vfE7GenTopic(rng, "zz_other")
					tx.Channels = []vfE7Chan{vfE7GenChan(rng, "c9")}
					tx.Channels[0].E2E, tx.Channels[0].Pct = 4, []int{50, -1}
					w.Nsqds[0].Topics = append(w.Nsqds[0].Topics, tx)
					w.Nsqds[0].Filters = false
				case 15: // percentiles of different lengths / keys on two nodes, members missing
					t0.E2E, t0.Pct = 4, []int{99, 95, 50}
					t0.Channels[0].E2E, t0.Channels[0].Pct = 4, []int{99, 0, 0}
					t1 := vfE7GenTopic(rng, "t1")
					t1.E2E, t1.Pct = 4, []int{50}
					t1.Channels = []vfE7Chan{vfE7GenChan(rng, "c1")}
					t1.Channels[0].E2E, t1.Channels[0].Pct = 4, []int{1, 99, 95, 50, 0}
					if len(w.Nsqds) > 1 {
						w.Nsqds[1].Topics = append([]vfE7Topic{t1}, w.Nsqds[1].Topics...)
					}
				case 16: // empty percentiles array
					t0.E2E, t0.Pct = 4, nil
					t0.Channels[0].E2E, t0.Channels[0].Pct = 4, []int{}
				case 18, 19, 20: // the channel object carries a "nodes" member (18: [null], 19: [null, {…}], 20: [{…}]) and a second node reports the channel
					t0.Channels[0].UpNodes = [][]int{{-1}, {-1, 1}, {1}}[kind-18]
					t1 := vfE7GenTopic(rng, "t1")
					t1.Channels = []vfE7Chan{vfE7GenChan(rng, "c1")}
					if len(w.Nsqds) > 1 {
						w.Nsqds[1].Topics = append([]vfE7Topic{t1}, w.Nsqds[1].Topics...)
						if mode == 0 {
							p := vfE7Producer{Hostname: w.Nsqds[1].Hostname, Sym: w.Nsqds[1].Sym, TCPPort: w.Nsqds[1].TCPPort, Version: "1.3.0",
								Remote: "10.0.0.2:1", Topics: []string{"t1"}, Tombstones: []bool{false}}
							w.Lookupds[0].Lookup = append(w.Lookupds[0].Lookup, p)
						}
					}
				case 17: // only null elements, channel and topic
					t0.E2E, t0.Pct = 4, []int{-1, -1}
					t0.Channels[0].E2E, t0.Channels[0].Pct = 4, []int{-1, -1, -1}
				}
				for _, r := range reqs {
					e.run(w, r)
				}
				// the same inconsistent answer next to a FAILING peer: the view is still built from the rest and now
				// carries a warning (the warning and the guard against the oddity are independent)
				if kind == 12 || kind == 13 || kind == 14 || kind == 17 {
					continue
				}
				wp := w
				wp.Nsqds = append([]vfE7Nsqd(nil), w.Nsqds...)
				wp.Lookupds = append([]vfE7Lookupd(nil), w.Lookupds...)
				how := vfE7Fail([]int{1, 2, 3, 5, 6, 9}[rng.Intn(6)])
				if mode == 0 {
					wp.Lookupds = append(wp.Lookupds, vfE7Lookupd{Sym: "L1", TopicsFail: how, NodesFail: how, LookupFail: how})
				} else if rng.Intn(2) == 0 || len(wp.Nsqds) < 2 {
					wp.NsqdAddrs = append(append([]string(nil), w.NsqdAddrs...), "X0")
				}
				if len(wp.Nsqds) > 1 && rng.Intn(2) == 0 {
					wp.Nsqds[len(wp.Nsqds)-1].StatsFail = how
				}
				for i, r := range reqs {
					if i < 4 || r.kind == "counter" {
						e.run(wp, r)
						e.hist["malformed-x-failing-peer"]++
					}
				}
			}
		}
	}
	fmt.Printf("E7-MALFORMED cases=%d hist=%v\n", e.out.n, e.hist)
}

// ------------------------------------------------------------------ replay of committed op lines

type vfE7Tok struct {
	t []string
	i int
}

func (p *vfE7Tok) next() string {
	if p.i >= len(p.t) {
		panic("op line too short")
	}
	v := p.t[p.i]
	p.i++
	return v
}
func (p *vfE7Tok) s() string {
	v := p.next()
	if v == "-" {
		return ""
	}
	return v
}
func (p *vfE7Tok) n() int64 {
	v, err := strconv.ParseInt(p.next(), 10, 64)
	if err != nil {
		panic(err)
	}
	return v
}
func (p *vfE7Tok) b() bool { return p.next() == "1" }

func (p *vfE7Tok) producer() vfE7Producer {
	if p.next() == "null" {
		return vfE7Producer{Null: true}
	}
	x := vfE7Producer{Hostname: p.s(), Sym: p.s()}
	tcp := p.s()
	_, port, _ := net.SplitHostPort(tcp)
	x.TCPPort, _ = strconv.Atoi(port)
	x.Version = p.s()
	p.n()
	p.n()
	p.n()
	x.Remote = p.s()
	for k := p.n(); k > 0; k-- {
		x.Topics = append(x.Topics, p.s())
	}
	for k := p.n(); k > 0; k-- {
		x.Tombstones = append(x.Tombstones, p.b())
	}
	return x
}

func (p *vfE7Tok) channel() vfE7Chan {
	if p.next() == "null" {
		return vfE7Chan{Null: true}
	}
	c := vfE7Chan{Name: p.s(), Depth: p.n(), Backend: p.n(), InFlight: p.n(), Deferred: p.n(), Requeue: p.n(), Timeout: p.n(), Msg: p.n(),
		Zone: p.n(), Region: p.n(), Global: p.n(), ClientCount: p.n(), Paused: p.b()}
	etok, up := vfE7ParseJunkTok(p.next())
	c.UpNodes = up
	c.E2E, c.Pct = vfE7ParseE2ETok(etok)
	for k := p.n(); k > 0; k-- {
		if p.next() == "null" {
			c.Clients = append(c.Clients, vfE7Client{Null: true})
		} else {
			c.Clients = append(c.Clients, vfE7Client{Hostname: p.s(), ClientID: p.s()})
		}
	}
	return c
}

func (p *vfE7Tok) topic() vfE7Topic {
	if p.next() == "null" {
		return vfE7Topic{Null: true}
	}
	t := vfE7Topic{Name: p.s(), Depth: p.n(), Backend: p.n(), Msg: p.n(), Zone: p.n(), Region: p.n(), Global: p.n(), Paused: p.b()}
	t.E2E, t.Pct = vfE7ParseE2ETok(p.next())
	for k := p.n(); k > 0; k-- {
		t.Channels = append(t.Channels, p.channel())
	}
	return t
}

func vfE7ParseOp(line string) (vfE7VWorld, vfE7VReq) {
	p := &vfE7Tok{t: strings.Fields(line)}
	if p.next() != "view" {
		panic("not a view op")
	}
	var r vfE7VReq
	r.kind = p.next()
	switch r.kind {
	case "topic", "node":
		r.a = p.next()
	case "channel":
		r.a, r.b = p.next(), p.next()
	}
	var w vfE7VWorld
	p.next() // W
	p.next() // L
	for k := p.n(); k > 0; k-- {
		l := vfE7Lookupd{Sym: p.s()}
		if p.next() == "F" {
			l.TopicsFail = 1
		} else {
			for j := p.n(); j > 0; j-- {
				l.Topics = append(l.Topics, p.s())
			}
		}
		if p.next() == "F" {
			l.NodesFail = 1
		} else {
			for j := p.n(); j > 0; j-- {
				l.Nodes = append(l.Nodes, p.producer())
			}
		}
		if p.next() == "F" {
			l.LookupFail = 1
		} else {
			for j := p.n(); j > 0; j-- {
				l.Lookup = append(l.Lookup, p.producer())
			}
		}
		w.Lookupds = append(w.Lookupds, l)
	}
	p.next() // A
	for k := p.n(); k > 0; k-- {
		w.NsqdAddrs = append(w.NsqdAddrs, p.s())
	}
	p.next() // N
	for k := p.n(); k > 0; k-- {
		n := vfE7Nsqd{Sym: p.s(), Filters: p.b()}
		if p.next() == "F" {
			n.InfoFail = 1
		} else {
			n.Hostname = p.s()
			n.NoBcast = strings.HasPrefix(p.s(), ":")
			_, port, _ := net.SplitHostPort(p.s())
			n.TCPPort, _ = strconv.Atoi(port)
			n.Version = p.s()
			p.n()
			p.n()
			p.n()
		}
		if p.next() == "F" {
			n.StatsFail = 1
		} else {
			for j := p.n(); j > 0; j-- {
				n.Topics = append(n.Topics, p.topic())
			}
		}
		w.Nsqds = append(w.Nsqds, n)
	}
	if p.i < len(p.t) && p.t[p.i] == "I" {
		p.next()
		for k := p.n(); k > 0; k-- {
			sym := p.s()
			a := vfE7TopicAns{Topic: p.s()}
			if p.next() == "F" {
				a.LookupFail = 1
			} else {
				for j := p.n(); j > 0; j-- {
					a.Lookup = append(a.Lookup, p.producer())
				}
			}
			if p.next() == "F" {
				a.ChannelsFail = 1
			} else {
				for j := p.n(); j > 0; j-- {
					a.Channels = append(a.Channels, p.s())
				}
			}
			for i := range w.Lookupds {
				if w.Lookupds[i].Sym == sym {
					w.Lookupds[i].PerTopic = append(w.Lookupds[i].PerTopic, a)
				}
			}
		}
	}
	if p.i < len(p.t) && p.next() == "X" {
		for k := p.n(); k > 0; k-- {
			sym, ep, f := p.s(), p.s(), vfE7Fail(p.n())
			for i := range w.Lookupds {
				if w.Lookupds[i].Sym == sym {
					switch ep {
					case "topics":
						w.Lookupds[i].TopicsFail = f
					case "nodes":
						w.Lookupds[i].NodesFail = f
					case "lookup":
						w.Lookupds[i].LookupFail = f
					}
				}
			}
			for i := range w.Nsqds {
				if w.Nsqds[i].Sym == sym {
					if ep == "info" {
						w.Nsqds[i].InfoFail = f
					} else if ep == "stats" {
						w.Nsqds[i].StatsFail = f
					}
				}
			}
		}
	}
	return w, r
}

// TestVerifE7GetV1: the upstream request helper itself (Client.GETV1 through nsqadmin's own client) against every
// stub behaviour, starting on the plain and on the HTTPS port: outcome and the number of requests each port saw.
func TestVerifE7GetV1(t *testing.T) {
	e := vfE7VSetup(t, "getv1")
	defer e.close()
	for round := 0; round < 3; round++ {
		for _, mode := range []vfE7Fail{0, 1, 2, 3, 5, 7, 8, 9, 10, 11} {
			for _, https := range []bool{false, true} {
				e.getv1(mode, https)
			}
		}
	}
	fmt.Printf("E7-GETV1 cases=%d hist=%v\n", e.out.n, e.hist)
}

func (e *vfE7VEnv) getv1(mode vfE7Fail, https bool) {
	idx := e.idx
	e.idx++
	if idx < e.skip || (mode == 8 && e.cl.hangOff) {
		return
	}
	e.progress(idx)
	w := vfE7VWorld{NsqdAddrs: []string{"N0"}, Nsqds: []vfE7Nsqd{{Sym: "N0", Filters: true, InfoFail: mode, Hostname: "h", TCPPort: 4150, Version: "1.3.0"}}}
	e.cl.mu.Lock()
	e.cl.world = w
	e.cl.mu.Unlock()
	url := "http://" + e.cl.addr["N0"] + "/info"
	if https {
		url = "https://" + e.cl.tlsAddr["N0"] + "/info"
	}
	op := fmt.Sprintf("getv1 https=%s mode=%d", vfE7B(https), mode)
	fmt.Fprintln(e.out.ops, op)
	e.out.ops.Flush()
	p0, t0 := atomic.LoadInt64(&e.cl.plainReqs), atomic.LoadInt64(&e.cl.tlsReqs)
	res := make(chan error, 1)
	go func() {
		var v struct {
			Version string `json:"version"`
		}
		res <- e.hs.client.GETV1(url, &v)
	}()
	var err error
	select {
	case err = <-res:
	case <-time.After(time.Duration(vfEnvInt("VERIF_VIEW_DEADLINE_MS", 5000)) * time.Millisecond):
		fmt.Printf("VIEW-HANGS GETV1 %s (stub behaviour %d) did not return within the deadline; requests seen: %d plain, %d TLS\n",
			e.cl.symbolise(url), mode, atomic.LoadInt64(&e.cl.plainReqs)-p0, atomic.LoadInt64(&e.cl.tlsReqs)-t0)
		os.Exit(3)
	}
	out := "ok"
	if err != nil {
		out = "failed"
	}
	fmt.Fprintf(e.out.impl, "%s %d %d\n", out, atomic.LoadInt64(&e.cl.plainReqs)-p0, atomic.LoadInt64(&e.cl.tlsReqs)-t0)
	e.out.impl.Flush()
	e.out.n++
	e.hist[fmt.Sprintf("mode%d:%s", mode, out)]++
}

// progress records the index of the case about to run (python restarts after it when the process is lost).
func (e *vfE7VEnv) progress(idx int) {
	dir := os.Getenv("VERIF_OUT")
	if dir == "" {
		dir = os.TempDir()
	}
	os.WriteFile(filepath.Join(dir, e.name+".idx"), []byte(strconv.Itoa(idx)), 0o644)
}

func (w vfE7VWorld) hasMode(m vfE7Fail) bool {
	for _, l := range w.Lookupds {
		if l.TopicsFail == m || l.NodesFail == m || l.LookupFail == m {
			return true
		}
	}
	for _, n := range w.Nsqds {
		if n.InfoFail == m || n.StatsFail == m {
			return true
		}
	}
	return false
}

// TestVerifE7Replay runs the op lines of the file VERIF_REPLAY through the real code.
func TestVerifE7Replay(t *testing.T) {
	raw, err := os.ReadFile(os.Getenv("VERIF_REPLAY"))
	if err != nil {
		t.Fatal(err)
	}
	e := vfE7VSetup(t, "replay")
	defer e.close()
	e.skip = 0
	for _, line := range strings.Split(string(raw), "\n") {
		if strings.HasPrefix(line, "view ") {
			w, r := vfE7ParseOp(line)
			e.run(w, r)
		}
		if strings.HasPrefix(line, "getv1 ") {
			f := map[string]string{}
			for _, t := range strings.Fields(line)[1:] {
				if kv := strings.SplitN(t, "=", 2); len(kv) == 2 {
					f[kv[0]] = kv[1]
				}
			}
			m, _ := strconv.Atoi(f["mode"])
			e.getv1(vfE7Fail(m), f["https"] == "1")
		}
	}
}
