package nsqadmin

// Correspondence stream "latency" for C18 (engine E7): the shape of the e2e latency aggregate.
//
// A case = how the aggregate starts + one `percentiles` shape per node. The shapes are rendered as the JSON an
// nsqd would send, decoded by the real encoding/json into the real clusterinfo.ChannelStats / TopicStats (which runs
// quantile.E2eProcessingLatencyAggregate.UnmarshalJSON) and merged by the real ChannelStats.Add / TopicStats.Add
// (which run E2eProcessingLatencyAggregate.Add). A panic is caught here (same goroutine, no lock held) and printed
// with the phase it happened in; in nsqadmin the decode phase runs inside a fetch goroutine, where it is fatal.
//
// Op line:   lat <fresh|first> <k> <p:e,e,…> × k     (e = n for null, else the quantile id: 0 = member missing)
// Impl line: ok <sorted quantile ids of the aggregate's entries, comma separated>  |  panic <decode|add> <message>

import (
	"encoding/json"
	"fmt"
	"math"
	"sort"
	"strconv"
	"strings"
	"testing"

	"github.com/nsqio/nsq/internal/clusterinfo"
	"github.com/nsqio/nsq/internal/quantile"
)

func vfE7LatKeys(e *quantile.E2eProcessingLatencyAggregate) string {
	if e == nil {
		return "ok nil"
	}
	var ks []int
	for _, p := range e.Percentiles {
		if p == nil {
			ks = append(ks, -1)
			continue
		}
		ks = append(ks, int(math.Round(p["quantile"]*100)))
	}
	sort.Ints(ks)
	var ss []string
	for _, k := range ks {
		if k < 0 {
			ss = append(ss, "n")
		} else {
			ss = append(ss, strconv.Itoa(k))
		}
	}
	return "ok " + strings.Join(ss, ",")
}

func vfE7LatRun(start string, docs [][]int) (out string) {
	phase := "decode"
	defer func() {
		if r := recover(); r != nil {
			out = fmt.Sprintf("panic %s %v", phase, r)
		}
	}()
	var topics []*clusterinfo.TopicStats
	for i, d := range docs {
		js := fmt.Sprintf(`{"topic_name":"t","channels":[{"channel_name":"c","depth":1,"e2e_processing_latency":{"count":7,"percentiles":%s}}],`+
			`"e2e_processing_latency":{"count":7,"percentiles":%s}}`, vfE7PctJSON(d), vfE7PctJSON(d))
		var t clusterinfo.TopicStats
		if err := json.Unmarshal([]byte(js), &t); err != nil {
			return "decode-error " + err.Error()
		}
		t.Hostname = fmt.Sprintf("h%d", i)
		topics = append(topics, &t)
	}
	phase = "add"
	switch start {
	case "fresh": // GetNSQDStats' channel map: a fresh ChannelStats, then Add of every node's report
		agg := &clusterinfo.ChannelStats{ChannelName: "c"}
		for _, t := range topics {
			agg.Add(t.Channels[0])
		}
		return vfE7LatKeys(agg.E2eProcessingLatency)
	case "first": // TopicStats.Add: the first node's channel object becomes the aggregate; the topic document starts fresh
		agg := &clusterinfo.TopicStats{TopicName: "t"}
		for _, t := range topics {
			agg.Add(t)
		}
		if len(agg.Channels) == 0 {
			return "ok nil"
		}
		return vfE7LatKeys(agg.Channels[0].E2eProcessingLatency)
	}
	return "bad-start"
}

func TestVerifE7Latency(t *testing.T) {
	out := vfOpen("latency")
	defer out.Close()
	rng := vfNewRand(0xE7A7)
	hist := map[string]int{}
	emit := func(start string, docs [][]int) {
		var toks []string
		for _, d := range docs {
			toks = append(toks, vfE7E2ETok(4, d))
		}
		op := fmt.Sprintf("lat %s %d %s", start, len(docs), strings.Join(toks, " "))
		impl := vfE7LatRun(start, docs)
		out.Case(strings.TrimSpace(op), impl)
		hist[start+":"+strings.Fields(impl)[0]]++
	}
	fixed := [][][]int{
		{{-1}}, {{99, -1, 95}}, {{99}, {-1}}, {{-1, -1}, {0}}, {{-1}, {0}}, {{0}, {-1}, {0}}, {{99, 95}, {50}}, {{}, {99}},
		{{99, 99}}, {{0, 0}, {0}}, {{99, 95, 50}, {50, 95, 99, 1}}, {}, {{}},
	}
	for _, d := range fixed {
		emit("fresh", d)
		emit("first", d)
	}
	n := vfEnvInt("VERIF_N", 300)
	for i := 0; i < n; i++ {
		var docs [][]int
		for k := rng.Intn(5); k > 0; k-- {
			var d []int
			for j := rng.Intn(6); j > 0; j-- {
				switch rng.Intn(12) {
				case 0:
					d = append(d, -1)
				case 1, 2:
					d = append(d, 0)
				default:
					d = append(d, []int{99, 95, 50, 1, 75}[rng.Intn(5)])
				}
			}
			docs = append(docs, d)
		}
		emit([]string{"fresh", "first"}[rng.Intn(2)], docs)
	}
	fmt.Printf("E7-LATENCY cases=%d hist=%v\n", out.N, hist)
}
