package nsqadmin

// Correspondence stream "latency" for C18 (engine E7): the shape of the e2e latency aggregate.
//
// A case = how the aggregate starts + one `percentiles` shape per node. The shapes are rendered as the JSON an
// nsqd would send, decoded by the real encoding/json into the real clusterinfo.ChannelStats / TopicStats (which runs
// quantile.E2eProcessingLatencyAggregate.UnmarshalJSON) and merged by the real ChannelStats.Add / TopicStats.Add
// (which run E2eProcessingLatencyAggregate.Add). A panic is caught here (same goroutine, no lock held) and printed
// with the phase it happened in; in nsqadmin the decode phase runs inside a fetch goroutine, where it is fatal.
//
// Op line:   lat <fresh|first> <k> <p:e,e,…> × k     (e = n for null, else the quantile id: 0 = member missing)
// Impl line: ok <sorted quantile ids of the aggregate's entries, comma separated>  |  panic <decode|add> <message>

import (
	"encoding/json"
	"fmt"
	"math"
	"os"
	"sort"
	"strconv"
	"strings"
	"testing"

	"github.com/nsqio/nsq/internal/clusterinfo"
	"github.com/nsqio/nsq/internal/quantile"
)

func vfE7LatKeys(e *quantile.E2eProcessingLatencyAggregate) string {
	if e == nil {
		return "ok nil"
	}
	var ks []int
	for _, p := range e.Percentiles {
		if p == nil {
			ks = append(ks, -1)
			continue
		}
		ks = append(ks, int(math.Round(p["quantile"]*100)))
	}
	sort.Ints(ks)
	var ss []string
	for _, k := range ks {
		if k < 0 {
			ss = append(ss, "n")
		} else {
			ss = append(ss, strconv.Itoa(k))
		}
	}
	return "ok " + strings.Join(ss, ",")
}

func vfE7LatRun(start string, docs [][]int) (out string) {
	phase := "decode"
	defer func() {
		if r := recover(); r != nil {
			out = fmt.Sprintf("panic %s %v", phase, r)
		}
	}()
	var topics []*clusterinfo.TopicStats
	for i, d := range docs {
		js := fmt.Sprintf(`{"topic_name":"t","channels":[{"channel_name":"c","depth":1,"e2e_processing_latency":{"count":7,"percentiles":%s}}],`+
			`"e2e_processing_latency":{"count":7,"percentiles":%s}}`, vfE7PctJSON(d), vfE7PctJSON(d))
		var t clusterinfo.TopicStats
		if err := json.Unmarshal([]byte(js), &t); err != nil {
			return "decode-error " + err.Error()
		}
		t.Hostname = fmt.Sprintf("h%d", i)
		topics = append(topics, &t)
	}
	phase = "add"
	switch start {
	case "fresh": // GetNSQDStats' channel map: a fresh ChannelStats, then Add of every node's report
		agg := &clusterinfo.ChannelStats{ChannelName: "c"}
		for _, t := range topics {
			agg.Add(t.Channels[0])
		}
		return vfE7LatKeys(agg.E2eProcessingLatency)
	case "first": // TopicStats.Add: the first node's channel object becomes the aggregate; the topic document starts fresh
		agg := &clusterinfo.TopicStats{TopicName: "t"}
		for _, t := range topics {
			agg.Add(t)
		}
		if len(agg.Channels) == 0 {
			return "ok nil"
		}
		return vfE7LatKeys(agg.Channels[0].E2eProcessingLatency)
	}
	return "bad-start"
}

func TestVerifE7Latency(t *testing.T) {
	out := vfOpen("latency")
	defer out.Close()
	rng := vfNewRand(0xE7A7)
	hist := map[string]int{}
	emit := func(start string, docs [][]int) {
		var toks []string
		for _, d := range docs {
			toks = append(toks, vfE7E2ETok(4, d))
		}
		op := fmt.Sprintf("lat %s %d %s", start, len(docs), strings.Join(toks, " "))
		impl := vfE7LatRun(start, docs)
		out.Case(strings.TrimSpace(op), impl)
		hist[start+":"+strings.Fields(impl)[0]]++
	}
	fixed := [][][]int{
		{{-1}}, {{99, -1, 95}}, {{99}, {-1}}, {{-1, -1}, {0}}, {{-1}, {0}}, {{0}, {-1}, {0}}, {{99, 95}, {50}}, {{}, {99}},
		{{99, 99}}, {{0, 0}, {0}}, {{99, 95, 50}, {50, 95, 99, 1}}, {}, {{}},
	}
	for _, d := range fixed {
		emit("fresh", d)
		emit("first", d)
	}
	// values, not shapes (floats are outside the model): a latency value near the top of float64 overflows Add's
	// `delta * count` to +Inf, which encoding/json refuses to encode - the handler answers 500 (audit 7, C6)
	// the cases: two built-in ones plus every `latval <value> <count>` line of the replay files named by
	// VERIF_LATVAL_FILES (the committed replay of the open finding view:latency-overflow-500, passed by props/C18.py)
	latvals := [][2]string{{"1500000", "2"}, {"1.7e308", "2"}}
	for _, fn := range strings.Split(os.Getenv("VERIF_LATVAL_FILES"), ":") {
		if fn == "" {
			continue
		}
		raw, err := os.ReadFile(fn)
		if err != nil {
			t.Fatalf("latval replay file %s: %v", fn, err)
		}
		for _, l := range strings.Split(string(raw), "\n") {
			f := strings.Fields(l)
			if len(f) != 3 || f[0] != "latval" {
				continue
			}
			if _, err := strconv.ParseFloat(f[1], 64); err != nil {
				t.Fatalf("latval replay file %s: bad value in %q", fn, l)
			}
			if _, err := strconv.Atoi(f[2]); err != nil {
				t.Fatalf("latval replay file %s: bad count in %q", fn, l)
			}
			dup := false
			for _, c := range latvals {
				dup = dup || c == [2]string{f[1], f[2]}
			}
			if !dup {
				latvals = append(latvals, [2]string{f[1], f[2]})
			}
			hist["latval:from-file"]++
		}
	}
	for _, vc := range latvals {
		v, cnt := vc[0], vc[1]
		impl := func() (out string) {
			defer func() {
				if r := recover(); r != nil {
					out = fmt.Sprintf("panic %v", r)
				}
			}()
			var c clusterinfo.ChannelStats
			js := `{"channel_name":"c","e2e_processing_latency":{"count":` + cnt + `,"percentiles":[{"quantile":0.99,"value":` + v + `}]}}`
			if err := json.Unmarshal([]byte(js), &c); err != nil {
				return "decode-error"
			}
			agg := &clusterinfo.ChannelStats{ChannelName: "c"}
			agg.Add(&c)
			if _, err := json.Marshal(agg); err != nil {
				return "marshal-error " + strings.ReplaceAll(err.Error(), " ", "_")
			}
			return "marshal-ok"
		}()
		out.Case("latval "+v+" "+cnt, impl)
		hist["latval:"+strings.Fields(impl)[0]]++
	}
	n := vfEnvInt("VERIF_N", 300)
	for i := 0; i < n; i++ {
		var docs [][]int
		for k := rng.Intn(5); k > 0; k-- {
			var d []int
			for j := rng.Intn(6); j > 0; j-- {
				switch rng.Intn(12) {
				case 0:
					d = append(d, -1)
				case 1, 2:
					d = append(d, 0)
				default:
					d = append(d, []int{99, 95, 50, 1, 75}[rng.Intn(5)])
				}
			}
			docs = append(docs, d)
		}
		emit([]string{"fresh", "first"}[rng.Intn(2)], docs)
	}
	fmt.Printf("E7-LATENCY cases=%d hist=%v\n", out.N, hist)
}

// ------------------------------------------------------------------ stream "less": the comparators of the sorted lists
//
// Op line:   less host <a> <b>   |   less topo <node nodeRegion nodeZone region zone> × 2      ("-" = empty string)
// Impl line: 1 | 0 — what the real Less(0, 1) of every by-hostname comparator (they must agree) /
// of ClientStatsByNodeTopology answers.

func vfE7LessHost(a, b string) string {
	rs := []bool{
		clusterinfo.ChannelStatsByHost{ChannelStatsList: clusterinfo.ChannelStatsList{{Hostname: a}, {Hostname: b}}}.Less(0, 1),
		clusterinfo.ClientsByHost{ClientStatsList: clusterinfo.ClientStatsList{{Hostname: a}, {Hostname: b}}}.Less(0, 1),
		clusterinfo.TopicStatsByHost{TopicStatsList: clusterinfo.TopicStatsList{{Hostname: a}, {Hostname: b}}}.Less(0, 1),
		clusterinfo.ProducersByHost{Producers: clusterinfo.Producers{{Hostname: a}, {Hostname: b}}}.Less(0, 1),
		clusterinfo.ProducerTopics{{Topic: a}, {Topic: b}}.Less(0, 1),
	}
	for i, r := range rs {
		if r != rs[0] {
			return fmt.Sprintf("comparators-disagree %d %v", i, rs)
		}
	}
	return vfE7B(rs[0])
}

func TestVerifE7Less(t *testing.T) {
	out := vfOpen("less")
	defer out.Close()
	rng := vfNewRand(0xE71E)
	hist := map[string]int{}
	names := []string{"", "a", "b", "ab", "alpha", "beta", "Alpha", "a1", "a.b", "z", "N0", "N1", "n0"}
	for _, a := range names {
		for _, b := range names {
			impl := vfE7LessHost(a, b)
			out.Case(fmt.Sprintf("less host %s %s", vfE7S(a), vfE7S(b)), impl)
			hist["host:"+impl]++
		}
	}
	pool := []string{"", "r1", "r2", "z1", "z2", "a"}
	n := vfEnvInt("VERIF_N", 300) * 4
	for i := 0; i < n; i++ {
		pick := func() string { return pool[rng.Intn(len(pool))] }
		k := [2][5]string{}
		node := []string{"N0", "N1", "N0"}[rng.Intn(3)]
		nr, nz := pick(), pick()
		for j := 0; j < 2; j++ {
			k[j] = [5]string{node, nr, nz, pick(), pick()}
			if rng.Intn(3) == 0 {
				k[j][3], k[j][4] = nr, nz // in the node's own zone
			} else if rng.Intn(3) == 0 {
				k[j][3] = nr // in the node's region
			}
		}
		if rng.Intn(4) == 0 {
			k[1][0] = []string{"N0", "N1", "N2"}[rng.Intn(3)]
			k[1][1], k[1][2] = pick(), pick()
		}
		mk := func(x [5]string) *clusterinfo.ClientStats {
			return &clusterinfo.ClientStats{Node: x[0], NodeTopologyRegion: x[1], NodeTopologyZone: x[2], TopologyRegion: x[3], TopologyZone: x[4]}
		}
		impl := vfE7B(clusterinfo.ClientStatsByNodeTopology{ClientStatsList: clusterinfo.ClientStatsList{mk(k[0]), mk(k[1])}}.Less(0, 1))
		var toks []string
		for j := 0; j < 2; j++ {
			for _, f := range k[j] {
				toks = append(toks, vfE7S(f))
			}
		}
		out.Case("less topo "+strings.Join(toks, " "), impl)
		hist["topo:"+impl]++
	}
	fmt.Printf("E7-LESS cases=%d hist=%v\n", out.N, hist)
}

// ------------------------------------------------------------------ stream "add": TopicStats.Add / ChannelStats.Add themselves
//
// A direct differential of the two aggregation methods (audit 7, C34): random sequences of per-node reports built as Go
// values (not through JSON: nil and empty sub-slices, negative and huge counters, a missing latency document are all
// reachable), folded by the REAL Add into a fresh aggregate exactly as topicHandler / GetNSQDStats do, rendered through
// the same canonical rendering as the views (every integer field, paused, node list, client list, merged channels).
//
// Op line:   add topic <name> <k> { <node> <host> <name> <paused> <e2e> <8 ints> <nch> { chan } }
//            add channel <name> <k> { chan }        chan = <node> <host> <topic> <name> <paused> <e2e> <13 ints> <ncl> { <host> <id> }
// Impl line: as the topic / channel view:  200 0 T/… N[…] C[…]   |   200 0 C/…   |   panic <message>

func vfE7AddCounter(r *vfRand) int64 {
	switch r.Intn(9) {
	case 0:
		return int64(r.Next()>>1) - int64(r.Next()>>1) // anywhere in int64
	case 1:
		return -int64(r.Intn(1000))
	case 2:
		return int64(1)<<62 + int64(r.Intn(1000)) // two of them wrap
	case 3:
		return -(int64(1) << 62) - int64(r.Intn(1000))
	}
	return vfE7Counter(r)
}

type vfE7AddChan struct {
	c      *clusterinfo.ChannelStats
	tokens string
}

func vfE7AddGenChan(r *vfRand, node, host, topic, name string) vfE7AddChan {
	c := &clusterinfo.ChannelStats{Node: node, Hostname: host, TopicName: topic, ChannelName: name, Paused: r.Intn(4) == 0}
	v := make([]int64, 13)
	for i := range v {
		v[i] = vfE7AddCounter(r)
	}
	c.Depth, c.MemoryDepth, c.BackendDepth, c.InFlightCount, c.DeferredCount, c.RequeueCount, c.TimeoutCount = v[0], v[1], v[2], v[3], v[4], v[5], v[6]
	c.MessageCount, c.DeliveryMsgCount, c.ZoneLocalMsgCount, c.RegionLocalMsgCount, c.GlobalMsgCount = v[7], v[8], v[9], v[10], v[11]
	c.ClientCount = int(v[12])
	e2e := r.Intn(5) != 0
	if e2e {
		c.E2eProcessingLatency = &quantile.E2eProcessingLatencyAggregate{}
	}
	var sb strings.Builder
	fmt.Fprintf(&sb, "%s %s %s %s %s %s", vfE7S(node), vfE7S(host), vfE7S(topic), vfE7S(name), vfE7B(c.Paused), vfE7B(e2e))
	for _, x := range v {
		fmt.Fprintf(&sb, " %d", x)
	}
	ncl := r.Intn(4)
	if ncl == 3 {
		ncl = 0
		c.Clients = clusterinfo.ClientStatsList{} // empty, not nil
	}
	fmt.Fprintf(&sb, " %d", ncl)
	for i := 0; i < ncl; i++ {
		k := &clusterinfo.ClientStats{Node: node, Hostname: vfE7HostPool[r.Intn(len(vfE7HostPool))] + "-cl", ClientID: fmt.Sprintf("id%d", r.Intn(4))}
		c.Clients = append(c.Clients, k)
		fmt.Fprintf(&sb, " %s %s", k.Hostname, k.ClientID)
	}
	return vfE7AddChan{c, sb.String()}
}

func vfE7AddRun(kind, name string, topics []*clusterinfo.TopicStats, chans []*clusterinfo.ChannelStats) (out string) {
	defer func() {
		if r := recover(); r != nil {
			out = fmt.Sprintf("panic %v", r)
		}
	}()
	cl := &vfE7VCluster{sym: map[string]string{}}
	if kind == "topic" {
		agg := &clusterinfo.TopicStats{TopicName: name}
		for _, t := range topics {
			agg.Add(t)
		}
		js, err := json.Marshal(agg)
		if err != nil {
			return "marshal-error " + err.Error()
		}
		return cl.render("topic", 200, js)
	}
	agg := &clusterinfo.ChannelStats{ChannelName: name}
	for _, c := range chans {
		agg.Add(c)
	}
	js, err := json.Marshal(agg)
	if err != nil {
		return "marshal-error " + err.Error()
	}
	return cl.render("channel", 200, js)
}

func TestVerifE7Add(t *testing.T) {
	out := vfOpen("add")
	defer out.Close()
	rng := vfNewRand(0xE7ADD)
	hist := map[string]int{}
	n := vfEnvInt("VERIF_N", 300)
	chanNames := []string{"c1", "c2", "archive", "x.y"}
	for i := 0; i < n; i++ {
		k := rng.Intn(5)
		if i%2 == 0 {
			var topics []*clusterinfo.TopicStats
			var sb strings.Builder
			fmt.Fprintf(&sb, "add topic t1 %d", k)
			for j := 0; j < k; j++ {
				node, host := fmt.Sprintf("N%d", rng.Intn(4)), vfE7HostPool[rng.Intn(len(vfE7HostPool))]
				tp := &clusterinfo.TopicStats{Node: node, Hostname: host, TopicName: "t1", Paused: rng.Intn(4) == 0}
				v := make([]int64, 8)
				for x := range v {
					v[x] = vfE7AddCounter(rng)
				}
				tp.Depth, tp.MemoryDepth, tp.BackendDepth, tp.MessageCount, tp.DeliveryMsgCount = v[0], v[1], v[2], v[3], v[4]
				tp.ZoneLocalMsgCount, tp.RegionLocalMsgCount, tp.GlobalMsgCount = v[5], v[6], v[7]
				e2e := rng.Intn(5) != 0
				if e2e {
					tp.E2eProcessingLatency = &quantile.E2eProcessingLatencyAggregate{}
				}
				fmt.Fprintf(&sb, " %s %s t1 %s %s", node, host, vfE7B(tp.Paused), vfE7B(e2e))
				for _, x := range v {
					fmt.Fprintf(&sb, " %d", x)
				}
				nch := rng.Intn(4)
				if nch == 3 && rng.Intn(2) == 0 {
					nch = 0
					tp.Channels = []*clusterinfo.ChannelStats{}
				}
				fmt.Fprintf(&sb, " %d", nch)
				for c := 0; c < nch; c++ {
					ch := vfE7AddGenChan(rng, node, host, "t1", chanNames[rng.Intn(len(chanNames))])
					tp.Channels = append(tp.Channels, ch.c)
					sb.WriteString(" " + ch.tokens)
				}
				topics = append(topics, tp)
			}
			impl := vfE7AddRun("topic", "t1", topics, nil)
			out.Case(sb.String(), impl)
			hist[fmt.Sprintf("topic:k%d:%s", k, strings.Fields(impl)[0])]++
		} else {
			var chans []*clusterinfo.ChannelStats
			var sb strings.Builder
			fmt.Fprintf(&sb, "add channel c1 %d", k)
			for j := 0; j < k; j++ {
				ch := vfE7AddGenChan(rng, fmt.Sprintf("N%d", rng.Intn(4)), vfE7HostPool[rng.Intn(len(vfE7HostPool))], "t1", "c1")
				chans = append(chans, ch.c)
				sb.WriteString(" " + ch.tokens)
			}
			impl := vfE7AddRun("channel", "c1", nil, chans)
			out.Case(sb.String(), impl)
			hist[fmt.Sprintf("channel:k%d:%s", k, strings.Fields(impl)[0])]++
		}
	}
	fmt.Printf("E7-ADD cases=%d hist=%v\n", out.N, hist)
}
