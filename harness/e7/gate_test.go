package nsqadmin

// Correspondence harness for C17 (engine E7): the real nsqadmin HTTP server against recording
// stub nsqlookupd / nsqd upstreams. Compiled into package nsqadmin through `go test -overlay`.
//
// Every case writes one op line (`gate k=v …`, the inputs the Lean model `AdminGate.run` +
// `AdminFanout.requests` needs) and one impl line `status requests notifications configWritten`.
// Upstream addresses appear under symbolic names (L0, L1 = nsqlookupd stubs; N0..N2 = nsqd stubs;
// X0 = an address nobody listens on), so the files do not depend on the ports of a run.

import (
	"bufio"
	"encoding/base64"
	"encoding/hex"
	"encoding/json"
	"fmt"
	"io"
	"net"
	"net/http"
	"net/http/httptest"
	"net/url"
	"os"
	"path/filepath"
	"runtime"
	"sort"
	"strconv"
	"strings"
	"sync"
	"sync/atomic"
	"testing"
	"time"

	"github.com/nsqio/nsq/internal/lg"
	"github.com/nsqio/nsq/internal/protocol"
)

type vfE7Log struct {
	mu   sync.Mutex
	recs []string
}

func (l *vfE7Log) add(s string) {
	l.mu.Lock()
	l.recs = append(l.recs, s)
	l.mu.Unlock()
}
func (l *vfE7Log) take() []string {
	l.mu.Lock()
	r := l.recs
	l.recs = nil
	l.mu.Unlock()
	sort.Strings(r)
	return r
}

type vfE7Stub struct {
	sym       string
	isLookupd bool
	srv       *httptest.Server
	addr      string // host:port
	up        atomic.Bool
	postFail  atomic.Int32
	hasTopic  atomic.Bool
	mu        sync.Mutex
	producers []string // symbols (lookupd stubs)
	reports   string   // nsqd stubs: the symbol whose address /info claims as broadcast_address:http_port ("" = its own)
	cl        *vfE7Cluster
}

type vfE7Cluster struct {
	log    *vfE7Log
	stubs  map[string]*vfE7Stub // by symbol
	bySym  map[string]string    // symbol → host:port
	byAddr map[string]string
}

const vfE7Dead = "127.0.0.1:1"

func (c *vfE7Cluster) symbolise(s string) string {
	for addr, sym := range c.byAddr {
		s = strings.ReplaceAll(s, url.QueryEscape(addr), sym)
		s = strings.ReplaceAll(s, addr, sym)
	}
	return s
}

func (c *vfE7Cluster) producerJSON(sym string) map[string]interface{} {
	addr := c.bySym[sym]
	host, port, _ := net.SplitHostPort(addr)
	p, _ := strconv.Atoi(port)
	return map[string]interface{}{
		"remote_address": host + ":50000", "hostname": sym, "broadcast_address": host,
		"tcp_port": p + 10000, "http_port": p, "version": "1.3.0",
		"topics": []string{"t1"}, "tombstones": []bool{false},
	}
}

func (st *vfE7Stub) ServeHTTP(w http.ResponseWriter, r *http.Request) {
	m := "G:"
	if r.Method != "GET" {
		m = "P:"
	}
	st.cl.log.add(m + st.sym + st.cl.symbolise(r.URL.RequestURI()))
	if !st.up.Load() {
		w.WriteHeader(500)
		io.WriteString(w, `{"message":"DOWN"}`)
		return
	}
	reply := func(v interface{}) {
		b, _ := json.Marshal(v)
		w.Header().Set("Content-Type", "application/json")
		w.Write(b)
	}
	if r.Method != "GET" {
		switch st.postFail.Load() {
		case 1: // e.g. the channel is already gone at this nsqlookupd
			w.WriteHeader(404)
			io.WriteString(w, `{"message":"CHANNEL_NOT_FOUND"}`)
		case 2:
			w.WriteHeader(500)
			io.WriteString(w, `{"message":"INTERNAL_ERROR"}`)
		default:
			reply(map[string]interface{}{})
		}
		return
	}
	e2e := map[string]interface{}{"count": 0, "percentiles": nil}
	switch r.URL.Path {
	case "/lookup":
		st.mu.Lock()
		var ps []interface{}
		for _, s := range st.producers {
			ps = append(ps, st.cl.producerJSON(s))
		}
		st.mu.Unlock()
		reply(map[string]interface{}{"channels": []string{"c1"}, "producers": ps})
	case "/topics":
		reply(map[string]interface{}{"topics": []string{"t1"}})
	case "/channels":
		reply(map[string]interface{}{"channels": []string{"c1"}})
	case "/nodes":
		st.mu.Lock()
		var ps []interface{}
		for _, s := range st.producers {
			if _, ok := st.cl.stubs[s]; ok {
				ps = append(ps, st.cl.producerJSON(s))
			}
		}
		st.mu.Unlock()
		reply(map[string]interface{}{"producers": ps})
	case "/info":
		st.mu.Lock()
		claimed := st.addr
		if a, ok := st.cl.bySym[st.reports]; ok && st.reports != "" {
			claimed = a
		}
		st.mu.Unlock()
		host, port, _ := net.SplitHostPort(claimed)
		p, _ := strconv.Atoi(port)
		reply(map[string]interface{}{"version": "1.3.0", "broadcast_address": host, "hostname": st.sym,
			"http_port": p, "tcp_port": p + 10000})
	case "/stats":
		topics := []interface{}{}
		if st.hasTopic.Load() {
			name := r.URL.Query().Get("topic")
			if name == "" {
				name = "t1"
			}
			cname := r.URL.Query().Get("channel")
			if cname == "" {
				cname = "c1"
			}
			topics = append(topics, map[string]interface{}{
				"topic_name": name, "depth": 3, "backend_depth": 1, "message_count": 7, "paused": false,
				"e2e_processing_latency": e2e,
				"channels": []interface{}{map[string]interface{}{
					"channel_name": cname, "depth": 2, "backend_depth": 0, "message_count": 5,
					"clients": []interface{}{}, "e2e_processing_latency": e2e}},
			})
		}
		reply(map[string]interface{}{"version": "1.3.0", "health": "OK", "topics": topics})
	default:
		w.WriteHeader(404)
		io.WriteString(w, `{"message":"NOT_FOUND"}`)
	}
}

func vfE7NewCluster(nl, nn int) *vfE7Cluster {
	c := &vfE7Cluster{log: &vfE7Log{}, stubs: map[string]*vfE7Stub{}, bySym: map[string]string{"X0": vfE7Dead},
		byAddr: map[string]string{vfE7Dead: "X0"}}
	mk := func(sym string, isL bool) {
		st := &vfE7Stub{sym: sym, isLookupd: isL, cl: c}
		st.up.Store(true)
		st.hasTopic.Store(true)
		st.srv = vfHTTPServer(st)
		st.addr = strings.TrimPrefix(st.srv.URL, "http://")
		c.stubs[sym] = st
		c.bySym[sym] = st.addr
		c.byAddr[st.addr] = sym
	}
	for i := 0; i < nl; i++ {
		mk(fmt.Sprintf("L%d", i), true)
	}
	for i := 0; i < nn; i++ {
		mk(fmt.Sprintf("N%d", i), false)
	}
	return c
}

func (c *vfE7Cluster) close() {
	for _, s := range c.stubs {
		s.srv.Close()
	}
}

type vfE7Writer struct {
	ops, impl *bufio.Writer
	fo, fi    *os.File
	n         int
}

func vfE7Open(name string) *vfE7Writer {
	dir := os.Getenv("VERIF_OUT")
	if dir == "" {
		dir = os.TempDir()
	}
	fo, err := os.Create(filepath.Join(dir, name+".ops"))
	if err != nil {
		panic(err)
	}
	fi, err := os.Create(filepath.Join(dir, name+".impl"))
	if err != nil {
		panic(err)
	}
	return &vfE7Writer{ops: bufio.NewWriter(fo), impl: bufio.NewWriter(fi), fo: fo, fi: fi}
}
func (w *vfE7Writer) Case(op, impl string) {
	fmt.Fprintln(w.ops, op)
	fmt.Fprintln(w.impl, impl)
	w.ops.Flush()
	w.impl.Flush()
	w.n++
}
func (w *vfE7Writer) Close() { w.fo.Close(); w.fi.Close() }

func vfE7Hex(s string) string {
	if s == "" {
		return "-"
	}
	return hex.EncodeToString([]byte(s))
}
func vfE7HexList(xs []string) string {
	if len(xs) == 0 {
		return "-"
	}
	o := make([]string, len(xs))
	for i, x := range xs {
		o[i] = vfE7Hex(x)
		if o[i] == "-" {
			o[i] = "" // an empty element inside a list
		}
	}
	return strings.Join(o, ",")
}

// vfE7World describes the stubs for one case.
type vfE7World struct {
	lookupds []string            // configured lookupd symbols ([] = nsqd mode)
	nsqds    []string            // configured nsqd symbols in nsqd mode
	down     map[string]bool     // symbols that fail every request
	noTopic  map[string]bool     // nsqd symbols whose /stats has no topic
	prods    map[string][]string // lookupd symbol → producer symbols
	postFail map[string]int      // symbols that answer GETs but fail every POST: 404 (1) or 500 (2)
	reports  map[string]string   // nsqd symbol → symbol whose address its /info claims (absent = its own)
}

func (c *vfE7Cluster) apply(w vfE7World) {
	for sym, st := range c.stubs {
		st.up.Store(!w.down[sym])
		st.postFail.Store(int32(w.postFail[sym]))
		st.hasTopic.Store(!w.noTopic[sym])
		st.mu.Lock()
		st.producers = w.prods[sym]
		st.reports = w.reports[sym]
		st.mu.Unlock()
	}
}

func (c *vfE7Cluster) worldFields(w vfE7World) string {
	b := func(x bool) string {
		if x {
			return "1"
		}
		return "0"
	}
	var lk, nd, na []string
	for _, l := range w.lookupds {
		p := "-"
		if len(w.prods[l]) > 0 {
			p = strings.Join(w.prods[l], "+")
		}
		lk = append(lk, fmt.Sprintf("%s:%s:%s:%s", l, b(!w.down[l]), p, b(!w.down[l] && w.postFail[l] == 0)))
	}
	if len(w.lookupds) == 0 {
		na = w.nsqds
	}
	var all []string
	for sym, st := range c.stubs {
		if !st.isLookupd {
			all = append(all, sym)
		}
	}
	sort.Strings(all)
	for _, n := range all {
		rep := n
		if r, ok := w.reports[n]; ok && r != "" {
			rep = r
		}
		nd = append(nd, fmt.Sprintf("%s:%s:%s:%s:%s", n, b(!w.down[n]), b(!w.noTopic[n]), b(!w.down[n] && w.postFail[n] == 0), rep))
	}
	j := func(xs []string) string {
		if len(xs) == 0 {
			return "-"
		}
		return strings.Join(xs, ",")
	}
	return "lk=" + j(lk) + " na=" + j(na) + " nd=" + j(nd)
}

type vfE7Case struct {
	method   string
	segs     []string // path segments, symbolic (node = N0 …)
	users    []string
	acl      string
	sendHdrs [][2]string // raw header name, value (as put on the wire / into the map)
	direct   bool        // call ServeHTTP directly (no wire): headers and RemoteAddr are exactly as given
	remote   string
	cidr     string
	notify   bool
	body     string
	query    string // raw query string appended to the path (ignored by the model)
	world    vfE7World
}

type vfE7Env struct {
	t      *testing.T
	cl     *vfE7Cluster
	n      *NSQAdmin
	hs     *httpServer
	ts     *httptest.Server
	base   Options
	gotHdr http.Header
	out    *vfE7Writer
	hist   map[string]int
}

func vfE7Setup(t *testing.T, name string) *vfE7Env {
	e := &vfE7Env{t: t, cl: vfE7NewCluster(2, 3), hist: map[string]int{}}
	opts := NewOptions()
	opts.HTTPAddress = vfLoopAddr()
	opts.NSQLookupdHTTPAddresses = []string{e.cl.bySym["L0"]}
	opts.Logger = vfE7NullLogger{}
	opts.LogLevel = lg.FATAL
	opts.HTTPClientConnectTimeout = 2 * time.Second
	opts.HTTPClientRequestTimeout = 5 * time.Second
	n, err := New(opts)
	if err != nil {
		t.Fatal(err)
	}
	e.n = n
	e.base = *opts
	e.hs = NewHTTPServer(n)
	e.ts = vfHTTPServer(http.HandlerFunc(func(w http.ResponseWriter, r *http.Request) {
		e.gotHdr = r.Header.Clone()
		e.hs.ServeHTTP(w, r)
	}))
	e.out = vfE7Open(name)
	return e
}

func (e *vfE7Env) close() {
	e.out.Close()
	e.ts.Close()
	e.n.httpListener.Close()
	e.cl.close()
}

type vfE7NullLogger struct{}

func (vfE7NullLogger) Output(int, string) error { return nil }

var vfE7StdHeaders = map[string]bool{"Accept-Encoding": true, "User-Agent": true, "Content-Length": true,
	"Content-Type": true, "Host": true, "Connection": true}

// run executes one case on the real server and writes the op / impl lines.
var vfE7PrePutN, vfE7PrePutDone int

func (e *vfE7Env) run(c vfE7Case) (status int, reqs []string) {
	e.cl.apply(c.world)
	opts := e.base
	opts.AdminUsers = c.users
	opts.ACLHTTPHeader = c.acl
	opts.AllowConfigFromCIDR = c.cidr
	opts.NSQLookupdHTTPAddresses = nil
	opts.NSQDHTTPAddresses = nil
	for _, l := range c.world.lookupds {
		opts.NSQLookupdHTTPAddresses = append(opts.NSQLookupdHTTPAddresses, e.cl.bySym[l])
	}
	for _, n := range c.world.nsqds {
		if len(c.world.lookupds) == 0 {
			opts.NSQDHTTPAddresses = append(opts.NSQDHTTPAddresses, e.cl.bySym[n])
		}
	}
	if c.notify {
		opts.NotificationHTTPEndpoint = "http://" + vfE7Dead + "/notify"
	} else {
		opts.NotificationHTTPEndpoint = ""
	}
	optsPtr := &opts
	e.n.swapOpts(optsPtr)
	// every third state-changing case with a configured admin list is preceded by a successful
	// PUT /config/log_level from an allowed address (seed C17-m10: the option set swapped in by doConfig must keep
	// the admin list). The op line is unchanged: a log-level update must not change any admin decision.
	if c.method != "GET" && len(c.segs) > 0 && c.segs[0] != "config" && len(c.users) > 0 {
		vfE7PrePutN++
		if vfE7PrePutN%3 == 0 {
			o := *e.n.getOpts()
			o.AllowConfigFromCIDR = "127.0.0.1/8"
			e.n.swapOpts(&o)
			preq := httptest.NewRequest("PUT", "/config/log_level", strings.NewReader("debug"))
			preq.RemoteAddr = "127.0.0.1:7"
			prec := httptest.NewRecorder()
			e.hs.ServeHTTP(prec, preq)
			if prec.Code != 200 {
				fmt.Printf("E7-PREPUT-BAD PUT /config/log_level from 127.0.0.1:7 inside 127.0.0.1/8 answered %d\n", prec.Code)
			}
			o2 := *e.n.getOpts() // whatever doConfig swapped in, with the case's own CIDR back
			o2.AllowConfigFromCIDR = c.cidr
			o2.LogLevel = opts.LogLevel
			optsPtr = &o2
			e.n.swapOpts(optsPtr)
			vfE7PrePutDone++
		}
	}
	e.cl.log.take()

	// real path: symbols → addresses, segments escaped
	var real []string
	for _, s := range c.segs {
		if a, ok := e.cl.bySym[s]; ok {
			s = a
		}
		real = append(real, url.PathEscape(s))
	}
	path := "/" + strings.Join(real, "/")
	if c.query != "" {
		path += "?" + c.query
	}
	var rd io.Reader
	if c.body != "" {
		rd = strings.NewReader(c.body)
	}
	var received http.Header
	pageFlag := ""
	if c.direct {
		req := httptest.NewRequest(c.method, path, rd)
		req.RemoteAddr = c.remote
		for _, h := range c.sendHdrs {
			req.Header[h[0]] = append(req.Header[h[0]], h[1])
		}
		received = req.Header.Clone()
		rec := httptest.NewRecorder()
		e.hs.ServeHTTP(rec, req)
		status = rec.Code
	} else {
		req, err := http.NewRequest(c.method, e.ts.URL+path, rd)
		if err != nil {
			e.t.Fatal(err)
		}
		for _, h := range c.sendHdrs {
			req.Header[h[0]] = append(req.Header[h[0]], h[1])
		}
		e.gotHdr = nil
		resp, err := http.DefaultClient.Do(req)
		if err != nil {
			e.t.Fatalf("request %s %s: %v", c.method, path, err)
		}
		page, _ := io.ReadAll(io.LimitReader(resp.Body, 1<<20))
		io.Copy(io.Discard, resp.Body)
		resp.Body.Close()
		status = resp.StatusCode
		received = e.gotHdr
		// the index page tells the browser whether to show the admin controls: `var IS_ADMIN = {{.IsAdmin}};`
		if c.method == "GET" && status == 200 && strings.HasPrefix(resp.Header.Get("Content-Type"), "text/html") {
			if i := strings.Index(string(page), "var IS_ADMIN = "); i >= 0 {
				rest := string(page)[i+len("var IS_ADMIN = "):]
				if j := strings.Index(rest, ";"); j >= 0 {
					pageFlag = "isadmin=" + strings.TrimSpace(rest[:j])
				}
			}
		}
	}
	reqs = e.cl.log.take()
	// notifications: the handler starts `go func() { notifications <- a }()` before it answers
	var notes []string
	if c.notify || c.method != "GET" {
		// the goroutines exist before the handler returns: count them in a stack dump (no sleeping)
		k := vfE7PendingNotifies(e.t)
		for i := 0; i < k; i++ {
			select {
			case a := <-e.n.notifications:
				notes = append(notes, a.Action)
				if bad := vfE7NotifyContent(e, c, path, a); bad != "" {
					fmt.Printf("E7-NOTIFY-BAD %s %s /%s body=%q: %s\n", c.method, a.Action, strings.Join(c.segs, "/"), c.body, bad)
				}
			case <-time.After(10 * time.Second):
				e.t.Fatalf("pending notification goroutine never delivered")
			}
		}
		sort.Strings(notes)
	}
	cfgw := "0"
	if e.n.getOpts() != optsPtr {
		cfgw = "1"
	}

	// ---- facts the model takes as inputs (outcomes of stdlib / pure helpers)
	var others, lfail []string
	var bodyOK = true
	var action, btopic, bchan string
	isConfig := len(c.segs) == 2 && c.segs[0] == "config"
	innet := true
	if isConfig {
		if c.cidr != "" {
			_, ipnet, _ := net.ParseCIDR(c.cidr)
			addr, _, err := net.SplitHostPort(c.remoteOr())
			if err != nil {
				lfail = append(lfail, "net.SplitHostPort")
			} else if ip := net.ParseIP(addr); ip == nil {
				others = append(others, "ip == nil")
			} else {
				innet = ipnet.Contains(ip)
			}
		}
		if c.method == "PUT" {
			if len(c.body) == 0 {
				others = append(others, "len(body) == 0")
			}
			if len(c.body) >= 1024*1024+1 {
				others = append(others, "int64(len(body)) == readMax")
			}
			var x []string
			if json.Unmarshal([]byte(c.body), &x) != nil {
				lfail = append(lfail, "json.Unmarshal")
			}
			if _, err := lg.ParseLogLevel(c.body); err != nil {
				lfail = append(lfail, "lg.ParseLogLevel")
			}
		}
		if _, ok := getOptByCfgName(&opts, c.segs[1]); !ok {
			others = append(others, `!ok:getOptByCfgName(s.nsqadmin.getOpts(), ps.ByName("opt"))`)
		}
	} else if c.method != "GET" {
		var b struct {
			Action  string `json:"action"`
			Topic   string `json:"topic"`
			Channel string `json:"channel"`
		}
		if err := json.NewDecoder(strings.NewReader(c.body)).Decode(&b); err != nil {
			bodyOK = false
		}
		action, btopic, bchan = b.Action, b.Topic, b.Channel
		if !protocol.IsValidTopicName(b.Topic) {
			others = append(others, "!protocol.IsValidTopicName(body.Topic)")
		}
		if !protocol.IsValidChannelName(b.Channel) {
			others = append(others, "!protocol.IsValidChannelName(body.Channel)")
		}
	} else {
		// GET views: which local calls fail / opaque tests hold for this request
		if len(c.segs) == 2 && (c.segs[0] == "static" || c.segs[0] == "fonts") {
			if _, err := staticAsset(c.segs[1]); err != nil {
				lfail = append(lfail, "staticAsset")
			}
		}
		if len(c.segs) == 2 && c.segs[0] == "api" && c.segs[1] == "graphite" {
			lfail = append(lfail, "reqParams.Get")
		}
		if len(c.segs) == 3 && c.segs[0] == "api" && c.segs[1] == "nodes" {
			if _, ok := e.cl.stubs[c.segs[2]]; !ok {
				others = append(others, "producer == nil")
			}
		}
	}
	var hdrs []string
	var names []string
	for k := range received {
		if !vfE7StdHeaders[k] {
			names = append(names, k)
		}
	}
	sort.Strings(names)
	for _, k := range names {
		// Header.Get sees only the first value
		hdrs = append(hdrs, vfE7Hex(k)+":"+strings.Replace(vfE7Hex(received[k][0]), "-", "", 1))
	}
	b := func(x bool) string {
		if x {
			return "1"
		}
		return "0"
	}
	cidrSet := c.cidr != ""
	hl := "-"
	if len(hdrs) > 0 {
		hl = strings.Join(hdrs, ",")
	}
	op := fmt.Sprintf("gate m=%s p=%s users=%s acl=%s hdrs=%s cidr=%s innet=%s notify=%s body=%s action=%s btopic=%s bchan=%s other=%s lfail=%s %s",
		c.method, vfE7HexList(c.segs), vfE7HexList(c.users), vfE7Hex(c.acl), hl, b(cidrSet), b(innet), b(c.notify),
		b(bodyOK), vfE7Hex(action), vfE7Hex(btopic), vfE7Hex(bchan), vfE7HexList(others), vfE7HexList(lfail),
		e.cl.worldFields(c.world))
	if c.query != "" {
		op += " xq=" + vfE7Hex(c.query)
	}
	if c.method != "GET" && !isConfig && len(c.body) <= 512 {
		// the literal request body, for the oracle's own reading of "well-formed request" (ignored by the model)
		op += " xbody=" + vfE7Hex(c.body)
	}
	if isConfig {
		// the literal inputs of the CIDR gate, for the independent check of the `innet` fact (ignored by the model)
		op += fmt.Sprintf(" xcidr=%s xremote=%s", vfE7Hex(c.cidr), vfE7Hex(c.remoteOr()))
	}
	rs := "-"
	if c.method == "GET" && !isConfig {
		if len(reqs) > 0 {
			rs = "*"
		}
		// a read-only route must send nothing but GETs: any other upstream request is shown in full
		var posts []string
		for _, r := range reqs {
			if !strings.HasPrefix(r, "G:") {
				posts = append(posts, r)
			}
		}
		if len(posts) > 0 {
			rs = "*|" + strings.Join(posts, "|")
		}
		if pageFlag != "" && rs == "-" {
			rs = pageFlag
		}
	} else if len(reqs) > 0 {
		rs = strings.Join(reqs, "|")
	}
	ns := "-"
	if len(notes) > 0 {
		ns = strings.Join(notes, ",")
	}
	e.out.Case(op, fmt.Sprintf("%d %s %s %s", status, rs, ns, cfgw))
	e.hist[fmt.Sprintf("%s:%d", c.method, status)]++
	return status, reqs
}

// vfE7PendingNotifies: the number of `go func() { notifications <- a }()` goroutines that wait to hand over their
// action. A goroutine that has just handed over the action of the previous case, or that has not reached its
// send yet, is neither: wait until every such goroutine is parked in its send (no verdict depends on the wait).
func vfE7PendingNotifies(t *testing.T) int {
	buf := make([]byte, 4<<20)
	for i := 0; ; i++ {
		dump := string(buf[:runtime.Stack(buf, true)])
		blocked, other := 0, 0
		for _, g := range strings.Split(dump, "\n\n") {
			if !strings.Contains(g, "notifyAdminAction.func") {
				continue
			}
			head := g
			if j := strings.Index(g, "\n"); j >= 0 {
				head = g[:j]
			}
			if strings.Contains(head, "[chan send") {
				blocked++
			} else {
				other++
			}
		}
		if other == 0 {
			return blocked
		}
		if i > 200000 {
			t.Fatalf("notification goroutines never settle:\n%s", dump)
		}
		runtime.Gosched()
		if i > 100 {
			time.Sleep(50 * time.Microsecond)
		}
	}
}

// vfE7NotifyContent: direct oracle on the content of one notification — it names the topic / channel / node the
// request was about, the request URL, and no user unless basic auth was sent.
func vfE7NotifyContent(e *vfE7Env, c vfE7Case, path string, a *AdminAction) string {
	var b struct {
		Topic   string `json:"topic"`
		Channel string `json:"channel"`
	}
	json.NewDecoder(strings.NewReader(c.body)).Decode(&b)
	real := func(s string) string {
		if x, ok := e.cl.bySym[s]; ok {
			return x
		}
		return s
	}
	wantTopic, wantChan, wantNode := "", "", ""
	switch {
	case len(c.segs) == 2: // POST /api/topics
		wantTopic = b.Topic
		if a.Action == "create_channel" {
			wantChan = b.Channel
		}
	case len(c.segs) >= 3 && c.segs[1] == "nodes":
		wantTopic, wantNode = b.Topic, real(c.segs[2])
	case len(c.segs) >= 3:
		wantTopic = c.segs[2]
		if strings.HasSuffix(a.Action, "_channel") && len(c.segs) == 4 {
			wantChan = c.segs[3]
		}
	}
	if a.Topic != wantTopic || a.Channel != wantChan || a.Node != wantNode {
		return fmt.Sprintf("notification names topic=%q channel=%q node=%q, the request was about topic=%q channel=%q node=%q",
			a.Topic, a.Channel, a.Node, wantTopic, wantChan, wantNode)
	}
	wantUser := ""
	hr := &http.Request{Header: http.Header{}}
	for _, h := range c.sendHdrs {
		hr.Header.Add(h[0], h[1])
	}
	if u, _, ok := hr.BasicAuth(); ok {
		wantUser = u
	}
	if a.User != wantUser {
		return fmt.Sprintf("notification carries user %q, the request's basic-auth user is %q", a.User, wantUser)
	}
	// the same path, whichever of the equivalent escapings the two sides chose
	wantPath, _ := url.PathUnescape(strings.SplitN(path, "?", 2)[0])
	if u, err := url.Parse(a.URL); err != nil || u.EscapedPath() != strings.SplitN(path, "?", 2)[0] && u.Path != wantPath {
		return fmt.Sprintf("notification URL %q is not the request path %q", a.URL, path)
	}
	return ""
}

func (c vfE7Case) remoteOr() string {
	if c.direct {
		return c.remote
	}
	return "127.0.0.1:1234"
}

func vfE7Routes(t *testing.T) [][3]string {
	raw, err := os.ReadFile(os.Getenv("VERIF_ROUTES"))
	if err != nil {
		t.Fatalf("VERIF_ROUTES: %v", err)
	}
	var out [][3]string
	for _, r := range strings.Split(strings.TrimSpace(string(raw)), ";") {
		f := strings.Fields(r)
		if len(f) == 3 {
			out = append(out, [3]string{f[0], f[1], f[2]})
		}
	}
	return out
}

// instantiate a route pattern with concrete parameters
func vfE7Instantiate(pattern string, topic, channel, node, asset, opt string) []string {
	var segs []string
	for _, s := range strings.Split(pattern, "/") {
		switch s {
		case "":
			continue
		case ":topic":
			s = topic
		case ":channel":
			s = channel
		case ":node":
			s = node
		case ":asset":
			s = asset
		case ":opt":
			s = opt
		default:
			if strings.HasPrefix(s, ":") {
				s = "x"
			}
		}
		segs = append(segs, s)
	}
	return segs
}

func vfE7BodyFor(method string, segs []string, variant int) string {
	if method == "GET" {
		return ""
	}
	if len(segs) >= 1 && segs[0] == "config" {
		return "info"
	}
	if method == "DELETE" {
		if len(segs) == 3 && segs[1] == "nodes" {
			return `{"topic":"t1"}`
		}
		return ""
	}
	if len(segs) == 2 { // POST /api/topics
		if variant%2 == 0 {
			return `{"topic":"t1","channel":"c1"}`
		}
		return `{"topic":"t2"}`
	}
	return fmt.Sprintf(`{"action":"%s"}`, []string{"pause", "unpause", "empty"}[variant%3])
}

var vfE7AllUp = vfE7World{lookupds: []string{"L0", "L1"}, prods: map[string][]string{"L0": {"N0", "N1"}, "L1": {"N1", "N2"}}}

// TestVerifE7Identity: the full product route × identity × admin list × ACL header name.
func TestVerifE7Identity(t *testing.T) {
	e := vfE7Setup(t, "gate_identity")
	defer e.close()
	rng := vfNewRand(0xE701)
	routes := vfE7Routes(t)
	adminLists := [][]string{{}, {"alice"}, {"alice", "bob"}}
	acls := []string{"X-Forwarded-User", "x-forwarded-user", "X-Custom-Acl"}
	type ident struct {
		name string
		hdrs func(acl string) [][2]string
	}
	one := func(v string) func(string) [][2]string {
		return func(acl string) [][2]string { return [][2]string{{acl, v}} }
	}
	idents := []ident{
		{"absent", func(string) [][2]string { return nil }},
		{"empty", one("")},
		{"nonadmin", one("mallory")},
		{"admin", one("alice")},
		{"admin2", one("bob")},
		{"case", one("Alice")},
		{"upper", one("ALICE")},
		{"prefix", one("alic")},
		{"suffix", one("alicee")},
		{"inner-space", one("ali ce")},
		{"list", one("alice,bob")},
		{"lowercase-name", func(acl string) [][2]string { return [][2]string{{strings.ToLower(acl), "alice"}} }},
		{"other-header", func(acl string) [][2]string { return [][2]string{{"X-Other-User", "alice"}} }},
		{"two-values-bad-first", func(acl string) [][2]string { return [][2]string{{acl, "mallory"}, {acl, "alice"}} }},
		{"two-values-good-first", func(acl string) [][2]string { return [][2]string{{acl, "alice"}, {acl, "mallory"}} }},
		{"wire-space", one(" alice ")}, // net/http trims optional whitespace around a field value
	}
	few := map[string]bool{"absent": true, "nonadmin": true, "admin": true, "case": true}
	variant := 0
	for _, r := range routes {
		if strings.HasPrefix(r[2], "expr:") {
			continue // registered only with --proxy-graphite
		}
		mutating := r[0] != "GET"
		for _, users := range adminLists {
			for _, acl := range acls {
				for _, id := range idents {
					if !mutating && !few[id.name] {
						continue
					}
					variant++
					node := []string{"N0", "N1", "X0"}[rng.Intn(3)]
					segs := vfE7Instantiate(r[1], "t1", []string{"c1", "c#ephemeral"}[rng.Intn(2)], node,
						[]string{"base.css", "nope.css"}[rng.Intn(2)], []string{"log_level", "bogus"}[rng.Intn(2)])
					e.run(vfE7Case{method: r[0], segs: segs, users: users, acl: acl, sendHdrs: id.hdrs(acl),
						cidr: "127.0.0.1/8", body: vfE7BodyFor(r[0], segs, variant), world: vfE7AllUp})
				}
			}
		}
	}
	// the admin's name offered through any channel other than the configured ACL header must not count:
	// every state-changing route x admin list x ACL header name x smuggling channel (ACL header absent or empty)
	basic := func(u string) string { return "Basic " + base64.StdEncoding.EncodeToString([]byte(u+":x")) }
	type smuggle struct {
		name  string
		hdrs  func(acl string) [][2]string
		query string
	}
	smuggles := []smuggle{
		{"basic-auth", func(string) [][2]string { return [][2]string{{"Authorization", basic("alice")}} }, ""},
		{"basic-auth-empty-acl", func(acl string) [][2]string { return [][2]string{{acl, ""}, {"Authorization", basic("alice")}} }, ""},
		{"basic-auth-second-admin", func(string) [][2]string { return [][2]string{{"Authorization", basic("bob")}} }, ""},
		{"basic-auth-nonadmin-acl", func(acl string) [][2]string { return [][2]string{{acl, "mallory"}, {"Authorization", basic("alice")}} }, ""},
		{"bearer", func(string) [][2]string { return [][2]string{{"Authorization", "Bearer alice"}} }, ""},
		{"basic-no-password", func(string) [][2]string {
			return [][2]string{{"Authorization", "Basic " + base64.StdEncoding.EncodeToString([]byte("alice"))}}
		}, ""},
		{"default-header-when-custom", func(acl string) [][2]string {
			if strings.EqualFold(acl, "X-Forwarded-User") {
				return [][2]string{{"X-Custom-Acl", "alice"}}
			}
			return [][2]string{{"X-Forwarded-User", "alice"}}
		}, ""},
		{"proxy-headers", func(string) [][2]string {
			return [][2]string{{"X-Remote-User", "alice"}, {"Remote-User", "alice"}, {"X-Authenticated-User", "alice"}, {"From", "alice"}, {"X-User", "alice"}}
		}, ""},
		{"cookie", func(acl string) [][2]string {
			return [][2]string{{"Cookie", "user=alice; " + acl + "=alice; admin=alice"}}
		}, ""},
		{"query", func(string) [][2]string { return nil }, "user=alice&admin=alice&X-Forwarded-User=alice&x-forwarded-user=alice&X-Custom-Acl=alice"},
		{"query-empty-acl", func(acl string) [][2]string { return [][2]string{{acl, ""}} }, "user=alice"},
		{"name-prefix", func(acl string) [][2]string { return [][2]string{{"X-" + acl, "alice"}, {"Proxy-" + acl, "alice"}} }, ""},
		{"name-suffix", func(acl string) [][2]string { return [][2]string{{acl + "-Extra", "alice"}, {acl + "s", "alice"}} }, ""},
		{"name-underscore", func(acl string) [][2]string { return [][2]string{{strings.ReplaceAll(acl, "-", "_"), "alice"}} }, ""},
	}
	for _, r := range routes {
		if r[0] == "GET" || strings.HasPrefix(r[2], "expr:") || strings.HasPrefix(r[1], "/config") {
			continue
		}
		for _, users := range adminLists {
			for _, acl := range acls {
				for _, sm := range smuggles {
					variant++
					segs := vfE7Instantiate(r[1], "t1", "c1", "N0", "base.css", "log_level")
					e.run(vfE7Case{method: r[0], segs: segs, users: users, acl: acl, sendHdrs: sm.hdrs(acl), query: sm.query,
						cidr: "127.0.0.1/8", body: vfE7BodyFor(r[0], segs, variant), world: vfE7AllUp})
					e.hist["smuggle:"+sm.name]++
				}
			}
		}
	}
	// exact-match look-alikes that only exist off the wire (leading / trailing whitespace, non-canonical
	// header key in the map): direct ServeHTTP
	for _, r := range routes {
		if r[0] == "GET" || strings.HasPrefix(r[2], "expr:") || strings.HasPrefix(r[1], "/config") {
			continue
		}
		for _, users := range adminLists {
			for _, hv := range [][2]string{{"X-Forwarded-User", " alice"}, {"X-Forwarded-User", "alice "},
				{"X-Forwarded-User", "alice\t"}, {"x-forwarded-user", "alice"}, {"X-Forwarded-User", "alice"}} {
				variant++
				segs := vfE7Instantiate(r[1], "t1", "c1", "N0", "base.css", "log_level")
				e.run(vfE7Case{method: r[0], segs: segs, users: users, acl: "X-Forwarded-User", sendHdrs: [][2]string{hv},
					direct: true, remote: "127.0.0.1:4000", cidr: "127.0.0.1/8", body: vfE7BodyFor(r[0], segs, variant),
					world: vfE7AllUp})
			}
		}
	}
	// route x method product (audit C34): every registered path under every method, registered or not, from an admin
	// and from somebody else; and every mutating route x identity in direct-nsqd mode
	direct3 := vfE7World{nsqds: []string{"N0", "N1", "N2"}}
	seenPath := map[string]bool{}
	for _, r := range routes {
		if strings.HasPrefix(r[2], "expr:") || seenPath[r[1]] {
			continue
		}
		seenPath[r[1]] = true
		for _, m := range []string{"GET", "POST", "PUT", "DELETE", "PATCH", "HEAD", "OPTIONS"} {
			for _, who := range []string{"mallory", "alice"} {
				variant++
				segs := vfE7Instantiate(r[1], "t1", "c1", "N0", "base.css", "log_level")
				w := vfE7AllUp
				if variant%3 == 0 {
					w = direct3
				}
				e.run(vfE7Case{method: m, segs: segs, users: []string{"alice"}, acl: "X-Forwarded-User",
					sendHdrs: [][2]string{{"X-Forwarded-User", who}}, cidr: "127.0.0.1/8", body: vfE7BodyFor(m, segs, variant), world: w})
				e.hist["product:"+m]++
			}
		}
	}
	for _, r := range routes {
		if r[0] == "GET" || strings.HasPrefix(r[2], "expr:") || strings.HasPrefix(r[1], "/config") {
			continue
		}
		for _, users := range adminLists {
			for _, id := range idents {
				variant++
				segs := vfE7Instantiate(r[1], "t1", "c1", []string{"N0", "N1", "X0"}[rng.Intn(3)], "base.css", "log_level")
				e.run(vfE7Case{method: r[0], segs: segs, users: users, acl: "X-Forwarded-User", sendHdrs: id.hdrs("X-Forwarded-User"),
					cidr: "127.0.0.1/8", body: vfE7BodyFor(r[0], segs, variant), world: direct3, notify: variant%2 == 0})
				e.hist["direct-mode-identity"]++
			}
		}
	}
	// ACL header names that are not RFC 7230 tokens (a space, a non-ASCII letter): CanonicalMIMEHeaderKey leaves them
	// alone, so only a map key spelled exactly like the option matches (audit C17). Off the wire only.
	for _, r := range routes {
		if r[0] == "GET" || strings.HasPrefix(r[2], "expr:") || strings.HasPrefix(r[1], "/config") {
			continue
		}
		for _, acl := range []string{"x user", "x-üser", "X-Üser", ""} {
			for _, key := range []string{"x user", "X user", "X User", "x-üser", "X-üser", "X-Üser", "", "X-Forwarded-User"} {
				variant++
				segs := vfE7Instantiate(r[1], "t1", "c1", "N0", "base.css", "log_level")
				e.run(vfE7Case{method: r[0], segs: segs, users: []string{"alice"}, acl: acl, sendHdrs: [][2]string{{key, "alice"}},
					direct: true, remote: "127.0.0.1:4000", cidr: "127.0.0.1/8", body: vfE7BodyFor(r[0], segs, variant),
					world: vfE7AllUp})
				e.hist["nontoken-acl"]++
			}
		}
	}
	fmt.Printf("E7-IDENTITY cases=%d hist=%v preceded-by-config-put=%d\n", e.out.n, e.hist, vfE7PrePutDone)
}

// TestVerifE7Fanout: admin-allowed actions against every up/down pattern, both modes, bodies.
func TestVerifE7Fanout(t *testing.T) {
	e := vfE7Setup(t, "gate_fanout")
	defer e.close()
	rng := vfNewRand(0xE702)
	routes := vfE7Routes(t)
	prods := map[string][]string{"L0": {"N0", "N1"}, "L1": {"N1", "N2"}}
	worlds := []vfE7World{
		{lookupds: []string{"L0", "L1"}, prods: prods},
		{lookupds: []string{"L0", "L1"}, prods: prods, down: map[string]bool{"L0": true}},
		{lookupds: []string{"L0", "L1"}, prods: prods, down: map[string]bool{"L0": true, "L1": true}},
		{lookupds: []string{"L0", "L1"}, prods: prods, down: map[string]bool{"N1": true}},
		{lookupds: []string{"L0", "L1"}, prods: prods, down: map[string]bool{"N0": true, "N1": true, "N2": true}},
		{lookupds: []string{"L0", "L1"}, prods: map[string][]string{"L0": {"N0", "X0"}, "L1": {}}},
		{lookupds: []string{"L1"}, prods: map[string][]string{"L1": {"N2", "N2", "N0"}}},
		// per-METHOD behaviours: the GETs of the producer lookup are answered, the POSTed command is not
		{lookupds: []string{"L0", "L1"}, prods: prods, postFail: map[string]int{"L0": 1, "L1": 2}}, // every nsqlookupd POST fails, nsqds healthy
		{lookupds: []string{"L0", "L1"}, prods: prods, postFail: map[string]int{"L0": 2, "L1": 1}},
		{lookupds: []string{"L1"}, prods: map[string][]string{"L1": {"N0", "N2"}}, postFail: map[string]int{"L1": 1}},
		{lookupds: []string{"L0", "L1"}, prods: prods, postFail: map[string]int{"L1": 1}},
		{lookupds: []string{"L0", "L1"}, prods: prods, postFail: map[string]int{"N1": 2}},
		{lookupds: []string{"L0", "L1"}, prods: prods, postFail: map[string]int{"N0": 1, "N1": 2, "N2": 1}}, // every nsqd POST fails
		{lookupds: []string{"L0", "L1"}, prods: prods, postFail: map[string]int{"L0": 1, "L1": 1, "N0": 2, "N1": 2, "N2": 2}},
		{nsqds: []string{"N0", "N1", "N2"}, postFail: map[string]int{"N1": 1}},
		{nsqds: []string{"N0", "N1", "N2"}},
		{nsqds: []string{"N0", "N1", "N2"}, down: map[string]bool{"N1": true}},
		{nsqds: []string{"N0", "N1", "N2"}, noTopic: map[string]bool{"N0": true, "N2": true}},
		{nsqds: []string{"N0", "N1"}, down: map[string]bool{"N0": true, "N1": true}},
		{nsqds: []string{"N2"}, noTopic: map[string]bool{"N2": true}},
		// an nsqd whose /info claims somebody else's address (audit C16): the commands go *there*
		{lookupds: []string{"L0", "L1"}, prods: prods, reports: map[string]string{"N0": "N1"}},
		{lookupds: []string{"L0"}, prods: prods, reports: map[string]string{"N0": "X0", "N1": "N0"}},
		{nsqds: []string{"N0", "N1", "N2"}, reports: map[string]string{"N0": "N2"}},
		{nsqds: []string{"N0", "N1"}, reports: map[string]string{"N0": "X0", "N1": "N2"}, postFail: map[string]int{"N2": 2}},
	}
	topics := []string{"t1", "orders.v2", "a_b-c", "t#ephemeral", "a&channel=b c%+d", "ü~!*'();:@=$,?#[]"}
	chans := []string{"c1", "c#ephemeral", "x.y", "c&topic=other"}
	bodies := func(method string, segs []string) []string {
		if method == "DELETE" {
			if len(segs) == 3 && segs[1] == "nodes" {
				return []string{`{"topic":"t1"}`, `{"topic":"orders.v2"}`, `{"topic":"bad topic"}`, `{"topic":""}`, `{`, ``, `[]`}
			}
			return []string{""}
		}
		if len(segs) == 2 {
			return []string{`{"topic":"t1"}`, `{"topic":"t1","channel":"c1"}`, `{"topic":"t#ephemeral","channel":"c#ephemeral"}`,
				`{"topic":"bad topic"}`, `{"topic":"t1","channel":"bad channel"}`, `{"channel":"c1"}`, `{"topic":`, ``, `{"topic":7}`,
				`{"topic":"` + strings.Repeat("x", 65) + `"}`}
		}
		return []string{`{"action":"pause"}`, `{"action":"unpause"}`, `{"action":"empty"}`, `{"action":"delete"}`, `{"action":""}`,
			`{}`, `{"action":"Pause"}`, `not json`, ``, `{"action":"pause"} trailing`}
	}
	for _, r := range routes {
		if r[0] == "GET" || strings.HasPrefix(r[2], "expr:") || strings.HasPrefix(r[1], "/config") {
			continue
		}
		for wi, w := range worlds {
			for _, node := range []string{"N0", "N1", "X0"} {
				if !strings.Contains(r[1], ":node") && node != "N0" {
					continue
				}
				segs := vfE7Instantiate(r[1], topics[rng.Intn(len(topics))], chans[rng.Intn(len(chans))], node, "", "")
				for bi, body := range bodies(r[0], segs) {
					notify := (wi+bi)%3 == 0
					users, hdrs := []string{}, [][2]string(nil)
					switch (wi + bi) % 4 {
					case 1:
						users, hdrs = []string{"alice", "bob"}, [][2]string{{"X-Forwarded-User", "bob"}}
					case 3: // not an admin: every body, valid or not, must be refused before it is read
						users, hdrs = []string{"alice"}, [][2]string{{"X-Forwarded-User", "mallory"}}
					}
					e.run(vfE7Case{method: r[0], segs: segs, users: users, acl: "X-Forwarded-User", sendHdrs: hdrs,
						cidr: "127.0.0.1/8", notify: notify, body: body, world: w})
				}
			}
		}
	}
	fmt.Printf("E7-FANOUT cases=%d hist=%v preceded-by-config-put=%d\n", e.out.n, e.hist, vfE7PrePutDone)
}

// TestVerifE7Config: /config/:opt GET and PUT, client address × allowed CIDR (direct ServeHTTP
// so the client address is exactly the given one).
func TestVerifE7Config(t *testing.T) {
	e := vfE7Setup(t, "gate_config")
	defer e.close()
	rng := vfNewRand(0xE703)
	cidrs := []string{"", "127.0.0.1/8", "10.0.0.0/8", "192.168.1.0/24", "192.168.1.128/25", "::1/128", "0.0.0.0/0",
		"10.1.2.3/32", "fe80::/10"}
	remotes := []string{"127.0.0.1:5", "127.255.255.254:1", "128.0.0.1:9", "10.1.2.3:99", "10.1.2.4:99", "11.0.0.1:1",
		"192.168.1.7:1", "192.168.1.127:1", "192.168.1.128:1", "192.168.1.255:1", "192.168.2.1:1", "[::1]:80", "[::2]:80",
		"[fe80::1]:80", "[::ffff:10.1.2.3]:80", "garbage", "1.2.3.4", "[::1]", "999.1.1.1:80", "host.example:80", ":80", ""}
	for i := 0; i < vfEnvInt("VERIF_N", 40); i++ {
		remotes = append(remotes, fmt.Sprintf("%d.%d.%d.%d:%d", rng.Intn(256), rng.Intn(256), rng.Intn(256), rng.Intn(256), 1+rng.Intn(65000)))
	}
	type putCase struct{ opt, body string }
	puts := []putCase{{"log_level", "debug"}, {"log_level", "nonsense"}, {"log_level", ""},
		{"nsqlookupd_http_addresses", `["127.0.0.1:1"]`}, {"nsqlookupd_http_addresses", `nope`}, {"nsqlookupd_http_addresses", ``},
		{"bogus", "x"}, {"admin_users", `["eve"]`}, {"http_address", "x"}}
	gets := []string{"log_level", "nsqlookupd_http_addresses", "bogus", "admin_users", "allow_config_from_cidr", "http_address"}
	for _, cidr := range cidrs {
		for _, remote := range remotes {
			g := gets[rng.Intn(len(gets))]
			e.run(vfE7Case{method: "GET", segs: []string{"config", g}, acl: "X-Forwarded-User", direct: true,
				remote: remote, cidr: cidr, world: vfE7AllUp})
			p := puts[rng.Intn(len(puts))]
			e.run(vfE7Case{method: "PUT", segs: []string{"config", p.opt}, acl: "X-Forwarded-User", direct: true,
				remote: remote, cidr: cidr, body: p.body, world: vfE7AllUp,
				users: [][]string{{}, {"alice"}}[rng.Intn(2)]})
		}
	}
	// every PUT body once from an allowed address, and an oversized body
	for _, p := range append(puts, putCase{"log_level", strings.Repeat("a", 1024*1024+5)}) {
		e.run(vfE7Case{method: "PUT", segs: []string{"config", p.opt}, acl: "X-Forwarded-User", direct: true,
			remote: "127.0.0.1:7", cidr: "127.0.0.1/8", body: p.body, world: vfE7AllUp})
	}
	fmt.Printf("E7-CONFIG cases=%d hist=%v\n", e.out.n, e.hist)
}

// TestVerifE7NotifyEndpointDown: the notification loop (NSQAdmin.handleAdminActions) with an endpoint nobody
// listens on. Run in a subprocess: on a tree where the POST error is not handled the process dies.
// The second send returns only when the loop is back at its receive, i.e. after the first action was handled.
func TestVerifE7NotifyEndpointDown(t *testing.T) {
	opts := NewOptions()
	opts.HTTPAddress = vfLoopAddr()
	opts.NSQLookupdHTTPAddresses = []string{vfE7Dead}
	opts.NotificationHTTPEndpoint = "http://" + vfE7Dead + "/notify"
	opts.Logger = vfE7NullLogger{}
	opts.LogLevel = lg.FATAL
	opts.HTTPClientConnectTimeout = time.Second
	opts.HTTPClientRequestTimeout = time.Second
	n, err := New(opts)
	if err != nil {
		t.Fatal(err)
	}
	defer n.httpListener.Close()
	go n.handleAdminActions()
	n.notifications <- &AdminAction{Action: "empty_channel", Topic: "t1", Channel: "c1"}
	select {
	case n.notifications <- &AdminAction{Action: "pause_topic", Topic: "t1"}:
		fmt.Println("NOTIFY-OK the notification loop survived an unreachable endpoint")
	case <-time.After(20 * time.Second):
		t.Fatal("notification loop stuck")
	}
}
