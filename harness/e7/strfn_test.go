// Correspondence for the two standard-library string functions inside the C17 model (audit C17):
// `textproto.CanonicalMIMEHeaderKey` (model `AdminGate.canon`: how `req.Header.Get(ACLHTTPHeader)` finds its key)
// and `url.QueryEscape` (model `AdminFanout.esc`: the query strings of every command nsqadmin sends; the path
// parameters it escapes are not validated). One op `strfn canon|esc <hex>`, impl = hex of the real result.
package nsqadmin

import (
	"fmt"
	"net/textproto"
	"net/url"
	"testing"
	"unicode/utf8"
)

func TestVerifE7StrFns(t *testing.T) {
	out := vfE7Open("gate_strfn")
	defer out.Close()
	rng := vfNewRand(0xE75F)
	fixed := []string{"", "x-forwarded-user", "X-Forwarded-User", "X-FORWARDED-USER", "x user", "X user", "x-üser", "X-Üser",
		"x_forwarded_user", "x--a", "-x", "x-", "a", "A", "content-type", "x-1a-b2", "x!#$%&'*+.^_`|~y", "x:y", "x y-z", "x\ty",
		"x(y)", "x/y", "x@y", "x[y]", "x{y}", "x\"y", "x,y", "x;y", "x<y", "x=y", "x?y", "x\\y", "é", "x-é-y", "日本", "x\x7fy",
		"t1", "orders.v2", "a_b-c", "t#ephemeral", "a&channel=b c%+d", "ü~!*'();:@=$,?#[]", "a b", "a+b", "a%20b", "~", "a/b",
		"127.0.0.1:4151", "[::1]:4151", "\x00", "a\nb", "𝄞clef", "c&topic=other"}
	alphabets := []string{"abcXYZ-", "abc-_ .~", "aA0-!#$%&'*+.^_`|~", "aZ09 -:/?#[]@!$&'()*+,;=%", "aé日𝄞- \t"}
	n := vfEnvInt("VERIF_N", 40) * 10
	for i := 0; i < n; i++ {
		al := []rune(alphabets[rng.Intn(len(alphabets))])
		k := rng.Intn(12)
		r := make([]rune, k)
		for j := range r {
			r[j] = al[rng.Intn(len(al))]
		}
		fixed = append(fixed, string(r))
	}
	hist := map[string]int{}
	for _, s := range fixed {
		if !utf8.ValidString(s) {
			continue
		}
		c := textproto.CanonicalMIMEHeaderKey(s)
		out.Case("strfn canon "+vfE7Hex(s), vfE7Hex(c))
		if c == s {
			hist["canon:unchanged"]++
		} else {
			hist["canon:changed"]++
		}
		q := url.QueryEscape(s)
		out.Case("strfn esc "+vfE7Hex(s), vfE7Hex(q))
		if q == s {
			hist["esc:unchanged"]++
		} else {
			hist["esc:changed"]++
		}
	}
	fmt.Printf("E7-STRFN cases=%d hist=%v\n", out.n, hist)
}
