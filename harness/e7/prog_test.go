// Correspondence harness for the program-level model of the ClusterInfo actions (C17, model
// Nsq.Model.AdminProg): the ten state-changing methods of internal/clusterinfo are called directly
// (white box: `httpServer.ci`) against the recording stub cluster of gate_test.go. One op line
//
//	fan kind=<k> topic=<hex> channel=<hex> node=<sym> lk=… na=… nd=…
//
// and one impl line `none|partial|full errs=<len(pe.Errors())> <requests phase by phase>`: the requests
// are recorded in arrival order; consecutive requests with the same phase key (all GETs of a lookup;
// POSTs by target kind and path) form a phase and are sorted inside it (goroutine / producer-list order).
package nsqadmin

import (
	"fmt"
	"sort"
	"strings"
	"testing"

	"github.com/nsqio/nsq/internal/clusterinfo"
)

func (l *vfE7Log) takeOrdered() []string {
	l.mu.Lock()
	r := l.recs
	l.recs = nil
	l.mu.Unlock()
	return r
}

// vfE7ProgPhases groups an ordered request log into phases.
func vfE7ProgPhases(recs []string) string {
	key := func(r string) string {
		if strings.HasPrefix(r, "G:") {
			return "G"
		}
		rest := r[2:]
		path := rest
		if i := strings.Index(rest, "/"); i >= 0 {
			path = rest[i:]
		}
		if i := strings.Index(path, "?"); i >= 0 {
			path = path[:i]
		}
		return "P" + rest[:1] + path
	}
	var phases []string
	var cur []string
	curKey := ""
	flush := func() {
		if len(cur) > 0 {
			sort.Strings(cur)
			phases = append(phases, strings.Join(cur, "|"))
		}
		cur = nil
	}
	for _, r := range recs {
		if k := key(r); k != curKey {
			flush()
			curKey = k
		}
		cur = append(cur, r)
	}
	flush()
	if len(phases) == 0 {
		return "-"
	}
	return strings.Join(phases, ";")
}

func TestVerifE7Prog(t *testing.T) {
	e := vfE7Setup(t, "gate_prog")
	defer e.close()
	rng := vfNewRand(0xE7F0)
	prods := map[string][]string{"L0": {"N0", "N1"}, "L1": {"N1", "N2"}}
	worlds := []vfE7World{
		{lookupds: []string{"L0", "L1"}, prods: prods},
		{lookupds: []string{"L0", "L1"}, prods: prods, down: map[string]bool{"L0": true}},
		{lookupds: []string{"L0", "L1"}, prods: prods, down: map[string]bool{"L0": true, "L1": true}},
		{lookupds: []string{"L0", "L1"}, prods: prods, down: map[string]bool{"N1": true}},
		{lookupds: []string{"L0", "L1"}, prods: map[string][]string{"L0": {"N0", "X0"}, "L1": {}}},
		{lookupds: []string{"L1"}, prods: map[string][]string{"L1": {"N2", "N2", "N0"}}},
		{lookupds: []string{"L0", "L1"}, prods: prods, postFail: map[string]int{"L0": 1, "L1": 2}},
		{lookupds: []string{"L0", "L1"}, prods: prods, postFail: map[string]int{"L1": 1}},
		{lookupds: []string{"L0", "L1"}, prods: prods, postFail: map[string]int{"N0": 1, "N1": 2, "N2": 1}},
		{lookupds: []string{"L0", "L1"}, prods: prods, postFail: map[string]int{"L0": 1, "L1": 1, "N0": 2, "N1": 2, "N2": 2}},
		{lookupds: []string{"L0", "L1"}, prods: prods, down: map[string]bool{"L1": true}, postFail: map[string]int{"L0": 2, "N0": 1}},
		{nsqds: []string{"N0", "N1", "N2"}, postFail: map[string]int{"N1": 1}},
		{nsqds: []string{"N0", "N1", "N2"}},
		{nsqds: []string{"N0", "N1", "N2"}, down: map[string]bool{"N1": true}},
		{nsqds: []string{"N0", "N1", "N2"}, noTopic: map[string]bool{"N0": true, "N2": true}},
		{nsqds: []string{"N0", "N1"}, down: map[string]bool{"N0": true, "N1": true}},
		{nsqds: []string{"N2"}, noTopic: map[string]bool{"N2": true}},
		{nsqds: []string{"N1", "N0"}, down: map[string]bool{"N0": true}, postFail: map[string]int{"N1": 2}},
		// /info claims somebody else's address (audit C16)
		{lookupds: []string{"L0", "L1"}, prods: prods, reports: map[string]string{"N0": "N1", "N1": "X0"}},
		{nsqds: []string{"N0", "N1", "N2"}, reports: map[string]string{"N0": "N2"}},
		{nsqds: []string{"N0", "N1", "N2"}, reports: map[string]string{"N0": "N1", "N2": "N1"}, postFail: map[string]int{"N1": 1}},
		{nsqds: []string{"N0", "N1"}, reports: map[string]string{"N0": "X0", "N1": "X0"}},
	}
	// random worlds: every stub independently up / down / POST-failing, random producer reports
	n := vfEnvInt("VERIF_N", 40)
	syms := []string{"N0", "N1", "N2", "X0"}
	for i := 0; i < n; i++ {
		w := vfE7World{down: map[string]bool{}, noTopic: map[string]bool{}, prods: map[string][]string{}, postFail: map[string]int{},
			reports: map[string]string{}}
		if rng.Intn(3) > 0 {
			for _, l := range []string{"L0", "L1"} {
				if rng.Intn(4) > 0 {
					w.lookupds = append(w.lookupds, l)
				}
				k := rng.Intn(4)
				for j := 0; j < k; j++ {
					w.prods[l] = append(w.prods[l], syms[rng.Intn(len(syms))])
				}
			}
			if len(w.lookupds) == 0 {
				w.lookupds = []string{"L1"}
			}
		} else {
			for _, s := range []string{"N0", "N1", "N2"} {
				if rng.Intn(3) > 0 {
					w.nsqds = append(w.nsqds, s)
				}
			}
			if len(w.nsqds) == 0 {
				w.nsqds = []string{"N1"}
			}
		}
		for _, s := range []string{"L0", "L1", "N0", "N1", "N2"} {
			switch rng.Intn(6) {
			case 0:
				w.down[s] = true
			case 1:
				w.postFail[s] = 1 + rng.Intn(2)
			}
			if s[0] == 'N' && rng.Intn(5) == 0 {
				w.noTopic[s] = true
			}
			if s[0] == 'N' && rng.Intn(4) == 0 {
				w.reports[s] = syms[rng.Intn(len(syms))]
			}
		}
		worlds = append(worlds, w)
	}
	kinds := []string{"createTopic", "createChannel", "deleteTopic", "deleteChannel", "pauseTopic", "unpauseTopic", "emptyTopic",
		"pauseChannel", "unpauseChannel", "emptyChannel", "tombstone"}
	topics := []string{"t1", "orders.v2", "t#ephemeral", "a&channel=b c%+d", "ü/x?"}
	chans := []string{"c1", "c#ephemeral", "x.y", "c&d=e"}
	hist := map[string]int{}
	maxErrs := 0
	for _, w := range worlds {
		var lk, nq []string
		for _, l := range w.lookupds {
			lk = append(lk, e.cl.bySym[l])
		}
		if len(w.lookupds) == 0 {
			for _, s := range w.nsqds {
				nq = append(nq, e.cl.bySym[s])
			}
		}
		for _, kind := range kinds {
			nodes := []string{"-"}
			if kind == "tombstone" {
				nodes = []string{"N0", "N1", "X0"}
			}
			for _, node := range nodes {
				topic := topics[rng.Intn(len(topics))]
				ch := ""
				if strings.HasSuffix(kind, "Channel") {
					ch = chans[rng.Intn(len(chans))]
				}
				e.cl.apply(w)
				e.cl.log.take()
				ci := e.hs.ci
				var err error
				switch kind {
				case "createTopic", "createChannel":
					err = ci.CreateTopicChannel(topic, ch, lk)
				case "deleteTopic":
					err = ci.DeleteTopic(topic, lk, nq)
				case "deleteChannel":
					err = ci.DeleteChannel(topic, ch, lk, nq)
				case "pauseTopic":
					err = ci.PauseTopic(topic, lk, nq)
				case "unpauseTopic":
					err = ci.UnPauseTopic(topic, lk, nq)
				case "emptyTopic":
					err = ci.EmptyTopic(topic, lk, nq)
				case "pauseChannel":
					err = ci.PauseChannel(topic, ch, lk, nq)
				case "unpauseChannel":
					err = ci.UnPauseChannel(topic, ch, lk, nq)
				case "emptyChannel":
					err = ci.EmptyChannel(topic, ch, lk, nq)
				case "tombstone":
					err = ci.TombstoneNodeForTopic(topic, e.cl.bySym[node], lk)
				}
				res, nerr := "none", 0
				if err != nil {
					if pe, ok := err.(clusterinfo.PartialErr); ok {
						res, nerr = "partial", len(pe.Errors())
					} else {
						res = "full"
					}
				}
				if nerr > maxErrs {
					maxErrs = nerr
				}
				recs := e.cl.log.takeOrdered()
				op := fmt.Sprintf("fan kind=%s topic=%s channel=%s node=%s %s", kind, vfE7Hex(topic), vfE7Hex(ch), node, e.cl.worldFields(w))
				e.out.Case(op, fmt.Sprintf("%s errs=%d %s", res, nerr, vfE7ProgPhases(recs)))
				hist[kind+":"+res]++
			}
		}
	}
	fmt.Printf("E7-PROG cases=%d worlds=%d maxErrs=%d hist=%v\n", e.out.n, len(worlds), maxErrs, hist)
}
