package main

// Audit round 7, items C22 / C31 (nsq_to_nsq part), property C20.
//
// TestVerifN2NGiveUp — the tool as shipped: the real PublishHandler / TopicHandler / responder behind a REAL go-nsq
//   Consumer built as main() builds it (nsq.NewConfig(), UserAgent, MaxInFlight; AddConcurrentHandlers), fed by a
//   source stub nsqd that delivers one message with attempts 1, 5, 6, 9, while the destination stub nsqd answers every
//   PUB with E_PUB_FAILED. The property wants Requeue; what does the tool answer? (finding gives-up-after-max-attempts)
//   Every case is also a correspondence line for the model `N2N.consume` (op `a7 n2n-hist …`).
//
// TestVerifN2NHist — whole histories with SEVERAL outstanding transactions completing out of order across two gated
//   destination stubs (a PUB is recorded, then held until the test releases it with OK / E_PUB_FAILED / a dropped
//   connection): `.result i ok` with i > 0 is exercised, the implementation's set of unanswered messages is compared
//   with the model's `outstanding` bookkeeping after every history. Some transactions are never released inside the
//   history (stall): the tool never answers them itself.

import (
	"bufio"
	"encoding/binary"
	"fmt"
	"io"
	"net"
	"sort"
	"strings"
	"sync"
	"sync/atomic"
	"testing"
	"time"

	"github.com/bitly/go-hostpool"
	"github.com/bitly/timer_metrics"
	"github.com/nsqio/go-nsq"
)

func TestVerifN2NGiveUp(t *testing.T) {
	out := vfOpen("n2n_giveup")
	defer out.Close()
	*requireJSONField, *requireJSONValue = "", ""
	whitelistJSONFields = whitelistJSONFields[:0]
	for ci, attempts := range vfGiveUpAttempts("nsq_to_nsq", []uint16{1, 5, 6, 9}) {
		src := vfNewStubNsqd()
		dst := vfNewStubNsqd()
		// --- as in main()
		cCfg := nsq.NewConfig()
		pCfg := nsq.NewConfig()
		cCfg.UserAgent = "nsq_to_nsq/verif"
		cCfg.MaxInFlight = *maxInFlight
		pCfg.UserAgent = cCfg.UserAgent
		dests := []string{dst.addr}
		producers := map[string]*nsq.Producer{}
		for _, a := range dests {
			p, err := nsq.NewProducer(a, pCfg)
			if err != nil {
				t.Fatal(err)
			}
			p.SetLoggerLevel(nsq.LogLevelMax)
			producers[a] = p
		}
		publisher := &PublishHandler{addresses: dests, producers: producers, mode: ModeRoundRobin, hostPool: hostpool.New(dests),
			respChan:         make(chan *nsq.ProducerTransaction, len(dests)),
			perAddressStatus: map[string]*timer_metrics.TimerMetrics{dst.addr: timer_metrics.NewTimerMetrics(0, "")},
			timermetrics:     timer_metrics.NewTimerMetrics(0, "")}
		consumer, err := nsq.NewConsumer("t", "nsq_to_nsq", cCfg)
		if err != nil {
			t.Fatal(err)
		}
		consumer.SetLoggerLevel(nsq.LogLevelMax)
		consumer.AddConcurrentHandlers(&TopicHandler{publishHandler: publisher, destinationTopic: "dst"}, len(dests))
		for i := 0; i < len(dests); i++ {
			go publisher.responder()
		}
		if err := consumer.ConnectToNSQD(src.addr); err != nil {
			t.Fatal(err)
		}
		// ---
		for i := 0; i < 10000 && !src.Subscribed(); i++ {
			time.Sleep(2 * time.Millisecond)
		}
		if !src.Subscribed() {
			fmt.Printf("GIVEUP-ERROR the consumer did not subscribe (attempts=%d)\n", attempts)
			continue
		}
		dst.Script("err", "err", "err")
		body := []byte(fmt.Sprintf("payload-%d", attempts))
		id := fmt.Sprintf("%016d", ci+1)
		src.Deliver(id, attempts, body)
		resp := "none"
		select {
		case resp = <-src.Resp:
		case <-time.After(15 * time.Second):
		}
		pubs := dst.Since(0)
		verb := strings.Fields(resp + " -")[0]
		fmt.Printf("GIVEUP tool=nsq_to_nsq max_attempts=%d attempts=%d destination=E_PUB_FAILED requests=%d response=%s\n",
			cCfg.MaxAttempts, attempts, len(pubs), verb)
		// correspondence with N2N.consume: the observed trace of this one-message history
		var evs []string
		for _, p := range pubs {
			evs = append(evs, fmt.Sprintf("publish:0:%d:%s", ci+1, vfHex(p.Body)))
		}
		hist := fmt.Sprintf("m,%d,%d,%s,drop,0,0", attempts, ci+1, vfHex(body))
		switch {
		case verb == "FIN" && len(pubs) == 0:
			evs = append(evs, fmt.Sprintf("fin:%d", ci+1))
		case verb == "REQ" && len(pubs) == 1:
			evs = append(evs, fmt.Sprintf("rejected:0:%d", ci+1), fmt.Sprintf("req:%d", ci+1))
			hist += ";r,0,0"
		case verb == "FIN" && len(pubs) == 1:
			evs = append(evs, fmt.Sprintf("accepted:0:%d", ci+1), fmt.Sprintf("fin:%d", ci+1))
			hist += ";r,0,1"
		default:
			evs = append(evs, "unexpected:"+verb)
		}
		out.Case(fmt.Sprintf("a7 n2n-hist 1 1 0 %d %s", cCfg.MaxAttempts, hist),
			fmt.Sprintf("counter=%d out=[] %s", atomic.LoadUint64(&publisher.counter), strings.Join(evs, " ")))
		consumer.Stop()
		select {
		case <-consumer.StopChan:
		case <-time.After(15 * time.Second):
		}
		for _, p := range producers {
			p.Stop()
		}
		close(publisher.respChan)
		src.Down()
		dst.Down()
	}
	fmt.Printf("ORACLE-DONE giveup cases=4\n")
}

// ---- a gated destination nsqd: every PUB is recorded and then HELD until the test releases it

type vfE8Held struct {
	body []byte
	ans  chan string // ok | err | close
}

type vfE8Gated struct {
	mu    sync.Mutex
	ln    net.Listener
	addr  string
	conns []net.Conn
	got   chan *vfE8Held // one entry per PUB read off the wire, in arrival order
	topic string
}

func vfE8NewGated() *vfE8Gated {
	ln, err := vfListen()
	if err != nil {
		panic(err)
	}
	g := &vfE8Gated{ln: ln, addr: ln.Addr().String(), got: make(chan *vfE8Held, 256)}
	go func() {
		for {
			c, err := ln.Accept()
			if err != nil {
				return
			}
			g.mu.Lock()
			g.conns = append(g.conns, c)
			g.mu.Unlock()
			go g.serve(c)
		}
	}()
	return g
}

func (g *vfE8Gated) Close() {
	g.mu.Lock()
	defer g.mu.Unlock()
	g.ln.Close()
	for _, c := range g.conns {
		c.Close()
	}
}

// reader: parses commands, queues held PUBs; writer: answers them strictly in order (as nsqd does), each when released
func (g *vfE8Gated) serve(c net.Conn) {
	defer c.Close()
	r := bufio.NewReader(c)
	magic := make([]byte, 4)
	if _, err := io.ReadFull(r, magic); err != nil {
		return
	}
	pending := make(chan *vfE8Held, 256)
	defer close(pending)
	go func() {
		for h := range pending {
			switch <-h.ans {
			case "ok":
				vfStubFrame(c, 0, "OK")
			case "err":
				vfStubFrame(c, 1, "E_PUB_FAILED PUB failed")
			default:
				c.Close()
				for range pending {
				}
				return
			}
		}
	}()
	for {
		line, err := r.ReadString('\n')
		if err != nil {
			return
		}
		w := strings.Fields(line)
		if len(w) == 0 {
			continue
		}
		switch w[0] {
		case "IDENTIFY":
			var sz uint32
			if binary.Read(r, binary.BigEndian, &sz) != nil {
				return
			}
			if _, err := io.CopyN(io.Discard, r, int64(sz)); err != nil {
				return
			}
			vfStubFrame(c, 0, "OK")
		case "PUB":
			var sz uint32
			if binary.Read(r, binary.BigEndian, &sz) != nil {
				return
			}
			body := make([]byte, sz)
			if _, err := io.ReadFull(r, body); err != nil {
				return
			}
			h := &vfE8Held{body: body, ans: make(chan string, 1)}
			g.mu.Lock()
			g.topic = w[1]
			g.mu.Unlock()
			pending <- h
			g.got <- h
		case "NOP":
		case "CLS":
			return
		default:
			return
		}
	}
}

type vfE8Tx struct {
	addr int
	id   int
	body []byte
	held *vfE8Held
	rec  *vfN2NRec
}

func TestVerifN2NHist(t *testing.T) {
	out := vfOpen("n2n_hist")
	defer out.Close()
	r := vfNewRand(0xA722)
	n := vfEnvInt("VERIF_N", 40)
	hist := map[string]int{}
	oracleFail := 0
	fail := func(s string) {
		oracleFail++
		fmt.Printf("ORACLE-FAIL %s\n", s)
	}
	id := 0
	for h := 0; h < n && oracleFail < 3; h++ { // a broken tool fails everywhere: three failing inputs are enough
		rr := h%3 != 2
		filter := []string{"", "", "", "require", "whitelist"}[r.Intn(5)]
		*requireJSONField, *requireJSONValue = "", ""
		whitelistJSONFields = whitelistJSONFields[:0]
		switch filter {
		case "require":
			*requireJSONField = "k"
		case "whitelist":
			whitelistJSONFields = append(whitelistJSONFields, "k", "n")
		}
		filterOn := filter != ""
		const naddr = 2
		gs := []*vfE8Gated{vfE8NewGated(), vfE8NewGated()}
		addrs := []string{gs[0].addr, gs[1].addr}
		cfg := nsq.NewConfig()
		producers := map[string]*nsq.Producer{}
		perAddr := map[string]*timer_metrics.TimerMetrics{}
		for _, a := range addrs {
			p, _ := nsq.NewProducer(a, cfg)
			p.SetLoggerLevel(nsq.LogLevelMax)
			producers[a] = p
			perAddr[a] = timer_metrics.NewTimerMetrics(0, "")
		}
		ph := &PublishHandler{addresses: addrs, producers: producers, mode: ModeHostPool, hostPool: hostpool.New(addrs),
			respChan: make(chan *nsq.ProducerTransaction, naddr), perAddressStatus: perAddr,
			timermetrics: timer_metrics.NewTimerMetrics(0, "")}
		if rr {
			ph.mode = ModeRoundRobin
		}
		th := &TopicHandler{publishHandler: ph, destinationTopic: "dst"}
		for i := 0; i < naddr; i++ { // as main(): one responder per destination
			go ph.responder()
		}
		var outstanding []*vfE8Tx // publish order = the model's `outstanding`
		var evs, trace []string
		maxOut, oooDone := 0, 0
		steps := 4 + r.Intn(9)
		bad := false
		for s := 0; s < steps && !bad; s++ {
			doMsg := len(outstanding) == 0 || (len(outstanding) < 4 && r.Intn(5) < 2)
			if doMsg {
				id++
				var body []byte
				switch r.Intn(6) {
				case 0:
					body = r.Bytes(1 + r.Intn(20))
				case 1:
					body = []byte(fmt.Sprintf(`{"k":"v","n":%d,"z":[1,2]}`, r.Intn(50)))
				case 2:
					body = []byte(`{"n":1}`)
				case 3:
					body = []byte(fmt.Sprintf(" {\"k\":%d,\"pad\":\"x\"}\n", r.Intn(9)))
				default:
					body = []byte(fmt.Sprintf(`{"k":"v","i":%d}`, r.Intn(1000)))
				}
				var mid nsq.MessageID
				copy(mid[:], fmt.Sprintf("%d", id))
				m := nsq.NewMessage(mid, body)
				rec := &vfN2NRec{ch: make(chan string, 4)}
				m.Delegate = rec
				err := th.HandleMessage(m)
				// FILTER line: the configuration and the INPUT body, for the independent (python) filter oracle
				flt := func(model, impl string) {
					fmt.Printf("FILTER leg=hist id=%d filter=%s value=- body=%s model=%s impl=%s\n", id, map[bool]string{true: filter, false: "none"}[filterOn], vfHex(body), model, impl)
				}
				if err != nil || !m.IsAutoResponseDisabled() {
					// not queued: go-nsq's rule answers at once
					if err != nil {
						// the filters configured here never return an error (no required value, whitelist of decoded JSON), so an
						// error is PublishAsync's: the producer of a destination whose connection was just dropped is still
						// between StateDisconnected and StateInit. Model input asyncErr = 1: Requeue, counter advanced (rr).
						flt("pass:"+vfHex(body), "req")
						evs = append(evs, fmt.Sprintf("m,1,%d,%s,pass:%s,0,1", id, vfHex(body), vfHex(body)))
						trace = append(trace, fmt.Sprintf("req:%d", id))
						hist["msg:async-error"]++
						if m.IsAutoResponseDisabled() {
							fail(fmt.Sprintf("history %d: message %d: HandleMessage returned an error with auto-response disabled", h, id))
						}
					} else {
						flt("drop", "drop")
						evs = append(evs, fmt.Sprintf("m,1,%d,%s,drop,0,0", id, vfHex(body)))
						trace = append(trace, fmt.Sprintf("fin:%d", id))
						hist["msg:drop"]++
						if !filterOn {
							fail(fmt.Sprintf("history %d: message %d finished without being published and without a filter", h, id))
						}
					}
					continue
				}
				// queued: which destination reads it?
				var held *vfE8Held
				addr := -1
				select {
				case held = <-gs[0].got:
					addr = 0
				case held = <-gs[1].got:
					addr = 1
				case <-time.After(15 * time.Second):
					fail(fmt.Sprintf("history %d: message %d queued but no destination received a PUB", h, id))
					bad = true
					continue
				}
				flt("pass:"+vfHex(held.body), "pass:"+vfHex(held.body))
				if !filterOn && string(held.body) != string(body) {
					fail(fmt.Sprintf("history %d: message %d was modified on the way although no filter is configured", h, id))
				}
				outstanding = append(outstanding, &vfE8Tx{addr: addr, id: id, body: held.body, held: held, rec: rec})
				if len(outstanding) > maxOut {
					maxOut = len(outstanding)
				}
				evs = append(evs, fmt.Sprintf("m,1,%d,%s,pass:%s,%d,0", id, vfHex(body), vfHex(held.body), addr))
				trace = append(trace, fmt.Sprintf("publish:%d:%d:%s", addr, id, vfHex(held.body)))
				hist["msg:publish"]++
				continue
			}
			// complete one outstanding transaction: any destination's OLDEST held PUB may be answered next (answers
			// are in order per connection, as nsqd gives them) — so across destinations the order is free
			var cands []int
			seen := map[int]bool{}
			for i, tx := range outstanding {
				if !seen[tx.addr] {
					seen[tx.addr] = true
					cands = append(cands, i)
				}
			}
			i := cands[len(cands)-1-r.Intn(len(cands))/2] // prefer the later one: out of order
			if r.Intn(4) == 0 {
				i = cands[r.Intn(len(cands))]
			}
			tx := outstanding[i]
			verb := []string{"ok", "ok", "err", "ok", "err", "close"}[r.Intn(6)]
			tx.held.ans <- verb
			if i > 0 {
				oooDone++
			}
			// a dropped connection fails every transaction of that destination, oldest first
			var done []int
			if verb == "close" {
				for j, o := range outstanding {
					if o.addr == tx.addr {
						done = append(done, j)
					}
				}
			} else {
				done = []int{i}
			}
			removed := 0
			for _, j := range done {
				o := outstanding[j-removed]
				resp := ""
				select {
				case resp = <-o.rec.ch:
				case <-time.After(15 * time.Second):
					fail(fmt.Sprintf("history %d: transaction of message %d answered %s by the destination but the tool never responded", h, o.id, verb))
					bad = true
				}
				if bad {
					break
				}
				hist["result:"+verb+":"+strings.SplitN(resp, "(", 2)[0]]++
				if j-removed > 0 {
					hist["result-index>0"]++
				}
				ok := verb == "ok"
				if resp == "fin" && !ok {
					fail(fmt.Sprintf("history %d: message %d FINISHED although its destination answered %q", h, o.id, verb))
				}
				if ok && resp != "fin" {
					fail(fmt.Sprintf("history %d: message %d accepted by the destination but answered %s", h, o.id, resp))
				}
				if resp != "fin" && resp != "req(-1,true)" {
					fail("responder requeue is not Requeue(-1): " + resp)
				}
				evs = append(evs, fmt.Sprintf("r,%d,%d", j-removed, map[bool]int{true: 1, false: 0}[resp == "fin"]))
				if resp == "fin" {
					trace = append(trace, fmt.Sprintf("accepted:%d:%d", o.addr, o.id), fmt.Sprintf("fin:%d", o.id))
				} else {
					trace = append(trace, fmt.Sprintf("rejected:%d:%d", o.addr, o.id), fmt.Sprintf("req:%d", o.id))
				}
				outstanding = append(outstanding[:j-removed], outstanding[j-removed+1:]...)
				removed++
			}
			// nobody else was answered by this completion (the wrong-transaction mutation shows up here and in the trace)
			time.Sleep(200 * time.Microsecond)
			for _, o := range outstanding {
				select {
				case extra := <-o.rec.ch:
					fail(fmt.Sprintf("history %d: message %d answered (%s) although its own transaction is still held by destination %d", h, o.id, extra, o.addr))
					bad = true
				default:
				}
			}
		}
		if bad {
			hist["aborted"]++
		} else {
			// the implementation's unanswered messages, in publish order, against the model's `outstanding`
			var left []string
			for _, o := range outstanding {
				left = append(left, fmt.Sprintf("%d:%d:%s", o.addr, o.id, vfHex(o.body)))
			}
			hist[fmt.Sprintf("max-outstanding:%d", maxOut)]++
			if len(outstanding) > 0 {
				hist["stalled-at-end"]++
			}
			b2i := map[bool]int{true: 1, false: 0}
			out.Case(fmt.Sprintf("a7 n2n-hist %d %d %d 0 %s", b2i[rr], naddr, b2i[filterOn], strings.Join(evs, ";")),
				fmt.Sprintf("counter=%d out=[%s] %s", atomic.LoadUint64(&ph.counter), strings.Join(left, ","), strings.Join(trace, " ")))
		}
		for _, g := range gs {
			g.Close()
		}
		for _, p := range producers {
			p.Stop()
		}
		time.Sleep(time.Millisecond)
		_ = oooDone
	}
	keys := []string{}
	for k := range hist {
		keys = append(keys, k)
	}
	sort.Strings(keys)
	for _, k := range keys {
		fmt.Printf("HIST %s %d\n", k, hist[k])
	}
	fmt.Printf("ORACLE-DONE histories=%d messages=%d failures=%d\n", n, id, oracleFail)
}
