package main

// C20 round 6, option surface of apps/nsq_to_nsq: the real shouldPassMessage and filterMessage on generated
// JSON objects (`opt pass`, `opt wl`), the destination topic actually used by TopicHandler → PublishAsync
// (`opt topic`) and the hostpool marking of HandleMessage / responder (`opt nmark`). Direct oracles: whitelist
// output keys ⊆ whitelist ∩ input keys with values equal to the input's; one Mark per Get with the outcome.

import (
	"encoding/json"
	"fmt"
	"reflect"
	"sort"
	"strconv"
	"strings"
	"testing"
	"time"

	"github.com/bitly/go-hostpool"
	"github.com/bitly/timer_metrics"
	"github.com/nsqio/go-nsq"
)

type vfNCountPool struct {
	hostpool.HostPool
	gets  int
	marks []bool
}
type vfNCountResp struct {
	hostpool.HostPoolResponse
	p *vfNCountPool
}

func (p *vfNCountPool) Get() hostpool.HostPoolResponse {
	p.gets++
	return &vfNCountResp{p.HostPool.Get(), p}
}
func (r *vfNCountResp) Mark(err error) {
	r.p.marks = append(r.p.marks, err == nil)
	r.HostPoolResponse.Mark(err)
}

type vfNRec struct{ got chan string }

func (r *vfNRec) OnFinish(m *nsq.Message)                            { r.got <- "fin" }
func (r *vfNRec) OnRequeue(m *nsq.Message, d time.Duration, b bool) { r.got <- "req" }
func (r *vfNRec) OnTouch(m *nsq.Message)                             {}

func vfNGenValue(r *vfRand) string {
	switch r.Intn(12) {
	case 0:
		return `"v"`
	case 1:
		return `"7"`
	case 2:
		return `7`
	case 3:
		return `7.0`
	case 4:
		return `2.5`
	case 5:
		return `true`
	case 6:
		return `null`
	case 7:
		return `[1,"a",{"z":1}]`
	case 8:
		return `{"in":{"k":1},"l":[1.5]}`
	case 9:
		return fmt.Sprintf(`%d`, r.Intn(1<<20))
	case 10:
		return `1e3`
	}
	return fmt.Sprintf(`"s%d"`, r.Intn(5))
}

func TestVerifN2NOpts(t *testing.T) {
	out := vfOpen("n2n_opts")
	defer out.Close()
	r := vfNewRand(24)
	n := vfEnvInt("VERIF_N", 400)
	fails := 0
	fail := func(f string, a ...interface{}) {
		fails++
		fmt.Printf("ORACLE-FAIL "+f+"\n", a...)
	}
	hist := map[string]int{}
	keys := []string{"k", "n", "id", "ts", "x y", "K"}
	hexs := func(ss []string) string {
		if len(ss) == 0 {
			return "-"
		}
		var h []string
		for _, s := range ss {
			h = append(h, vfHex([]byte(s)))
		}
		return strings.Join(h, ",")
	}
	for i := 0; i < n; i++ {
		// a JSON object
		var fields []string
		present := map[string]string{}
		for _, k := range keys {
			if r.Intn(2) == 0 {
				v := vfNGenValue(r)
				present[k] = v
				fields = append(fields, fmt.Sprintf("%q:%s", k, v))
			}
		}
		raw := []byte("{" + strings.Join(fields, ",") + "}")
		var js map[string]interface{}
		if err := json.Unmarshal(raw, &js); err != nil {
			t.Fatal(err)
		}
		// ---- shouldPassMessage
		*requireJSONField = []string{"", "k", "k", "n", "zz"}[r.Intn(5)]
		*requireJSONValue = []string{"", "", "v", "7", "7.0", "2.5", "true", "s1"}[r.Intn(8)]
		ph := &PublishHandler{}
		pass, backoff := ph.shouldPassMessage(js)
		reqNum, perr := strconv.ParseFloat(*requireJSONValue, 64)
		isnum := perr == nil
		v := "absent"
		if val, ok := js[*requireJSONField]; ok {
			switch x := val.(type) {
			case string:
				v = "str:" + vfHex([]byte(x))
			case float64:
				if isnum && x == reqNum {
					v = "num1"
				} else {
					v = "num0"
				}
			default:
				v = "other"
			}
		}
		b2 := func(b bool) int {
			if b {
				return 1
			}
			return 0
		}
		out.Case(fmt.Sprintf("opt pass %s %s %d %s", vfHex([]byte(*requireJSONField)), vfHex([]byte(*requireJSONValue)), b2(isnum), v),
			fmt.Sprintf("pass=%d backoff=%d", b2(pass), b2(backoff)))
		hist[fmt.Sprintf("pass=%d,backoff=%d", b2(pass), b2(backoff))]++
		// ---- filterMessage
		var wl []string
		for k := r.Intn(5); k > 0; k-- {
			wl = append(wl, []string{"k", "n", "id", "zz", "x y", "k"}[r.Intn(6)])
		}
		whitelistJSONFields = wl
		outRaw, err := filterMessage(js, raw)
		if err != nil {
			fail("filterMessage error %v on %s", err, raw)
			continue
		}
		if len(wl) == 0 {
			if string(outRaw) != string(raw) {
				fail("no whitelist but body changed: %s -> %s", raw, outRaw)
			}
			hist["whitelist-off"]++
			continue
		}
		var outJS map[string]interface{}
		if err := json.Unmarshal(outRaw, &outJS); err != nil {
			fail("whitelist output is not a JSON object: %s", outRaw)
			continue
		}
		var outKeys, inKeys []string
		for k, ov := range outJS {
			outKeys = append(outKeys, k)
			inWL := false
			for _, w := range wl {
				if w == k {
					inWL = true
				}
			}
			if !inWL {
				fail("whitelist %q: output contains key %q (input %s, output %s)", wl, k, raw, outRaw)
			}
			if iv, ok := js[k]; !ok || !reflect.DeepEqual(iv, ov) {
				fail("whitelist %q: value of %q changed: input %s, output %s", wl, k, raw, outRaw)
			}
		}
		for _, w := range wl {
			if _, ok := js[w]; ok {
				if _, ok2 := outJS[w]; !ok2 {
					fail("whitelist %q: key %q present in %s but missing from %s", wl, w, raw, outRaw)
				}
			}
		}
		for k := range js {
			inKeys = append(inKeys, k)
		}
		sort.Strings(inKeys)
		var okh []string
		for _, k := range outKeys {
			okh = append(okh, vfHex([]byte(k)))
		}
		sort.Strings(okh)
		impl := "keys=-"
		if len(okh) > 0 {
			impl = "keys=" + strings.Join(okh, ",")
		}
		out.Case(fmt.Sprintf("opt wl %s %s", hexs(wl), hexs(inKeys)), impl)
		hist[fmt.Sprintf("whitelist-out-%d-keys", len(outKeys))]++
	}
	*requireJSONField, *requireJSONValue = "", ""
	whitelistJSONFields = nil
	// precision of numbers through the whitelist (open finding `whitelist-rewrites-large-integers`)
	whitelistJSONFields = []string{"id"}
	for _, id := range []string{"9007199254740993", "1234567890123456789", "9007199254740992", "42"} {
		raw := []byte(`{"id":` + id + `}`)
		var js map[string]interface{}
		json.Unmarshal(raw, &js)
		o, _ := filterMessage(js, raw)
		fmt.Printf("WL-PRECISION in=%s out=%s same=%v\n", raw, o, string(o) == string(raw))
	}
	for i := 0; i < 40; i++ { // correspondence of the number path: non-negative integers up to 2^63 - 1025
		x := r.Next() >> uint(1+r.Intn(12))
		if x > 1<<63-1025 {
			x = 1<<63 - 1025
		}
		if i%4 == 0 {
			x = 1<<53 - 2 + uint64(r.Intn(9))
		}
		raw := []byte(fmt.Sprintf(`{"id":%d}`, x))
		var js map[string]interface{}
		json.Unmarshal(raw, &js)
		o, _ := filterMessage(js, raw)
		out.Case(fmt.Sprintf("opt f64 %d", x), strings.TrimSuffix(strings.TrimPrefix(string(o), `{"id":`), "}"))
	}
	whitelistJSONFields = nil
	// ---- destination topic + hostpool marks, through TopicHandler.HandleMessage and the real responder
	for i := 0; i < n/8; i++ {
		rr := r.Intn(3) == 0
		stub := vfNewStubNsqd()
		addrs := []string{stub.addr}
		cfg := nsq.NewConfig()
		p, _ := nsq.NewProducer(stub.addr, cfg)
		p.SetLoggerLevel(nsq.LogLevelMax)
		cp := &vfNCountPool{HostPool: hostpool.New(addrs)}
		ph := &PublishHandler{addresses: addrs, producers: map[string]*nsq.Producer{stub.addr: p}, mode: ModeHostPool, hostPool: cp,
			respChan: make(chan *nsq.ProducerTransaction, 1), perAddressStatus: map[string]*timer_metrics.TimerMetrics{stub.addr: timer_metrics.NewTimerMetrics(0, "")},
			timermetrics: timer_metrics.NewTimerMetrics(0, "")}
		if rr {
			ph.mode = ModeRoundRobin
		}
		// main(): publishTopic := topic; if *destTopic != "" { publishTopic = *destTopic }
		consumed := []string{"src_a", "src_b"}[r.Intn(2)]
		dest := []string{"", "", "dst"}[r.Intn(3)]
		publishTopic := consumed
		if dest != "" {
			publishTopic = dest
		}
		th := &TopicHandler{publishHandler: ph, destinationTopic: publishTopic}
		go ph.responder()
		verb := []string{"ok", "ok", "err", "refused"}[r.Intn(4)]
		if verb == "refused" {
			stub.Down()
		} else {
			stub.Script(verb)
		}
		var mid nsq.MessageID
		copy(mid[:], fmt.Sprintf("t%d", i))
		m := nsq.NewMessage(mid, []byte(fmt.Sprintf("payload %d", i)))
		rec := &vfNRec{got: make(chan string, 4)}
		m.Delegate = rec
		herr := th.HandleMessage(m)
		asyncErr := herr != nil
		comp := "none"
		if !asyncErr {
			select {
			case g := <-rec.got:
				if g == "fin" {
					comp = "ok"
				} else {
					comp = "fail"
				}
			case <-time.After(10 * time.Second):
				fail("transaction never completed (verb %s)", verb)
			}
			time.Sleep(time.Millisecond) // responder marks before Finish/Requeue: already done
		}
		if verb == "ok" || verb == "err" {
			ps := stub.Since(0)
			if len(ps) != 1 || ps[0].Topic != publishTopic {
				fail("published to %v, want exactly one PUB to topic %q (consumed %q, --destination-topic %q)", ps, publishTopic, consumed, dest)
			}
		}
		if !rr {
			if cp.gets != 1 || len(cp.marks) != 1 {
				fail("hostpool: %d Get, %d Mark for one message (verb %s)", cp.gets, len(cp.marks), verb)
			} else if cp.marks[0] != (verb == "ok") {
				fail("hostpool: Mark(nil=%v) for destination behaviour %s", cp.marks[0], verb)
			}
		} else if cp.gets != 0 || len(cp.marks) != 0 {
			fail("round-robin touched the hostpool: %d Get, %d Mark", cp.gets, len(cp.marks))
		}
		b2 := func(b bool) int {
			if b {
				return 1
			}
			return 0
		}
		ms := "marks="
		for _, mk := range cp.marks {
			ms += fmt.Sprint(b2(mk))
		}
		out.Case(fmt.Sprintf("opt nmark %d %d %s", b2(!rr), b2(asyncErr), comp), ms)
		dh := "-"
		if dest != "" {
			dh = vfHex([]byte(dest))
		}
		if verb == "ok" || verb == "err" {
			out.Case(fmt.Sprintf("opt topic %s %s", dh, vfHex([]byte(consumed))), vfHex([]byte(stub.Since(0)[0].Topic)))
		}
		hist["nmark-"+verb]++
		close(ph.respChan)
		p.Stop()
		stub.Down()
	}
	for k, v := range hist {
		fmt.Printf("HIST %s %d\n", k, v)
	}
	fmt.Printf("ORACLE-DONE cases=%d failures=%d\n", n, fails)
}
