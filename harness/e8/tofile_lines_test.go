package main

// C19, line level (audit round 7, items C5 and C4): replays on the real FileLogger / router() with a
// line-based oracle ("every FINished message owns one whole line of some file, no line is used twice").
//
//   * probes of the two shapes the model knows (Cfg.oneWrite = fix F46, Cfg.sealsTail = fix F47) on the
//     real router() / updateFile(), like vfE8ProbeCloseClears;
//   * torn-tail append: a plain output (or work) file that ends inside a record - left by a writer that was
//     killed between Write(body) and Write("\n"), or by a short write - is re-opened with O_APPEND and the
//     next message is appended to the torn tail;
//   * kill-restart: the torn tail is produced by the real router (the process dies before the second Write
//     of a record), a second process then appends;
//   * two routers, one plain file (--filename-format without <TOPIC>): router 1 is held between its two
//     writes (a gate in its writer, no sleeping), router 2 appends a record in between.
//
// Every scenario runs in a child process (the router calls os.Exit(1) on I/O errors). Each child also emits
// the model operations of what it did (`tf conf/pre/msg/extapp/termstop/tree`), so the same run is compared
// with the Lean model (Model.ToFile with the probed shapes).

import (
	"bytes"
	"fmt"
	"io"
	"os"
	"os/exec"
	"path/filepath"
	"sort"
	"strings"
	"sync"
	"syscall"
	"testing"
	"time"

	"github.com/nsqio/go-nsq"
	"github.com/nsqio/nsq/internal/lg"
)

// ---------------------------------------------------------------- line oracle

// vfE8BodiesOwnLines: can every finished body be given a whole line ("body\n", starting at offset 0 or right after
// a "\n") of some file such that no line is given twice? Equal bodies are interchangeable, so this is a count
// per body. Returns the bodies that do not get a line.
func vfE8BodiesOwnLines(tree map[string][]byte, finished [][]byte) []string {
	have := map[string]int{}
	for _, c := range tree {
		for len(c) > 0 {
			i := bytes.IndexByte(c, '\n')
			if i < 0 {
				break // unterminated tail: not a line
			}
			have[string(c[:i])]++
			c = c[i+1:]
		}
	}
	var missing []string
	for _, b := range finished {
		if have[string(b)] > 0 {
			have[string(b)]--
		} else {
			missing = append(missing, string(b))
		}
	}
	return missing
}

// vfE8OwnRecords is the exact form of the oracle for bodies that may be empty or contain "\n": every finished body
// (in write order - the scenarios use max-in-flight 1, so FIN order = write order) must occur as `body+"\n"` at a line
// start (offset 0 or right behind a "\n") of some file, behind the record assigned to the previous one in that file
// (single appending writer: records appear in write order, so the greedy left-to-right assignment is complete).
// Returns the bodies without a record of their own.
func vfE8OwnRecords(tree map[string][]byte, finished [][]byte) []string {
	cursor := map[string]int{}
	var names []string
	for n := range tree {
		names = append(names, n)
	}
	sort.Strings(names)
	var missing []string
	for _, b := range finished {
		rec := append(append([]byte{}, b...), '\n')
		found := false
		for _, n := range names {
			c := tree[n]
			for o := cursor[n]; o+len(rec) <= len(c); o++ {
				if (o == 0 || c[o-1] == '\n') && bytes.Equal(c[o:o+len(rec)], rec) {
					cursor[n] = o + len(rec)
					found = true
					break
				}
			}
			if found {
				break
			}
		}
		if !found {
			missing = append(missing, string(b))
		}
	}
	return missing
}

func vfE8LTree(root string) map[string][]byte {
	res := map[string][]byte{}
	for _, d := range []string{"w", "o"} {
		filepath.Walk(filepath.Join(root, d), func(p string, fi os.FileInfo, err error) error {
			if err != nil || fi.IsDir() {
				return nil
			}
			raw, err := os.ReadFile(p)
			if err != nil && fi.Mode().Perm()&0o444 == 0 {
				// a write-only file (round 11): the observer (owner or root) makes it readable for the instant of the look
				if os.Chmod(p, fi.Mode().Perm()|0o400) == nil {
					raw, err = os.ReadFile(p)
					os.Chmod(p, fi.Mode().Perm())
				}
			}
			if err == nil {
				rel, _ := filepath.Rel(root, p)
				res[rel] = raw
			}
			return nil
		})
	}
	return res
}

func vfE8LTreeLine(tree map[string][]byte, full bool) string {
	var items []string
	for n, c := range tree {
		if full {
			items = append(items, n+"="+vfHex(c))
		} else {
			items = append(items, fmt.Sprintf("%s:%d", n, len(c)))
		}
	}
	sort.Strings(items)
	return strings.Join(items, ",")
}

// ---------------------------------------------------------------- probes

type vfE8LDelegate struct {
	fin chan string
}

func (d *vfE8LDelegate) OnFinish(m *nsq.Message) {
	d.fin <- strings.TrimRight(string(m.ID[:]), "\x00")
}
func (d *vfE8LDelegate) OnRequeue(m *nsq.Message, t time.Duration, b bool) { d.fin <- "REQ" }
func (d *vfE8LDelegate) OnTouch(m *nsq.Message)                            {}

type vfE8LCountWriter struct {
	w     io.Writer
	calls [][]byte
}

func (c *vfE8LCountWriter) Write(p []byte) (int, error) {
	c.calls = append(c.calls, append([]byte{}, p...))
	return c.w.Write(p)
}

func vfE8LOpts(root string) *Options {
	opts := NewOptions()
	opts.OutputDir = filepath.Join(root, "o")
	opts.WorkDir = opts.OutputDir
	opts.MaxInFlight = 1
	opts.SyncInterval = 1000 * time.Hour // the ticker never fires: nothing here depends on the clock
	opts.HostIdentifier = "h"
	opts.Channel = "c"
	return opts
}

func vfE8LLogger(opts *Options, topic string) (*FileLogger, error) {
	cfg := nsq.NewConfig()
	cfg.MaxInFlight = opts.MaxInFlight
	f, err := NewFileLogger(func(lvl lg.LogLevel, f string, args ...interface{}) {}, opts, topic, cfg)
	if err == nil {
		f.consumer.SetLoggerLevel(nsq.LogLevelError)
	}
	return f, err
}

var vfE8LProbeOnce sync.Once
var vfE8LProbeOW, vfE8LProbeSL bool

// vfE8ProbeOneWrite runs the real router() on one message with a counting writer behind f.writer: is the record
// (body + "\n") handed to Write in ONE call (fix F46, Cfg.oneWrite) or in two (tree before the fix)?
func vfE8ProbeOneWrite() bool {
	vfE8LProbeOnce.Do(vfE8LProbe)
	return vfE8LProbeOW
}

// vfE8ProbeSealsTail runs the real updateFile() on an existing plain file that ends inside a record: does it
// write a "\n" before anything is appended (fix F47, Cfg.sealsTail)?
func vfE8ProbeSealsTail() bool {
	vfE8LProbeOnce.Do(vfE8LProbe)
	return vfE8LProbeSL
}

func vfE8LProbe() {
	dir, err := os.MkdirTemp("", "vfe8lprobe")
	if err != nil {
		return
	}
	defer os.RemoveAll(dir)
	os.MkdirAll(filepath.Join(dir, "o"), 0o755)
	// --- seals tail: real updateFile() on "x" (no newline)
	{
		opts := vfE8LOpts(dir)
		opts.FilenameFormat = "seal.log"
		os.WriteFile(filepath.Join(dir, "o", "seal.log"), []byte("ab\ncd"), 0o644)
		f := &FileLogger{logf: func(lvl lg.LogLevel, f string, args ...interface{}) {}, opts: opts, topic: "t",
			filenameFormat: "seal.log"}
		f.updateFile()
		raw, _ := os.ReadFile(filepath.Join(dir, "o", "seal.log"))
		vfE8LProbeSL = string(raw) == "ab\ncd\n"
		f.Close()
	}
	// --- one write: real router() on one message
	{
		opts := vfE8LOpts(dir)
		opts.FilenameFormat = "one.log"
		f, err := vfE8LLogger(opts, "t")
		if err != nil {
			return
		}
		f.updateFile()
		cw := &vfE8LCountWriter{w: f.writer}
		f.writer = cw
		d := &vfE8LDelegate{fin: make(chan string, 4)}
		done := make(chan struct{})
		go func() { f.router(); close(done) }()
		var id nsq.MessageID
		copy(id[:], "1")
		m := nsq.NewMessage(id, []byte("probe"))
		m.Delegate = d
		f.HandleMessage(m)
		<-d.fin
		close(f.termChan)
		<-done
		vfE8LProbeOW = len(cw.calls) == 1 && string(cw.calls[0]) == "probe\n"
	}
}

// ---------------------------------------------------------------- round 11 (F47b): files the tool cannot read

// vfE8LUnreadableCmd prepares `cmd` so that the child can create files it may write but not read (mode 0222, the
// drop-box case): a non-root user cannot read its own 0222 file; root can (CAP_DAC_OVERRIDE), so as root the child runs
// as uid/gid 65534 and `dir` (where it works) is made world-writable. Returns how the fault is injected.
func vfE8LUnreadableCmd(cmd *exec.Cmd, dir string) string {
	if os.Geteuid() != 0 {
		return "chmod-0222"
	}
	// the unprivileged child must be able to reach the directory and the test binary: every parent needs o+x
	// (a work dir under /root, mode 0700, is not: the fault cannot be injected there and the probe says "unavailable")
	for _, p := range []string{dir, os.Args[0]} {
		abs, err := filepath.Abs(p)
		if err != nil {
			return "uid-switch-unavailable"
		}
		for d := filepath.Dir(abs); ; d = filepath.Dir(d) {
			st, err := os.Stat(d)
			if err != nil || st.Mode().Perm()&0o001 == 0 {
				return "uid-switch-unavailable"
			}
			if d == "/" || d == "." {
				break
			}
		}
	}
	os.Chmod(dir, 0o777)
	cmd.SysProcAttr = &syscall.SysProcAttr{Credential: &syscall.Credential{Uid: 65534, Gid: 65534}}
	return "chmod-0222+uid-65534"
}

// vfE8LMakeUnreadable: write-only for everybody; true iff this process indeed cannot open it for reading but can for appending
func vfE8LMakeUnreadable(p string) bool {
	if os.Chmod(p, 0o222) != nil {
		return false
	}
	if r, err := os.Open(p); err == nil {
		r.Close()
		return false
	}
	w, err := os.OpenFile(p, os.O_WRONLY|os.O_APPEND, 0)
	if err != nil {
		return false
	}
	w.Close()
	return true
}

var vfE8LSRWOnce sync.Once
var vfE8LSRW = -1
var vfE8LSRWHow = "?"

// vfE8ProbeSealReadWarns runs the REAL updateFile() (and through it sealTornTail) in a child process on an existing
// plain file that ends inside a record and that the child may append to but not read. 0 = the read failure is fatal
// (FATAL logged, exit 1, file untouched: committed F47, Cfg.sealReadWarns = false); 1 = a WARN is logged, updateFile()
// returns and the file is left unsealed for appending (F47b, Cfg.sealReadWarns = true); -1 = neither (or the fault could
// not be injected). Probed once per check: the result travels to the children in VF_E8_SRW.
func vfE8ProbeSealReadWarns() int {
	vfE8LSRWOnce.Do(func() {
		if v := os.Getenv("VF_E8_SRW"); v != "" {
			fmt.Sscanf(v, "%d %s", &vfE8LSRW, &vfE8LSRWHow)
			return
		}
		defer func() { os.Setenv("VF_E8_SRW", fmt.Sprintf("%d %s", vfE8LSRW, vfE8LSRWHow)) }()
		dir, err := os.MkdirTemp(os.Getenv("VERIF_OUT"), "vfe8srw")
		if err != nil {
			return
		}
		defer os.RemoveAll(dir)
		bin := os.Args[0]
		cmd := exec.Command("timeout", "-s", "KILL", "60", bin, "-test.run", "^TestVerifToFileLinesChild$", "-test.count=1", "-test.timeout=0")
		cmd.Env = append(os.Environ(), "VF_E8_LINES_CASE=probe-unreadable", "VF_E8_LINES_ROOT="+dir, "VF_E8_SRW=-1 nested")
		vfE8LSRWHow = vfE8LUnreadableCmd(cmd, dir)
		out, err := cmd.Output()
		code := 0
		if ee, ok := err.(*exec.ExitError); ok {
			code = ee.ExitCode()
		} else if err != nil {
			vfE8LSRWHow += ":start-error"
			return
		}
		txt := string(out)
		raw := vfE8LTree(dir)["o/seal.log"]
		switch {
		case !strings.Contains(txt, "PROBE unreadable=true"):
			vfE8LSRWHow += ":not-injected"
		case code == 1 && strings.Contains(txt, "PROBE log FATAL") && strings.Contains(txt, "unable to terminate the last line") && !strings.Contains(txt, "PROBE returned") && string(raw) == "ab\ncd":
			vfE8LSRW = 0
		case code == 0 && strings.Contains(txt, "PROBE log WARN") && strings.Contains(txt, "PROBE returned") && string(raw) == "ab\ncd":
			vfE8LSRW = 1
		default:
			vfE8LSRWHow += fmt.Sprintf(":unknown-shape(exit=%d,file=%q)", code, raw)
		}
	})
	return vfE8LSRW
}

// ---------------------------------------------------------------- child: one scenario

type vfE8LChild struct {
	res  *os.File
	root string
	fins []string // bodies, in FIN order
}

func (c *vfE8LChild) say(op string)  { fmt.Fprintf(c.res, "OP %s\n", op) }
func (c *vfE8LChild) ans(a string)   { fmt.Fprintf(c.res, "ANS %s\n", a) }
func (c *vfE8LChild) fin(b string)   { fmt.Fprintf(c.res, "FINBODY %s\n", vfHex([]byte(b))); c.fins = append(c.fins, b) }
func (c *vfE8LChild) note(s string)  { fmt.Fprintf(c.res, "NOTE %s\n", s) }
func (c *vfE8LChild) state(st string, fins string) string {
	return fmt.Sprintf("st=%s fin=[%s] files=%s", st, fins, vfE8LTreeLine(vfE8LTree(c.root), false))
}

func vfE8LB(x bool) int {
	if x {
		return 1
	}
	return 0
}

// conf line of the model for a scenario (gzip off, skip-empty off, max-in-flight 1)
func (c *vfE8LChild) conf(rotateSize int64, workDir bool, hasRev bool) {
	c.say(fmt.Sprintf("tf conf 0 %d 0 %d 0 1 %d %d %d %d %d", rotateSize, vfE8LB(workDir), vfE8LB(hasRev),
		vfE8LB(vfE8ProbeCloseClears()), vfE8LB(vfE8ProbeOneWrite()), vfE8LB(vfE8ProbeSealsTail()), vfE8LB(vfE8ProbeSealReadWarns() != 0)))
	c.ans("ok")
}

type vfE8LRouter struct {
	f    *FileLogger
	d    *vfE8LDelegate
	done chan struct{}
	n    int
}

func vfE8LStart(f *FileLogger) *vfE8LRouter {
	r := &vfE8LRouter{f: f, d: &vfE8LDelegate{fin: make(chan string, 16)}, done: make(chan struct{})}
	go func() { f.router(); close(r.done) }()
	return r
}

func (r *vfE8LRouter) msg(body string) *nsq.Message {
	r.n++
	var id nsq.MessageID
	copy(id[:], fmt.Sprintf("%d", r.n))
	m := nsq.NewMessage(id, []byte(body))
	m.Delegate = r.d
	return m
}

// deliver one message and wait for its FIN (max-in-flight 1: the router syncs and FINishes right away)
func (r *vfE8LRouter) deliver(body string) string {
	r.f.HandleMessage(r.msg(body))
	return <-r.d.fin
}

func (r *vfE8LRouter) stop() {
	close(r.f.termChan)
	<-r.done
}

// a writer that lets the first `pass` Write calls through and ends the process before the next one
type vfE8LKillWriter struct {
	w    io.Writer
	pass int
}

func (k *vfE8LKillWriter) Write(p []byte) (int, error) {
	if k.pass == 0 {
		os.Exit(9) // "SIGKILL" before this write(2)
	}
	k.pass--
	return k.w.Write(p)
}

// a writer that holds its caller after a Write that does not end a record (no trailing "\n")
type vfE8LGateWriter struct {
	w       io.Writer
	held    chan struct{}
	release chan struct{}
	armed   bool
}

func (g *vfE8LGateWriter) Write(p []byte) (int, error) {
	n, err := g.w.Write(p)
	if g.armed && (len(p) == 0 || p[len(p)-1] != '\n') {
		g.armed = false
		g.held <- struct{}{}
		<-g.release
	}
	return n, err
}

func TestVerifToFileLinesChild(t *testing.T) {
	name := os.Getenv("VF_E8_LINES_CASE")
	if name == "" {
		t.Skip("child only")
	}
	root := os.Getenv("VF_E8_LINES_ROOT")
	res, err := os.OpenFile(filepath.Join(root, "res_"+name+".txt"), os.O_WRONLY|os.O_CREATE|os.O_APPEND, 0o644)
	if err != nil {
		t.Fatal(err)
	}
	c := &vfE8LChild{res: res, root: root}
	if name == "probe-unreadable" {
		// round 11: the real updateFile() on an existing torn file this process may append to but not read
		os.MkdirAll(filepath.Join(root, "o"), 0o755)
		opts := vfE8LOpts(root)
		opts.FilenameFormat = "seal.log"
		p := filepath.Join(root, "o", "seal.log")
		os.WriteFile(p, []byte("ab\ncd"), 0o644)
		fmt.Printf("PROBE unreadable=%v\n", vfE8LMakeUnreadable(p))
		f := &FileLogger{logf: func(lvl lg.LogLevel, f string, args ...interface{}) {
			if lvl >= lg.WARN {
				fmt.Printf("PROBE log %s %s\n", lvl.String(), strings.Replace(fmt.Sprintf(f, args...), "\n", " ", -1))
			}
		}, opts: opts, topic: "t", filenameFormat: "seal.log"}
		f.updateFile() // committed F47: os.Exit(1) in here
		fmt.Printf("PROBE returned filesize=%d\n", f.filesize)
		os.Exit(0)
	}
	os.MkdirAll(filepath.Join(root, "w"), 0o755)
	os.MkdirAll(filepath.Join(root, "o"), 0o755)
	opts := vfE8LOpts(root)
	finish := func() {
		c.say("tf tree")
		c.ans(fmt.Sprintf("st=done tree=%s", vfE8LTreeLine(vfE8LTree(root), true)))
		fmt.Fprintf(res, "END\n")
		res.Close()
		os.Exit(0)
	}
	switch name {
	case "torn-pre", "clean-pre", "torn-pre-rotsize", "torn-pre-workdir", "torn-pre-1byte":
		pre := "rec0\nbodyA"
		if name == "clean-pre" {
			pre = "rec0\nbodyA\n"
		}
		if name == "torn-pre-1byte" {
			pre = "x"
		}
		dir, tmpl, file, hasRev := "o", "lines.log", "lines.log", false
		opts.FilenameFormat = "lines.log"
		if name == "torn-pre-rotsize" {
			opts.RotateSize = 1000
		}
		if name == "torn-pre-workdir" {
			opts.WorkDir = filepath.Join(root, "w")
			dir = "w"
		}
		if name == "torn-pre-rotsize" || name == "torn-pre-workdir" {
			opts.FilenameFormat = "lines<REV>.log"
			tmpl, file, hasRev = "lines<REV>.log", "lines-000000.log", true
		}
		os.WriteFile(filepath.Join(root, dir, file), []byte(pre), 0o644)
		f, err := vfE8LLogger(opts, "t")
		if err != nil {
			t.Fatal(err)
		}
		c.conf(opts.RotateSize, dir == "w", hasRev)
		c.say(fmt.Sprintf("tf pre %s %s 0 %s", dir, vfHex([]byte(tmpl)), vfHex([]byte(pre))))
		c.ans("ok")
		r := vfE8LStart(f)
		c.say(fmt.Sprintf("tf msg 1 %s %d %s 0", vfHex([]byte("bodyB")), time.Now().UnixNano(), vfHex([]byte(f.currentFilename()))))
		id := r.deliver("bodyB")
		c.fin("bodyB")
		c.ans(c.state("running", id))
		c.say("tf termstop")
		r.stop()
		c.ans(c.state("done", ""))
		finish()
	case "unreadable-torn", "unreadable-clean", "unreadable-empty":
		// round 11 (F47b): the existing plain file is write-only for the tool (0222; as root the child runs as uid 65534).
		// torn "A" + message "B": committed F47 -> FATAL, exit 1 inside the event, nothing FINished, file unchanged;
		// F47b -> WARN, "AB\n", B FINished (Lean: Props.C19Lines.unreadable_torn_file_witness / _is_fatal_committed)
		pre := map[string]string{"unreadable-torn": "A", "unreadable-clean": "A\n", "unreadable-empty": ""}[name]
		opts.FilenameFormat = "lines.log"
		p := filepath.Join(root, "o", "lines.log")
		os.WriteFile(p, []byte(pre), 0o644)
		c.note(fmt.Sprintf("unreadable=%v", vfE8LMakeUnreadable(p)))
		cfg := nsq.NewConfig()
		cfg.MaxInFlight = opts.MaxInFlight
		f, err := NewFileLogger(func(lvl lg.LogLevel, f string, args ...interface{}) {
			if lvl >= lg.WARN {
				c.note("log-" + lvl.String()) // written before a FATAL's os.Exit(1)
			}
		}, opts, "t", cfg)
		if err != nil {
			t.Fatal(err)
		}
		f.consumer.SetLoggerLevel(nsq.LogLevelError)
		c.conf(0, false, false)
		c.say(fmt.Sprintf("tf pre o %s 0 %s", vfHex([]byte("lines.log")), vfHex([]byte(pre))))
		c.ans("ok")
		c.say("tf unreadable 1")
		c.ans("ok")
		r := vfE8LStart(f)
		c.say(fmt.Sprintf("tf msg 1 %s %d %s 0", vfHex([]byte("B")), time.Now().UnixNano(), vfHex([]byte(f.currentFilename()))))
		id := r.deliver("B") // committed F47, non-empty file: the process exits 1 in here; the parent completes the event
		c.fin("B")
		c.ans(c.state("running", id))
		c.say("tf termstop")
		r.stop()
		c.ans(c.state("done", ""))
		finish()
	case "gen":
		// generated class: random initial content (none / empty / terminated / torn), 1..4 messages whose bodies may be
		// empty, contain "\n" or end in "\n"; plain append mode, optionally with --rotate-size
		r0 := vfNewRand(uint64(7000 + vfEnvInt("VF_E8_LINES_GEN", 0)))
		opts.FilenameFormat = "gen.log"
		tmpl, file, hasRev := "gen.log", "gen.log", false
		if r0.Intn(3) == 0 {
			opts.RotateSize = 4096
			opts.FilenameFormat = "gen<REV>.log"
			tmpl, file, hasRev = "gen<REV>.log", "gen-000000.log", true
		}
		body := func() []byte {
			switch r0.Intn(6) {
			case 0:
				return []byte{}
			case 1:
				return []byte("a\nb")
			case 2:
				return []byte("z\n")
			default:
				b := r0.Bytes(1 + r0.Intn(12))
				for i := range b {
					if b[i] == '\n' {
						b[i] = 'n'
					}
				}
				return b
			}
		}
		var pre []byte
		havePre, torn := true, false
		switch r0.Intn(5) {
		case 0:
			havePre = false
		case 1:
			pre = []byte{}
		case 2:
			pre = append(body(), '\n')
		case 3:
			pre = []byte("q")
			torn = true
		default:
			pre = append(append(body(), '\n'), []byte("tail")...)
			torn = true
		}
		unreadable := false
		if havePre {
			os.WriteFile(filepath.Join(root, "o", file), pre, 0o644)
			if r0.Intn(4) == 0 { // round 11: one existing file in four is write-only for the tool
				unreadable = vfE8LMakeUnreadable(filepath.Join(root, "o", file))
				if !unreadable {
					c.note("unreadable-not-injected")
				}
			}
		}
		f, err := vfE8LLogger(opts, "t")
		if err != nil {
			t.Fatal(err)
		}
		c.conf(opts.RotateSize, false, hasRev)
		if havePre {
			c.say(fmt.Sprintf("tf pre o %s 0 %s", vfHex([]byte(tmpl)), vfHex(pre)))
			c.ans("ok")
		}
		if unreadable {
			c.say("tf unreadable 1")
			c.ans("ok")
		}
		c.note(fmt.Sprintf("torn=%v", torn))
		c.note(fmt.Sprintf("unreadable=%v", unreadable))
		c.note(fmt.Sprintf("prelen=%d", len(pre)))
		r := vfE8LStart(f)
		nm := 1 + r0.Intn(4)
		for i := 0; i < nm; i++ {
			b := body()
			c.say(fmt.Sprintf("tf msg %d %s %d %s 0", i+1, vfHex(b), time.Now().UnixNano(), vfHex([]byte(f.currentFilename()))))
			id := r.deliver(string(b))
			c.fin(string(b))
			c.ans(c.state("running", id))
		}
		c.say("tf termstop")
		r.stop()
		c.ans(c.state("done", ""))
		finish()
	case "kill1":
		// run 1: "rec0" is written and FINished; the process then dies before the second Write call that
		// follows (tree before fix F46: between the body of "bodyA" and its "\n")
		opts.FilenameFormat = "lines.log"
		f, err := vfE8LLogger(opts, "t")
		if err != nil {
			t.Fatal(err)
		}
		r := vfE8LStart(f)
		r.deliver("rec0")
		c.fin("rec0")
		f.writer = &vfE8LKillWriter{w: f.writer, pass: 1} // the router is idle in its select
		r.deliver("bodyA")                                // two-write shape: never returns (exit 9)
		c.fin("bodyA")
		c.note("run1-survived-the-second-write-call")
		res.Close()
		os.Exit(0) // stop at an event boundary, no shutdown path
	case "kill2":
		// run 2 on the directory run 1 left behind
		opts.FilenameFormat = "lines.log"
		pre, _ := os.ReadFile(filepath.Join(root, "o", "lines.log"))
		f, err := vfE8LLogger(opts, "t")
		if err != nil {
			t.Fatal(err)
		}
		c.conf(0, false, false)
		c.say(fmt.Sprintf("tf pre o %s 0 %s", vfHex([]byte("lines.log")), vfHex(pre)))
		c.ans("ok")
		r := vfE8LStart(f)
		c.say(fmt.Sprintf("tf msg 1 %s %d %s 0", vfHex([]byte("bodyB")), time.Now().UnixNano(), vfHex([]byte("lines.log"))))
		id := r.deliver("bodyB")
		c.fin("bodyB")
		c.ans(c.state("running", id))
		c.say("tf termstop")
		r.stop()
		c.ans(c.state("done", ""))
		finish()
	case "two-routers":
		// two topics, --filename-format without <TOPIC>: both routers append to o/shared.log (O_APPEND)
		opts.FilenameFormat = "shared.log"
		f1, err := vfE8LLogger(opts, "t1")
		if err != nil {
			t.Fatal(err)
		}
		f2, err := vfE8LLogger(opts, "t2")
		if err != nil {
			t.Fatal(err)
		}
		r1, r2 := vfE8LStart(f1), vfE8LStart(f2)
		r1.deliver("w1")
		c.fin("w1")
		// the model ops are router 2's view: what router 1 writes is another O_APPEND writer's append
		c.conf(0, false, false)
		c.say(fmt.Sprintf("tf pre o %s 0 %s", vfHex([]byte("shared.log")), vfHex([]byte("w1\n"))))
		c.ans("ok")
		c.say(fmt.Sprintf("tf msg 1 %s %d %s 0", vfHex([]byte("w2")), time.Now().UnixNano(), vfHex([]byte("shared.log"))))
		id := r2.deliver("w2")
		c.fin("w2")
		c.ans(c.state("running", id))
		g := &vfE8LGateWriter{w: f1.writer, held: make(chan struct{}, 1), release: make(chan struct{}), armed: true}
		f1.writer = g // router 1 is idle in its select
		f1.HandleMessage(r1.msg("bodyA"))
		held := false
		select {
		case <-g.held: // two-write shape: router 1 wrote "bodyA" and is held before its "\n"
			held = true
			c.say(fmt.Sprintf("tf extapp o %s 0 %s", vfHex([]byte("shared.log")), vfHex([]byte("bodyA"))))
		case <-r1.d.fin: // one-write shape: the whole record went out
			c.fin("bodyA")
			c.say(fmt.Sprintf("tf extapp o %s 0 %s", vfHex([]byte("shared.log")), vfHex([]byte("bodyA\n"))))
		}
		c.ans(c.state("running", ""))
		c.note(fmt.Sprintf("held=%v", held))
		c.say(fmt.Sprintf("tf msg 2 %s %d %s 0", vfHex([]byte("bodyB")), time.Now().UnixNano(), vfHex([]byte("shared.log"))))
		id = r2.deliver("bodyB")
		c.fin("bodyB")
		c.ans(c.state("running", id))
		if held {
			close(g.release)
			<-r1.d.fin
			c.fin("bodyA")
			c.say(fmt.Sprintf("tf extapp o %s 0 %s", vfHex([]byte("shared.log")), vfHex([]byte("\n"))))
			c.ans(c.state("running", ""))
		}
		c.say("tf termstop")
		r2.stop()
		r1.stop()
		c.ans(c.state("done", ""))
		finish()
	default:
		t.Fatalf("unknown scenario %q", name)
	}
}

// ---------------------------------------------------------------- parent

func vfE8LRunChild(root, name, geni string) (exit string) {
	cmd := exec.Command("timeout", "-s", "KILL", "60", os.Args[0], "-test.run", "^TestVerifToFileLinesChild$", "-test.count=1", "-test.timeout=0")
	cmd.Env = append(os.Environ(), "VF_E8_LINES_CASE="+name, "VF_E8_LINES_ROOT="+root, "VF_E8_LINES_GEN="+geni)
	if name == "gen" || strings.HasPrefix(name, "unreadable-") {
		vfE8LUnreadableCmd(cmd, root) // round 11: these children create files they may write but not read
	}
	if ef, err := os.Create(filepath.Join(root, "stderr_"+name+".txt")); err == nil {
		cmd.Stderr = ef
		defer ef.Close()
	}
	if err := cmd.Run(); err == nil {
		return "0"
	} else if ee, ok := err.(*exec.ExitError); ok {
		if ee.ExitCode() == 137 || ee.ExitCode() == -1 {
			return "hang"
		}
		return fmt.Sprintf("%d", ee.ExitCode())
	} else {
		return "start-error"
	}
}

func TestVerifToFileLines(t *testing.T) {
	out := os.Getenv("VERIF_OUT")
	if out == "" {
		out = t.TempDir()
	}
	vo := vfOpen("tflines")
	defer vo.Close()
	srw := vfE8ProbeSealReadWarns() // before the children are started: they inherit VF_E8_SRW
	fmt.Printf("LINESPROBE one_write=%d seals_tail=%d seal_read_warns=%d inject=%s\n", vfE8LB(vfE8ProbeOneWrite()), vfE8LB(vfE8ProbeSealsTail()),
		srw, vfE8LSRWHow)
	scenarios := [][]string{{"torn-pre"}, {"clean-pre"}, {"torn-pre-rotsize"}, {"torn-pre-workdir"}, {"torn-pre-1byte"}, {"kill1", "kill2"}, {"two-routers"},
		{"unreadable-torn"}, {"unreadable-clean"}, {"unreadable-empty"}}
	if srw == -1 {
		// the read fault cannot be injected in this environment: leave the three scenarios that need it out
		fmt.Printf("LINESNOTE unreadable-file scenarios skipped (%s)\n", vfE8LSRWHow)
		scenarios = scenarios[:len(scenarios)-3]
	}
	ngen := vfEnvInt("VERIF_N", 24)
	for i := 0; i < ngen; i++ {
		scenarios = append(scenarios, []string{fmt.Sprintf("gen:%d", i)})
	}
	for _, sc := range scenarios {
		label := sc[0]
		if label == "kill1" {
			label = "kill-restart"
		}
		geni := ""
		if strings.HasPrefix(label, "gen:") {
			geni = label[4:]
			label = "gen-" + geni
			sc = []string{"gen"}
		}
		root := filepath.Join(out, "lines_"+label)
		os.RemoveAll(root)
		os.MkdirAll(root, 0o755)
		var exits []string
		var fins [][]byte
		var notes []string
		complete := true
		for _, child := range sc {
			exits = append(exits, vfE8LRunChild(root, child, geni))
			raw, _ := os.ReadFile(filepath.Join(root, "res_"+child+".txt"))
			var op string
			ended := false
			for _, l := range strings.Split(string(raw), "\n") {
				switch {
				case strings.HasPrefix(l, "OP "):
					op = l[3:]
				case strings.HasPrefix(l, "ANS "):
					vo.Case(op, l[4:])
					op = ""
				case strings.HasPrefix(l, "FINBODY "):
					h := strings.TrimPrefix(l, "FINBODY ")
					var b []byte
					if h != "-" {
						fmt.Sscanf(h, "%x", &b)
					}
					fins = append(fins, b)
				case strings.HasPrefix(l, "NOTE "):
					notes = append(notes, l[5:])
				case l == "END":
					ended = true
				}
			}
			if !ended && op != "" && exits[len(exits)-1] == "1" {
				// the tool took os.Exit(1) inside the event `op` (round 11: unreadable file on the committed shape): the parent
				// completes the event and the script with what is on disk now — nothing was FINished in that event
				vo.Case(op, fmt.Sprintf("st=fatal fin=[] files=%s", vfE8LTreeLine(vfE8LTree(root), false)))
				vo.Case("tf tree", fmt.Sprintf("st=fatal tree=%s", vfE8LTreeLine(vfE8LTree(root), true)))
				notes = append(notes, "fatal-in="+strings.Join(strings.Fields(op)[:2], "-"))
				ended = true
			}
			if child != "kill1" && !ended {
				complete = false
			}
		}
		tree := vfE8LTree(root)
		missing := vfE8BodiesOwnLines(tree, fins)
		if geni != "" {
			missing = vfE8OwnRecords(tree, fins) // bodies may be empty / contain "\n": exact record form
		}
		var fb []string
		for _, b := range fins {
			fb = append(fb, string(b))
		}
		fmt.Printf("LINES case=%s exits=%s complete=%v fins=%s owns=%v missing=%s notes=%s tree=%s\n", label, strings.Join(exits, "/"), complete,
			vfHex([]byte(strings.Join(fb, ","))), len(missing) == 0, vfHex([]byte(strings.Join(missing, ","))),
			vfHex([]byte(strings.Join(notes, ","))), vfE8LTreeLine(tree, true))
	}
	fmt.Printf("ORACLE-DONE lines cases=%d generated=%d\n", len(scenarios), ngen)
}
