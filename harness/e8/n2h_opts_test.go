package main

// C20 round 6, option surface of apps/nsq_to_http: the real parseCustomHeaders, HTTPPost / HTTPGet (through
// PostPublisher / GetPublisher) against an httptest server that records the headers of every request, the
// hostpool marking of PublishHandler.HandleMessage, and main()'s validations on the REAL binary
// (VF_E8_N2H_BIN, built by lib/c20_opts.py). One op line per case for the Lean driver (`opt …`) + direct oracles.

import (
	"bytes"
	"fmt"
	"net/http"
	"os"
	"os/exec"
	"sort"
	"strings"
	"sync"
	"testing"
	"time"

	"github.com/bitly/go-hostpool"
	"github.com/bitly/timer_metrics"
	"github.com/nsqio/go-nsq"
)

type vfOptSrv struct {
	mu     sync.Mutex
	hdr    http.Header
	method string
	body   []byte
	status int
}

func (s *vfOptSrv) ServeHTTP(w http.ResponseWriter, r *http.Request) {
	var b bytes.Buffer
	b.ReadFrom(r.Body)
	s.mu.Lock()
	s.hdr = r.Header.Clone()
	s.method = r.Method
	s.body = b.Bytes()
	st := s.status
	s.mu.Unlock()
	w.WriteHeader(st)
}

// hostpool wrapper counting Get and Mark
type vfCountPool struct {
	hostpool.HostPool
	gets  int
	marks []bool // err == nil
}
type vfCountResp struct {
	hostpool.HostPoolResponse
	p *vfCountPool
}

func (p *vfCountPool) Get() hostpool.HostPoolResponse {
	p.gets++
	return &vfCountResp{p.HostPool.Get(), p}
}
func (r *vfCountResp) Mark(err error) {
	r.p.marks = append(r.p.marks, err == nil)
	r.HostPoolResponse.Mark(err)
}

func vfOptMarks(ms []bool) string {
	s := "marks="
	for _, m := range ms {
		if m {
			s += "1"
		} else {
			s += "0"
		}
	}
	return s
}

func vfOptGenHeader(r *vfRand) string {
	keys := []string{"X-Vf-A", "x-vf-b", "Authorization", "Content-Type", "user-agent", "X-Trace-Id"}
	vals := []string{"1", "abc", "Bearer t:o:k", "application/json", "a b  c", "v=1;q:2", "text/plain; charset=utf-8", "~!@#$%^&*()"}
	pad := func() string { return []string{"", "", " ", "  ", "\t", " \t "}[r.Intn(6)] }
	switch r.Intn(12) {
	case 0:
		return keys[r.Intn(len(keys))] + "=" + vals[r.Intn(len(vals))] // the advertised form: no colon
	case 1:
		return pad() + ":" + vals[r.Intn(len(vals))]
	case 2:
		return keys[r.Intn(len(keys))] + ":" + pad()
	case 3:
		return []string{"", ":", " : ", "novalue", "\t"}[r.Intn(5)]
	}
	return pad() + keys[r.Intn(len(keys))] + pad() + ":" + pad() + vals[r.Intn(len(vals))] + pad()
}

// RFC 7230 token (what net/http accepts as a header field name)
func vfOptToken(k string) bool {
	if k == "" {
		return false
	}
	for i := 0; i < len(k); i++ {
		c := k[i]
		if !(c >= 'a' && c <= 'z' || c >= 'A' && c <= 'Z' || c >= '0' && c <= '9' || strings.IndexByte("!#$%&'*+-.^_`|~", c) >= 0) {
			return false
		}
	}
	return true
}

func vfOptKV(m map[string]string) string {
	if len(m) == 0 {
		return "-"
	}
	var parts []string
	for k, v := range m {
		parts = append(parts, vfHex([]byte(k))+"="+vfHex([]byte(v)))
	}
	sort.Strings(parts)
	return strings.Join(parts, ",")
}

func TestVerifN2HOpts(t *testing.T) {
	out := vfOpen("n2h_opts")
	defer out.Close()
	r := vfNewRand(23)
	n := vfEnvInt("VERIF_N", 300)
	fails := 0
	fail := func(f string, a ...interface{}) {
		fails++
		fmt.Printf("ORACLE-FAIL "+f+"\n", a...)
	}
	hist := map[string]int{}
	srvH := &vfOptSrv{status: 200}
	srv := vfHTTPServer(srvH)
	defer srv.Close()
	httpclient = &http.Client{Timeout: 5 * time.Second}
	defCT := *contentType
	*sample = 1.0
	for i := 0; i < n; i++ {
		// ---- parseCustomHeaders
		var strs []string
		for k := 1 + r.Intn(4); k > 0; k-- {
			strs = append(strs, vfOptGenHeader(r))
		}
		if r.Intn(3) != 0 { // mostly valid lists
			for j := range strs {
				for !strings.Contains(strs[j], ":") || strings.TrimSpace(strings.SplitN(strs[j], ":", 2)[0]) == "" ||
					strings.TrimSpace(strings.SplitN(strs[j], ":", 2)[1]) == "" {
					strs[j] = vfOptGenHeader(r)
				}
			}
		}
		var hx []string
		for _, s := range strs {
			hx = append(hx, vfHex([]byte(s)))
		}
		m, err := parseCustomHeaders(strs)
		impl := "err"
		if err == nil {
			impl = "ok " + vfOptKV(m)
			hist["headers-ok"]++
		} else {
			hist["headers-rejected"]++
		}
		out.Case("opt hdr "+strings.Join(hx, " "), impl)
		if err != nil {
			continue
		}
		// ---- the request actually sent
		validCustomHeaders = m
		post := r.Intn(2) == 0
		*contentType = []string{defCT, "text/plain", "application/json", "application/x-vf; a=b"}[r.Intn(4)]
		body := []byte(fmt.Sprintf("body-%d", i))
		addr := srv.URL + "/p"
		var perr error
		if post {
			perr = (&PostPublisher{}).Publish(addr, body)
		} else {
			perr = (&GetPublisher{}).Publish(addr+"?d=%s", body)
		}
		badName := false
		for k := range m {
			if !vfOptToken(k) {
				badName = true
			}
		}
		if badName {
			// parseCustomHeaders accepts names net/http refuses ("a=b c: d" → name "a=b c"): every request then fails
			// before it is sent; the handler must report the error (requeue), never a success
			if perr == nil {
				fail("a request with an invalid header name was reported as delivered (headers %q)", strs)
			}
			hist["request-refused-invalid-header-name"]++
			continue
		}
		if perr != nil {
			fail("request failed: %v (headers %q)", perr, strs)
			continue
		}
		srvH.mu.Lock()
		got := srvH.hdr
		method := srvH.method
		srvH.mu.Unlock()
		if (method == "POST") != post {
			fail("method %s for post=%v", method, post)
		}
		names := []string{"Content-Type", "User-Agent"}
		for k := range m {
			names = append(names, k)
		}
		sort.Strings(names)
		var nhex, parts []string
		for _, nm := range names {
			nhex = append(nhex, vfHex([]byte(nm)))
			vs := got.Values(nm)
			if len(vs) == 0 {
				parts = append(parts, vfHex([]byte(nm))+"=absent")
			} else {
				parts = append(parts, vfHex([]byte(nm))+"="+vfHex([]byte(vs[len(vs)-1])))
			}
			if len(vs) > 1 {
				fail("header %s sent %d times", nm, len(vs))
			}
		}
		// direct oracles
		overCT, overUA := false, false
		for k, v := range m {
			if got.Get(k) != v {
				fail("custom header %q: request carried %q, want %q (post=%v)", k, got.Get(k), v, post)
			}
			if strings.EqualFold(k, "Content-Type") {
				overCT = true
			}
			if strings.EqualFold(k, "User-Agent") {
				overUA = true
			}
		}
		if post && !overCT && got.Get("Content-Type") != *contentType {
			fail("POST carried Content-Type %q, --content-type is %q", got.Get("Content-Type"), *contentType)
		}
		if !post && !overCT && got.Get("Content-Type") != "" {
			fail("GET carried Content-Type %q", got.Get("Content-Type"))
		}
		if !overUA && got.Get("User-Agent") != userAgent {
			fail("User-Agent %q, want %q", got.Get("User-Agent"), userAgent)
		}
		b := 0
		if post {
			b = 1
			hist["request-post"]++
		} else {
			hist["request-get"]++
		}
		out.Case(fmt.Sprintf("opt req %d %s %s %s %s", b, vfHex([]byte(*contentType)), vfHex([]byte(userAgent)),
			strings.Join(nhex, ","), strings.Join(hx, " ")), strings.Join(parts, ","))
	}
	validCustomHeaders = nil
	*contentType = defCT
	// ---- hostpool marking
	for i := 0; i < n/3; i++ {
		mode := []int{ModeHostPool, ModeHostPool, ModeRoundRobin, ModeAll}[r.Intn(4)]
		addrs := []string{srv.URL + "/a0", srv.URL + "/a1"}
		var base hostpool.HostPool = hostpool.New(addrs)
		if r.Intn(2) == 0 {
			base = hostpool.NewEpsilonGreedy(addrs, 0, &hostpool.LinearEpsilonValueCalculator{})
		}
		cp := &vfCountPool{HostPool: base}
		per := map[string]*timer_metrics.TimerMetrics{addrs[0]: timer_metrics.NewTimerMetrics(0, ""), addrs[1]: timer_metrics.NewTimerMetrics(0, "")}
		ph := &PublishHandler{Publisher: &PostPublisher{}, addresses: addrs, mode: mode, hostPool: cp, perAddressStatus: per,
			timermetrics: timer_metrics.NewTimerMetrics(0, "")}
		st := []int{200, 200, 204, 299, 300, 404, 500, 503}[r.Intn(8)]
		srvH.mu.Lock()
		srvH.status = st
		srvH.mu.Unlock()
		*sample = []float64{1.0, 1.0, 0.0}[r.Intn(3)]
		sampledOut := *sample == 0.0 // rand.Float64() > 0 with probability 1 - 2^-53
		var mid nsq.MessageID
		copy(mid[:], fmt.Sprintf("m%d", i))
		herr := ph.HandleMessage(nsq.NewMessage(mid, []byte("x")))
		acc := st >= 200 && st < 300
		if !sampledOut && (herr == nil) != acc {
			fail("hostpool case: status %d but handler error = %v", st, herr)
		}
		if cp.gets != len(cp.marks) {
			fail("hostpool: %d Get but %d Mark (mode %d status %d)", cp.gets, len(cp.marks), mode, st)
		}
		for _, mk := range cp.marks {
			if mk != acc {
				fail("hostpool: Mark(nil=%v) although the destination answered %d", mk, st)
			}
		}
		if mode == ModeHostPool && !sampledOut && cp.gets != 1 {
			fail("hostpool mode made %d Get for one message", cp.gets)
		}
		b2 := func(b bool) int {
			if b {
				return 1
			}
			return 0
		}
		hist[fmt.Sprintf("mark-mode%d", mode)]++
		out.Case(fmt.Sprintf("opt hmark %d %d %d", b2(mode == ModeHostPool), b2(sampledOut), b2(acc)), vfOptMarks(cp.marks))
	}
	*sample = 1.0
	vfOptArgs(out, r, fail, hist)
	for k, v := range hist {
		fmt.Printf("HIST %s %d\n", k, v)
	}
	fmt.Printf("ORACLE-DONE cases=%d failures=%d\n", n, fails)
}

// main()'s validations on the real binary: which fatal message (if any) comes first.
func vfOptArgs(out *vfOut, r *vfRand, fail func(string, ...interface{}), hist map[string]int) {
	bin := os.Getenv("VF_E8_N2H_BIN")
	if bin == "" {
		return
	}
	msgs := []struct{ sub, name string }{
		{"--header value format should be", "header"}, {"--topic and --channel are required", "topic-channel"},
		{"--content-type only used with --post", "ct-needs-post"}, {"--content-type requires a value", "ct-empty"},
		{"--nsqd-tcp-address or --lookupd-http-address required", "no-source"},
		{"use --nsqd-tcp-address or --lookupd-http-address not both", "both-sources"},
		{"--get or --post required", "no-dest"}, {"use --get or --post not both", "both-dest"},
		{"invalid GET address", "bad-get"}, {"--sample must be between", "sample"},
	}
	n := vfEnvInt("VERIF_NARGS", 40)
	pick := func(p int) bool { return r.Intn(p) == 0 }
	for i := 0; i < n; i++ {
		var args []string
		hok, te, ce := 1, 0, 0
		if pick(3) {
			h := vfOptGenHeader(r)
			args = append(args, "--header="+h)
			if _, err := parseCustomHeaders([]string{h}); err != nil {
				hok = 0
			}
		}
		if pick(8) {
			te = 1
		} else {
			args = append(args, "--topic=t")
		}
		if pick(10) {
			ce = 1
			args = append(args, "--channel=")
		}
		ctg, cte := 0, 0
		switch r.Intn(5) {
		case 0:
			args = append(args, "--content-type=text/plain")
			ctg = 1
		case 1:
			args = append(args, "--content-type=")
			ctg, cte = 1, 1
		case 2:
			args = append(args, "--content-type=application/octet-stream") // the default: counts as not given
		}
		nsqd, lookupd := 0, 0
		if !pick(8) {
			nsqd = 1
			args = append(args, "--nsqd-tcp-address=127.0.0.1:1")
		}
		if pick(8) {
			lookupd = 1
			args = append(args, "--lookupd-http-address=127.0.0.1:1")
		}
		posts := 0
		var gets []string
		switch r.Intn(6) {
		case 0:
		case 1, 2:
			posts = 1 + r.Intn(2)
			for k := 0; k < posts; k++ {
				args = append(args, fmt.Sprintf("--post=http://127.0.0.1:1/p%d", k))
			}
		case 3:
			posts = 1
			args = append(args, "--post=http://127.0.0.1:1/p", "--get=http://127.0.0.1:1/g?d=%s")
			gets = append(gets, "1")
		default:
			for k := 1 + r.Intn(2); k > 0; k-- {
				g := []string{"http://127.0.0.1:1/g?d=%s", "http://127.0.0.1:1/g?d=%s", "http://127.0.0.1:1/g", "http://127.0.0.1:1/%s?d=%s", "http://127.0.0.1:1/g?d=%d"}[r.Intn(5)]
				args = append(args, "--get="+g)
				gets = append(gets, fmt.Sprintf("%d", strings.Count(g, "%s")))
			}
		}
		sok := 1
		switch r.Intn(8) {
		case 0:
			args = append(args, "--sample=1.5")
			sok = 0
		case 1:
			args = append(args, "--sample=-0.01")
			sok = 0
		case 2:
			args = append(args, "--sample=NaN")
		case 3:
			args = append(args, "--sample=0.5")
		}
		if pick(3) {
			args = append(args, "--mode="+[]string{"round_robin", "all", "hostpol", "round-robin", ""}[r.Intn(5)]) // unknown modes are accepted
		}
		if pick(4) {
			args = append(args, fmt.Sprintf("--status-every=%d", []int{0, 1, -5, 250}[r.Intn(4)])) // never validated
		}
		cmd := exec.Command(bin, args...)
		var stderr bytes.Buffer
		cmd.Stderr = &stderr
		cmd.Start()
		done := make(chan error, 1)
		go func() { done <- cmd.Wait() }()
		running := false
		select {
		case <-done:
		case <-time.After(1500 * time.Millisecond):
			running = true
			cmd.Process.Kill()
			<-done
		}
		got := "start"
		text := stderr.String()
		for _, m := range msgs {
			if strings.Contains(text, m.sub) {
				got = m.name
				break
			}
		}
		if got == "start" && !running && !strings.Contains(text, "connection refused") && !strings.Contains(text, "connect") {
			fail("nsq_to_http %q exited with an unexpected message: %q", args, strings.TrimSpace(text))
		}
		hist["args-"+got]++
		g := "-"
		if len(gets) > 0 {
			g = strings.Join(gets, ",")
		}
		out.Case(fmt.Sprintf("opt args %d %d %d %d %d %d %d %d %s %d", hok, te, ce, ctg, cte, nsqd, lookupd, posts, g, sok), got)
	}
}
