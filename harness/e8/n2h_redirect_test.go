package main

// Audit round 7, item C3 — nsq_to_http and HTTP redirects, on the REAL binary built from the tree under
// check (path in VF_E8_N2H_BIN): main() builds the http.Client, go-nsq's Consumer applies the response
// rule, nothing of either is re-implemented here. A source stub nsqd delivers one message at a time and
// records the FIN / REQ the tool answers; the destinations are scripted endpoints /e0 … /e4 of one HTTP
// stub (status + optional Location per endpoint, per message) plus endpoint 5, a raw listener that reads
// the request and hangs up (transport error, but the request is *seen*). Every request that reaches an
// endpoint is logged with its method and the message bytes it carries (POST body; GET: the `d` query value,
// "none" when the parameter is absent).
//
// Output: ops `rd <follow> <mode> <naddr> <post> <counter> <id> <body> <world>` for the Lean driver
// (Nsq.Model.RelayRedirect.stepVia) and the observed line `<fin|req> | <wire requests>`; `follow` is PROBED
// on the binary (does a `307 Location:` answer produce a second request?) and printed as REDIRECT-PROBE.

import (
	"bufio"
	"fmt"
	"io"
	"net"
	"net/http"
	"net/http/httptest"
	"os"
	"os/exec"
	"sort"
	"strings"
	"sync"
	"syscall"
	"testing"
	"time"
)

type vfRdWire struct {
	ep      int
	method  string
	payload string // hex, "-" = empty, "none" = the request carries no message
	status  string
}

type vfRdStub struct {
	mu     sync.Mutex
	script []string // per endpoint: "200", "302>1", "302", …
	wire   []vfRdWire
	hang   string // host:port of endpoint 5
	base   string // http://host:port of endpoints 0..4
}

func (s *vfRdStub) payloadOf(r *http.Request) string {
	if r.Method == "POST" {
		b, _ := io.ReadAll(r.Body)
		return vfHex(b)
	}
	if vs, ok := r.URL.Query()["d"]; ok && len(vs) > 0 {
		return vfHex([]byte(vs[0]))
	}
	return "none"
}

func (s *vfRdStub) ServeHTTP(w http.ResponseWriter, r *http.Request) {
	var k int
	fmt.Sscanf(r.URL.Path, "/e%d", &k)
	pl := s.payloadOf(r)
	s.mu.Lock()
	ans := "500"
	if k >= 0 && k < len(s.script) {
		ans = s.script[k]
	}
	code, loc := ans, ""
	if i := strings.Index(ans, ">"); i >= 0 {
		code, loc = ans[:i], ans[i+1:]
	}
	s.wire = append(s.wire, vfRdWire{k, r.Method, pl, code})
	s.mu.Unlock()
	if loc != "" {
		var t int
		fmt.Sscanf(loc, "%d", &t)
		switch {
		case t == 5:
			w.Header().Set("Location", "http://"+s.hang+"/e5")
		case t%2 == 0:
			w.Header().Set("Location", fmt.Sprintf("/e%d", t)) // relative
		default:
			w.Header().Set("Location", fmt.Sprintf("%s/e%d", s.base, t)) // absolute
		}
	}
	var c int
	fmt.Sscanf(code, "%d", &c)
	w.WriteHeader(c)
	if c != 204 && c != 304 && c >= 200 {
		w.Write([]byte("x"))
	}
}

// endpoint 5: read one request, log it, hang up without an answer
func (s *vfRdStub) serveHang(ln net.Listener) {
	for {
		c, err := ln.Accept()
		if err != nil {
			return
		}
		go func(c net.Conn) {
			defer c.Close()
			c.SetDeadline(time.Now().Add(5 * time.Second))
			req, err := http.ReadRequest(bufio.NewReader(c))
			if err != nil {
				return
			}
			pl := s.payloadOf(req)
			s.mu.Lock()
			s.wire = append(s.wire, vfRdWire{5, req.Method, pl, "x"})
			s.mu.Unlock()
		}(c)
	}
}

type vfRdCase struct {
	post  bool
	mode  string // rr | all
	naddr int
	world []string // answers of endpoints 0..4 (endpoint 5 is always "x")
	body  []byte
}

func vfRdGenWorld(r *vfRand, class int) []string {
	plain := []string{"200", "200", "200", "201", "204", "299", "300", "304", "400", "404", "500", "503"}
	redir := []string{"301", "302", "303", "307", "308"}
	w := make([]string, 5)
	for i := range w {
		switch x := r.Intn(100); {
		case x < 45-class*10: // class 0: redirect-heavy
			w[i] = plain[r.Intn(len(plain))]
		case x < 85:
			w[i] = fmt.Sprintf("%s>%d", redir[r.Intn(len(redir))], r.Intn(6))
		case x < 90:
			w[i] = redir[r.Intn(len(redir))] // a redirect status without Location
		default:
			// a Location on a status that is not a redirect (201 Created, 300, 304, 200): never followed
			w[i] = fmt.Sprintf("%s>%d", []string{"201", "300", "304", "200", "305", "404"}[r.Intn(6)], r.Intn(6))
		}
	}
	return w
}

func TestVerifN2HRedirectBin(t *testing.T) {
	bin := os.Getenv("VF_E8_N2H_BIN")
	if bin == "" {
		t.Skip("needs the nsq_to_http binary")
	}
	out := vfOpen("n2h_redirect")
	defer out.Close()
	r := vfNewRand(0xC3C3)
	n := vfEnvInt("VERIF_N", 160)
	stub := &vfRdStub{script: make([]string, 5)}
	srv := httptest.NewServer(stub)
	defer srv.Close()
	stub.base = srv.URL
	hl, err := net.Listen("tcp", "127.0.0.1:0")
	if err != nil {
		t.Fatal(err)
	}
	defer hl.Close()
	stub.hang = hl.Addr().String()
	go stub.serveHang(hl)

	// the committed witnesses first (corpus/C20/known/redirect_drops_body.txt: `post mode naddr world bodyhex` per line)
	var corpus []vfRdCase
	for _, l := range vfKnownLines("follows-redirect-drops-body") {
		f := strings.Fields(l)
		if len(f) != 5 {
			continue
		}
		var na int
		fmt.Sscanf(f[2], "%d", &na)
		w := strings.Split(f[3], ",")
		for len(w) < 5 {
			w = append(w, "500")
		}
		var body []byte
		fmt.Sscanf(f[4], "%x", &body)
		corpus = append(corpus, vfRdCase{f[0] == "1", f[1], na, w[:5], body})
	}
	type cfg struct {
		post  bool
		mode  string
		naddr int
	}
	cfgs := []cfg{{true, "rr", 1}, {false, "rr", 1}, {true, "all", 2}, {false, "rr", 2}, {true, "rr", 2}, {false, "all", 2}}
	hist := map[string]int{}
	follows := -1
	id := 0
	total := 0
	for ci, c := range cfgs {
		var cases []vfRdCase
		if ci == 0 {
			// probe: POST answered `307 Location: /e1`, /e1 answers 200 — a following client makes a second request
			cases = append(cases, vfRdCase{true, "rr", 1, []string{"307>1", "200", "200", "200", "200"}, []byte("probe")})
		}
		for _, k := range corpus {
			if k.post == c.post && k.mode == c.mode && k.naddr == c.naddr {
				cases = append(cases, k)
			}
		}
		for k := 0; k < n/len(cfgs); k++ {
			body := r.Bytes(1 + r.Intn(20))
			if r.Intn(3) == 0 {
				body = []byte(fmt.Sprintf("msg %d &=%%+/?", k))
			}
			cases = append(cases, vfRdCase{c.post, c.mode, c.naddr, vfRdGenWorld(r, k%3), body})
		}
		src := vfNewStubNsqd()
		// a short request timeout only bounds the damage of a tree whose client follows redirect loops for ever
		args := []string{"--nsqd-tcp-address", src.addr, "--topic", "t", "--channel", "c", "--http-client-request-timeout", "4s"}
		if c.mode == "rr" {
			args = append(args, "--mode", "round-robin")
		} else {
			args = append(args, "--mode", "all") // any unknown mode string selects ModeAll
		}
		for a := 0; a < c.naddr; a++ {
			if c.post {
				args = append(args, "--post", fmt.Sprintf("%s/e%d", srv.URL, a))
			} else {
				args = append(args, "--get", fmt.Sprintf("%s/e%d?d=%%s", srv.URL, a))
			}
		}
		cmd := exec.Command(bin, args...)
		cmd.Stderr = nil
		cmd.SysProcAttr = &syscall.SysProcAttr{Pdeathsig: syscall.SIGKILL} // no orphan if this harness is killed by its timeout
		if err := cmd.Start(); err != nil {
			t.Fatal(err)
		}
		exited := make(chan error, 1)
		go func() { exited <- cmd.Wait() }()
		for k := 0; k < 5000 && !src.Subscribed(); k++ {
			time.Sleep(2 * time.Millisecond)
		}
		if !src.Subscribed() {
			fmt.Printf("REDIRECT-ERROR config=%d the tool did not subscribe\n", ci)
			cmd.Process.Kill()
			<-exited
			src.Down()
			continue
		}
		counter := 0
		for _, k := range cases {
			id++
			stub.mu.Lock()
			copy(stub.script, k.world)
			stub.wire = nil
			stub.mu.Unlock()
			src.Deliver(fmt.Sprintf("%016d", id), 1, k.body)
			resp := "none"
			select {
			case x := <-src.Resp:
				resp = strings.ToLower(strings.Fields(x)[0])
			case <-time.After(30 * time.Second):
			}
			stub.mu.Lock()
			wire := append([]vfRdWire{}, stub.wire...)
			stub.mu.Unlock()
			if follows < 0 { // the probe case
				follows = 0
				if len(wire) > 1 {
					follows = 1
				}
				fmt.Printf("REDIRECT-PROBE follows=%d wire=%d response=%s\n", follows, len(wire), resp)
			}
			var ws []string
			for _, x := range wire {
				ws = append(ws, fmt.Sprintf("%d:%s:%s:%s", x.ep, x.method, x.payload, x.status))
			}
			b2i := func(b bool) int {
				if b {
					return 1
				}
				return 0
			}
			out.Case(fmt.Sprintf("rd %d %s %d %d %d %d %s %s,x", follows, k.mode, k.naddr, b2i(k.post), counter, id, vfHex(k.body),
				strings.Join(k.world, ",")), fmt.Sprintf("%s | %s", resp, strings.Join(ws, " ")))
			counter++
			total++
			first := "none"
			if len(wire) > 0 {
				first = wire[0].status
				if strings.Contains(k.world[wire[0].ep%5], ">") && wire[0].ep < 5 {
					first += ">loc"
				}
			}
			hist[fmt.Sprintf("post=%d first=%s %s", b2i(k.post), first, resp)]++
			hist[fmt.Sprintf("chain-requests=%d", len(wire))]++
		}
		cmd.Process.Signal(syscall.SIGTERM)
		select {
		case <-exited:
		case <-time.After(10 * time.Second):
			cmd.Process.Kill()
			<-exited
		}
		src.Down()
	}
	keys := []string{}
	for k := range hist {
		keys = append(keys, k)
	}
	sort.Strings(keys)
	for _, k := range keys {
		fmt.Printf("HIST %s %d\n", strings.ReplaceAll(k, " ", "_"), hist[k])
	}
	fmt.Printf("ORACLE-DONE redirect cases=%d\n", total)
}
