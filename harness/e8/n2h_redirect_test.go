package main

// Audit round 7, item C3 — nsq_to_http and HTTP redirects, on the REAL binary built from the tree under
// check (path in VF_E8_N2H_BIN): main() builds the http.Client, go-nsq's Consumer applies the response
// rule, nothing of either is re-implemented here. A source stub nsqd delivers one message at a time and
// records the FIN / REQ the tool answers; the destinations are scripted endpoints /e0 … /e4 of one HTTP
// stub (status + optional Location per endpoint, per message; /e6 … /e11 exist for long chains) plus endpoint 5,
// a raw listener that reads the request and hangs up (transport error, but the request is *seen*). A scripted
// answer is `status`, `status>k` (Location names endpoint k, WITHOUT the query of the request it answers) or
// `status>kq` (Location = endpoint k + the query of the request: for the GET publisher the message travels there).
// Every request that reaches an endpoint is logged with its method and the message bytes it carries (POST body;
// GET: the `d` query value, "none" when the parameter is absent).
//
// Output: ops `rd <client> <mode> <naddr> <post> <counter> <id> <body> <world>` for the Lean driver
// (Nsq.Model.RelayRedirect.stepVia) and the observed line `<fin|req> | <wire requests>`; `client` is PROBED on the
// binary with two POSTs (does a `307 Location:` answer produce a second request? does a `302 Location:` answer?):
// 0 = follows neither (fix F45, checkNever), 2 = follows the 307 only (fix F45b, checkSameMethod), 1 = follows both
// (no CheckRedirect, checkDefault), 3 = follows the 302 only (no model); printed as REDIRECT-PROBE.

import (
	"bufio"
	"fmt"
	"io"
	"net"
	"net/http"
	"os"
	"os/exec"
	"sort"
	"strings"
	"sync"
	"syscall"
	"testing"
	"time"
)

type vfRdWire struct {
	ep      int
	method  string
	payload string // hex, "-" = empty, "none" = the request carries no message
	status  string
}

type vfRdStub struct {
	mu     sync.Mutex
	script []string // per endpoint: "200", "302>1", "307>1q", "302", …
	wire   []vfRdWire
	hang   string // host:port of endpoint 5
	base   string // http://host:port of endpoints 0..4
}

func (s *vfRdStub) payloadOf(r *http.Request) string {
	if r.Method == "POST" {
		b, _ := io.ReadAll(r.Body)
		return vfHex(b)
	}
	if vs, ok := r.URL.Query()["d"]; ok && len(vs) > 0 {
		return vfHex([]byte(vs[0]))
	}
	return "none"
}

func (s *vfRdStub) ServeHTTP(w http.ResponseWriter, r *http.Request) {
	var k int
	fmt.Sscanf(r.URL.Path, "/e%d", &k)
	pl := s.payloadOf(r)
	s.mu.Lock()
	ans := "500"
	if k >= 0 && k < len(s.script) {
		ans = s.script[k]
	}
	code, loc := ans, ""
	if i := strings.Index(ans, ">"); i >= 0 {
		code, loc = ans[:i], ans[i+1:]
	}
	s.wire = append(s.wire, vfRdWire{k, r.Method, pl, code})
	s.mu.Unlock()
	if loc != "" {
		var t int
		q := ""
		if strings.HasSuffix(loc, "q") { // the Location repeats the query of the request it answers
			loc = strings.TrimSuffix(loc, "q")
			if r.URL.RawQuery != "" {
				q = "?" + r.URL.RawQuery
			}
		}
		fmt.Sscanf(loc, "%d", &t)
		switch {
		case t == 5:
			w.Header().Set("Location", "http://"+s.hang+"/e5"+q)
		case t%2 == 0:
			w.Header().Set("Location", fmt.Sprintf("/e%d%s", t, q)) // relative
		default:
			w.Header().Set("Location", fmt.Sprintf("%s/e%d%s", s.base, t, q)) // absolute
		}
	}
	var c int
	fmt.Sscanf(code, "%d", &c)
	w.WriteHeader(c)
	if c != 204 && c != 304 && c >= 200 {
		w.Write([]byte("x"))
	}
}

// endpoint 5: read one request, log it, hang up without an answer
func (s *vfRdStub) serveHang(ln net.Listener) {
	for {
		c, err := ln.Accept()
		if err != nil {
			return
		}
		go func(c net.Conn) {
			defer c.Close()
			c.SetDeadline(time.Now().Add(5 * time.Second))
			req, err := http.ReadRequest(bufio.NewReader(c))
			if err != nil {
				return
			}
			pl := s.payloadOf(req)
			s.mu.Lock()
			s.wire = append(s.wire, vfRdWire{5, req.Method, pl, "x"})
			s.mu.Unlock()
		}(c)
	}
}

type vfRdCase struct {
	post  bool
	mode  string // rr | all
	naddr int
	world []string // answers of endpoints 0..11 (endpoint 5 is always "x")
	body  []byte
}

const vfRdEndpoints = 12

// vfRdNorm pads a world given for endpoints 0..k to the 12 slots (slot 5 = the hang-up endpoint)
func vfRdNorm(w []string) []string {
	out := make([]string, vfRdEndpoints)
	for i := range out {
		out[i] = "500"
	}
	copy(out, w)
	out[5] = "x"
	return out
}

func vfRdGenWorld(r *vfRand, class int, post bool) []string {
	plain := []string{"200", "200", "200", "201", "204", "299", "300", "304", "400", "404", "500", "503"}
	redir := []string{"301", "302", "303", "307", "308"}
	w := make([]string, vfRdEndpoints)
	q := func() string { // the Location keeps the query in about half of the cases
		if r.Intn(2) == 0 {
			return "q"
		}
		return ""
	}
	if class == 3 {
		// a chain through distinct endpoints 0,1,2,3,4,6,…,11 of 2..11 redirects that keep the method (POST: 307/308;
		// GET: any redirect status), ended by a plain answer; sometimes one hop changes the method / drops the query
		order := []int{0, 1, 2, 3, 4, 6, 7, 8, 9, 10, 11}
		for i := range w {
			w[i] = plain[r.Intn(len(plain))]
		}
		n := 2 + r.Intn(10)
		if r.Intn(3) == 0 {
			n = 9 + r.Intn(2) // at the limit: the 10th request is the last one the client makes
		}
		qq := "q"
		if r.Intn(4) == 0 {
			qq = ""
		}
		for i := 0; i < n && i+1 < len(order); i++ {
			code := []string{"307", "308"}[r.Intn(2)]
			if !post {
				code = redir[r.Intn(len(redir))]
			}
			hop := qq
			if r.Intn(12) == 0 {
				code, hop = redir[r.Intn(3)], q()
			}
			w[order[i]] = fmt.Sprintf("%s>%d%s", code, order[i+1], hop)
		}
		if r.Intn(2) == 0 && n+0 < len(order) {
			w[order[n]] = "200"
		}
		w[5] = "x"
		return w
	}
	for i := range w {
		switch x := r.Intn(100); {
		case x < 45-class*10: // class 0: redirect-heavy
			w[i] = plain[r.Intn(len(plain))]
		case x < 85:
			w[i] = fmt.Sprintf("%s>%d%s", redir[r.Intn(len(redir))], r.Intn(vfRdEndpoints), q())
		case x < 90:
			w[i] = redir[r.Intn(len(redir))] // a redirect status without Location
		default:
			// a Location on a status that is not a redirect (201 Created, 300, 304, 200): never followed
			w[i] = fmt.Sprintf("%s>%d%s", []string{"201", "300", "304", "200", "305", "404"}[r.Intn(6)], r.Intn(vfRdEndpoints), q())
		}
	}
	w[5] = "x"
	return w
}

func TestVerifN2HRedirectBin(t *testing.T) {
	bin := os.Getenv("VF_E8_N2H_BIN")
	if bin == "" {
		t.Skip("needs the nsq_to_http binary")
	}
	out := vfOpen("n2h_redirect")
	defer out.Close()
	r := vfNewRand(0xC3C3)
	n := vfEnvInt("VERIF_N", 160)
	stub := &vfRdStub{script: make([]string, vfRdEndpoints)}
	srv := vfHTTPServer(stub)
	defer srv.Close()
	stub.base = srv.URL
	hl, err := vfListen()
	if err != nil {
		t.Fatal(err)
	}
	defer hl.Close()
	stub.hang = hl.Addr().String()
	go stub.serveHang(hl)

	// the committed witnesses first (corpus/C20/known/redirect_drops_body.txt: `post mode naddr world bodyhex` per line)
	var corpus []vfRdCase
	for _, l := range vfKnownLines("follows-redirect-drops-body") {
		f := strings.Fields(l)
		if len(f) != 5 {
			continue
		}
		var na int
		fmt.Sscanf(f[2], "%d", &na)
		w := strings.Split(f[3], ",")
		if len(w) > vfRdEndpoints || (len(w) > 5 && w[5] != "x") {
			fmt.Printf("REDIRECT-ERROR corpus line `%s`: at most 12 endpoints, endpoint 5 is `x`\n", l)
			continue
		}
		var body []byte
		fmt.Sscanf(f[4], "%x", &body)
		corpus = append(corpus, vfRdCase{f[0] == "1", f[1], na, vfRdNorm(w), body})
	}
	type cfg struct {
		post  bool
		mode  string
		naddr int
	}
	cfgs := []cfg{{true, "rr", 1}, {false, "rr", 1}, {true, "all", 2}, {false, "rr", 2}, {true, "rr", 2}, {false, "all", 2}}
	hist := map[string]int{}
	client := -1
	probes := 0
	p307, p302 := 0, 0
	id := 0
	total := 0
	for ci, c := range cfgs {
		var cases []vfRdCase
		if ci == 0 {
			// probes: a POST answered `307 Location: /e1` resp. `302 Location: /e1`, /e1 answers 200 — does a second request arrive?
			cases = append(cases, vfRdCase{true, "rr", 1, vfRdNorm([]string{"307>1", "200"}), []byte("probe307")})
			cases = append(cases, vfRdCase{true, "rr", 1, vfRdNorm([]string{"302>1", "200"}), []byte("probe302")})
		}
		for _, k := range corpus {
			if k.post == c.post && k.mode == c.mode && k.naddr == c.naddr {
				cases = append(cases, k)
			}
		}
		for k := 0; k < n/len(cfgs); k++ {
			body := r.Bytes(1 + r.Intn(20))
			if r.Intn(3) == 0 {
				body = []byte(fmt.Sprintf("msg %d &=%%+/?", k))
			}
			cases = append(cases, vfRdCase{c.post, c.mode, c.naddr, vfRdGenWorld(r, k%4, c.post), body})
		}
		src := vfNewStubNsqd()
		// a short request timeout only bounds the damage of a tree whose client follows redirect loops for ever
		args := []string{"--nsqd-tcp-address", src.addr, "--topic", "t", "--channel", "c", "--http-client-request-timeout", "4s"}
		if c.mode == "rr" {
			args = append(args, "--mode", "round-robin")
		} else {
			args = append(args, "--mode", "all") // any unknown mode string selects ModeAll
		}
		for a := 0; a < c.naddr; a++ {
			if c.post {
				args = append(args, "--post", fmt.Sprintf("%s/e%d", srv.URL, a))
			} else {
				args = append(args, "--get", fmt.Sprintf("%s/e%d?d=%%s", srv.URL, a))
			}
		}
		cmd := exec.Command(bin, args...)
		cmd.Stderr = nil
		cmd.SysProcAttr = &syscall.SysProcAttr{Pdeathsig: syscall.SIGKILL} // no orphan if this harness is killed by its timeout
		if err := cmd.Start(); err != nil {
			t.Fatal(err)
		}
		exited := make(chan error, 1)
		go func() { exited <- cmd.Wait() }()
		for k := 0; k < 5000 && !src.Subscribed(); k++ {
			time.Sleep(2 * time.Millisecond)
		}
		if !src.Subscribed() {
			fmt.Printf("REDIRECT-ERROR config=%d the tool did not subscribe\n", ci)
			cmd.Process.Kill()
			<-exited
			src.Down()
			continue
		}
		counter := 0
		type pend struct {
			k    vfRdCase
			line string
			id   int
			ctr  int
		}
		var held []pend // the probe cases are written once the client code is known
		for _, k := range cases {
			id++
			stub.mu.Lock()
			copy(stub.script, k.world)
			stub.wire = nil
			stub.mu.Unlock()
			src.Deliver(fmt.Sprintf("%016d", id), 1, k.body)
			resp := "none"
			select {
			case x := <-src.Resp:
				resp = strings.ToLower(strings.Fields(x)[0])
			case <-time.After(30 * time.Second):
			}
			stub.mu.Lock()
			wire := append([]vfRdWire{}, stub.wire...)
			stub.mu.Unlock()
			var ws []string
			for _, x := range wire {
				ws = append(ws, fmt.Sprintf("%d:%s:%s:%s", x.ep, x.method, x.payload, x.status))
			}
			b2i := func(b bool) int {
				if b {
					return 1
				}
				return 0
			}
			emit := func(k vfRdCase, ctr, id int, line string) {
				out.Case(fmt.Sprintf("rd %d %s %d %d %d %d %s %s", client, k.mode, k.naddr, b2i(k.post), ctr, id, vfHex(k.body),
					strings.Join(k.world, ",")), line)
			}
			line := fmt.Sprintf("%s | %s", resp, strings.Join(ws, " "))
			if probes < 2 { // the two probe cases
				if probes == 0 {
					p307 = b2i(len(wire) > 1)
				} else {
					p302 = b2i(len(wire) > 1)
				}
				probes++
				held = append(held, pend{k, line, id, counter})
				if probes == 2 {
					client = []int{0, 3, 2, 1}[p307*2+p302]
					fmt.Printf("REDIRECT-PROBE client=%d follows307=%d follows302=%d\n", client, p307, p302)
					for _, h := range held {
						emit(h.k, h.ctr, h.id, h.line)
					}
				}
			} else {
				emit(k, counter, id, line)
			}
			counter++
			total++
			first := "none"
			if len(wire) > 0 {
				first = wire[0].status
				if wire[0].ep < vfRdEndpoints && strings.Contains(k.world[wire[0].ep], ">") {
					first += ">loc"
				}
			}
			hist[fmt.Sprintf("post=%d first=%s %s", b2i(k.post), first, resp)]++
			hist[fmt.Sprintf("chain-requests=%d", len(wire))]++
		}
		cmd.Process.Signal(syscall.SIGTERM)
		select {
		case <-exited:
		case <-time.After(10 * time.Second):
			cmd.Process.Kill()
			<-exited
		}
		src.Down()
	}
	keys := []string{}
	for k := range hist {
		keys = append(keys, k)
	}
	sort.Strings(keys)
	for _, k := range keys {
		fmt.Printf("HIST %s %d\n", strings.ReplaceAll(k, " ", "_"), hist[k])
	}
	fmt.Printf("ORACLE-DONE redirect cases=%d\n", total)
}
