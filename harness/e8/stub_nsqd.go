package main

// A scripted stand-in for a destination nsqd (TCP protocol V2, producer side only): accepts the
// magic, answers IDENTIFY with OK, records every PUB body and answers it as the script says.
// Compiled into the harness of apps/to_nsq and apps/nsq_to_nsq.

import (
	"bufio"
	"encoding/binary"
	"fmt"
	"io"
	"net"
	"strings"
	"sync"
	"time"
)

type vfStubPub struct {
	Topic string
	Body  []byte
	Verb  string // what the stub answered: ok | err | close | stall
}

type vfStubNsqd struct {
	// consumer side (source nsqd): the subscribed connection and the FIN/REQ commands it sent
	sub    net.Conn
	Resp   chan string
	mu     sync.Mutex
	ln     net.Listener
	addr   string
	pubs   []vfStubPub
	next   []string // scripted answers for the coming PUBs (default ok)
	conns  []net.Conn
	notify chan struct{}
	delay  time.Duration // slow destination: wait this long before a PUB is recorded and answered
	// audit round 7 (C14): a destination that REFUSES bodies longer than maxBody (0 = no limit). maxVerb "" answers as nsqd
	// does for a body above --max-msg-size (E_BAD_MESSAGE frame, then the connection is closed), "err" answers E_PUB_FAILED.
	maxBody int
	maxVerb string
}

func vfNewStubNsqd() *vfStubNsqd {
	// a loopback address private to this process (vfLoopback), not 127.0.0.1: the stub is taken Down and comes Up again on
	// the same port while the tool under test keeps reconnecting — on 127.0.0.1 the kernel could hand the port to a daemon
	// of another check running in parallel (the tool would then publish into a foreign nsqd) or to anybody's source port
	ln, err := vfListen()
	if err != nil {
		panic(err)
	}
	s := &vfStubNsqd{ln: ln, addr: ln.Addr().String(), notify: make(chan struct{}, 1024), Resp: make(chan string, 1024)}
	go s.accept(ln)
	return s
}

func (s *vfStubNsqd) accept(ln net.Listener) {
	for {
		c, err := ln.Accept()
		if err != nil {
			return
		}
		s.mu.Lock()
		s.conns = append(s.conns, c)
		s.mu.Unlock()
		go s.serve(c)
	}
}

// Down closes the listener and every connection (connection refused from now on); Up listens again.
func (s *vfStubNsqd) Down() {
	s.mu.Lock()
	defer s.mu.Unlock()
	if s.ln != nil {
		s.ln.Close()
		s.ln = nil
	}
	for _, c := range s.conns {
		c.Close()
	}
	s.conns = nil
}

func (s *vfStubNsqd) Up() {
	s.mu.Lock()
	defer s.mu.Unlock()
	if s.ln != nil {
		return
	}
	// The port was handed out by the kernel (":0") and is free while the stub is down: on a busy machine another
	// process's outgoing connection can get it as its ephemeral source port, and Listen then fails with EADDRINUSE for
	// as long as that connection lives (seen once in a thorough sweep: `listen tcp 127.0.0.1:37333: bind: address
	// already in use` = a false alarm on the unchanged tree). Such connections are short-lived: wait for the port.
	// Since the stub listens on a process-private IP (vfNewStubNsqd) that cannot happen any more — outgoing connections
	// get 127.0.0.1 as their source address — and nobody else binds this IP; the retry stays as a cheap safety net.
	var ln net.Listener
	var err error
	for i := 0; i < 1200; i++ {
		ln, err = net.Listen("tcp", s.addr)
		if err == nil {
			break
		}
		if i == 0 {
			println("STUB-NOTE listen", s.addr, "failed, retrying for up to 30 s:", err.Error())
		}
		time.Sleep(25 * time.Millisecond)
	}
	if err != nil {
		panic(err)
	}
	s.ln = ln
	go s.accept(ln)
}

func (s *vfStubNsqd) Script(verbs ...string) {
	s.mu.Lock()
	s.next = append(s.next, verbs...)
	s.mu.Unlock()
}

func (s *vfStubNsqd) Count() int {
	s.mu.Lock()
	defer s.mu.Unlock()
	return len(s.pubs)
}

func (s *vfStubNsqd) Since(n int) []vfStubPub {
	s.mu.Lock()
	defer s.mu.Unlock()
	return append([]vfStubPub{}, s.pubs[n:]...)
}

// Deliver sends one MESSAGE frame (timestamp, attempts, id, body) to the subscribed consumer.
func (s *vfStubNsqd) Deliver(id string, attempts uint16, body []byte) {
	s.mu.Lock()
	c := s.sub
	s.mu.Unlock()
	buf := make([]byte, 8+8+2+16+len(body))
	binary.BigEndian.PutUint32(buf[0:], uint32(4+8+2+16+len(body)))
	binary.BigEndian.PutUint32(buf[4:], 2)
	binary.BigEndian.PutUint64(buf[8:], 1)
	binary.BigEndian.PutUint16(buf[16:], attempts)
	copy(buf[18:34], id)
	copy(buf[34:], body)
	c.Write(buf)
}

func (s *vfStubNsqd) Subscribed() bool {
	s.mu.Lock()
	defer s.mu.Unlock()
	return s.sub != nil
}

func vfStubFrame(w io.Writer, typ int32, data string) {
	buf := make([]byte, 8+len(data))
	binary.BigEndian.PutUint32(buf[0:], uint32(4+len(data)))
	binary.BigEndian.PutUint32(buf[4:], uint32(typ))
	copy(buf[8:], data)
	w.Write(buf)
}

func (s *vfStubNsqd) serve(c net.Conn) {
	defer c.Close()
	r := bufio.NewReader(c)
	magic := make([]byte, 4)
	if _, err := io.ReadFull(r, magic); err != nil {
		return
	}
	for {
		line, err := r.ReadString('\n')
		if err != nil {
			return
		}
		w := strings.Fields(line)
		if len(w) == 0 {
			continue
		}
		switch w[0] {
		case "IDENTIFY":
			var sz uint32
			if binary.Read(r, binary.BigEndian, &sz) != nil {
				return
			}
			if _, err := io.CopyN(io.Discard, r, int64(sz)); err != nil {
				return
			}
			vfStubFrame(c, 0, "OK")
		case "PUB":
			var sz uint32
			if binary.Read(r, binary.BigEndian, &sz) != nil {
				return
			}
			body := make([]byte, sz)
			if _, err := io.ReadFull(r, body); err != nil {
				return
			}
			if s.delay > 0 {
				time.Sleep(s.delay)
			}
			s.mu.Lock()
			verb := "ok"
			if len(s.next) > 0 {
				verb, s.next = s.next[0], s.next[1:]
			}
			if s.maxBody > 0 && len(body) > s.maxBody {
				verb = "toobig" + s.maxVerb
			}
			s.pubs = append(s.pubs, vfStubPub{Topic: w[1], Body: body, Verb: verb})
			s.mu.Unlock()
			select {
			case s.notify <- struct{}{}:
			default:
			}
			switch verb {
			case "ok":
				vfStubFrame(c, 0, "OK")
			case "err":
				vfStubFrame(c, 1, "E_PUB_FAILED PUB failed")
			case "close":
				return
			case "stall":
			case "toobig":
				vfStubFrame(c, 1, "E_BAD_MESSAGE PUB message too big")
				return
			case "toobigerr":
				vfStubFrame(c, 1, "E_PUB_FAILED PUB failed")
			}
		case "SUB":
			s.mu.Lock()
			s.sub = c
			s.mu.Unlock()
			vfStubFrame(c, 0, "OK")
		case "RDY", "TOUCH":
		case "FIN", "REQ":
			s.Resp <- strings.TrimSpace(line)
		case "NOP":
		case "CLS":
			vfStubFrame(c, 0, "CLOSE_WAIT")
			return
		default:
			return
		}
	}
}

// vfGiveUpAttempts: the built-in attempts plus those of the committed replay file (lines `tool=<tool> … attempts=N`)
func vfGiveUpAttempts(tool string, base []uint16) []uint16 {
	for _, l := range vfKnownLines("gives-up-after-max-attempts") {
		if !strings.Contains(l, "tool="+tool+" ") {
			continue
		}
		for _, f := range strings.Fields(l) {
			var n uint16
			if _, err := fmt.Sscanf(f, "attempts=%d", &n); err == nil {
				dup := false
				for _, b := range base {
					dup = dup || b == n
				}
				if !dup {
					base = append(base, n)
				}
			}
		}
	}
	return base
}
