package main

// A scripted stand-in for a destination nsqd (TCP protocol V2, producer side only): accepts the
// magic, answers IDENTIFY with OK, records every PUB body and answers it as the script says.
// Compiled into the harness of apps/to_nsq and apps/nsq_to_nsq.

import (
	"bufio"
	"encoding/binary"
	"io"
	"net"
	"strings"
	"sync"
	"time"
)

type vfStubPub struct {
	Topic string
	Body  []byte
	Verb  string // what the stub answered: ok | err | close | stall
}

type vfStubNsqd struct {
	// consumer side (source nsqd): the subscribed connection and the FIN/REQ commands it sent
	sub    net.Conn
	Resp   chan string
	mu     sync.Mutex
	ln     net.Listener
	addr   string
	pubs   []vfStubPub
	next   []string // scripted answers for the coming PUBs (default ok)
	conns  []net.Conn
	notify chan struct{}
	delay  time.Duration // slow destination: wait this long before a PUB is recorded and answered
}

func vfNewStubNsqd() *vfStubNsqd {
	ln, err := net.Listen("tcp", "127.0.0.1:0")
	if err != nil {
		panic(err)
	}
	s := &vfStubNsqd{ln: ln, addr: ln.Addr().String(), notify: make(chan struct{}, 1024), Resp: make(chan string, 1024)}
	go s.accept(ln)
	return s
}

func (s *vfStubNsqd) accept(ln net.Listener) {
	for {
		c, err := ln.Accept()
		if err != nil {
			return
		}
		s.mu.Lock()
		s.conns = append(s.conns, c)
		s.mu.Unlock()
		go s.serve(c)
	}
}

// Down closes the listener and every connection (connection refused from now on); Up listens again.
func (s *vfStubNsqd) Down() {
	s.mu.Lock()
	defer s.mu.Unlock()
	if s.ln != nil {
		s.ln.Close()
		s.ln = nil
	}
	for _, c := range s.conns {
		c.Close()
	}
	s.conns = nil
}

func (s *vfStubNsqd) Up() {
	s.mu.Lock()
	defer s.mu.Unlock()
	if s.ln != nil {
		return
	}
	ln, err := net.Listen("tcp", s.addr)
	if err != nil {
		panic(err)
	}
	s.ln = ln
	go s.accept(ln)
}

func (s *vfStubNsqd) Script(verbs ...string) {
	s.mu.Lock()
	s.next = append(s.next, verbs...)
	s.mu.Unlock()
}

func (s *vfStubNsqd) Count() int {
	s.mu.Lock()
	defer s.mu.Unlock()
	return len(s.pubs)
}

func (s *vfStubNsqd) Since(n int) []vfStubPub {
	s.mu.Lock()
	defer s.mu.Unlock()
	return append([]vfStubPub{}, s.pubs[n:]...)
}

// Deliver sends one MESSAGE frame (timestamp, attempts, id, body) to the subscribed consumer.
func (s *vfStubNsqd) Deliver(id string, attempts uint16, body []byte) {
	s.mu.Lock()
	c := s.sub
	s.mu.Unlock()
	buf := make([]byte, 8+8+2+16+len(body))
	binary.BigEndian.PutUint32(buf[0:], uint32(4+8+2+16+len(body)))
	binary.BigEndian.PutUint32(buf[4:], 2)
	binary.BigEndian.PutUint64(buf[8:], 1)
	binary.BigEndian.PutUint16(buf[16:], attempts)
	copy(buf[18:34], id)
	copy(buf[34:], body)
	c.Write(buf)
}

func (s *vfStubNsqd) Subscribed() bool {
	s.mu.Lock()
	defer s.mu.Unlock()
	return s.sub != nil
}

func vfStubFrame(w io.Writer, typ int32, data string) {
	buf := make([]byte, 8+len(data))
	binary.BigEndian.PutUint32(buf[0:], uint32(4+len(data)))
	binary.BigEndian.PutUint32(buf[4:], uint32(typ))
	copy(buf[8:], data)
	w.Write(buf)
}

func (s *vfStubNsqd) serve(c net.Conn) {
	defer c.Close()
	r := bufio.NewReader(c)
	magic := make([]byte, 4)
	if _, err := io.ReadFull(r, magic); err != nil {
		return
	}
	for {
		line, err := r.ReadString('\n')
		if err != nil {
			return
		}
		w := strings.Fields(line)
		if len(w) == 0 {
			continue
		}
		switch w[0] {
		case "IDENTIFY":
			var sz uint32
			if binary.Read(r, binary.BigEndian, &sz) != nil {
				return
			}
			if _, err := io.CopyN(io.Discard, r, int64(sz)); err != nil {
				return
			}
			vfStubFrame(c, 0, "OK")
		case "PUB":
			var sz uint32
			if binary.Read(r, binary.BigEndian, &sz) != nil {
				return
			}
			body := make([]byte, sz)
			if _, err := io.ReadFull(r, body); err != nil {
				return
			}
			if s.delay > 0 {
				time.Sleep(s.delay)
			}
			s.mu.Lock()
			verb := "ok"
			if len(s.next) > 0 {
				verb, s.next = s.next[0], s.next[1:]
			}
			s.pubs = append(s.pubs, vfStubPub{Topic: w[1], Body: body, Verb: verb})
			s.mu.Unlock()
			select {
			case s.notify <- struct{}{}:
			default:
			}
			switch verb {
			case "ok":
				vfStubFrame(c, 0, "OK")
			case "err":
				vfStubFrame(c, 1, "E_PUB_FAILED PUB failed")
			case "close":
				return
			case "stall":
			}
		case "SUB":
			s.mu.Lock()
			s.sub = c
			s.mu.Unlock()
			vfStubFrame(c, 0, "OK")
		case "RDY", "TOUCH":
		case "FIN", "REQ":
			s.Resp <- strings.TrimSpace(line)
		case "NOP":
		case "CLS":
			vfStubFrame(c, 0, "CLOSE_WAIT")
			return
		default:
			return
		}
	}
}
