package main

// Correspondence + direct oracle for apps/nsq_to_file (property C19).
//
// The binary is built with `-tags verif,faketime` and CGO_ENABLED=0: the Go runtime then runs on
// its deterministic fake clock (time only advances when every goroutine is blocked), so the
// harness owns the clock of the real `FileLogger.router()`: `time.Sleep(1ns)` is a barrier
// ("router is back in its select"), sleeping to the next multiple of --sync-interval makes the
// router's ticker fire exactly once, file names roll over exactly when the script says so.
//
// Parent test: generates scripts, runs each in a child process (the router calls os.Exit(1) on
// I/O errors), collects one op line + one answer line per event. Child: runs one script through
// the real router with recording message delegates.

import (
	"bufio"
	"bytes"
	"compress/gzip"
	"encoding/hex"
	"encoding/json"
	"fmt"
	"io"
	"os"
	"os/exec"
	"path/filepath"
	"reflect"
	"regexp"
	"sort"
	"strings"
	"sync"
	"syscall"
	"testing"
	"time"
	"unsafe"

	"github.com/nsqio/go-nsq"
	"github.com/nsqio/nsq/internal/lg"
)

type vfE8Event struct {
	Kind string `json:"kind"` // msg | adv | tick | hup | termstop
	Body string `json:"body,omitempty"`
	Adv  int64  `json:"adv,omitempty"` // ns
	// msg only: state of the consumer's (single, crafted) connection at this event — decides the real
	// consumer.IsStarved(): 0 = no connection state change, otherwise index into vfE8StarveShapes
	Starve int `json:"starve,omitempty"`
	// fault injected into this event (audit C30.1): "" | "killfin:<n>" (SIGKILL before the n-th Finish of the event) |
	// "errfirst" (the first system call on f.out fails: EBADF) | "errafterfins" (the first one after the FIN batch fails) |
	// "killlog:sync" (msg: SIGKILL between the writes and Sync()) | "killlog:move" (SIGKILL in Close() before the move's link)
	Fault string `json:"fault,omitempty"`
}

type vfE8Pre struct {
	Dir   string `json:"dir"`    // "w" | "o"
	AtSec int64  `json:"at_sec"` // filename as computed this many seconds after the start
	Rev   int    `json:"rev"`
	Data  string `json:"data"` // hex payload
}

type vfE8Script struct {
	GZIP           bool         `json:"gzip"`
	RotateSize     int64        `json:"rotate_size"`
	RotateInterval int64        `json:"rotate_interval"` // ns
	WorkDir        bool         `json:"work_dir"`
	SkipEmpty      bool         `json:"skip_empty"`
	MaxInFlight    int          `json:"max_in_flight"`
	SyncInterval   int64        `json:"sync_interval"` // ns
	DatetimeFormat string       `json:"datetime_format"`
	FilenameFormat string       `json:"filename_format"`
	Pre            []vfE8Pre    `json:"pre"`
	Events         []vfE8Event  `json:"events"`
}

// ---------------------------------------------------------------- shared helpers

// vfE8DecodeStrict reads a gzip output file to its end (audit C29: the old decoder silently stopped at the first
// thing it could not read). Returns the payload of the complete members and
//   "ok"      – the file is a sequence of complete members and nothing else (an empty file included);
//   "torn"    – the file ends inside a member (header, deflate stream or trailer cut short): the state a kill or an
//               os.Exit leaves behind for the member that was open; its bytes are in no one's payload;
//   "corrupt" – bytes that are no gzip member where one has to start (garbage after the last member, bad magic),
//               a bad checksum or a broken deflate stream.
func vfE8DecodeStrict(raw []byte) ([]byte, string) {
	var out []byte
	bb := bufio.NewReader(bytes.NewReader(raw))
	for {
		if _, err := bb.Peek(1); err != nil {
			return out, "ok"
		}
		// a member starts with 1f 8b 08; fewer bytes than that are a cut header only if they are a prefix of it
		// (gzip.NewReader answers "unexpected EOF" for any short tail, garbage included)
		head, _ := bb.Peek(3)
		if !bytes.HasPrefix([]byte{0x1f, 0x8b, 0x08}, head) {
			return out, "corrupt"
		}
		zr, err := gzip.NewReader(bb)
		if err == nil {
			zr.Multistream(false)
			var member []byte
			member, err = io.ReadAll(zr)
			if err == nil {
				out = append(out, member...)
				continue
			}
		}
		if err == io.ErrUnexpectedEOF || err == io.EOF {
			return out, "torn"
		}
		return out, "corrupt"
	}
}

// vfE8Decode returns what a reader can decode from the file: plain → the bytes; gzip → the payload
// of the complete members (a torn trailing member contributes nothing; see vfE8DecodeStrict for the status).
func vfE8Decode(raw []byte, gz bool) []byte {
	if !gz {
		return raw
	}
	out, _ := vfE8DecodeStrict(raw)
	return out
}

// vfE8GzStatus: relative name → status of vfE8DecodeStrict for every file under root/w and root/o.
func vfE8GzStatus(root string) map[string]string {
	res := map[string]string{}
	for _, d := range []string{"w", "o"} {
		filepath.Walk(filepath.Join(root, d), func(p string, fi os.FileInfo, err error) error {
			if err != nil || fi.IsDir() {
				return nil
			}
			if raw, err := os.ReadFile(p); err == nil {
				rel, _ := filepath.Rel(root, p)
				_, res[rel] = vfE8DecodeStrict(raw)
			}
			return nil
		})
	}
	return res
}

// vfE8Tree lists root/w and root/o: relative name → decoded content.
func vfE8Tree(root string, gz bool) map[string][]byte {
	res := map[string][]byte{}
	for _, d := range []string{"w", "o"} {
		filepath.Walk(filepath.Join(root, d), func(p string, fi os.FileInfo, err error) error {
			if err != nil || fi.IsDir() {
				return nil
			}
			raw, err := os.ReadFile(p)
			if err != nil {
				return nil
			}
			rel, _ := filepath.Rel(root, p)
			res[rel] = vfE8Decode(raw, gz)
			return nil
		})
	}
	return res
}

func vfE8TreeLine(tree map[string][]byte, full bool) string {
	var items []string
	for n, c := range tree {
		if full {
			items = append(items, n+"="+vfHex(c))
		} else {
			items = append(items, fmt.Sprintf("%s:%d", n, len(c)))
		}
	}
	sort.Strings(items)
	return strings.Join(items, ",")
}

// vfE8LineStarts lists the offsets of `rec` in `c` that begin a line (offset 0 or preceded by "\n").
// `rec` always ends in "\n", so such an occurrence is a run of whole lines of the file.
func vfE8LineStarts(c, rec []byte) []int {
	var res []int
	for from := 0; from <= len(c)-len(rec); {
		i := bytes.Index(c[from:], rec)
		if i < 0 {
			break
		}
		o := from + i
		if o == 0 || c[o-1] == '\n' {
			res = append(res, o)
		}
		from = o + 1
	}
	return res
}

// vfE8HasLine: `line` (= body + "\n") occupies whole lines of some file (audit C5/C30: not a mere substring —
// "rec0\nbodyAbodyB\n" holds neither bodyA nor bodyB).
func vfE8HasLine(tree map[string][]byte, line []byte) bool {
	for _, c := range tree {
		if len(vfE8LineStarts(c, line)) > 0 {
			return true
		}
	}
	return false
}

// vfE8OwnLines is the multiset form: every record recs[i] (= body + "\n") must be placed at a line start of
// some file, the placed byte ranges pairwise disjoint (three finished messages need three records; an empty
// body needs an empty line of its own). Returns the indices that could not be placed. Most-constrained
// records first (fewest candidate offsets, longest first); the only records with several candidates are
// equal ones (empty bodies), for which any choice of free offsets is as good as any other.
func vfE8OwnLines(tree map[string][]byte, recs [][]byte) []int {
	names := make([]string, 0, len(tree))
	for n := range tree {
		names = append(names, n)
	}
	sort.Strings(names)
	type cand struct{ file, off int }
	cands := make([][]cand, len(recs))
	for i, rec := range recs {
		for fi, n := range names {
			for _, o := range vfE8LineStarts(tree[n], rec) {
				cands[i] = append(cands[i], cand{fi, o})
			}
		}
	}
	order := make([]int, len(recs))
	for i := range order {
		order[i] = i
	}
	sort.SliceStable(order, func(a, b int) bool {
		ia, ib := order[a], order[b]
		if len(cands[ia]) != len(cands[ib]) {
			return len(cands[ia]) < len(cands[ib])
		}
		return len(recs[ia]) > len(recs[ib])
	})
	used := make([][]bool, len(names))
	for fi, n := range names {
		used[fi] = make([]bool, len(tree[n]))
	}
	var missing []int
	for _, i := range order {
		placed := false
		for _, c := range cands[i] {
			free := true
			for k := c.off; k < c.off+len(recs[i]); k++ {
				if used[c.file][k] {
					free = false
					break
				}
			}
			if free {
				for k := c.off; k < c.off+len(recs[i]); k++ {
					used[c.file][k] = true
				}
				placed = true
				break
			}
		}
		if !placed {
			missing = append(missing, i)
		}
	}
	sort.Ints(missing)
	return missing
}

// ---------------------------------------------------------------- seams: starvation, faults, branch trace

// vfE8StarveShapes: (RDY, messages in flight, closing) of the consumer's connection. go-nsq's rule
// (consumer.go IsStarved): inFlight >= int64(float64(RDY)*0.85) && inFlight > 0 && !closing.
var vfE8StarveShapes = [][3]int64{
	{0, 0, 0},   // index 0 is "leave as is" in a script; as a shape: idle connection
	{10, 9, 0},  // starved
	{10, 8, 0},  // starved: exactly at the threshold int64(8.5) = 8
	{10, 7, 0},  // not starved: one below
	{1, 1, 0},   // starved (max-in-flight 1 style)
	{200, 1, 0}, // not starved
	{10, 9, 1},  // closing: not starved
	{0, 3, 0},   // RDY 0 with messages in flight (backoff): starved
	{5, 0, 0},   // nothing in flight: not starved
}

// vfE8Conn is a connection object of the real go-nsq Consumer, registered in its (unexported) connection map so
// that the router's own `f.consumer.IsStarved()` call evaluates the real rule on it. It is never dialled.
type vfE8Conn struct {
	c    *nsq.Conn
	cons *nsq.Consumer
}

func vfE8Field(obj interface{}, name string) reflect.Value {
	fv := reflect.ValueOf(obj).Elem().FieldByName(name)
	return reflect.NewAt(fv.Type(), unsafe.Pointer(fv.UnsafeAddr())).Elem()
}

func vfE8NewConn(cons *nsq.Consumer, cfg *nsq.Config) *vfE8Conn {
	return &vfE8Conn{c: nsq.NewConn("127.0.0.1:1", cfg, nil), cons: cons}
}

func (v *vfE8Conn) attach(on bool) {
	mtx := vfE8Field(v.cons, "mtx").Addr().Interface().(*sync.RWMutex)
	mtx.Lock()
	defer mtx.Unlock()
	m := vfE8Field(v.cons, "connections")
	if on {
		m.SetMapIndex(reflect.ValueOf("127.0.0.1:1"), reflect.ValueOf(v.c))
	} else {
		m.SetMapIndex(reflect.ValueOf("127.0.0.1:1"), reflect.Value{}) // Stop() must not try to write CLS to it
	}
}

func (v *vfE8Conn) set(shape [3]int64) {
	vfE8Field(v.c, "rdyCount").SetInt(shape[0])
	vfE8Field(v.c, "messagesInFlight").SetInt(shape[1])
	vfE8Field(v.c, "closeFlag").SetInt(shape[2])
}

// vfE8BreakOut makes later system calls on the descriptor of f.out fail; the returned function puts the real file
// back. writesOnly = false: the number now refers to an O_PATH descriptor — write, fsync: EBADF. writesOnly = true:
// it refers to a read-only descriptor of the SAME file — write(2) fails with EBADF, fsync and close succeed (the
// "disk full, fsync fine" shape: a tool that drops the write error would sync, FIN and have lost the record).
func vfE8BreakOut(out *os.File, writesOnly bool) (restore func()) {
	fd := int(out.Fd())
	if fd < 0 {
		return func() {}
	}
	saved, err := syscall.Dup(fd)
	if err != nil {
		return func() {}
	}
	const oPath = 0x200000
	var pfd int
	if writesOnly {
		pfd, err = syscall.Open(out.Name(), syscall.O_RDONLY, 0)
	} else {
		pfd, err = syscall.Open("/", oPath, 0)
	}
	if err != nil {
		syscall.Close(saved)
		return func() {}
	}
	syscall.Dup3(pfd, fd, 0)
	syscall.Close(pfd)
	return func() {
		syscall.Dup3(saved, fd, 0)
		syscall.Close(saved)
	}
}

func vfE8OutOpen(f *FileLogger) bool {
	return f.out != nil && int(f.out.Fd()) >= 0
}

// vfE8GzFresh: gzip mode, no Write since the member was started (the next Write puts the header on the file
// by a write(2) of its own; later Writes only fill the compressor's buffer).
func vfE8GzFresh(f *FileLogger) bool {
	if f.gzipWriter == nil {
		return false
	}
	return !reflect.ValueOf(f.gzipWriter).Elem().FieldByName("wroteHeader").Bool()
}

var vfE8SlugRe = regexp.MustCompile(`[^a-zA-Z]+`)

// vfE8LogSlug turns the format string of a log call of the tool into a branch name.
func vfE8LogSlug(format string) string {
	format = strings.TrimPrefix(format, "[%s/%s] ")
	format = strings.NewReplacer("%s", "", "%d", "", "%v", "").Replace(format)
	w := strings.FieldsFunc(vfE8SlugRe.ReplaceAllString(format, " "), func(r rune) bool { return r == ' ' })
	if len(w) > 6 {
		w = w[:6]
	}
	return strings.ToLower(strings.Join(w, "-"))
}

// ---------------------------------------------------------------- child

type vfE8Rec struct {
	mu   sync.Mutex
	res  *os.File
	root string
	gz   bool
	fins []string
	done [][]byte // records (body + "\n") of every message finished so far, this one included
	// fault injection, armed per event by the script driver
	evFins   int    // Finish calls seen in the current event
	killAt   int    // > 0: SIGKILL this process before the killAt-th Finish of the event is recorded
	swapAt   int    // > 0: at the swapAt-th Finish of the event make every later system call on f.out fail
	swapFunc func() // does the swap
	total    int
}

func (r *vfE8Rec) OnFinish(m *nsq.Message) {
	// Runs on the router goroutine, at the instant the FIN would be sent: the record must
	// already be readable from a file (for gzip: from a complete member).
	id := strings.TrimRight(string(m.ID[:]), "\x00")
	line := append(append([]byte{}, m.Body...), '\n')
	ok := "ok"
	r.mu.Lock()
	r.evFins++
	if r.killAt > 0 && r.evFins == r.killAt {
		// a real SIGKILL, before this Finish counts: the model's `Fault.kill` at this primitive
		fmt.Fprintf(r.res, "KILLSELF\n")
		syscall.Kill(os.Getpid(), syscall.SIGKILL)
		select {}
	}
	if r.swapAt > 0 && r.evFins == r.swapAt && r.swapFunc != nil {
		r.swapFunc()
	}
	r.total++
	r.done = append(r.done, line)
	// line-based and multiset: this record AND every record finished before it own disjoint whole lines
	if len(vfE8OwnLines(vfE8Tree(r.root, r.gz), r.done)) > 0 {
		ok = "MISSING"
	}
	r.fins = append(r.fins, id)
	fmt.Fprintf(r.res, "FIN %s %s\n", id, ok) // unbuffered write(2): also the FIN marker of the syscall leg
	r.mu.Unlock()
}
func (r *vfE8Rec) OnRequeue(m *nsq.Message, d time.Duration, b bool) {
	fmt.Fprintf(r.res, "REQ %s\n", strings.TrimRight(string(m.ID[:]), "\x00"))
}
func (r *vfE8Rec) OnTouch(m *nsq.Message) {}

func (r *vfE8Rec) takeFins() string {
	r.mu.Lock()
	defer r.mu.Unlock()
	s := strings.Join(r.fins, " ")
	r.fins = nil
	return s
}

func vfE8NameAt(f *FileLogger, t time.Time) string {
	return strings.Replace(f.filenameFormat, "<DATETIME>", strftime(f.opts.DatetimeFormat, t), -1)
}

// vfE8ProbeCloseClears runs the real Close() once on a throw-away logger whose finished file moves from a work
// dir to an output dir: does it clear f.out on that path (fix F44) or return with the closed descriptor still
// in place (tree before the fix)? The answer is the model parameter Cfg.closeClears.
func vfE8ProbeCloseClears() bool {
	dir, err := os.MkdirTemp("", "vfe8probe")
	if err != nil {
		return false
	}
	defer os.RemoveAll(dir)
	w, o := filepath.Join(dir, "w"), filepath.Join(dir, "o")
	os.MkdirAll(w, 0o755)
	os.MkdirAll(o, 0o755)
	opts := NewOptions()
	opts.WorkDir, opts.OutputDir, opts.Channel = w, o, "c"
	fh, err := os.Create(filepath.Join(w, "probe"))
	if err != nil {
		return false
	}
	f := &FileLogger{logf: func(lvl lg.LogLevel, f string, args ...interface{}) {}, opts: opts, topic: "t", out: fh, writer: fh,
		filename: "probe"}
	f.Close()
	return f.out == nil
}

func TestVerifToFileChild(t *testing.T) {
	casePath := os.Getenv("VF_E8_CASE")
	if casePath == "" {
		t.Skip("child only")
	}
	root := os.Getenv("VF_E8_ROOT")
	raw, err := os.ReadFile(casePath)
	if err != nil {
		t.Fatal(err)
	}
	var sc vfE8Script
	if err := json.Unmarshal(raw, &sc); err != nil {
		t.Fatal(err)
	}
	res, err := os.OpenFile(os.Getenv("VF_E8_RES"), os.O_WRONLY|os.O_CREATE|os.O_APPEND, 0o644)
	if err != nil {
		t.Fatal(err)
	}
	os.MkdirAll(filepath.Join(root, "w"), 0o755)
	os.MkdirAll(filepath.Join(root, "o"), 0o755)

	opts := NewOptions()
	opts.OutputDir = filepath.Join(root, "o")
	opts.WorkDir = opts.OutputDir
	if sc.WorkDir {
		opts.WorkDir = filepath.Join(root, "w")
	}
	opts.GZIP = sc.GZIP
	opts.RotateSize = sc.RotateSize
	opts.RotateInterval = time.Duration(sc.RotateInterval)
	opts.SkipEmptyFiles = sc.SkipEmpty
	opts.MaxInFlight = sc.MaxInFlight
	opts.SyncInterval = time.Duration(sc.SyncInterval)
	opts.DatetimeFormat = sc.DatetimeFormat
	opts.FilenameFormat = sc.FilenameFormat
	opts.HostIdentifier = "h"
	opts.Channel = "c"
	cfg := nsq.NewConfig()
	cfg.MaxInFlight = opts.MaxInFlight
	// every log call of the tool is a branch marker (audit C30.3): which rotation reason, which collision loop,
	// which fatal exit was taken — straight from the real code, keyed by its format string
	killSlug := "" // fault `killlog:*`: SIGKILL at this log call of the tool (a position between two system calls)
	logf := func(lvl lg.LogLevel, f string, args ...interface{}) {
		slug := vfE8LogSlug(f)
		fmt.Fprintf(res, "LOG %s %s\n", lvl.String(), slug)
		if killSlug != "" && slug == killSlug {
			fmt.Fprintf(res, "KILLSELF\n")
			syscall.Kill(os.Getpid(), syscall.SIGKILL)
			select {}
		}
	}
	f, err := NewFileLogger(logf, opts, "t", cfg)
	if err != nil {
		fmt.Fprintf(res, "SETUP-ERROR %s\n", err)
		return
	}
	f.consumer.SetLoggerLevel(nsq.LogLevelError)
	hasRev := strings.Contains(f.filenameFormat, "<REV>")
	b := func(x bool) int {
		if x {
			return 1
		}
		return 0
	}
	say := func(op string) { fmt.Fprintf(res, "OP %s\n", op) }
	ans := func(a string) { fmt.Fprintf(res, "ANS %s\n", a) }
	// c19a: probes — 9th/10th model parameter: router() writes a record with one Write (fix F46), updateFile() seals a
	// torn tail before appending (fix F47); both probed on the real code (harness/e8/tofile_lines_test.go)
	// round 11 (F47b): 11th model parameter — sealTornTail answers a failed READ of the last byte with a warning (1) or with
	// an error = exit (0, committed F47); probed once by the parent on the real updateFile() (vfE8ProbeSealReadWarns, env)
	say(fmt.Sprintf("tf conf %d %d %d %d %d %d %d %d %d %d %d", b(sc.GZIP), sc.RotateSize, sc.RotateInterval, b(sc.WorkDir),
		b(sc.SkipEmpty), sc.MaxInFlight, b(hasRev), b(vfE8ProbeCloseClears()), b(vfE8ProbeOneWrite()), b(vfE8ProbeSealsTail()),
		b(vfE8ProbeSealReadWarns() != 0)))
	ans("ok")
	start := time.Now()
	for _, p := range sc.Pre {
		tmpl := vfE8NameAt(f, start.Add(time.Duration(p.AtSec)*time.Second))
		if !hasRev && p.Rev != 0 {
			continue
		}
		name := strings.Replace(tmpl, "<REV>", fmt.Sprintf("-%06d", p.Rev), -1)
		dir := p.Dir
		if !sc.WorkDir {
			dir = "o"
		}
		full := filepath.Join(root, dir, name)
		if _, err := os.Stat(full); err == nil {
			continue
		}
		payload, _ := hex.DecodeString(p.Data)
		content := payload
		if sc.GZIP {
			var zb bytes.Buffer
			zw := gzip.NewWriter(&zb)
			zw.Write(payload)
			zw.Close()
			content = zb.Bytes()
		}
		if err := os.WriteFile(full, content, 0o644); err != nil {
			t.Fatal(err)
		}
		say(fmt.Sprintf("tf pre %s %s %d %s", dir, vfHex([]byte(tmpl)), p.Rev, vfHex(payload)))
		ans("ok")
	}

	rec := &vfE8Rec{res: res, root: root, gz: sc.GZIP}
	fconn := vfE8NewConn(f.consumer, cfg)
	fconn.attach(true)
	done := make(chan struct{})
	fmt.Fprintf(res, "START\n") // syscall leg: everything before this write(2) is harness set-up
	go func() {
		f.router()
		close(done)
	}()
	barrier := func() { time.Sleep(time.Nanosecond) }
	barrier() // the router created its ticker at `start` and sits in its select
	nextTick := start.Add(opts.SyncInterval)
	status := func() string {
		select {
		case <-done:
			return "done"
		default:
			return "running"
		}
	}
	state := func() string {
		if sc.GZIP {
			// strict decodability at every event boundary (audit C29): nothing is ever corrupt, and only the file the
			// router has open may end in an unfinished member
			open := ""
			if f.out != nil {
				open, _ = filepath.Rel(root, f.out.Name())
			}
			for name, st := range vfE8GzStatus(root) {
				if st == "corrupt" || (st == "torn" && name != open) {
					fmt.Fprintf(res, "GZBAD %s %s\n", name, st)
				}
			}
		}
		return fmt.Sprintf("st=%s fin=[%s] files=%s", status(), rec.takeFins(), vfE8TreeLine(vfE8Tree(root, sc.GZIP), false))
	}
	tick := func() {
		// sleep exactly to the ticker's next firing time, then let the router finish
		say(fmt.Sprintf("tf tick %d %s", nextTick.UnixNano(), vfHex([]byte(vfE8NameAt(f, nextTick)))))
		time.Sleep(nextTick.Sub(time.Now()))
		barrier()
		nextTick = nextTick.Add(opts.SyncInterval)
		ans(state())
	}
	nmsg := 0
	// arm injects the event's fault; it returns the function that disarms it if the process survived the event.
	// The op `tf fault <kind> <where>` tells the model which primitive of the coming event gets which Fault; the
	// model resolves "n-th Finish" / "first primitive after the FIN batch" to a primitive index by itself.
	var arm0 func(ev vfE8Event, body []byte) func()
	arm := func(ev vfE8Event, body []byte) func() {
		undo := arm0(ev, body)
		return func() { // the process survived the event: the fault (if it did not fire) is over
			undo()
			rec.mu.Lock()
			rec.killAt, rec.swapAt, rec.swapFunc = 0, 0, nil
			rec.mu.Unlock()
			killSlug = ""
		}
	}
	arm0 = func(ev vfE8Event, body []byte) func() {
		rec.mu.Lock()
		rec.evFins, rec.killAt, rec.swapAt, rec.swapFunc = 0, 0, 0, nil
		pending := nmsg - rec.total
		if ev.Kind == "msg" {
			pending--
		}
		rec.mu.Unlock()
		switch {
		case strings.HasPrefix(ev.Fault, "killfin:"):
			n := 1
			fmt.Sscanf(ev.Fault, "killfin:%d", &n)
			say(fmt.Sprintf("tf fault kill fin %d", n))
			ans("ok")
			rec.killAt = n
		case ev.Fault == "killlog:sync" && ev.Kind == "msg":
			// between the two write(2)s of the record and Sync(): written, not fsynced, not finished
			say("tf fault kill sync")
			ans("ok")
			killSlug = "syncing-records-to-disk"
		case ev.Fault == "killlog:move":
			// Close(): gzip member closed, fsynced, descriptor closed — killed before the link that starts the move
			say("tf fault kill move")
			ans("ok")
			killSlug = "moving-finished-file-to"
		case ev.Fault == "errfirst":
			// only where the first primitive of the event is a system call on f.out
			ok := vfE8OutOpen(f)
			if ok && ev.Kind == "msg" && !f.needsRotation() {
				ok = len(body) > 0 && (!sc.GZIP || vfE8GzFresh(f)) // a buffered gzip Write is no system call
			}
			if ok && ev.Kind == "tick" {
				ok = pending > 0
			}
			if !ok {
				fmt.Fprintf(res, "FAULTSKIP errfirst\n")
				return func() {}
			}
			say("tf fault err first")
			ans("ok")
			// the first primitive is a write (plain: the body; gzip: header / member close) → only writes fail;
			// it is an fsync (plain, every other case) → everything fails
			writesOnly := sc.GZIP || (ev.Kind == "msg" && !f.needsRotation())
			fmt.Fprintf(res, "FAULTSHAPE errfirst writes-only=%v\n", writesOnly)
			return vfE8BreakOut(f.out, writesOnly)
		case ev.Fault == "errafterfins":
			say("tf fault err afterfins")
			ans("ok")
			var restore func()
			rec.swapAt = 1
			rec.swapFunc = func() {
				if vfE8OutOpen(f) {
					restore = vfE8BreakOut(f.out, sc.GZIP) // next on f.out: gzip → member close (a write); plain → fsync
				}
			}
			return func() {
				if restore != nil {
					restore()
				}
			}
		}
		return func() {}
	}
	for _, ev := range sc.Events {
		if status() == "done" {
			break
		}
		switch ev.Kind {
		case "msg":
			body, _ := hex.DecodeString(ev.Body)
			if ev.Starve > 0 && ev.Starve < len(vfE8StarveShapes) {
				fconn.set(vfE8StarveShapes[ev.Starve])
			}
			nmsg++
			disarm := arm(ev, body)
			var id nsq.MessageID
			copy(id[:], fmt.Sprintf("%d", nmsg))
			m := nsq.NewMessage(id, body)
			m.Delegate = rec
			// last field: what the real consumer.IsStarved() answers right now (the router asks it after the write)
			starved := f.consumer.IsStarved()
			fmt.Fprintf(res, "STARVE shape=%d starved=%v\n", ev.Starve, starved)
			say(fmt.Sprintf("tf msg %d %s %d %s %d", nmsg, vfHex(body), time.Now().UnixNano(), vfHex([]byte(f.currentFilename())), b(starved)))
			if err := f.HandleMessage(m); err != nil {
				t.Fatal(err)
			}
			barrier()
			disarm()
			ans(state())
		case "adv":
			left := time.Duration(ev.Adv)
			for left > 0 {
				room := nextTick.Sub(time.Now())
				if left < room {
					time.Sleep(left)
					left = 0
				} else {
					left -= room
					tick()
				}
			}
		case "tick":
			disarm := arm(ev, nil)
			tick()
			disarm()
		case "ext":
			// another process drops a file into the output dir under the very name the open work
			// file will be moved to (or, without a work dir, the name of the next revision)
			if f.out == nil || !hasRev {
				continue
			}
			rev := int(f.rev) + int(ev.Adv)
			if !sc.WorkDir {
				rev++
			}
			name := strings.Replace(f.filename, "<REV>", fmt.Sprintf("-%06d", rev), -1)
			full := filepath.Join(root, "o", name)
			if _, err := os.Stat(full); err == nil {
				continue
			}
			payload, _ := hex.DecodeString(ev.Body)
			content := payload
			if sc.GZIP {
				var zb bytes.Buffer
				zw := gzip.NewWriter(&zb)
				zw.Write(payload)
				zw.Close()
				content = zb.Bytes()
			}
			say(fmt.Sprintf("tf ext o %s %d %s", vfHex([]byte(f.filename)), rev, vfHex(payload)))
			fmt.Fprintf(res, "EXTB\n") // syscall leg: the harness' own file creation is not the tool's
			if err := os.WriteFile(full, content, 0o644); err != nil {
				t.Fatal(err)
			}
			fmt.Fprintf(res, "EXTE\n")
			ans(state())
		case "hup":
			disarm := arm(ev, nil)
			say("tf hup")
			f.hupChan <- true
			barrier()
			disarm()
			ans(state())
		case "termstop":
			disarm := arm(ev, nil)
			say("tf termstop")
			fconn.attach(false) // consumer.Stop() would send CLS to every connection; this one was never dialled
			close(f.termChan)
			<-done
			disarm()
			ans(state())
		}
	}
	say("tf tree")
	ans(fmt.Sprintf("st=%s tree=%s", status(), vfE8TreeLine(vfE8Tree(root, sc.GZIP), true)))
	fmt.Fprintf(res, "END\n")
	res.Close()
	os.Exit(0) // "kill" at an event boundary: no shutdown path is run
}

// ---------------------------------------------------------------- parent

func vfE8GenScript(r *vfRand) vfE8Script {
	var sc vfE8Script
	sc.GZIP = r.Intn(3) == 0
	if r.Intn(2) == 0 {
		sc.RotateSize = int64(5 + r.Intn(120))
	}
	if r.Intn(3) == 0 {
		sc.RotateInterval = int64([]int{3, 12, 45}[r.Intn(3)]) * int64(time.Second)
	}
	sc.WorkDir = r.Intn(2) == 0
	sc.SkipEmpty = r.Intn(3) == 0
	sc.MaxInFlight = []int{1, 2, 3, 5, 200}[r.Intn(5)]
	if r.Intn(25) == 0 {
		sc.MaxInFlight = 0 // `output[pos] = m` panics on the first message (model: Status.panicked)
	}
	// Rebalancing (audit C30.3): on a tree without fix F44 a work-dir script dies at the first use of the file after a
	// SIGHUP (or after a skip-empty close). Three of four work-dir scripts therefore get their HUPs only in the last
	// third, and half of the work-dir + skip-empty combinations drop skip-empty, so that most scripts reach their
	// late events on both trees; the rest keeps the early deaths.
	lateHup := sc.WorkDir && r.Intn(4) != 0
	if sc.WorkDir && sc.SkipEmpty && r.Intn(2) == 0 {
		sc.SkipEmpty = false
	}
	sc.SyncInterval = int64([]int{10, 30}[r.Intn(2)]) * int64(time.Second)
	sc.DatetimeFormat = []string{"%Y-%m-%d_%H", "%H%M", "%M%S", "x", "%Y-%m-%d_%H"}[r.Intn(5)]
	sc.FilenameFormat = []string{"<TOPIC>.<HOST><REV>.<DATETIME>.log", "<TOPIC><REV>.<DATETIME>", "<DATETIME>.<TOPIC><REV>.log"}[r.Intn(3)]
	if !sc.GZIP && sc.RotateSize == 0 && sc.RotateInterval == 0 && !sc.WorkDir && r.Intn(2) == 0 {
		sc.FilenameFormat = "<TOPIC>.<DATETIME>.log" // <REV> is optional here
	}
	appendMode := !sc.GZIP && sc.RotateInterval == 0
	extTail := ""
	if appendMode {
		extTail = "\n"
	}
	// pre-existing files with colliding names (now and in the near future)
	for i, n := 0, r.Intn(6); i < n; i++ {
		p := vfE8Pre{Dir: []string{"w", "o"}[r.Intn(2)], Rev: []int{0, 0, 1, 1, 2, 3}[r.Intn(6)],
			AtSec: []int64{0, 0, 0, 1, 10, 60}[r.Intn(6)]}
		sz := []int{0, 3, 20, 150}[r.Intn(4)]
		pl := r.Bytes(sz)
		// A pre-existing file that the tool may re-open with O_APPEND (plain output, no rotate-interval) is
		// empty or newline-terminated in this stream: a torn tail there is the separate finding
		// `torn-tail-append` (its own leg); with O_EXCL the file is never written to, so anything goes.
		if sz > 0 && (appendMode || r.Intn(2) == 0) {
			pl[sz-1] = '\n'
		}
		p.Data = hex.EncodeToString(pl)
		sc.Pre = append(sc.Pre, p)
	}
	n := 4 + r.Intn(30)
	for i := 0; i < n; i++ {
		switch k := r.Intn(20); {
		case k < 11:
			sz := []int{0, 1, 2, 5, 9, 17, 40, 130}[r.Intn(8)]
			body := append([]byte(fmt.Sprintf("m%d|", i)), r.Bytes(sz)...)
			if r.Intn(12) == 0 {
				body = nil // empty body: the record is a bare newline
			}
			ev := vfE8Event{Kind: "msg", Body: hex.EncodeToString(body)}
			if r.Intn(2) == 0 {
				ev.Starve = 1 + r.Intn(len(vfE8StarveShapes)-1) // drives the real consumer.IsStarved() both ways
			}
			sc.Events = append(sc.Events, ev)
		case k < 14:
			adv := []int64{1e6, 4e8, 1e9, 2e9, 7e9, 31e9, 61e9, 125e9}[r.Intn(8)]
			sc.Events = append(sc.Events, vfE8Event{Kind: "adv", Adv: adv})
		case k < 17:
			sc.Events = append(sc.Events, vfE8Event{Kind: "tick"})
		case k < 18:
			if lateHup && i < 2*n/3 {
				sc.Events = append(sc.Events, vfE8Event{Kind: "tick"})
			} else {
				sc.Events = append(sc.Events, vfE8Event{Kind: "hup"})
			}
		case k < 19:
			sc.Events = append(sc.Events, vfE8Event{Kind: "ext", Adv: int64(r.Intn(2)), Body: hex.EncodeToString(append(append([]byte("ext|"), r.Bytes(r.Intn(12))...), extTail...))})
			if r.Intn(2) == 0 {
				sc.Events = append(sc.Events, vfE8Event{Kind: "ext", Adv: 1, Body: hex.EncodeToString([]byte("ext2|" + extTail))})
			}
		default:
			if i > n/2 {
				sc.Events = append(sc.Events, vfE8Event{Kind: "termstop"})
				i = n
			}
		}
	}
	if r.Intn(2) == 0 && (len(sc.Events) == 0 || sc.Events[len(sc.Events)-1].Kind != "termstop") {
		sc.Events = append(sc.Events, vfE8Event{Kind: "termstop"})
	}
	// Fault injection (audit C30.1): one script in three gets one faulted event, inserted in its second half: the
	// process is SIGKILLed before the n-th Finish of that event, or the first system call on f.out (or the first one
	// after the FIN batch) fails. The script ends there (the tool is dead), which is why only a third gets one.
	if r.Intn(3) == 0 && len(sc.Events) > 0 {
		fault := []string{"killfin:1", "killfin:1", "killfin:2", "killfin:3", "errfirst", "errfirst", "errfirst", "errafterfins", "errafterfins",
			"killlog:sync", "killlog:sync", "killlog:move", "killlog:move"}[r.Intn(13)]
		kind := []string{"tick", "tick", "hup", "hup", "msg", "termstop"}[r.Intn(6)]
		if fault == "killlog:sync" {
			kind = "msg"
		}
		if fault == "killlog:move" {
			kind = []string{"hup", "hup", "termstop", "tick", "msg"}[r.Intn(5)]
			if r.Intn(3) != 0 && strings.Contains(sc.FilenameFormat, "<REV>") {
				sc.WorkDir = true // the move only exists with a work dir (which needs <REV> in the format)
			}
		}
		var burst []vfE8Event
		if strings.HasPrefix(fault, "killfin:") || fault == "errafterfins" {
			// make sure a FIN batch is waiting: n un-starved messages right before (as far as max-in-flight allows)
			n := 1
			fmt.Sscanf(fault, "killfin:%d", &n)
			if sc.MaxInFlight > 0 && n > sc.MaxInFlight {
				n = sc.MaxInFlight
				if fault != "errafterfins" {
					fault = fmt.Sprintf("killfin:%d", n)
				}
			}
			if kind == "msg" {
				n--
			}
			for j := 0; j < n+r.Intn(2); j++ {
				burst = append(burst, vfE8Event{Kind: "msg", Starve: 3, // shape 3: not starved
					Body: hex.EncodeToString(append([]byte(fmt.Sprintf("mb%d|", j)), r.Bytes(r.Intn(9))...))})
			}
		}
		ev := vfE8Event{Kind: kind, Fault: fault}
		if kind == "msg" {
			ev.Body = hex.EncodeToString(append([]byte("mf|"), r.Bytes(1+r.Intn(20))...))
			ev.Starve = 1 + r.Intn(len(vfE8StarveShapes)-1)
		}
		last := len(sc.Events)
		if sc.Events[last-1].Kind == "termstop" {
			last--
		}
		at := last
		if kind != "termstop" && last > 0 {
			at = last/2 + r.Intn(last-last/2+1)
		}
		ins := append(burst, ev)
		if kind == "termstop" {
			sc.Events = append(sc.Events[:last:last], ins...)
		} else {
			sc.Events = append(sc.Events[:at:at], append(ins, sc.Events[at:]...)...)
		}
	}
	return sc
}

type vfE8Result struct {
	ops, impl []string
	oracle    []string // direct-oracle failures
	exit      string
	finOK     int
	hist      map[string]int // branch / starvation / fault histogram of this script (from the child's markers)
}

// vfE8RunCase runs one script in a child process (optionally under strace) and reconstructs the
// op / answer streams; a child that died inside an event gets its last answer from the parent.
func vfE8RunCase(dir string, idx int, sc vfE8Script, strace bool) vfE8Result {
	var out vfE8Result
	root := filepath.Join(dir, fmt.Sprintf("case%d", idx))
	os.MkdirAll(root, 0o755)
	casePath := filepath.Join(root, "script.json")
	raw, _ := json.Marshal(sc)
	os.WriteFile(casePath, raw, 0o644)
	resPath := filepath.Join(root, "res.txt")
	args := []string{"-test.run", "^TestVerifToFileChild$", "-test.count=1", "-test.timeout=0"}
	var cmd *exec.Cmd
	childBin := os.Getenv("VF_E8_CHILD_BIN") // the same harness built with -tags faketime (the parent runs on the real clock)
	if childBin == "" {
		childBin = os.Args[0]
	}
	if strace {
		sargs := append([]string{"-f", "-s", "48", "-e", "trace=openat,write,fsync,fdatasync,link,linkat,unlink,unlinkat,rename,renameat,renameat2,close",
			"-o", filepath.Join(root, "strace.txt"), childBin}, args...)
		cmd = exec.Command("timeout", append([]string{"-s", "KILL", "90", "strace"}, sargs...)...)
	} else {
		cmd = exec.Command("timeout", append([]string{"-s", "KILL", "60", childBin}, args...)...)
	}
	// GOGC=off: the garbage collector's stop-the-world handshakes rely on real timeouts, which the
	// fake clock never delivers; a case allocates a few MB at most.
	cmd.Env = append(os.Environ(), "GOGC=off", "VF_E8_CASE="+casePath, "VF_E8_ROOT="+root, "VF_E8_RES="+resPath)
	if ef, err := os.Create(filepath.Join(root, "stderr.txt")); err == nil {
		cmd.Stderr = ef
		defer ef.Close()
	}
		if err := cmd.Run(); err == nil {
		out.exit = "0"
	} else if ee, ok := err.(*exec.ExitError); ok {
		out.exit = fmt.Sprintf("%d", ee.ExitCode())
		if ee.ExitCode() == 137 || ee.ExitCode() == -1 {
			out.exit = "hang"
		}
	} else {
		out.exit = "start-error " + err.Error()
	}
	res, _ := os.ReadFile(resPath)
	var fins []string
	finished := map[string]bool{}
	pendingOp := false
	ended := false
	killedSelf := false
	out.hist = map[string]int{}
	reached := map[string]bool{}
	for _, l := range strings.Split(string(res), "\n") {
		switch {
		case l == "KILLSELF":
			killedSelf = true
		case strings.HasPrefix(l, "LOG "):
			w := strings.Fields(l)
			if len(w) == 3 {
				out.hist["branch:"+w[1]+":"+w[2]]++
				reached[w[2]] = true
			}
		case strings.HasPrefix(l, "STARVE "):
			out.hist["starve:"+strings.Replace(l[7:], " ", ":", -1)]++
		case strings.HasPrefix(l, "GZBAD "):
			out.oracle = append(out.oracle, "gzip output file is not decompressible while the tool runs: "+l[6:])
		case strings.HasPrefix(l, "FAULTSHAPE "):
			out.hist["fault:shape:"+strings.Replace(l[11:], " ", ":", -1)]++
		case strings.HasPrefix(l, "FAULTSKIP "):
			out.hist["fault:skipped:"+l[10:]]++
		case strings.HasPrefix(l, "OP "):
			out.ops = append(out.ops, l[3:])
			pendingOp = true
			fins = nil
		case strings.HasPrefix(l, "ANS "):
			out.impl = append(out.impl, l[4:])
			pendingOp = false
		case strings.HasPrefix(l, "FIN "):
			w := strings.Fields(l)
			fins = append(fins, w[1])
			if finished[w[1]] {
				out.oracle = append(out.oracle, "message "+w[1]+" finished twice")
			}
			finished[w[1]] = true
			if w[2] != "ok" {
				out.oracle = append(out.oracle, "message "+w[1]+" was finished before its record was readable from any file")
			} else {
				out.finOK++
			}
		case strings.HasPrefix(l, "REQ "):
			out.oracle = append(out.oracle, "router requeued "+l[4:])
		case strings.HasPrefix(l, "SETUP-ERROR"):
			out.exit = l
		case l == "END":
			ended = true
		}
	}
	for b := range reached {
		out.hist["reach:"+b]++
	}
	if killedSelf && pendingOp {
		out.exit = "sigkill"
	}
	tree := vfE8Tree(root, sc.GZIP)
	if pendingOp {
		st := "fatal"
		if out.exit == "2" {
			st = "panic"
		} else if out.exit == "sigkill" {
			st = "killed"
		} else if out.exit != "1" {
			st = "died-" + out.exit
		}
		out.impl = append(out.impl, fmt.Sprintf("st=%s fin=[%s] files=%s", st, strings.Join(fins, " "), vfE8TreeLine(tree, false)))
		out.ops = append(out.ops, "tf tree")
		out.impl = append(out.impl, fmt.Sprintf("st=%s tree=%s", st, vfE8TreeLine(tree, true)))
	} else if !ended && out.exit != "0" {
		out.oracle = append(out.oracle, "child ended abnormally: exit "+out.exit)
	}
	// gzip: after the stop every file decodes to its end; only a process that died (kill / os.Exit / panic) or was
	// stopped without shutdown may leave ONE file ending in an unfinished member, and that member holds no finished
	// record (the presence oracle below only looks at complete members)
	if sc.GZIP {
		torn := 0
		for name, st := range vfE8GzStatus(root) {
			out.hist["gz-file:"+st]++
			if st == "corrupt" {
				out.oracle = append(out.oracle, "gzip output file "+name+" is corrupt after the stop (garbage or broken member)")
			}
			if st == "torn" {
				torn++
			}
		}
		cleanStop := len(out.impl) > 0 && strings.HasPrefix(out.impl[len(out.impl)-1], "st=done")
		if torn > 1 || (torn > 0 && cleanStop) {
			out.oracle = append(out.oracle, fmt.Sprintf("%d gzip output file(s) end in an unfinished member after the stop (clean stop: %v)", torn, cleanStop))
		}
	}
	// end-state oracle: every finished message's record is in the final tree (after the stop)
	msgs := map[string][]byte{}
	for _, op := range out.ops {
		w := strings.Fields(op)
		if len(w) > 3 && w[1] == "msg" {
			body := []byte{}
			if w[3] != "-" {
				body, _ = hex.DecodeString(w[3])
			}
			msgs[w[2]] = body
		}
	}
	var finIDs []string
	for id := range finished {
		finIDs = append(finIDs, id)
	}
	sort.Strings(finIDs)
	finRecs := make([][]byte, len(finIDs))
	for i, id := range finIDs {
		finRecs[i] = append(append([]byte{}, msgs[id]...), '\n')
	}
	for _, i := range vfE8OwnLines(tree, finRecs) {
		out.oracle = append(out.oracle, "finished message "+finIDs[i]+" owns no whole line of any file after the stop")
	}
	// no-overwrite oracle: pre-existing files keep their bytes as a prefix (exclusive mode: unchanged)
	for _, op := range out.ops {
		w := strings.Fields(op)
		if len(w) == 6 && (w[1] == "pre" || w[1] == "ext") {
			tm, _ := hex.DecodeString(w[3])
			var rev int
			fmt.Sscanf(w[4], "%d", &rev)
			name := w[2] + "/" + strings.Replace(string(tm), "<REV>", fmt.Sprintf("-%06d", rev), -1)
			data := []byte{}
			if w[5] != "-" {
				data, _ = hex.DecodeString(w[5])
			}
			cur, ok := tree[name]
			excl := sc.GZIP || sc.RotateInterval > 0
			if !ok {
				if w[2] == "o" {
					out.oracle = append(out.oracle, "pre-existing output file "+name+" disappeared")
				} else {
					// a work-dir file may only leave by being moved, intact, to the output dir
					found := false
					for _, c := range tree {
						if bytes.HasPrefix(c, data) {
							found = true
						}
					}
					if !found || excl {
						out.oracle = append(out.oracle, "pre-existing work file "+name+" disappeared")
					}
				}
			} else if !bytes.HasPrefix(cur, data) {
				out.oracle = append(out.oracle, "pre-existing file "+name+" was overwritten")
			} else if excl && len(cur) != len(data) {
				out.oracle = append(out.oracle, "pre-existing file "+name+" was modified although files are opened with O_EXCL")
			}
		}
	}
	return out
}

// vfE8DecoderSelfTest pins the three answers of the strict decoder on crafted files (audit C29): two members cut at
// every length, garbage behind them, a flipped checksum byte.
func vfE8DecoderSelfTest() (cases int, bad []string) {
	var zb bytes.Buffer
	for _, pl := range []string{"m0|a\nm1|b\n", "m2|c\n"} {
		zw := gzip.NewWriter(&zb)
		zw.Write([]byte(pl))
		zw.Close()
	}
	full := zb.Bytes()
	first := 0 // length of the first member
	for n := 1; n < len(full); n++ {
		if p, st := vfE8DecodeStrict(full[:n]); st == "ok" && len(p) > 0 {
			first = n
			break
		}
	}
	for n := 0; n <= len(full); n++ {
		p, st := vfE8DecodeStrict(full[:n])
		want, wantLen := "torn", 0
		if n >= first {
			wantLen = 10
		}
		if n == 0 || n == first || n == len(full) {
			want = "ok"
		}
		if n == len(full) {
			wantLen = 15
		}
		cases++
		if st != want || len(p) != wantLen {
			bad = append(bad, fmt.Sprintf("prefix %d of %d: %s/%d, want %s/%d", n, len(full), st, len(p), want, wantLen))
		}
	}
	for _, tail := range []string{"x", "# closed\n", "\x00", "\x1f\x8b\x07"} {
		cases++
		if p, st := vfE8DecodeStrict(append(append([]byte{}, full...), tail...)); st != "corrupt" || len(p) != 15 {
			bad = append(bad, fmt.Sprintf("garbage %q behind the last member: %s/%d, want corrupt/15", tail, st, len(p)))
		}
	}
	flipped := append([]byte{}, full...)
	flipped[first-8] ^= 0xff // CRC32 of the first member
	cases++
	if p, st := vfE8DecodeStrict(flipped); st != "corrupt" || len(p) != 0 {
		bad = append(bad, fmt.Sprintf("flipped checksum: %s/%d, want corrupt/0", st, len(p)))
	}
	return
}

func TestVerifToFileCorr(t *testing.T) {
	if os.Getenv("VF_E8_CASE") != "" {
		t.Skip("parent only")
	}
	if n, bad := vfE8DecoderSelfTest(); len(bad) > 0 {
		t.Fatalf("strict gzip decoder self-test: %v", bad)
	} else {
		fmt.Printf("HIST gz-decoder-selftest-cases %d\n", n)
	}
	fmt.Printf("HIST seal-read-warns-probe:%d 1\n", vfE8ProbeSealReadWarns()) // round 11: probed once here, children inherit it (env)
	dir := os.Getenv("VERIF_OUT")
	if dir == "" {
		dir = t.TempDir()
	}
	n := vfEnvInt("VERIF_N", 100)
	nstrace := vfEnvInt("VERIF_STRACE", 0)
	out := vfOpen("tofile")
	defer out.Close()
	r := vfNewRand(19)
	scripts := make([]vfE8Script, n)
	for i := range scripts {
		scripts[i] = vfE8GenScript(r)
		if os.Getenv("VF_E8_OLDGEN") != "" {
			// mutation trials only: the input classes of before audit round 7 (never starved, no injected fault,
			// max-in-flight >= 1) — shows what the new classes add
			if scripts[i].MaxInFlight == 0 {
				scripts[i].MaxInFlight = 1
			}
			for j := range scripts[i].Events {
				scripts[i].Events[j].Starve, scripts[i].Events[j].Fault = 0, ""
			}
		}
	}
	if rp := os.Getenv("VF_E8_REPLAY"); rp != "" {
		raw, err := os.ReadFile(rp)
		if err != nil {
			t.Fatal(err)
		}
		var sc vfE8Script
		if err := json.Unmarshal(raw, &sc); err != nil {
			t.Fatal(err)
		}
		scripts = []vfE8Script{sc}
		n = 1
	}
	results := make([]vfE8Result, n)
	var wg sync.WaitGroup
	sem := make(chan struct{}, vfEnvInt("VERIF_PAR", 8))
	for i := range scripts {
		wg.Add(1)
		sem <- struct{}{}
		go func(i int) {
			defer wg.Done()
			results[i] = vfE8RunCase(dir, i, scripts[i], i < nstrace)
			<-sem
		}(i)
	}
	wg.Wait()
	hist := map[string]int{}
	fins := 0
	for i, res := range results {
		out.Case(fmt.Sprintf("# case %d", i), "# case "+fmt.Sprint(i))
		for j := range res.ops {
			a := "<missing>"
			if j < len(res.impl) {
				a = res.impl[j]
			}
			out.Case(res.ops[j], a)
			w := strings.Fields(res.ops[j])
			hist["op:"+w[1]]++
			if strings.HasPrefix(a, "st=") {
				hist[strings.Fields(a)[0]]++
			}
		}
		hist["exit:"+res.exit]++
		fins += res.finOK
		for k, v := range res.hist {
			hist[k] += v
		}
		// how far did the script get (audit C30.3), and what did an injected fault lead to (C30.1)
		scripted, executed := 0, 0
		for _, ev := range scripts[i].Events {
			if ev.Kind != "adv" && ev.Kind != "ext" {
				scripted++
			}
		}
		fault, lastSt := "", ""
		for j, op := range res.ops {
			w := strings.Fields(op)
			switch w[1] {
			case "msg", "hup", "termstop":
				executed++
			case "fault":
				fault = strings.Join(w[2:], "-")
				hist["fault:armed:"+fault]++
			}
			if j < len(res.impl) && strings.HasPrefix(res.impl[j], "st=") {
				lastSt = strings.Fields(res.impl[j])[0]
			}
		}
		for _, ev := range scripts[i].Events {
			if ev.Kind == "tick" {
				scripted--
			}
		}
		hist["events:scripted-msg-hup-term"] += scripted
		hist["events:executed-msg-hup-term"] += executed
		switch {
		case scripted == 0 || executed >= scripted:
			hist["progress:all-events"]++
		case 2*executed >= scripted:
			hist["progress:half-or-more"]++
		default:
			hist["progress:less-than-half"]++
		}
		if fault != "" {
			hist["fault:outcome:"+fault+"->"+lastSt]++
		}
		hist["end:"+lastSt]++
		for _, o := range res.oracle {
			fmt.Printf("ORACLE-FAIL case=%d %s\n", i, o)
		}
		sc := scripts[i]
		hist[fmt.Sprintf("cfg:gzip=%v", sc.GZIP)]++
		hist[fmt.Sprintf("cfg:workdir=%v", sc.WorkDir)]++
		hist[fmt.Sprintf("cfg:rotsize=%v", sc.RotateSize > 0)]++
		hist[fmt.Sprintf("cfg:rotint=%v", sc.RotateInterval > 0)]++
		hist[fmt.Sprintf("cfg:skipempty=%v", sc.SkipEmpty)]++
	}
	keys := []string{}
	for k := range hist {
		keys = append(keys, k)
	}
	sort.Strings(keys)
	for _, k := range keys {
		fmt.Printf("HIST %s %d\n", k, hist[k])
	}
	fmt.Printf("ORACLE-DONE cases=%d fins_checked=%d\n", n, fins)
}

// TestVerifToFileGiveUp (parent binary, real clock): the tool as shipped = FileLogger + go-nsq Consumer with the
// configuration main() builds (nsq.NewConfig(): max_attempts 5). A source stub delivers one message with a given
// attempts count; is it written before it is finished?
func TestVerifToFileGiveUp(t *testing.T) {
	if os.Getenv("VF_E8_CASE") != "" {
		t.Skip("parent only")
	}
	for _, attempts := range []uint16{1, 5, 6, 9} {
		root := t.TempDir()
		src := vfNewStubNsqd()
		opts := NewOptions()
		opts.OutputDir = root
		opts.WorkDir = root
		opts.NSQDTCPAddrs = []string{src.addr}
		opts.SyncInterval = 20 * time.Millisecond
		opts.HostIdentifier = "h"
		cfg := nsq.NewConfig() // as in main()
		cfg.MaxInFlight = opts.MaxInFlight
		f, err := NewFileLogger(func(lvl lg.LogLevel, f string, args ...interface{}) {}, opts, "t", cfg)
		if err != nil {
			t.Fatal(err)
		}
		f.consumer.SetLoggerLevel(nsq.LogLevelMax)
		done := make(chan struct{})
		go func() {
			f.router()
			close(done)
		}()
		for i := 0; i < 500 && !src.Subscribed(); i++ {
			time.Sleep(2 * time.Millisecond)
		}
		body := []byte(fmt.Sprintf("giveup-%d", attempts))
		src.Deliver("0123456789abcdef", attempts, body)
		resp := "none"
		select {
		case resp = <-src.Resp:
		case <-time.After(10 * time.Second):
		}
		written := vfE8HasLine(vfE8Tree2(root), append(body, '\n'))
		fmt.Printf("GIVEUP tool=nsq_to_file max_attempts=%d attempts=%d written_at_response=%v response=%s\n",
			cfg.MaxAttempts, attempts, written, strings.Fields(resp)[0])
		close(f.termChan)
		select {
		case <-done:
		case <-time.After(5 * time.Second):
		}
		src.Down()
	}
}

// TestVerifToFileStarved (parent binary, real clock; audit C30.2): the starvation input as a REAL go-nsq consumer
// produces it — FileLogger connected to a stub nsqd, --sync-interval one hour, max-in-flight M: after k deliveries
// with k = the smallest count for which go-nsq calls the connection starved (k >= int64(0.85*M), k < M) the router's
// `sync || IsStarved()` must take the Sync + FIN path although neither the ticker nor `pos == cap(output)` asks
// for it. Positive observations only (no "nothing happens for x ms" oracle): at least one FIN arrives (with a one-hour ticker and pos < cap only the starved path can send it), and there are at
// least as many whole lines on disk as FINs.
func TestVerifToFileStarved(t *testing.T) {
	if os.Getenv("VF_E8_CASE") != "" {
		t.Skip("parent only")
	}
	for _, c := range []struct{ mif, k int }{{2, 1}, {10, 8}, {3, 2}} {
		root := t.TempDir()
		src := vfNewStubNsqd()
		opts := NewOptions()
		opts.OutputDir, opts.WorkDir = root, root
		opts.NSQDTCPAddrs = []string{src.addr}
		opts.SyncInterval = time.Hour
		opts.MaxInFlight = c.mif
		opts.HostIdentifier = "h"
		cfg := nsq.NewConfig()
		cfg.MaxInFlight = opts.MaxInFlight
		f, err := NewFileLogger(func(lvl lg.LogLevel, f string, args ...interface{}) {}, opts, "t", cfg)
		if err != nil {
			t.Fatal(err)
		}
		f.consumer.SetLoggerLevel(nsq.LogLevelMax)
		done := make(chan struct{})
		go func() {
			f.router()
			close(done)
		}()
		for i := 0; i < 2500 && !src.Subscribed(); i++ {
			time.Sleep(2 * time.Millisecond)
		}
		var recs [][]byte
		for i := 0; i < c.k; i++ {
			body := []byte(fmt.Sprintf("starved-%d-%d", c.mif, i))
			recs = append(recs, append(append([]byte{}, body...), '\n'))
			src.Deliver(fmt.Sprintf("%016d", i), 1, body)
		}
		// wait for the first FIN (it can only come from the starved path); later ones are counted while they come
		// (go-nsq's RDY of a fresh connection varies, so how many of the k are finished by the starved path is not fixed)
		fins := 0
		deadline := time.After(15 * time.Second)
	wait:
		for fins < c.k {
			select {
			case r := <-src.Resp:
				if strings.HasPrefix(r, "FIN") {
					fins++
					if fins == 1 {
						deadline = time.After(300 * time.Millisecond)
					}
				}
			case <-deadline:
				break wait
			}
		}
		recs = nil // the finished ones are not identified by the stub's counter: check every delivered record that is on disk
		tree2 := vfE8Tree2(root)
		onDisk := 0
		for _, c := range tree2 {
			onDisk += bytes.Count(c, []byte("\n"))
		}
		missing := 0
		if onDisk < fins { // every FIN is backed by a line of its own (bodies are distinct, one line each)
			missing = fins - onDisk
		}
		_ = recs
		fmt.Printf("STARVED max_in_flight=%d delivered=%d fins=%d records_without_line=%d\n", c.mif, c.k, fins, missing)
		if fins > 0 && missing > 0 {
			fmt.Printf("ORACLE-FAIL starved max_in_flight=%d: %d of %d finished records own no whole line of any file\n", c.mif, missing, c.k)
		}
		close(f.termChan)
		select {
		case <-done:
		case <-time.After(5 * time.Second):
		}
		src.Down()
	}
	fmt.Printf("ORACLE-DONE starved\n")
}

func vfE8Tree2(root string) map[string][]byte {
	res := map[string][]byte{}
	filepath.Walk(root, func(p string, fi os.FileInfo, err error) error {
		if err == nil && !fi.IsDir() {
			raw, _ := os.ReadFile(p)
			res[p] = raw
		}
		return nil
	})
	return res
}
