package main

// Correspondence + direct oracle for apps/nsq_to_file (property C19).
//
// The binary is built with `-tags verif,faketime` and CGO_ENABLED=0: the Go runtime then runs on
// its deterministic fake clock (time only advances when every goroutine is blocked), so the
// harness owns the clock of the real `FileLogger.router()`: `time.Sleep(1ns)` is a barrier
// ("router is back in its select"), sleeping to the next multiple of --sync-interval makes the
// router's ticker fire exactly once, file names roll over exactly when the script says so.
//
// Parent test: generates scripts, runs each in a child process (the router calls os.Exit(1) on
// I/O errors), collects one op line + one answer line per event. Child: runs one script through
// the real router with recording message delegates.

import (
	"bufio"
	"bytes"
	"compress/gzip"
	"encoding/hex"
	"encoding/json"
	"fmt"
	"io"
	"os"
	"os/exec"
	"path/filepath"
	"sort"
	"strings"
	"sync"
	"testing"
	"time"

	"github.com/nsqio/go-nsq"
	"github.com/nsqio/nsq/internal/lg"
)

type vfE8Event struct {
	Kind string `json:"kind"` // msg | adv | tick | hup | termstop
	Body string `json:"body,omitempty"`
	Adv  int64  `json:"adv,omitempty"` // ns
}

type vfE8Pre struct {
	Dir   string `json:"dir"`    // "w" | "o"
	AtSec int64  `json:"at_sec"` // filename as computed this many seconds after the start
	Rev   int    `json:"rev"`
	Data  string `json:"data"` // hex payload
}

type vfE8Script struct {
	GZIP           bool         `json:"gzip"`
	RotateSize     int64        `json:"rotate_size"`
	RotateInterval int64        `json:"rotate_interval"` // ns
	WorkDir        bool         `json:"work_dir"`
	SkipEmpty      bool         `json:"skip_empty"`
	MaxInFlight    int          `json:"max_in_flight"`
	SyncInterval   int64        `json:"sync_interval"` // ns
	DatetimeFormat string       `json:"datetime_format"`
	FilenameFormat string       `json:"filename_format"`
	Pre            []vfE8Pre    `json:"pre"`
	Events         []vfE8Event  `json:"events"`
}

// ---------------------------------------------------------------- shared helpers

// vfE8Decode returns what a reader can decode from the file: plain → the bytes; gzip → the payload
// of the complete members (a truncated / still open trailing member contributes nothing).
func vfE8Decode(raw []byte, gz bool) []byte {
	if !gz {
		return raw
	}
	var out []byte
	br := bytes.NewReader(raw)
	bb := bufio.NewReader(br)
	for {
		if _, err := bb.Peek(1); err != nil {
			return out
		}
		zr, err := gzip.NewReader(bb)
		if err != nil {
			return out
		}
		zr.Multistream(false)
		member, err := io.ReadAll(zr)
		if err != nil {
			return out // incomplete member
		}
		out = append(out, member...)
	}
}

// vfE8Tree lists root/w and root/o: relative name → decoded content.
func vfE8Tree(root string, gz bool) map[string][]byte {
	res := map[string][]byte{}
	for _, d := range []string{"w", "o"} {
		filepath.Walk(filepath.Join(root, d), func(p string, fi os.FileInfo, err error) error {
			if err != nil || fi.IsDir() {
				return nil
			}
			raw, err := os.ReadFile(p)
			if err != nil {
				return nil
			}
			rel, _ := filepath.Rel(root, p)
			res[rel] = vfE8Decode(raw, gz)
			return nil
		})
	}
	return res
}

func vfE8TreeLine(tree map[string][]byte, full bool) string {
	var items []string
	for n, c := range tree {
		if full {
			items = append(items, n+"="+vfHex(c))
		} else {
			items = append(items, fmt.Sprintf("%s:%d", n, len(c)))
		}
	}
	sort.Strings(items)
	return strings.Join(items, ",")
}

func vfE8HasLine(tree map[string][]byte, line []byte) bool {
	for _, c := range tree {
		if bytes.Contains(c, line) { // bodies carry a unique "m<i>|" tag
			return true
		}
	}
	return false
}

// ---------------------------------------------------------------- child

type vfE8Rec struct {
	mu   sync.Mutex
	res  *os.File
	root string
	gz   bool
	fins []string
}

func (r *vfE8Rec) OnFinish(m *nsq.Message) {
	// Runs on the router goroutine, at the instant the FIN would be sent: the record must
	// already be readable from a file (for gzip: from a complete member).
	id := strings.TrimRight(string(m.ID[:]), "\x00")
	line := append(append([]byte{}, m.Body...), '\n')
	ok := "ok"
	if !vfE8HasLine(vfE8Tree(r.root, r.gz), line) {
		ok = "MISSING"
	}
	r.mu.Lock()
	r.fins = append(r.fins, id)
	fmt.Fprintf(r.res, "FIN %s %s\n", id, ok) // unbuffered write(2): also the FIN marker of the syscall leg
	r.mu.Unlock()
}
func (r *vfE8Rec) OnRequeue(m *nsq.Message, d time.Duration, b bool) {
	fmt.Fprintf(r.res, "REQ %s\n", strings.TrimRight(string(m.ID[:]), "\x00"))
}
func (r *vfE8Rec) OnTouch(m *nsq.Message) {}

func (r *vfE8Rec) takeFins() string {
	r.mu.Lock()
	defer r.mu.Unlock()
	s := strings.Join(r.fins, " ")
	r.fins = nil
	return s
}

func vfE8NameAt(f *FileLogger, t time.Time) string {
	return strings.Replace(f.filenameFormat, "<DATETIME>", strftime(f.opts.DatetimeFormat, t), -1)
}

// vfE8ProbeCloseClears runs the real Close() once on a throw-away logger whose finished file moves from a work
// dir to an output dir: does it clear f.out on that path (fix F44) or return with the closed descriptor still
// in place (tree before the fix)? The answer is the model parameter Cfg.closeClears.
func vfE8ProbeCloseClears() bool {
	dir, err := os.MkdirTemp("", "vfe8probe")
	if err != nil {
		return false
	}
	defer os.RemoveAll(dir)
	w, o := filepath.Join(dir, "w"), filepath.Join(dir, "o")
	os.MkdirAll(w, 0o755)
	os.MkdirAll(o, 0o755)
	opts := NewOptions()
	opts.WorkDir, opts.OutputDir, opts.Channel = w, o, "c"
	fh, err := os.Create(filepath.Join(w, "probe"))
	if err != nil {
		return false
	}
	f := &FileLogger{logf: func(lvl lg.LogLevel, f string, args ...interface{}) {}, opts: opts, topic: "t", out: fh, writer: fh,
		filename: "probe"}
	f.Close()
	return f.out == nil
}

func TestVerifToFileChild(t *testing.T) {
	casePath := os.Getenv("VF_E8_CASE")
	if casePath == "" {
		t.Skip("child only")
	}
	root := os.Getenv("VF_E8_ROOT")
	raw, err := os.ReadFile(casePath)
	if err != nil {
		t.Fatal(err)
	}
	var sc vfE8Script
	if err := json.Unmarshal(raw, &sc); err != nil {
		t.Fatal(err)
	}
	res, err := os.OpenFile(os.Getenv("VF_E8_RES"), os.O_WRONLY|os.O_CREATE|os.O_APPEND, 0o644)
	if err != nil {
		t.Fatal(err)
	}
	os.MkdirAll(filepath.Join(root, "w"), 0o755)
	os.MkdirAll(filepath.Join(root, "o"), 0o755)

	opts := NewOptions()
	opts.OutputDir = filepath.Join(root, "o")
	opts.WorkDir = opts.OutputDir
	if sc.WorkDir {
		opts.WorkDir = filepath.Join(root, "w")
	}
	opts.GZIP = sc.GZIP
	opts.RotateSize = sc.RotateSize
	opts.RotateInterval = time.Duration(sc.RotateInterval)
	opts.SkipEmptyFiles = sc.SkipEmpty
	opts.MaxInFlight = sc.MaxInFlight
	opts.SyncInterval = time.Duration(sc.SyncInterval)
	opts.DatetimeFormat = sc.DatetimeFormat
	opts.FilenameFormat = sc.FilenameFormat
	opts.HostIdentifier = "h"
	opts.Channel = "c"
	cfg := nsq.NewConfig()
	cfg.MaxInFlight = opts.MaxInFlight
	logf := func(lvl lg.LogLevel, f string, args ...interface{}) {}
	f, err := NewFileLogger(logf, opts, "t", cfg)
	if err != nil {
		fmt.Fprintf(res, "SETUP-ERROR %s\n", err)
		return
	}
	f.consumer.SetLoggerLevel(nsq.LogLevelError)
	hasRev := strings.Contains(f.filenameFormat, "<REV>")
	b := func(x bool) int {
		if x {
			return 1
		}
		return 0
	}
	say := func(op string) { fmt.Fprintf(res, "OP %s\n", op) }
	ans := func(a string) { fmt.Fprintf(res, "ANS %s\n", a) }
	say(fmt.Sprintf("tf conf %d %d %d %d %d %d %d %d", b(sc.GZIP), sc.RotateSize, sc.RotateInterval, b(sc.WorkDir),
		b(sc.SkipEmpty), sc.MaxInFlight, b(hasRev), b(vfE8ProbeCloseClears())))
	ans("ok")
	start := time.Now()
	for _, p := range sc.Pre {
		tmpl := vfE8NameAt(f, start.Add(time.Duration(p.AtSec)*time.Second))
		if !hasRev && p.Rev != 0 {
			continue
		}
		name := strings.Replace(tmpl, "<REV>", fmt.Sprintf("-%06d", p.Rev), -1)
		dir := p.Dir
		if !sc.WorkDir {
			dir = "o"
		}
		full := filepath.Join(root, dir, name)
		if _, err := os.Stat(full); err == nil {
			continue
		}
		payload, _ := hex.DecodeString(p.Data)
		content := payload
		if sc.GZIP {
			var zb bytes.Buffer
			zw := gzip.NewWriter(&zb)
			zw.Write(payload)
			zw.Close()
			content = zb.Bytes()
		}
		if err := os.WriteFile(full, content, 0o644); err != nil {
			t.Fatal(err)
		}
		say(fmt.Sprintf("tf pre %s %s %d %s", dir, vfHex([]byte(tmpl)), p.Rev, vfHex(payload)))
		ans("ok")
	}

	rec := &vfE8Rec{res: res, root: root, gz: sc.GZIP}
	done := make(chan struct{})
	fmt.Fprintf(res, "START\n") // syscall leg: everything before this write(2) is harness set-up
	go func() {
		f.router()
		close(done)
	}()
	barrier := func() { time.Sleep(time.Nanosecond) }
	barrier() // the router created its ticker at `start` and sits in its select
	nextTick := start.Add(opts.SyncInterval)
	status := func() string {
		select {
		case <-done:
			return "done"
		default:
			return "running"
		}
	}
	state := func() string {
		return fmt.Sprintf("st=%s fin=[%s] files=%s", status(), rec.takeFins(), vfE8TreeLine(vfE8Tree(root, sc.GZIP), false))
	}
	tick := func() {
		// sleep exactly to the ticker's next firing time, then let the router finish
		say(fmt.Sprintf("tf tick %d %s", nextTick.UnixNano(), vfHex([]byte(vfE8NameAt(f, nextTick)))))
		time.Sleep(nextTick.Sub(time.Now()))
		barrier()
		nextTick = nextTick.Add(opts.SyncInterval)
		ans(state())
	}
	nmsg := 0
	for _, ev := range sc.Events {
		if status() == "done" {
			break
		}
		switch ev.Kind {
		case "msg":
			nmsg++
			body, _ := hex.DecodeString(ev.Body)
			var id nsq.MessageID
			copy(id[:], fmt.Sprintf("%d", nmsg))
			m := nsq.NewMessage(id, body)
			m.Delegate = rec
			say(fmt.Sprintf("tf msg %d %s %d %s 0", nmsg, vfHex(body), time.Now().UnixNano(), vfHex([]byte(f.currentFilename()))))
			if err := f.HandleMessage(m); err != nil {
				t.Fatal(err)
			}
			barrier()
			ans(state())
		case "adv":
			left := time.Duration(ev.Adv)
			for left > 0 {
				room := nextTick.Sub(time.Now())
				if left < room {
					time.Sleep(left)
					left = 0
				} else {
					left -= room
					tick()
				}
			}
		case "tick":
			tick()
		case "ext":
			// another process drops a file into the output dir under the very name the open work
			// file will be moved to (or, without a work dir, the name of the next revision)
			if f.out == nil || !hasRev {
				continue
			}
			rev := int(f.rev) + int(ev.Adv)
			if !sc.WorkDir {
				rev++
			}
			name := strings.Replace(f.filename, "<REV>", fmt.Sprintf("-%06d", rev), -1)
			full := filepath.Join(root, "o", name)
			if _, err := os.Stat(full); err == nil {
				continue
			}
			payload, _ := hex.DecodeString(ev.Body)
			content := payload
			if sc.GZIP {
				var zb bytes.Buffer
				zw := gzip.NewWriter(&zb)
				zw.Write(payload)
				zw.Close()
				content = zb.Bytes()
			}
			say(fmt.Sprintf("tf ext o %s %d %s", vfHex([]byte(f.filename)), rev, vfHex(payload)))
			fmt.Fprintf(res, "EXTB\n") // syscall leg: the harness' own file creation is not the tool's
			if err := os.WriteFile(full, content, 0o644); err != nil {
				t.Fatal(err)
			}
			fmt.Fprintf(res, "EXTE\n")
			ans(state())
		case "hup":
			say("tf hup")
			f.hupChan <- true
			barrier()
			ans(state())
		case "termstop":
			say("tf termstop")
			close(f.termChan)
			<-done
			ans(state())
		}
	}
	say("tf tree")
	ans(fmt.Sprintf("st=%s tree=%s", status(), vfE8TreeLine(vfE8Tree(root, sc.GZIP), true)))
	fmt.Fprintf(res, "END\n")
	res.Close()
	os.Exit(0) // "kill" at an event boundary: no shutdown path is run
}

// ---------------------------------------------------------------- parent

func vfE8GenScript(r *vfRand) vfE8Script {
	var sc vfE8Script
	sc.GZIP = r.Intn(3) == 0
	if r.Intn(2) == 0 {
		sc.RotateSize = int64(5 + r.Intn(120))
	}
	if r.Intn(3) == 0 {
		sc.RotateInterval = int64([]int{3, 12, 45}[r.Intn(3)]) * int64(time.Second)
	}
	sc.WorkDir = r.Intn(2) == 0
	sc.SkipEmpty = r.Intn(3) == 0
	sc.MaxInFlight = []int{1, 2, 3, 5, 200}[r.Intn(5)]
	sc.SyncInterval = int64([]int{10, 30}[r.Intn(2)]) * int64(time.Second)
	sc.DatetimeFormat = []string{"%Y-%m-%d_%H", "%H%M", "%M%S", "x", "%Y-%m-%d_%H"}[r.Intn(5)]
	sc.FilenameFormat = []string{"<TOPIC>.<HOST><REV>.<DATETIME>.log", "<TOPIC><REV>.<DATETIME>", "<DATETIME>.<TOPIC><REV>.log"}[r.Intn(3)]
	if !sc.GZIP && sc.RotateSize == 0 && sc.RotateInterval == 0 && !sc.WorkDir && r.Intn(2) == 0 {
		sc.FilenameFormat = "<TOPIC>.<DATETIME>.log" // <REV> is optional here
	}
	// pre-existing files with colliding names (now and in the near future)
	for i, n := 0, r.Intn(6); i < n; i++ {
		p := vfE8Pre{Dir: []string{"w", "o"}[r.Intn(2)], Rev: []int{0, 0, 1, 1, 2, 3}[r.Intn(6)],
			AtSec: []int64{0, 0, 0, 1, 10, 60}[r.Intn(6)]}
		sz := []int{0, 3, 20, 150}[r.Intn(4)]
		pl := r.Bytes(sz)
		if sz > 0 && r.Intn(2) == 0 {
			pl[sz-1] = '\n'
		}
		p.Data = hex.EncodeToString(pl)
		sc.Pre = append(sc.Pre, p)
	}
	n := 4 + r.Intn(30)
	for i := 0; i < n; i++ {
		switch k := r.Intn(20); {
		case k < 11:
			sz := []int{0, 1, 2, 5, 9, 17, 40, 130}[r.Intn(8)]
			body := append([]byte(fmt.Sprintf("m%d|", i)), r.Bytes(sz)...)
			if r.Intn(12) == 0 {
				body = nil // empty body: the record is a bare newline
			}
			sc.Events = append(sc.Events, vfE8Event{Kind: "msg", Body: hex.EncodeToString(body)})
		case k < 14:
			adv := []int64{1e6, 4e8, 1e9, 2e9, 7e9, 31e9, 61e9, 125e9}[r.Intn(8)]
			sc.Events = append(sc.Events, vfE8Event{Kind: "adv", Adv: adv})
		case k < 17:
			sc.Events = append(sc.Events, vfE8Event{Kind: "tick"})
		case k < 18:
			sc.Events = append(sc.Events, vfE8Event{Kind: "hup"})
		case k < 19:
			sc.Events = append(sc.Events, vfE8Event{Kind: "ext", Adv: int64(r.Intn(2)), Body: hex.EncodeToString(append([]byte("ext|"), r.Bytes(r.Intn(12))...))})
			if r.Intn(2) == 0 {
				sc.Events = append(sc.Events, vfE8Event{Kind: "ext", Adv: 1, Body: hex.EncodeToString([]byte("ext2|"))})
			}
		default:
			if i > n/2 {
				sc.Events = append(sc.Events, vfE8Event{Kind: "termstop"})
				i = n
			}
		}
	}
	if r.Intn(2) == 0 && (len(sc.Events) == 0 || sc.Events[len(sc.Events)-1].Kind != "termstop") {
		sc.Events = append(sc.Events, vfE8Event{Kind: "termstop"})
	}
	return sc
}

type vfE8Result struct {
	ops, impl []string
	oracle    []string // direct-oracle failures
	exit      string
	finOK     int
}

// vfE8RunCase runs one script in a child process (optionally under strace) and reconstructs the
// op / answer streams; a child that died inside an event gets its last answer from the parent.
func vfE8RunCase(dir string, idx int, sc vfE8Script, strace bool) vfE8Result {
	var out vfE8Result
	root := filepath.Join(dir, fmt.Sprintf("case%d", idx))
	os.MkdirAll(root, 0o755)
	casePath := filepath.Join(root, "script.json")
	raw, _ := json.Marshal(sc)
	os.WriteFile(casePath, raw, 0o644)
	resPath := filepath.Join(root, "res.txt")
	args := []string{"-test.run", "^TestVerifToFileChild$", "-test.count=1", "-test.timeout=0"}
	var cmd *exec.Cmd
	childBin := os.Getenv("VF_E8_CHILD_BIN") // the same harness built with -tags faketime (the parent runs on the real clock)
	if childBin == "" {
		childBin = os.Args[0]
	}
	if strace {
		sargs := append([]string{"-f", "-s", "48", "-e", "trace=openat,write,fsync,fdatasync,link,linkat,unlink,unlinkat,rename,renameat,renameat2,close",
			"-o", filepath.Join(root, "strace.txt"), childBin}, args...)
		cmd = exec.Command("timeout", append([]string{"-s", "KILL", "90", "strace"}, sargs...)...)
	} else {
		cmd = exec.Command("timeout", append([]string{"-s", "KILL", "60", childBin}, args...)...)
	}
	// GOGC=off: the garbage collector's stop-the-world handshakes rely on real timeouts, which the
	// fake clock never delivers; a case allocates a few MB at most.
	cmd.Env = append(os.Environ(), "GOGC=off", "VF_E8_CASE="+casePath, "VF_E8_ROOT="+root, "VF_E8_RES="+resPath)
	if ef, err := os.Create(filepath.Join(root, "stderr.txt")); err == nil {
		cmd.Stderr = ef
		defer ef.Close()
	}
		if err := cmd.Run(); err == nil {
		out.exit = "0"
	} else if ee, ok := err.(*exec.ExitError); ok {
		out.exit = fmt.Sprintf("%d", ee.ExitCode())
		if ee.ExitCode() == 137 || ee.ExitCode() == -1 {
			out.exit = "hang"
		}
	} else {
		out.exit = "start-error " + err.Error()
	}
	res, _ := os.ReadFile(resPath)
	var fins []string
	finished := map[string]bool{}
	pendingOp := false
	ended := false
	for _, l := range strings.Split(string(res), "\n") {
		switch {
		case strings.HasPrefix(l, "OP "):
			out.ops = append(out.ops, l[3:])
			pendingOp = true
			fins = nil
		case strings.HasPrefix(l, "ANS "):
			out.impl = append(out.impl, l[4:])
			pendingOp = false
		case strings.HasPrefix(l, "FIN "):
			w := strings.Fields(l)
			fins = append(fins, w[1])
			if finished[w[1]] {
				out.oracle = append(out.oracle, "message "+w[1]+" finished twice")
			}
			finished[w[1]] = true
			if w[2] != "ok" {
				out.oracle = append(out.oracle, "message "+w[1]+" was finished before its record was readable from any file")
			} else {
				out.finOK++
			}
		case strings.HasPrefix(l, "REQ "):
			out.oracle = append(out.oracle, "router requeued "+l[4:])
		case strings.HasPrefix(l, "SETUP-ERROR"):
			out.exit = l
		case l == "END":
			ended = true
		}
	}
	tree := vfE8Tree(root, sc.GZIP)
	if pendingOp {
		st := "fatal"
		if out.exit == "2" {
			st = "panic"
		} else if out.exit != "1" {
			st = "died-" + out.exit
		}
		out.impl = append(out.impl, fmt.Sprintf("st=%s fin=[%s] files=%s", st, strings.Join(fins, " "), vfE8TreeLine(tree, false)))
		out.ops = append(out.ops, "tf tree")
		out.impl = append(out.impl, fmt.Sprintf("st=%s tree=%s", st, vfE8TreeLine(tree, true)))
	} else if !ended && out.exit != "0" {
		out.oracle = append(out.oracle, "child ended abnormally: exit "+out.exit)
	}
	// end-state oracle: every finished message's record is in the final tree (after the stop)
	msgs := map[string][]byte{}
	for _, op := range out.ops {
		w := strings.Fields(op)
		if len(w) > 3 && w[1] == "msg" {
			body := []byte{}
			if w[3] != "-" {
				body, _ = hex.DecodeString(w[3])
			}
			msgs[w[2]] = body
		}
	}
	for id := range finished {
		if !vfE8HasLine(tree, append(append([]byte{}, msgs[id]...), '\n')) {
			out.oracle = append(out.oracle, "finished message "+id+" is not in any file after the stop")
		}
	}
	// no-overwrite oracle: pre-existing files keep their bytes as a prefix (exclusive mode: unchanged)
	for _, op := range out.ops {
		w := strings.Fields(op)
		if len(w) == 6 && (w[1] == "pre" || w[1] == "ext") {
			tm, _ := hex.DecodeString(w[3])
			var rev int
			fmt.Sscanf(w[4], "%d", &rev)
			name := w[2] + "/" + strings.Replace(string(tm), "<REV>", fmt.Sprintf("-%06d", rev), -1)
			data := []byte{}
			if w[5] != "-" {
				data, _ = hex.DecodeString(w[5])
			}
			cur, ok := tree[name]
			excl := sc.GZIP || sc.RotateInterval > 0
			if !ok {
				if w[2] == "o" {
					out.oracle = append(out.oracle, "pre-existing output file "+name+" disappeared")
				} else {
					// a work-dir file may only leave by being moved, intact, to the output dir
					found := false
					for _, c := range tree {
						if bytes.HasPrefix(c, data) {
							found = true
						}
					}
					if !found || excl {
						out.oracle = append(out.oracle, "pre-existing work file "+name+" disappeared")
					}
				}
			} else if !bytes.HasPrefix(cur, data) {
				out.oracle = append(out.oracle, "pre-existing file "+name+" was overwritten")
			} else if excl && len(cur) != len(data) {
				out.oracle = append(out.oracle, "pre-existing file "+name+" was modified although files are opened with O_EXCL")
			}
		}
	}
	return out
}

func TestVerifToFileCorr(t *testing.T) {
	if os.Getenv("VF_E8_CASE") != "" {
		t.Skip("parent only")
	}
	dir := os.Getenv("VERIF_OUT")
	if dir == "" {
		dir = t.TempDir()
	}
	n := vfEnvInt("VERIF_N", 100)
	nstrace := vfEnvInt("VERIF_STRACE", 0)
	out := vfOpen("tofile")
	defer out.Close()
	r := vfNewRand(19)
	scripts := make([]vfE8Script, n)
	for i := range scripts {
		scripts[i] = vfE8GenScript(r)
	}
	if rp := os.Getenv("VF_E8_REPLAY"); rp != "" {
		raw, err := os.ReadFile(rp)
		if err != nil {
			t.Fatal(err)
		}
		var sc vfE8Script
		if err := json.Unmarshal(raw, &sc); err != nil {
			t.Fatal(err)
		}
		scripts = []vfE8Script{sc}
		n = 1
	}
	results := make([]vfE8Result, n)
	var wg sync.WaitGroup
	sem := make(chan struct{}, vfEnvInt("VERIF_PAR", 8))
	for i := range scripts {
		wg.Add(1)
		sem <- struct{}{}
		go func(i int) {
			defer wg.Done()
			results[i] = vfE8RunCase(dir, i, scripts[i], i < nstrace)
			<-sem
		}(i)
	}
	wg.Wait()
	hist := map[string]int{}
	fins := 0
	for i, res := range results {
		out.Case(fmt.Sprintf("# case %d", i), "# case "+fmt.Sprint(i))
		for j := range res.ops {
			a := "<missing>"
			if j < len(res.impl) {
				a = res.impl[j]
			}
			out.Case(res.ops[j], a)
			w := strings.Fields(res.ops[j])
			hist["op:"+w[1]]++
			if strings.HasPrefix(a, "st=") {
				hist[strings.Fields(a)[0]]++
			}
		}
		hist["exit:"+res.exit]++
		fins += res.finOK
		for _, o := range res.oracle {
			fmt.Printf("ORACLE-FAIL case=%d %s\n", i, o)
		}
		sc := scripts[i]
		hist[fmt.Sprintf("cfg:gzip=%v", sc.GZIP)]++
		hist[fmt.Sprintf("cfg:workdir=%v", sc.WorkDir)]++
		hist[fmt.Sprintf("cfg:rotsize=%v", sc.RotateSize > 0)]++
		hist[fmt.Sprintf("cfg:rotint=%v", sc.RotateInterval > 0)]++
		hist[fmt.Sprintf("cfg:skipempty=%v", sc.SkipEmpty)]++
	}
	keys := []string{}
	for k := range hist {
		keys = append(keys, k)
	}
	sort.Strings(keys)
	for _, k := range keys {
		fmt.Printf("HIST %s %d\n", k, hist[k])
	}
	fmt.Printf("ORACLE-DONE cases=%d fins_checked=%d\n", n, fins)
}

// TestVerifToFileGiveUp (parent binary, real clock): the tool as shipped = FileLogger + go-nsq Consumer with the
// configuration main() builds (nsq.NewConfig(): max_attempts 5). A source stub delivers one message with a given
// attempts count; is it written before it is finished?
func TestVerifToFileGiveUp(t *testing.T) {
	if os.Getenv("VF_E8_CASE") != "" {
		t.Skip("parent only")
	}
	for _, attempts := range []uint16{1, 5, 6, 9} {
		root := t.TempDir()
		src := vfNewStubNsqd()
		opts := NewOptions()
		opts.OutputDir = root
		opts.WorkDir = root
		opts.NSQDTCPAddrs = []string{src.addr}
		opts.SyncInterval = 20 * time.Millisecond
		opts.HostIdentifier = "h"
		cfg := nsq.NewConfig() // as in main()
		cfg.MaxInFlight = opts.MaxInFlight
		f, err := NewFileLogger(func(lvl lg.LogLevel, f string, args ...interface{}) {}, opts, "t", cfg)
		if err != nil {
			t.Fatal(err)
		}
		f.consumer.SetLoggerLevel(nsq.LogLevelMax)
		done := make(chan struct{})
		go func() {
			f.router()
			close(done)
		}()
		for i := 0; i < 500 && !src.Subscribed(); i++ {
			time.Sleep(2 * time.Millisecond)
		}
		body := []byte(fmt.Sprintf("giveup-%d", attempts))
		src.Deliver("0123456789abcdef", attempts, body)
		resp := "none"
		select {
		case resp = <-src.Resp:
		case <-time.After(10 * time.Second):
		}
		written := vfE8HasLine(vfE8Tree2(root), append(body, '\n'))
		fmt.Printf("GIVEUP tool=nsq_to_file max_attempts=%d attempts=%d written_at_response=%v response=%s\n",
			cfg.MaxAttempts, attempts, written, strings.Fields(resp)[0])
		close(f.termChan)
		select {
		case <-done:
		case <-time.After(5 * time.Second):
		}
		src.Down()
	}
}

func vfE8Tree2(root string) map[string][]byte {
	res := map[string][]byte{}
	filepath.Walk(root, func(p string, fi os.FileInfo, err error) error {
		if err == nil && !fi.IsDir() {
			raw, _ := os.ReadFile(p)
			res[p] = raw
		}
		return nil
	})
	return res
}
