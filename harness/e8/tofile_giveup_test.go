package main

// Tool-level replay of finding `gives-up-after-max-attempts` on the REAL nsq_to_file binary (built from the
// tree under check; path in VF_E8_TOFILE_BIN): a source stub delivers one message with a given attempts
// count; at the instant the tool answers, is the record in a file? Run with the default consumer
// configuration of main() and with the operator's --consumer-opt max_attempts,N.

import (
	"fmt"
	"net/http"
	"os"
	"os/exec"
	"strings"
	"sync/atomic"
	"syscall"
	"testing"
	"time"
)

func TestVerifToFileGiveUpBin(t *testing.T) {
	bin := os.Getenv("VF_E8_TOFILE_BIN")
	if bin == "" || os.Getenv("VF_E8_CASE") != "" {
		t.Skip("needs the nsq_to_file binary; parent only")
	}
	type tc struct {
		cli      string
		attempts uint16
	}
	cases := []tc{{"default", 1}, {"default", 5}, {"default", 6}, {"default", 9}, {"default", 65535},
		{"max_attempts,5", 6}, {"max_attempts,0", 6}, {"max_attempts,2", 2}, {"max_attempts,2", 3}}
	// the committed replay of the known finding (corpus/C19/known/max_attempts.txt, audit C36: it used to be read by
	// nothing): every `tool=nsq_to_file max_attempts=N attempts=M` line is run with the default configuration of
	// main() and with the operator asking for that N
	if rp := os.Getenv("VF_E8_GIVEUP_REPLAY"); rp != "" {
		raw, err := os.ReadFile(rp)
		if err != nil {
			t.Fatal(err)
		}
		for _, l := range strings.Split(string(raw), "\n") {
			if strings.HasPrefix(l, "#") || !strings.Contains(l, "tool=nsq_to_file") {
				continue
			}
			mx, att := -1, -1
			for _, kv := range strings.Fields(l) {
				fmt.Sscanf(kv, "max_attempts=%d", &mx)
				fmt.Sscanf(kv, "attempts=%d", &att)
			}
			if mx < 0 || att < 0 || att > 65535 {
				fmt.Printf("GIVEUPBIN-ERROR unreadable replay line %q\n", l)
				continue
			}
			fmt.Printf("GIVEUPBIN-REPLAY max_attempts=%d attempts=%d\n", mx, att)
			for _, c := range []tc{{"default", uint16(att)}, {fmt.Sprintf("max_attempts,%d", mx), uint16(att)}} {
				dup := false
				for _, o := range cases {
					dup = dup || o == c
				}
				if !dup {
					cases = append(cases, c)
				}
			}
		}
	}
	for i, c := range cases {
		root := t.TempDir()
		src := vfNewStubNsqd()
		args := []string{"--nsqd-tcp-address", src.addr, "--topic", "t", "--output-dir", root, "--sync-interval", "20ms",
			"--host-identifier", "h", "--log-level", "fatal"}
		if c.cli != "default" {
			args = append(args, "--consumer-opt", c.cli)
		}
		cmd := exec.Command(bin, args...)
		cmd.Stderr = nil
		if err := cmd.Start(); err != nil {
			t.Fatal(err)
		}
		exited := make(chan error, 1)
		go func() { exited <- cmd.Wait() }()
		for k := 0; k < 5000 && !src.Subscribed(); k++ {
			time.Sleep(2 * time.Millisecond)
		}
		if !src.Subscribed() {
			fmt.Printf("GIVEUPBIN-ERROR case=%d the tool did not subscribe\n", i)
			cmd.Process.Kill()
			<-exited
			continue
		}
		body := []byte(fmt.Sprintf("giveup-%d-%d", i, c.attempts))
		src.Deliver("0123456789abcdef", c.attempts, body)
		resp := "none"
		select {
		case resp = <-src.Resp:
		case <-time.After(15 * time.Second):
		}
		written := vfE8HasLine(vfE8Tree2(root), append(body, '\n'))
		fmt.Printf("GIVEUPBIN tool=nsq_to_file cli=%s attempts=%d written_at_response=%v response=%s\n",
			c.cli, c.attempts, written, strings.Fields(resp + " -")[0])
		cmd.Process.Signal(syscall.SIGTERM)
		select {
		case <-exited:
		case <-time.After(10 * time.Second):
			cmd.Process.Kill()
			<-exited
		}
		src.Down()
	}
}

// TestVerifToFileGzipLevelBin: the real binary must refuse every --gzip-level outside 1..9 before it consumes
// anything (compress/gzip would return a nil writer, the first write would panic).
func TestVerifToFileGzipLevelBin(t *testing.T) {
	bin := os.Getenv("VF_E8_TOFILE_BIN")
	if bin == "" || os.Getenv("VF_E8_CASE") != "" {
		t.Skip("needs the nsq_to_file binary; parent only")
	}
	for _, level := range []string{"0", "10", "-1", "-3", "100"} {
		root := t.TempDir()
		src := vfNewStubNsqd()
		cmd := exec.Command(bin, "--nsqd-tcp-address", src.addr, "--topic", "t", "--output-dir", root, "--gzip",
			"--gzip-level="+level, "--sync-interval", "20ms", "--host-identifier", "h", "--log-level", "fatal")
		if err := cmd.Start(); err != nil {
			t.Fatal(err)
		}
		exited := make(chan error, 1)
		go func() { exited <- cmd.Wait() }()
		started, code, resp := false, -1, "none"
		deadline := time.After(8 * time.Second)
	wait:
		for {
			select {
			case err := <-exited:
				code = 0
				if ee, ok := err.(*exec.ExitError); ok {
					code = ee.ExitCode()
				}
				break wait
			case <-deadline:
				break wait
			case <-time.After(5 * time.Millisecond):
				if src.Subscribed() {
					started = true
					break wait
				}
			}
		}
		if started {
			src.Deliver("0123456789abcdef", 1, []byte("gzlevel"))
			select {
			case resp = <-src.Resp:
			case err := <-exited:
				resp = "died"
				code = 0
				if ee, ok := err.(*exec.ExitError); ok {
					code = ee.ExitCode()
				}
			case <-time.After(8 * time.Second):
			}
		}
		if code == -1 {
			cmd.Process.Kill()
			<-exited
		}
		fmt.Printf("GZLEVEL level=%s started=%v exit=%d response=%s\n", level, started, code, strings.Fields(resp + " -")[0])
		src.Down()
	}
}

// TestVerifToFileMainBin: the start-up checks of main() on the real binary: generated argument vectors; "started" is
// observed positively (SUB at the stub nsqd, or an HTTP request at the stub lookupd), "refused" = exit code 1 before.
func TestVerifToFileMainBin(t *testing.T) {
	bin := os.Getenv("VF_E8_TOFILE_BIN")
	if bin == "" || os.Getenv("VF_E8_CASE") != "" {
		t.Skip("needs the nsq_to_file binary; parent only")
	}
	r := vfNewRand(0xE8B1)
	n := vfEnvInt("VERIF_N", 36)
	out := vfOpen("tfmain")
	defer out.Close()
	for i := 0; i < n; i++ {
		root := t.TempDir()
		src := vfNewStubNsqd()
		var hits int32
		ln, err := vfListen()
		if err != nil {
			t.Fatal(err)
		}
		go http.Serve(ln, http.HandlerFunc(func(w http.ResponseWriter, req *http.Request) {
			atomic.AddInt32(&hits, 1)
			w.Header().Set("X-NSQ-Content-Type", "nsq; version=1.0")
			w.Write([]byte(`{"topics":[],"channels":[],"producers":[]}`))
		}))
		// mostly valid vectors with one or two deviations
		channel, ct, rt, nn, nl, nt, pat, gl := "c", "1s", "1s", 1, 0, 1, "", "6"
		if r.Intn(2) == 0 {
			nn, nl = 0, 1
		}
		for k, dev := 0, r.Intn(3); k < dev; k++ {
			switch r.Intn(8) {
			case 0:
				channel = ""
			case 1:
				ct = []string{"0s", "-1s", "3s"}[r.Intn(3)] // positive values stay large: a tiny timeout makes the poll itself fail before it reaches the stub
			case 2:
				rt = []string{"0s", "-1ms", "4s"}[r.Intn(3)]
			case 3:
				nn, nl = r.Intn(3), r.Intn(3)
			case 4:
				nt = []int{0, 0, 2}[r.Intn(3)]
			case 5:
				pat = []string{"^t", "", "["}[r.Intn(3)]
			case 6:
				gl = []string{"0", "1", "9", "10", "-2"}[r.Intn(5)]
			case 7:
				nt, pat = 0, "^t"
			}
		}
		if pat == "[" && (nt > 0 || nl == 0) {
			// a pattern that does not compile rejects every topic: with explicit topics the tool starts and idles without
			// any logger (nothing to observe positively); keep it for discovery mode only, where the poll is the signal
			pat = "^t"
		}
		args := []string{"--output-dir", root, "--channel=" + channel, "--http-client-connect-timeout", ct, "--http-client-request-timeout", rt,
			"--gzip-level=" + gl, "--topic-pattern=" + pat, "--topic-refresh", "20ms", "--host-identifier", "h", "--log-level", "fatal"}
		for k := 0; k < nn; k++ {
			args = append(args, "--nsqd-tcp-address", src.addr)
		}
		for k := 0; k < nl; k++ {
			args = append(args, "--lookupd-http-address", ln.Addr().String())
		}
		for k := 0; k < nt; k++ {
			args = append(args, "--topic", fmt.Sprintf("t%d", k))
		}
		cmd := exec.Command(bin, args...)
		if err := cmd.Start(); err != nil {
			t.Fatal(err)
		}
		exited := make(chan error, 1)
		go func() { exited <- cmd.Wait() }()
		res := "hang"
		deadline := time.After(10 * time.Second)
	wait:
		for {
			select {
			case err := <-exited:
				res = "exit0"
				if ee, ok := err.(*exec.ExitError); ok {
					res = fmt.Sprintf("exit%d", ee.ExitCode())
				}
				break wait
			case <-deadline:
				break wait
			case <-time.After(3 * time.Millisecond):
				if src.Subscribed() || atomic.LoadInt32(&hits) > 0 {
					res = "started"
					break wait
				}
			}
		}
		if res == "started" || res == "hang" {
			cmd.Process.Signal(syscall.SIGTERM)
			select {
			case <-exited:
			case <-time.After(5 * time.Second):
				cmd.Process.Kill()
				<-exited
			}
		}
		dur := func(s string) int64 { d, _ := time.ParseDuration(s); return int64(d) }
		impl := res
		if res == "exit1" {
			impl = "refused"
		}
		out.Case(fmt.Sprintf("mn %s %d %d %d %d %d %s %s", vfHex([]byte(channel)), dur(ct), dur(rt), nn, nl, nt, vfHex([]byte(pat)), gl), impl)
		src.Down()
		ln.Close()
	}
	fmt.Printf("ORACLE-DONE main cases=%d\n", n)
}
