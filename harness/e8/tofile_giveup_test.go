package main

// Tool-level replay of finding `gives-up-after-max-attempts` on the REAL nsq_to_file binary (built from the
// tree under check; path in VF_E8_TOFILE_BIN): a source stub delivers one message with a given attempts
// count; at the instant the tool answers, is the record in a file? Run with the default consumer
// configuration of main() and with the operator's --consumer-opt max_attempts,N.

import (
	"fmt"
	"os"
	"os/exec"
	"strings"
	"syscall"
	"testing"
	"time"
)

func TestVerifToFileGiveUpBin(t *testing.T) {
	bin := os.Getenv("VF_E8_TOFILE_BIN")
	if bin == "" || os.Getenv("VF_E8_CASE") != "" {
		t.Skip("needs the nsq_to_file binary; parent only")
	}
	type tc struct {
		cli      string
		attempts uint16
	}
	cases := []tc{{"default", 1}, {"default", 5}, {"default", 6}, {"default", 9}, {"default", 65535},
		{"max_attempts,5", 6}, {"max_attempts,0", 6}, {"max_attempts,2", 2}, {"max_attempts,2", 3}}
	for i, c := range cases {
		root := t.TempDir()
		src := vfNewStubNsqd()
		args := []string{"--nsqd-tcp-address", src.addr, "--topic", "t", "--output-dir", root, "--sync-interval", "20ms",
			"--host-identifier", "h", "--log-level", "fatal"}
		if c.cli != "default" {
			args = append(args, "--consumer-opt", c.cli)
		}
		cmd := exec.Command(bin, args...)
		cmd.Stderr = nil
		if err := cmd.Start(); err != nil {
			t.Fatal(err)
		}
		exited := make(chan error, 1)
		go func() { exited <- cmd.Wait() }()
		for k := 0; k < 5000 && !src.Subscribed(); k++ {
			time.Sleep(2 * time.Millisecond)
		}
		if !src.Subscribed() {
			fmt.Printf("GIVEUPBIN-ERROR case=%d the tool did not subscribe\n", i)
			cmd.Process.Kill()
			<-exited
			continue
		}
		body := []byte(fmt.Sprintf("giveup-%d-%d", i, c.attempts))
		src.Deliver("0123456789abcdef", c.attempts, body)
		resp := "none"
		select {
		case resp = <-src.Resp:
		case <-time.After(15 * time.Second):
		}
		written := vfE8HasLine(vfE8Tree2(root), append(body, '\n'))
		fmt.Printf("GIVEUPBIN tool=nsq_to_file cli=%s attempts=%d written_at_response=%v response=%s\n",
			c.cli, c.attempts, written, strings.Fields(resp + " -")[0])
		cmd.Process.Signal(syscall.SIGTERM)
		select {
		case <-exited:
		case <-time.After(10 * time.Second):
			cmd.Process.Kill()
			<-exited
		}
		src.Down()
	}
}

// TestVerifToFileGzipLevelBin: the real binary must refuse every --gzip-level outside 1..9 before it consumes
// anything (compress/gzip would return a nil writer, the first write would panic).
func TestVerifToFileGzipLevelBin(t *testing.T) {
	bin := os.Getenv("VF_E8_TOFILE_BIN")
	if bin == "" || os.Getenv("VF_E8_CASE") != "" {
		t.Skip("needs the nsq_to_file binary; parent only")
	}
	for _, level := range []string{"0", "10", "-1", "-3", "100"} {
		root := t.TempDir()
		src := vfNewStubNsqd()
		cmd := exec.Command(bin, "--nsqd-tcp-address", src.addr, "--topic", "t", "--output-dir", root, "--gzip",
			"--gzip-level="+level, "--sync-interval", "20ms", "--host-identifier", "h", "--log-level", "fatal")
		if err := cmd.Start(); err != nil {
			t.Fatal(err)
		}
		exited := make(chan error, 1)
		go func() { exited <- cmd.Wait() }()
		started, code, resp := false, -1, "none"
		deadline := time.After(8 * time.Second)
	wait:
		for {
			select {
			case err := <-exited:
				code = 0
				if ee, ok := err.(*exec.ExitError); ok {
					code = ee.ExitCode()
				}
				break wait
			case <-deadline:
				break wait
			case <-time.After(5 * time.Millisecond):
				if src.Subscribed() {
					started = true
					break wait
				}
			}
		}
		if started {
			src.Deliver("0123456789abcdef", 1, []byte("gzlevel"))
			select {
			case resp = <-src.Resp:
			case err := <-exited:
				resp = "died"
				code = 0
				if ee, ok := err.(*exec.ExitError); ok {
					code = ee.ExitCode()
				}
			case <-time.After(8 * time.Second):
			}
		}
		if code == -1 {
			cmd.Process.Kill()
			<-exited
		}
		fmt.Printf("GZLEVEL level=%s started=%v exit=%d response=%s\n", level, started, code, strings.Fields(resp + " -")[0])
		src.Down()
	}
}
