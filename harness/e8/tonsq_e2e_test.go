package main

// End-to-end leg for apps/to_nsq (property C20, main loop): the REAL binary (built by lib/c20_opts.py,
// path in VF_E8_TONSQ_BIN) runs as a subprocess against 1-3 stub nsqds with generated stdin, with and
// without --rate. Oracles: exit code 0 on EOF; every stub holds exactly the records of stdin, in order, at
// the moment the process has exited; with 1 <= rate <= 1e9 the run took at least
// ceil((iterations-1)/2) * interval (iterations = delimiters + 1), the wall-clock consequence of the counting
// theorem `to_nsq_throttle_count_partial` (never an upper bound). SIGTERM cases: prefix / at-most-one-record
// difference, and a replay of the Lean witness `to_nsq_exit_flushed_false`.

import (
	"bytes"
	"fmt"
	"io"
	"os"
	"os/exec"
	"strings"
	"syscall"
	"testing"
	"time"
)

func vfE2ESpec(delim byte, in []byte) [][]byte {
	var recs [][]byte
	for _, p := range bytes.Split(in, []byte{delim}) {
		if len(p) > 0 {
			recs = append(recs, p)
		}
	}
	return recs
}

func vfE2EFmt(recs [][]byte) string {
	var hs []string
	for _, r := range recs {
		hs = append(hs, vfHex(r))
	}
	return fmt.Sprintf("n=%d [%s]", len(recs), strings.Join(hs, ","))
}

func vfE2EOkBodies(ps []vfStubPub) [][]byte {
	var out [][]byte
	for _, p := range ps {
		if p.Verb == "ok" {
			out = append(out, p.Body)
		}
	}
	return out
}

// a schedule for the model: the theorems say the answer does not depend on it
func vfE2ESched(r *vfRand, n int) string {
	k := r.Intn(50)
	if k == 0 {
		return "-"
	}
	var ws []string
	for i := 0; i < k; i++ {
		switch r.Intn(10) {
		case 0:
			ws = append(ws, "t")
		case 1:
			ws = append(ws, []string{"ta", "ts"}[r.Intn(2)])
		case 2, 3:
			ws = append(ws, "l")
		case 4, 5:
			ws = append(ws, "r")
		case 6, 7:
			ws = append(ws, fmt.Sprintf("p%d", r.Intn(n)))
		case 8:
			ws = append(ws, "d")
		default:
			ws = append(ws, []string{"w", fmt.Sprintf("s%d", r.Intn(n))}[r.Intn(2)])
		}
	}
	return strings.Join(ws, ",")
}

type vfE2ERun struct {
	code    int
	elapsed time.Duration
	stderr  string
}

func vfE2EStart(bin string, delim byte, rate string, stubs []*vfStubNsqd) *exec.Cmd {
	args := []string{"--topic=vf", "--delimiter=" + string([]byte{delim})}
	if rate != "" {
		args = append(args, "--rate="+rate)
	}
	for _, s := range stubs {
		args = append(args, "--nsqd-tcp-address="+s.addr)
	}
	return exec.Command(bin, args...)
}

func vfE2EExit(err error) int {
	if err == nil {
		return 0
	}
	if ee, ok := err.(*exec.ExitError); ok {
		if ee.ExitCode() >= 0 {
			return ee.ExitCode()
		}
		return 128 // killed by a signal
	}
	return 255
}

func TestVerifToNsqE2E(t *testing.T) {
	bin := os.Getenv("VF_E8_TONSQ_BIN")
	if bin == "" {
		t.Skip("VF_E8_TONSQ_BIN not set")
	}
	out := vfOpen("tonsq_e2e")
	defer out.Close()
	r := vfNewRand(21)
	n := vfEnvInt("VERIF_N", 40)
	nrate := vfEnvInt("VERIF_NRATE", 6)
	hist := map[string]int{}
	bad := 0
	fail := func(format string, a ...interface{}) {
		bad++
		fmt.Printf("ORACLE-FAIL "+format+"\n", a...)
	}
	type tc struct {
		delim byte
		in    []byte
		rate  string // "" = flag absent
		slow  bool
	}
	var cases []tc
	fixed := []tc{
		{'\n', []byte("ab"), "", false}, {'\n', []byte("one\ntwo\n\nthree"), "", true}, {'\n', nil, "", false},
		{',', []byte("a,,b,"), "0", false}, {'\n', []byte("a\nb\nc\nd\ne\nf\ng\nh\ni\nj\nk\nl"), "50", false},
		{'\n', []byte("a\nb\nc\nd\ne\nf\n"), "-3", false}, {'\n', []byte("a\nb\nc\nd\ne\nf\ng\nh"), "2000000000", true},
	}
	cases = append(cases, fixed...)
	for i := 0; i < n; i++ {
		d, in := vfE8GenInput(r)
		if d == 0 { // a NUL byte cannot be passed in argv
			d = 1
			in = bytes.ReplaceAll(in, []byte{0}, []byte{1})
		}
		rate := []string{"", "", "0", "-1", "1000000001", "4000000000"}[r.Intn(6)]
		cases = append(cases, tc{d, in, rate, r.Intn(4) == 0})
	}
	for i := 0; i < nrate; i++ { // throttled: few short records so that the run stays well under a second
		d := []byte{'\n', ',', 0xff, 'a'}[r.Intn(4)]
		var in []byte
		k := 4 + r.Intn(12)
		for j := 0; j < k; j++ {
			if r.Intn(5) != 0 {
				b := r.Bytes(1 + r.Intn(6))
				for x := range b {
					if b[x] == d {
						b[x] = d + 1
					}
				}
				in = append(in, b...)
			}
			if j < k-1 || r.Intn(2) == 0 {
				in = append(in, d)
			}
		}
		rate := []string{"40", "50", "64", "100", "33"}[r.Intn(5)]
		cases = append(cases, tc{d, in, rate, r.Intn(3) == 0})
	}
	for ci, c := range cases {
		nd := 1 + r.Intn(3)
		var stubs []*vfStubNsqd
		for i := 0; i < nd; i++ {
			s := vfNewStubNsqd()
			stubs = append(stubs, s)
		}
		if c.slow {
			stubs[r.Intn(nd)].delay = time.Duration(5+r.Intn(20)) * time.Millisecond
		}
		var rate int64
		fmt.Sscanf(c.rate, "%d", &rate)
		throttled := rate >= 1
		var interval time.Duration
		if throttled {
			interval = time.Second / time.Duration(rate) // as main computes it; 0 above 1e9
		}
		iters := bytes.Count(c.in, []byte{c.delim}) + 1
		cmd := vfE2EStart(bin, c.delim, c.rate, stubs)
		cmd.Stdin = bytes.NewReader(c.in)
		var stderr bytes.Buffer
		cmd.Stderr = &stderr
		t0 := time.Now()
		err := cmd.Run()
		elapsed := time.Since(t0)
		// snapshot NOW: everything the tool acknowledged must already be here (Publish is synchronous)
		var got []string
		for _, s := range stubs {
			ps := s.Since(0)
			for _, p := range ps {
				if p.Topic != "vf" {
					fail("case %d: topic %q", ci, p.Topic)
				}
			}
			got = append(got, vfE2EFmt(vfE2EOkBodies(ps)))
		}
		for _, s := range stubs {
			s.Down()
		}
		code := vfE2EExit(err)
		want := vfE2EFmt(vfE2ESpec(c.delim, c.in))
		desc := fmt.Sprintf("rate=%q delim=%02x stubs=%d slow=%v input=%s", c.rate, c.delim, nd, c.slow, vfHex(c.in))
		if len(desc) > 300 {
			desc = desc[:300] + "…"
		}
		if code != 0 {
			fail("exit code %d on EOF (%s) stderr=%q", code, desc, strings.TrimSpace(stderr.String()))
		}
		same := 1
		for i, g := range got {
			if g != want {
				fail("stub %d of %d held %.200s when the process had exited; the records of stdin are %.200s (%s)", i, nd, g, want, desc)
			}
			if g != got[0] {
				same = 0
			}
		}
		kind := "unthrottled"
		if throttled && interval > 0 {
			kind = "throttled"
			min := time.Duration((iters-1+1)/2) * interval
			if elapsed < min {
				fail("throttle: %d loop iterations at --rate %d took %v, less than ceil((iterations-1)/2)*interval = %v (%s)",
					iters, rate, elapsed, min, desc)
			}
			hist["throttled_iters"] += iters
			fmt.Printf("THROTTLE rate=%d iters=%d elapsed_ms=%d lower_bound_ms=%d\n", rate, iters, elapsed.Milliseconds(), min.Milliseconds())
		} else if throttled {
			kind = "rate>1e9(interval 0)"
		} else if c.rate != "" {
			kind = "rate<1(disabled)"
		}
		hist[kind]++
		if len(c.in) > 4096 {
			hist["input>4096"]++
		}
		if len(c.in) > 0 && c.in[len(c.in)-1] != c.delim {
			hist["unterminated"]++
		}
		mi := 0
		if throttled {
			mi = iters
		}
		out.Case(fmt.Sprintf("lp %d %d %02x %s %s 1", rate, nd, c.delim, vfHex(c.in), vfE2ESched(r, nd)),
			fmt.Sprintf("exit=%d same=%d %s iters=%d", code, same, got[0], mi))
	}
	vfE2ESigterm(bin, r, fail, hist)
	for k, v := range hist {
		fmt.Printf("HIST %s %d\n", k, v)
	}
	fmt.Printf("ORACLE-DONE cases=%d failing=%d\n", len(cases), bad)
}

func vfE2EWaitCount(stubs []*vfStubNsqd, k int, d time.Duration) bool {
	deadline := time.Now().Add(d)
	for time.Now().Before(deadline) {
		ok := true
		for _, s := range stubs {
			if s.Count() < k {
				ok = false
			}
		}
		if ok {
			return true
		}
		time.Sleep(2 * time.Millisecond)
	}
	return false
}

// SIGTERM path. (a) signal while the reader is blocked on stdin: exit 0, every completely read record is at
// every stub, the unterminated tail is lost. (b) replay of `to_nsq_exit_flushed_false`: a record consumed
// from stdin, one destination not answering, SIGTERM: the process exits and not every destination has it.
func vfE2ESigterm(bin string, r *vfRand, fail func(string, ...interface{}), hist map[string]int) {
	isPrefix := func(a, b [][]byte) bool {
		if len(a) > len(b) {
			return false
		}
		for i := range a {
			if !bytes.Equal(a[i], b[i]) {
				return false
			}
		}
		return true
	}
	for round := 0; round < 2; round++ {
		nd := 2 + r.Intn(2)
		var stubs []*vfStubNsqd
		for i := 0; i < nd; i++ {
			stubs = append(stubs, vfNewStubNsqd())
		}
		k := 2 + r.Intn(4)
		var in []byte
		var recs [][]byte
		for j := 0; j < k; j++ {
			b := []byte(fmt.Sprintf("rec%d-%d", round, j))
			recs = append(recs, b)
			in = append(in, b...)
			in = append(in, '\n')
		}
		rate := []string{"", "200"}[round%2]
		cmd := vfE2EStart(bin, '\n', rate, stubs)
		pw, err := cmd.StdinPipe()
		if err != nil {
			fail("sigterm: %v", err)
			return
		}
		var stderr bytes.Buffer
		cmd.Stderr = &stderr
		if err := cmd.Start(); err != nil {
			fail("sigterm: %v", err)
			return
		}
		pw.Write(in)
		pw.Write([]byte("tail-without-delimiter"))
		if !vfE2EWaitCount(stubs, k, 10*time.Second) {
			fail("sigterm(idle): the %d records did not arrive at every stub", k)
		}
		cmd.Process.Signal(syscall.SIGTERM)
		werr := cmd.Wait()
		code := vfE2EExit(werr)
		if code != 0 {
			fail("sigterm(idle): exit code %d, stderr=%q", code, strings.TrimSpace(stderr.String()))
		}
		for i, s := range stubs {
			got := vfE2EOkBodies(s.Since(0))
			if vfE2EFmt(got) != vfE2EFmt(recs) {
				fail("sigterm(idle): stub %d holds %s, completely read records are %s", i, vfE2EFmt(got), vfE2EFmt(recs))
			}
			s.Down()
		}
		io.WriteString(io.Discard, "")
		hist["sigterm_idle"]++
	}
	// (b) witness replay
	a, b := vfNewStubNsqd(), vfNewStubNsqd()
	b.Script("ok", "stall")
	stubs := []*vfStubNsqd{a, b}
	cmd := vfE2EStart(bin, '\n', "", stubs)
	pw, _ := cmd.StdinPipe()
	var stderr bytes.Buffer
	cmd.Stderr = &stderr
	if err := cmd.Start(); err != nil {
		fail("sigterm: %v", err)
		return
	}
	pw.Write([]byte("first\n"))
	vfE2EWaitCount(stubs, 1, 10*time.Second)
	pw.Write([]byte("second\n"))
	deadline := time.Now().Add(10 * time.Second)
	for b.Count() < 2 && time.Now().Before(deadline) { // b received `second` and will never answer
		time.Sleep(2 * time.Millisecond)
	}
	time.Sleep(20 * time.Millisecond)
	cmd.Process.Signal(syscall.SIGTERM)
	werr := cmd.Wait()
	code := vfE2EExit(werr)
	ga, gb := vfE2EOkBodies(a.Since(0)), vfE2EOkBodies(b.Since(0))
	want := [][]byte{[]byte("first"), []byte("second")}
	if !isPrefix(ga, want) || !isPrefix(gb, want) {
		fail("sigterm(in flight): acknowledged %s / %s is not a prefix of the records", vfE2EFmt(ga), vfE2EFmt(gb))
	}
	if d := len(ga) - len(gb); d > 1 || d < -1 {
		fail("sigterm(in flight): destinations differ by more than the record in flight: %d vs %d", len(ga), len(gb))
	}
	lost := len(ga) < 2 || len(gb) < 2
	fmt.Printf("SIGTERM-WITNESS exit=%d acked_a=%d acked_b=%d consumed=2 lost=%v (model: to_nsq_exit_flushed_false)\n",
		code, len(ga), len(gb), lost)
	if code != 0 && code != 1 {
		fail("sigterm(in flight): exit code %d (expected 0 from main or 1 from log.Fatal), stderr=%q", code, strings.TrimSpace(stderr.String()))
	}
	a.Down()
	b.Down()
	hist["sigterm_inflight"]++
}
