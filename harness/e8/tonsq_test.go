package main

// Correspondence + direct oracle for apps/to_nsq `readAndPublish` (property C20, to_nsq clause):
// generated input streams are pushed through the real function (same loop as main) into stub
// destination nsqds; what arrives is compared with the Lean model and with the records of the input.

import (
	"bufio"
	"bytes"
	"fmt"
	"io"
	"os"
	"strings"
	"testing"

	"github.com/nsqio/go-nsq"
)

func vfE8GenInput(r *vfRand) (byte, []byte) {
	var delim byte
	switch r.Intn(5) {
	case 0, 1:
		delim = '\n'
	case 2:
		delim = []byte{0, ',', 0xff, ' ', 'a'}[r.Intn(5)]
	default:
		delim = byte(r.Next())
	}
	var in []byte
	piece := func() []byte {
		var n int
		switch r.Intn(12) {
		case 0, 1:
			n = 0
		case 2, 3, 4:
			n = 1 + r.Intn(3)
		case 5, 6, 7:
			n = r.Intn(40)
		case 8:
			n = 4090 + r.Intn(12) // around the 4096-byte bufio buffer
		case 9:
			n = 4096*2 - 3 + r.Intn(6)
		case 10:
			n = 200 + r.Intn(600)
		default:
			n = 1
		}
		b := r.Bytes(n)
		for i := range b {
			if r.Intn(3) == 0 {
				b[i] = "ab\n,"[r.Intn(4)]
			}
			if b[i] == delim {
				b[i] = delim + 1
			}
		}
		return b
	}
	np := r.Intn(7)
	for i := 0; i < np; i++ {
		in = append(in, piece()...)
		in = append(in, delim)
	}
	switch r.Intn(3) { // final record: missing, unterminated, or unterminated and exactly filling buffers
	case 0:
	case 1:
		in = append(in, piece()...)
	default:
		p := piece()
		if len(p) == 0 {
			p = []byte{delim + 1}
		}
		in = append(in, p...)
	}
	if r.Intn(6) == 0 { // arbitrary bytes, delimiter wherever it falls
		in = r.Bytes(r.Intn(64))
	}
	return delim, in
}

func TestVerifToNsqCorr(t *testing.T) {
	out := vfOpen("tonsq")
	defer out.Close()
	r := vfNewRand(20)
	n := vfEnvInt("VERIF_N", 2000)
	ndest := 1 + r.Intn(3)
	var stubs []*vfStubNsqd
	producers := map[string]*nsq.Producer{}
	cfg := nsq.NewConfig()
	for i := 0; i < ndest; i++ {
		s := vfNewStubNsqd()
		stubs = append(stubs, s)
		p, err := nsq.NewProducer(s.addr, cfg)
		if err != nil {
			t.Fatal(err)
		}
		p.SetLoggerLevel(nsq.LogLevelError)
		producers[s.addr] = p
	}
	*topic = "vf"
	type tc struct {
		delim byte
		in    []byte
	}
	var cases []tc
	if rp := os.Getenv("VF_E8_REPLAY"); rp != "" { // replay file: lines "sp <which> <delimhex> <inputhex>"
		raw, err := os.ReadFile(rp)
		if err != nil {
			t.Fatal(err)
		}
		for _, l := range strings.Split(string(raw), "\n") {
			w := strings.Fields(l)
			if len(w) == 4 && w[0] == "sp" {
				d := vfE8Unhex(w[2])
				cases = append(cases, tc{d[0], vfE8Unhex(w[3])})
			}
		}
	} else {
		cases = append(cases, tc{'\n', []byte("ab")}, tc{'\n', []byte("one\nab")}, tc{'\n', nil}, tc{'\n', []byte("\n")},
			tc{'\n', []byte("a\n")}, tc{',', []byte("a,,b,")})
		for i := 0; i < n; i++ {
			d, in := vfE8GenInput(r)
			cases = append(cases, tc{d, in})
		}
	}
	bad := 0
	for _, c := range cases {
		marks := make([]int, ndest)
		for i, s := range stubs {
			marks[i] = s.Count()
		}
		rd := bufio.NewReader(bytes.NewReader(c.in)) // main: bufio.NewReader(os.Stdin)
		for {                                         // main: for { err = readAndPublish(r, delim, producers); if err != nil { … break } }
			err := readAndPublish(rd, c.delim, producers)
			if err != nil {
				if err != io.EOF {
					t.Fatalf("publish error: %v", err)
				}
				break
			}
		}
		var lines []string
		for i, s := range stubs {
			var recs []string
			for _, p := range s.Since(marks[i]) {
				recs = append(recs, vfHex(p.Body))
			}
			lines = append(lines, fmt.Sprintf("n=%d [%s]", len(recs), strings.Join(recs, ",")))
		}
		for i := 1; i < ndest; i++ {
			if lines[i] != lines[0] {
				bad++
				fmt.Printf("ORACLE-FAIL destinations differ for delim=%02x input=%s\n", c.delim, vfHex(c.in))
			}
		}
		out.Case(fmt.Sprintf("sp fixed %02x %s", c.delim, vfHex(c.in)), lines[0])
	}
	for _, p := range producers {
		p.Stop()
	}
	fmt.Printf("ORACLE-DONE cases=%d destinations=%d differing=%d\n", len(cases), ndest, bad)
}

func vfE8Unhex(s string) []byte {
	if s == "-" {
		return nil
	}
	b := make([]byte, len(s)/2)
	fmt.Sscanf(s, "%x", &b)
	return b
}
