package main

// Correspondence + direct oracle for apps/nsq_to_nsq (property C20, relay clause): the real
// PublishHandler.HandleMessage + responder against scripted stub destinations (accept / reject /
// drop the connection / refuse connections), recording message delegates, every mode,
// with and without the JSON filter. The go-nsq response rule applied after HandleMessage is the
// one of Consumer.handlerLoop (tied by its regenerated skeleton).
// One message at a time here (one outstanding transaction). Several outstanding transactions completing out of
// order, transactions that are never answered (stall) and the real Consumer in front of the handler:
// n2n_giveup_test.go (TestVerifN2NHist, TestVerifN2NGiveUp). Audit round 7 (C31): the `fstr` fed to the model
// below is read off the implementation's behaviour; every message therefore also prints a FILTER line (filter
// configuration + INPUT body + what the implementation did) which lib/c20_audit7.py checks against an independent
// implementation of the JSON stage over the input body.

import (
	"fmt"
	"sort"
	"strings"
	"sync/atomic"
	"testing"
	"time"

	"github.com/bitly/go-hostpool"
	"github.com/bitly/timer_metrics"
	"github.com/nsqio/go-nsq"
)

type vfN2NRec struct {
	ch chan string
}

func (r *vfN2NRec) OnFinish(m *nsq.Message) { r.ch <- "fin" }
func (r *vfN2NRec) OnRequeue(m *nsq.Message, d time.Duration, b bool) {
	r.ch <- fmt.Sprintf("req(%d,%v)", d, b)
}
func (r *vfN2NRec) OnTouch(m *nsq.Message) {}

func TestVerifN2NCorr(t *testing.T) {
	out := vfOpen("n2n")
	defer out.Close()
	r := vfNewRand(21)
	n := vfEnvInt("VERIF_N", 300)
	hist := map[string]int{}
	oracleFail := 0
	fail := func(s string) {
		oracleFail++
		fmt.Printf("ORACLE-FAIL %s\n", s)
	}
	id := 0
	for seg := 0; seg < 12; seg++ {
		naddr := 1 + r.Intn(3)
		rr := seg%2 == 0
		eps := seg%4 == 3
		filter := []string{"", "", "require", "requireval", "whitelist"}[r.Intn(5)]
		*requireJSONField, *requireJSONValue = "", ""
		whitelistJSONFields = whitelistJSONFields[:0]
		switch filter {
		case "require":
			*requireJSONField = "k"
		case "requireval":
			*requireJSONField, *requireJSONValue = "k", []string{"v", "7"}[r.Intn(2)]
		case "whitelist":
			whitelistJSONFields = append(whitelistJSONFields, "k", "n")
		}
		var stubs []*vfStubNsqd
		var addrs []string
		producers := map[string]*nsq.Producer{}
		perAddr := map[string]*timer_metrics.TimerMetrics{}
		cfg := nsq.NewConfig()
		for i := 0; i < naddr; i++ {
			s := vfNewStubNsqd()
			stubs = append(stubs, s)
			addrs = append(addrs, s.addr)
			p, _ := nsq.NewProducer(s.addr, cfg)
			p.SetLoggerLevel(nsq.LogLevelMax)
			producers[s.addr] = p
			perAddr[s.addr] = timer_metrics.NewTimerMetrics(0, "")
		}
		index := func(a string) int {
			for i, x := range addrs {
				if x == a {
					return i
				}
			}
			return -1
		}
		hp := hostpool.New(addrs)
		if eps {
			hp = hostpool.NewEpsilonGreedy(addrs, 0, &hostpool.LinearEpsilonValueCalculator{})
		}
		ph := &PublishHandler{addresses: addrs, producers: producers, mode: ModeHostPool, hostPool: hp,
			respChan: make(chan *nsq.ProducerTransaction, naddr), perAddressStatus: perAddr,
			timermetrics: timer_metrics.NewTimerMetrics(0, "")}
		if rr {
			ph.mode = ModeRoundRobin
		}
		th := &TopicHandler{publishHandler: ph, destinationTopic: "dst"}
		go ph.responder()
		down := -1
		for k := 0; k < n/12; k++ {
			id++
			// destination behaviour for this message
			verb := []string{"ok", "ok", "ok", "err", "close", "ok", "err"}[r.Intn(7)]
			if r.Intn(9) == 0 && down < 0 {
				down = r.Intn(naddr)
				stubs[down].Down()
			} else if down >= 0 && r.Intn(3) == 0 {
				stubs[down].Up()
				down = -1
			}
			var body []byte
			switch r.Intn(7) {
			case 6:
				body = []byte(fmt.Sprintf(" \t{\"k\":\"v\",\"pad\":%d}\r\n ", r.Intn(10)))
			case 0:
				body = r.Bytes(r.Intn(30))
			case 1:
				body = []byte(`{"k":"v","n":3,"z":[1,2]}`)
			case 2:
				body = []byte(`{"k":7,"n":2.5}`)
			case 3:
				body = []byte(`{"n":1}`)
			case 4:
				body = []byte(`{"k":"other"}`)
			default:
				body = []byte(fmt.Sprintf(`{"k":"v","i":%d}`, r.Intn(1000)))
			}
			for _, s := range stubs {
				s.mu.Lock()
				s.next = []string{verb}
				s.mu.Unlock()
			}
			marks := make([]int, naddr)
			for i, s := range stubs {
				marks[i] = s.Count()
			}
			var mid nsq.MessageID
			copy(mid[:], fmt.Sprintf("%d", id))
			m := nsq.NewMessage(mid, body)
			rec := &vfN2NRec{ch: make(chan string, 4)}
			m.Delegate = rec
			counter := atomic.LoadUint64(&ph.counter)
			err := th.HandleMessage(m)
			// go-nsq Consumer.handlerLoop
			if err != nil {
				if !m.IsAutoResponseDisabled() {
					m.Requeue(-1)
				}
			} else if !m.IsAutoResponseDisabled() {
				m.Finish()
			}
			immediate := ""
			if !m.IsAutoResponseDisabled() {
				immediate = <-rec.ch
			} else if err != nil {
				fail(fmt.Sprintf("message %d: HandleMessage returned an error (%v) with auto-response disabled: nobody will ever answer it", id, err))
				continue
			}
			// what reached which destination
			pubAddr, nPub := -1, 0
			var pubBody []byte
			result := ""
			if m.IsAutoResponseDisabled() {
				// PublishAsync queued: every transaction completes (OK / error frame / lost connection); the stub
				// records the PUB before it answers, so after the response the stub counters are final
				select {
				case result = <-rec.ch:
				case <-time.After(60 * time.Second):
					fail(fmt.Sprintf("message %d: no response to a %s destination", id, verb))
					continue
				}
			}
			for i, s := range stubs {
				for _, p := range s.Since(marks[i]) {
					nPub++
					pubAddr, pubBody = i, p.Body
					if p.Topic != "dst" {
						fail("wrong destination topic " + p.Topic)
					}
				}
			}
			if nPub > 1 {
				fail(fmt.Sprintf("message %d published %d times by one HandleMessage", id, nPub))
			}
			filterOn := filter != ""
			fstr := "drop"
			asyncErr := 0
			pick := 0
			var evs []string
			switch {
			case nPub == 1:
				fstr = "pass:" + vfHex(pubBody)
				pick = pubAddr
				evs = append(evs, fmt.Sprintf("publish:%d:%d:%s", pubAddr, id, vfHex(pubBody)))
			case m.IsAutoResponseDisabled():
				// queued but the connection broke before the stub read it: a transaction that fails
				fstr = "pass:" + vfHex(body)
				hist["queued-unseen"]++
			case strings.HasPrefix(immediate, "req"):
				evs = append(evs, fmt.Sprintf("req:%d", id))
				if filterOn && atomic.LoadUint64(&ph.counter) == counter && (rr || down < 0) {
					fstr = "backoff" // returned before a destination was chosen
				} else {
					fstr = "pass:" + vfHex(body)
					asyncErr = 1
				}
				if immediate != "req(-1,true)" {
					fail("immediate requeue is not Requeue(-1): " + immediate)
				}
			default:
				evs = append(evs, fmt.Sprintf("fin:%d", id))
				if !filterOn {
					fail(fmt.Sprintf("message %d finished without being published and without a filter", id))
				}
			}
			{
				fk, fv, fi := "none", "-", "unseen"
				if filterOn {
					fk = filter
				}
				if *requireJSONValue != "" {
					fv = vfHex([]byte(*requireJSONValue))
				}
				switch {
				case nPub == 1:
					fi = "pass:" + vfHex(pubBody)
				case m.IsAutoResponseDisabled():
				case strings.HasPrefix(immediate, "req"):
					fi = "req"
				default:
					fi = "drop"
				}
				fmt.Printf("FILTER leg=corr id=%d filter=%s value=%s body=%s model=%s impl=%s\n", id, fk, fv, vfHex(body), fstr, fi)
			}
			b2i := func(b bool) int {
				if b {
					return 1
				}
				return 0
			}
			if !(m.IsAutoResponseDisabled() && nPub == 0) {
				out.Case(fmt.Sprintf("rl n2n-msg %d %d %d %d %d %s %s %d %d", b2i(rr), naddr, b2i(filterOn), counter, id, vfHex(body), fstr, pick, asyncErr),
					fmt.Sprintf("counter=%d %s", atomic.LoadUint64(&ph.counter), strings.Join(evs, " ")))
			}
			hist["filter:"+strings.SplitN(fstr, ":", 2)[0]]++
			if !filterOn && nPub == 1 && string(pubBody) != string(body) {
				fail(fmt.Sprintf("message %d was modified on the way although no filter is configured", id))
			}
			// the transaction result
			if m.IsAutoResponseDisabled() {
				resp := result
				ok := nPub == 1 && verb == "ok"
				hist["result:"+verb+":"+strings.SplitN(resp, "(", 2)[0]]++
				if resp == "fin" && !ok {
					fail(fmt.Sprintf("message %d FINISHED although the destination answered %q (published=%d)", id, verb, nPub))
				}
				if ok && resp != "fin" {
					fail(fmt.Sprintf("message %d accepted by the destination but answered %s", id, resp))
				}
				if resp != "fin" && resp != "req(-1,true)" {
					fail("responder requeue is not Requeue(-1): " + resp)
				}
				if nPub == 1 {
					rs := fmt.Sprintf("rejected:%d:%d req:%d", pubAddr, id, id)
					if resp == "fin" {
						rs = fmt.Sprintf("accepted:%d:%d fin:%d", pubAddr, id, id)
					}
					out.Case(fmt.Sprintf("rl n2n-result %d %d %s %d", pubAddr, id, vfHex(pubBody), b2i(verb == "ok")), "left=0 "+rs)
				}
				// exactly one response
				select {
				case extra := <-rec.ch:
					fail(fmt.Sprintf("message %d answered twice (%s)", id, extra))
				case <-time.After(time.Millisecond):
				}
			}
			_ = index
		}
		if down >= 0 {
			stubs[down].Up()
		}
		for _, p := range producers {
			p.Stop()
		}
		close(ph.respChan)
		for _, s := range stubs {
			s.Down()
		}
	}
	keys := []string{}
	for k := range hist {
		keys = append(keys, k)
	}
	sort.Strings(keys)
	for _, k := range keys {
		fmt.Printf("HIST %s %d\n", k, hist[k])
	}
	fmt.Printf("ORACLE-DONE messages=%d failures=%d\n", id, oracleFail)
}
