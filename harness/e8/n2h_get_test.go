package main

// Audit round 7, item C23 (property C20, nsq_to_http GET mode): the REAL GetPublisher.Publish against an httptest
// destination that records the raw request target (RequestURI) exactly as it came over the wire. Generated templates
// (all pass main()'s check `strings.Count(addr, "%s") == 1`): clean ones (`%s` in the query or in the path, `%%`),
// and unclean ones (a stray `%` at the end, `%20`, `%d`, `%%s`); bodies over all byte values.
// Correspondence: op `a7 get <template> <body>` → `Nsq.Model.HttpGet.endpoint` (compared for clean templates; the model
// does not render Go's `%!…` diagnostics). Oracle (lib/c20_audit7.py, python urllib): for a clean template the
// destination saw exactly template[%s := quote_plus(body)] and unquoting the parameter gives back the body; for an
// unclean template a request that was ACCEPTED although its target contains `%!` is the open finding
// get-template-stray-percent.

import (
	"fmt"
	"net/http"
	"sort"
	"strings"
	"sync"
	"testing"
	"time"
)

func TestVerifN2HGet(t *testing.T) {
	out := vfOpen("n2h_get")
	defer out.Close()
	r := vfNewRand(0xC23)
	n := vfEnvInt("VERIF_N", 150)
	var mu sync.Mutex
	var saw []string
	srv := vfHTTPServer(http.HandlerFunc(func(w http.ResponseWriter, req *http.Request) {
		mu.Lock()
		saw = append(saw, req.RequestURI)
		mu.Unlock()
		w.WriteHeader(200)
	}))
	defer srv.Close()
	httpclient = &http.Client{Timeout: 5 * time.Second}
	p := &GetPublisher{}
	hist := map[string]int{}
	clean := []string{"/p?d=%s", "/p?x=50%%25&d=%s", "/a/b?k=v&d=%s&z=1", "/put/%s", "/put/%s?k=v", "/p?d=%s&e=100%%", "/%%41?d=%s"} // no '#': the fragment of the endpoint string is never sent
	unclean := []string{"/p?d=%s&pct=100%", "/a%20b?d=%s", "/p?x=50%25&d=%s", "/p?d=%%s", "/p?n=%d&d=%s", "/p?d=%s&w=%5d", "/p?d=%s%"}
	for _, l := range vfKnownLines("get-template-stray-percent") { // committed replay: template=<tmpl> …
		if f := strings.Fields(l); len(f) > 0 && strings.HasPrefix(f[0], "template=") {
			tm, dup := strings.TrimPrefix(f[0], "template="), false
			for _, u := range unclean {
				dup = dup || u == tm
			}
			if !dup {
				unclean = append(unclean, tm)
			}
		}
	}
	all := make([]byte, 256)
	for i := range all {
		all[i] = byte(i)
	}
	fixedBodies := [][]byte{[]byte("hello"), nil, []byte("a b&c=d#e?f/g%h+i"), all, []byte("%s%d%%"), []byte("ünï©ødé\n\r\t\x00"),
		[]byte("line\n"), []byte("line\r\n"), []byte(" padded "), []byte("\n")}
	type tc struct {
		tmpl string
		body []byte
	}
	var cases []tc
	for _, tm := range clean {
		for _, b := range fixedBodies {
			cases = append(cases, tc{tm, b})
		}
	}
	for _, tm := range unclean {
		cases = append(cases, tc{tm, []byte("hello")}, tc{tm, []byte("a b")})
	}
	for i := 0; i < 256; i++ { // every byte value on its own, between two letters
		cases = append(cases, tc{clean[i%len(clean)], []byte{'<', byte(i), '>'}}, tc{clean[(i/8)%len(clean)], []byte{byte(i)}})
	}
	for i := 0; i < n; i++ {
		tm := clean[r.Intn(len(clean))]
		if r.Intn(6) == 0 {
			tm = unclean[r.Intn(len(unclean))]
		}
		cases = append(cases, tc{tm, r.Bytes(r.Intn(40))})
	}
	for _, c := range cases {
		if strings.Count(c.tmpl, "%s") != 1 { // main()'s check (tied on the real binary by the round-6 `opt args` leg)
			t.Fatalf("generator: template %q would be refused by main()", c.tmpl)
		}
		mu.Lock()
		saw = saw[:0]
		mu.Unlock()
		err := p.Publish(srv.URL+c.tmpl, c.body)
		mu.Lock()
		got := append([]string{}, saw...)
		mu.Unlock()
		uri := "none"
		if len(got) == 1 {
			uri = vfHex([]byte(got[0]))
		} else if len(got) > 1 {
			uri = fmt.Sprintf("many(%d)", len(got))
		}
		e := 0
		if err != nil {
			e = 1
			hist["publish-error"]++
		}
		hist["requests:"+fmt.Sprint(len(got))]++
		fmt.Printf("GETCASE tmpl=%s body=%s err=%d uri=%s\n", vfHex([]byte(c.tmpl)), vfHex(c.body), e, uri)
		out.Case(fmt.Sprintf("a7 get %s %s", vfHex([]byte(c.tmpl)), vfHex(c.body)), fmt.Sprintf("main=1 uri=%s", uri))
	}
	keys := []string{}
	for k := range hist {
		keys = append(keys, k)
	}
	sort.Strings(keys)
	for _, k := range keys {
		fmt.Printf("HIST %s %d\n", k, hist[k])
	}
	fmt.Printf("ORACLE-DONE cases=%d\n", len(cases))
}
