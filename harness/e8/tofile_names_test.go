package main

// Correspondence for the file-name functions of apps/nsq_to_file (property C19):
// the real computeFilenameFormat(opts, topic) and (*FileLogger).currentFilename() on generated
// option sets / formats, against the Lean model Nsq.Model.ToFileName (which is also proved equal to
// the go2lean translation of the two functions). Environment inputs (host name, pid, the
// strftime rendering of the clock) are read off the real system and handed to the model.

import (
	"fmt"
	"os"
	"strings"
	"testing"
	"time"
)

var vfE8NameTokens = []string{"<REV>", "<TOPIC>", "<HOST>", "<PID>", "<DATETIME>", "<SHORT_HOST>", "<HOSTNAME>",
	"<", ">", "<RE", "V>", "<REV", "REV>", "<<REV>>", "<TOP", "IC>", "<HOS", "T>", "<P", "ID>", ".gz", ".g", "z", ".", "-", "_",
	"log", "a", "x/y", "<DATE", "TIME>", "<REV><REV>", "<TOPIC><HOST>", "%Y", "%%"}

func vfE8NameFormat(r *vfRand, must ...string) string {
	n := 1 + r.Intn(6)
	var parts []string
	for i := 0; i < n; i++ {
		parts = append(parts, vfE8NameTokens[r.Intn(len(vfE8NameTokens))])
	}
	for _, m := range must {
		parts = append(parts, m)
	}
	// shuffle
	for i := len(parts) - 1; i > 0; i-- {
		j := r.Intn(i + 1)
		parts[i], parts[j] = parts[j], parts[i]
	}
	return strings.Join(parts, "")
}

func TestVerifToFileNames(t *testing.T) {
	if os.Getenv("VF_E8_CASE") != "" {
		t.Skip("parent only")
	}
	r := vfNewRand(0xE8A1)
	n := vfEnvInt("VERIF_N", 600)
	out := vfOpen("tfnames")
	defer out.Close()
	hostname, herr := os.Hostname()
	pid := fmt.Sprintf("%d", os.Getpid())
	hist := map[string]int{}
	fails := 0
	for i := 0; i < n; i++ {
		opts := NewOptions()
		switch r.Intn(4) {
		case 0:
			opts.FilenameFormat = "<TOPIC>.<HOST><REV>.<DATETIME>.log"
		case 1:
			opts.FilenameFormat = vfE8NameFormat(r, "<REV>")
		default:
			opts.FilenameFormat = vfE8NameFormat(r)
		}
		if r.Intn(3) == 0 {
			opts.HostIdentifier = vfE8NameFormat(r)
		}
		opts.GZIP = r.Intn(4) == 0
		if r.Intn(4) == 0 {
			opts.RotateSize = int64(r.Intn(3)) - 1 // -1, 0, 1
		}
		if r.Intn(4) == 0 {
			opts.RotateInterval = time.Duration(int64(r.Intn(3)) - 1)
		}
		opts.OutputDir = "/o"
		opts.WorkDir = "/o"
		if r.Intn(4) == 0 {
			opts.WorkDir = "/w"
		}
		topic := []string{"t", "topic_1", "a.b-c", "REV", "x#ephemeral"}[r.Intn(5)]
		cff, err := computeFilenameFormat(opts, topic)
		hk, hv := "ok", hostname
		if herr != nil {
			hk, hv = "err", herr.Error()
		}
		b := func(v bool) string {
			if v {
				return "1"
			}
			return "0"
		}
		op := fmt.Sprintf("fn cff %s %s %s %d %d %s %s %s %s %s %s", vfHex([]byte(opts.HostIdentifier)),
			vfHex([]byte(opts.FilenameFormat)), b(opts.GZIP), opts.RotateSize, int64(opts.RotateInterval),
			vfHex([]byte(opts.WorkDir)), vfHex([]byte(opts.OutputDir)), vfHex([]byte(topic)), hk, vfHex([]byte(hv)), vfHex([]byte(pid)))
		needRev := opts.GZIP || opts.RotateSize > 0 || opts.RotateInterval > 0 || opts.WorkDir != opts.OutputDir
		var impl string
		if err != nil {
			impl = "err " + vfHex([]byte(err.Error()))
			hist["cff:err"]++
			// direct oracle: the only refusal is a needed but missing <REV>
			if !needRev || strings.Contains(opts.FilenameFormat, "<REV>") {
				fmt.Printf("ORACLE-FAIL names case=%d refused although <REV> is not needed or present: %q\n", i, opts.FilenameFormat)
				fails++
			}
		} else {
			rev := strings.Contains(cff, "<REV>")
			impl = fmt.Sprintf("ok %s rev=%s", vfHex([]byte(cff)), b(rev))
			hist[fmt.Sprintf("cff:ok:needrev=%v:rev=%v", needRev, rev)]++
			// direct oracle (C19 no-overwrite precondition): a rotating/gzip/work-dir logger has <REV> in its format
			if needRev && !rev {
				fmt.Printf("ORACLE-FAIL names case=%d format %q accepted for a rotating configuration, computed %q has no <REV>\n", i, opts.FilenameFormat, cff)
				fails++
			}
			if opts.GZIP && !strings.HasSuffix(cff, ".gz") {
				fmt.Printf("ORACLE-FAIL names case=%d gzip format %q does not end in .gz\n", i, cff)
				fails++
			}
		}
		out.Case(op, impl)
		if err != nil {
			continue
		}
		// currentFilename on the computed format: datetime = strftime(format, now), stable across the call
		opts.DatetimeFormat = []string{"%Y-%m-%d_%H", "%Y%m%d", "<REV>%H", "%Y<DATETIME>", "x", "", "<DATE%HTIME>", "%H.gz"}[r.Intn(8)]
		f := &FileLogger{opts: opts, filenameFormat: cff}
		var dt, name string
		for try := 0; try < 5; try++ {
			dt = strftime(opts.DatetimeFormat, time.Now())
			name = f.currentFilename()
			if dt == strftime(opts.DatetimeFormat, time.Now()) {
				break
			}
		}
		out.Case(fmt.Sprintf("fn cfn %s %s", vfHex([]byte(cff)), vfHex([]byte(dt))), vfHex([]byte(name)))
		hist["cfn"]++
		if strings.Contains(cff, "<REV>") && !strings.Contains(name, "<REV>") {
			fmt.Printf("ORACLE-FAIL names case=%d <REV> lost between format %q and file name %q\n", i, cff, name)
			fails++
		}
		if opts.GZIP && !strings.HasSuffix(name, ".gz") {
			fmt.Printf("ORACLE-FAIL names case=%d gzip file name %q does not end in .gz\n", i, name)
			fails++
		}
	}
	for k, v := range hist {
		fmt.Printf("HIST %s %d\n", k, v)
	}
	fmt.Printf("ORACLE-DONE names cases=%d fails=%d\n", n, fails)
}
