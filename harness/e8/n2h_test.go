package main

// Correspondence + direct oracle for apps/nsq_to_http (property C20, relay clause): the real
// PublishHandler.HandleMessage with PostPublisher / GetPublisher against a scripted HTTP stub
// (status code per request, stalls, refused connections), every mode, with and without sampling.

import (
	"bufio"
	"fmt"
	"io"
	"math/rand"
	"net"
	"net/http"
	"sort"
	"strings"
	"sync"
	"sync/atomic"
	"testing"
	"time"

	"github.com/bitly/go-hostpool"
	"github.com/bitly/timer_metrics"
	"github.com/nsqio/go-nsq"
)

type vfN2HReq struct {
	addr   int
	body   []byte
	status string
}

type vfN2HStub struct {
	mu      sync.Mutex
	seen    []vfN2HReq
	script  map[int]string // per address: status code or "stall"
	release chan struct{}
}

func (s *vfN2HStub) ServeHTTP(w http.ResponseWriter, r *http.Request) {
	var k int
	fmt.Sscanf(r.URL.Path, "/a%d", &k)
	var body []byte
	if r.Method == "POST" {
		body, _ = io.ReadAll(r.Body)
	} else {
		body = []byte(r.URL.Query().Get("d"))
	}
	s.mu.Lock()
	st := s.script[k]
	s.seen = append(s.seen, vfN2HReq{k, body, st})
	rel := s.release
	s.mu.Unlock()
	if st == "stall" {
		<-rel
		return
	}
	var code int
	fmt.Sscanf(st, "%d", &code)
	w.WriteHeader(code)
	if code != 204 && code != 304 {
		w.Write([]byte("x"))
	}
}

// serveHang is the "dead" destination (audit round 7, C31: no request is reconstructed any more): a raw
// listener that reads the request, records it like any other endpoint (status "x") and hangs up without an
// answer, so the tool gets a transport error for a request the harness has *seen*.
func (s *vfN2HStub) serveHang(ln net.Listener) {
	for {
		c, err := ln.Accept()
		if err != nil {
			return
		}
		go func(c net.Conn) {
			defer c.Close()
			c.SetDeadline(time.Now().Add(5 * time.Second))
			r, err := http.ReadRequest(bufio.NewReader(c))
			if err != nil {
				return
			}
			var k int
			fmt.Sscanf(r.URL.Path, "/a%d", &k)
			var body []byte
			if r.Method == "POST" {
				body, _ = io.ReadAll(r.Body)
			} else {
				body = []byte(r.URL.Query().Get("d"))
			}
			s.mu.Lock()
			s.seen = append(s.seen, vfN2HReq{k, body, "x"})
			s.mu.Unlock()
		}(c)
	}
}

type vfN2HRec struct{ got []string }

func (r *vfN2HRec) OnFinish(m *nsq.Message) { r.got = append(r.got, "fin") }
func (r *vfN2HRec) OnRequeue(m *nsq.Message, d time.Duration, b bool) {
	r.got = append(r.got, fmt.Sprintf("req(%d,%v)", d, b))
}
func (r *vfN2HRec) OnTouch(m *nsq.Message) {}

func TestVerifN2HCorr(t *testing.T) {
	out := vfOpen("n2h")
	defer out.Close()
	r := vfNewRand(22)
	n := vfEnvInt("VERIF_N", 600)
	stub := &vfN2HStub{script: map[int]string{}, release: make(chan struct{})}
	srv := vfHTTPServer(stub)
	defer srv.Close()
	// the "dead" address: a listener that reads the request and hangs up (transport error, request seen)
	dl, _ := vfListen()
	deadHost := dl.Addr().String()
	defer dl.Close()
	go stub.serveHang(dl)
	httpclient = &http.Client{Timeout: 150 * time.Millisecond}
	hist := map[string]int{}
	fails := 0
	fail := func(s string) {
		fails++
		fmt.Printf("ORACLE-FAIL %s\n", s)
	}
	codes := []string{"200", "200", "200", "201", "202", "204", "226", "299", "300", "304", "400", "404", "418", "500", "502", "503", "599"}
	id := 0
	nseg := 18
	for seg := 0; seg < nseg; seg++ {
		naddr := 1 + r.Intn(3)
		post := seg%2 == 0
		mode := []int{ModeAll, ModeRoundRobin, ModeHostPool}[seg%3]
		eps := seg%6 == 5
		*sample = []float64{1.0, 1.0, 1.0, 1.0, 0.5}[seg%5]
		if seg == 16 {
			*sample = 0.0
		}
		deadIdx := -1
		if r.Intn(4) == 0 {
			deadIdx = r.Intn(naddr)
		}
		var addrs []string
		perAddr := map[string]*timer_metrics.TimerMetrics{}
		for i := 0; i < naddr; i++ {
			host := strings.TrimPrefix(srv.URL, "http://")
			if i == deadIdx {
				host = deadHost
			}
			a := fmt.Sprintf("http://%s/a%d", host, i)
			if !post {
				a += "?d=%s"
			}
			addrs = append(addrs, a)
			perAddr[a] = timer_metrics.NewTimerMetrics(0, "")
		}
		hp := hostpool.New(addrs)
		if eps {
			hp = hostpool.NewEpsilonGreedy(addrs, 0, &hostpool.LinearEpsilonValueCalculator{})
		}
		var pub Publisher = &GetPublisher{}
		if post {
			pub = &PostPublisher{}
		}
		ph := &PublishHandler{Publisher: pub, addresses: addrs, mode: mode, hostPool: hp, perAddressStatus: perAddr,
			timermetrics: timer_metrics.NewTimerMetrics(0, "")}
		// audit round 7, C31: the response rule is go-nsq's own — the handler sits behind a real Consumer built as
		// main() builds it, fed by a source stub nsqd; the FIN / REQ is read off the wire of the source connection
		src := vfNewStubNsqd()
		ccfg := nsq.NewConfig()
		ccfg.MaxInFlight = *maxInFlight
		consumer, cerr := nsq.NewConsumer("t", "nsq_to_http", ccfg)
		if cerr != nil {
			t.Fatal(cerr)
		}
		consumer.SetLoggerLevel(nsq.LogLevelMax)
		consumer.AddConcurrentHandlers(ph, 1)
		if err := consumer.ConnectToNSQD(src.addr); err != nil {
			t.Fatal(err)
		}
		for i := 0; i < 2500 && !src.Subscribed(); i++ {
			time.Sleep(2 * time.Millisecond)
		}
		for k := 0; k < n/nseg; k++ {
			id++
			body := r.Bytes(r.Intn(24))
			if r.Intn(3) == 0 {
				body = []byte(fmt.Sprintf("msg %d &=%%+/?", id))
			} else if r.Intn(5) == 0 {
				body = []byte(fmt.Sprintf(" \tpadded %d\r\n", id))
			}
			stalls := 0
			stub.mu.Lock()
			stub.seen = nil
			var respStr []string
			stallMsg := r.Intn(40) == 0 // a stalled message stalls at every address: the outcome cannot depend on load
			for i := 0; i < naddr; i++ {
				st := codes[r.Intn(len(codes))]
				if stallMsg {
					st = "stall"
					stalls++
				}
				stub.script[i] = st
				if i == deadIdx || st == "stall" {
					respStr = append(respStr, "x")
				} else {
					respStr = append(respStr, st)
				}
			}
			stub.mu.Unlock()
			// generous timeout unless this message is meant to time out
			httpclient = &http.Client{Timeout: 20 * time.Second}
			if stallMsg {
				httpclient = &http.Client{Timeout: 100 * time.Millisecond}
			}
			seed := int64(r.Next() >> 1)
			rand.Seed(seed)
			draw := rand.Float64()
			rand.Seed(seed)
			sampledOut := *sample < 1.0 && draw > *sample
			counter := atomic.LoadUint64(&ph.counter)
			rec := &vfN2HRec{}
			select {
			case extra := <-src.Resp:
				fail(fmt.Sprintf("a second response for message %d: %s", id-1, extra))
			default:
			}
			src.Deliver(fmt.Sprintf("%016d", id), 1, body)
			select {
			case resp := <-src.Resp:
				switch w := strings.Fields(resp); {
				case len(w) == 2 && w[0] == "FIN" && w[1] == fmt.Sprintf("%016d", id):
					rec.got = append(rec.got, "fin")
				case len(w) == 3 && w[0] == "REQ" && w[1] == fmt.Sprintf("%016d", id):
					rec.got = append(rec.got, "req")
				default:
					rec.got = append(rec.got, "other:"+resp)
				}
			case <-time.After(60 * time.Second):
			}
			if stalls > 0 {
				stub.mu.Lock()
				close(stub.release)
				stub.release = make(chan struct{})
				stub.mu.Unlock()
			}
			if len(rec.got) != 1 {
				fail(fmt.Sprintf("message %d got %d responses", id, len(rec.got)))
				continue
			}
			stub.mu.Lock()
			seen := append([]vfN2HReq{}, stub.seen...)
			stub.mu.Unlock()
			// requests in the order made, every one of them seen by a stub endpoint
			var evs []string
			pick := 0
			finished := rec.got[0] == "fin"
			reqs := append([]vfN2HReq{}, seen...)
			for i, q := range reqs {
				acc := 1
				if i == len(reqs)-1 && !finished {
					acc = 0
				}
				evs = append(evs, fmt.Sprintf("request:%d:%s:%d", q.addr, vfHex(q.body), acc))
				pick = q.addr
				if string(q.body) != string(body) {
					fail(fmt.Sprintf("message %d arrived modified at address %d", id, q.addr))
				}
				// direct oracle: the verdict the tool acted on versus the status the destination gave
				if acc == 1 && !vfN2HAccept(post, q.status) {
					fail(fmt.Sprintf("message %d: status %s from address %d treated as success (post=%v)", id, q.status, q.addr, post))
				}
				if acc == 0 && vfN2HAccept(post, q.status) {
					fail(fmt.Sprintf("message %d: status %s from address %d treated as failure (post=%v)", id, q.status, q.addr, post))
				}
			}
			if finished {
				evs = append(evs, fmt.Sprintf("fin:%d", id))
				if !sampledOut {
					if mode == ModeAll && len(reqs) != naddr {
						fail(fmt.Sprintf("message %d FINISHED after %d of %d addresses in mode all", id, len(reqs), naddr))
					}
					if len(reqs) == 0 {
						fail(fmt.Sprintf("message %d FINISHED without any request", id))
					}
				}
			} else {
				evs = append(evs, fmt.Sprintf("req:%d", id))
				if rec.got[0] != "req" {
					fail(fmt.Sprintf("message %d answered with %s", id, rec.got[0]))
				}
			}
			b2i := func(b bool) int {
				if b {
					return 1
				}
				return 0
			}
			modeName := []string{"all", "rr", "hp"}[mode]
			out.Case(fmt.Sprintf("rl http %s %d %d %d %d %d %s %d %d %s", modeName, naddr, b2i(post), b2i(*sample < 1.0), counter, id,
				vfHex(body), b2i(sampledOut), pick, strings.Join(respStr, ",")),
				fmt.Sprintf("counter=%d %s", atomic.LoadUint64(&ph.counter), strings.Join(evs, " ")))
			hist[fmt.Sprintf("%s:post=%v:%s", modeName, post, strings.SplitN(rec.got[0], "(", 2)[0])]++
			if sampledOut {
				hist["sampled-out"]++
			}
		}
		consumer.Stop()
		src.Down()
	}
	keys := []string{}
	for k := range hist {
		keys = append(keys, k)
	}
	sort.Strings(keys)
	for _, k := range keys {
		fmt.Printf("HIST %s %d\n", k, hist[k])
	}
	fmt.Printf("ORACLE-DONE messages=%d failures=%d\n", id, fails)
}

// the property's notion of "destination accepted": 2xx for POST, 200 for GET
func vfN2HAccept(post bool, status string) bool {
	var code int
	if _, err := fmt.Sscanf(status, "%d", &code); err != nil {
		return false
	}
	if post {
		return code >= 200 && code < 300
	}
	return code == 200
}

// TestVerifN2HGiveUp: the tool as shipped = handler + go-nsq Consumer with the configuration main() builds
// (nsq.NewConfig(): max_attempts 5). A source stub delivers one message with a given attempts count while the
// destination answers 500: the property wants Requeue; what does the tool answer?
func TestVerifN2HGiveUp(t *testing.T) {
	stub := &vfN2HStub{script: map[int]string{0: "500"}, release: make(chan struct{})}
	srv := vfHTTPServer(stub)
	defer srv.Close()
	httpclient = &http.Client{Timeout: 2 * time.Second}
	*sample = 1.0
	for _, attempts := range vfGiveUpAttempts("nsq_to_http", []uint16{1, 5, 6, 9}) {
		src := vfNewStubNsqd()
		cfg := nsq.NewConfig() // as in main()
		cfg.MaxInFlight = *maxInFlight
		consumer, err := nsq.NewConsumer("t", "nsq_to_http", cfg)
		if err != nil {
			t.Fatal(err)
		}
		consumer.SetLoggerLevel(nsq.LogLevelMax)
		addr := srv.URL + "/a0"
		ph := &PublishHandler{Publisher: &PostPublisher{}, addresses: []string{addr}, mode: ModeRoundRobin,
			hostPool: hostpool.New([]string{addr}), perAddressStatus: map[string]*timer_metrics.TimerMetrics{addr: timer_metrics.NewTimerMetrics(0, "")},
			timermetrics: timer_metrics.NewTimerMetrics(0, "")}
		consumer.AddConcurrentHandlers(ph, 1)
		if err := consumer.ConnectToNSQD(src.addr); err != nil {
			t.Fatal(err)
		}
		for i := 0; i < 500 && !src.Subscribed(); i++ {
			time.Sleep(2 * time.Millisecond)
		}
		stub.mu.Lock()
		stub.seen = nil
		stub.mu.Unlock()
		src.Deliver("0123456789abcdef", attempts, []byte("payload"))
		resp := "none"
		select {
		case resp = <-src.Resp:
		case <-time.After(10 * time.Second):
		}
		stub.mu.Lock()
		nreq := len(stub.seen)
		stub.mu.Unlock()
		fmt.Printf("GIVEUP tool=nsq_to_http max_attempts=%d attempts=%d destination=500 requests=%d response=%s\n",
			cfg.MaxAttempts, attempts, nreq, strings.Fields(resp)[0])
		consumer.Stop()
		src.Down()
	}
}
