package main

// Correspondence + direct oracle for apps/nsq_to_http (property C20, relay clause): the real
// PublishHandler.HandleMessage with PostPublisher / GetPublisher against a scripted HTTP stub
// (status code per request, stalls, refused connections), every mode, with and without sampling.

import (
	"fmt"
	"io"
	"math/rand"
	"net"
	"net/http"
	"net/http/httptest"
	"sort"
	"strings"
	"sync"
	"sync/atomic"
	"testing"
	"time"

	"github.com/bitly/go-hostpool"
	"github.com/bitly/timer_metrics"
	"github.com/nsqio/go-nsq"
)

type vfN2HReq struct {
	addr   int
	body   []byte
	status string
}

type vfN2HStub struct {
	mu      sync.Mutex
	seen    []vfN2HReq
	script  map[int]string // per address: status code or "stall"
	release chan struct{}
}

func (s *vfN2HStub) ServeHTTP(w http.ResponseWriter, r *http.Request) {
	var k int
	fmt.Sscanf(r.URL.Path, "/a%d", &k)
	var body []byte
	if r.Method == "POST" {
		body, _ = io.ReadAll(r.Body)
	} else {
		body = []byte(r.URL.Query().Get("d"))
	}
	s.mu.Lock()
	st := s.script[k]
	s.seen = append(s.seen, vfN2HReq{k, body, st})
	rel := s.release
	s.mu.Unlock()
	if st == "stall" {
		<-rel
		return
	}
	var code int
	fmt.Sscanf(st, "%d", &code)
	w.WriteHeader(code)
	if code != 204 && code != 304 {
		w.Write([]byte("x"))
	}
}

type vfN2HRec struct{ got []string }

func (r *vfN2HRec) OnFinish(m *nsq.Message) { r.got = append(r.got, "fin") }
func (r *vfN2HRec) OnRequeue(m *nsq.Message, d time.Duration, b bool) {
	r.got = append(r.got, fmt.Sprintf("req(%d,%v)", d, b))
}
func (r *vfN2HRec) OnTouch(m *nsq.Message) {}

func TestVerifN2HCorr(t *testing.T) {
	out := vfOpen("n2h")
	defer out.Close()
	r := vfNewRand(22)
	n := vfEnvInt("VERIF_N", 600)
	stub := &vfN2HStub{script: map[int]string{}, release: make(chan struct{})}
	srv := httptest.NewServer(stub)
	defer srv.Close()
	// an address nobody listens on (transport error)
	dl, _ := net.Listen("tcp", "127.0.0.1:0")
	deadHost := dl.Addr().String()
	dl.Close()
	httpclient = &http.Client{Timeout: 150 * time.Millisecond}
	hist := map[string]int{}
	fails := 0
	fail := func(s string) {
		fails++
		fmt.Printf("ORACLE-FAIL %s\n", s)
	}
	codes := []string{"200", "200", "200", "201", "202", "204", "226", "299", "300", "304", "400", "404", "418", "500", "502", "503", "599"}
	id := 0
	nseg := 18
	for seg := 0; seg < nseg; seg++ {
		naddr := 1 + r.Intn(3)
		post := seg%2 == 0
		mode := []int{ModeAll, ModeRoundRobin, ModeHostPool}[seg%3]
		eps := seg%6 == 5
		*sample = []float64{1.0, 1.0, 1.0, 1.0, 0.5}[seg%5]
		if seg == 16 {
			*sample = 0.0
		}
		deadIdx := -1
		if r.Intn(4) == 0 {
			deadIdx = r.Intn(naddr)
		}
		var addrs []string
		perAddr := map[string]*timer_metrics.TimerMetrics{}
		for i := 0; i < naddr; i++ {
			host := strings.TrimPrefix(srv.URL, "http://")
			if i == deadIdx {
				host = deadHost
			}
			a := fmt.Sprintf("http://%s/a%d", host, i)
			if !post {
				a += "?d=%s"
			}
			addrs = append(addrs, a)
			perAddr[a] = timer_metrics.NewTimerMetrics(0, "")
		}
		hp := hostpool.New(addrs)
		if eps {
			hp = hostpool.NewEpsilonGreedy(addrs, 0, &hostpool.LinearEpsilonValueCalculator{})
		}
		var pub Publisher = &GetPublisher{}
		if post {
			pub = &PostPublisher{}
		}
		ph := &PublishHandler{Publisher: pub, addresses: addrs, mode: mode, hostPool: hp, perAddressStatus: perAddr,
			timermetrics: timer_metrics.NewTimerMetrics(0, "")}
		for k := 0; k < n/nseg; k++ {
			id++
			body := r.Bytes(r.Intn(24))
			if r.Intn(3) == 0 {
				body = []byte(fmt.Sprintf("msg %d &=%%+/?", id))
			} else if r.Intn(5) == 0 {
				body = []byte(fmt.Sprintf(" \tpadded %d\r\n", id))
			}
			stalls := 0
			stub.mu.Lock()
			stub.seen = nil
			var respStr []string
			stallMsg := r.Intn(40) == 0 // a stalled message stalls at every address: the outcome cannot depend on load
			for i := 0; i < naddr; i++ {
				st := codes[r.Intn(len(codes))]
				if stallMsg {
					st = "stall"
					stalls++
				}
				stub.script[i] = st
				if i == deadIdx || st == "stall" {
					respStr = append(respStr, "x")
				} else {
					respStr = append(respStr, st)
				}
			}
			stub.mu.Unlock()
			// generous timeout unless this message is meant to time out
			httpclient = &http.Client{Timeout: 20 * time.Second}
			if stallMsg {
				httpclient = &http.Client{Timeout: 100 * time.Millisecond}
			}
			seed := int64(r.Next() >> 1)
			rand.Seed(seed)
			draw := rand.Float64()
			rand.Seed(seed)
			sampledOut := *sample < 1.0 && draw > *sample
			var mid nsq.MessageID
			copy(mid[:], fmt.Sprintf("%d", id))
			m := nsq.NewMessage(mid, body)
			rec := &vfN2HRec{}
			m.Delegate = rec
			counter := atomic.LoadUint64(&ph.counter)
			err := ph.HandleMessage(m)
			if err != nil { // go-nsq Consumer.handlerLoop
				if !m.IsAutoResponseDisabled() {
					m.Requeue(-1)
				}
			} else if !m.IsAutoResponseDisabled() {
				m.Finish()
			}
			if stalls > 0 {
				stub.mu.Lock()
				close(stub.release)
				stub.release = make(chan struct{})
				stub.mu.Unlock()
			}
			if len(rec.got) != 1 {
				fail(fmt.Sprintf("message %d got %d responses", id, len(rec.got)))
				continue
			}
			stub.mu.Lock()
			seen := append([]vfN2HReq{}, stub.seen...)
			stub.mu.Unlock()
			// requests in the order made; a request to the dead address is not seen by the stub:
			// reconstruct it from the mode (mode all: first address not seen before the error)
			var evs []string
			pick := 0
			finished := rec.got[0] == "fin"
			reqs := []vfN2HReq{}
			reqs = append(reqs, seen...)
			if !finished && !sampledOut {
				expect := -1
				switch mode {
				case ModeAll:
					if len(seen) < naddr && (len(seen) == 0 || seen[len(seen)-1].addr != deadIdx) {
						// did the last seen request fail, or was the next one the dead address?
						if len(seen) == deadIdx {
							ok := true
							for _, q := range seen {
								if !vfN2HAccept(post, q.status) {
									ok = false
								}
							}
							if ok {
								expect = deadIdx
							}
						}
					}
				case ModeRoundRobin:
					if len(seen) == 0 {
						expect = int((counter + 1) % uint64(naddr))
					}
				case ModeHostPool:
					if len(seen) == 0 {
						expect = deadIdx
					}
				}
				if expect >= 0 {
					reqs = append(reqs, vfN2HReq{expect, body, "x"})
				}
			}
			for i, q := range reqs {
				acc := 1
				if i == len(reqs)-1 && !finished {
					acc = 0
				}
				evs = append(evs, fmt.Sprintf("request:%d:%s:%d", q.addr, vfHex(q.body), acc))
				pick = q.addr
				if string(q.body) != string(body) {
					fail(fmt.Sprintf("message %d arrived modified at address %d", id, q.addr))
				}
				// direct oracle: the verdict the tool acted on versus the status the destination gave
				if acc == 1 && !vfN2HAccept(post, q.status) {
					fail(fmt.Sprintf("message %d: status %s from address %d treated as success (post=%v)", id, q.status, q.addr, post))
				}
				if acc == 0 && vfN2HAccept(post, q.status) {
					fail(fmt.Sprintf("message %d: status %s from address %d treated as failure (post=%v)", id, q.status, q.addr, post))
				}
			}
			if finished {
				evs = append(evs, fmt.Sprintf("fin:%d", id))
				if !sampledOut {
					if mode == ModeAll && len(reqs) != naddr {
						fail(fmt.Sprintf("message %d FINISHED after %d of %d addresses in mode all", id, len(reqs), naddr))
					}
					if len(reqs) == 0 {
						fail(fmt.Sprintf("message %d FINISHED without any request", id))
					}
				}
			} else {
				evs = append(evs, fmt.Sprintf("req:%d", id))
				if rec.got[0] != "req(-1,true)" {
					fail("requeue is not Requeue(-1): " + rec.got[0])
				}
			}
			b2i := func(b bool) int {
				if b {
					return 1
				}
				return 0
			}
			modeName := []string{"all", "rr", "hp"}[mode]
			out.Case(fmt.Sprintf("rl http %s %d %d %d %d %d %s %d %d %s", modeName, naddr, b2i(post), b2i(*sample < 1.0), counter, id,
				vfHex(body), b2i(sampledOut), pick, strings.Join(respStr, ",")),
				fmt.Sprintf("counter=%d %s", atomic.LoadUint64(&ph.counter), strings.Join(evs, " ")))
			hist[fmt.Sprintf("%s:post=%v:%s", modeName, post, strings.SplitN(rec.got[0], "(", 2)[0])]++
			if sampledOut {
				hist["sampled-out"]++
			}
		}
	}
	keys := []string{}
	for k := range hist {
		keys = append(keys, k)
	}
	sort.Strings(keys)
	for _, k := range keys {
		fmt.Printf("HIST %s %d\n", k, hist[k])
	}
	fmt.Printf("ORACLE-DONE messages=%d failures=%d\n", id, fails)
}

// the property's notion of "destination accepted": 2xx for POST, 200 for GET
func vfN2HAccept(post bool, status string) bool {
	var code int
	if _, err := fmt.Sscanf(status, "%d", &code); err != nil {
		return false
	}
	if post {
		return code >= 200 && code < 300
	}
	return code == 200
}

// TestVerifN2HGiveUp: the tool as shipped = handler + go-nsq Consumer with the configuration main() builds
// (nsq.NewConfig(): max_attempts 5). A source stub delivers one message with a given attempts count while the
// destination answers 500: the property wants Requeue; what does the tool answer?
func TestVerifN2HGiveUp(t *testing.T) {
	stub := &vfN2HStub{script: map[int]string{0: "500"}, release: make(chan struct{})}
	srv := httptest.NewServer(stub)
	defer srv.Close()
	httpclient = &http.Client{Timeout: 2 * time.Second}
	*sample = 1.0
	for _, attempts := range []uint16{1, 5, 6, 9} {
		src := vfNewStubNsqd()
		cfg := nsq.NewConfig() // as in main()
		cfg.MaxInFlight = *maxInFlight
		consumer, err := nsq.NewConsumer("t", "nsq_to_http", cfg)
		if err != nil {
			t.Fatal(err)
		}
		consumer.SetLoggerLevel(nsq.LogLevelMax)
		addr := srv.URL + "/a0"
		ph := &PublishHandler{Publisher: &PostPublisher{}, addresses: []string{addr}, mode: ModeRoundRobin,
			hostPool: hostpool.New([]string{addr}), perAddressStatus: map[string]*timer_metrics.TimerMetrics{addr: timer_metrics.NewTimerMetrics(0, "")},
			timermetrics: timer_metrics.NewTimerMetrics(0, "")}
		consumer.AddConcurrentHandlers(ph, 1)
		if err := consumer.ConnectToNSQD(src.addr); err != nil {
			t.Fatal(err)
		}
		for i := 0; i < 500 && !src.Subscribed(); i++ {
			time.Sleep(2 * time.Millisecond)
		}
		stub.mu.Lock()
		stub.seen = nil
		stub.mu.Unlock()
		src.Deliver("0123456789abcdef", attempts, []byte("payload"))
		resp := "none"
		select {
		case resp = <-src.Resp:
		case <-time.After(10 * time.Second):
		}
		stub.mu.Lock()
		nreq := len(stub.seen)
		stub.mu.Unlock()
		fmt.Printf("GIVEUP tool=nsq_to_http max_attempts=%d attempts=%d destination=500 requests=%d response=%s\n",
			cfg.MaxAttempts, attempts, nreq, strings.Fields(resp)[0])
		consumer.Stop()
		src.Down()
	}
}
