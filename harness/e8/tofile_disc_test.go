package main

// Correspondence + direct oracle for nsq_to_file's TopicDiscoverer (property C19, "one FileLogger per
// topic, termination of all loggers on TERM"): the real newTopicDiscoverer(...).run() against a scripted
// stub nsqlookupd. No sleeping for effects: the stub serves the scripted /topics answers one per request,
// and *holds* the request that follows the script — while the discoverer waits for that answer its
// topic map is stable and is read white-box; then TERM is sent and run() must return.

import (
	"encoding/json"
	"fmt"
	"net"
	"net/http"
	"os"
	"regexp"
	"sort"
	"strings"
	"sync"
	"syscall"
	"testing"
	"time"

	"github.com/nsqio/go-nsq"
	"github.com/nsqio/nsq/internal/lg"
)

type vfE8Poll struct {
	Err    bool
	Topics []string
}

type vfE8Lookupd struct {
	mu      sync.Mutex
	script  []vfE8Poll
	served  int
	reached chan struct{} // closed when the request after the script arrived
	release chan struct{} // closed to let held requests go (they get an error)
	ln      net.Listener
	once    sync.Once
}

func vfE8NewLookupd(script []vfE8Poll) *vfE8Lookupd {
	l := &vfE8Lookupd{script: script, reached: make(chan struct{}), release: make(chan struct{})}
	ln, err := vfListen()
	if err != nil {
		panic(err)
	}
	l.ln = ln
	mux := http.NewServeMux()
	mux.HandleFunc("/topics", func(w http.ResponseWriter, req *http.Request) {
		l.mu.Lock()
		k := l.served
		l.served++
		l.mu.Unlock()
		if k >= len(l.script) {
			l.once.Do(func() { close(l.reached) })
			<-l.release
			http.Error(w, "held", 500)
			return
		}
		p := l.script[k]
		if p.Err {
			http.Error(w, "scripted failure", 500)
			return
		}
		w.Header().Set("X-NSQ-Content-Type", "nsq; version=1.0")
		ts := p.Topics
		if ts == nil {
			ts = []string{}
		}
		json.NewEncoder(w).Encode(map[string]interface{}{"topics": ts})
	})
	mux.HandleFunc("/lookup", func(w http.ResponseWriter, req *http.Request) {
		w.Header().Set("X-NSQ-Content-Type", "nsq; version=1.0")
		w.Write([]byte(`{"channels":[],"producers":[]}`))
	})
	go http.Serve(ln, mux)
	return l
}

var vfE8DiscTopics = []string{"a1", "a2", "ab", "b1", "bx", "x", "t.log", "a1", "b1", "ab", "A1", "bad topic", "a#ephemeral", "b#ephemeral",
	strings.Repeat("a", 64), strings.Repeat("a", 65), ""}
var vfE8DiscPatterns = []string{"", "", "", "^a", "^[ab]", "x$|1$", "[", "^(a1|b1)$", ".", "^$", "a{2}", "(?i)A", "^.[0-9]$"}

func vfE8ChanClosed(c chan bool) bool {
	select {
	case _, ok := <-c:
		return !ok
	default:
		return false
	}
}

func vfE8IntClosed(c chan int) bool {
	select {
	case _, ok := <-c:
		return !ok
	default:
		return false
	}
}

func TestVerifToFileDiscover(t *testing.T) {
	if os.Getenv("VF_E8_CASE") != "" {
		t.Skip("parent only")
	}
	r := vfNewRand(0xE8D1)
	n := vfEnvInt("VERIF_N", 40)
	out := vfOpen("tfdisc")
	defer out.Close()
	hist := map[string]int{}
	fails := 0
	quiet := func(lvl lg.LogLevel, f string, args ...interface{}) {}
	for ci := 0; ci < n; ci++ {
		root := t.TempDir()
		pattern := vfE8DiscPatterns[r.Intn(len(vfE8DiscPatterns))]
		explicit := r.Intn(3) == 0
		opts := NewOptions()
		opts.OutputDir = root
		opts.WorkDir = root
		opts.Channel = "c"
		opts.TopicPattern = pattern
		opts.TopicRefreshInterval = time.Millisecond
		opts.HTTPClientConnectTimeout = 2 * time.Second
		opts.HTTPClientRequestTimeout = 20 * time.Second
		opts.SyncInterval = time.Hour
		noRev := r.Intn(12) == 0
		if noRev { // every NewFileLogger fails: gzip needs <REV>
			opts.GZIP = true
			opts.FilenameFormat = "<TOPIC>.log"
		}
		pick := func() []string {
			k := 1 + r.Intn(5)
			var l []string
			for i := 0; i < k; i++ {
				l = append(l, vfE8DiscTopics[r.Intn(len(vfE8DiscTopics))])
			}
			return l
		}
		var script []vfE8Poll
		if explicit {
			opts.Topics = pick()
			if len(opts.Topics) == 0 {
				opts.Topics = []string{"a1"}
			}
			if r.Intn(2) == 0 {
				opts.Topics = append(opts.Topics, opts.Topics[0]) // the same --topic twice
			}
		} else {
			for i, k := 0, 1+r.Intn(4); i < k; i++ {
				if r.Intn(5) == 0 {
					script = append(script, vfE8Poll{Err: true})
				} else {
					script = append(script, vfE8Poll{Topics: pick()})
				}
			}
		}
		lk := vfE8NewLookupd(script)
		if !explicit {
			opts.NSQLookupdHTTPAddrs = []string{lk.ln.Addr().String()}
		}
		cfg := nsq.NewConfig()
		cfg.MaxInFlight = opts.MaxInFlight
		// the externals of updateTopics, read off the real libraries / the real constructor
		matchOf := func(tp string) string {
			m, err := regexp.MatchString(pattern, tp)
			if err != nil {
				return "e"
			}
			if m {
				return "1"
			}
			return "0"
		}
		createOf := func(tp string) string {
			po := *opts
			po.NSQLookupdHTTPAddrs = nil
			po.NSQDTCPAddrs = nil
			fl, err := NewFileLogger(quiet, &po, tp, cfg)
			if err != nil {
				return "0"
			}
			fl.consumer.SetLoggerLevel(nsq.LogLevelMax)
			fl.consumer.Stop()
			return "1"
		}
		hupChan := make(chan os.Signal, 1)
		termChan := make(chan os.Signal, 1)
		d := newTopicDiscoverer(quiet, opts, cfg, hupChan, termChan)
		polling := "1"
		if explicit {
			polling = "0"
		}
		out.Case(fmt.Sprintf("td new %s %s", vfHex([]byte(pattern)), polling), "ok")
		returned := make(chan struct{})
		go func() {
			d.run()
			close(returned)
		}()
		line := func(list []string) string {
			var sb strings.Builder
			for _, tp := range list {
				fmt.Fprintf(&sb, " %s %s %s", vfHex([]byte(tp)), matchOf(tp), createOf(tp))
			}
			return sb.String()
		}
		// wait until the discoverer is provably idle with the whole script applied
		settled := true
		if explicit {
			// explicit topics: updateTopics(opts.Topics) runs before the loop; a HUP that is consumed proves the loop is reached
			hupChan <- syscall.SIGHUP
			for i := 0; i < 5000 && len(hupChan) > 0; i++ {
				time.Sleep(time.Millisecond)
			}
			settled = len(hupChan) == 0
			// … and a second one proves the first round of `hupChan <- true` sends completed
			hupChan <- syscall.SIGHUP
			for i := 0; i < 5000 && len(hupChan) > 0; i++ {
				time.Sleep(time.Millisecond)
			}
			settled = settled && len(hupChan) == 0
		} else {
			select {
			case <-lk.reached:
			case <-time.After(20 * time.Second):
				settled = false
			}
		}
		if !settled {
			fmt.Printf("ORACLE-FAIL disc case=%d the discoverer never became idle (pattern %q explicit=%v)\n", ci, pattern, explicit)
			fails++
			hist["hang:settle"]++
			if hist["hang:term"]+hist["hang:settle"] >= 2 {
				break
			}
			continue
		}
		// ops: one per updateTopics call
		seen := map[string]bool{}
		if explicit {
			out.Case("td upd"+line(opts.Topics), vfE8DiscLine(d))
			for _, tp := range opts.Topics {
				seen[tp] = true
			}
			hist["explicit"]++
		} else {
			// intermediate states are not observable without racing the map: record the end state after the last poll,
			// and give the model every poll in order (the answers of the earlier ones are its own business)
			for i, p := range script {
				ans := "*"
				if i == len(script)-1 {
					ans = vfE8DiscLine(d)
				}
				if p.Err {
					out.Case("td tick-err", ans)
					hist["poll:err"]++
				} else {
					l := append([]string{}, p.Topics...)
					sort.Strings(l)
					l = vfE8Uniq(l)
					out.Case("td upd"+line(l), ans)
					for _, tp := range l {
						seen[tp] = true
					}
					hist["poll:ok"]++
				}
			}
		}
		// direct oracle: exactly the allowed, creatable topics seen so far have a logger
		for tp := range seen {
			want := (pattern == "" || matchOf(tp) == "1") && createOf(tp) == "1"
			_, have := d.topics[tp]
			if want && !have {
				fmt.Printf("ORACLE-FAIL disc case=%d topic %q is allowed by pattern %q but has no logger\n", ci, tp, pattern)
				fails++
			}
			if !want && have {
				fmt.Printf("ORACLE-FAIL disc case=%d topic %q has a logger although pattern %q rejects it or it cannot be created\n", ci, tp, pattern)
				fails++
			}
		}
		for tp := range d.topics {
			if !seen[tp] {
				fmt.Printf("ORACLE-FAIL disc case=%d logger for a topic %q nobody announced\n", ci, tp)
				fails++
			}
		}
		hist[fmt.Sprintf("loggers:%d", len(d.topics))]++
		// TERM: every logger must be told, run() must return after all routers ended
		termChan <- syscall.SIGTERM
		close(lk.release)
		ok := "1"
		select {
		case <-returned:
		case <-time.After(8 * time.Second):
			ok = "0"
		}
		var termed []string
		stopped := 0
		if ok == "1" { // only then is the map safe to read
			for tp, fl := range d.topics {
				if vfE8ChanClosed(fl.termChan) {
					termed = append(termed, vfHex([]byte(tp)))
				}
				if vfE8IntClosed(fl.consumer.StopChan) {
					stopped++
				}
				if fl.out != nil {
					fmt.Printf("ORACLE-FAIL disc case=%d logger %q still has an open file after run() returned\n", ci, tp)
					fails++
				}
			}
		} else {
			fmt.Printf("ORACLE-FAIL disc case=%d run() did not return within 8 s after SIGTERM (a router was never told to terminate, or never ended)\n", ci)
			fails++
			hist["hang:term"]++
		}
		sort.Strings(termed)
		out.Case("td term", fmt.Sprintf("returned=%s termed=%s n=%d stopped=%d", ok, strings.Join(termed, ","), len(termed), stopped))
		lk.ln.Close()
		if hist["hang:term"]+hist["hang:settle"] >= 2 {
			break // decisive; every further case would wait for its timeout as well
		}
	}
	for k, v := range hist {
		fmt.Printf("HIST %s %d\n", k, v)
	}
	fmt.Printf("ORACLE-DONE disc cases=%d fails=%d\n", n, fails)
}

func vfE8Uniq(l []string) []string {
	var o []string
	for i, s := range l {
		if i == 0 || s != l[i-1] {
			o = append(o, s)
		}
	}
	return o
}

func vfE8DiscLine(d *TopicDiscoverer) string {
	var ks []string
	for tp := range d.topics {
		ks = append(ks, vfHex([]byte(tp)))
	}
	sort.Strings(ks)
	return fmt.Sprintf("topics=%s n=%d", strings.Join(ks, ","), len(ks))
}
