package main

// nsq_to_file with --work-dir on another file system than --output-dir (property C19): the move at the end of
// Close() is link(2)+unlink(2); across devices link fails with EXDEV, which is not "exists", so the tool takes
// os.Exit(1). Direct oracle on the real router in a child process (work dir on /dev/shm, output dir on disk):
// every FINished record is readable from the work file at FIN time and after the exit; nothing was moved or
// removed; the exit is the fail-stop one; a restart does not overwrite the stranded file.
// Also: every valid --gzip-level produces a decodable file holding the records.

import (
	"fmt"
	"os"
	"os/exec"
	"path/filepath"
	"strings"
	"syscall"
	"testing"
	"time"

	"github.com/nsqio/go-nsq"
	"github.com/nsqio/nsq/internal/lg"
)

func vfE8Dev(p string) uint64 {
	var st syscall.Stat_t
	if err := syscall.Stat(p, &st); err != nil {
		return 0
	}
	return uint64(st.Dev)
}

// child: one run of the real router; VF_E8_XDEV=<root> (root/w may be a symlink to another device),
// VF_E8_XDEV_MODE = "<gzip 0|1> <level> <first message number> <count> <end: hup|term>"
func TestVerifToFileXdevChild(t *testing.T) {
	root := os.Getenv("VF_E8_XDEV")
	if root == "" {
		t.Skip("child only")
	}
	var gz, level, first, count int
	var end string
	fmt.Sscanf(os.Getenv("VF_E8_XDEV_MODE"), "%d %d %d %d %s", &gz, &level, &first, &count, &end)
	res, err := os.OpenFile(filepath.Join(root, "res.txt"), os.O_WRONLY|os.O_CREATE|os.O_APPEND, 0o644)
	if err != nil {
		t.Fatal(err)
	}
	work, _ := filepath.EvalSymlinks(filepath.Join(root, "w"))
	opts := NewOptions()
	opts.OutputDir = filepath.Join(root, "o")
	opts.WorkDir = work
	opts.GZIP = gz == 1
	opts.GZIPLevel = level
	opts.MaxInFlight = count - 1 // the first record is synced alone (rotation), the others fill the batch: no timer involved
	opts.SyncInterval = time.Hour
	opts.HostIdentifier = "h"
	opts.Channel = "c"
	opts.DatetimeFormat = "d"
	cfg := nsq.NewConfig()
	cfg.MaxInFlight = opts.MaxInFlight
	f, err := NewFileLogger(func(lvl lg.LogLevel, f string, args ...interface{}) {}, opts, "t", cfg)
	if err != nil {
		fmt.Fprintf(res, "SETUP-ERROR %s\n", err)
		os.Exit(3)
	}
	f.consumer.SetLoggerLevel(nsq.LogLevelMax)
	rec := &vfE8XRec{res: res, dirs: []string{work, opts.OutputDir}, gz: opts.GZIP, got: make(chan struct{}, 1024)}
	done := make(chan struct{})
	go func() {
		f.router()
		close(done)
	}()
	for i := 0; i < count; i++ {
		var id nsq.MessageID
		copy(id[:], fmt.Sprintf("%d", first+i))
		m := nsq.NewMessage(id, []byte(fmt.Sprintf("m%d|payload-%d", first+i, first+i)))
		m.Delegate = rec
		f.HandleMessage(m)
	}
	// the batch is full (pos == cap(output)): Sync + FIN loop run without any timer
	for i := 0; i < count; i++ {
		select {
		case <-rec.got:
		case <-time.After(10 * time.Second):
			fmt.Fprintf(res, "TIMEOUT waiting for FIN %d\n", i)
			os.Exit(4)
		}
	}
	fmt.Fprintf(res, "BATCH-DONE\n")
	if end == "fsyncfault" {
		// the descriptor of f.out now names the write end of a pipe: write(2) succeeds, fsync(2) fails (EINVAL) — the
		// "write accepted, error reported at fsync time" shape (EIO / ENOSPC / EDQUOT at write-back), in both modes;
		// the router is idle in its select. A second full batch follows: Sync must fail, nothing may be finished.
		pr, pw, perr := os.Pipe()
		broken := false
		if perr == nil && f.out != nil {
			vfE8XKeep = append(vfE8XKeep, pr, pw)
			if syscall.Dup3(int(pw.Fd()), int(f.out.Fd()), 0) == nil {
				broken = f.out.Sync() != nil
			}
		}
		fmt.Fprintf(res, "FSYNC-BROKEN ok=%v\n", broken)
		if !broken {
			res.Close()
			os.Exit(0)
		}
		for i := 0; i < count-1; i++ {
			var id nsq.MessageID
			copy(id[:], fmt.Sprintf("%d", first+count+i))
			m := nsq.NewMessage(id, []byte(fmt.Sprintf("m%d|payload-%d", first+count+i, first+count+i)))
			m.Delegate = rec
			f.HandleMessage(m)
		}
		select { // a correct router has left through os.Exit(1) long before this
		case <-rec.got:
		case <-time.After(3 * time.Second):
		}
		fmt.Fprintf(res, "END\n")
		res.Close()
		os.Exit(0)
	}
	if end == "hup" {
		f.hupChan <- true // Sync, Close → move → (EXDEV: os.Exit(1))
		f.hupChan <- true // accepted only once the router is back in its select
	} else {
		close(f.termChan)
		<-done
	}
	fmt.Fprintf(res, "END\n")
	res.Close()
	os.Exit(0)
}

var vfE8XKeep []*os.File // pipe ends of the fsync-fault leg stay reachable (no finalizer closes them)

type vfE8XRec struct {
	res  *os.File
	dirs []string
	gz   bool
	got  chan struct{}
}

func (r *vfE8XRec) OnFinish(m *nsq.Message) {
	line := append(append([]byte{}, m.Body...), '\n')
	ok := "MISSING"
	for _, d := range r.dirs {
		if vfE8HasLine(vfE8Tree2Decoded(d, r.gz), line) {
			ok = "ok"
		}
	}
	fmt.Fprintf(r.res, "FIN %s %s\n", strings.TrimRight(string(m.ID[:]), "\x00"), ok)
	r.got <- struct{}{}
}
func (r *vfE8XRec) OnRequeue(m *nsq.Message, d time.Duration, b bool) {
	fmt.Fprintf(r.res, "REQ %s\n", strings.TrimRight(string(m.ID[:]), "\x00"))
}
func (r *vfE8XRec) OnTouch(m *nsq.Message) {}

func vfE8Tree2Decoded(root string, gz bool) map[string][]byte {
	res := map[string][]byte{}
	for p, raw := range vfE8Tree2(root) {
		res[p] = vfE8Decode(raw, gz)
	}
	return res
}

func vfE8XRun(t *testing.T, root, mode string) (int, string) {
	cmd := exec.Command(os.Args[0], "-test.run", "^TestVerifToFileXdevChild$", "-test.count=1")
	cmd.Env = append(os.Environ(), "VF_E8_XDEV="+root, "VF_E8_XDEV_MODE="+mode)
	done := make(chan error, 1)
	if err := cmd.Start(); err != nil {
		t.Fatal(err)
	}
	go func() { done <- cmd.Wait() }()
	code := -1
	select {
	case err := <-done:
		code = 0
		if ee, ok := err.(*exec.ExitError); ok {
			code = ee.ExitCode()
		}
	case <-time.After(60 * time.Second):
		cmd.Process.Kill()
		<-done
	}
	raw, _ := os.ReadFile(filepath.Join(root, "res.txt"))
	return code, string(raw)
}

func TestVerifToFileXdev(t *testing.T) {
	if os.Getenv("VF_E8_CASE") != "" || os.Getenv("VF_E8_XDEV") != "" {
		t.Skip("parent only")
	}
	base := os.Getenv("VERIF_OUT")
	if base == "" {
		base = t.TempDir()
	}
	fails := 0
	fail := func(f string, a ...interface{}) {
		fmt.Printf("ORACLE-FAIL xdev "+f+"\n", a...)
		fails++
	}
	shm, err := os.MkdirTemp("/dev/shm", "vfe8x")
	xdevOK := err == nil
	if xdevOK {
		defer os.RemoveAll(shm)
		xdevOK = vfE8Dev(shm) != 0 && vfE8Dev(shm) != vfE8Dev(base)
	}
	fmt.Printf("XDEV available=%v\n", xdevOK)
	ncase := 0
	for _, gz := range []int{0, 1} {
		if !xdevOK {
			break
		}
		root := filepath.Join(base, fmt.Sprintf("xdev%d", gz))
		os.MkdirAll(filepath.Join(root, "o"), 0o755)
		w := filepath.Join(shm, fmt.Sprintf("w%d", gz))
		os.MkdirAll(w, 0o755)
		os.Symlink(w, filepath.Join(root, "w"))
		// run 1: three records, then SIGHUP → Close → cross-device move
		code, res := vfE8XRun(t, root, fmt.Sprintf("%d 6 1 3 hup", gz))
		ncase++
		fins := strings.Count(res, "FIN ")
		if code != 1 || strings.Contains(res, "END") {
			fail("gzip=%d: expected the fail-stop exit (os.Exit(1)) at the cross-device move, got exit code %d, log %q", gz, code, res)
		}
		if fins != 3 || strings.Contains(res, "MISSING") || strings.Contains(res, "REQ") {
			fail("gzip=%d: FIN log of the first run: %q", gz, res)
		}
		wt := vfE8Tree2Decoded(w, gz == 1)
		ot := vfE8Tree2(filepath.Join(root, "o"))
		for i := 1; i <= 3; i++ {
			if !vfE8HasLine(wt, []byte(fmt.Sprintf("m%d|payload-%d\n", i, i))) {
				fail("gzip=%d: finished record m%d is not in the work dir after the exit", gz, i)
			}
		}
		if len(ot) != 0 {
			fail("gzip=%d: the failed move left %d file(s) in the output dir", gz, len(ot))
		}
		if len(wt) != 1 {
			fail("gzip=%d: %d work files after the failed move (expected the one stranded file)", gz, len(wt))
		}
		before := map[string][]byte{}
		for p, c := range vfE8Tree2(w) {
			before[p] = c
		}
		// run 2 (restart): two more records; the stranded file must survive as a prefix (plain: appended to; gzip: untouched)
		code2, res2 := vfE8XRun(t, root, fmt.Sprintf("%d 6 4 2 hup", gz))
		ncase++
		if code2 != 1 {
			fail("gzip=%d: restart: exit code %d, log %q", gz, code2, res2)
		}
		after := vfE8Tree2(w)
		for p, c := range before {
			c2, ok := after[p]
			if !ok || !strings.HasPrefix(string(c2), string(c)) {
				fail("gzip=%d: restart damaged the stranded work file %s", gz, p)
			}
			if gz == 1 && ok && len(c2) != len(c) {
				fail("gzip=%d: restart wrote into the finished gzip file %s (O_EXCL expected)", gz, p)
			}
		}
		at := vfE8Tree2Decoded(w, gz == 1)
		for i := 1; i <= 5; i++ {
			if !vfE8HasLine(at, []byte(fmt.Sprintf("m%d|payload-%d\n", i, i))) {
				fail("gzip=%d: after the restart record m%d is not in the work dir", gz, i)
			}
		}
		fmt.Printf("XDEV gzip=%d exit=%d,%d fins=%d workfiles=%d->%d\n", gz, code, code2, fins, len(before), len(after))
	}
	// --gzip-level: every accepted level (main() admits 1..9) yields decodable output with the records; same device: the move succeeds
	for level := 1; level <= 9; level++ {
		root := filepath.Join(base, fmt.Sprintf("gzl%d", level))
		os.MkdirAll(filepath.Join(root, "o"), 0o755)
		os.MkdirAll(filepath.Join(root, "w"), 0o755)
		code, res := vfE8XRun(t, root, fmt.Sprintf("1 %d 1 4 term", level))
		ncase++
		if code != 0 || !strings.Contains(res, "END") || strings.Count(res, "FIN ") != 4 || strings.Contains(res, "MISSING") {
			fail("gzip-level %d: exit %d log %q", level, code, res)
		}
		ot := vfE8Tree2Decoded(filepath.Join(root, "o"), true)
		for i := 1; i <= 4; i++ {
			if !vfE8HasLine(ot, []byte(fmt.Sprintf("m%d|payload-%d\n", i, i))) {
				fail("gzip-level %d: record m%d cannot be decoded from the output dir", level, i)
			}
		}
		if len(vfE8Tree2(filepath.Join(root, "w"))) != 0 {
			fail("gzip-level %d: work file not moved", level)
		}
	}
	// fsync fault after accepted writes (plain and gzip): the batch whose Sync fails is never finished, the tool stops
	for _, gz := range []int{0, 1} {
		root := filepath.Join(base, fmt.Sprintf("fsf%d", gz))
		os.MkdirAll(filepath.Join(root, "o"), 0o755)
		os.MkdirAll(filepath.Join(root, "w"), 0o755)
		code, res := vfE8XRun(t, root, fmt.Sprintf("%d 6 1 3 fsyncfault", gz))
		if !strings.Contains(res, "FSYNC-BROKEN ok=true") {
			fmt.Printf("XDEV fsyncfault gzip=%d not injectable here (%q)\n", gz, res)
			continue
		}
		ncase++
		after := res[strings.Index(res, "FSYNC-BROKEN"):]
		if strings.Contains(after, "FIN ") {
			fail("gzip=%d: fsync of the output file fails after the batch was written, yet the batch was finished: %q", gz, after)
		} else if code != 1 {
			fail("gzip=%d: fsync of the output file fails: expected the fail-stop exit (os.Exit(1)), got exit code %d, log %q", gz, code, res)
		}
		fmt.Printf("XDEV fsyncfault gzip=%d exit=%d fins-after-fault=%d\n", gz, code, strings.Count(after, "FIN "))
	}
	fmt.Printf("ORACLE-DONE xdev cases=%d fails=%d xdev=%v\n", ncase, fails, xdevOK)
}
