package main

// Audit round 7, item C14 (property C20, to_nsq): the REAL binary against stub nsqds one of which REFUSES records
// longer than a limit (as nsqd does above --max-msg-size: E_BAD_MESSAGE and the connection is closed; or
// E_PUB_FAILED). to_nsq is fail-stop: `log.Fatal` at the first refused Publish. Oracle (independent of the model):
// exit status != 0 iff a record is refused; the refusing stub holds exactly the records before the first refused
// one; every other stub holds those, plus possibly the refused record itself (Go map iteration order); nobody holds
// anything after it. Correspondence: op `a7 refuse …` through `Nsq.Model.ToNsqRefuse.run`.

import (
	"bytes"
	"fmt"
	"os"
	"sort"
	"strings"
	"testing"
)

func TestVerifToNsqRefuse(t *testing.T) {
	bin := os.Getenv("VF_E8_TONSQ_BIN")
	if bin == "" {
		t.Skip("VF_E8_TONSQ_BIN not set")
	}
	out := vfOpen("tonsq_refuse")
	defer out.Close()
	r := vfNewRand(0xC14)
	n := vfEnvInt("VERIF_N", 30)
	hist := map[string]int{}
	bad := 0
	fail := func(format string, a ...interface{}) {
		bad++
		fmt.Printf("ORACLE-FAIL "+format+"\n", a...)
	}
	type tc struct {
		delim byte
		in    []byte
		nd, j int
		limit int
		verb  string
	}
	big := bytes.Repeat([]byte{'x'}, 1048577) // one byte above nsqd's default --max-msg-size
	cases := []tc{
		{'\n', []byte("a\nbb\nc\n"), 1, 0, 1, ""},
		{'\n', []byte("a\nbb\nc\n"), 3, 1, 1, "err"},
		{'\n', []byte("a\nb\nc"), 2, 0, 1, ""},
		{'\n', append(append([]byte("first\n"), big...), []byte("\nafter-1\nafter-2\n")...), 2, 1, 1048576, ""},
		{',', []byte("toolong,a,b"), 2, 1, 3, ""},
	}
	for i := 0; i < n; i++ {
		d := []byte{'\n', ',', 0xff, 'a'}[r.Intn(4)]
		limit := 2 + r.Intn(30)
		var in []byte
		k := 1 + r.Intn(9)
		for x := 0; x < k; x++ {
			l := r.Intn(limit + 1)
			if r.Intn(5) == 0 {
				l = limit + 1 + r.Intn(6) // refused
			}
			b := r.Bytes(l)
			for y := range b {
				if b[y] == d {
					b[y] = d + 1
				}
			}
			in = append(in, b...)
			if x < k-1 || r.Intn(2) == 0 {
				in = append(in, d)
			}
		}
		nd := 1 + r.Intn(3)
		cases = append(cases, tc{d, in, nd, r.Intn(nd), limit, []string{"", "err"}[r.Intn(2)]})
	}
	for ci, c := range cases {
		var stubs []*vfStubNsqd
		for i := 0; i < c.nd; i++ {
			stubs = append(stubs, vfNewStubNsqd())
		}
		stubs[c.j].maxBody, stubs[c.j].maxVerb = c.limit, c.verb
		cmd := vfE2EStart(bin, c.delim, "", stubs)
		cmd.Stdin = bytes.NewReader(c.in)
		var stderr bytes.Buffer
		cmd.Stderr = &stderr
		code := vfE2EExit(cmd.Run())
		var got [][][]byte
		for _, s := range stubs {
			got = append(got, vfE2EOkBodies(s.Since(0)))
		}
		for _, s := range stubs {
			s.Down()
		}
		recs := vfE2ESpec(c.delim, c.in)
		k := -1
		for i, rec := range recs {
			if len(rec) > c.limit {
				k = i
				break
			}
		}
		desc := fmt.Sprintf("delim=%02x stubs=%d refusing=%d limit=%d verb=%q records=%d first-refused=%d", c.delim, c.nd, c.j, c.limit, c.verb, len(recs), k)
		var first []string
		if k < 0 {
			hist["all-accepted"]++
			if code != 0 {
				fail("case %d: exit status %d although every record is accepted (%s) stderr=%.200q", ci, code, desc, stderr.String())
			}
			for i, g := range got {
				if vfE2EFmt(g) != vfE2EFmt(recs) {
					fail("case %d: stub %d holds %.200s, the records are %.200s (%s)", ci, i, vfE2EFmt(g), vfE2EFmt(recs), desc)
				}
			}
		} else {
			hist["refused"]++
			if k == len(recs)-1 {
				hist["refused-last-record"]++
			}
			if c.verb == "err" {
				hist["refused-E_PUB_FAILED"]++
			} else {
				hist["refused-E_BAD_MESSAGE"]++
			}
			if code == 0 {
				fail("case %d: exit status 0 although record %d was refused by destination %d: %d later record(s) silently not published (%s)",
					ci, k, c.j, len(recs)-1-k, desc)
			}
			for i, g := range got {
				pre, pre1 := vfE2EFmt(recs[:k]), vfE2EFmt(recs[:k+1])
				switch {
				case vfE2EFmt(g) == pre:
				case vfE2EFmt(g) == pre1 && i != c.j:
					first = append(first, fmt.Sprintf("%d", i))
					hist["refused-record-reached-another-destination"]++
				default:
					fail("case %d: stub %d holds %.200s after a refusal of record %d; allowed: %.200s (or with the refused record, for a destination asked before the refusing one) (%s)",
						ci, i, vfE2EFmt(g), k, pre, desc)
				}
			}
		}
		if code > 1 {
			code = 1
		}
		var per []string
		for _, g := range got {
			per = append(per, vfE2EFmt(g))
		}
		fs := "-"
		if len(first) > 0 {
			fs = strings.Join(first, ",")
		}
		if len(c.in) < 100000 { // the 1 MiB case is an oracle case only (hex line too long to be useful)
			out.Case(fmt.Sprintf("a7 refuse %d %d %d %02x %s %s", c.nd, c.j, c.limit, c.delim, vfHex(c.in), fs),
				fmt.Sprintf("exit=%d %s", code, strings.Join(per, " ")))
		} else {
			fmt.Printf("REFUSE-BIG exit=%d first-refused=%d held=%d,%d of %d records\n", code, k, len(got[0]), len(got[len(got)-1]), len(recs))
		}
	}
	keys := []string{}
	for k := range hist {
		keys = append(keys, k)
	}
	sort.Strings(keys)
	for _, k := range keys {
		fmt.Printf("HIST %s %d\n", k, hist[k])
	}
	fmt.Printf("ORACLE-DONE cases=%d failing=%d\n", len(cases), bad)
}
