package nsqd

// C06 harness (engine E5/meta): a real nsqd daemon runs as a SUBPROCESS (this test binary re-executed
// with VERIF_META_DAEMON=1, doing what apps/nsqd does: New, LoadMetadata, PersistMetadata, Main) and is
// driven over its HTTP API, killed with SIGKILL (from outside at arbitrary instants, or by itself at the
// k-th visit of a named `verif` point), restarted on the same data path, and compared with the Lean
// model (lean/DriverMeta.lean). Nothing here is committed to the repository.

import (
	"bytes"
	"encoding/json"
	"fmt"
	"io"
	"log"
	"net"
	"net/http"
	"net/url"
	"os"
	"os/exec"
	"path/filepath"
	"runtime"
	"sort"
	"strconv"
	"strings"
	"sync"
	"sync/atomic"
	"syscall"
	"testing"
	"time"
)

// ---------------------------------------------------------------------------------------------
// daemon side (child process)

var vfMetaRenames int64 // completed renames (meta.persist.afterRename visits)

func vfMetaCanon(m *Metadata) string {
	var ts []string
	for _, t := range m.Topics {
		var cs []string
		for _, c := range t.Channels {
			cs = append(cs, fmt.Sprintf("%s:%d", c.Name, vfMetaB(c.Paused)))
		}
		sort.Strings(cs)
		ts = append(ts, fmt.Sprintf("%s:%d[%s]", t.Name, vfMetaB(t.Paused), strings.Join(cs, ",")))
	}
	sort.Strings(ts)
	if len(ts) == 0 {
		return "-"
	}
	return strings.Join(ts, ";")
}

func vfMetaB(b bool) int {
	if b {
		return 1
	}
	return 0
}

// vfMetaLoop: the address every listener of this harness binds — a loopback address PRIVATE to this process
// (127.a.b.c derived from the pid, port chosen by the kernel) instead of 127.0.0.1.  Reason (round 11, false alarm
// `correspondence generated: idle` in a thorough run): the kernel recycles ephemeral ports, and a client of ANOTHER check
// running on the same host at the same time that still reconnects to 127.0.0.1:<port of a daemon that is gone> (observed:
// the nsq_to_nsq harness's producer, destination topic `dst`) reaches OUR daemon once it got that port — its publish created
// a topic the script never asked for (file and memory agreed, the model disagreed).  A listener bound to 127.a.b.c is not
// reachable through 127.0.0.1; the whole 127/8 is local on Linux.
// Since the cross-talk round every harness does this through the shared helpers (harness/common: vfLoopback, vfLoopAddr).
func vfMetaLoop() string { return vfLoopAddr() }

func vfMetaArm(point string, k int64) {
	var cnt int64
	VerifSetHook(point, func(string) {
		if atomic.AddInt64(&cnt, 1) == k {
			syscall.Kill(os.Getpid(), syscall.SIGKILL)
			time.Sleep(10 * time.Second) // never continue past the kill point
		}
	})
}

// vfMetaForce makes the deleting goroutine wait at `point` (just after the Notify at the start of
// exit(true)) until the persist triggered by that Notify has been renamed: the order that leaves the
// deleted object in nsqd.dat. The scheduler may produce this order by itself; the hook only forces it.
func vfMetaForce(point string) {
	VerifSetHook(point, func(string) {
		start := atomic.LoadInt64(&vfMetaRenames)
		for i := 0; i < 400 && atomic.LoadInt64(&vfMetaRenames) == start; i++ {
			time.Sleep(5 * time.Millisecond)
		}
		time.Sleep(5 * time.Millisecond)
	})
}

func vfMetaIdle() bool {
	buf := make([]byte, 1<<20)
	n := runtime.Stack(buf, true)
	s := string(buf[:n])
	return !strings.Contains(s, "(*NSQD).Notify.func1") && !strings.Contains(s, "(*NSQD).PersistMetadata")
}

func TestVerifMetaDaemon(t *testing.T) {
	if os.Getenv("VERIF_META_DAEMON") != "1" {
		t.Skip("daemon mode only")
	}
	dir := os.Getenv("VERIF_META_DIR")
	ctl := os.Getenv("VERIF_META_CTL")
	fail := func(code int, msg string) {
		os.WriteFile(filepath.Join(ctl, "startfail"), []byte(msg), 0600)
		os.Exit(code)
	}
	VerifSetHook("meta.persist.afterRename", func(string) { atomic.AddInt64(&vfMetaRenames, 1) })
	if ka := os.Getenv("VERIF_META_KILLAT"); ka != "" {
		p := strings.Split(ka, ":")
		k, _ := strconv.Atoi(p[1])
		vfMetaArm(p[0], int64(k))
	}
	lf, _ := os.OpenFile(filepath.Join(ctl, "daemon.log"), os.O_WRONLY|os.O_CREATE|os.O_APPEND, 0600)
	opts := NewOptions()
	opts.Logger = log.New(lf, "", log.Lmicroseconds)
	opts.LogLevel = LOG_WARN
	opts.DataPath = dir
	opts.TCPAddress = vfMetaLoop()
	opts.HTTPAddress = vfMetaLoop()
	n, err := New(opts)
	if err != nil {
		fail(3, "new: "+err.Error())
	}
	if err = n.LoadMetadata(); err != nil {
		fail(4, "load: "+err.Error())
	}
	if err = n.PersistMetadata(); err != nil {
		fail(5, "persist: "+err.Error())
	}
	go func() {
		if err := n.Main(); err != nil {
			fail(6, "main: "+err.Error())
		}
	}()
	mux := http.NewServeMux()
	mux.HandleFunc("/idle", func(w http.ResponseWriter, r *http.Request) {
		if vfMetaIdle() {
			io.WriteString(w, "1")
		} else {
			io.WriteString(w, "0")
		}
	})
	mux.HandleFunc("/state", func(w http.ResponseWriter, r *http.Request) {
		n.RLock()
		m := n.GetMetadata(false)
		n.RUnlock()
		io.WriteString(w, vfMetaCanon(m))
	})
	mux.HandleFunc("/arm", func(w http.ResponseWriter, r *http.Request) {
		k, _ := strconv.Atoi(r.URL.Query().Get("k"))
		vfMetaArm(r.URL.Query().Get("point"), int64(k))
		io.WriteString(w, "ok")
	})
	// hold: the FIRST goroutine that reaches `point` parks there until /release (later visitors pass)
	var holdCh chan struct{}
	var parked int32
	mux.HandleFunc("/hold", func(w http.ResponseWriter, r *http.Request) {
		ch := make(chan struct{})
		holdCh = ch
		atomic.StoreInt32(&parked, 0)
		var first int32
		VerifSetHook(r.URL.Query().Get("point"), func(string) {
			if atomic.AddInt32(&first, 1) == 1 {
				atomic.StoreInt32(&parked, 1)
				<-ch
			}
		})
		io.WriteString(w, "ok")
	})
	mux.HandleFunc("/parked", func(w http.ResponseWriter, r *http.Request) {
		fmt.Fprintf(w, "%d", atomic.LoadInt32(&parked))
	})
	mux.HandleFunc("/release", func(w http.ResponseWriter, r *http.Request) {
		if holdCh != nil {
			close(holdCh)
			holdCh = nil
		}
		VerifSetHook(r.URL.Query().Get("point"), nil)
		io.WriteString(w, "ok")
	})
	// grab / directchan: a request handler that looked its topic up just before a persist took the nsqd lock and
	// creates a channel in it while that persist is running (Topic.GetChannel needs the topic lock only)
	var grabbed *Topic
	mux.HandleFunc("/grab", func(w http.ResponseWriter, r *http.Request) {
		tp, err := n.GetExistingTopic(r.URL.Query().Get("topic"))
		if err != nil {
			http.Error(w, "no such topic", 404)
			return
		}
		grabbed = tp
		io.WriteString(w, "ok")
	})
	mux.HandleFunc("/directchan", func(w http.ResponseWriter, r *http.Request) {
		if grabbed == nil {
			http.Error(w, "no topic grabbed", 404)
			return
		}
		grabbed.GetChannel(r.URL.Query().Get("channel"))
		io.WriteString(w, "ok")
	})
	// lockhold / lockrelease: hold the nsqd write lock for a moment. A creation notified meanwhile has both its Notify
	// goroutine (n.Lock) and lookupLoop (n.RLock, looking the notified name up) queued behind it; on release the reader
	// goes first (sync.RWMutex), so lookupLoop is done with that notification before the notifier's persist starts
	var lockCh chan struct{}
	var lockHeld int32
	mux.HandleFunc("/lockhold", func(w http.ResponseWriter, r *http.Request) {
		ch := make(chan struct{})
		lockCh = ch
		go func() {
			n.Lock()
			atomic.StoreInt32(&lockHeld, 1)
			<-ch
			atomic.StoreInt32(&lockHeld, 0)
			n.Unlock()
		}()
		for i := 0; i < 1000 && atomic.LoadInt32(&lockHeld) == 0; i++ {
			time.Sleep(2 * time.Millisecond)
		}
		io.WriteString(w, "ok")
	})
	mux.HandleFunc("/lockrelease", func(w http.ResponseWriter, r *http.Request) {
		// first wait until the notifier and lookupLoop are both queued on the lock
		for i := 0; i < 1000; i++ {
			buf := make([]byte, 1<<20)
			k := runtime.Stack(buf, true)
			st := string(buf[:k])
			notifier, loop := false, false
			for _, g := range strings.Split(st, "\n\n") {
				if strings.Contains(g, "(*NSQD).Notify.func1") && strings.Contains(g, "RWMutex).Lock") {
					notifier = true
				}
				if strings.Contains(g, "(*NSQD).lookupLoop") && strings.Contains(g, "RWMutex).RLock") {
					loop = true
				}
			}
			if notifier && loop {
				break
			}
			time.Sleep(2 * time.Millisecond)
		}
		if lockCh != nil {
			close(lockCh)
			lockCh = nil
		}
		io.WriteString(w, "ok")
	})
	// notifysettled: every Notify goroutine other than the parked one has either finished or is waiting for the
	// nsqd lock (i.e. the creation made inside the window has been handed to lookupLoop and decided about persisting)
	mux.HandleFunc("/notifysettled", func(w http.ResponseWriter, r *http.Request) {
		for i := 0; i < 600; i++ {
			buf := make([]byte, 1<<20)
			k := runtime.Stack(buf, true)
			undecided := 0
			loopBlocked := false
			for _, g := range strings.Split(string(buf[:k]), "\n\n") {
				if strings.Contains(g, "(*NSQD).lookupLoop") && strings.Contains(g, "RWMutex).RLock") {
					loopBlocked = true
				}
				if strings.Contains(g, "(*NSQD).Notify.func1") && !strings.Contains(g, "verifPoint") &&
					!strings.Contains(g, "RWMutex).Lock") {
					undecided++
				}
			}
			if undecided == 0 {
				io.WriteString(w, "1")
				return
			}
			if loopBlocked { // a notifier cannot hand its object over before the release
				io.WriteString(w, "lookuploop-blocked")
				return
			}
			time.Sleep(5 * time.Millisecond)
		}
		io.WriteString(w, "0")
	})
	mux.HandleFunc("/exit", func(w http.ResponseWriter, r *http.Request) {
		go func() {
			n.Exit() // graceful shutdown (what SIGTERM does in apps/nsqd); may be parked at a verif point
			os.Exit(0)
		}()
		io.WriteString(w, "ok")
	})
	mux.HandleFunc("/force", func(w http.ResponseWriter, r *http.Request) {
		vfMetaForce(r.URL.Query().Get("point"))
		io.WriteString(w, "ok")
	})
	l, err := net.Listen("tcp", vfMetaLoop())
	if err != nil {
		fail(7, err.Error())
	}
	go http.Serve(l, mux)
	ready := fmt.Sprintf("%s %s", n.RealHTTPAddr().String(), l.Addr().String())
	os.WriteFile(filepath.Join(ctl, "ready.tmp"), []byte(ready), 0600)
	os.Rename(filepath.Join(ctl, "ready.tmp"), filepath.Join(ctl, "ready"))
	select {}
}

// ---------------------------------------------------------------------------------------------
// driver side (parent)

type vfMetaProc struct {
	cmd  *exec.Cmd
	http string
	ctl  string
	done chan struct{}
}

type vfMetaLines struct{ ops, impl []string }

func (l *vfMetaLines) Case(op, impl string) {
	l.ops = append(l.ops, op)
	l.impl = append(l.impl, impl)
}

type vfMetaRun struct {
	t       *testing.T
	dir     string // data path
	ctl     string // control dir
	p       *vfMetaProc
	lastStarted *vfMetaProc
	exitPoint   string
	lastWindow  string
	dead    bool
	out     *vfMetaLines
	cli     *http.Client
	stats   map[string]int
	oracle  []string // ORACLE-FAIL lines
	obsStop chan struct{}
	obsWG   sync.WaitGroup
	obsN    int64
	obsBad  atomic.Value
	obsSeen sync.Map
}

func (r *vfMetaRun) alive() bool {
	if r.p == nil {
		return false
	}
	select {
	case <-r.p.done:
		return false
	default:
		return true
	}
}

func (r *vfMetaRun) start(killat string) (string, bool) {
	os.Remove(filepath.Join(r.ctl, "ready"))
	os.Remove(filepath.Join(r.ctl, "startfail"))
	cmd := exec.Command(os.Args[0], "-test.run", "^TestVerifMetaDaemon$", "-test.count=1", "-test.timeout=0")
	cmd.Env = append(os.Environ(), "VERIF_META_DAEMON=1", "VERIF_META_DIR="+r.dir, "VERIF_META_CTL="+r.ctl,
		"VERIF_META_KILLAT="+killat)
	cmd.Stdout, cmd.Stderr = nil, nil
	if err := cmd.Start(); err != nil {
		return "spawn: " + err.Error(), false
	}
	p := &vfMetaProc{cmd: cmd, done: make(chan struct{})}
	r.lastStarted = p
	go func() { cmd.Wait(); close(p.done) }()
	deadline := time.Now().Add(20 * time.Second)
	for time.Now().Before(deadline) {
		if b, err := os.ReadFile(filepath.Join(r.ctl, "ready")); err == nil {
			f := strings.Fields(string(b))
			p.http, p.ctl = f[0], f[1]
			return "ok", true
		}
		select {
		case <-p.done:
			b, _ := os.ReadFile(filepath.Join(r.ctl, "startfail"))
			if len(b) == 0 {
				return "died", false // e.g. an armed kill point hit during startup
			}
			return "startfail: " + string(b), false
		case <-time.After(2 * time.Millisecond):
		}
	}
	cmd.Process.Kill()
	return "start-timeout", false
}

func (r *vfMetaRun) diedSoon() bool {
	select {
	case <-r.p.done:
		return true
	case <-time.After(2 * time.Second):
		return false
	}
}

func (r *vfMetaRun) kill() {
	if r.p != nil {
		r.p.cmd.Process.Signal(syscall.SIGKILL)
		<-r.p.done
	}
}

func (r *vfMetaRun) get(addr, path string) (string, error) {
	resp, err := r.cli.Get("http://" + addr + path)
	if err != nil {
		return "", err
	}
	defer resp.Body.Close()
	b, err := io.ReadAll(resp.Body)
	return string(b), err
}

func (r *vfMetaRun) post(path string) (int, error) {
	resp, err := r.cli.Post("http://"+r.p.http+path, "text/plain", nil)
	if err != nil {
		return 0, err
	}
	io.Copy(io.Discard, resp.Body)
	resp.Body.Close()
	return resp.StatusCode, nil
}

// readDat: "absent", the canonical document, or "CORRUPT:<hex>".
func vfMetaReadDat(dir string) string {
	b, err := os.ReadFile(filepath.Join(dir, "nsqd.dat"))
	if err != nil {
		if os.IsNotExist(err) {
			return "absent"
		}
		return "ERR:" + err.Error()
	}
	var m Metadata
	dec := json.NewDecoder(bytes.NewReader(b))
	if err := dec.Decode(&m); err != nil || m.Version == "" {
		return "CORRUPT:" + vfHex(b)
	}
	return vfMetaCanon(&m)
}

func (r *vfMetaRun) waitIdle() bool {
	deadline := time.Now().Add(10 * time.Second)
	okc := 0
	for time.Now().Before(deadline) {
		s, err := r.get(r.p.ctl, "/idle")
		if err != nil {
			return false
		}
		if s == "1" {
			okc++
			if okc >= 2 {
				return true
			}
		} else {
			okc = 0
		}
		time.Sleep(time.Millisecond)
	}
	return false
}

func vfMetaOpPath(w []string) string {
	q := func(kv ...string) string {
		v := url.Values{}
		for i := 0; i+1 < len(kv); i += 2 {
			v.Set(kv[i], kv[i+1])
		}
		return v.Encode()
	}
	switch w[0] {
	case "createtopic":
		return "/topic/create?" + q("topic", w[1])
	case "createchan":
		return "/channel/create?" + q("topic", w[1], "channel", w[2])
	case "deletetopic":
		return "/topic/delete?" + q("topic", w[1])
	case "deletechan":
		return "/channel/delete?" + q("topic", w[1], "channel", w[2])
	case "pausetopic":
		if w[2] == "1" {
			return "/topic/pause?" + q("topic", w[1])
		}
		return "/topic/unpause?" + q("topic", w[1])
	case "pausechan":
		if w[3] == "1" {
			return "/channel/pause?" + q("topic", w[1], "channel", w[2])
		}
		return "/channel/unpause?" + q("topic", w[1], "channel", w[2])
	}
	return ""
}

// fileFlag looks an object up in the canonical document: "1"/"0" = its paused flag, "-" = not listed.
func vfMetaFileFlag(doc, topic, ch string) string {
	if doc == "-" || doc == "absent" {
		return "-"
	}
	for _, t := range strings.Split(doc, ";") {
		i := strings.Index(t, "[")
		hd := strings.Split(t[:i], ":")
		if hd[0] != topic {
			continue
		}
		if ch == "" {
			return hd[1]
		}
		body := strings.TrimSuffix(t[i+1:], "]")
		if body == "" {
			return "-"
		}
		for _, c := range strings.Split(body, ",") {
			kv := strings.Split(c, ":")
			if kv[0] == ch {
				return kv[1]
			}
		}
		return "-"
	}
	return "-"
}

func (r *vfMetaRun) fail(key, what string) {
	r.oracle = append(r.oracle, fmt.Sprintf("ORACLE-FAIL key=%s %s", key, what))
}

// exec runs one script line; returns false when the script must stop (daemon unexpectedly gone).
func (r *vfMetaRun) exec(line string) {
	w := strings.Fields(line)
	if len(w) == 0 || strings.HasPrefix(w[0], "#") {
		return
	}
	r.stats[w[0]]++
	switch w[0] {
	case "start":
		res, ok := r.start("")
		if ok {
			r.p = r.lastStarted
			r.dead = false
		}
		r.out.Case("start", res)
		if !ok {
			r.fail("start-failed", "daemon did not start on an empty data path: "+res)
		}
	case "restart":
		res, ok := r.start("")
		if !ok {
			r.out.Case("restart -", res)
			r.fail("restart-failed", "daemon did not start after SIGKILL: "+res+" dat="+vfMetaReadDat(r.dir))
			return
		}
		r.p = r.lastStarted
		r.dead = false
		r.exitPoint = ""
		st, _ := r.get(r.p.ctl, "/state")
		r.out.Case("restart "+st, "ok")
	case "second":
		if r.dead {
			return
		}
		keep := r.p
		res, ok := r.start("")
		if ok {
			r.lastStarted.cmd.Process.Signal(syscall.SIGKILL)
			<-r.lastStarted.done
			r.out.Case("second", "started")
			what := "a second nsqd started on a data path that is in use"
			if r.exitPoint != "" {
				what += " (the first nsqd is inside Exit(), parked at " + r.exitPoint + ": it has not finished writing nsqd.dat / flushing its queues)"
			}
			r.fail("second-instance", what)
		} else if strings.Contains(res, "lock") {
			// and in this process: New() on the same data path must fail on the flock as well
			o := NewOptions()
			o.Logger = log.New(io.Discard, "", 0)
			o.DataPath = r.dir
			o.TCPAddress = vfMetaLoop()
			o.HTTPAddress = vfMetaLoop()
			if n2, err := New(o); err == nil {
				n2.tcpListener.Close()
				n2.httpListener.Close()
				n2.dl.Unlock()
				r.out.Case("second", "started")
				r.fail("second-instance", "New() succeeded on a data path that is in use (during: "+r.exitPoint+")")
			} else {
				r.out.Case("second", "refused")
			}
		} else {
			r.out.Case("second", res)
		}
		r.p = keep
		// the control file of the first daemon was removed by start(); restore it for later restarts
	case "idle":
		if r.dead {
			return
		}
		if !r.waitIdle() {
			if !r.alive() || r.diedSoon() {
				r.dead = true
				r.out.Case("kill", "ok") // an armed kill point was reached by an asynchronous persist
				return
			}
			r.out.Case("idle", "idle-timeout")
			return
		}
		dat := vfMetaReadDat(r.dir)
		mem, _ := r.get(r.p.ctl, "/state")
		r.out.Case("idle", "dat="+dat+" mem="+mem)
		if dat != mem {
			// classify: a listed object that is not live (deletion not persisted) or the converse
			key := "idle-file-differs"
			if vfMetaHasExtra(mem, dat) && !vfMetaHasExtra(dat, mem) {
				key = "created-object-not-persisted"
			}
			if vfMetaHasExtra(dat, mem) {
				key = "deleted-object-still-listed"
			}
			what := fmt.Sprintf("daemon idle but nsqd.dat=%s while live state=%s", dat, mem)
			if r.lastWindow != "" {
				what += " (after: `" + r.lastWindow + "` - the second creation was made while the persist of the first was parked at meta.persist.afterSnapshot)"
			}
			r.fail(key, what)
		}
	case "arm":
		if r.dead {
			return
		}
		r.get(r.p.ctl, "/arm?point="+w[1]+"&k="+w[2])
		r.out.Case(line, "ok")
	case "force":
		if r.dead {
			return
		}
		r.get(r.p.ctl, "/force?point="+w[1])
		r.out.Case(line, "ok")
	case "kill":
		r.kill()
		if !r.dead {
			r.out.Case("kill", "ok")
		}
		r.dead = true
	case "window": // window <create A> // <create B>: B happens while the persist triggered by A is parked after its snapshot
		if r.dead {
			return
		}
		r.window(strings.Join(w[1:], " "))
	case "exitpark": // graceful Exit of the daemon, parked at a verif point inside Exit
		if r.dead {
			return
		}
		r.get(r.p.ctl, "/hold?point="+w[1])
		r.get(r.p.ctl, "/exit")
		res := "not-parked"
		for i := 0; i < 600; i++ {
			if p, err := r.get(r.p.ctl, "/parked"); err == nil && p == "1" {
				res = "parked"
				break
			}
			time.Sleep(5 * time.Millisecond)
		}
		r.exitPoint = w[1]
		r.out.Case(line, res)
	case "exitrelease":
		if r.dead {
			return
		}
		r.get(r.p.ctl, "/release?point="+r.exitPoint)
		res := "exited"
		select {
		case <-r.p.done:
		case <-time.After(15 * time.Second):
			res = "exit-timeout"
			r.kill()
		}
		r.dead = true
		r.out.Case(line, res)
	case "race": // race <op A...> // <op B...> : A is parked right after its snapshot, B runs, A is released
		if r.dead {
			return
		}
		r.race(strings.Join(w[1:], " "))
	case "killduring":
		if r.dead {
			return
		}
		r.dead = true
		us, _ := strconv.Atoi(w[1])
		op := w[2:]
		done := make(chan struct{})
		go func() { r.post(vfMetaOpPath(op)); close(done) }()
		time.Sleep(time.Duration(us) * time.Microsecond)
		r.kill()
		<-done
		r.out.Case(line, "killed")
	default:
		path := vfMetaOpPath(w)
		if path == "" {
			r.out.Case(line, "bad-op")
			return
		}
		if r.dead {
			return
		}
		code, err := r.post(path)
		if err != nil {
			// the daemon died during (or just before) the request: an armed kill point was reached
			if !r.diedSoon() {
				r.out.Case(line, "http-error: "+err.Error())
				return
			}
			r.dead = true
			r.out.Case("dead "+line, "dead")
			return
		}
		ans := strconv.Itoa(code)
		if code == 200 {
			dat := vfMetaReadDat(r.dir)
			switch w[0] {
			case "pausetopic":
				f := vfMetaFileFlag(dat, w[1], "")
				ans += " file=" + f
				if f != "-" && f != w[2] {
					r.fail("pause-ack-not-persisted", fmt.Sprintf("%s answered 200 but nsqd.dat=%s", line, dat))
				}
			case "pausechan":
				f := vfMetaFileFlag(dat, w[1], w[2])
				ans += " file=" + f
				if f != "-" && f != w[3] {
					r.fail("pause-ack-not-persisted", fmt.Sprintf("%s answered 200 but nsqd.dat=%s", line, dat))
				}
			case "deletetopic":
				g := "0"
				if vfMetaFileFlag(dat, w[1], "") == "-" {
					g = "1"
				}
				ans += " gone=" + g
			case "deletechan":
				g := "0"
				if vfMetaFileFlag(dat, w[1], w[2]) == "-" {
					g = "1"
				}
				ans += " gone=" + g
			}
		}
		r.out.Case(line, ans)
	}
}

// race: two synchronous-persist requests A and B on different objects. A is held at `meta.persist.afterSnapshot`
// (its document is taken, not yet written); B is issued. If persists exclude each other (they run under the nsqd
// write lock) B cannot finish while A is parked: it is released and B's persist, which started later, lands last.
// If B does finish while A is parked, A's older document is renamed over B's: B was answered 200 and its flag is
// not on disk. Afterwards nsqd.dat must hold both flags.
func (r *vfMetaRun) race(spec string) {
	parts := strings.Split(spec, " // ")
	a, b := strings.Fields(parts[0]), strings.Fields(parts[1])
	const pt = "meta.persist.afterSnapshot"
	r.get(r.p.ctl, "/hold?point="+pt)
	type res struct {
		code int
		err  error
	}
	ca, cb := make(chan res, 1), make(chan res, 1)
	go func() { c, e := r.post(vfMetaOpPath(a)); ca <- res{c, e} }()
	isParked := false
	for i := 0; i < 400 && !isParked; i++ {
		if p, _ := r.get(r.p.ctl, "/parked"); p == "1" {
			isParked = true
		} else {
			time.Sleep(5 * time.Millisecond)
		}
	}
	go func() { c, e := r.post(vfMetaOpPath(b)); cb <- res{c, e} }()
	var rb res
	bWhileParked := false
	select {
	case rb = <-cb:
		bWhileParked = isParked
	case <-time.After(300 * time.Millisecond):
	}
	r.get(r.p.ctl, "/release?point="+pt)
	ra := <-ca
	if !bWhileParked {
		rb = <-cb
	}
	r.stats["race:b-finished-while-a-parked="+strconv.FormatBool(bWhileParked)]++
	dat := vfMetaReadDat(r.dir)
	flagOf := func(w []string) string {
		if w[0] == "pausetopic" {
			return vfMetaFileFlag(dat, w[1], "")
		}
		return vfMetaFileFlag(dat, w[1], w[2])
	}
	for _, x := range []struct {
		w  []string
		rs res
	}{{a, ra}, {b, rb}} {
		line := strings.Join(x.w, " ")
		if x.rs.err != nil {
			r.out.Case(line, "http-error: "+x.rs.err.Error())
			continue
		}
		ans := strconv.Itoa(x.rs.code)
		if x.rs.code == 200 {
			f := flagOf(x.w)
			ans += " file=" + f
			if f != "-" && f != x.w[len(x.w)-1] {
				r.fail("pause-ack-not-persisted", fmt.Sprintf(
					"`%s` was answered 200 but nsqd.dat=%s does not have that flag. Schedule: `%s` parked at %s (document taken, not yet written), `%s` issued and answered while it was parked: %v, then the first one released: its older document was renamed last",
					line, dat, strings.Join(a, " "), pt, strings.Join(b, " "), bWhileParked))
			}
		}
		r.out.Case(line, ans)
	}
}

// window: creation A's Notify persist is parked at `meta.persist.afterSnapshot` (document taken without B), creation B
// is made, then the persist is released. B's own Notify persist must still run (it queues behind the nsqd lock), so
// that once the daemon is idle nsqd.dat lists B (checked by the `idle` line that follows).
func (r *vfMetaRun) window(spec string) {
	parts := strings.Split(spec, " // ")
	a, b := strings.Fields(parts[0]), strings.Fields(parts[1]) // both: createchan T C, made through the grabbed topic T
	const pt = "meta.persist.afterSnapshot"
	r.lastWindow = spec
	if g, err := r.get(r.p.ctl, "/grab?topic="+b[1]); err != nil || g != "ok" || a[1] != b[1] {
		r.out.Case(strings.Join(a, " "), "window-setup-failed")
		return
	}
	r.get(r.p.ctl, "/hold?point="+pt)
	r.get(r.p.ctl, "/lockhold")
	resA, ea := r.get(r.p.ctl, "/directchan?channel="+url.QueryEscape(a[2]))
	r.get(r.p.ctl, "/lockrelease") // lookupLoop finishes A's notification first, then A's persist takes the lock
	parked := false
	for i := 0; i < 1500 && !parked; i++ {
		if p, _ := r.get(r.p.ctl, "/parked"); p == "1" {
			parked = true
		} else {
			time.Sleep(5 * time.Millisecond)
		}
	}
	resB, eb := r.get(r.p.ctl, "/directchan?channel="+url.QueryEscape(b[2]))
	// wait until B's Notify goroutine has reached the nsqd lock (or has decided not to persist)
	settled, _ := r.get(r.p.ctl, "/notifysettled")
	r.get(r.p.ctl, "/release?point="+pt)
	r.stats["window:parked="+strconv.FormatBool(parked)+",settled="+settled]++
	for _, x := range []struct {
		w   []string
		res string
		err error
	}{{a, resA, ea}, {b, resB, eb}} {
		if x.err != nil || x.res != "ok" {
			r.out.Case(strings.Join(x.w, " "), "direct-error")
		} else {
			r.out.Case(strings.Join(x.w, " "), "200")
		}
	}
}

// vfMetaHasExtra: does document `dat` list a topic or channel that `mem` does not?
func vfMetaHasExtra(dat, mem string) bool {
	if dat == "-" || dat == "absent" {
		return false
	}
	for _, t := range strings.Split(dat, ";") {
		i := strings.Index(t, "[")
		name := strings.Split(t[:i], ":")[0]
		if vfMetaFileFlag(mem, name, "") == "-" {
			return true
		}
		body := strings.TrimSuffix(t[i+1:], "]")
		if body == "" {
			continue
		}
		for _, c := range strings.Split(body, ",") {
			if vfMetaFileFlag(mem, name, strings.Split(c, ":")[0]) == "-" {
				return true
			}
		}
	}
	return false
}

func (r *vfMetaRun) observer() {
	defer r.obsWG.Done()
	fn := filepath.Join(r.dir, "nsqd.dat")
	for {
		select {
		case <-r.obsStop:
			return
		default:
		}
		b, err := os.ReadFile(fn)
		if err == nil {
			atomic.AddInt64(&r.obsN, 1)
			var m Metadata
			if e := json.Unmarshal(b, &m); e != nil || m.Version == "" {
				r.obsBad.Store(fmt.Sprintf("observer read an incomplete nsqd.dat (%d bytes): %q", len(b), string(b)))
			}
			r.obsSeen.Store(string(b), true)
		}
		runtime.Gosched()
	}
}

// ---------------------------------------------------------------------------------------------
// scripts

var vfMetaPoints = []string{
	"meta.persist.afterSnapshot", "meta.persist.afterOpen", "meta.persist.afterWrite",
	"meta.persist.afterSync", "meta.persist.afterRename",
	"topic.delete.afterNotify", "topic.delete.beforeUnlink", "chan.delete.afterNotify", "chan.delete.beforeUnlink",
}

type vfMetaShadow struct {
	topics map[string]map[string]bool
}

var vfMetaTopicNames = []string{"t0", "t1", "t2", "t3", "e0#ephemeral"}
var vfMetaChanNames = []string{"c0", "c1", "c2", "x#ephemeral"}

// churn produces n client operations, biased towards operations that apply to existing objects.
func (sh *vfMetaShadow) churn(rng *vfRand, n int) []string {
	var out []string
	for len(out) < n {
		t := vfMetaTopicNames[rng.Intn(len(vfMetaTopicNames))]
		c := vfMetaChanNames[rng.Intn(len(vfMetaChanNames))]
		chans, have := sh.topics[t]
		eph := strings.HasSuffix(t, "#ephemeral")
		switch x := rng.Intn(100); {
		case x < 22:
			out = append(out, "createtopic "+t)
			if !have {
				sh.topics[t] = map[string]bool{}
			}
		case x < 47:
			if !have && rng.Intn(4) != 0 {
				continue
			}
			out = append(out, "createchan "+t+" "+c)
			if have {
				chans[c] = true
			}
		case x < 59:
			if !have && rng.Intn(4) != 0 {
				continue
			}
			out = append(out, "deletetopic "+t)
			delete(sh.topics, t)
		case x < 74:
			if eph || ((!have || !chans[c]) && rng.Intn(4) != 0) {
				continue // (deleting the last channel of an ephemeral topic deletes the topic asynchronously)
			}
			out = append(out, "deletechan "+t+" "+c)
			if have {
				delete(chans, c)
			}
		case x < 86:
			if !have && rng.Intn(4) != 0 {
				continue
			}
			out = append(out, fmt.Sprintf("pausetopic %s %d", t, rng.Intn(2)))
		default:
			if (!have || !chans[c]) && rng.Intn(4) != 0 {
				continue
			}
			out = append(out, fmt.Sprintf("pausechan %s %s %d", t, c, rng.Intn(2)))
		}
	}
	return out
}

func vfMetaScript(rng *vfRand, kind int, idx int) []string {
	sh := &vfMetaShadow{topics: map[string]map[string]bool{}}
	s := []string{"start"}
	s = append(s, sh.churn(rng, 3+rng.Intn(5))...)
	s = append(s, "idle")
	switch kind {
	case 0: // SIGKILL self at the k-th visit of a named point
		pt := vfMetaPoints[idx%len(vfMetaPoints)]
		k := 1 + (idx/len(vfMetaPoints))%vfEnvInt("VERIF_META_KMAX", 3)
		if strings.Contains(pt, "delete") {
			k = 1 + (idx/len(vfMetaPoints))%2
		}
		s = append(s, fmt.Sprintf("arm %s %d", pt, k))
		body := sh.churn(rng, 6+rng.Intn(8))
		if strings.HasPrefix(pt, "topic.delete") {
			body = append(body, "createtopic t1", "createchan t1 c0", "deletetopic t1", "createtopic t2", "deletetopic t2")
		}
		if strings.HasPrefix(pt, "chan.delete") {
			body = append(body, "createtopic t1", "createchan t1 c0", "deletechan t1 c0", "createchan t1 c1", "deletechan t1 c1")
		}
		s = append(s, body...)
		s = append(s, "idle", "kill", "restart", "idle", "second")
		s = append(s, sh.churn(rng, 2+rng.Intn(4))...)
		s = append(s, "idle", "kill", "restart", "idle")
	case 1: // SIGKILL from outside at a random instant of a churn
		for cyc := 0; cyc < 2+rng.Intn(2); cyc++ {
			body := sh.churn(rng, 4+rng.Intn(20))
			last := body[len(body)-1]
			s = append(s, body[:len(body)-1]...)
			s = append(s, fmt.Sprintf("killduring %d %s", rng.Intn(2500), last))
			s = append(s, "restart")
			if rng.Intn(2) == 0 {
				s = append(s, "idle")
			}
		}
		s = append(s, "idle", "second", "kill", "restart", "idle")
	case 2: // deletion, then idle: the file must not list the deleted object (forced unlucky order)
		s = append(s, "createtopic t1", "createchan t1 c0", "createchan t1 c1", "createtopic t2", "idle")
		if rng.Intn(2) == 0 {
			s = append(s, "force chan.delete.afterNotify", "deletechan t1 c0", "idle", "kill", "restart", "idle")
		} else {
			s = append(s, "force topic.delete.afterNotify", "deletetopic t2", "idle", "kill", "restart", "idle")
		}
	case 7: // a creation made while another creation's persist is parked between its snapshot and its write
		s = append(s, "createtopic t1", "idle")
		ws := []string{
			"window createchan t1 w1 // createchan t1 w2",
			"window createchan t1 w3 // createchan t1 w4",
			"window createchan t1 w5 // createchan t1 wx#ephemeral",
			"window createchan t1 w6 // createchan t1 w7",
		}
		for i := 0; i < 2; i++ {
			s = append(s, ws[(idx+i)%len(ws)], "idle")
		}
		s = append(s, "kill", "restart", "idle")
	case 6: // a second instance while the first one is inside Exit() (listeners closed, still writing)
		pt := []string{"meta.persist.afterSnapshot", "topic.exit.beforeFlush"}[idx%2]
		s = append(s, "createtopic t1", "createchan t1 c0", "idle", "second", "exitpark "+pt, "second", "exitrelease",
			"restart", "idle", "second")
		s = append(s, sh.churn(rng, 2)...)
		s = append(s, "idle")
	case 5: // SIGKILL inside the persists of a deletion: the Notify one (k = 1 or 2) and the post-unlink one (F6 path)
		pt := vfMetaPoints[idx%5] // the five meta.persist.* points
		k := 1 + (idx/5)%2
		s = append(s, "createtopic t1", "createchan t1 c0", "createchan t1 c1", "createtopic t2", "createchan t2 c0", "idle")
		s = append(s, fmt.Sprintf("arm %s %d", pt, k))
		if (idx/10)%2 == 0 {
			s = append(s, "deletechan t1 c0", "deletechan t1 c1")
		} else {
			s = append(s, "deletetopic t2", "deletetopic t1")
		}
		s = append(s, "idle", "kill", "restart", "idle")
		s = append(s, sh.churn(rng, 2)...)
		s = append(s, "idle")
	case 4: // two concurrent pause/unpause requests, the first parked between its snapshot and its write
		s = append(s, "createtopic t1", "createchan t1 c0", "createtopic t2", "createchan t2 c1", "idle")
		variants := []string{
			"race pausetopic t1 1 // pausechan t1 c0 1",
			"race pausechan t1 c0 1 // pausetopic t1 1",
			"race pausetopic t1 1 // pausetopic t2 1",
			"race pausechan t2 c1 1 // pausechan t1 c0 1",
		}
		undo := []string{
			"race pausetopic t1 0 // pausechan t1 c0 0",
			"race pausechan t1 c0 0 // pausetopic t2 0",
		}
		s = append(s, variants[idx%len(variants)], "idle", undo[rng.Intn(len(undo))], "idle",
			variants[(idx+1+rng.Intn(3))%len(variants)], "idle", "kill", "restart", "idle")
	case 3: // plain sequential life with idle points, no forcing
		for i := 0; i < 4; i++ {
			s = append(s, sh.churn(rng, 2+rng.Intn(6))...)
			s = append(s, "idle")
		}
		s = append(s, "kill", "restart", "idle")
	}
	return s
}

func (r *vfMetaRun) runScript(lines []string) {
	r.obsStop = make(chan struct{})
	r.obsWG.Add(1)
	go r.observer()
	r.out.Case("reset", "ok")
	for _, l := range lines {
		r.exec(l)
	}
	r.kill()
	close(r.obsStop)
	r.obsWG.Wait()
	if b := r.obsBad.Load(); b != nil {
		r.fail("observer-incomplete-file", b.(string))
	}
}

func TestVerifMetaCorr(t *testing.T) {
	if os.Getenv("VERIF_META_DAEMON") == "1" {
		t.Skip()
	}
	n := vfEnvInt("VERIF_N", 24)
	var scripts [][]string
	if f := os.Getenv("VERIF_SCRIPT"); f != "" {
		for _, fn := range strings.Split(f, ",") {
			b, err := os.ReadFile(fn)
			if err != nil {
				t.Fatal(err)
			}
			scripts = append(scripts, strings.Split(strings.TrimSpace(string(b)), "\n"))
		}
	} else {
		rng := vfNewRand(0xC06)
		k0 := int(rng.Next() % 9)
		k5 := int(rng.Next() % 20)
		for i := 0; i < n; i++ {
			kind := []int{0, 6, 5, 1, 7, 2, 3, 4}[i%8]
			if os.Getenv("VERIF_META_KIND") != "" {
				kind = vfEnvInt("VERIF_META_KIND", 0)
			}
			idx := i
			if kind == 0 {
				idx = k0
				k0++
			}
			if kind == 4 {
				idx = i / 8
			}
			if kind == 5 {
				idx = k5
				k5++
			}
			if kind == 6 || kind == 7 {
				idx = i / 8
			}
			scripts = append(scripts, vfMetaScript(rng, kind, idx))
		}
	}
	base, err := os.MkdirTemp(os.Getenv("VERIF_OUT"), "metarun")
	if err != nil {
		t.Fatal(err)
	}
	defer func() { if os.Getenv("VERIF_KEEP") == "" { os.RemoveAll(base) } }()
	runs := make([]*vfMetaRun, len(scripts))
	var wg sync.WaitGroup
	sem := make(chan struct{}, vfEnvInt("VERIF_PAR", 6))
	for i := range scripts {
		wg.Add(1)
		go func(i int) {
			defer wg.Done()
			sem <- struct{}{}
			defer func() { <-sem }()
			dir := filepath.Join(base, fmt.Sprintf("d%d", i))
			ctl := filepath.Join(base, fmt.Sprintf("c%d", i))
			os.MkdirAll(dir, 0700)
			os.MkdirAll(ctl, 0700)
			r := &vfMetaRun{t: t, dir: dir, ctl: ctl, out: &vfMetaLines{}, stats: map[string]int{},
				cli: &http.Client{Timeout: 15 * time.Second, Transport: &http.Transport{DisableKeepAlives: true}}}
			runs[i] = r
			r.runScript(scripts[i])
		}(i)
	}
	wg.Wait()
	out := vfOpen("meta")
	stats := map[string]int{}
	var reads int64
	contents := 0
	fails := 0
	for i, r := range runs {
		for j := range r.out.ops {
			out.Case(r.out.ops[j], r.out.impl[j])
		}
		for k, v := range r.stats {
			stats[k] += v
		}
		reads += r.obsN
		r.obsSeen.Range(func(_, _ interface{}) bool { contents++; return true })
		for _, f := range r.oracle {
			fails++
			fmt.Printf("%s script=%d\n", f, i)
			fmt.Printf("SCRIPT %d: %s\n", i, strings.Join(scripts[i], " | "))
		}
	}
	out.Close()
	var ks []string
	for k, v := range stats {
		ks = append(ks, fmt.Sprintf("%s=%d", k, v))
	}
	sort.Strings(ks)
	fmt.Printf("DIST %s\n", strings.Join(ks, " "))
	if fails == 0 {
		fmt.Printf("ORACLE-OK scripts=%d lines=%d observer_reads=%d distinct_file_contents=%d\n", len(scripts), out.N, reads, contents)
	}
}

// ---------------------------------------------------------------------------------------------
// Observation (not a violation): the persisted document is a cut per topic, not a global cut
// (Props.C06.snapshot_cut and the example `cutSchedule`). Every live state has chans(cutb) ⊆ chans(cuta) because
// each channel is created in cuta first; GetMetadata locks one topic at a time, so a document can list a channel in
// cutb that it does not list in cuta. The next persist heals it.
func TestVerifMetaCutObservation(t *testing.T) {
	if os.Getenv("VERIF_META_DAEMON") == "1" {
		t.Skip()
	}
	opts := NewOptions()
	opts.Logger = log.New(io.Discard, "", 0)
	opts.DataPath = t.TempDir()
	opts.TCPAddress = vfMetaLoop()
	opts.HTTPAddress = vfMetaLoop()
	n, err := New(opts)
	if err != nil {
		t.Fatal(err)
	}
	go n.Main()
	defer n.Exit()
	for i := 0; i < vfEnvInt("VERIF_CUT_FILLER", 120); i++ { // filler topics make one GetMetadata pass longer
		n.GetTopic(fmt.Sprintf("filler%d", i))
	}
	a, b := n.GetTopic("cuta"), n.GetTopic("cutb")
	stop := make(chan struct{})
	var persists, nonCut int64
	var example, exampleDoc, exampleChan atomic.Value
	var wg sync.WaitGroup
	wg.Add(1)
	go func() {
		defer wg.Done()
		last := ""
		for {
			select {
			case <-stop:
				return
			default:
			}
			// read the document the daemon's own PersistMetadata calls (one per channel creation) wrote
			raw, err := os.ReadFile(filepath.Join(opts.DataPath, "nsqd.dat"))
			if err != nil || string(raw) == last {
				runtime.Gosched()
				continue
			}
			last = string(raw)
			var m Metadata
			if json.Unmarshal(raw, &m) != nil {
				continue
			}
			atomic.AddInt64(&persists, 1)
			var ca, cb map[string]bool
			for _, tm := range m.Topics {
				set := map[string]bool{}
				for _, c := range tm.Channels {
					set[c.Name] = true
				}
				if tm.Name == "cuta" {
					ca = set
				}
				if tm.Name == "cutb" {
					cb = set
				}
			}
			for c := range cb {
				if !ca[c] {
					if atomic.AddInt64(&nonCut, 1) == 1 {
						example.Store(fmt.Sprintf("document lists cutb/%s but not cuta/%s (cuta has %d channels, cutb %d)", c, c, len(ca), len(cb)))
						exampleDoc.Store(append([]byte(nil), raw...))
						exampleChan.Store(c)
					}
					break
				}
			}
		}
	}()
	deadline := time.Now().Add(time.Duration(vfEnvInt("VERIF_CUT_MS", 1500)) * time.Millisecond)
	created := 0
	for i := 0; time.Now().Before(deadline) && i < vfEnvInt("VERIF_CUT_PAIRS", 600); i++ {
		name := fmt.Sprintf("k%d", i)
		a.GetChannel(name)
		b.GetChannel(name)
		created++
	}
	for i := 0; i < 1000 && !vfMetaIdle(); i++ {
		time.Sleep(5 * time.Millisecond)
	}
	close(stop)
	wg.Wait()
	ex, _ := example.Load().(string)
	// audit A4: what a SIGKILL at the instant that document was nsqd.dat would have left for the restart — the file as it
	// is (a kill changes nothing on disk; temp files are never read).  Start a daemon on a data path holding exactly that
	// file: it loads a set of channels the first daemon never passed through (every live state has chans(cutb) ⊆ chans(cuta)).
	restart := "not-run"
	if doc, ok := exampleDoc.Load().([]byte); ok {
		c, _ := exampleChan.Load().(string)
		restart = vfMetaRestartFrom(t, doc, c)
	}
	fmt.Printf("OBSERVATION global-cut snapshots=%d channel_pairs=%d non_global_cut_snapshots=%d restart_from_that_file=%s %s\n",
		atomic.LoadInt64(&persists), created, atomic.LoadInt64(&nonCut), restart, ex)
}

// vfMetaRestartFrom starts a daemon on a data path holding exactly `doc` as nsqd.dat (what a SIGKILL while that document
// was the file leaves for the restart) and reports whether it loads cutb/c WITHOUT cuta/c.
func vfMetaRestartFrom(t *testing.T, doc []byte, c string) string {
	opts2 := NewOptions()
	opts2.Logger = log.New(io.Discard, "", 0)
	opts2.DataPath = t.TempDir()
	opts2.TCPAddress = vfMetaLoop()
	opts2.HTTPAddress = vfMetaLoop()
	os.WriteFile(filepath.Join(opts2.DataPath, "nsqd.dat"), doc, 0600)
	n2, err := New(opts2)
	if err != nil {
		return "new-failed"
	}
	defer n2.Exit()
	if err := n2.LoadMetadata(); err != nil {
		return "load-failed"
	}
	inA, inB := false, false
	if ta, err := n2.GetExistingTopic("cuta"); err == nil {
		_, e := ta.GetExistingChannel(c)
		inA = e == nil
	}
	if tb, err := n2.GetExistingTopic("cutb"); err == nil {
		_, e := tb.GetExistingChannel(c)
		inB = e == nil
	}
	if inB && !inA {
		return "loaded-never-passed-state"
	}
	return fmt.Sprintf("loaded:cutb_has=%v:cuta_has=%v", inB, inA)
}

// vfMetaParkedInGetMetadata: some goroutine is inside NSQD.GetMetadata waiting for a topic lock (white-box, no clock)
func vfMetaParkedInGetMetadata() bool {
	buf := make([]byte, 1<<20)
	n := runtime.Stack(buf, true)
	for _, g := range strings.Split(string(buf[:n]), "\n\n") {
		if strings.Contains(g, "(*NSQD).GetMetadata") && strings.Contains(g, "sync.(*RWMutex).Lock") {
			return true
		}
	}
	return false
}

// TestVerifMetaCutSteered — claim audit 2, item 33: the schedule `Nsq.Props.C06.cutSchedule` FORCED on the real code (the
// unsteered TestVerifMetaCutObservation meets it in a few of several hundred documents, or not at all).  No hook point lies
// inside GetMetadata, so the persist is parked where the schedule needs it by the lock it waits for:
//
//	G: Topic.GetChannel(cutb, k)  — its first statement, t.Lock()                       [the harness takes cutb's lock]
//	P: n.Lock(); PersistMetadata() (what Notify's goroutine does): GetMetadata reads cuta (no k), waits for cutb's lock
//	A: Topic.GetChannel(cuta, k)  — the whole real function                             [.mem createChan a]
//	G: … getOrCreateChannel(k); t.Unlock(); channelUpdateChan <- 1                      [.mem createChan b]
//	P: reads cutb (with k), marshals, writes, renames: nsqd.dat lists cutb/k but not cuta/k
//
// Every live state has chans(cutb) ⊆ chans(cuta) (k enters cuta's map before cutb's).  Go's map iteration may visit cutb
// first (then P parks before it read cuta and the document is a global cut): the attempt is repeated with the next k.
func TestVerifMetaCutSteered(t *testing.T) {
	if os.Getenv("VERIF_META_DAEMON") == "1" {
		t.Skip()
	}
	opts := NewOptions()
	opts.Logger = log.New(io.Discard, "", 0)
	opts.DataPath = t.TempDir()
	opts.TCPAddress = vfMetaLoop()
	opts.HTTPAddress = vfMetaLoop()
	n, err := New(opts)
	if err != nil {
		t.Fatal(err)
	}
	go n.Main()
	defer n.Exit()
	a, b := n.GetTopic("cuta"), n.GetTopic("cutb")
	idle := func() {
		for i := 0; i < 1000 && !vfMetaIdle(); i++ {
			time.Sleep(2 * time.Millisecond)
		}
	}
	var doc []byte
	ch, ex, attempts, parkedN := "", "", 0, 0
	for i := 0; i < vfEnvInt("VERIF_CUT_ATTEMPTS", 24) && doc == nil; i++ {
		idle()
		attempts++
		name := fmt.Sprintf("k%d", i)
		b.Lock() // G, first statement of Topic.GetChannel
		got := make(chan []byte, 1)
		go func() { // P
			n.Lock()
			var raw []byte
			if n.PersistMetadata() == nil {
				raw, _ = os.ReadFile(filepath.Join(opts.DataPath, "nsqd.dat"))
			}
			n.Unlock()
			got <- raw
		}()
		parked := false
		for j := 0; j < 5000 && !parked; j++ {
			if parked = vfMetaParkedInGetMetadata(); !parked {
				time.Sleep(time.Millisecond)
			}
		}
		if parked {
			parkedN++
		}
		a.GetChannel(name) // A
		_, isNew := b.getOrCreateChannel(name)
		b.Unlock()
		if isNew {
			select {
			case b.channelUpdateChan <- 1:
			case <-b.exitChan:
			}
		}
		raw := <-got
		var m Metadata
		if raw == nil || json.Unmarshal(raw, &m) != nil {
			continue
		}
		inA, inB, la, lb := false, false, 0, 0
		for _, tm := range m.Topics {
			for _, c := range tm.Channels {
				if tm.Name == "cuta" {
					la++
					inA = inA || c.Name == name
				}
				if tm.Name == "cutb" {
					lb++
					inB = inB || c.Name == name
				}
			}
		}
		if inB && !inA {
			doc, ch = raw, name
			ex = fmt.Sprintf("document lists cutb/%s but not cuta/%s (cuta has %d channels, cutb %d)", name, name, la, lb)
		}
	}
	idle()
	restart := "not-run"
	if doc != nil {
		restart = vfMetaRestartFrom(t, doc, ch)
	}
	fmt.Printf("OBSERVATION global-cut-steered attempts=%d parked=%d restart_from_that_file=%s %s\n", attempts, parkedN, restart, ex)
}
