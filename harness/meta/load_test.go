package nsqd

// C06 harness, round 6: `LoadMetadata` on EVERY file content, `PersistMetadata` error returns, `dirlock`.
// In-process (New + LoadMetadata never os.Exit; Main is not started, so no Notify persist runs behind our back).
// For each generated `nsqd.dat` content the real New()+LoadMetadata() run on a fresh data path; the harness
// records error vs the loaded live maps (white-box: ephemeral objects and pause flags included) and
// GetMetadata(false); then PersistMetadata + Exit + New + LoadMetadata again (`reload`: the start order of
// apps/nsqd must be a fixed point). The decoded document handed to the Lean driver comes from the harness's own
// json.Unmarshal into the real `Metadata` type: encoding/json is TRUSTED, everything after it is modelled
// (lean/Nsq/Model/MetaLoad.lean). Nothing here is committed to the repository.

import (
	"bytes"
	"encoding/hex"
	"encoding/json"
	"fmt"
	"io"
	"log"
	"net/http/httptest"
	"os"
	"path/filepath"
	"sort"
	"strings"
	"testing"
)

type vfMetaLoadRun struct {
	out   *vfOut
	t     *testing.T
	base  string
	seq   int
	fails int
	dist  map[string]int
}

func (r *vfMetaLoadRun) fail(key, what string) {
	r.fails++
	fmt.Printf("ORACLE-FAIL key=%s %s\n", key, what)
}

func vfMetaLoadName(s string) string { return "x" + hex.EncodeToString([]byte(s)) }

// the decoded document, in file order, names in hex
func vfMetaLoadDoc(m *Metadata) string {
	if len(m.Topics) == 0 {
		return "."
	}
	var ts []string
	for _, t := range m.Topics {
		var cs []string
		for _, c := range t.Channels {
			cs = append(cs, fmt.Sprintf("%s:%d", vfMetaLoadName(c.Name), vfMetaB(c.Paused)))
		}
		ts = append(ts, fmt.Sprintf("%s:%d[%s]", vfMetaLoadName(t.Name), vfMetaB(t.Paused), strings.Join(cs, ",")))
	}
	return strings.Join(ts, ";")
}

// the live maps, white-box, sorted: name:paused:ephemeral[chan:paused:ephemeral,…]
func vfMetaLoadMem(n *NSQD) string {
	n.RLock()
	defer n.RUnlock()
	var ts []string
	for name, t := range n.topicMap {
		var cs []string
		t.RLock()
		for cn, c := range t.channelMap {
			cs = append(cs, fmt.Sprintf("%s:%d:%d", vfMetaLoadName(cn), vfMetaB(c.IsPaused()), vfMetaB(c.ephemeral)))
		}
		t.RUnlock()
		sort.Strings(cs)
		ts = append(ts, fmt.Sprintf("%s:%d:%d[%s]", vfMetaLoadName(name), vfMetaB(t.IsPaused()), vfMetaB(t.ephemeral), strings.Join(cs, ",")))
	}
	sort.Strings(ts)
	if len(ts) == 0 {
		return "."
	}
	return strings.Join(ts, ";")
}

func vfMetaLoadSnap(n *NSQD) string {
	m := n.GetMetadata(false)
	var ts []string
	for _, t := range m.Topics {
		var cs []string
		for _, c := range t.Channels {
			cs = append(cs, fmt.Sprintf("%s:%d", vfMetaLoadName(c.Name), vfMetaB(c.Paused)))
		}
		sort.Strings(cs)
		ts = append(ts, fmt.Sprintf("%s:%d[%s]", vfMetaLoadName(t.Name), vfMetaB(t.Paused), strings.Join(cs, ",")))
	}
	sort.Strings(ts)
	if len(ts) == 0 {
		return "."
	}
	return strings.Join(ts, ";")
}

// the validity predicate, written out independently of internal/protocol
func vfMetaLoadValid(s string) bool {
	if len(s) < 1 || len(s) > 64 {
		return false
	}
	base := strings.TrimSuffix(s, "#ephemeral")
	if base == "" {
		return false
	}
	for i := 0; i < len(base); i++ {
		c := base[i]
		if !(c == '.' || c == '_' || c == '-' || (c >= 'a' && c <= 'z') || (c >= 'A' && c <= 'Z') || (c >= '0' && c <= '9')) {
			return false
		}
	}
	return true
}

func (r *vfMetaLoadRun) opts(dir string) *Options {
	opts := NewOptions()
	opts.Logger = log.New(io.Discard, "", 0)
	opts.LogLevel = LOG_FATAL
	opts.DataPath = dir
	opts.TCPAddress = vfMetaLoop()
	opts.HTTPAddress = vfMetaLoop()
	opts.MemQueueSize = 10
	return opts
}

// what apps/nsqd does on a fatal start error is os.Exit: no Exit() (it would persist). Release by hand.
func vfMetaLoadAbandon(n *NSQD) {
	if n.tcpListener != nil {
		n.tcpListener.Close()
	}
	if n.httpListener != nil {
		n.httpListener.Close()
	}
	n.dl.Unlock()
}

func vfMetaLoadListing(dir string) string {
	var l []string
	filepath.Walk(dir, func(p string, fi os.FileInfo, err error) error {
		if err != nil || p == dir {
			return nil
		}
		rel, _ := filepath.Rel(dir, p)
		if fi.IsDir() {
			l = append(l, rel+"/")
		} else {
			b, _ := os.ReadFile(p)
			l = append(l, fmt.Sprintf("%s=%x", rel, b))
		}
		return nil
	})
	sort.Strings(l)
	return strings.Join(l, " ")
}

func (r *vfMetaLoadRun) newDir() string {
	r.seq++
	d := filepath.Join(r.base, fmt.Sprintf("dp%d", r.seq))
	os.MkdirAll(d, 0700)
	return d
}

func (r *vfMetaLoadRun) checkNames(n *NSQD, what string) {
	n.RLock()
	defer n.RUnlock()
	for name, t := range n.topicMap {
		if !vfMetaLoadValid(name) {
			r.fail("invalid-name-loaded", fmt.Sprintf("LoadMetadata created topic %q from %s", name, what))
		}
		t.RLock()
		for cn := range t.channelMap {
			if !vfMetaLoadValid(cn) {
				r.fail("invalid-name-loaded", fmt.Sprintf("LoadMetadata created channel %q of topic %q from %s", cn, name, what))
			}
		}
		t.RUnlock()
	}
}

// one file content: kind = absent | dir | bytes
func (r *vfMetaLoadRun) loadCase(kind string, content []byte, tag string, reload bool) {
	dir := r.newDir()
	fn := filepath.Join(dir, "nsqd.dat")
	doc := "-"
	jsonOK := false
	switch kind {
	case "absent":
	case "dir":
		os.MkdirAll(filepath.Join(fn, "sub"), 0700)
	default:
		if err := os.WriteFile(fn, content, 0600); err != nil {
			r.t.Fatal(err)
		}
		var m Metadata
		if err := json.Unmarshal(content, &m); err == nil {
			jsonOK = true
			doc = vfMetaLoadDoc(&m)
		}
	}
	r.dist[tag]++
	r.out.Case("reset", "ok")
	before := vfMetaLoadListing(dir)
	op := fmt.Sprintf("load %s %s %s", kind, vfHex(content), doc)
	n, err := New(r.opts(dir))
	if err != nil {
		r.out.Case(op, "newfail")
		r.fail("start-failed", fmt.Sprintf("New failed on a free data path: %v", err))
		return
	}
	err = n.LoadMetadata()
	what := fmt.Sprintf("file (%s, %d bytes) %q", tag, len(content), string(content))
	if err != nil {
		vfMetaLoadAbandon(n)
		r.out.Case(op, "refuse")
		r.dist["outcome:refuse"]++
		if kind == "absent" || jsonOK {
			r.fail("loadable-file-refused", fmt.Sprintf("LoadMetadata refused %s: %v", what, err))
		}
		if after := vfMetaLoadListing(dir); after != before {
			r.fail("refused-start-touched-files", fmt.Sprintf("data path changed by a refused start: before [%s] after [%s]", before, after))
		}
		return
	}
	mem1 := vfMetaLoadMem(n)
	r.out.Case(op, fmt.Sprintf("ok mem=%s snap=%s", mem1, vfMetaLoadSnap(n)))
	r.dist["outcome:ok"]++
	if kind == "dir" || (kind == "bytes" && !jsonOK) {
		r.fail("corrupt-file-accepted", fmt.Sprintf("LoadMetadata returned nil on %s, which encoding/json rejects", what))
	}
	r.checkNames(n, what)
	if !reload {
		n.Exit()
		return
	}
	// apps/nsqd Start: PersistMetadata right after LoadMetadata; then a graceful stop and the next start
	snap1 := vfMetaLoadSnap(n)
	if err := n.PersistMetadata(); err != nil {
		r.fail("persist-failed", fmt.Sprintf("PersistMetadata after load of %s: %v", what, err))
	}
	written, _ := os.ReadFile(fn)
	n.Exit()
	n2, err := New(r.opts(dir))
	if err != nil {
		r.out.Case("reload", "newfail")
		r.fail("restart-failed", fmt.Sprintf("New after Exit: %v", err))
		return
	}
	if err = n2.LoadMetadata(); err != nil {
		vfMetaLoadAbandon(n2)
		r.out.Case("reload", "refuse")
		r.fail("restart-failed", fmt.Sprintf("the file written right after loading %s is refused: %v (file %q)", what, err, string(written)))
		return
	}
	snap2 := vfMetaLoadSnap(n2)
	r.out.Case("reload", fmt.Sprintf("ok mem=%s snap=%s", vfMetaLoadMem(n2), snap2))
	if snap1 != snap2 {
		r.fail("load-persist-not-fixed-point", fmt.Sprintf("after loading %s GetMetadata=%s, but the file written from it re-loads to %s", what, snap1, snap2))
	}
	r.checkNames(n2, "the file written after "+what)
	n2.Exit()
}

// ---------------------------------------------------------------------------------------------
// generators

var vfMetaLoadNames = []string{
	"t0", "t1", "c0", "c1", "T.-_9", "t0#ephemeral", "c0#ephemeral",
	"", "a b", "é", "t0#ephemeral#ephemeral", "#ephemeral", "t0#ephemera", "t0#Ephemeral", "a/b", "a\nb", "t0:1", "a\"b", "t0;x[",
	strings.Repeat("x", 64), strings.Repeat("x", 65), strings.Repeat("y", 54) + "#ephemeral", strings.Repeat("y", 55) + "#ephemeral",
	"éé", "t0\x00", " t0", "t0 ",
}

func vfMetaLoadQ(s string) string {
	b, _ := json.Marshal(s)
	return string(b)
}

// a syntactically valid document with hostile names, repeated names, odd but accepted JSON shapes
func vfMetaLoadGenDoc(rng *vfRand) []byte {
	pick := func() string {
		if rng.Intn(3) == 0 {
			return vfMetaLoadNames[rng.Intn(6)] // mostly collisions among a few valid names
		}
		return vfMetaLoadNames[rng.Intn(len(vfMetaLoadNames))]
	}
	flag := func() string {
		switch rng.Intn(8) {
		case 0:
			return "" // field missing
		case 1:
			return `"paused":null,`
		case 2, 3, 4:
			return `"paused":true,`
		}
		return `"paused":false,`
	}
	var ts []string
	for i, nt := 0, rng.Intn(5); i < nt; i++ {
		var cs []string
		for j, nc := 0, rng.Intn(5); j < nc; j++ {
			cs = append(cs, fmt.Sprintf(`{%s"name":%s}`, flag(), vfMetaLoadQ(pick())))
		}
		chans := fmt.Sprintf(`"channels":[%s],`, strings.Join(cs, ","))
		switch rng.Intn(10) {
		case 0:
			chans = ""
		case 1:
			chans = `"channels":null,`
		}
		extra := ""
		if rng.Intn(6) == 0 {
			extra = `"depth":7,"x":{"y":[1,2]},`
		}
		key := `"name"`
		if rng.Intn(12) == 0 {
			key = `"NAME"` // encoding/json matches keys case-insensitively
		}
		ts = append(ts, fmt.Sprintf(`{%s%s%s%s:%s}`, extra, chans, flag(), key, vfMetaLoadQ(pick())))
	}
	if rng.Intn(15) == 0 {
		ts = append(ts, "null")
	}
	head := `"version":"1.2.1",`
	if rng.Intn(4) == 0 {
		head = ""
	}
	s := fmt.Sprintf(`{%s"topics":[%s]}`, head, strings.Join(ts, ","))
	switch rng.Intn(8) {
	case 0:
		s += "\n"
	case 1:
		s = " \n" + s + "  "
	}
	return []byte(s)
}

var vfMetaLoadFixed = []struct{ tag, s string }{
	{"empty-file", ""}, {"whitespace", " \n"}, {"null", "null"}, {"empty-object", "{}"}, {"topics-null", `{"topics":null}`},
	{"topics-empty", `{"topics":[]}`}, {"topic-null", `{"topics":[null]}`},
	{"wrong-type", `{"topics":5}`}, {"wrong-type", `{"topics":[{"name":5}]}`}, {"wrong-type", `{"topics":[{"name":"t0","paused":"yes"}]}`},
	{"wrong-type", `{"topics":[{"name":"t0","channels":{"name":"c0"}}]}`}, {"wrong-type", `[]`}, {"wrong-type", `"nsqd"`},
	{"wrong-type", `5`}, {"wrong-type", `true`}, {"wrong-type", `{"topics":[{"name":"t0","channels":["c0"]}]}`},
	{"trailing-garbage", `{"topics":[]}x`}, {"trailing-garbage", `{"topics":[]}{}`}, {"two-docs", "{}\n{}"},
	{"legacy-lines", "t0\nt0:c0\nt1\n"}, {"legacy-lines", "t0:c0\n"}, {"legacy-lines", "version:0.2.16\nt0\n"},
	{"garbage", "\x00\x01\x02"}, {"garbage", "{"}, {"garbage", `{"topics":[{"name":"t0"`}, {"garbage", "\xff\xfe{}"}, {"bom", "\xef\xbb\xbf{}"},
	{"dup-key", `{"topics":[{"name":"t0"}],"topics":[{"name":"t1","paused":true}]}`},
	{"dup-topic", `{"topics":[{"name":"t0","paused":true,"channels":[{"name":"c0","paused":true}]},{"name":"t0","paused":false,"channels":[{"name":"c0","paused":false},{"name":"c1"}]}]}`},
	{"invalid-topic-with-channels", `{"topics":[{"name":"a b","paused":true,"channels":[{"name":"c0"}]},{"name":"t1","channels":[{"name":"","paused":true},{"name":"c1","paused":true}]}]}`},
	{"ephemeral-in-file", `{"topics":[{"name":"t0#ephemeral","paused":true,"channels":[{"name":"c0"}]},{"name":"t1","channels":[{"name":"c0#ephemeral","paused":true}]}]}`},
	{"invalid-utf8-name", "{\"topics\":[{\"name\":\"t\xff0\"}]}"},
	{"escaped-name", `{"topics":[{"name":"t0","channels":[{"name":"c0"}]}]}`},
}

// ---------------------------------------------------------------------------------------------
// error returns of PersistMetadata, the pause handler's answer, dirlock

func (r *vfMetaLoadRun) pauseViaHandler(n *NSQD, path string) int {
	s := newHTTPServer(n, false, false)
	w := httptest.NewRecorder()
	s.ServeHTTP(w, httptest.NewRequest("POST", path, nil))
	return w.Code
}

func (r *vfMetaLoadRun) faultCases() {
	r.out.Case("reset", "ok")
	// rename fails: nsqd.dat is a non-empty directory
	{
		dir := r.newDir()
		n, err := New(r.opts(dir))
		if err != nil {
			r.t.Fatal(err)
		}
		n.LoadMetadata()
		n.GetTopic("t0").GetChannel("c0")
		fn := filepath.Join(dir, "nsqd.dat")
		os.MkdirAll(filepath.Join(fn, "sub"), 0700)
		os.WriteFile(filepath.Join(fn, "sub", "keep"), []byte("old"), 0600)
		perr := n.PersistMetadata()
		kept, _ := os.ReadFile(filepath.Join(fn, "sub", "keep"))
		tmps, _ := filepath.Glob(filepath.Join(dir, "nsqd.dat.*.tmp"))
		complete := false
		if len(tmps) == 1 {
			b, _ := os.ReadFile(tmps[0])
			var m Metadata
			complete = json.Unmarshal(b, &m) == nil && len(m.Topics) == 1
		}
		code := r.pauseViaHandler(n, "/topic/pause?topic=t0")
		code2 := r.pauseViaHandler(n, "/channel/pause?topic=t0&channel=c0")
		paused := n.GetTopic("t0").IsPaused()
		r.out.Case("persistfault rename", fmt.Sprintf("err=%d dat=%s tmpcomplete=%d pause=%d,%d memflag=%d", vfMetaB(perr != nil),
			map[bool]string{true: "unchanged", false: "changed"}[string(kept) == "old"], vfMetaB(complete), code, code2, vfMetaB(paused)))
		r.dist["fault:rename"]++
		if perr == nil {
			r.fail("persist-error-swallowed", "PersistMetadata returned nil although rename onto nsqd.dat (a non-empty directory) cannot succeed")
		}
		if string(kept) != "old" {
			r.fail("failed-persist-touched-dat", "a failing PersistMetadata changed what is at nsqd.dat")
		}
		fmt.Printf("OBSERVATION fault-rename: PersistMetadata err=%v; pause handlers answered %d/%d with the flag set in memory=%v and NOT in nsqd.dat (disk faults are outside C06's quantifier); %d temp file(s) left\n",
			perr, code, code2, paused, len(tmps))
		os.RemoveAll(fn)
		n.Exit()
	}
	// open fails: the data path vanished after New
	{
		dir := r.newDir()
		n, err := New(r.opts(dir))
		if err != nil {
			r.t.Fatal(err)
		}
		n.LoadMetadata()
		os.RemoveAll(dir)
		perr := n.PersistMetadata()
		_, serr := os.Stat(dir)
		r.out.Case("persistfault open", fmt.Sprintf("err=%d dat=%s", vfMetaB(perr != nil), map[bool]string{true: "unchanged", false: "changed"}[os.IsNotExist(serr)]))
		r.dist["fault:open"]++
		if perr == nil {
			r.fail("persist-error-swallowed", "PersistMetadata returned nil although the temporary file cannot be created")
		}
		vfMetaLoadAbandon(n)
	}
}

func (r *vfMetaLoadRun) lockCases() {
	r.out.Case("reset", "ok")
	// data path missing
	{
		dir := filepath.Join(r.newDir(), "nope")
		n, err := New(r.opts(dir))
		res := "locked"
		if err != nil && strings.Contains(err.Error(), "failed to lock data-path") {
			res = "lockerror"
		} else if err != nil {
			res = "othererror"
		}
		_, serr := os.Stat(dir)
		r.out.Case("new missing", fmt.Sprintf("%s created=%d", res, vfMetaB(serr == nil)))
		if n != nil {
			vfMetaLoadAbandon(n)
		}
	}
	// data path is a regular file
	{
		d := r.newDir()
		dir := filepath.Join(d, "afile")
		os.WriteFile(dir, []byte("content"), 0600)
		n, err := New(r.opts(dir))
		res := "locked"
		if err != nil {
			res = "lockerror"
		}
		if n != nil {
			if lerr := n.LoadMetadata(); lerr != nil {
				res += " refuse"
			} else {
				res += " ok"
			}
			vfMetaLoadAbandon(n)
		}
		b, _ := os.ReadFile(dir)
		r.out.Case("new file", fmt.Sprintf("%s untouched=%d", res, vfMetaB(string(b) == "content" && vfMetaLoadListing(d) == "afile=636f6e74656e74")))
	}
	// data path held by a live instance (same process, another open file description)
	{
		dir := r.newDir()
		os.WriteFile(filepath.Join(dir, "nsqd.dat"), []byte(`{"topics":[{"name":"t0"}]}`), 0600)
		n, err := New(r.opts(dir))
		if err != nil {
			r.t.Fatal(err)
		}
		before := vfMetaLoadListing(dir)
		n2, err2 := New(r.opts(dir))
		res := "locked"
		if err2 != nil && strings.Contains(err2.Error(), "failed to lock data-path") {
			res = "lockerror"
		}
		if n2 != nil {
			vfMetaLoadAbandon(n2)
			r.fail("second-instance", "a second New() on a data path whose lock is held succeeded")
		}
		r.out.Case("new held", fmt.Sprintf("%s untouched=%d", res, vfMetaB(vfMetaLoadListing(dir) == before)))
		vfMetaLoadAbandon(n)
	}
	r.dist["lock"] += 3
}

func TestVerifMetaLoad(t *testing.T) {
	if os.Getenv("VERIF_META_DAEMON") == "1" {
		t.Skip()
	}
	r := &vfMetaLoadRun{out: vfOpen("metaload"), t: t, base: t.TempDir(), dist: map[string]int{}}
	defer r.out.Close()
	r.out.Case("reset", "ok")
	rng := vfNewRand(0xC0610AD)
	r.loadCase("absent", nil, "absent", true)
	r.loadCase("dir", nil, "nsqd.dat-is-a-directory", false)
	for _, f := range vfMetaLoadFixed {
		r.loadCase("bytes", []byte(f.s), f.tag, true)
	}
	n := vfEnvInt("VERIF_LOAD_N", 60)
	var written [][]byte
	for i := 0; i < n; i++ {
		doc := vfMetaLoadGenDoc(rng)
		r.loadCase("bytes", doc, "generated-doc", i%2 == 0)
		if i%4 == 0 {
			// a corrupted variant: one byte dropped / replaced / the tail cut
			c := append([]byte{}, doc...)
			p := rng.Intn(len(c))
			switch rng.Intn(3) {
			case 0:
				c = append(c[:p], c[p+1:]...)
			case 1:
				c[p] = byte(rng.Next())
			default:
				c = c[:p]
			}
			r.loadCase("bytes", c, "mutated-doc", false)
		}
	}
	// truncation: documents written by the real PersistMetadata, cut at every byte
	{
		dir := r.newDir()
		nn, err := New(r.opts(dir))
		if err != nil {
			t.Fatal(err)
		}
		nn.LoadMetadata()
		nn.GetTopic("t0").GetChannel("c0").Pause()
		nn.GetTopic("t1").Pause()
		nn.GetTopic("t0").GetChannel("c1#ephemeral")
		nn.PersistMetadata()
		b, _ := os.ReadFile(filepath.Join(dir, "nsqd.dat"))
		written = append(written, b)
		nn.Exit()
		nn, _ = New(r.opts(r.newDir()))
		nn.LoadMetadata()
		nn.PersistMetadata()
		b, _ = os.ReadFile(filepath.Join(nn.getOpts().DataPath, "nsqd.dat"))
		written = append(written, b)
		nn.Exit()
	}
	step := vfEnvInt("VERIF_LOAD_CUTSTEP", 1)
	cutDir := r.newDir()
	cn, err := New(r.opts(cutDir))
	if err != nil {
		t.Fatal(err)
	}
	cuts := 0
	for _, w := range written {
		r.loadCase("bytes", w, "written-by-persist", true)
		for k := (int(rng.Next()) & 0xffff) % step; k < len(w); k += step {
			// strict prefix, loaded by a long-lived instance (a refused load creates nothing)
			p := w[:k]
			os.WriteFile(filepath.Join(cutDir, "nsqd.dat"), p, 0600)
			var m Metadata
			doc := "-"
			if json.Unmarshal(p, &m) == nil {
				doc = vfMetaLoadDoc(&m)
			}
			op := fmt.Sprintf("load bytes %s %s", vfHex(p), doc)
			cuts++
			r.out.Case("reset", "ok")
			if err := cn.LoadMetadata(); err != nil {
				r.out.Case(op, "refuse")
				if after, _ := os.ReadFile(filepath.Join(cutDir, "nsqd.dat")); !bytes.Equal(after, p) {
					r.fail("refused-start-touched-files", fmt.Sprintf("nsqd.dat changed by a refused load of a %d-byte prefix", k))
				}
			} else {
				r.out.Case(op, fmt.Sprintf("ok mem=%s snap=%s", vfMetaLoadMem(cn), vfMetaLoadSnap(cn)))
				r.fail("truncated-file-loaded", fmt.Sprintf("the first %d of %d bytes of a document written by PersistMetadata (%q) were loaded as state %s instead of being refused",
					k, len(w), string(p), vfMetaLoadMem(cn)))
			}
		}
	}
	vfMetaLoadAbandon(cn)
	r.dist["truncated-prefix"] = cuts
	r.faultCases()
	r.lockCases()
	var keys []string
	for k := range r.dist {
		keys = append(keys, k)
	}
	sort.Strings(keys)
	var parts []string
	for _, k := range keys {
		parts = append(parts, fmt.Sprintf("%s=%d", k, r.dist[k]))
	}
	fmt.Printf("DIST load: %s\n", strings.Join(parts, " "))
	if r.fails == 0 {
		fmt.Printf("ORACLE-OK load: every loaded name valid; error iff encoding/json rejects (or unreadable); %d strict prefixes of persisted documents all refused; refused starts touched nothing; load→persist→load is a fixed point\n", cuts)
	}
}
