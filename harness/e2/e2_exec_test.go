package nsqd

// Corr-E2 harness, part 2: the command interpreter (symbolic command script -> real nsqd),
// the structured + malformed generators, the final drain with the client-side ledger oracle,
// and the test entry points.

import (
	"bufio"
	"bytes"
	"encoding/binary"
	"fmt"
	"math"
	"os"
	"path/filepath"
	"sort"
	"strconv"
	"strings"
	"sync/atomic"
	"testing"
	"time"
)

func (h *vfE2H) topic(t int) *vfE2Topic {
	tp := h.topics[t]
	if tp == nil {
		tp = &vfE2Topic{t: t, name: fmt.Sprintf("t%d", t), chans: map[int]*vfE2Chan{}, dpubs: map[int]bool{}}
		h.topics[t] = tp
	}
	return tp
}

func (h *vfE2H) newChan(tp *vfE2Topic, c int, eph bool) *vfE2Chan {
	ch := &vfE2Chan{t: tp.t, c: c, eph: eph, name: vfE2ChanName(c, eph), exact: !eph,
		located: map[int]bool{}, fanned: map[int]bool{}, finished: map[int]bool{}, emptied: map[int]bool{},
		sampled: map[int]bool{}, lastAtt: map[int]int{}, holder: map[int]int{}}
	tp.chans[c] = ch
	return ch
}

// after every command: wait for quiescence, report what the runtime did, dump the state
func (h *vfE2H) after(tps ...*vfE2Topic) {
	if h.aborted {
		return
	}
	if !h.settle() {
		return
	}
	for _, cn := range h.conns {
		if cn.subbed && !cn.dead && cn.sample > 0 {
			// a sampling pump decides (rand) between taking a message off the queue and either
			// dropping it or registering it in flight: give that window time to close before
			// a message that is nowhere is declared sampled out
			time.Sleep(3 * time.Millisecond)
			if !h.settle() {
				return
			}
			break
		}
	}
	h.observe()
	h.nOps++
	for _, tp := range tps {
		if tp == nil {
			continue
		}
		for _, ch := range tp.sortedChans() {
			h.split(ch)
			h.dump(ch)
		}
		h.tdump(tp)
	}
	h.emit("settle", "quiet")
	if h.nOps%7 == 0 && !h.micro {
		h.emit("inv", "inv ok")
	}
	if h.nOps%40 == 0 {
		h.statsCheck()
	}
}

func (h *vfE2H) doTopic(t int) {
	tp := h.topic(t)
	h.n.GetTopic(tp.name)
	h.emit(fmt.Sprintf("topic %d", t), "ok")
	h.count("op:topic")
	h.after(tp)
}

func (h *vfE2H) doChan(t, c int, eph bool) {
	tp := h.topic(t)
	if old, ok := tp.chans[c]; ok && old.eph != eph {
		return // one name per channel number within a run
	}
	rt := h.n.GetTopic(tp.name)
	rt.GetChannel(vfE2ChanName(c, eph))
	if _, ok := tp.chans[c]; !ok {
		h.newChan(tp, c, eph)
	}
	h.emit(fmt.Sprintf("chan %d %d %s", t, c, vfE2B(eph)), "ok")
	h.count("op:chan")
	h.after(tp)
}

func (h *vfE2H) doSub(t, c int, eph bool, mtMs int64, sample int, buf int) int {
	tp := h.topic(t)
	if old, ok := tp.chans[c]; ok && old.eph != eph {
		eph = old.eph
	}
	k := h.nextK
	h.nextK++
	cn := h.dial(k)
	cn.t, cn.c, cn.sample = t, c, sample
	h.conns[k] = cn
	ident := fmt.Sprintf(`{"client_id":"k%d","hostname":"h","feature_negotiation":false,"sample_rate":%d`, k, sample)
	if mtMs > 0 {
		ident += fmt.Sprintf(`,"msg_timeout":%d`, mtMs)
		cn.mtNs = mtMs * 1000000
	} else {
		cn.mtNs = h.cfg.mtMs * 1000000
	}
	if buf == 0 {
		ident += `,"output_buffer_size":-1`
	} else if buf == 2 {
		// audit A13: the smallest bounded bufio.Writer (64 bytes): every message frame (>= 34 bytes + body) makes bufio flush
		// automatically, frames are split over several Writes; the consumer side must still read exactly the frames written
		ident += `,"output_buffer_size":64,"output_buffer_timeout":2`
		h.count("sub:output-buffer-64")
	} else {
		ident += `,"output_buffer_timeout":2`
	}
	ident += "}"
	var sz [4]byte
	binary.BigEndian.PutUint32(sz[:], uint32(len(ident)))
	code, _ := h.connCmd(cn, "IDENTIFY", append(sz[:], ident...), true)
	if code != "OK" {
		h.fail("identify", "IDENTIFY answered %s", code)
		h.aborted = true
		return k
	}
	code, fatal := h.connCmd(cn, fmt.Sprintf("SUB %s %s", tp.name, vfE2ChanName(c, eph)), nil, true)
	if code == "OK" {
		cn.subbed = true
		if _, ok := tp.chans[c]; !ok {
			h.newChan(tp, c, eph)
		}
		rc := h.realChan(tp.chans[c])
		if rc != nil {
			rc.RLock()
			for _, x := range rc.clients {
				cl, isReal := x.(*clientV2)
				if !isReal {
					continue
				}
				cl.metaLock.RLock()
				if cl.ClientID == fmt.Sprintf("k%d", k) {
					cn.cl = cl
					h.byCID[cl.ID] = k
				}
				cl.metaLock.RUnlock()
			}
			rc.RUnlock()
		}
		if cn.cl == nil {
			h.fail("sub", "SUB answered OK but the client is not registered on the channel")
			h.aborted = true
		}
	}
	h.emit(fmt.Sprintf("sub %d %d %d %s %d %d", k, t, c, vfE2B(eph), cn.mtNs, sample), vfE2Fmt(code, fatal))
	h.count("op:sub")
	h.after(tp)
	return k
}

// a connection went away (closed by us or by a fatal error): bookkeeping shared by both
func (h *vfE2H) gone(cn *vfE2Conn) {
	cn.dead = true
	if !cn.subbed {
		return
	}
	tp := h.topics[cn.t]
	ch := h.chanOf(cn)
	if ch == nil {
		return
	}
	if ch.eph {
		live := 0
		for _, o := range h.conns {
			if o != cn && o.subbed && !o.dead && o.t == cn.t && o.c == cn.c {
				live++
			}
		}
		if live == 0 {
			delete(tp.chans, cn.c) // the ephemeral channel deletes itself
		}
	}
}

func (h *vfE2H) doDisc(k int) {
	cn := h.conns[k]
	if cn == nil || cn.dead {
		return
	}
	cn.nc.Close()
	h.gone(cn)
	h.emit(fmt.Sprintf("disc %d", k), "ok")
	h.count("op:disc")
	h.after(h.topics[cn.t])
}

func (h *vfE2H) doRdy(k int, s string) {
	cn := h.conns[k]
	if cn == nil || cn.dead {
		return
	}
	line := "RDY " + s
	if s == "" {
		line = "RDY"
	}
	code, fatal := h.connCmd(cn, line, nil, false)
	if code == "ok" && !cn.closing {
		if s == "" {
			cn.rdy = 1
		} else {
			v, _ := strconv.ParseInt(s, 10, 64)
			cn.rdy = v
		}
	}
	if fatal {
		h.gone(cn)
	}
	// direct oracle C03.4: accepted iff 0 <= v <= max-rdy-count
	if !cn.closing || fatal {
		valid := false
		if s == "" {
			valid = h.cfg.maxrdy >= 1
		} else if v, err := strconv.ParseUint(s, 10, 64); err == nil && isDigits(s) {
			valid = v <= uint64(h.cfg.maxrdy)
		}
		if valid != (code == "ok") {
			h.fail("rdy-range", "RDY %q (max %d) answered %s", s, h.cfg.maxrdy, vfE2Fmt(code, fatal))
		}
		if !valid && !(code == "E_INVALID" && fatal) {
			h.fail("rdy-range", "RDY %q out of range answered %s, expected fatal E_INVALID", s, vfE2Fmt(code, fatal))
		}
	}
	arg := s
	if s == "" {
		arg = "1"
	}
	h.emit(fmt.Sprintf("rdy %d %s", k, arg), vfE2Fmt(code, fatal))
	h.count("op:rdy:" + vfE2Fmt(code, fatal))
	h.after(h.topics[cn.t])
}

func isDigits(s string) bool {
	for _, c := range s {
		if c < '0' || c > '9' {
			return false
		}
	}
	return s != ""
}

func (h *vfE2H) doCls(k int) {
	cn := h.conns[k]
	if cn == nil || cn.dead {
		return
	}
	code, fatal := h.connCmd(cn, "CLS", nil, true)
	if code == "CLOSE_WAIT" {
		cn.closing = true
		cn.rdy = 0
	}
	if fatal {
		h.gone(cn)
	}
	h.emit(fmt.Sprintf("cls %d", k), vfE2Fmt(code, fatal))
	h.count("op:cls")
	h.after(h.topics[cn.t])
}

func (h *vfE2H) acked(tp *vfE2Topic, seq, size int, deferred bool) {
	h.topicOf[seq] = tp.t
	if br, ok := h.pubT[seq]; ok {
		h.pubT[seq] = [2]int64{br[0], time.Now().UnixNano()}
	}
	tp.pending = append(tp.pending, seq)
	tp.acked = append(tp.acked, seq)
	tp.ackedB += uint64(size)
	if deferred {
		tp.dpubs[seq] = true
	}
}

func (h *vfE2H) doPub(t, size int, viaHTTP bool) {
	tp := h.topic(t)
	seq := h.nextSeq
	h.nextSeq++
	h.sizes[seq] = size
	h.pubT[seq] = [2]int64{time.Now().UnixNano(), 0}
	body := vfE2Body(seq, size)
	ok := false
	if viaHTTP {
		code, _ := h.httpPost("/pub?topic="+tp.name, body)
		ok = code == 200
	} else {
		var sz [4]byte
		binary.BigEndian.PutUint32(sz[:], uint32(len(body)))
		code, _ := h.connCmd(h.pubc, "PUB "+tp.name, append(sz[:], body...), true)
		ok = code == "OK"
	}
	if !ok {
		h.fail("pub", "publish of %d bytes to %s was refused", size, tp.name)
		h.aborted = true
		return
	}
	h.acked(tp, seq, size, false)
	h.emit(fmt.Sprintf("pub %d %d @T%d %d", t, size, seq, vfE2Crc(body)), fmt.Sprintf("ids %d", seq))
	h.count("op:pub")
	h.after(tp)
}

func (h *vfE2H) doDpub(t, size int, delay int64, viaHTTP bool) {
	tp := h.topic(t)
	seq := h.nextSeq
	h.nextSeq++
	h.sizes[seq] = size
	h.pubT[seq] = [2]int64{time.Now().UnixNano(), 0}
	body := vfE2Body(seq, size)
	ok := false
	if viaHTTP {
		code, _ := h.httpPost(fmt.Sprintf("/pub?topic=%s&defer=%d", tp.name, delay), body)
		ok = code == 200
	} else {
		var sz [4]byte
		binary.BigEndian.PutUint32(sz[:], uint32(len(body)))
		code, _ := h.connCmd(h.pubc, fmt.Sprintf("DPUB %s %d", tp.name, delay), append(sz[:], body...), true)
		ok = code == "OK"
	}
	if !ok {
		h.fail("pub", "deferred publish to %s was refused", tp.name)
		h.aborted = true
		return
	}
	h.acked(tp, seq, size, delay > 0)
	h.emit(fmt.Sprintf("dpub %d %d %d @T%d %d", t, size, delay, seq, vfE2Crc(body)), fmt.Sprintf("ids %d", seq))
	h.count("op:dpub")
	h.after(tp)
}

func (h *vfE2H) doMpub(t int, sizes []int, viaHTTP bool) {
	tp := h.topic(t)
	var body bytes.Buffer
	var n4 [4]byte
	binary.BigEndian.PutUint32(n4[:], uint32(len(sizes)))
	body.Write(n4[:])
	first := h.nextSeq
	var ss, ids, tss, crcs []string
	for _, sz := range sizes {
		seq := h.nextSeq
		h.nextSeq++
		h.sizes[seq] = sz
		h.pubT[seq] = [2]int64{time.Now().UnixNano(), 0}
		b := vfE2Body(seq, sz)
		binary.BigEndian.PutUint32(n4[:], uint32(len(b)))
		body.Write(n4[:])
		body.Write(b)
		ss = append(ss, strconv.Itoa(sz))
		ids = append(ids, strconv.Itoa(seq))
		tss = append(tss, fmt.Sprintf("@T%d", seq))
		crcs = append(crcs, fmt.Sprint(vfE2Crc(b)))
	}
	ok := false
	if viaHTTP {
		code, _ := h.httpPost("/mpub?binary=true&topic="+tp.name, body.Bytes())
		ok = code == 200
	} else {
		var sz [4]byte
		binary.BigEndian.PutUint32(sz[:], uint32(body.Len()))
		code, _ := h.connCmd(h.pubc, "MPUB "+tp.name, append(sz[:], body.Bytes()...), true)
		ok = code == "OK"
	}
	if !ok {
		h.fail("pub", "MPUB of %d messages to %s was refused", len(sizes), tp.name)
		h.aborted = true
		return
	}
	for i, sz := range sizes {
		h.acked(tp, first+i, sz, false)
	}
	h.emit(fmt.Sprintf("mpub %d %s %s %s", t, strings.Join(ss, ","), strings.Join(tss, ","), strings.Join(crcs, ",")), "ids "+strings.Join(ids, " "))
	h.count("op:mpub")
	h.after(tp)
}

// vfE2FailBQ: a backend queue whose n-th write from now fails (injected disk error)
type vfE2FailBQ struct {
	BackendQueue
	left int32
}

func (b *vfE2FailBQ) Put(d []byte) error {
	if atomic.AddInt32(&b.left, -1) < 0 {
		return fmt.Errorf("verif: injected write error")
	}
	return b.BackendQueue.Put(d)
}

// doMpubFail: MPUB of len(sizes) messages on a topic without memory queue whose (j+1)-th backend
// write fails: the j messages before it stay enqueued and are counted (C13.2 prefix case), the
// publish is answered E_MPUB_FAILED (fatal) and nothing is acknowledged.
func (h *vfE2H) doMpubFail(t int, sizes []int, j int) {
	tp := h.topic(t)
	rt := h.n.GetTopic(tp.name)
	if h.cfg.memq != 0 || j >= len(sizes) {
		return
	}
	rt.Lock()
	orig := rt.backend
	rt.backend = &vfE2FailBQ{BackendQueue: orig, left: int32(j)}
	rt.Unlock()
	var body bytes.Buffer
	var n4 [4]byte
	binary.BigEndian.PutUint32(n4[:], uint32(len(sizes)))
	body.Write(n4[:])
	first := h.nextSeq
	var ss, tss, crcs []string
	for _, sz := range sizes {
		seq := h.nextSeq
		h.nextSeq++
		h.sizes[seq] = sz
		h.pubT[seq] = [2]int64{time.Now().UnixNano(), 0}
		b := vfE2Body(seq, sz)
		binary.BigEndian.PutUint32(n4[:], uint32(len(b)))
		body.Write(n4[:])
		body.Write(b)
		ss = append(ss, strconv.Itoa(sz))
		tss = append(tss, fmt.Sprintf("@T%d", seq))
		crcs = append(crcs, fmt.Sprint(vfE2Crc(b)))
	}
	var sz [4]byte
	binary.BigEndian.PutUint32(sz[:], uint32(body.Len()))
	code, fatal := h.connCmd(h.pubc, "MPUB "+tp.name, append(sz[:], body.Bytes()...), true)
	rt.Lock()
	rt.backend = orig
	rt.Unlock()
	h.n.SetHealth(nil)
	if code != "E_MPUB_FAILED" || !fatal {
		h.fail("mpubfail", "MPUB with an injected write error answered %s", vfE2Fmt(code, fatal))
	}
	h.pubc.nc.Close()
	h.pubc = h.dial(0)
	for i := 0; i < j; i++ {
		seq := first + i
		h.topicOf[seq] = tp.t
		h.pubT[seq] = [2]int64{h.pubT[seq][0], time.Now().UnixNano()}
		tp.pending = append(tp.pending, seq)
		tp.unackedN++
		tp.unackedB += uint64(sizes[i])
	}
	h.emit(fmt.Sprintf("mpubfail %d %s %d %s %s", t, strings.Join(ss, ","), j, strings.Join(tss, ","), strings.Join(crcs, ",")), vfE2Fmt(code, fatal))
	h.count("op:mpubfail")
	h.after(tp)
}

// message id token: a sequence number, or f<N> for an id that was never issued
// (message ids are unique per topic only - two topics can issue the same GUID - so an id of
// another topic's message is replaced by a fabricated one to keep "foreign" meaning foreign)
func (h *vfE2H) idOf(tok string, t int) (int, []byte) {
	if strings.HasPrefix(tok, "f") {
		n, _ := strconv.Atoi(tok[1:])
		return 900000000 + n, []byte(fmt.Sprintf("%016x", 0xdead00000000+n))
	}
	seq, _ := strconv.Atoi(tok)
	if id, ok := h.ids[seq]; ok && h.topicOf[seq] == t {
		return seq, id[:]
	}
	return seq, []byte(fmt.Sprintf("%016x", 0xbeef00000000+seq))
}

// answer bookkeeping shared by FIN and REQ
func (h *vfE2H) answered(cn *vfE2Conn, ch *vfE2Chan, seq int, ok bool, what string) {
	if ch == nil {
		return
	}
	holds := ch.holder[seq] == cn.k && func() bool { _, x := ch.holder[seq]; return x }()
	if ok != holds {
		h.fail("ownership", "%s of message %d by k%d answered ok=%v but the harness ledger says holds=%v", what, seq, cn.k, ok, holds)
	}
	if ok {
		delete(ch.holder, seq)
		cn.out--
		if what == "FIN" {
			cn.nFin++
		} else {
			cn.nReq++
			ch.nReq++
		}
	}
}

func (h *vfE2H) doFin(k int, tok string) {
	cn := h.conns[k]
	if cn == nil || cn.dead {
		return
	}
	seq, id := h.idOf(tok, cn.t)
	ch := h.chanOf(cn)
	var before string
	if ch != nil {
		before = h.dumpLine(ch)
	}
	code, fatal := h.connCmd(cn, "FIN "+string(id), nil, false)
	if cn.subbed {
		h.answered(cn, ch, seq, code == "ok", "FIN")
		if code == "ok" {
			ch.finished[seq] = true
			delete(ch.located, seq)
		} else if code != "E_FIN_FAILED" || fatal {
			h.fail("errcode", "FIN of a message k%d does not hold answered %s", k, vfE2Fmt(code, fatal))
		} else if ch != nil && h.dumpLine(ch) != before {
			h.fail("noop", "failed FIN by k%d changed the channel state", k)
		}
	}
	if fatal {
		h.gone(cn)
	}
	h.emit(fmt.Sprintf("fin %d %d", k, seq), vfE2Fmt(code, fatal))
	h.count("op:fin:" + vfE2Fmt(code, fatal))
	h.after(h.topics[cn.t])
}

func (h *vfE2H) doReq(k int, tok string, delay uint64) {
	cn := h.conns[k]
	if cn == nil || cn.dead {
		return
	}
	seq, id := h.idOf(tok, cn.t)
	ch := h.chanOf(cn)
	var before string
	if ch != nil {
		before = h.dumpLine(ch)
	}
	code, fatal := h.connCmd(cn, fmt.Sprintf("REQ %s %d", id, delay), nil, false)
	now := int64(0)
	if cn.subbed {
		h.answered(cn, ch, seq, code == "ok", "REQ")
		if code == "ok" {
			d := delay
			if d > uint64(h.cfg.maxreq) {
				d = uint64(h.cfg.maxreq)
			}
			if d > 0 {
				if rc := h.realChan(ch); rc != nil {
					found := false
					for _, e := range h.deferredOf(rc) {
						if e.seq == seq {
							now = e.pri - int64(d)*1000000
							found = true
						}
					}
					if !found {
						h.fail("req-defer", "REQ %d ms of message %d: not in the deferred map afterwards", delay, seq)
					}
				}
			}
		} else if code != "E_REQ_FAILED" || fatal {
			h.fail("errcode", "REQ of a message k%d does not hold answered %s", k, vfE2Fmt(code, fatal))
		} else if ch != nil && h.dumpLine(ch) != before {
			h.fail("noop", "failed REQ by k%d changed the channel state", k)
		}
	}
	if fatal {
		h.gone(cn)
	}
	h.emit(fmt.Sprintf("req %d %d %d %d", k, seq, delay, now), vfE2Fmt(code, fatal))
	h.count("op:req:" + vfE2Fmt(code, fatal))
	h.after(h.topics[cn.t])
}

func (h *vfE2H) doTouch(k int, tok string) {
	cn := h.conns[k]
	if cn == nil || cn.dead {
		return
	}
	seq, id := h.idOf(tok, cn.t)
	ch := h.chanOf(cn)
	var before string
	if ch != nil {
		before = h.dumpLine(ch)
	}
	code, fatal := h.connCmd(cn, "TOUCH "+string(id), nil, false)
	now := int64(0)
	if cn.subbed && ch != nil {
		holds := ch.holder[seq] == cn.k && func() bool { _, x := ch.holder[seq]; return x }()
		if (code == "ok") != holds {
			h.fail("ownership", "TOUCH of message %d by k%d answered %s, harness ledger holds=%v", seq, k, code, holds)
		}
		if code == "ok" {
			if rc := h.realChan(ch); rc != nil {
				for _, e := range h.inflightOf(rc) {
					if e.seq == seq {
						if e.pri == e.dts+h.cfg.maxmtMs*1000000 {
							now = time.Now().UnixNano()
						} else {
							now = e.pri - cn.mtNs
						}
					}
				}
			}
		} else if code != "E_TOUCH_FAILED" || fatal {
			h.fail("errcode", "TOUCH of a message k%d does not hold answered %s", k, vfE2Fmt(code, fatal))
		} else if h.dumpLine(ch) != before {
			h.fail("noop", "failed TOUCH by k%d changed the channel state", k)
		}
	}
	if fatal {
		h.gone(cn)
	}
	h.emit(fmt.Sprintf("touch %d %d %d", k, seq, now), vfE2Fmt(code, fatal))
	h.count("op:touch:" + vfE2Fmt(code, fatal))
	h.after(h.topics[cn.t])
}

// time spec: max | now | pri:<seq>:<off>
func (h *vfE2H) timeOf(rc *Channel, inflight bool, spec string) int64 {
	switch {
	case spec == "max":
		return math.MaxInt64 / 4
	case strings.HasPrefix(spec, "pri:"):
		p := strings.Split(spec, ":")
		seq, _ := strconv.Atoi(p[1])
		off, _ := strconv.ParseInt(p[2], 10, 64)
		if inflight {
			for _, e := range h.inflightOf(rc) {
				if e.seq == seq {
					return e.pri + off
				}
			}
		} else {
			for _, e := range h.deferredOf(rc) {
				if e.seq == seq {
					return e.pri + off
				}
			}
		}
	}
	return time.Now().UnixNano()
}

func (h *vfE2H) doScan(inflight bool, t, c int, spec string) {
	tp := h.topics[t]
	if tp == nil || tp.chans[c] == nil {
		return
	}
	ch := tp.chans[c]
	rc := h.realChan(ch)
	if rc == nil {
		return
	}
	tm := h.timeOf(rc, inflight, spec)
	if inflight && tm > time.Now().UnixNano()+400*1000000 {
		// a scan time in the future could time a message out, see it redelivered and time it
		// out again within one call (its new deadline may still be <= t): not a behaviour of
		// the running daemon (which scans at "now"), so no consumer is left ready meanwhile
		h.park([]*vfE2Chan{ch}, true)
		rc = h.realChan(ch)
		if rc == nil {
			return
		}
	}
	var ids []string
	if inflight {
		before := h.inflightOf(rc)
		to0 := atomic.LoadUint64(&rc.timeoutCount)
		rc.processInFlightQueue(tm)
		to1 := atomic.LoadUint64(&rc.timeoutCount)
		// an entry timed out iff it is gone or was registered anew (redelivered) since
		left := map[int]int64{}
		for _, e := range h.inflightOf(rc) {
			left[e.seq] = e.dts
		}
		for _, e := range before {
			if dts, ok := left[e.seq]; !ok || dts != e.dts {
				ids = append(ids, strconv.Itoa(e.seq))
				if e.pri > tm {
					h.fail("early-timeout", "message %d timed out at t=%d before its deadline %d", e.seq, tm, e.pri)
				}
				delete(ch.holder, e.seq)
				ch.nTimeout++
				if cn := h.conns[e.conn]; cn != nil {
					cn.out--
				}
			} else if e.pri <= tm {
				h.fail("missed-timeout", "message %d (deadline %d) survived a scan at t=%d", e.seq, e.pri, tm)
			}
		}
		if int(to1-to0) != len(ids) {
			h.fail("timeout-count", "scan timed out %d messages but timeout_count moved by %d", len(ids), to1-to0)
		}
		h.emit(fmt.Sprintf("scanif %d %d %d", t, c, tm), strings.TrimSpace("ids "+strings.Join(ids, " ")))
		h.count("op:scanif")
	} else {
		before := h.deferredOf(rc)
		rc.processDeferredQueue(tm)
		left := map[int]int64{}
		for _, e := range h.deferredOf(rc) {
			left[e.seq] = e.pri
		}
		for _, e := range before {
			if p, ok := left[e.seq]; !ok || p != e.pri {
				ids = append(ids, strconv.Itoa(e.seq))
				if e.pri > tm {
					h.fail("early-defer", "deferred message %d released at t=%d before %d", e.seq, tm, e.pri)
				}
			} else if e.pri <= tm {
				h.fail("missed-defer", "deferred message %d (due %d) survived a scan at t=%d", e.seq, e.pri, tm)
			}
		}
		h.emit(fmt.Sprintf("scandf %d %d %d", t, c, tm), strings.TrimSpace("ids "+strings.Join(ids, " ")))
		h.count("op:scandf")
	}
	h.after(tp)
}

func (h *vfE2H) doPauseChan(t, c int, pause bool) {
	tp := h.topics[t]
	if tp == nil || tp.chans[c] == nil {
		return
	}
	ch := tp.chans[c]
	path := "/channel/pause"
	if !pause {
		path = "/channel/unpause"
	}
	code, _ := h.httpPost(fmt.Sprintf("%s?topic=%s&channel=%s", path, tp.name, strings.ReplaceAll(ch.name, "#", "%23")), nil)
	if code != 200 {
		h.fail("pause-http", "%s answered %d", path, code)
	}
	ch.paused = pause
	if pause {
		h.emit(fmt.Sprintf("pausec %d %d", t, c), "ok")
	} else {
		h.emit(fmt.Sprintf("unpausec %d %d", t, c), "ok")
	}
	h.count("op:pausec")
	h.after(tp)
}

func (h *vfE2H) doPauseTopic(t int, pause bool) {
	tp := h.topics[t]
	if tp == nil {
		return
	}
	path := "/topic/pause"
	if !pause {
		path = "/topic/unpause"
		h.parkEphemeral(tp.sortedChans()) // the backlog is about to be fanned out
	}
	code, _ := h.httpPost(fmt.Sprintf("%s?topic=%s", path, tp.name), nil)
	if code != 200 {
		h.fail("pause-http", "%s answered %d", path, code)
	}
	tp.paused = pause
	if pause {
		h.emit(fmt.Sprintf("pauset %d", t), "ok")
	} else {
		h.emit(fmt.Sprintf("unpauset %d", t), "ok")
	}
	h.count("op:pauset")
	h.after(tp)
}

func (h *vfE2H) doEmpty(t, c int) {
	tp := h.topics[t]
	if tp == nil || tp.chans[c] == nil {
		return
	}
	ch := tp.chans[c]
	// Channel.Empty zeroes the clients' in-flight counters before it drains the queue: a
	// consumer that becomes ready through that can receive a queued message in the middle of
	// the Empty (the message then survives it). Serial runs keep Empty atomic: no consumer
	// has RDY > 0 meanwhile. (The race itself is C08 territory; the concurrent leg meets it.)
	h.park([]*vfE2Chan{ch}, true)
	rc := h.realChan(ch)
	if rc == nil {
		return
	}
	rc.inFlightMutex.Lock()
	ni := len(rc.inFlightMessages)
	rc.inFlightMutex.Unlock()
	rc.deferredMutex.Lock()
	nd := len(rc.deferredMessages)
	rc.deferredMutex.Unlock()
	n := int(rc.Depth()) + ni + nd
	code, _ := h.httpPost(fmt.Sprintf("/channel/empty?topic=%s&channel=%s", tp.name, strings.ReplaceAll(ch.name, "#", "%23")), nil)
	if code != 200 {
		h.fail("empty-http", "/channel/empty answered %d", code)
	}
	for seq := range ch.located {
		ch.emptied[seq] = true
	}
	ch.nEmptied += n
	ch.located = map[int]bool{}
	ch.holder = map[int]int{}
	for _, cn := range h.conns {
		if cn.subbed && cn.t == t && cn.c == c {
			cn.out = 0
		}
	}
	h.emit(fmt.Sprintf("empty %d %d", t, c), fmt.Sprintf("emptied %d", n))
	h.count("op:empty")
	h.after(tp)
}

// ---------------------------------------------------------------- interpreter

func (h *vfE2H) exec(line string) {
	if h.aborted {
		return
	}
	if h.depth == 0 {
		h.cmd(line)
	}
	h.depth++
	defer func() { h.depth-- }()
	w := strings.Fields(line)
	if len(w) == 0 {
		return
	}
	ai := func(i int) int {
		if i >= len(w) {
			return 0
		}
		v, _ := strconv.Atoi(w[i])
		return v
	}
	switch w[0] {
	case "topic":
		h.doTopic(ai(1))
	case "chan":
		h.doChan(ai(1), ai(2), len(w) > 3 && w[3] == "eph")
	case "sub": // sub T C eph|dur mtMs sample buf
		h.doSub(ai(1), ai(2), len(w) > 3 && w[3] == "eph", int64(ai(4)), ai(5), ai(6))
	case "disc":
		h.doDisc(ai(1))
	case "rdy":
		s := ""
		if len(w) > 2 {
			s = w[2]
		}
		h.doRdy(ai(1), s)
	case "cls":
		h.doCls(ai(1))
	case "pub":
		h.doPub(ai(1), ai(2), len(w) > 3 && w[3] == "http")
	case "dpub":
		h.doDpub(ai(1), ai(2), int64(ai(3)), len(w) > 4 && w[4] == "http")
	case "mpub":
		var sizes []int
		for _, s := range strings.Split(w[2], ",") {
			v, _ := strconv.Atoi(s)
			sizes = append(sizes, v)
		}
		h.doMpub(ai(1), sizes, len(w) > 3 && w[3] == "http")
	case "mpubfail":
		var sizes []int
		for _, s := range strings.Split(w[2], ",") {
			v, _ := strconv.Atoi(s)
			sizes = append(sizes, v)
		}
		h.doMpubFail(ai(1), sizes, ai(3))
	case "fin":
		h.doFin(ai(1), w[2])
	case "req":
		d, _ := strconv.ParseUint(w[3], 10, 64)
		h.doReq(ai(1), w[2], d)
	case "touch":
		h.doTouch(ai(1), w[2])
	case "scanif":
		h.doScan(true, ai(1), ai(2), w[3])
	case "scandf":
		h.doScan(false, ai(1), ai(2), w[3])
	case "pausec":
		h.doPauseChan(ai(1), ai(2), true)
	case "unpausec":
		h.doPauseChan(ai(1), ai(2), false)
	case "pauset":
		h.doPauseTopic(ai(1), true)
	case "unpauset":
		h.doPauseTopic(ai(1), false)
	case "empty":
		h.doEmpty(ai(1), ai(2))
	case "stats":
		h.statsCheck()
	case "drain":
		h.drain()
	case "f8":
		h.doF8(ai(1), w[2])
	case "f8req": // f8req K seq — the REQ | Empty | RequeuedMessage window (hook proto.req.beforeClientCount)
		h.doF8Mode(ai(1), w[2], "req")
	case "overshoot":
		h.doOvershoot(ai(1))
	case "lateanswer": // lateanswer A B seq fin|req|touch
		h.doLateAnswer(ai(1), ai(2), w[3], w[4])
	case "finscan": // finscan K seq
		h.doFinScan(ai(1), w[2])
	case "busysub": // busysub T Cnew
		h.doBusySub(ai(1), ai(2))
	case "stall": // stall T C n size
		h.doStall(ai(1), ai(2), ai(3), ai(4))
	case "slowpause": // slowpause T C nfake
		h.doSlowPause(ai(1), ai(2), ai(3))
	case "attwrap": // attwrap n   (F11, thorough tier)
		h.doAttWrap(ai(1))
	case "scanloop": // private NSQD, real queueScanLoop
		h.doScanLoop()
	case "pausedrestart": // private NSQD, restart with a topic persisted as paused
		h.doPausedRestart()
	case "busypause": // private NSQD, topic paused while its pump is mid-backlog (seeded C03-m7)
		h.doBusyPause()
	case "ephtopic": // private NSQDs, #ephemeral topic next to a durable one, memory queue full (audit A5)
		h.doEphTopic()
	}
}

// ---------------------------------------------------------------- final drain + ledger oracle

func (h *vfE2H) drain() {
	if h.aborted {
		return
	}
	for _, tp := range h.sortedTopics() {
		if tp.paused {
			h.exec(fmt.Sprintf("unpauset %d", tp.t))
		}
		if len(tp.chans) == 0 {
			continue
		}
		for _, ch := range tp.sortedChans() {
			if h.aborted {
				return
			}
			if ch.paused {
				h.exec(fmt.Sprintf("unpausec %d %d", tp.t, ch.c))
			}
			kind := "dur"
			if ch.eph {
				kind = "eph"
			}
			drainer := h.nextK
			h.exec(fmt.Sprintf("sub %d %d %s 0 0 0", tp.t, ch.c, kind))
			for _, cn := range h.sortedConns() {
				if cn.k != drainer && cn.subbed && !cn.dead && cn.t == tp.t && cn.c == ch.c {
					h.exec(fmt.Sprintf("disc %d", cn.k))
				}
			}
			h.exec(fmt.Sprintf("rdy %d %d", drainer, h.cfg.maxrdy))
			for round := 0; round < 400 && !h.aborted; round++ {
				dc := h.conns[drainer]
				mine := h.heldBy(dc)
				for _, seq := range mine {
					h.exec(fmt.Sprintf("fin %d %d", drainer, seq))
				}
				rc := h.realChan(ch)
				if rc == nil || dc.dead {
					break
				}
				rc.inFlightMutex.Lock()
				ni := len(rc.inFlightMessages)
				rc.inFlightMutex.Unlock()
				rc.deferredMutex.Lock()
				nd := len(rc.deferredMessages)
				rc.deferredMutex.Unlock()
				if rc.Depth() == 0 && ni == 0 && nd == 0 {
					break
				}
				if len(mine) > 0 {
					continue
				}
				if nd > 0 {
					h.parkEphemeral([]*vfE2Chan{ch})
					h.exec(fmt.Sprintf("scandf %d %d max", tp.t, ch.c))
				}
				if ni > 0 {
					h.exec(fmt.Sprintf("scanif %d %d max", tp.t, ch.c))
				}
				if h.conns[drainer].rdy == 0 {
					h.exec(fmt.Sprintf("rdy %d %d", drainer, h.cfg.maxrdy))
				}
			}
			// the ledger: every acknowledged publish that this channel was entitled to has been
			// finished, explicitly emptied, or deliberately dropped (sampling / ephemeral overflow)
			if ch.exact {
				for seq := range ch.fanned {
					if !ch.finished[seq] && !ch.emptied[seq] && !ch.sampled[seq] {
						h.fail("lost", "message %d was acknowledged and fanned out to %s/%s but never finished, emptied or sampled out", seq, tp.name, ch.name)
					}
				}
				if len(ch.located) != 0 {
					h.fail("lost", "channel %s/%s drained but the ledger still locates %d messages", tp.name, ch.name, len(ch.located))
				}
			}
			for seq := range ch.finished {
				if !ch.fanned[seq] {
					h.fail("phantom", "message %d finished on %s/%s without having been published to it", seq, tp.name, ch.name)
				}
			}
			if rc := h.realChan(ch); rc != nil {
				// C13.1 on the implementation's own numbers
				mc := atomic.LoadUint64(&rc.messageCount)
				if ch.exact && mc != uint64(len(ch.finished)+ch.nEmptied+len(ch.sampled)) {
					h.fail("conservation", "%s/%s: message_count %d != finished %d + emptied %d + sampled %d after the drain",
						tp.name, ch.name, mc, len(ch.finished), ch.nEmptied, len(ch.sampled))
				}
			}
		}
	}
	h.statsCheck()
	if !h.micro {
		h.emit("inv", "inv ok")
	}
}

// ---------------------------------------------------------------- generators

func (h *vfE2H) liveSubs() []*vfE2Conn {
	var out []*vfE2Conn
	for _, cn := range h.sortedConns() {
		if cn.subbed && !cn.dead {
			out = append(out, cn)
		}
	}
	return out
}

func (h *vfE2H) heldBy(cn *vfE2Conn) []int {
	ch := h.chanOf(cn)
	var out []int
	if ch == nil {
		return nil
	}
	for seq, k := range ch.holder {
		if k == cn.k {
			out = append(out, seq)
		}
	}
	sort.Ints(out)
	return out
}

// before an operation that enqueues on a small ephemeral queue: park its ready consumers, so
// that which message overflows is decided by the operation and not by the scheduler
func (h *vfE2H) parkEphemeral(chs []*vfE2Chan) {
	if h.cfg.memq >= 1000 {
		return
	}
	h.park(chs, false)
}

// park: RDY 0 for every ready consumer of the given channels (all of them, or only the
// ephemeral ones)
func (h *vfE2H) park(chs []*vfE2Chan, all bool) {
	for _, ch := range chs {
		if !ch.eph && !all {
			continue
		}
		for _, cn := range h.liveSubs() {
			if cn.t == ch.t && cn.c == ch.c && cn.cl != nil && atomic.LoadInt64(&cn.cl.ReadyCount) > 0 {
				h.exec(fmt.Sprintf("rdy %d 0", cn.k))
			}
		}
	}
}

func (h *vfE2H) size() int {
	// bodies at and just below --max-msg-size: the disk record is 26 bytes longer than the body, and
	// every queue that may hold the message (topic and channel backends) must take it
	if m := int(h.cfg.maxmsg); m > 0 && h.r.Intn(4) == 0 {
		return m - []int{0, 1, 25, 26, 27}[h.r.Intn(5)]
	}
	switch h.r.Intn(6) {
	case 0:
		return 10
	case 1:
		return 200 + h.r.Intn(400)
	default:
		return 10 + h.r.Intn(60)
	}
}

func (h *vfE2H) genOp(malformed bool) {
	r := h.r
	tps := h.sortedTopics()
	if len(tps) == 0 {
		h.exec("topic 1")
		return
	}
	tp := tps[r.Intn(len(tps))]
	subs := h.liveSubs()
	pick := r.Intn(1000)
	if malformed && r.Intn(3) == 0 && len(subs) > 0 {
		h.genMalformed(subs)
		return
	}
	switch {
	case pick < 170:
		h.parkEphemeral(tp.sortedChans())
		via := ""
		if r.Intn(3) == 0 {
			via = " http"
		}
		h.exec(fmt.Sprintf("pub %d %d%s", tp.t, h.size(), via))
	case pick < 215 && h.cfg.memq == 0 && r.Intn(5) == 0:
		n := 2 + r.Intn(4)
		var ss []string
		for i := 0; i < n; i++ {
			ss = append(ss, strconv.Itoa(h.size()))
		}
		h.exec(fmt.Sprintf("mpubfail %d %s %d", tp.t, strings.Join(ss, ","), r.Intn(n)))
	case pick < 215:
		h.parkEphemeral(tp.sortedChans())
		n := 2 + r.Intn(4)
		var ss []string
		for i := 0; i < n; i++ {
			ss = append(ss, strconv.Itoa(h.size()))
		}
		via := ""
		if r.Intn(3) == 0 {
			via = " http"
		}
		h.exec(fmt.Sprintf("mpub %d %s%s", tp.t, strings.Join(ss, ","), via))
	case pick < 260:
		h.parkEphemeral(tp.sortedChans())
		ds := []int64{0, 1, 5, 50, 1000, h.cfg.maxreq}
		via := ""
		if r.Intn(3) == 0 {
			via = " http"
		}
		h.exec(fmt.Sprintf("dpub %d %d %d%s", tp.t, h.size(), ds[r.Intn(len(ds))], via))
	case pick < 420 && len(subs) > 0:
		cn := subs[r.Intn(len(subs))]
		var v string
		if cn.sample > 0 {
			v = []string{"0", strconv.FormatInt(h.cfg.maxrdy, 10)}[r.Intn(2)]
		} else {
			switch r.Intn(12) {
			case 0:
				v = "0"
			case 1, 2, 3:
				v = "1"
			case 4, 5:
				v = "2"
			case 6:
				v = strconv.FormatInt(h.cfg.maxrdy, 10)
			case 7:
				v = ""
			case 8:
				if r.Intn(6) == 0 {
					v = []string{strconv.FormatInt(h.cfg.maxrdy+1, 10), "9223372036854775808", "18446744073709551621", "-1", "1x", "99999999999999999999999"}[r.Intn(6)]
				} else {
					v = "1"
				}
			default:
				v = strconv.FormatInt(int64(r.Intn(int(h.cfg.maxrdy)+1)), 10)
				if h.cfg.maxrdy > 20 {
					v = strconv.Itoa(r.Intn(8))
				}
			}
		}
		h.exec(strings.TrimSpace(fmt.Sprintf("rdy %d %s", cn.k, v)))
	case pick < 600 && len(subs) > 0:
		cn := subs[r.Intn(len(subs))]
		held := h.heldBy(cn)
		if len(held) == 0 {
			return
		}
		h.exec(fmt.Sprintf("fin %d %d", cn.k, held[r.Intn(len(held))]))
	case pick < 615 && len(subs) > 0:
		// requeue chain: the same message is requeued immediately several times by whoever holds it
		cn := h.pickHolder(subs)
		held := h.heldBy(cn)
		ch := h.chanOf(cn)
		if len(held) == 0 || ch == nil {
			return
		}
		seq := held[r.Intn(len(held))]
		for i := 0; i < 2+r.Intn(5) && !h.aborted; i++ {
			k, ok := ch.holder[seq]
			if !ok {
				break
			}
			h.parkEphemeral([]*vfE2Chan{ch})
			if _, still := ch.holder[seq]; !still {
				break
			}
			h.exec(fmt.Sprintf("req %d %d 0", k, seq))
		}
		h.count("gen:requeue-chain")
	case pick < 690 && len(subs) > 0:
		cn := h.pickHolder(subs)
		held := h.heldBy(cn)
		if len(held) == 0 {
			return
		}
		if ch := h.chanOf(cn); ch != nil {
			h.parkEphemeral([]*vfE2Chan{ch})
		}
		ds := []int64{0, 0, 0, 1, 20, 1000, h.cfg.maxreq, h.cfg.maxreq + 1, 1 << 40}
		h.exec(fmt.Sprintf("req %d %d %d", cn.k, held[r.Intn(len(held))], ds[r.Intn(len(ds))]))
	case pick < 730 && len(subs) > 0:
		cn := h.pickHolder(subs)
		held := h.heldBy(cn)
		if len(held) == 0 {
			return
		}
		h.exec(fmt.Sprintf("touch %d %d", cn.k, held[r.Intn(len(held))]))
	case pick < 800:
		chs := tp.sortedChans()
		if len(chs) == 0 {
			return
		}
		ch := chs[r.Intn(len(chs))]
		h.parkEphemeral([]*vfE2Chan{ch})
		spec := "max"
		var inflight []int
		for seq := range ch.holder {
			inflight = append(inflight, seq)
		}
		sort.Ints(inflight)
		if len(inflight) > 0 && r.Intn(4) != 0 {
			seq := inflight[r.Intn(len(inflight))]
			spec = fmt.Sprintf("pri:%d:%d", seq, []int{-1, 0, 1, 1000}[r.Intn(4)])
		} else if r.Intn(3) == 0 {
			spec = "now"
		}
		h.exec(fmt.Sprintf("scanif %d %d %s", tp.t, ch.c, spec))
	case pick < 850:
		chs := tp.sortedChans()
		if len(chs) == 0 {
			return
		}
		ch := chs[r.Intn(len(chs))]
		h.parkEphemeral([]*vfE2Chan{ch})
		spec := "max"
		if rc := h.realChan(ch); rc != nil {
			if df := h.deferredOf(rc); len(df) > 0 && r.Intn(3) != 0 {
				spec = fmt.Sprintf("pri:%d:%d", df[r.Intn(len(df))].seq, []int{-1, 0, 1}[r.Intn(3)])
			}
		}
		if r.Intn(5) == 0 {
			spec = "now"
		}
		h.exec(fmt.Sprintf("scandf %d %d %s", tp.t, ch.c, spec))
	case pick < 885:
		chs := tp.sortedChans()
		if len(chs) == 0 {
			return
		}
		ch := chs[r.Intn(len(chs))]
		if ch.paused {
			h.exec(fmt.Sprintf("unpausec %d %d", tp.t, ch.c))
		} else {
			h.exec(fmt.Sprintf("pausec %d %d", tp.t, ch.c))
		}
	case pick < 915:
		if tp.paused {
			h.parkEphemeral(tp.sortedChans())
			h.exec(fmt.Sprintf("unpauset %d", tp.t))
		} else {
			h.exec(fmt.Sprintf("pauset %d", tp.t))
		}
	case pick < 927:
		chs := tp.sortedChans()
		if len(chs) == 0 {
			return
		}
		h.exec(fmt.Sprintf("empty %d %d", tp.t, chs[r.Intn(len(chs))].c))
	case pick < 957:
		h.genSub(tp)
	case pick < 980 && len(subs) > 0:
		h.exec(fmt.Sprintf("disc %d", subs[r.Intn(len(subs))].k))
	case pick < 990 && len(subs) > 0:
		h.exec(fmt.Sprintf("cls %d", subs[r.Intn(len(subs))].k))
	default:
		if len(tp.chans) < 3 {
			c := 1 + r.Intn(3)
			if tp.chans[c] == nil {
				if tp.paused == false && len(tp.pending) == 0 {
					h.parkEphemeral(tp.sortedChans())
				}
				h.exec(fmt.Sprintf("chan %d %d dur", tp.t, c))
			}
		}
	}
}

// pickHolder (audit A17, generator reach): REQ / TOUCH are only meaningful for a consumer that holds something —
// prefer one (a uniformly drawn consumer holds nothing most of the time and the op was skipped)
func (h *vfE2H) pickHolder(subs []*vfE2Conn) *vfE2Conn {
	var hs []*vfE2Conn
	for _, cn := range subs {
		if len(h.heldBy(cn)) > 0 {
			hs = append(hs, cn)
		}
	}
	if len(hs) == 0 {
		return subs[h.r.Intn(len(subs))]
	}
	h.count("gen:picked-holder")
	return hs[h.r.Intn(len(hs))]
}

func (h *vfE2H) genSub(tp *vfE2Topic) {
	r := h.r
	c := 1 + r.Intn(3)
	kind := "dur"
	if ch := tp.chans[c]; ch != nil {
		if ch.eph {
			kind = "eph"
		}
	} else if r.Intn(3) == 0 && !(h.cfg.memq == 0) {
		kind = "eph"
	}
	n := 0
	hasSampler := false
	for _, cn := range h.liveSubs() {
		if cn.t == tp.t && cn.c == c {
			n++
			if cn.sample > 0 {
				hasSampler = true
			}
		}
	}
	if n >= 3 {
		return
	}
	mt := int64(0)
	switch r.Intn(5) {
	case 0:
		mt = 1000
	case 1:
		mt = h.cfg.maxmtMs
	}
	sample := 0
	if kind == "dur" && !hasSampler && h.cfg.maxrdy >= 1000 && r.Intn(4) == 0 {
		// audit A17: more sampling consumers, biased to low rates (a message is dropped iff rand.Int31n(100) > rate)
		sample = []int{1, 10, 50, 90, 1 + r.Intn(99)}[r.Intn(5)]
	}
	if tp.chans[c] == nil && !tp.paused && len(tp.pending) == 0 {
		h.parkEphemeral(tp.sortedChans())
	}
	h.exec(fmt.Sprintf("sub %d %d %s %d %d %d", tp.t, c, kind, mt, sample, []int{0, 0, 1, 2}[r.Intn(4)]))
}

// the malformed stream: answers for ids the connection does not hold
func (h *vfE2H) genMalformed(subs []*vfE2Conn) {
	r := h.r
	cn := subs[r.Intn(len(subs))]
	ch := h.chanOf(cn)
	if ch == nil {
		return
	}
	var tok string
	switch r.Intn(5) {
	case 0: // never issued
		tok = fmt.Sprintf("f%d", r.Intn(1000))
	case 1: // already finished on this channel (duplicate / late answer)
		var fs []int
		for seq := range ch.finished {
			fs = append(fs, seq)
		}
		sort.Ints(fs)
		if len(fs) == 0 {
			tok = "f7"
		} else {
			tok = strconv.Itoa(fs[r.Intn(len(fs))])
		}
	case 2: // held by another connection
		var os []int
		for seq, k := range ch.holder {
			if k != cn.k {
				os = append(os, seq)
			}
		}
		sort.Ints(os)
		if len(os) == 0 {
			tok = "f8"
		} else {
			tok = strconv.Itoa(os[r.Intn(len(os))])
			h.count("malformed:wrong-connection")
		}
	case 3: // located but not in flight (queued / deferred / timed out already)
		var qs []int
		for seq := range ch.located {
			if _, held := ch.holder[seq]; !held {
				qs = append(qs, seq)
			}
		}
		sort.Ints(qs)
		if len(qs) == 0 {
			tok = "f9"
		} else {
			tok = strconv.Itoa(qs[r.Intn(len(qs))])
		}
	default: // a message of another channel
		tok = strconv.Itoa(1 + r.Intn(h.nextSeq))
	}
	switch r.Intn(3) {
	case 0:
		h.exec(fmt.Sprintf("fin %d %s", cn.k, tok))
	case 1:
		h.exec(fmt.Sprintf("req %d %s %d", cn.k, tok, []int{0, 10}[r.Intn(2)]))
	default:
		h.exec(fmt.Sprintf("touch %d %s", cn.k, tok))
	}
	h.count("malformed")
}

func (h *vfE2H) genCfg() vfE2Cfg {
	r := h.r
	cfg := vfE2Cfg{mtMs: 60000, maxmtMs: 900000, maxreq: 3600000, maxrdy: 2500}
	cfg.memq = []int{0, 1, 2, 10000, 10000, 3}[r.Intn(6)]
	cfg.maxfile = []int64{300, 1000, 4096, 1 << 20}[r.Intn(4)]
	switch r.Intn(4) {
	case 0:
		cfg.maxrdy = 3
	case 1:
		cfg.maxrdy = 10
	}
	if r.Intn(4) == 0 {
		cfg.maxmtMs = 60000 // = default msg timeout: the first TOUCH already hits the cap
	}
	if r.Intn(4) == 0 {
		cfg.maxreq = 2000
	}
	if r.Intn(2) == 0 {
		cfg.maxmsg = 600 // every generated size fits; boundary sizes are generated on purpose
	}
	return cfg
}

func (h *vfE2H) episode(nops int, malformed bool) {
	r := h.r
	h.start(h.genCfg())
	defer h.stop()
	nT := 1 + r.Intn(5)/2
	for t := 1; t <= nT; t++ {
		h.exec(fmt.Sprintf("topic %d", t))
		nC := r.Intn(4)
		for c := 1; c <= nC; c++ {
			if r.Intn(4) == 0 && h.cfg.memq != 0 {
				// an ephemeral channel exists only while it has a consumer
				h.exec(fmt.Sprintf("sub %d %d eph 0 0 0", t, c))
			} else {
				h.exec(fmt.Sprintf("chan %d %d dur", t, c))
				for i := r.Intn(4); i > 0; i-- {
					h.genSub(h.topics[t])
				}
			}
		}
	}
	for i := 0; i < nops && !h.aborted; i++ {
		h.genOp(malformed)
	}
	h.exec("drain")
}

func vfE2New(name string) *vfE2H {
	dir := os.Getenv("VERIF_OUT")
	if dir == "" {
		dir = os.TempDir()
	}
	f, err := os.Create(filepath.Join(dir, name+".cmds"))
	if err != nil {
		panic(err)
	}
	return &vfE2H{out: vfOpen(name), cmds: bufio.NewWriterSize(f, 1<<20), cmdsF: f, r: vfNewRand(202), hist: map[string]int{}}
}

func (h *vfE2H) close() {
	h.out.Close()
	h.cmds.Flush()
	h.cmdsF.Close()
	var ks []string
	for k := range h.hist {
		ks = append(ks, k)
	}
	sort.Strings(ks)
	for _, k := range ks {
		fmt.Printf("HIST %s %d\n", k, h.hist[k])
	}
	fmt.Printf("E2-DONE ops=%d lines=%d fails=%d\n", h.nOps, h.out.N, len(h.fails))
}

// TestVerifE2Serial: generated episodes, serialised by the harness.
func TestVerifE2Serial(t *testing.T) {
	h := vfE2New("e2")
	defer h.close()
	budget := time.Duration(vfEnvInt("VERIF_E2_SECONDS", 25)) * time.Second
	t0 := time.Now()
	for ep := 0; time.Since(t0) < budget; ep++ {
		h.episode(40+h.r.Intn(260), ep%3 == 2)
		if len(h.fails) > 20 {
			break
		}
	}
}

// TestVerifE2Replay: execute a command script (VERIF_E2_SCRIPT) against the real code.
func TestVerifE2Replay(t *testing.T) {
	h := vfE2New(vfE2EnvStr("VERIF_E2_NAME", "e2replay"))
	defer h.close()
	h.quiet = os.Getenv("VERIF_E2_SHOW") != ""
	f, err := os.Open(os.Getenv("VERIF_E2_SCRIPT"))
	if err != nil {
		t.Fatal(err)
	}
	defer f.Close()
	sc := bufio.NewScanner(f)
	started := false
	for sc.Scan() {
		line := strings.TrimSpace(sc.Text())
		if line == "" || strings.HasPrefix(line, "#") {
			continue
		}
		if strings.HasPrefix(line, "conf") {
			if started {
				h.stop()
			}
			cfg := vfE2Cfg{memq: 10000, maxfile: 1 << 20, maxrdy: 2500, mtMs: 60000, maxmtMs: 900000, maxreq: 3600000}
			for _, kv := range strings.Fields(line)[1:] {
				p := strings.SplitN(kv, "=", 2)
				if len(p) != 2 {
					continue
				}
				v, _ := strconv.ParseInt(p[1], 10, 64)
				switch p[0] {
				case "memq":
					cfg.memq = int(v)
				case "maxfile":
					cfg.maxfile = v
				case "maxrdy":
					cfg.maxrdy = v
				case "mt":
					cfg.mtMs = v
				case "maxmt":
					cfg.maxmtMs = v
				case "maxreq":
					cfg.maxreq = v
				case "maxmsg":
					cfg.maxmsg = v
				}
			}
			h.start(cfg)
			started = true
			continue
		}
		if !started {
			h.start(vfE2Cfg{memq: 10000, maxfile: 1 << 20, maxrdy: 2500, mtMs: 60000, maxmtMs: 900000, maxreq: 3600000})
			started = true
		}
		h.exec(line)
	}
	if started {
		h.stop()
	}
}

func vfE2EnvStr(name, def string) string {
	if v := os.Getenv(name); v != "" {
		return v
	}
	return def
}

// doF8: the FIN | Empty | FinishedMessage window (DESIGN F8). Placeholder until the hook
// schedule is wired in e2_hook_test.go.
func (h *vfE2H) doF8(k int, tok string) { h.doF8Impl(k, tok) }
