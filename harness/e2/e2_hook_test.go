package nsqd

// Corr-E2 harness, part 3: hook-steered micro-step schedules (build tag verif).

import (
	"fmt"
	"strings"
	"time"
)

// doF8Impl replays the schedule  FIN completes on the channel | Channel.Empty | client.FinishedMessage
// (DESIGN section 7, F8) on the real code: the FIN of connection k is stopped at the hook
// `proto.fin.beforeClientCount`, the channel is emptied, the FIN is released.
func (h *vfE2H) doF8Impl(k int, tok string) {
	cn := h.conns[k]
	if cn == nil || cn.dead || !cn.subbed {
		return
	}
	ch := h.chanOf(cn)
	if ch == nil {
		return
	}
	tp := h.topics[cn.t]
	seq, id := h.idOf(tok, cn.t)
	h.park([]*vfE2Chan{ch}, true)
	entered := make(chan bool, 1)
	release := make(chan bool)
	VerifSetHook("proto.fin.beforeClientCount", func(string) {
		entered <- true
		<-release
	})
	defer VerifSetHook("proto.fin.beforeClientCount", nil)
	cn.nc.Write([]byte("FIN " + string(id) + "\nTOUCH " + string(vfE2Barrier) + "\n"))
	select {
	case <-entered:
	case <-time.After(3 * time.Second):
		// the FIN failed before the hook (message not held): ordinary failed FIN
		close(release)
		f, _ := h.nextNonMsg(cn, 5*time.Second)
		code := vfE2Code(f.data)
		if !strings.Contains(string(f.data), string(vfE2Barrier)) {
			h.nextNonMsg(cn, 5*time.Second)
		} else {
			code = "ok"
		}
		h.emit(fmt.Sprintf("fin %d %d", k, seq), vfE2Fmt(code, false))
		h.after(tp)
		return
	}
	h.emit(fmt.Sprintf("finchan %d %d", k, seq), "ok")
	cn.skew = true
	ch.finished[seq] = true
	delete(ch.located, seq)
	delete(ch.holder, seq)
	// Channel.Empty while the FIN is parked
	rc := h.realChan(ch)
	rc.inFlightMutex.Lock()
	ni := len(rc.inFlightMessages)
	rc.inFlightMutex.Unlock()
	rc.deferredMutex.Lock()
	nd := len(rc.deferredMessages)
	rc.deferredMutex.Unlock()
	n := int(rc.Depth()) + ni + nd
	rc.Empty()
	for s := range ch.located {
		ch.emptied[s] = true
	}
	ch.nEmptied += n
	ch.located = map[int]bool{}
	ch.holder = map[int]int{}
	for _, o := range h.conns {
		if o.subbed && o.t == cn.t && o.c == cn.c {
			o.out = 0
		}
	}
	h.emit(fmt.Sprintf("empty %d %d", cn.t, cn.c), fmt.Sprintf("emptied %d", n))
	close(release)
	f, ok := h.nextNonMsg(cn, 5*time.Second)
	if !ok || !strings.Contains(string(f.data), string(vfE2Barrier)) {
		h.fail("f8", "no barrier answer after the released FIN")
	}
	h.emit(fmt.Sprintf("fincli %d", k), "ok")
	h.count("hook:f8")
	h.after(tp)
}
