package nsqd

// Corr-E2 harness, part 3: hook-steered micro-step schedules (build tag verif).

import (
	"encoding/binary"
	"fmt"
	"strings"
	"sync/atomic"
	"time"
)

// doF8Impl replays the schedule  FIN completes on the channel | Channel.Empty | client.FinishedMessage
// (DESIGN section 7, F8) on the real code: the FIN of connection k is stopped at the hook
// `proto.fin.beforeClientCount`, the channel is emptied, the FIN is released.
func (h *vfE2H) doF8Impl(k int, tok string) { h.doF8Mode(k, tok, "fin") }

// doF8Mode — mode "fin": the F8 schedule above. Mode "req" (round 9, audit B18: the REQ window, hook
// `proto.req.beforeClientCount`):  REQ 0 completes on the channel (message queued again) | Channel.Empty |
// client.RequeuedMessage. The atomic model explains it as `req k id 0; empty` (Empty subtracts only what it finds
// registered in flight — fix F13 — so the pending decrement of the parked REQ ends at the same counters).
func (h *vfE2H) doF8Mode(k int, tok string, mode string) {
	hook, verb := "proto.fin.beforeClientCount", "FIN "
	if mode == "req" {
		hook, verb = "proto.req.beforeClientCount", "REQ "
	}
	cn := h.conns[k]
	if cn == nil || cn.dead || !cn.subbed {
		return
	}
	ch := h.chanOf(cn)
	if ch == nil {
		return
	}
	tp := h.topics[cn.t]
	seq, id := h.idOf(tok, cn.t)
	h.park([]*vfE2Chan{ch}, true)
	entered := make(chan bool, 1)
	release := make(chan bool)
	VerifSetHook(hook, func(string) {
		entered <- true
		<-release
	})
	defer VerifSetHook(hook, nil)
	if mode == "req" {
		cn.nc.Write([]byte("REQ " + string(id) + " 0\nTOUCH " + string(vfE2Barrier) + "\n"))
	} else {
		cn.nc.Write([]byte(verb + string(id) + "\nTOUCH " + string(vfE2Barrier) + "\n"))
	}
	select {
	case <-entered:
	case <-time.After(3 * time.Second):
		// the FIN failed before the hook (message not held): ordinary failed FIN
		close(release)
		f, _ := h.nextNonMsg(cn, 5*time.Second)
		code := vfE2Code(f.data)
		if !strings.Contains(string(f.data), string(vfE2Barrier)) {
			h.nextNonMsg(cn, 5*time.Second)
		} else {
			code = "ok"
		}
		if mode == "req" {
			h.emit(fmt.Sprintf("req %d %d 0 0", k, seq), vfE2Fmt(code, false))
		} else {
			h.emit(fmt.Sprintf("fin %d %d", k, seq), vfE2Fmt(code, false))
		}
		h.after(tp)
		return
	}
	if mode == "req" {
		// the channel part of the REQ is done: the message is queued again (still located), the books count the REQ
		h.emit(fmt.Sprintf("req %d %d 0 0", k, seq), "ok")
		cn.nReq++
		ch.nReq++
		delete(ch.holder, seq)
	} else {
		h.emit(fmt.Sprintf("finchan %d %d", k, seq), "ok")
		// fix F13: Channel.Empty subtracts what it dropped, the parked FIN's own decrement follows:
		// the harness's books (holds 0, finished +1) must agree with the client's counters afterwards
		cn.nFin++
		h.micro = true
		ch.finished[seq] = true
		delete(ch.located, seq)
		delete(ch.holder, seq)
	}
	// Channel.Empty while the FIN is parked
	rc := h.realChan(ch)
	rc.inFlightMutex.Lock()
	ni := len(rc.inFlightMessages)
	rc.inFlightMutex.Unlock()
	rc.deferredMutex.Lock()
	nd := len(rc.deferredMessages)
	rc.deferredMutex.Unlock()
	n := int(rc.Depth()) + ni + nd
	rc.Empty()
	for s := range ch.located {
		ch.emptied[s] = true
	}
	ch.nEmptied += n
	ch.located = map[int]bool{}
	ch.holder = map[int]int{}
	for _, o := range h.conns {
		if o.subbed && o.t == cn.t && o.c == cn.c {
			o.out = 0
		}
	}
	h.emit(fmt.Sprintf("empty %d %d", cn.t, cn.c), fmt.Sprintf("emptied %d", n))
	close(release)
	f, ok := h.nextNonMsg(cn, 5*time.Second)
	if !ok || !strings.Contains(string(f.data), string(vfE2Barrier)) {
		h.fail("f8", "no barrier answer after the released "+verb)
	}
	if mode == "req" {
		h.count("hook:f8req")
	} else {
		h.emit(fmt.Sprintf("fincli %d", k), "ok")
		h.count("hook:f8")
	}
	h.after(tp)
}

// doOvershoot replays the one-message overshoot window of the delivery pump (DESIGN C03.2) on the
// real code: connection k's pump is stopped at hook `proto.pump.afterGuard` right after it
// evaluated the guard true; `RDY 0` is processed; a message is published; the pump is released
// into its select with both the queue case and ReadyStateChan ready. Go's select picks one: either
// the message is still sent (one message beyond RDY, model ops `guard` + `deliverarmed`), or the
// ready-state change wins and nothing is sent. Both outcomes are reported; neither is a failure.
func (h *vfE2H) doOvershoot(k int) {
	cn := h.conns[k]
	if cn == nil || cn.dead || !cn.subbed || cn.closing {
		return
	}
	ch := h.chanOf(cn)
	tp := h.topics[cn.t]
	if ch == nil || ch.eph || tp == nil || tp.paused || ch.paused {
		return
	}
	// precondition: k holds nothing, is the only consumer with RDY > 0, queue empty
	for _, o := range h.liveSubs() {
		if o != cn && o.t == cn.t && o.c == cn.c && o.rdy > 0 {
			h.exec(fmt.Sprintf("rdy %d 0", o.k))
		}
	}
	for i := 0; i < 50 && !h.aborted && !cn.dead; i++ {
		for _, seq := range h.heldBy(cn) {
			h.exec(fmt.Sprintf("fin %d %d", k, seq))
		}
		if r0 := h.realChan(ch); r0 == nil || (r0.Depth() == 0 && len(h.heldBy(cn)) == 0) {
			break
		}
		if cn.rdy == 0 {
			h.exec(fmt.Sprintf("rdy %d 1", k))
		}
	}
	rc := h.realChan(ch)
	if rc == nil || rc.Depth() != 0 || len(tp.pending) != 0 || cn.dead {
		return
	}
	if cn.rdy != 1 {
		h.exec(fmt.Sprintf("rdy %d 1", k))
	}
	h.micro = true
	entered := make(chan bool, 1)
	release := make(chan bool)
	var armedHook int32 = 1
	h.guardGate.Store(func() {
		if atomic.CompareAndSwapInt32(&armedHook, 1, 0) {
			entered <- true
			<-release
		}
	})
	// make k's pump iterate: a RDY change wakes it through ReadyStateChan
	cn.nc.Write([]byte("RDY 2\nTOUCH " + string(vfE2Barrier) + "\n"))
	h.nextNonMsg(cn, 5*time.Second)
	select {
	case <-entered:
	case <-time.After(3 * time.Second):
		h.guardGate.Store(func() {})
		atomic.StoreInt32(&armedHook, 0)
		h.fail("overshoot", "the pump of k%d did not re-evaluate its guard after a RDY change", k)
		return
	}
	cn.rdy = 2
	h.emit(fmt.Sprintf("rdy %d 2", k), "ok")
	h.emit(fmt.Sprintf("guard %d", k), "ok")
	cn.nc.Write([]byte("RDY 0\nTOUCH " + string(vfE2Barrier) + "\n"))
	h.nextNonMsg(cn, 5*time.Second)
	cn.rdy = 0
	h.emit(fmt.Sprintf("rdy %d 0", k), "ok")
	// publish one message and wait until it sits in the channel queue
	seq := h.nextSeq
	h.nextSeq++
	h.sizes[seq] = 16
	body := vfE2Body(seq, 16)
	var sz [4]byte
	binary.BigEndian.PutUint32(sz[:], uint32(len(body)))
	code, _ := h.connCmd(h.pubc, "PUB "+tp.name, append(sz[:], body...), true)
	if code != "OK" {
		h.fail("pub", "publish refused during the overshoot schedule")
	}
	h.acked(tp, seq, 16, false)
	h.emit(fmt.Sprintf("pub %d 16 @T%d %d", tp.t, seq, vfE2Crc(body)), fmt.Sprintf("ids %d", seq))
	for i := 0; i < 4000 && rc.Depth() == 0; i++ {
		time.Sleep(500 * time.Microsecond)
	}
	var got []string
	for _, c := range tp.sortedChans() {
		got = append(got, fmt.Sprint(c.c))
		c.fannedN++
		c.fanned[seq] = true
		c.located[seq] = true
	}
	tp.pending = nil
	h.emit(fmt.Sprintf("pump %d %d 0", tp.t, seq), "ids "+strings.Join(got, " "))
	h.guardGate.Store(func() {})
	close(release)
	if !h.settle() {
		return
	}
	if len(cn.newMsgs) > 0 {
		m := cn.newMsgs[0]
		cn.newMsgs = cn.newMsgs[1:]
		now := int64(0)
		rc.inFlightMutex.Lock()
		if im, ok := rc.inFlightMessages[m.id]; ok {
			now = im.deliveryTS.UnixNano()
		}
		rc.inFlightMutex.Unlock()
		h.emit(fmt.Sprintf("deliverarmed %d %d %d", k, m.seq, now), fmt.Sprintf("msg %d %d %d", m.att, m.ts, m.crc))
		ch.lastAtt[m.seq] = int(m.att)
		ch.holder[m.seq] = k
		cn.out++
		h.count("hook:overshoot:one-message-beyond-RDY")
		if len(cn.newMsgs) > 0 {
			h.fail("overshoot", "more than one message was sent on one guard evaluation")
		}
	} else {
		h.emit(fmt.Sprintf("guard %d", k), "REJECT guard")
		h.count("hook:overshoot:ready-state-won")
	}
	h.after(tp)
}
