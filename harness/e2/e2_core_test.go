package nsqd

// Corr-E2 harness core: a real NSQD on a temp data path, real clientV2 objects behind the real
// TCP listener (so tcpServer.Handle, protocolV2.IOLoop and messagePump run), the harness as the
// peer that serialises the schedule, white-box dumps of the real state, direct oracles.
//
// Three line streams are written (VERIF_OUT):
//   e2.cmds  symbolic, replayable command script (what the generator decided)
//   e2.ops   concrete operation / observation lines read by the Lean driver (drv_e2)
//   e2.impl  the implementation's canonical answer for every line of e2.ops

import (
	"bufio"
	"bytes"
	"encoding/binary"
	"encoding/json"
	"hash/crc32"
	"fmt"
	"io"
	"math"
	"net"
	"net/http"
	"os"
	"path/filepath"
	"regexp"
	"runtime"
	"sort"
	"strconv"
	"strings"
	"sync"
	"sync/atomic"
	"time"

	"github.com/nsqio/nsq/internal/pqueue"
)

type vfE2NopLogger struct{}

func (vfE2NopLogger) Output(int, string) error { return nil }

type vfE2Cfg struct {
	memq    int
	maxfile int64
	maxrdy  int64
	mtMs    int64 // default msg timeout
	maxmtMs int64
	maxreq  int64 // ms
	maxmsg  int64 // --max-msg-size (0 = nsqd's default 1 MiB)
}

type vfE2Frame struct {
	typ    int32
	data   []byte
	closed bool
}

type vfE2Msg struct {
	seq  int
	id   MessageID
	att  uint16
	size int
	ts   int64
	crc  uint32
}

type vfE2Conn struct {
	k       int
	nc      net.Conn
	frames  chan vfE2Frame
	cl      *clientV2
	t, c    int
	subbed  bool
	dead    bool
	closing bool
	rdy     int64
	sample  int
	mtNs    int64
	nMsg    uint64
	newMsgs []vfE2Msg
	out     int // harness-side outstanding count (sent - answered - timed out)
	nFin    uint64
	nReq    uint64
	skew    bool // counters deliberately skewed by a hook schedule
}

type vfE2Chan struct {
	t, c     int
	eph      bool
	name     string
	paused   bool
	exact    bool // harness ledger exact (durable channel)
	located  map[int]bool
	fanned   map[int]bool
	finished map[int]bool
	emptied  map[int]bool
	sampled  map[int]bool
	nEmptied int
	fannedN  uint64
	lastAtt  map[int]int
	holder   map[int]int
	nReq     uint64 // accepted REQs (harness books)
	nTimeout uint64 // timeouts seen by the harness's scans
}

type vfE2Topic struct {
	t        int
	name     string
	paused   bool
	chans    map[int]*vfE2Chan
	pending  []int
	acked    []int
	ackedB   uint64
	unackedN int
	unackedB uint64
	dpubs    map[int]bool
}

type vfE2H struct {
	out       *vfOut
	cmds      *bufio.Writer
	cmdsF     *os.File
	r         *vfRand
	n         *NSQD
	dir       string
	tcpAddr   string
	httpURL   string
	cfg       vfE2Cfg
	topics    map[int]*vfE2Topic
	conns     map[int]*vfE2Conn
	byCID     map[int64]int
	pubc      *vfE2Conn
	nextK     int
	nextSeq   int
	ids       map[int]MessageID
	sizes     map[int]int
	topicOf   map[int]int
	fails     []string
	hist      map[string]int
	busyMu    sync.Mutex
	busy      map[int64]bool
	nbusy     int64
	// audit B19: the pump's sampling branch counted at the drop site (hook proto.pump.sampleDrop, present when the
	// tree has fixes/F50) vs. the drops the harness infers by elimination: inferred > observed = a silent loss
	sdropSeen     int64
	sdropInferred int64
	sdropHook     bool
	nOps      int
	aborted   bool
	quiet     bool // replay mode prints side by side
	epoch     int
	depth     int
	last      []string
	buf  [][2]string     // op/impl lines of the running episode (flushed at its end, timestamps resolved)
	tsOf map[int]int64    // the publish timestamp nsqd gave each message (first observation)
	pubT map[int][2]int64 // wall-clock bracket of the publish call
	relax     bool         // a steered schedule holds an operation between two critical sections: heap/map oracle off
	micro     bool         // a micro-step schedule ran in this episode: the atomic invariant is not expected
	guardGate atomic.Value // func(): called at proto.pump.afterGuard
}

var vfE2Barrier = []byte("ffffffffffffffff")

func vfE2Gid() int64 {
	var buf [64]byte
	n := runtime.Stack(buf[:], false)
	// "goroutine 123 ["
	s := buf[10:n]
	var id int64
	for _, ch := range s {
		if ch < '0' || ch > '9' {
			break
		}
		id = id*10 + int64(ch-'0')
	}
	return id
}

func (h *vfE2H) fail(key, format string, a ...interface{}) {
	msg := fmt.Sprintf(format, a...)
	h.fails = append(h.fails, key+" "+msg)
	fmt.Printf("ORACLE-FAIL %s ep=%d op=%d %s\n", key, h.epoch, h.nOps, msg)
	if len(h.fails) <= 3 {
		for _, l := range h.last {
			fmt.Printf("    ctx: %s\n", l)
		}
	}
}

func (h *vfE2H) count(k string) { h.hist[k]++ }

var vfE2TsRe = regexp.MustCompile(`@T(\d+)`)

// flush writes the episode's lines; the `@T<seq>` placeholders of publish lines become the
// timestamp nsqd stamped on that message (known from its first observation; 0 if never seen)
func (h *vfE2H) flush() {
	for _, l := range h.buf {
		op := vfE2TsRe.ReplaceAllStringFunc(l[0], func(m string) string {
			seq, _ := strconv.Atoi(m[2:])
			return strconv.FormatInt(h.tsOf[seq], 10)
		})
		h.out.Case(op, l[1])
	}
	h.buf = nil
}

func vfE2Crc(b []byte) uint32 { return crc32.ChecksumIEEE(b) }

// sawEnvelope: the direct oracle of C07.4 on the implementation's own outputs — whenever a message
// is seen (frame, in-flight map, deferred map) its id, timestamp and body are those of every
// earlier sighting and of the publisher's record
func (h *vfE2H) sawEnvelope(where string, seq int, id MessageID, ts int64, body []byte) {
	if seq <= 0 {
		return
	}
	if sz, ok := h.sizes[seq]; !ok || sz != len(body) || !bytes.Equal(body, vfE2Body(seq, sz)) {
		h.fail("body", "%s: message %d carries a body that was never published", where, seq)
	}
	if old, ok := h.tsOf[seq]; ok && old != ts {
		h.fail("envelope", "%s: message %d carries timestamp %d, it was seen with %d before", where, seq, ts, old)
	} else if !ok {
		h.tsOf[seq] = ts
		if br, ok := h.pubT[seq]; ok && (ts < br[0] || ts > br[1]) {
			h.fail("envelope", "%s: message %d carries timestamp %d outside its publish call [%d, %d]", where, seq, ts, br[0], br[1])
		}
	}
	if old, ok := h.ids[seq]; ok && old != id {
		h.fail("envelope", "%s: message %d carries id %s, it was seen with id %s before", where, seq, id[:], old[:])
	} else if !ok {
		h.ids[seq] = id
	}
}

func (h *vfE2H) emit(op, impl string) {
	h.buf = append(h.buf, [2]string{op, impl})
	h.last = append(h.last, op+" -> "+impl)
	if len(h.last) > 14 {
		h.last = h.last[1:]
	}
	if !h.quiet {
		return
	}
	fmt.Printf("%-60s -> %s\n", op, impl)
}

func (h *vfE2H) cmd(line string) {
	fmt.Fprintln(h.cmds, line)
}

// ---------------------------------------------------------------- start / stop

func (h *vfE2H) start(cfg vfE2Cfg) {
	h.cfg = cfg
	h.epoch++
	h.topics = map[int]*vfE2Topic{}
	h.conns = map[int]*vfE2Conn{}
	h.byCID = map[int64]int{}
	h.ids = map[int]MessageID{}
	h.sizes = map[int]int{}
	h.topicOf = map[int]int{}
	h.tsOf = map[int]int64{}
	h.pubT = map[int][2]int64{}
	h.nextK = 1
	h.nextSeq = 1
	h.aborted = false
	h.busy = map[int64]bool{}
	dir, err := os.MkdirTemp(os.Getenv("VERIF_OUT"), "e2data-")
	if err != nil {
		panic(err)
	}
	h.dir = dir
	opts := NewOptions()
	opts.Logger = vfE2NopLogger{}
	opts.TCPAddress, opts.HTTPAddress, opts.HTTPSAddress = vfLoop3()
	opts.DataPath = dir
	opts.MemQueueSize = int64(cfg.memq)
	opts.MaxBytesPerFile = cfg.maxfile
	opts.MaxRdyCount = cfg.maxrdy
	opts.MsgTimeout = time.Duration(cfg.mtMs) * time.Millisecond
	opts.MaxMsgTimeout = time.Duration(cfg.maxmtMs) * time.Millisecond
	opts.MaxReqTimeout = time.Duration(cfg.maxreq) * time.Millisecond
	if cfg.maxmsg > 0 {
		opts.MaxMsgSize = cfg.maxmsg
	}
	opts.QueueScanInterval = time.Hour
	opts.QueueScanRefreshInterval = time.Hour
	opts.ClientTimeout = 20 * time.Minute
	opts.MaxHeartbeatInterval = 20 * time.Minute
	opts.MinOutputBufferTimeout = time.Millisecond
	opts.SyncEvery = 1 << 40
	opts.SyncTimeout = time.Hour
	opts.StatsdAddress = ""
	n, err := New(opts)
	if err != nil {
		panic(err)
	}
	h.n = n
	go func() {
		if err := n.Main(); err != nil {
			panic(err)
		}
	}()
	h.tcpAddr = n.RealTCPAddr().String()
	h.httpURL = "http://" + n.RealHTTPAddr().String()
	atomic.StoreInt64(&h.nbusy, 0)
	VerifSetHook("proto.pump.afterRecv", func(string) {
		atomic.AddInt64(&h.nbusy, 1) // first thing: the pump holds a message nobody else can see
		g := vfE2Gid()
		h.busyMu.Lock()
		h.busy[g] = true
		h.busyMu.Unlock()
	})
	atomic.StoreInt64(&h.sdropSeen, 0)
	h.sdropInferred = 0
	h.sdropHook = vfE2TreeHasPoint("proto.pump.sampleDrop")
	VerifSetHook("proto.pump.sampleDrop", func(string) { atomic.AddInt64(&h.sdropSeen, 1) })
	h.guardGate.Store(func() {})
	h.micro = false
	VerifSetHook("proto.pump.afterGuard", func(string) {
		g := vfE2Gid()
		h.busyMu.Lock()
		if h.busy[g] {
			delete(h.busy, g)
			atomic.AddInt64(&h.nbusy, -1)
		}
		h.busyMu.Unlock()
		h.guardGate.Load().(func())()
	})
	h.pubc = h.dial(0)
	h.cmd(fmt.Sprintf("conf memq=%d maxfile=%d maxrdy=%d mt=%d maxmt=%d maxreq=%d maxmsg=%d", cfg.memq, cfg.maxfile, cfg.maxrdy, cfg.mtMs, cfg.maxmtMs, cfg.maxreq, cfg.maxmsg))
	h.emit("reset", "ok")
	h.emit(fmt.Sprintf("conf %d %d %d %d", cfg.memq, cfg.maxrdy, cfg.maxmtMs*1000000, cfg.maxreq), "ok")
}

func (h *vfE2H) stop() {
	h.flush()
	for _, cn := range h.conns {
		if cn.nc != nil {
			cn.nc.Close()
		}
	}
	if h.pubc != nil {
		h.pubc.nc.Close()
	}
	done := make(chan bool)
	go func() { h.n.Exit(); close(done) }()
	select {
	case <-done:
	case <-time.After(20 * time.Second):
		h.fail("exit-hang", "NSQD.Exit did not return in 20s")
	}
	VerifClearHooks()
	os.RemoveAll(h.dir)
}

// ---------------------------------------------------------------- connections

func (h *vfE2H) dial(k int) *vfE2Conn {
	nc, err := net.DialTimeout("tcp", h.tcpAddr, 5*time.Second)
	if err != nil {
		panic(err)
	}
	nc.Write([]byte("  V2"))
	cn := &vfE2Conn{k: k, nc: nc, frames: make(chan vfE2Frame, 1<<14)}
	go func() {
		rd := bufio.NewReaderSize(nc, 1<<16)
		for {
			var hdr [8]byte
			if _, err := io.ReadFull(rd, hdr[:]); err != nil {
				cn.frames <- vfE2Frame{closed: true}
				return
			}
			sz := int32(binary.BigEndian.Uint32(hdr[:4]))
			typ := int32(binary.BigEndian.Uint32(hdr[4:]))
			data := make([]byte, sz-4)
			if _, err := io.ReadFull(rd, data); err != nil {
				cn.frames <- vfE2Frame{closed: true}
				return
			}
			cn.frames <- vfE2Frame{typ: typ, data: data}
		}
	}()
	return cn
}

func vfE2Body(seq, size int) []byte {
	b := []byte(fmt.Sprintf("m%08d.", seq))
	for len(b) < size {
		b = append(b, byte('a'+len(b)%26))
	}
	return b
}

func vfE2SeqOf(body []byte) int {
	if len(body) < 10 || body[0] != 'm' {
		return -1
	}
	v, err := strconv.Atoi(string(body[1:9]))
	if err != nil {
		return -1
	}
	return v
}

func (h *vfE2H) takeMsg(cn *vfE2Conn, data []byte) {
	m, err := decodeMessage(data)
	if err != nil {
		h.fail("bad-frame", "conn k%d: undecodable message frame (%d bytes)", cn.k, len(data))
		return
	}
	seq := vfE2SeqOf(m.Body)
	h.sawEnvelope(fmt.Sprintf("frame to k%d", cn.k), seq, m.ID, m.Timestamp, m.Body)
	cn.nMsg++
	cn.newMsgs = append(cn.newMsgs, vfE2Msg{seq: seq, id: m.ID, att: m.Attempts, size: len(m.Body), ts: m.Timestamp, crc: vfE2Crc(m.Body)})
}

// nextNonMsg returns the next response / error / close frame; message frames are queued.
func (h *vfE2H) nextNonMsg(cn *vfE2Conn, d time.Duration) (vfE2Frame, bool) {
	tm := time.NewTimer(d)
	defer tm.Stop()
	for {
		select {
		case f := <-cn.frames:
			if f.closed {
				cn.dead = true
				return f, true
			}
			if f.typ == frameTypeMessage {
				h.takeMsg(cn, f.data)
				continue
			}
			if f.typ == frameTypeResponse && string(f.data) == "_heartbeat_" {
				cn.nc.Write([]byte("NOP\n"))
				continue
			}
			return f, true
		case <-tm.C:
			return vfE2Frame{}, false
		}
	}
}

func (h *vfE2H) drainFrames(cn *vfE2Conn) {
	for {
		select {
		case f := <-cn.frames:
			if f.closed {
				cn.dead = true
				return
			}
			if f.typ == frameTypeMessage {
				h.takeMsg(cn, f.data)
			} else if f.typ == frameTypeResponse && string(f.data) == "_heartbeat_" {
				cn.nc.Write([]byte("NOP\n"))
			} else {
				h.fail("stray-frame", "conn k%d: unexpected frame type %d %q", cn.k, f.typ, f.data)
			}
		default:
			return
		}
	}
}

func vfE2Code(data []byte) string {
	s := string(data)
	if i := strings.IndexByte(s, ' '); i >= 0 {
		return s[:i]
	}
	return s
}

// connCmd sends one command. hasReply: the command answers on success (OK, CLOSE_WAIT).
// Commands that are silent on success are followed by the barrier (a TOUCH of a never-issued
// id) in the same write, so the answer to the barrier proves the command was processed.
func (h *vfE2H) connCmd(cn *vfE2Conn, line string, body []byte, hasReply bool) (string, bool) {
	if cn.dead {
		return "closed", true
	}
	var w bytes.Buffer
	w.WriteString(line)
	w.WriteByte('\n')
	if body != nil {
		w.Write(body)
	}
	if !hasReply {
		w.WriteString("TOUCH ")
		w.Write(vfE2Barrier)
		w.WriteByte('\n')
	}
	if _, err := cn.nc.Write(w.Bytes()); err != nil {
		cn.dead = true
		return "closed", true
	}
	f, ok := h.nextNonMsg(cn, 10*time.Second)
	if !ok {
		h.fail("no-reply", "conn k%d: no answer to %q within 10s", cn.k, line)
		h.aborted = true
		return "timeout", true
	}
	if f.closed {
		return "closed", true
	}
	if hasReply {
		if f.typ == frameTypeResponse {
			return string(f.data), false
		}
		code := vfE2Code(f.data)
		f2, ok := h.nextNonMsg(cn, 3*time.Second)
		if ok && f2.closed {
			return code, true
		}
		return code, false
	}
	// silent-on-success command
	if f.typ == frameTypeError && bytes.Contains(f.data, vfE2Barrier) {
		return "ok", false
	}
	if f.typ != frameTypeError {
		h.fail("stray-frame", "conn k%d: unexpected response %q to %q", cn.k, f.data, line)
		return string(f.data), false
	}
	code := vfE2Code(f.data)
	f2, ok := h.nextNonMsg(cn, 10*time.Second)
	if !ok {
		h.fail("no-reply", "conn k%d: no barrier answer after error %s", cn.k, code)
		h.aborted = true
		return code, true
	}
	if f2.closed {
		return code, true
	}
	if f2.typ == frameTypeError && bytes.Contains(f2.data, vfE2Barrier) {
		return code, false
	}
	h.fail("stray-frame", "conn k%d: unexpected frame %q after error %s", cn.k, f2.data, code)
	return code, false
}

func vfE2Fmt(code string, fatal bool) string {
	if code == "ok" || code == "OK" || code == "CLOSE_WAIT" {
		return "ok"
	}
	if fatal {
		return code + " fatal"
	}
	return code + " nonfatal"
}

// ---------------------------------------------------------------- white-box access

func (h *vfE2H) realTopic(t int) *Topic {
	h.n.RLock()
	defer h.n.RUnlock()
	return h.n.topicMap[fmt.Sprintf("t%d", t)]
}

func vfE2ChanName(c int, eph bool) string {
	if eph {
		return fmt.Sprintf("c%d#ephemeral", c)
	}
	return fmt.Sprintf("c%d", c)
}

func (h *vfE2H) realChan(ch *vfE2Chan) *Channel {
	tp := h.realTopic(ch.t)
	if tp == nil {
		return nil
	}
	tp.RLock()
	defer tp.RUnlock()
	return tp.channelMap[ch.name]
}

func (h *vfE2H) chanOf(cn *vfE2Conn) *vfE2Chan {
	tp := h.topics[cn.t]
	if tp == nil {
		return nil
	}
	return tp.chans[cn.c]
}

type vfE2IF struct {
	seq  int
	conn int
	att  uint16
	pri  int64
	dts  int64
	ts   int64
	crc  uint32
}
type vfE2DF struct {
	seq int
	att uint16
	pri int64
	ts  int64
	crc uint32
}

func (h *vfE2H) inflightOf(rc *Channel) []vfE2IF {
	var out []vfE2IF
	rc.inFlightMutex.Lock()
	for _, m := range rc.inFlightMessages {
		k, ok := h.byCID[m.clientID]
		if !ok {
			k = -1
		}
		seq := vfE2SeqOf(m.Body)
		h.sawEnvelope("in-flight map", seq, m.ID, m.Timestamp, m.Body)
		out = append(out, vfE2IF{seq, k, m.Attempts, m.pri, m.deliveryTS.UnixNano(), m.Timestamp, vfE2Crc(m.Body)})
	}
	// heap oracle: every element knows its index, the heap holds exactly the map's objects,
	// parents are not later than children
	pq := rc.inFlightPQ
	if h.relax {
		pq = nil
	} else if len(pq) != len(rc.inFlightMessages) {
		h.fail("heap", "in-flight heap has %d elements, map has %d", len(pq), len(rc.inFlightMessages))
	}
	for i, m := range pq {
		if m.index != i {
			h.fail("heap", "in-flight heap element %d carries index %d", i, m.index)
		}
		if rc.inFlightMessages[m.ID] != m {
			h.fail("heap", "in-flight heap element %d is not the map's object for its id", i)
		}
		if i > 0 && pq[(i-1)/2].pri > m.pri {
			h.fail("heap", "in-flight heap order broken at %d", i)
		}
	}
	rc.inFlightMutex.Unlock()
	sort.Slice(out, func(i, j int) bool { return out[i].seq < out[j].seq })
	return out
}

func (h *vfE2H) deferredOf(rc *Channel) []vfE2DF {
	var out []vfE2DF
	rc.deferredMutex.Lock()
	for _, it := range rc.deferredMessages {
		m := it.Value.(*Message)
		seq := vfE2SeqOf(m.Body)
		h.sawEnvelope("deferred map", seq, m.ID, m.Timestamp, m.Body)
		out = append(out, vfE2DF{seq, m.Attempts, it.Priority, m.Timestamp, vfE2Crc(m.Body)})
	}
	if len(rc.deferredPQ) != len(rc.deferredMessages) {
		h.fail("heap", "deferred heap has %d elements, map has %d", len(rc.deferredPQ), len(rc.deferredMessages))
	}
	for i, it := range rc.deferredPQ {
		if it.Index != i {
			h.fail("heap", "deferred heap element %d carries index %d", i, it.Index)
		}
		if i > 0 && rc.deferredPQ[(i-1)/2].Priority > it.Priority {
			h.fail("heap", "deferred heap order broken at %d", i)
		}
	}
	rc.deferredMutex.Unlock()
	sort.Slice(out, func(i, j int) bool { return out[i].seq < out[j].seq })
	return out
}

var _ = pqueue.New

func (h *vfE2H) clientsOf(rc *Channel) []*clientV2 {
	var out []*clientV2
	rc.RLock()
	for _, c := range rc.clients {
		if cl, ok := c.(*clientV2); ok {
			out = append(out, cl)
		}
	}
	rc.RUnlock()
	sort.Slice(out, func(i, j int) bool { return h.byCID[out[i].ID] < h.byCID[out[j].ID] })
	return out
}

func vfE2B(b bool) string {
	if b {
		return "1"
	}
	return "0"
}

func (h *vfE2H) dumpLine(ch *vfE2Chan) string {
	rc := h.realChan(ch)
	if rc == nil {
		return "no-chan"
	}
	var ifs, dfs, cls []string
	for _, e := range h.inflightOf(rc) {
		ifs = append(ifs, fmt.Sprintf("%d:%d:%d:%d:%d:%d:%d", e.seq, e.conn, e.att, e.pri, e.dts, e.ts, e.crc))
	}
	for _, e := range h.deferredOf(rc) {
		dfs = append(dfs, fmt.Sprintf("%d:%d:%d:%d:%d", e.seq, e.att, e.pri, e.ts, e.crc))
	}
	for _, c := range h.clientsOf(rc) {
		infl := atomic.LoadInt64(&c.InFlightCount)
		if infl < 0 {
			h.fail("negative", "client k%d in_flight_count = %d", h.byCID[c.ID], infl)
		}
		// direct oracle (C13.3 / C03.6): the counters are what this consumer did, by the harness's own books
		if cn := h.conns[h.byCID[c.ID]]; cn != nil && !cn.skew && cn.cl == c {
			if infl != int64(cn.out) || atomic.LoadUint64(&c.MessageCount) != cn.nMsg || atomic.LoadUint64(&c.FinishCount) != cn.nFin ||
				atomic.LoadUint64(&c.RequeueCount) != cn.nReq || atomic.LoadInt64(&c.ReadyCount) != cn.rdy {
				h.fail("client-count", "client k%d reports rdy=%d in_flight=%d msgs=%d fin=%d req=%d; it set RDY %d, holds %d, received %d, finished %d, requeued %d",
					cn.k, atomic.LoadInt64(&c.ReadyCount), infl, atomic.LoadUint64(&c.MessageCount), atomic.LoadUint64(&c.FinishCount),
					atomic.LoadUint64(&c.RequeueCount), cn.rdy, cn.out, cn.nMsg, cn.nFin, cn.nReq)
			}
		}
		cls = append(cls, fmt.Sprintf("%d:%d:%d:%d:%d:%d:%s", h.byCID[c.ID], atomic.LoadInt64(&c.ReadyCount), infl,
			atomic.LoadUint64(&c.MessageCount), atomic.LoadUint64(&c.FinishCount), atomic.LoadUint64(&c.RequeueCount),
			vfE2B(atomic.LoadInt32(&c.State) == stateClosing)))
	}
	// direct oracle (C13.1): the channel counters by the harness's own books
	if mc, rq, to := atomic.LoadUint64(&rc.messageCount), atomic.LoadUint64(&rc.requeueCount), atomic.LoadUint64(&rc.timeoutCount); mc != ch.fannedN+uint64(h.pendingFor(ch)) || rq != ch.nReq || to != ch.nTimeout {
		h.fail("chan-count", "%s/%s reports message_count=%d requeue_count=%d timeout_count=%d; %d messages were fanned out to it, %d REQs accepted, %d timeouts",
			fmt.Sprintf("t%d", ch.t), ch.name, mc, rq, to, ch.fannedN+uint64(h.pendingFor(ch)), ch.nReq, ch.nTimeout)
	}
	return fmt.Sprintf("depth=%d inflight=[%s] deferred=[%s] mc=%d rq=%d to=%d paused=%s clients=[%s]",
		rc.Depth(), strings.Join(ifs, " "), strings.Join(dfs, " "),
		atomic.LoadUint64(&rc.messageCount), atomic.LoadUint64(&rc.requeueCount), atomic.LoadUint64(&rc.timeoutCount),
		vfE2B(rc.IsPaused()), strings.Join(cls, " "))
}

// publishes acknowledged but not yet reported as fanned out (dumpLine may run before observe)
func (h *vfE2H) pendingFor(ch *vfE2Chan) int {
	tp := h.topics[ch.t]
	if tp == nil || tp.paused || len(tp.chans) == 0 {
		return 0
	}
	return len(tp.pending)
}

func (h *vfE2H) dump(ch *vfE2Chan) {
	h.emit(fmt.Sprintf("dump %d %d", ch.t, ch.c), h.dumpLine(ch))
}

func (h *vfE2H) tdump(tp *vfE2Topic) {
	rt := h.realTopic(tp.t)
	if rt == nil {
		h.emit(fmt.Sprintf("tdump %d", tp.t), "no-topic")
		return
	}
	var cs []int
	rt.RLock()
	for name := range rt.channelMap {
		var c int
		fmt.Sscanf(name, "c%d", &c)
		cs = append(cs, c)
	}
	rt.RUnlock()
	sort.Ints(cs)
	var css []string
	for _, c := range cs {
		css = append(css, strconv.Itoa(c))
	}
	mc := atomic.LoadUint64(&rt.messageCount)
	mb := atomic.LoadUint64(&rt.messageBytes)
	// direct oracle (C13.2): topic counters = what was acknowledged
	// (+ the prefix a failed MPUB enqueued before its write error: counted, never acknowledged)
	if mc != uint64(len(tp.acked)+tp.unackedN) || mb != tp.ackedB+tp.unackedB {
		h.fail("topic-count", "topic t%d message_count=%d message_bytes=%d but %d messages / %d bytes were acknowledged (+ %d / %d enqueued by failed MPUBs)",
			tp.t, mc, mb, len(tp.acked), tp.ackedB, tp.unackedN, tp.unackedB)
	}
	h.emit(fmt.Sprintf("tdump %d", tp.t), fmt.Sprintf("depth=%d bdepth=%d mc=%d mb=%d paused=%s chans=[%s]",
		rt.Depth(), rt.backend.Depth(), mc, mb, vfE2B(rt.IsPaused()), strings.Join(css, " ")))
}

func (h *vfE2H) split(ch *vfE2Chan) {
	rc := h.realChan(ch)
	if rc == nil {
		return
	}
	h.emit(fmt.Sprintf("split %d %d %d %d", ch.t, ch.c, len(rc.memoryMsgChan), rc.backend.Depth()), "ok")
}

// ---------------------------------------------------------------- settle

func (h *vfE2H) sortedTopics() []*vfE2Topic {
	var ts []*vfE2Topic
	for _, t := range h.topics {
		ts = append(ts, t)
	}
	sort.Slice(ts, func(i, j int) bool { return ts[i].t < ts[j].t })
	return ts
}

func (tp *vfE2Topic) sortedChans() []*vfE2Chan {
	var cs []*vfE2Chan
	for _, c := range tp.chans {
		cs = append(cs, c)
	}
	sort.Slice(cs, func(i, j int) bool { return cs[i].c < cs[j].c })
	return cs
}

func (h *vfE2H) sortedConns() []*vfE2Conn {
	var cs []*vfE2Conn
	for _, c := range h.conns {
		cs = append(cs, c)
	}
	sort.Slice(cs, func(i, j int) bool { return cs[i].k < cs[j].k })
	return cs
}

// quiescent: nothing is in motion and nothing the implementation should still do is pending.
func (h *vfE2H) quiescent() (bool, string) {
	if atomic.LoadInt64(&h.nbusy) > 0 {
		return false, "a delivery pump holds a message"
	}
	for _, cn := range h.conns {
		if !cn.dead && len(cn.frames) > 0 {
			return false, "unread frames"
		}
	}
	for _, tp := range h.topics {
		rt := h.realTopic(tp.t)
		if rt == nil {
			return false, fmt.Sprintf("topic t%d missing", tp.t)
		}
		rt.RLock()
		nch := len(rt.channelMap)
		rt.RUnlock()
		if nch != len(tp.chans) {
			return false, fmt.Sprintf("topic t%d has %d channels, expected %d", tp.t, nch, len(tp.chans))
		}
		enabled := !rt.IsPaused() && nch > 0
		if enabled {
			if d := rt.Depth(); d != 0 {
				return false, fmt.Sprintf("topic t%d depth %d with the pump enabled", tp.t, d)
			}
		} else if d := rt.Depth(); d != int64(len(tp.pending)) {
			return false, fmt.Sprintf("topic t%d depth %d, %d publishes pending", tp.t, d, len(tp.pending))
		}
		for _, ch := range tp.chans {
			rc := h.realChan(ch)
			if rc == nil {
				return false, fmt.Sprintf("channel t%d/%s missing", tp.t, ch.name)
			}
			want := ch.fannedN
			if enabled {
				want += uint64(len(tp.pending))
			}
			if mc := atomic.LoadUint64(&rc.messageCount); mc != want {
				return false, fmt.Sprintf("channel t%d/%s message_count %d, expected %d", tp.t, ch.name, mc, want)
			}
			depth := rc.Depth()
			ready := false
			sampler := false
			rc.RLock()
			ncl := 0
			for _, c := range rc.clients {
				cl, isReal := c.(*clientV2)
				if !isReal {
					continue
				}
				ncl++
				if cl.IsReadyForMessages() {
					ready = true
				}
				if atomic.LoadInt32(&cl.SampleRate) > 0 {
					sampler = true
				}
			}
			rc.RUnlock()
			if depth > 0 && ready {
				return false, fmt.Sprintf("channel t%d/%s depth %d with a ready consumer", tp.t, ch.name, depth)
			}
			nlive := 0
			for _, cn := range h.conns {
				if cn.subbed && !cn.dead && cn.t == ch.t && cn.c == ch.c {
					nlive++
				}
			}
			if ncl != nlive {
				return false, fmt.Sprintf("channel t%d/%s has %d clients, expected %d", tp.t, ch.name, ncl, nlive)
			}
			if ch.exact {
				rc.inFlightMutex.Lock()
				ni := len(rc.inFlightMessages)
				rc.inFlightMutex.Unlock()
				rc.deferredMutex.Lock()
				nd := len(rc.deferredMessages)
				rc.deferredMutex.Unlock()
				have := int(depth) + ni + nd
				want := len(ch.located)
				if enabled {
					want += len(tp.pending)
				}
				if have != want && !(sampler && have < want) {
					return false, fmt.Sprintf("channel t%d/%s holds %d messages (depth %d, in flight %d, deferred %d), the ledger says %d",
						tp.t, ch.name, have, depth, ni, nd, want)
				}
			}
		}
	}
	for _, cn := range h.conns {
		if cn.subbed && !cn.dead && cn.cl != nil {
			if mc := atomic.LoadUint64(&cn.cl.MessageCount); mc != cn.nMsg {
				return false, fmt.Sprintf("conn k%d: %d frames read, client.MessageCount=%d", cn.k, cn.nMsg, mc)
			}
		}
	}
	return true, ""
}

var vfE2StackBuf = make([]byte, 4<<20)

// pumpsIdle: every topic pump and delivery pump is parked in its select —
// the one thing the counters cannot show (a goroutine between two of the checked points).
func vfE2PumpsIdle() (bool, string) {
	n := runtime.Stack(vfE2StackBuf, true)
	for _, g := range bytes.Split(vfE2StackBuf[:n], []byte("\n\n")) {
		// (the disk queue's ioLoop is not looked at: Depth() itself wakes it up)
		if bytes.Contains(g, []byte(").messagePump(")) {
			nl := bytes.IndexByte(g, '\n')
			if nl < 0 {
				nl = len(g)
			}
			if !bytes.Contains(g[:nl], []byte("[select")) {
				if len(g) > 700 {
					g = g[:700]
				}
				return false, "a pump is running: " + strings.ReplaceAll(string(g), "\n", " | ")
			}
		}
	}
	return true, ""
}

func (h *vfE2H) settle() bool {
	deadline := time.Now().Add(8 * time.Second)
	stable := 0
	why := ""
	for i := 0; ; i++ {
		for _, cn := range h.conns {
			if !cn.dead {
				h.drainFrames(cn)
			}
		}
		ok, w := h.quiescent()
		if ok && stable >= 2 {
			ok, w = vfE2PumpsIdle()
		}
		if ok {
			stable++
			if stable >= 3 {
				return true
			}
			// let a goroutine caught between two of the checked points move on
			for t0 := time.Now(); time.Since(t0) < 40*time.Microsecond; {
				runtime.Gosched()
			}
			continue
		} else {
			stable = 0
			why = w
		}
		if time.Now().After(deadline) {
			key := "settle"
			switch {
			case strings.Contains(why, "message_count"):
				key = "settle-count"
			case strings.Contains(why, "the ledger says"):
				key = "settle-ledger"
			case strings.Contains(why, "with a ready consumer"), strings.Contains(why, "with the pump enabled"):
				key = "settle-stall"
			case strings.Contains(why, "publishes pending"):
				key = "settle-pausedpump"
			}
			h.fail(key, "no quiescence within 8s: %s", why)
			h.aborted = true
			return false
		}
		if i < 50 {
			runtime.Gosched()
		} else {
			time.Sleep(50 * time.Microsecond)
		}
	}
}

// observe emits, after a settle, what the runtime did on its own: fan-outs, deliveries,
// sampling drops, and the memory/disk split of every channel queue.
func (h *vfE2H) observe() {
	for _, tp := range h.sortedTopics() {
		rt := h.realTopic(tp.t)
		if rt == nil || len(tp.pending) == 0 {
			continue
		}
		if rt.IsPaused() || len(tp.chans) == 0 {
			continue
		}
		if tp.paused {
			h.fail("topic-pause", "topic t%d fanned out while paused", tp.t)
		}
		chans := tp.sortedChans()
		// The topic pump selects between its memory channel and the disk queue: the order in
		// which several pending messages were fanned out is the runtime's choice.  It matters
		// only for a (small) ephemeral queue, which keeps the first ones; read the order off
		// that queue (no consumer is selecting on it: they were parked before the operation).
		if len(tp.pending) > 1 {
			inPending := map[int]bool{}
			for _, s := range tp.pending {
				inPending[s] = true
			}
			var best []int
			for _, ch := range chans {
				if !ch.eph {
					continue
				}
				rc := h.realChan(ch)
				if rc == nil || rc.memoryMsgChan == nil {
					continue
				}
				n := len(rc.memoryMsgChan)
				var got []int
				for i := 0; i < n; i++ {
					m := <-rc.memoryMsgChan
					if s := vfE2SeqOf(m.Body); inPending[s] {
						got = append(got, s)
					}
					rc.memoryMsgChan <- m
				}
				if len(got) > len(best) {
					best = got
				}
			}
			if len(best) > 0 {
				first := map[int]bool{}
				order := append([]int{}, best...)
				for _, s := range best {
					first[s] = true
				}
				for _, s := range tp.pending {
					if !first[s] {
						order = append(order, s)
					}
				}
				tp.pending = order
			}
		}
		for _, seq := range tp.pending {
			kept := false
			var pris []string
			var got []string
			for _, ch := range chans {
				got = append(got, strconv.Itoa(ch.c))
				if tp.dpubs[seq] {
					rc := h.realChan(ch)
					for _, d := range h.deferredOf(rc) {
						if d.seq == seq {
							kept = true
							pris = append(pris, fmt.Sprintf("%d:%d", ch.c, d.pri))
						}
					}
				}
				ch.fannedN++
				ch.fanned[seq] = true
				ch.located[seq] = true
			}
			op := fmt.Sprintf("pump %d %d %s", tp.t, seq, vfE2B(kept))
			if len(pris) > 0 {
				op += " " + strings.Join(pris, " ")
			}
			h.emit(op, strings.TrimSpace("ids "+strings.Join(got, " ")))
			h.count("obs:pump")
		}
		tp.pending = nil
	}
	for _, cn := range h.sortedConns() {
		if len(cn.newMsgs) == 0 {
			continue
		}
		ch := h.chanOf(cn)
		var rc *Channel
		if ch != nil {
			rc = h.realChan(ch)
		}
		for _, m := range cn.newMsgs {
			now := int64(0)
			if rc != nil {
				rc.inFlightMutex.Lock()
				if im, ok := rc.inFlightMessages[m.id]; ok {
					now = im.deliveryTS.UnixNano()
					if im.clientID != cn.cl.ID {
						h.fail("holder", "message %d was sent to k%d but the in-flight entry names client %d", m.seq, cn.k, im.clientID)
					}
				} else {
					h.fail("unregistered", "message %d was sent to k%d but is not in the in-flight map", m.seq, cn.k)
				}
				rc.inFlightMutex.Unlock()
			}
			h.emit(fmt.Sprintf("deliver %d %d %d", cn.k, m.seq, now), fmt.Sprintf("msg %d %d %d", m.att, m.ts, m.crc))
			h.count("obs:deliver")
			if ch != nil {
				h.oracleDeliver(cn, ch, m)
			}
		}
		cn.newMsgs = nil
	}
	// sampling drops: on an exactly-tracked channel whose queue is empty, a located message
	// that is neither in flight nor deferred was dropped by the sampling consumer
	for _, tp := range h.sortedTopics() {
		for _, ch := range tp.sortedChans() {
			if !ch.exact {
				continue
			}
			sampler := 0
			for _, cn := range h.sortedConns() {
				if cn.subbed && !cn.dead && cn.t == ch.t && cn.c == ch.c && cn.sample > 0 {
					sampler = cn.k
				}
			}
			if sampler == 0 {
				continue
			}
			rc := h.realChan(ch)
			if rc == nil || rc.Depth() != 0 {
				continue
			}
			present := map[int]bool{}
			for _, e := range h.inflightOf(rc) {
				present[e.seq] = true
			}
			for _, e := range h.deferredOf(rc) {
				present[e.seq] = true
			}
			var gone []int
			for seq := range ch.located {
				if !present[seq] {
					gone = append(gone, seq)
				}
			}
			sort.Ints(gone)
			for _, seq := range gone {
				delete(ch.located, seq)
				ch.sampled[seq] = true
				h.emit(fmt.Sprintf("sdrop %d %d", sampler, seq), "ok")
				h.count("obs:sdrop")
				h.sdropInferred++
			}
			if seen := atomic.LoadInt64(&h.sdropSeen); h.sdropHook && len(gone) > 0 {
				if h.sdropInferred > seen {
					h.fail("sample-drop", "channel %s: %d message(s) vanished while the sampling consumer k%d was ready (inferred as sampling drops: %v), but the pump's sampling branch (hook proto.pump.sampleDrop) dropped only %d in this episode — a silent loss would be absorbed as a sampling drop",
						ch.name, h.sdropInferred, sampler, gone, seen)
				} else {
					h.count("obs:sdrop:observed-at-site")
				}
			}
		}
	}
}

// vfE2TreeHasPoint: does the tree under test contain the hook point (fixes/F50 adds proto.pump.sampleDrop)?
func vfE2TreeHasPoint(name string) bool {
	repo := os.Getenv("VERIF_REPO")
	if repo == "" {
		repo = "/repo"
	}
	b, err := os.ReadFile(filepath.Join(repo, "nsqd", "protocol_v2.go"))
	return err == nil && strings.Contains(string(b), "verifPoint(\""+name+"\")")
}

// oracleDeliver: the direct checks of C02/C03 on the frames themselves.
func (h *vfE2H) oracleDeliver(cn *vfE2Conn, ch *vfE2Chan, m vfE2Msg) {
	if prev, ok := ch.holder[m.seq]; ok {
		h.fail("double-holder", "message %d delivered to k%d on %s while k%d still holds it (no REQ, no timeout)", m.seq, cn.k, ch.name, prev)
	}
	if ch.finished[m.seq] {
		h.fail("after-fin", "message %d delivered to k%d on %s after its FIN was accepted", m.seq, cn.k, ch.name)
	}
	if int(m.att) != (ch.lastAtt[m.seq]+1)%65536 {
		h.fail("attempts", "message %d on %s: delivery carries attempts %d after %d", m.seq, ch.name, m.att, ch.lastAtt[m.seq])
	}
	if !ch.fanned[m.seq] {
		h.fail("phantom", "message %d delivered on %s but never published to it", m.seq, ch.name)
	}
	ch.lastAtt[m.seq] = int(m.att)
	ch.holder[m.seq] = cn.k
	if ch.paused {
		h.fail("paused-deliver", "message %d delivered to k%d on paused channel %s", m.seq, cn.k, ch.name)
	}
	if cn.rdy <= 0 || int64(cn.out) >= cn.rdy {
		h.fail("rdy", "message %d delivered to k%d with %d outstanding and RDY %d", m.seq, cn.k, cn.out, cn.rdy)
	}
	cn.out++
}

// ---------------------------------------------------------------- /stats

var vfE2TopicRe = regexp.MustCompile(`^(\*P|  ) \[(\S+)\s*\] depth: (\d+)\s+be-depth: (\d+)\s+msgs: (\d+)`)
var vfE2ChanRe = regexp.MustCompile(`^   (\*P|  ) \[(\S+)\s*\] depth: (\d+)\s+be-depth: (\d+)\s+inflt: (-?\d+)\s+def: (-?\d+)\s+re-q: (\d+)\s+timeout: (\d+)\s+msgs: (\d+)`)
var vfE2CliRe = regexp.MustCompile(`^        \[V2 \S+\s+\S*\s*\] state: (\d+) inflt: (-?\d+)\s+rdy: (-?\d+)\s+fin: (\d+)\s+re-q: (\d+)\s+msgs: (\d+)`)

type vfE2JC struct {
	ClientID      string `json:"client_id"`
	ReadyCount    int64  `json:"ready_count"`
	InFlightCount int64  `json:"in_flight_count"`
	MessageCount  uint64 `json:"message_count"`
	FinishCount   uint64 `json:"finish_count"`
	RequeueCount  uint64 `json:"requeue_count"`
	State         int32  `json:"state"`
}
type vfE2JCh struct {
	ChannelName   string   `json:"channel_name"`
	Depth         int64    `json:"depth"`
	BackendDepth  int64    `json:"backend_depth"`
	InFlightCount int      `json:"in_flight_count"`
	DeferredCount int      `json:"deferred_count"`
	MessageCount  uint64   `json:"message_count"`
	RequeueCount  uint64   `json:"requeue_count"`
	TimeoutCount  uint64   `json:"timeout_count"`
	ClientCount   int      `json:"client_count"`
	Clients       []vfE2JC `json:"clients"`
	Paused        bool     `json:"paused"`
}
type vfE2JT struct {
	TopicName    string    `json:"topic_name"`
	Channels     []vfE2JCh `json:"channels"`
	Depth        int64     `json:"depth"`
	BackendDepth int64     `json:"backend_depth"`
	MessageCount uint64    `json:"message_count"`
	MessageBytes uint64    `json:"message_bytes"`
	Paused       bool      `json:"paused"`
}

func (h *vfE2H) httpGet(path string) (int, []byte) {
	resp, err := http.Get(h.httpURL + path)
	if err != nil {
		return -1, nil
	}
	defer resp.Body.Close()
	b, _ := io.ReadAll(resp.Body)
	return resp.StatusCode, b
}

func (h *vfE2H) httpPost(path string, body []byte) (int, []byte) {
	resp, err := http.Post(h.httpURL+path, "application/octet-stream", bytes.NewReader(body))
	if err != nil {
		return -1, nil
	}
	defer resp.Body.Close()
	b, _ := io.ReadAll(resp.Body)
	return resp.StatusCode, b
}

// canonical per-channel and per-topic rows of one /stats answer (either format)
func vfE2RowsJSON(b []byte, withClients bool) (map[string]string, error) {
	var doc struct {
		Topics []vfE2JT `json:"topics"`
	}
	if err := json.Unmarshal(b, &doc); err != nil {
		return nil, err
	}
	rows := map[string]string{}
	for _, t := range doc.Topics {
		rows[t.TopicName] = fmt.Sprintf("depth=%d bdepth=%d mc=%d paused=%s", t.Depth, t.BackendDepth, t.MessageCount, vfE2B(t.Paused))
		rows[t.TopicName+"#bytes"] = fmt.Sprintf("%d", t.MessageBytes)
		for _, c := range t.Channels {
			key := t.TopicName + "/" + c.ChannelName
			rows[key] = fmt.Sprintf("depth=%d bdepth=%d inflight=%d deferred=%d mc=%d rq=%d to=%d paused=%s",
				c.Depth, c.BackendDepth, c.InFlightCount, c.DeferredCount, c.MessageCount, c.RequeueCount, c.TimeoutCount, vfE2B(c.Paused))
			rows[key+"#n"] = fmt.Sprintf("%d", c.ClientCount)
			if withClients {
				var cl []string
				for _, x := range c.Clients {
					cl = append(cl, fmt.Sprintf("%d:%d:%d:%d:%d:%d", x.State, x.InFlightCount, x.ReadyCount, x.FinishCount, x.RequeueCount, x.MessageCount))
				}
				sort.Strings(cl)
				rows[key+"#cl"] = strings.Join(cl, " ")
				var cl2 []string
				for _, x := range c.Clients {
					cl2 = append(cl2, fmt.Sprintf("%s:%d:%d:%d:%d:%d", strings.TrimPrefix(x.ClientID, "k"), x.ReadyCount, x.InFlightCount, x.MessageCount, x.FinishCount, x.RequeueCount))
				}
				sort.Slice(cl2, func(i, j int) bool {
					a, _ := strconv.Atoi(strings.SplitN(cl2[i], ":", 2)[0])
					b, _ := strconv.Atoi(strings.SplitN(cl2[j], ":", 2)[0])
					return a < b
				})
				rows[key+"#byid"] = strings.Join(cl2, " ")
			}
		}
	}
	return rows, nil
}

func vfE2RowsText(b []byte, withClients bool) map[string]string {
	rows := map[string]string{}
	topic, key := "", ""
	var cl []string
	flush := func() {
		if key != "" && withClients {
			sort.Strings(cl)
			rows[key+"#cl"] = strings.Join(cl, " ")
		}
		cl = nil
	}
	pb := func(s string) string { return vfE2B(s == "*P") }
	for _, line := range strings.Split(string(b), "\n") {
		if m := vfE2TopicRe.FindStringSubmatch(line); m != nil {
			flush()
			key = ""
			topic = m[2]
			rows[topic] = fmt.Sprintf("depth=%s bdepth=%s mc=%s paused=%s", m[3], m[4], m[5], pb(m[1]))
		} else if m := vfE2ChanRe.FindStringSubmatch(line); m != nil {
			flush()
			key = topic + "/" + m[2]
			rows[key] = fmt.Sprintf("depth=%s bdepth=%s inflight=%s deferred=%s mc=%s rq=%s to=%s paused=%s",
				m[3], m[4], m[5], m[6], m[9], m[7], m[8], pb(m[1]))
		} else if m := vfE2CliRe.FindStringSubmatch(line); m != nil {
			cl = append(cl, fmt.Sprintf("%s:%s:%s:%s:%s:%s", m[1], m[2], m[3], m[4], m[5], m[6]))
		}
	}
	flush()
	return rows
}

// audit B14 — the canonical form of one /stats answer that the Lean driver derives from
// Model.ChanStats.rows fmt (filterSnap ft fc incl (snapshot s)) (`statsq` lines): rows sorted by (topic id, channel id),
// topic "T<t> depth bdepth mc paused[ b=bytes]", channel "C<t>/<c> depth bdepth inflight deferred mc rq to paused[ n=clients][ cl=[…]]"
type vfE2SqRow struct {
	t, c int // c = -1: topic row
	s    string
}

func vfE2SqIDs(topic, channel string) (int, int) {
	t, c := -1, -1
	fmt.Sscanf(topic, "t%d", &t)
	if channel != "" {
		fmt.Sscanf(strings.TrimSuffix(channel, "#ephemeral"), "c%d", &c)
	}
	return t, c
}

func vfE2SqJoin(rows []vfE2SqRow) string {
	if len(rows) == 0 {
		return "-"
	}
	sort.SliceStable(rows, func(i, j int) bool {
		if rows[i].t != rows[j].t {
			return rows[i].t < rows[j].t
		}
		return rows[i].c < rows[j].c
	})
	var out []string
	for _, r := range rows {
		out = append(out, r.s)
	}
	return strings.Join(out, "; ")
}

func vfE2SqP(p bool) int {
	if p {
		return 1
	}
	return 0
}

func vfE2StatsqJSON(b []byte, withClients bool) (string, error) {
	var doc struct {
		Topics []vfE2JT `json:"topics"`
	}
	if err := json.Unmarshal(b, &doc); err != nil {
		return "", err
	}
	var rows []vfE2SqRow
	for _, t := range doc.Topics {
		tid, _ := vfE2SqIDs(t.TopicName, "")
		rows = append(rows, vfE2SqRow{tid, -1, fmt.Sprintf("T%d %d %d %d %d b=%d", tid, t.Depth, t.BackendDepth, t.MessageCount, vfE2SqP(t.Paused), t.MessageBytes)})
		for _, c := range t.Channels {
			_, cid := vfE2SqIDs(t.TopicName, c.ChannelName)
			r := fmt.Sprintf("C%d/%d %d %d %d %d %d %d %d %d n=%d", tid, cid, c.Depth, c.BackendDepth, c.InFlightCount, c.DeferredCount,
				c.MessageCount, c.RequeueCount, c.TimeoutCount, vfE2SqP(c.Paused), c.ClientCount)
			if withClients {
				var cl []string
				for _, x := range c.Clients {
					cl = append(cl, fmt.Sprintf("%d:%d:%d:%d:%d", x.ReadyCount, x.InFlightCount, x.MessageCount, x.FinishCount, x.RequeueCount))
				}
				sort.Strings(cl)
				r += " cl=[" + strings.Join(cl, "|") + "]"
			}
			rows = append(rows, vfE2SqRow{tid, cid, r})
		}
	}
	return vfE2SqJoin(rows), nil
}

func vfE2StatsqText(b []byte, withClients bool) string {
	var rows []vfE2SqRow
	tid := -1
	topic := ""
	cur := -1
	var cl []string
	flush := func() {
		if cur >= 0 && withClients {
			sort.Strings(cl)
			rows[cur].s += " cl=[" + strings.Join(cl, "|") + "]"
		}
		cl, cur = nil, -1
	}
	for _, line := range strings.Split(string(b), "\n") {
		if m := vfE2TopicRe.FindStringSubmatch(line); m != nil {
			flush()
			topic = m[2]
			tid, _ = vfE2SqIDs(topic, "")
			rows = append(rows, vfE2SqRow{tid, -1, fmt.Sprintf("T%d %s %s %s %d", tid, m[3], m[4], m[5], vfE2SqP(m[1] == "*P"))})
		} else if m := vfE2ChanRe.FindStringSubmatch(line); m != nil {
			flush()
			_, cid := vfE2SqIDs(topic, m[2])
			rows = append(rows, vfE2SqRow{tid, cid, fmt.Sprintf("C%d/%d %s %s %s %s %s %s %s %d", tid, cid, m[3], m[4], m[5], m[6], m[9], m[7], m[8], vfE2SqP(m[1] == "*P"))})
			cur = len(rows) - 1
		} else if m := vfE2CliRe.FindStringSubmatch(line); m != nil {
			// state inflt rdy fin re-q msgs  ->  rdy:inflt:msgs:fin:req
			cl = append(cl, fmt.Sprintf("%s:%s:%s:%s:%s", m[3], m[2], m[6], m[4], m[5]))
		}
	}
	flush()
	return vfE2SqJoin(rows)
}

// statsq emits one `statsq` line: the real answer under (format, topic filter, channel filter, include_clients) in the
// canonical form; the Lean driver answers with Model.ChanStats.rows … of its state under the same filter
func (h *vfE2H) statsq(format string, ft, fc int, wc bool, body []byte) {
	var impl string
	if format == "json" {
		var err error
		if impl, err = vfE2StatsqJSON(body, wc); err != nil {
			return
		}
	} else {
		impl = vfE2StatsqText(body, wc)
	}
	f := func(x int) string {
		if x < 0 {
			return "-"
		}
		return strconv.Itoa(x)
	}
	h.emit(fmt.Sprintf("statsq %s %s %s %d", format, f(ft), f(fc), vfE2SqP(wc)), impl)
	h.count("stats:statsq:" + format)
}

// statsCheck: C13.5 render_agree (every format x filter combination projects one snapshot),
// C13.4 nonneg, and the per-channel line compared with the model.
func (h *vfE2H) statsCheck() {
	code, b := h.httpGet("/stats?format=json")
	if code != 200 {
		h.fail("stats-http", "/stats?format=json answered %d", code)
		return
	}
	full, err := vfE2RowsJSON(b, true)
	if err != nil {
		h.fail("stats-json", "unparsable /stats json: %v", err)
		return
	}
	for k, v := range full {
		if strings.Contains(v, "=-") || strings.Contains(v, ":-") {
			h.fail("negative", "/stats row %s has a negative number: %s", k, v)
		}
	}
	cmp := func(what string, rows map[string]string, restrictT, restrictC string, withClients bool) {
		for k, v := range rows {
			if !withClients && (strings.HasSuffix(k, "#cl") || strings.HasSuffix(k, "#byid")) {
				continue
			}
			if fv, ok := full[k]; !ok || fv != v {
				h.fail("render", "%s: row %s = %q but the unfiltered JSON says %q", what, k, v, fv)
			}
		}
		// completeness: every row of the full snapshot that matches the filter is present
		for k := range full {
			if strings.Contains(k, "#") {
				continue
			}
			tn := strings.SplitN(k, "/", 2)[0]
			if restrictT != "" && tn != restrictT {
				continue
			}
			if strings.Contains(k, "/") && restrictC != "" && strings.SplitN(k, "/", 2)[1] != restrictC {
				continue
			}
			if restrictC != "" && !strings.Contains(k, "/") {
				if _, ok := full[k+"/"+restrictC]; !ok {
					continue // topic without that channel is omitted
				}
			}
			if _, ok := rows[k]; !ok {
				h.fail("render", "%s: row %s missing", what, k)
			}
		}
	}
	h.statsq("json", -1, -1, true, b)
	code, tb := h.httpGet("/stats")
	if code == 200 {
		cmp("text", vfE2RowsText(tb, true), "", "", true)
		h.statsq("text", -1, -1, true, tb)
	} else {
		h.fail("stats-http", "/stats answered %d", code)
	}
	// a channel filter WITHOUT a topic filter: every topic owning a channel of that name is reported,
	// also one that sorts after a topic lacking it (plus a name no topic owns: empty answer)
	cnames := map[string]bool{"vfe2_nosuch": true}
	for _, tp := range h.sortedTopics() {
		for _, ch := range tp.sortedChans() {
			cnames[ch.name] = true
		}
	}
	var cns []string
	for n := range cnames {
		cns = append(cns, n)
	}
	sort.Strings(cns)
	for _, cf := range cns {
		for _, ic := range []string{"", "false"} {
			q := "channel=" + strings.ReplaceAll(cf, "#", "%23")
			if ic != "" {
				q += "&include_clients=" + ic
			}
			wc := ic != "false"
			code, jb := h.httpGet("/stats?format=json&" + q)
			if code != 200 {
				h.fail("stats-http", "/stats?format=json&%s answered %d", q, code)
				continue
			}
			rows, err := vfE2RowsJSON(jb, wc)
			if err != nil {
				h.fail("stats-json", "unparsable json for %s", q)
				continue
			}
			cmp("json "+q, rows, "", cf, wc)
			// the model filters by channel id: only when the NAME determines it (no c<n> next to c<n>#ephemeral in another topic)
			_, cfid := vfE2SqIDs("", cf)
			if cf == "vfe2_nosuch" {
				cfid = 999999
			}
			amb := false
			for _, tp := range h.sortedTopics() {
				for _, ch := range tp.sortedChans() {
					if ch.c == cfid && ch.name != cf {
						amb = true
					}
				}
			}
			if !amb {
				h.statsq("json", -1, cfid, wc, jb)
			}
			if code, tb := h.httpGet("/stats?" + q); code == 200 {
				cmp("text "+q, vfE2RowsText(tb, wc), "", cf, wc)
				if !amb {
					h.statsq("text", -1, cfid, wc, tb)
				}
			} else {
				h.fail("stats-http", "/stats?%s answered %d", q, code)
			}
			h.count("stats:query-channel-only")
		}
	}
	for _, tp := range h.sortedTopics() {
		filters := []string{""}
		for _, ch := range tp.sortedChans() {
			filters = append(filters, ch.name)
		}
		for _, cf := range filters {
			for _, ic := range []string{"", "true", "false"} {
				q := "topic=" + tp.name
				if cf != "" {
					q += "&channel=" + strings.ReplaceAll(cf, "#", "%23")
				}
				if ic != "" {
					q += "&include_clients=" + ic
				}
				wc := ic != "false"
				code, jb := h.httpGet("/stats?format=json&" + q)
				if code != 200 {
					h.fail("stats-http", "/stats?format=json&%s answered %d", q, code)
					continue
				}
				rows, err := vfE2RowsJSON(jb, wc)
				if err != nil {
					h.fail("stats-json", "unparsable json for %s", q)
					continue
				}
				cmp("json "+q, rows, tp.name, cf, wc)
				cfid := -1
				if cf != "" {
					_, cfid = vfE2SqIDs("", cf)
				}
				h.statsq("json", tp.t, cfid, wc, jb)
				code, tb := h.httpGet("/stats?" + q)
				if code == 200 {
					cmp("text "+q, vfE2RowsText(tb, wc), tp.name, cf, wc)
					h.statsq("text", tp.t, cfid, wc, tb)
				}
				h.count("stats:query")
			}
		}
		for _, ch := range tp.sortedChans() {
			key := tp.name + "/" + ch.name
			h.emit(fmt.Sprintf("stats %d %d", tp.t, ch.c), fmt.Sprintf("%s nclients=%s clients=[%s]", full[key], full[key+"#n"], full[key+"#byid"]))
		}
	}
}

var _ = math.MaxInt64
var _ = filepath.Join
