package nsqd

// Corr-E2 harness, part 6: legs on a private NSQD whose own background machinery runs for real —
// the parts the serial harness otherwise replaces (it owns time and calls processInFlightQueue
// itself; it never restarts the daemon). Each command is a self-contained direct oracle on the
// implementation: it starts its own NSQD (own data directory), emits no op lines, and is driven from
// corpus scripts replayed on every run.
//
//   scanloop      — C01 (seeded C01-m6): the real queueScanLoop must scan a channel that replaced
//                   another one between two refreshes of its cached channel list.
//   pausedrestart — C03 (seeded C03-m5): a topic persisted as paused stays paused across a restart
//                   (LoadMetadata pauses it before Start()): nothing reaches its channels until unpause.
//   ephtopic      — C01 (audit A5): an `#ephemeral` TOPIC drops on a full memory queue — and only then —,
//                   answers the publisher OK and counts the message; a durable topic next to it keeps everything.

import (
	"bufio"
	"encoding/binary"
	"fmt"
	"io"
	"net"
	"os"
	"strings"
	"sync/atomic"
	"time"
)

func (h *vfE2H) privateNSQD(dir string, mut func(*Options)) *NSQD {
	opts := NewOptions()
	opts.Logger = vfE2NopLogger{}
	opts.TCPAddress, opts.HTTPAddress, opts.HTTPSAddress = vfLoop3()
	opts.DataPath = dir
	opts.ClientTimeout = 20 * time.Minute
	opts.MaxHeartbeatInterval = 20 * time.Minute
	opts.MinOutputBufferTimeout = time.Millisecond
	opts.StatsdAddress = ""
	if mut != nil {
		mut(opts)
	}
	n, err := New(opts)
	if err != nil {
		panic(err)
	}
	return n
}

// the hooks of the serial harness count pumps that hold a message; the pumps of a private NSQD
// must not leave marks behind
func (h *vfE2H) forgetBusy() {
	h.busyMu.Lock()
	h.busy = map[int64]bool{}
	atomic.StoreInt64(&h.nbusy, 0)
	h.busyMu.Unlock()
}

type vfE2Raw struct {
	nc net.Conn
	rd *bufio.Reader
}

func vfE2DialRaw(addr string) (*vfE2Raw, error) {
	nc, err := net.DialTimeout("tcp", addr, 5*time.Second)
	if err != nil {
		return nil, err
	}
	nc.Write([]byte("  V2"))
	return &vfE2Raw{nc: nc, rd: bufio.NewReaderSize(nc, 1<<16)}, nil
}

func (r *vfE2Raw) send(line string, body []byte) {
	b := []byte(line + "\n")
	if body != nil {
		var sz [4]byte
		binary.BigEndian.PutUint32(sz[:], uint32(len(body)))
		b = append(append(b, sz[:]...), body...)
	}
	r.nc.Write(b)
}

// frame returns the next frame (heartbeats answered and skipped); ok=false on timeout / close
func (r *vfE2Raw) frame(d time.Duration) (int32, []byte, bool) {
	for {
		r.nc.SetReadDeadline(time.Now().Add(d))
		var hdr [8]byte
		if _, err := io.ReadFull(r.rd, hdr[:]); err != nil {
			return 0, nil, false
		}
		data := make([]byte, int32(binary.BigEndian.Uint32(hdr[:4]))-4)
		if _, err := io.ReadFull(r.rd, data); err != nil {
			return 0, nil, false
		}
		typ := int32(binary.BigEndian.Uint32(hdr[4:]))
		if typ == frameTypeResponse && string(data) == "_heartbeat_" {
			r.send("NOP", nil)
			continue
		}
		return typ, data, true
	}
}

func (r *vfE2Raw) expectOK(what string) error {
	typ, d, ok := r.frame(5 * time.Second)
	if !ok || typ != frameTypeResponse || string(d) != "OK" {
		return fmt.Errorf("%s answered %q (type %d)", what, d, typ)
	}
	return nil
}

// doScanLoop — see the file comment. Topic with channels `keep` (control) and `old`; after the
// scanner has cached both, `old` is deleted and `new` created at once (equal count). On `new` and on
// `keep`: one message in flight to a consumer that ignores it (default msg timeout 300 ms) and one
// deferred message. Both must come (again) within the bound. If the control channel's do not come
// either, the scanner made no progress on this machine: inconclusive, not a failure.
func (h *vfE2H) doScanLoop() {
	dir, err := os.MkdirTemp(os.Getenv("VERIF_OUT"), "e2scan-")
	if err != nil {
		panic(err)
	}
	defer os.RemoveAll(dir)
	const scan, refresh = 20 * time.Millisecond, 250 * time.Millisecond
	n := h.privateNSQD(dir, func(o *Options) {
		o.QueueScanInterval = scan
		o.QueueScanRefreshInterval = refresh
		o.MsgTimeout = 300 * time.Millisecond
	})
	go n.Main()
	defer func() {
		n.Exit()
		h.forgetBusy()
	}()
	addr := n.RealTCPAddr().String()
	tp := n.GetTopic("vfe2_scan")
	tp.GetChannel("keep")
	tp.GetChannel("old")
	time.Sleep(2*refresh + 60*time.Millisecond) // the scanner's cached list is now [keep old]
	if err := tp.DeleteExistingChannel("old"); err != nil {
		h.fail("sched", "scanloop: delete old: %v", err)
		return
	}
	tp.GetChannel("new")
	t0 := time.Now()
	type res struct {
		first, again, deferred bool
		err                    error
	}
	watch := func(chn string, out chan res) {
		var r res
		c, err := vfE2DialRaw(addr)
		if err != nil {
			r.err = err
			out <- r
			return
		}
		defer c.nc.Close()
		c.send("SUB vfe2_scan "+chn, nil)
		if r.err = c.expectOK("SUB"); r.err != nil {
			out <- r
			return
		}
		c.send("RDY 3", nil)
		deadline := time.Now().Add(refresh + 10*scan + 1500*time.Millisecond + 600*time.Millisecond)
		for time.Now().Before(deadline) && !(r.again && r.deferred) {
			typ, d, ok := c.frame(time.Until(deadline))
			if !ok {
				break
			}
			if typ != frameTypeMessage || len(d) < 27 {
				continue
			}
			att := binary.BigEndian.Uint16(d[8:10])
			switch d[26] {
			case 'i': // the ignored message
				if att == 1 {
					r.first = true
				} else {
					r.again = true
				}
			case 'd':
				r.deferred = true
				c.send("FIN "+string(d[10:26]), nil)
			}
		}
		out <- r
	}
	outNew, outKeep := make(chan res, 1), make(chan res, 1)
	go watch("new", outNew)
	go watch("keep", outKeep)
	time.Sleep(50 * time.Millisecond) // both subscribed: the messages below are fanned out to keep and new
	pub, err := vfE2DialRaw(addr)
	if err != nil {
		h.fail("sched", "scanloop: dial: %v", err)
		return
	}
	defer pub.nc.Close()
	pub.send("PUB vfe2_scan", []byte("ignored"))
	pub.expectOK("PUB")
	pub.send("DPUB vfe2_scan 200", []byte("deferred"))
	pub.expectOK("DPUB")
	rn, rk := <-outNew, <-outKeep
	el := time.Since(t0).Round(time.Millisecond)
	h.count("sched:scanloop")
	if rn.err != nil || rk.err != nil {
		h.fail("sched", "scanloop: consumer: %v %v", rn.err, rk.err)
		return
	}
	if !(rk.again && rk.deferred) {
		h.count("sched:scanloop:inconclusive")
		fmt.Printf("NOTE scanloop inconclusive: the control channel saw again=%v deferred=%v within %v\n", rk.again, rk.deferred, el)
		return
	}
	if !rn.first {
		h.fail("sched", "scanloop: the message published after SUB never reached channel new")
		return
	}
	if !rn.again {
		h.fail("missed-timeout", "queueScanLoop: a message in flight (msg timeout 300ms) on a channel created right after another channel of the topic was deleted (equal channel count within one refresh interval of %v) was not timed out and redelivered within %v; on the control channel that existed before it was", refresh, el)
	}
	if !rn.deferred {
		h.fail("missed-defer", "queueScanLoop: a message deferred by 200ms on a channel created right after another channel of the topic was deleted (equal channel count within one refresh interval of %v) was not delivered within %v; on the control channel that existed before it was", refresh, el)
	}
}

// doPausedRestart — see the file comment.
func (h *vfE2H) doPausedRestart() {
	dir, err := os.MkdirTemp(os.Getenv("VERIF_OUT"), "e2restart-")
	if err != nil {
		panic(err)
	}
	defer os.RemoveAll(dir)
	defer h.forgetBusy()
	a := h.privateNSQD(dir, nil)
	go a.Main()
	tp := a.GetTopic("vfe2_paused")
	tp.GetChannel("c")
	tp.Pause()
	for i := 0; i < 3; i++ {
		if err := tp.PutMessage(NewMessage(tp.GenerateID(), []byte(fmt.Sprintf("p%d", i)))); err != nil {
			h.fail("pub", "pausedrestart: publish: %v", err)
		}
	}
	time.Sleep(50 * time.Millisecond)
	if d := tp.GetChannel("c").Depth(); d != 0 {
		h.fail("topic-pause", "a paused topic handed %d message(s) to its channel", d)
	}
	a.PersistMetadata()
	a.Exit()

	b := h.privateNSQD(dir, nil)
	if err := b.LoadMetadata(); err != nil {
		h.fail("sched", "pausedrestart: LoadMetadata: %v", err)
		return
	}
	go b.Main()
	defer b.Exit()
	tb := b.GetTopic("vfe2_paused")
	if !tb.IsPaused() {
		h.fail("topic-pause", "a topic persisted as paused is not paused after the restart")
		return
	}
	c, err := vfE2DialRaw(b.RealTCPAddr().String())
	if err != nil {
		h.fail("sched", "pausedrestart: dial: %v", err)
		return
	}
	defer c.nc.Close()
	c.send("SUB vfe2_paused c", nil)
	if err := c.expectOK("SUB"); err != nil {
		h.fail("sched", "pausedrestart: %v", err)
		return
	}
	c.send("RDY 3", nil)
	// one more publish while paused, over the front end
	c2, _ := vfE2DialRaw(b.RealTCPAddr().String())
	if c2 != nil {
		defer c2.nc.Close()
		c2.send("PUB vfe2_paused", []byte("p3"))
		c2.expectOK("PUB")
	}
	h.count("sched:pausedrestart")
	typ, d, ok := c.frame(400 * time.Millisecond)
	rc := tb.GetChannel("c")
	rc.inFlightMutex.Lock()
	nif := len(rc.inFlightMessages)
	rc.inFlightMutex.Unlock()
	if (ok && typ == frameTypeMessage) || rc.Depth() != 0 || nif != 0 || !tb.IsPaused() {
		h.fail("topic-pause", "restart with a topic persisted as paused (4 messages in it, a consumer with RDY 3 on its channel): while IsPaused()=%v the channel has depth %d, %d in flight, the consumer received a message=%v — a paused topic must hand nothing to its channels",
			tb.IsPaused(), rc.Depth(), nif, ok && typ == frameTypeMessage)
		_ = d
		return
	}
	tb.UnPause()
	got := 0
	for got < 4 {
		typ, d, ok := c.frame(3 * time.Second)
		if !ok {
			break
		}
		if typ == frameTypeMessage && len(d) >= 26 {
			got++
			c.send("FIN "+string(d[10:26]), nil)
		}
	}
	if got != 4 {
		h.fail("lost", "pausedrestart: after unpause %d of the 4 messages published while paused were delivered", got)
	}
}

// doBusyPause — C03 (seeded C03-m7): a topic is paused WHILE its pump is busy (mid-backlog: the pump is
// kept inside Channel.PutMessage of the topic's channel through that channel's exitMutex, five more
// messages wait in the topic queue). Topic.doPause is a handshake: Pause() returns only when the pump has
// taken the notification, so from the moment it returns nothing more may be handed to the channel —
// whatever was published before or after — until UnPause(), after which everything is. (How many of
// the backlog the pump still hands over BEFORE Pause() returns is the select's choice and not judged.)
func (h *vfE2H) doBusyPause() {
	dir, err := os.MkdirTemp(os.Getenv("VERIF_OUT"), "e2busypause-")
	if err != nil {
		panic(err)
	}
	defer os.RemoveAll(dir)
	defer h.forgetBusy()
	n := h.privateNSQD(dir, nil)
	go n.Main()
	defer n.Exit()
	tp := n.GetTopic("vfe2_busypause")
	ch := tp.GetChannel("c")
	total := uint64(0)
	pub := func(k int) {
		for i := 0; i < k; i++ {
			if err := tp.PutMessage(NewMessage(tp.GenerateID(), []byte("bp"))); err != nil {
				h.fail("pub", "busypause: publish: %v", err)
			}
			total++
		}
	}
	for round := 0; round < 3 && !h.aborted; round++ {
		base := atomic.LoadUint64(&ch.messageCount)
		// audit A10: the round as a schedule of Nsq.Model.TopicPause (cached enable bit | flag store | hand-shake);
		// one token per micro-step, the implementation's answer is + (happened) / - (refused) per token
		tpOps, tpImpl := []string{"m1", "u", "s"}, []string{"+", "+", "+"}
		tp1 := func(tok string, ok bool) {
			tpOps = append(tpOps, tok)
			if ok {
				tpImpl = append(tpImpl, "+")
			} else {
				tpImpl = append(tpImpl, "-")
			}
		}
		nextFan := 1
		ch.exitMutex.Lock()
		locked := true
		unlock := func() {
			if locked {
				ch.exitMutex.Unlock()
				locked = false
			}
		}
		pub(6)
		for i := 0; i < 4000 && tp.Depth() > 5; i++ {
			time.Sleep(250 * time.Microsecond)
		}
		if tp.Depth() > 5 {
			unlock()
			h.fail("sched", "busypause: the topic pump did not pick a message up")
			return
		}
		// the pump now sits inside ch.PutMessage with one message in its hands, 5 wait in the topic queue
		for i := 1; i <= 6; i++ {
			tp1(fmt.Sprintf("p%d", i), true)
		}
		tp1("f1", true)
		nextFan = 2
		tp1("S1", true)
		ret := make(chan bool, 1)
		go func() { tp.Pause(); ret <- true }()
		early := false
		select {
		case <-ret:
			early = true
		case <-time.After(60 * time.Millisecond):
		}
		var c0 uint64
		if early {
			h.count("sched:busypause:pause-returned-while-pump-busy")
			c0 = atomic.LoadUint64(&ch.messageCount) + 1 // the message in the pump's hands
			unlock()
		} else {
			h.count("sched:busypause:pause-waited-for-pump")
			unlock()
			select {
			case <-ret:
			case <-time.After(8 * time.Second):
				h.fail("pause-http", "busypause: Topic.Pause() did not return within 8 s after the pump was released")
				h.aborted = true
				return
			}
			c0 = atomic.LoadUint64(&ch.messageCount)
		}
		if !tp.IsPaused() {
			h.fail("topic-pause", "busypause: Pause() returned but the topic is not paused")
		}
		// messages 2..(c0-base) were handed over between the flag store and the return of Pause()
		for ; uint64(nextFan) <= c0-base && nextFan <= 6; nextFan++ {
			tp1(fmt.Sprintf("f%d", nextFan), true)
		}
		tp1("A", true) // Pause() returned
		pub(2) // a paused topic keeps accepting publishes
		tp1("p7", true)
		tp1("p8", true)
		time.Sleep(40 * time.Millisecond)
		c1 := atomic.LoadUint64(&ch.messageCount)
		if nextFan <= 8 {
			tp1(fmt.Sprintf("f%d", nextFan), c1 > c0) // did the pump take one more although Pause() had returned?
		}
		if c1 > c0 {
			h.emit("tpause "+strings.Join(tpOps, " "), strings.Join(tpImpl, ""))
			h.fail("topic-pause", "Topic.Pause() had returned (topic paused: flag set, pump busy with a backlog of 5 when it was issued) — yet %d more message(s) were handed to channel c afterwards (message_count %d -> %d of %d published; topic depth %d)",
				c1-c0, c0, c1, total, tp.Depth())
			h.aborted = true
			return
		}
		if c1-base >= 8 {
			h.count("sched:busypause:backlog-already-gone")
		}
		tp.UnPause()
		for i := 0; i < 8000 && atomic.LoadUint64(&ch.messageCount) < total; i++ {
			time.Sleep(250 * time.Microsecond)
		}
		got := atomic.LoadUint64(&ch.messageCount)
		tp1("S0", true)
		tp1("A", true)
		for ; nextFan <= 8; nextFan++ {
			tp1(fmt.Sprintf("f%d", nextFan), got == total)
		}
		h.emit("tpause "+strings.Join(tpOps, " "), strings.Join(tpImpl, ""))
		if got != total {
			h.fail("settle-stall", "busypause: after UnPause() only %d of %d published messages reached channel c within 2 s (topic depth %d, paused=%v)",
				got, total, tp.Depth(), tp.IsPaused())
			h.aborted = true
			return
		}
	}
}

// doEphTopic — C01, audit A5: `#ephemeral` topics (model Nsq.Model.TopicEph, theorems Nsq.Props.C01Eph). Per
// mem-queue-size (2 and 0) a private NSQD with topic `vfe2_eph#ephemeral` and the durable control topic `vfe2_dur`,
// one channel `c` each, both topics paused (Pause() returns after the pump has disarmed its queue cases: nothing
// is taken out of the topic queues). Five publishes of 3 bytes to each with Topic.PutMessage, reading
// len(memoryMsgChan) before and Depth() after each. Oracles: every publish is acknowledged (nil) and counted; the
// ephemeral topic keeps a message iff its memory queue had room, and drops it otherwise (kept + dropped =
// acknowledged); the durable topic keeps all; after UnPause() each channel receives exactly what its topic kept.
// One `teph` line per topic: the publishes as a run of Nsq.Model.TopicEph.stepE (drv_e2), answers k(ept) / d(ropped)
// per publish, then message_count, message_bytes and depth.
func (h *vfE2H) doEphTopic() {
	for _, memq := range []int64{2, 0} {
		if h.aborted {
			return
		}
		h.ephTopicRound(memq)
	}
}

func (h *vfE2H) ephTopicRound(memq int64) {
	dir, err := os.MkdirTemp(os.Getenv("VERIF_OUT"), "e2ephtopic-")
	if err != nil {
		panic(err)
	}
	defer os.RemoveAll(dir)
	defer h.forgetBusy()
	n := h.privateNSQD(dir, func(o *Options) { o.MemQueueSize = memq })
	go n.Main()
	defer n.Exit()
	const npub = 5
	body := []byte("eph")
	type side struct {
		eph         bool
		tp          *Topic
		ch          *Channel
		letters     string
		kept, acked int
	}
	sides := []*side{{eph: true, tp: n.GetTopic("vfe2_eph#ephemeral")}, {eph: false, tp: n.GetTopic("vfe2_dur")}}
	for _, sd := range sides {
		sd.ch = sd.tp.GetChannel("c")
		sd.tp.Pause()
		if !sd.tp.IsPaused() {
			h.fail("sched", "ephtopic: Pause() returned but topic %s is not paused", sd.tp.name)
			return
		}
		if sd.tp.ephemeral != sd.eph {
			h.fail("eph-topic-drop", "ephtopic: NewTopic(%q) has ephemeral=%v", sd.tp.name, sd.tp.ephemeral)
		}
	}
	h.count("sched:ephtopic")
	for _, sd := range sides {
		name := sd.tp.name
		for i := 0; i < npub; i++ {
			memBefore, depthBefore := len(sd.tp.memoryMsgChan), sd.tp.Depth()
			room := int64(memBefore) < memq // (mem-queue-size 0, paused: nobody receives — no room)
			err := sd.tp.PutMessage(NewMessage(sd.tp.GenerateID(), body))
			if err != nil {
				// the publisher of an ephemeral topic is answered OK even when the message is dropped
				h.fail("pub", "ephtopic: publish %d to %s (mem-queue-size %d, %d in memory) failed: %v", i+1, name, memq, memBefore, err)
				sd.letters += "E"
				continue
			}
			sd.acked++
			kept := sd.tp.Depth() == depthBefore+1
			if kept {
				sd.kept++
				sd.letters += "k"
			} else {
				sd.letters += "d"
			}
			if sd.tp.Depth() != depthBefore && !kept {
				h.fail("eph-topic-drop", "ephtopic: publish %d to %s changed the topic depth %d -> %d", i+1, name, depthBefore, sd.tp.Depth())
			}
			switch {
			case !sd.eph && !kept:
				h.fail("lost", "the DURABLE topic %s (mem-queue-size %d, %d in memory) acknowledged publish %d and did not keep it (depth stays %d)", name, memq, memBefore, i+1, depthBefore)
			case sd.eph && room && !kept:
				h.fail("eph-topic-drop", "the #ephemeral topic %s dropped publish %d although its memory queue had room (%d of %d)", name, i+1, memBefore, memq)
			case sd.eph && !room && kept:
				h.fail("eph-topic-drop", "the #ephemeral topic %s kept publish %d although its memory queue was full (%d of %d; depth %d -> %d, backend depth %d): an ephemeral topic has no backend queue", name, i+1, memBefore, memq, depthBefore, sd.tp.Depth(), sd.tp.backend.Depth())
			}
		}
		mc, mb := atomic.LoadUint64(&sd.tp.messageCount), atomic.LoadUint64(&sd.tp.messageBytes)
		e := 0
		if sd.eph {
			e = 1
		}
		h.emit(fmt.Sprintf("teph eph=%d cap=%d size=%d%s", e, memq, len(body), strings.Repeat(" p", npub)),
			fmt.Sprintf("%s mc=%d mb=%d depth=%d", sd.letters, mc, mb, sd.tp.Depth()))
		if mc != uint64(sd.acked) || mb != uint64(sd.acked*len(body)) {
			h.fail("eph-topic-drop", "topic %s: %d publishes acknowledged (%d kept, %d dropped) but message_count=%d message_bytes=%d (a dropped message of an #ephemeral topic is acknowledged and counted)", name, sd.acked, sd.kept, sd.acked-sd.kept, mc, mb)
		}
		dropped := strings.Count(sd.letters, "d")
		if sd.kept+dropped != sd.acked || int64(sd.kept) != sd.tp.Depth() {
			h.fail("eph-topic-drop", "topic %s: kept %d + dropped %d != acknowledged %d, or depth %d != kept", name, sd.kept, dropped, sd.acked, sd.tp.Depth())
		}
		want := npub
		if sd.eph {
			want = int(memq)
			if want > npub {
				want = npub
			}
		}
		if sd.acked == npub && sd.kept != want {
			key := "eph-topic-drop"
			if !sd.eph {
				key = "lost"
			}
			h.fail(key, "topic %s with mem-queue-size %d kept %d of %d acknowledged publishes, expected %d (%s)", name, memq, sd.kept, npub, want, sd.letters)
		}
	}
	// resume: each channel receives exactly what its topic kept (no consumer: message_count / depth)
	for _, sd := range sides {
		sd.tp.UnPause()
	}
	for _, sd := range sides {
		for i := 0; i < 8000 && (atomic.LoadUint64(&sd.ch.messageCount) < uint64(sd.kept) || sd.tp.Depth() > 0); i++ {
			time.Sleep(250 * time.Microsecond)
		}
	}
	time.Sleep(30 * time.Millisecond)
	for _, sd := range sides {
		got, depth := atomic.LoadUint64(&sd.ch.messageCount), sd.ch.Depth()
		if got == uint64(sd.kept) && depth == int64(sd.kept) && sd.tp.Depth() == 0 {
			continue
		}
		switch {
		case got < uint64(sd.kept) || depth < int64(got):
			h.fail("lost", "ephtopic: after UnPause() channel c of %s has message_count %d, depth %d — its topic kept %d (topic depth now %d)", sd.tp.name, got, depth, sd.kept, sd.tp.Depth())
		default:
			h.fail("phantom", "ephtopic: after UnPause() channel c of %s has message_count %d, depth %d — its topic kept only %d", sd.tp.name, got, depth, sd.kept)
		}
	}
}
