package nsqd

// Corr-E2 harness, part 5: steered schedules — histories in which one operation is held between two
// of its critical sections (verif hooks / a white-box lock) while another one runs. Each command
// emits the op lines in an order in which the atomic model explains the unchanged code's behaviour,
// and carries its own direct oracle. They are driven from corpus scripts replayed on every run.

import (
	"bufio"
	"encoding/binary"
	"fmt"
	"io"
	"net"
	"sort"
	"strings"
	"sync/atomic"
	"time"
)

// onceGate returns a hook callback that blocks its first caller until release is closed.
func vfE2OnceGate() (func(string), chan bool, chan bool) {
	entered := make(chan bool, 1)
	release := make(chan bool)
	var armed int32 = 1
	return func(string) {
		if atomic.CompareAndSwapInt32(&armed, 1, 0) {
			entered <- true
			<-release
		}
	}, entered, release
}

// rawPub publishes without waiting for quiescence (the caller holds something)
func (h *vfE2H) rawPub(tp *vfE2Topic, size int) int {
	seq := h.nextSeq
	h.nextSeq++
	h.sizes[seq] = size
	h.pubT[seq] = [2]int64{time.Now().UnixNano(), 0}
	body := vfE2Body(seq, size)
	var sz [4]byte
	binary.BigEndian.PutUint32(sz[:], uint32(len(body)))
	code, _ := h.connCmd(h.pubc, "PUB "+tp.name, append(sz[:], body...), true)
	if code != "OK" {
		h.fail("pub", "publish refused (%s)", code)
		h.aborted = true
	}
	h.acked(tp, seq, size, false)
	h.emit(fmt.Sprintf("pub %d %d @T%d %d", tp.t, size, seq, vfE2Crc(body)), fmt.Sprintf("ids %d", seq))
	return seq
}

// fannedTo records (and reports) that message seq went to exactly the given channels
func (h *vfE2H) fannedTo(tp *vfE2Topic, seq int, chans []*vfE2Chan) {
	var got []string
	for _, c := range chans {
		got = append(got, fmt.Sprint(c.c))
		c.fannedN++
		c.fanned[seq] = true
		c.located[seq] = true
	}
	var rest []int
	for _, s := range tp.pending {
		if s != seq {
			rest = append(rest, s)
		}
	}
	tp.pending = rest
	h.emit(fmt.Sprintf("pump %d %d 0", tp.t, seq), strings.TrimSpace("ids "+strings.Join(got, " ")))
}

func (h *vfE2H) answerLine(kind string, k, seq int, code string, fatal bool) {
	switch kind {
	case "fin":
		h.emit(fmt.Sprintf("fin %d %d", k, seq), vfE2Fmt(code, fatal))
	case "req":
		h.emit(fmt.Sprintf("req %d %d 0 0", k, seq), vfE2Fmt(code, fatal))
	default:
		h.emit(fmt.Sprintf("touch %d %d 0", k, seq), vfE2Fmt(code, fatal))
	}
}

// doLateAnswer — C02: a late FIN/REQ/TOUCH of the previous holder A exactly while the message is
// being redelivered to B (B's pump parked at `chan.inflight.afterMapPush`, i.e. the message is
// already findable in the in-flight map). It must be refused and change nothing.
func (h *vfE2H) doLateAnswer(a, b int, tok, kind string) {
	cnA, cnB := h.conns[a], h.conns[b]
	if cnA == nil || cnB == nil || cnA.dead || cnB.dead || !cnA.subbed || !cnB.subbed || cnA.t != cnB.t || cnA.c != cnB.c {
		return
	}
	ch := h.chanOf(cnA)
	tp := h.topics[cnA.t]
	seq, id := h.idOf(tok, cnA.t)
	if ch == nil || ch.holder[seq] != a {
		return
	}
	h.park([]*vfE2Chan{ch}, true)
	h.exec(fmt.Sprintf("scanif %d %d pri:%d:0", cnA.t, cnA.c, seq))
	if _, still := ch.holder[seq]; still || h.aborted {
		return
	}
	gate, entered, release := vfE2OnceGate()
	VerifSetHook("chan.inflight.afterMapPush", gate)
	defer VerifSetHook("chan.inflight.afterMapPush", nil)
	h.relax = true
	cnB.nc.Write([]byte("RDY 1\nTOUCH " + string(vfE2Barrier) + "\n"))
	h.nextNonMsg(cnB, 5*time.Second)
	cnB.rdy = 1
	h.emit(fmt.Sprintf("rdy %d 1", b), "ok")
	select {
	case <-entered:
	case <-time.After(3 * time.Second):
		close(release)
		h.relax = false
		h.fail("sched", "lateanswer: k%d's pump did not start a delivery", b)
		return
	}
	var line string
	switch kind {
	case "fin":
		line = "FIN " + string(id)
	case "req":
		line = "REQ " + string(id) + " 0"
	default:
		kind = "touch"
		line = "TOUCH " + string(id)
	}
	code, fatal := h.connCmd(cnA, line, nil, false)
	if code == "ok" || fatal {
		h.fail("late-answer", "%s of message %d by its previous holder k%d, sent while the message is being redelivered to k%d, answered %s (expected the non-fatal E_%s_FAILED, nothing changed)",
			strings.ToUpper(kind), seq, a, b, vfE2Fmt(code, fatal), strings.ToUpper(kind))
		h.aborted = true
	}
	h.answerLine(kind, a, seq, code, fatal)
	h.count("sched:lateanswer:" + kind)
	close(release)
	h.relax = false
	h.after(tp)
}

// doFinScan — C02: the holder's FIN is parked at `chan.fin.afterPop` (out of the map, still in the
// heap) while the timeout scan runs at the message's deadline. The FIN was accepted: the scan
// must not count a timeout for it nor put it back on the queue.
func (h *vfE2H) doFinScan(k int, tok string) {
	cn := h.conns[k]
	if cn == nil || cn.dead || !cn.subbed {
		return
	}
	ch := h.chanOf(cn)
	tp := h.topics[cn.t]
	seq, id := h.idOf(tok, cn.t)
	if ch == nil || ch.holder[seq] != k {
		return
	}
	h.park([]*vfE2Chan{ch}, true)
	rc := h.realChan(ch)
	if rc == nil || cn.dead {
		return
	}
	var pri int64
	for _, e := range h.inflightOf(rc) {
		if e.seq == seq {
			pri = e.pri
		}
	}
	gate, entered, release := vfE2OnceGate()
	VerifSetHook("chan.fin.afterPop", gate)
	defer VerifSetHook("chan.fin.afterPop", nil)
	h.relax = true
	cn.nc.Write([]byte("FIN " + string(id) + "\nTOUCH " + string(vfE2Barrier) + "\n"))
	select {
	case <-entered:
	case <-time.After(3 * time.Second):
		close(release)
		h.relax = false
		h.fail("sched", "finscan: the FIN of k%d never reached the channel", k)
		return
	}
	before := h.inflightOf(rc)
	to0 := atomic.LoadUint64(&rc.timeoutCount)
	d0 := rc.Depth()
	rc.processInFlightQueue(pri)
	to1 := atomic.LoadUint64(&rc.timeoutCount)
	d1 := rc.Depth()
	left := map[int]int64{}
	for _, e := range h.inflightOf(rc) {
		left[e.seq] = e.dts
	}
	var ids []string
	for _, e := range before {
		if dts, ok := left[e.seq]; !ok || dts != e.dts {
			ids = append(ids, fmt.Sprint(e.seq))
			delete(ch.holder, e.seq)
			ch.nTimeout++
			if o := h.conns[e.conn]; o != nil {
				o.out--
			}
		}
	}
	close(release)
	f, ok := h.nextNonMsg(cn, 5*time.Second)
	code := "ok"
	if !ok || f.closed {
		code = "closed"
	} else if !strings.Contains(string(f.data), string(vfE2Barrier)) {
		code = vfE2Code(f.data)
		h.nextNonMsg(cn, 5*time.Second)
	}
	h.relax = false
	h.answered(cn, ch, seq, code == "ok", "FIN")
	if code == "ok" {
		ch.finished[seq] = true
		delete(ch.located, seq)
	}
	h.emit(fmt.Sprintf("fin %d %d", k, seq), vfE2Fmt(code, false))
	h.emit(fmt.Sprintf("scanif %d %d %d", cn.t, cn.c, pri), strings.TrimSpace("ids "+strings.Join(ids, " ")))
	if code == "ok" && (int(to1-to0) != len(ids) || int(d1-d0) != len(ids)) {
		h.fail("fin-final", "message %d: FIN by its holder k%d was accepted, yet the timeout scan running between the FIN's map removal and its heap removal counted %d timeouts and re-queued %d messages (%d other messages were due)",
			seq, k, to1-to0, d1-d0, len(ids))
	}
	h.count("sched:finscan")
	h.after(tp)
}

// doBusySub — C01: a channel is created (SUB) while the topic pump is in the middle of a message
// (it is kept inside Channel.PutMessage of an existing channel by holding that channel's
// exitMutex). A publish acknowledged after the SUB's OK must reach the new channel.
func (h *vfE2H) doBusySub(t, cnew int) {
	tp := h.topics[t]
	if tp == nil || tp.paused || len(tp.pending) != 0 || len(tp.chans) == 0 || tp.chans[cnew] != nil {
		return
	}
	old := tp.sortedChans()
	h.park(old, true)
	rcA := h.realChan(old[0])
	rt := h.realTopic(t)
	if rcA == nil || rt == nil || h.aborted {
		return
	}
	rcA.exitMutex.Lock()
	locked := true
	unlock := func() {
		if locked {
			rcA.exitMutex.Unlock()
			locked = false
		}
	}
	defer unlock()
	m1 := h.rawPub(tp, 20)
	for i := 0; i < 4000 && rt.Depth() != 0; i++ {
		time.Sleep(500 * time.Microsecond)
	}
	if rt.Depth() != 0 {
		h.fail("sched", "busysub: the topic pump did not pick the message up")
		return
	}
	// the pump holds m1 for the channel list it knew when it took it
	h.fannedTo(tp, m1, old)
	k := h.nextK
	h.nextK++
	cn := h.dial(k)
	cn.t, cn.c = t, cnew
	cn.mtNs = h.cfg.mtMs * 1000000
	h.conns[k] = cn
	ident := fmt.Sprintf(`{"client_id":"k%d","hostname":"h","feature_negotiation":false,"output_buffer_size":-1}`, k)
	var sz [4]byte
	binary.BigEndian.PutUint32(sz[:], uint32(len(ident)))
	if code, _ := h.connCmd(cn, "IDENTIFY", append(sz[:], ident...), true); code != "OK" {
		h.fail("identify", "IDENTIFY answered %s", code)
		return
	}
	cn.nc.Write([]byte(fmt.Sprintf("SUB %s %s\n", tp.name, vfE2ChanName(cnew, false))))
	f, early := h.nextNonMsg(cn, 150*time.Millisecond)
	if !early {
		unlock() // unchanged code: GetChannel waits for the pump
		f, _ = h.nextNonMsg(cn, 8*time.Second)
	}
	if string(f.data) != "OK" {
		h.fail("sub", "SUB answered %q", f.data)
		h.aborted = true
		return
	}
	cn.subbed = true
	nch := h.newChan(tp, cnew, false)
	if rc := h.realChan(nch); rc != nil {
		for _, cl := range h.clientsOfRaw(rc) {
			cl.metaLock.RLock()
			if cl.ClientID == fmt.Sprintf("k%d", k) {
				cn.cl = cl
				h.byCID[cl.ID] = k
			}
			cl.metaLock.RUnlock()
		}
	}
	h.emit(fmt.Sprintf("sub %d %d %d 0 %d 0", k, t, cnew, cn.mtNs), "ok")
	// acknowledged after the SUB's OK: every channel existing now is entitled to it
	m2 := h.rawPub(tp, 24)
	if early {
		h.count("sched:busysub:sub-ok-while-pump-busy")
	} else {
		h.count("sched:busysub:sub-waited-for-pump")
	}
	unlock()
	if rcN := h.realChan(nch); rcN != nil {
		for i := 0; i < 6000 && rt.Depth() != 0; i++ {
			time.Sleep(500 * time.Microsecond)
		}
		time.Sleep(5 * time.Millisecond)
		if rt.Depth() == 0 && atomic.LoadUint64(&rcN.messageCount) == 0 && atomic.LoadUint64(&rcA.messageCount) == old[0].fannedN+1 {
			h.fail("fanout-missed", "message %d was acknowledged after the SUB that created %s/%s had answered OK, but the topic pump fanned it out to the old channel list only: %s/%s never receives it",
				m2, tp.name, nch.name, tp.name, nch.name)
			h.aborted = true
			return
		}
	}
	h.after(tp)
}

func (h *vfE2H) clientsOfRaw(rc *Channel) []*clientV2 {
	var out []*clientV2
	rc.RLock()
	for _, c := range rc.clients {
		if cl, ok := c.(*clientV2); ok {
			out = append(out, cl)
		}
	}
	rc.RUnlock()
	return out
}

// doStall — C01: a consumer that subscribes, announces RDY n, never reads and then vanishes while
// nsqd is blocked writing a large message to it. Whatever its pump took off the queue must be
// in flight (and is later released by the timeout scan), nothing may be lost.
func (h *vfE2H) doStall(t, c, n, size int) {
	tp := h.topics[t]
	if tp == nil || tp.chans[c] == nil || tp.chans[c].eph {
		return
	}
	ch := tp.chans[c]
	h.park([]*vfE2Chan{ch}, true)
	for i := 0; i < n && !h.aborted; i++ {
		h.exec(fmt.Sprintf("pub %d %d", t, size))
	}
	rc := h.realChan(ch)
	if rc == nil || h.aborted {
		return
	}
	k := h.nextK
	h.nextK++
	nc, err := net.DialTimeout("tcp", h.tcpAddr, 5*time.Second)
	if err != nil {
		panic(err)
	}
	nc.(*net.TCPConn).SetReadBuffer(4096)
	nc.Write([]byte("  V2"))
	ident := fmt.Sprintf(`{"client_id":"k%d","hostname":"h","feature_negotiation":false}`, k)
	var sz [4]byte
	binary.BigEndian.PutUint32(sz[:], uint32(len(ident)))
	nc.Write(append(append([]byte("IDENTIFY\n"), sz[:]...), ident...))
	var frame [64]byte
	nc.SetReadDeadline(time.Now().Add(5 * time.Second))
	nc.Read(frame[:10]) // size + type + "OK"
	nc.Write([]byte(fmt.Sprintf("SUB %s %s\n", tp.name, ch.name)))
	nc.Read(frame[:10])
	cn := &vfE2Conn{k: k, nc: nc, frames: make(chan vfE2Frame, 1), t: t, c: c, subbed: true, mtNs: h.cfg.mtMs * 1000000, skew: true}
	h.conns[k] = cn
	for i := 0; i < 2000 && cn.cl == nil; i++ {
		for _, cl := range h.clientsOfRaw(rc) {
			cl.metaLock.RLock()
			if cl.ClientID == fmt.Sprintf("k%d", k) {
				cn.cl = cl
				h.byCID[cl.ID] = k
			}
			cl.metaLock.RUnlock()
		}
		if cn.cl == nil {
			time.Sleep(time.Millisecond)
		}
	}
	if cn.cl == nil {
		h.fail("sub", "stall: the consumer did not get registered")
		h.aborted = true
		return
	}
	h.emit(fmt.Sprintf("sub %d %d %d 0 %d 0", k, t, c, cn.mtNs), "ok")
	h.after(tp)
	nc.Write([]byte(fmt.Sprintf("RDY %d\n", n)))
	cn.rdy = int64(n)
	h.emit(fmt.Sprintf("rdy %d %d", k, n), "ok")
	// wait until the pump is stuck in a write: MessageCount stops moving
	last, stable := uint64(0), 0
	for i := 0; i < 400 && stable < 8; i++ {
		time.Sleep(20 * time.Millisecond)
		mc := atomic.LoadUint64(&cn.cl.MessageCount)
		if mc == last && mc > 0 {
			stable++
		} else {
			stable = 0
		}
		last = mc
	}
	if int(last) < n {
		h.count("sched:stall:pump-blocked-in-write")
	} else {
		h.count("sched:stall:everything-fitted-the-socket-buffers")
	}
	nc.(*net.TCPConn).SetLinger(0)
	nc.Close()
	for i := 0; i < 5000; i++ {
		gone := true
		for _, cl := range h.clientsOfRaw(rc) {
			if cl == cn.cl {
				gone = false
			}
		}
		if gone {
			break
		}
		time.Sleep(time.Millisecond)
	}
	// that pump left its loop out of a failed write, not through the guard: forget its busy mark
	// (every other consumer of the channel is parked)
	h.busyMu.Lock()
	h.busy = map[int64]bool{}
	atomic.StoreInt64(&h.nbusy, 0)
	h.busyMu.Unlock()
	taken := atomic.LoadUint64(&cn.cl.MessageCount)
	var mine []vfE2IF
	for _, e := range h.inflightOf(rc) {
		if e.conn == k {
			mine = append(mine, e)
		}
	}
	sort.Slice(mine, func(i, j int) bool { return mine[i].dts < mine[j].dts })
	for _, e := range mine {
		h.emit(fmt.Sprintf("deliver %d %d %d", k, e.seq, e.dts), fmt.Sprintf("msg %d %d %d", e.att, e.ts, e.crc))
		ch.lastAtt[e.seq] = int(e.att)
		ch.holder[e.seq] = k
	}
	if int(taken) != len(mine) {
		h.fail("unregistered", "the delivery pump of the vanished consumer k%d took %d messages off the queue of %s/%s but only %d are registered in flight: the others are in no queue and will never be redelivered",
			k, taken, tp.name, ch.name, len(mine))
	}
	cn.dead = true
	h.gone(cn)
	h.emit(fmt.Sprintf("disc %d", k), "ok")
	h.after(tp)
}

type vfE2SlowConsumer struct{ d time.Duration }

func (s *vfE2SlowConsumer) UnPause()                 { time.Sleep(s.d) }
func (s *vfE2SlowConsumer) Pause()                   { time.Sleep(s.d) }
func (s *vfE2SlowConsumer) Close() error             { return nil }
func (s *vfE2SlowConsumer) TimedOutMessage()         {}
func (s *vfE2SlowConsumer) Stats(string) ClientStats { return ClientV2Stats{} }
func (s *vfE2SlowConsumer) Empty()                   {}

// doSlowPause — C03: a channel whose client map also holds nfake consumers that are slow to
// notify (so Channel.Pause()/UnPause() take a while to walk over the consumers). Once the pause
// request has returned nothing published afterwards may be delivered until the unpause; after the
// unpause it must be.
func (h *vfE2H) doSlowPause(t, c, nfake int) {
	tp := h.topics[t]
	if tp == nil || tp.chans[c] == nil || tp.paused || tp.chans[c].paused {
		return
	}
	ch := tp.chans[c]
	rc := h.realChan(ch)
	if rc == nil || rc.Depth() != 0 {
		return
	}
	for i := 0; i < nfake; i++ {
		rc.AddClient(int64(1000000+i), &vfE2SlowConsumer{d: 15 * time.Millisecond})
	}
	defer func() {
		for i := 0; i < nfake; i++ {
			rc.RemoveClient(int64(1000000 + i))
		}
	}()
	q := fmt.Sprintf("topic=%s&channel=%s", tp.name, strings.ReplaceAll(ch.name, "#", "%23"))
	if code, _ := h.httpPost("/channel/pause?"+q, nil); code != 200 {
		h.fail("pause-http", "/channel/pause answered %d", code)
	}
	ch.paused = true
	h.emit(fmt.Sprintf("pausec %d %d", t, c), "ok")
	seq := h.rawPub(tp, 20)
	chans := tp.sortedChans()
	for i := 0; i < 4000; i++ {
		if atomic.LoadUint64(&rc.messageCount) == ch.fannedN+1 {
			break
		}
		time.Sleep(500 * time.Microsecond)
	}
	h.fannedTo(tp, seq, chans)
	// the pause was acknowledged before the publish: for 150 ms nothing may arrive
	time.Sleep(150 * time.Millisecond)
	for _, cn := range h.conns {
		if !cn.dead {
			h.drainFrames(cn)
		}
	}
	h.observe() // a frame on the paused channel is reported by the `paused-deliver` oracle
	if d := rc.Depth(); d != 1 && len(h.fails) == 0 {
		h.fail("paused-deliver", "message %d published after the pause of %s/%s was acknowledged left the queue (depth %d)", seq, tp.name, ch.name, d)
	}
	if code, _ := h.httpPost("/channel/unpause?"+q, nil); code != 200 {
		h.fail("pause-http", "/channel/unpause answered %d", code)
	}
	ch.paused = false
	h.emit(fmt.Sprintf("unpausec %d %d", t, c), "ok")
	for i := 0; i < nfake; i++ {
		rc.RemoveClient(int64(1000000 + i))
	}
	h.count("sched:slowpause")
	h.after(tp)
}

// doAttWrap — F11 (thorough tier only, corpus/C02/known/attempts_wrap.ops): one message on a private
// topic is REQueued (timeout 0) by its only consumer until it has been delivered n times, over the
// real TCP front end, nothing steered and nothing poked. Delivery number i must carry attempts i;
// the wire field and `Message.Attempts` are uint16, so delivery 65 536 carries 0. The private topic
// is outside the model (it is deleted before the command returns), the command emits no op line.
func (h *vfE2H) doAttWrap(n int) {
	if n <= 0 {
		n = 65537
	}
	const topic = "vfe2_attwrap"
	nc, err := net.DialTimeout("tcp", h.tcpAddr, 5*time.Second)
	if err != nil {
		h.fail("sched", "attwrap: dial: %v", err)
		return
	}
	defer func() {
		nc.Close()
		time.Sleep(50 * time.Millisecond)
		h.n.DeleteExistingTopic(topic)
		h.busyMu.Lock()
		h.busy = map[int64]bool{}
		atomic.StoreInt64(&h.nbusy, 0)
		h.busyMu.Unlock()
	}()
	rd := bufio.NewReaderSize(nc, 1<<16)
	frame := func() (int32, []byte, bool) {
		nc.SetReadDeadline(time.Now().Add(10 * time.Second))
		var hdr [8]byte
		if _, err := io.ReadFull(rd, hdr[:]); err != nil {
			return 0, nil, false
		}
		data := make([]byte, int32(binary.BigEndian.Uint32(hdr[:4]))-4)
		if _, err := io.ReadFull(rd, data); err != nil {
			return 0, nil, false
		}
		return int32(binary.BigEndian.Uint32(hdr[4:])), data, true
	}
	body := []byte("attempts-wrap")
	var sz [4]byte
	binary.BigEndian.PutUint32(sz[:], uint32(len(body)))
	nc.Write([]byte("  V2"))
	nc.Write(append(append([]byte("PUB "+topic+"\n"), sz[:]...), body...))
	if _, d, ok := frame(); !ok || string(d) != "OK" {
		h.fail("sched", "attwrap: PUB answered %q", d)
		return
	}
	nc.Write([]byte("SUB " + topic + " c\n"))
	if _, d, ok := frame(); !ok || string(d) != "OK" {
		h.fail("sched", "attwrap: SUB answered %q", d)
		return
	}
	nc.Write([]byte("RDY 1\n"))
	var id []byte
	bad := 0
	for i := 1; i <= n; i++ {
		typ, d, ok := frame()
		for ok && typ == frameTypeResponse && string(d) == "_heartbeat_" {
			nc.Write([]byte("NOP\n"))
			typ, d, ok = frame()
		}
		if !ok || typ != frameTypeMessage || len(d) < 26 {
			h.fail("sched", "attwrap: delivery %d did not arrive (frame type %d %q)", i, typ, d)
			return
		}
		att := int(binary.BigEndian.Uint16(d[8:10]))
		id = d[10:26]
		if att != i && bad < 2 {
			bad++
			h.fail("attempts-wrap-65536", "delivery number %d of one message on one channel carries attempts %d on the wire (Message.Attempts and the frame field are uint16: the count wraps at 65536)", i, att)
		}
		if i < n {
			nc.Write([]byte("REQ " + string(id) + " 0\n"))
		}
	}
	nc.Write([]byte("FIN " + string(id) + "\n"))
	h.count("sched:attwrap")
	h.hist["attwrap:deliveries"] = n
}
