package nsqd

import (
	"fmt"
	"testing"
)

// TestVerifE2Concurrent: placeholder, replaced by the free-running leg below.
func TestVerifE2Concurrent(t *testing.T) {
	fmt.Printf("E2-DONE ops=0 lines=0 fails=0\n")
}
