package nsqd

// Corr-E2 harness, part 4: the concurrent leg. Free-running publisher and consumer goroutines
// against a real NSQD (no serialisation by the harness; the real queueScanLoop runs), checked
//   * on the frames themselves: at most one holder at a time, attempts consecutive,
//     no delivery beyond RDY for consumers whose bookkeeping is exact;
//   * at quiescent points (everybody parked): white-box state -> `rchan` lines evaluated by the
//     Lean driver (ids pairwise distinct over queue / in flight / deferred, counters consistent,
//     client in-flight counts = messages held, conservation), no negative number;
//   * at the end: drain + ledger (finished set = acknowledged set on every durable channel).

import (
	"bufio"
	"encoding/binary"
	"fmt"
	"io"
	"net"
	"sort"
	"strings"
	"sync"
	"sync/atomic"
	"testing"
	"time"
)

type vfE2CHold struct {
	conn    int
	at      time.Time
	done    bool
	ignored bool
}

type vfE2CChan struct {
	t, c     int
	name     string
	eph      bool
	mu       sync.Mutex
	holder   map[int]*vfE2CHold
	lastAtt  map[int]int
	got      map[int]int // deliveries per seq
	answered map[int]int // FINs sent per seq
}

type vfE2C struct {
	n       *NSQD
	addr    string
	gate    sync.RWMutex // actors hold RLock while acting; the checker takes Lock
	stop    int32
	failMu  sync.Mutex
	fails   []string
	chans   []*vfE2CChan
	ackMu   sync.Mutex
	acked   map[int]map[int]bool // topic -> seqs
	nextSeq int64
	mtMs    int64
	hist    map[string]int64
	histMu  sync.Mutex
	out     *vfOut
	nconn   int64
	finErrs int64
	deliv   int64
	nbusy   int64
}

func (x *vfE2C) fail(key, format string, a ...interface{}) {
	msg := fmt.Sprintf(format, a...)
	x.failMu.Lock()
	if len(x.fails) < 30 {
		x.fails = append(x.fails, key)
		fmt.Printf("ORACLE-FAIL %s conc=1 seed=%d %s\n", key, vfEnvInt("VERIF_SEED", 1), msg)
	}
	x.failMu.Unlock()
}

func (x *vfE2C) count(k string) {
	x.histMu.Lock()
	x.hist[k]++
	x.histMu.Unlock()
}

func (x *vfE2C) dial() (net.Conn, *bufio.Reader) {
	nc, err := net.DialTimeout("tcp", x.addr, 5*time.Second)
	if err != nil {
		panic(err)
	}
	nc.Write([]byte("  V2"))
	return nc, bufio.NewReaderSize(nc, 1<<16)
}

func vfE2ReadFrame(rd *bufio.Reader) (int32, []byte, error) {
	// Peek does not consume: a read deadline that expires in the middle of a frame (callers poll with short
	// deadlines) loses nothing and the next call starts at the same frame boundary. (Seen once under load 58:
	// a timeout inside the 8-byte header desynchronised the stream and the next "size" made make() panic.)
	hdr, err := rd.Peek(8)
	if err != nil {
		return 0, nil, err
	}
	sz := int32(binary.BigEndian.Uint32(hdr[:4]))
	typ := int32(binary.BigEndian.Uint32(hdr[4:8]))
	if sz < 4 || sz > 1<<26 {
		return 0, nil, fmt.Errorf("frame size %d out of range (stream desynchronised?)", sz)
	}
	if 4+int(sz) <= rd.Size() {
		all, err := rd.Peek(4 + int(sz))
		if err != nil {
			return 0, nil, err
		}
		data := append([]byte(nil), all[8:]...)
		rd.Discard(4 + int(sz))
		return typ, data, nil
	}
	rd.Discard(8)
	data := make([]byte, sz-4)
	if _, err := io.ReadFull(rd, data); err != nil {
		return 0, nil, err
	}
	return typ, data, nil
}

func (x *vfE2C) publisher(id int, r *vfRand, wg *sync.WaitGroup) {
	defer wg.Done()
	nc, rd := x.dial()
	defer nc.Close()
	for atomic.LoadInt32(&x.stop) == 0 {
		x.gate.RLock()
		t := 1 + r.Intn(2)
		n := 1
		if r.Intn(4) == 0 {
			n = 2 + r.Intn(3)
		}
		var seqs []int
		var body []byte
		var n4 [4]byte
		if n > 1 {
			binary.BigEndian.PutUint32(n4[:], uint32(n))
			body = append(body, n4[:]...)
		}
		for i := 0; i < n; i++ {
			seq := int(atomic.AddInt64(&x.nextSeq, 1))
			seqs = append(seqs, seq)
			b := vfE2Body(seq, 10+r.Intn(80))
			binary.BigEndian.PutUint32(n4[:], uint32(len(b)))
			body = append(body, n4[:]...)
			body = append(body, b...)
		}
		var cmd string
		if n > 1 {
			binary.BigEndian.PutUint32(n4[:], uint32(len(body)))
			cmd = fmt.Sprintf("MPUB t%d\n", t)
			body = append(n4[:], body...)
		} else if r.Intn(6) == 0 {
			cmd = fmt.Sprintf("DPUB t%d %d\n", t, 1+r.Intn(30))
		} else {
			cmd = fmt.Sprintf("PUB t%d\n", t)
		}
		nc.Write(append([]byte(cmd), body...))
		typ, data, err := vfE2ReadFrame(rd)
		if err != nil || typ != frameTypeResponse || string(data) != "OK" {
			x.fail("conc-pub", "publish answered %d %q %v", typ, data, err)
			x.gate.RUnlock()
			return
		}
		x.ackMu.Lock()
		for _, s := range seqs {
			x.acked[t][s] = true
		}
		x.ackMu.Unlock()
		x.count("conc:pub")
		x.gate.RUnlock()
		if r.Intn(3) == 0 {
			time.Sleep(time.Duration(r.Intn(300)) * time.Microsecond)
		}
	}
}

// consumer: one connection at a time on channel ch; well-behaved (answers everything promptly)
// unless `ignorer`, in which case it lets some messages time out.
func (x *vfE2C) consumer(ch *vfE2CChan, r *vfRand, ignorer bool, wg *sync.WaitGroup) {
	defer wg.Done()
	for atomic.LoadInt32(&x.stop) == 0 {
		k := int(atomic.AddInt64(&x.nconn, 1))
		nc, rd := x.dial()
		ident := fmt.Sprintf(`{"client_id":"q%d","hostname":"h","feature_negotiation":false,"output_buffer_timeout":2}`, k)
		var sz [4]byte
		binary.BigEndian.PutUint32(sz[:], uint32(len(ident)))
		nc.Write(append(append([]byte("IDENTIFY\n"), sz[:]...), ident...))
		vfE2ReadFrame(rd)
		nc.Write([]byte(fmt.Sprintf("SUB t%d %s\n", ch.t, ch.name)))
		if typ, data, err := vfE2ReadFrame(rd); err != nil || typ != frameTypeResponse {
			x.fail("conc-sub", "SUB answered %d %q %v", typ, data, err)
			nc.Close()
			return
		}
		rdy := int64(1 + r.Intn(4))
		nc.Write([]byte(fmt.Sprintf("RDY %d\n", rdy)))
		outstanding := int64(0)
		life := 30 + r.Intn(200)
		nc.SetReadDeadline(time.Now().Add(150 * time.Millisecond))
		for i := 0; i < life && atomic.LoadInt32(&x.stop) == 0; i++ {
			typ, data, err := vfE2ReadFrame(rd)
			if err != nil {
				if ne, ok := err.(net.Error); ok && ne.Timeout() {
					nc.SetReadDeadline(time.Now().Add(150 * time.Millisecond))
					if r.Intn(4) == 0 && !ignorer {
						rdy += int64(r.Intn(3)) // only ever raised: the harness-side bound stays exact
						x.gate.RLock()
						nc.Write([]byte(fmt.Sprintf("RDY %d\n", rdy)))
						x.gate.RUnlock()
					}
					continue
				}
				break
			}
			if typ == frameTypeResponse {
				if string(data) == "_heartbeat_" {
					nc.Write([]byte("NOP\n"))
				}
				continue
			}
			if typ == frameTypeError {
				if strings.HasPrefix(string(data), "E_FIN_FAILED") || strings.HasPrefix(string(data), "E_REQ_FAILED") || strings.HasPrefix(string(data), "E_TOUCH_FAILED") {
					if !ignorer {
						atomic.AddInt64(&x.finErrs, 1)
					}
					continue
				}
				x.fail("conc-err", "consumer q%d got %q", k, data)
				break
			}
			m, err := decodeMessage(data)
			if err != nil {
				x.fail("conc-frame", "undecodable frame")
				break
			}
			seq := vfE2SeqOf(m.Body)
			atomic.AddInt64(&x.deliv, 1)
			now := time.Now()
			ch.mu.Lock()
			if h := ch.holder[seq]; h != nil && !h.done && now.Sub(h.at) < time.Duration(x.mtMs)*time.Millisecond*7/10 {
				x.fail("conc-dup", "message %d delivered to q%d on t%d/%s while q%d holds it (%.0f ms ago, no REQ, timeout %d ms)",
					seq, k, ch.t, ch.name, h.conn, now.Sub(h.at).Seconds()*1000, x.mtMs)
			}
			if int(m.Attempts) != ch.lastAtt[seq]+1 {
				x.fail("conc-attempts", "message %d on t%d/%s carries attempts %d after %d", seq, ch.t, ch.name, m.Attempts, ch.lastAtt[seq])
			}
			ch.lastAtt[seq] = int(m.Attempts)
			ch.got[seq]++
			if ch.answered[seq] > 0 && !ch.eph {
				// finished earlier (FIN sent by a well-behaved consumer holding it): must not come back
				x.fail("conc-after-fin", "message %d delivered again on t%d/%s after its FIN", seq, ch.t, ch.name)
			}
			h := &vfE2CHold{conn: k, at: now}
			ch.holder[seq] = h
			ch.mu.Unlock()
			if !ignorer && outstanding >= rdy {
				x.fail("conc-rdy", "q%d received message %d with %d outstanding and RDY %d", k, seq, outstanding, rdy)
			}
			outstanding++
			x.gate.RLock()
			act := r.Intn(100)
			switch {
			case ignorer && act < 40:
				ch.mu.Lock()
				h.ignored = true
				ch.mu.Unlock()
				x.count("conc:ignore")
			case act < 70 || ignorer:
				ch.mu.Lock()
				h.done = true
				if !ignorer {
					ch.answered[seq]++
				}
				ch.mu.Unlock()
				nc.Write(append(append([]byte("FIN "), m.ID[:]...), '\n'))
				outstanding--
				x.count("conc:fin")
			case act < 85:
				ch.mu.Lock()
				h.done = true
				ch.mu.Unlock()
				nc.Write(append(append([]byte("REQ "), m.ID[:]...), []byte(fmt.Sprintf(" %d\n", []int{0, 0, 1, 20}[r.Intn(4)]))...))
				outstanding--
				x.count("conc:req")
			default:
				nc.Write(append(append([]byte("TOUCH "), m.ID[:]...), '\n'))
				ch.mu.Lock()
				h.done = true
				ch.answered[seq]++
				ch.mu.Unlock()
				nc.Write(append(append([]byte("FIN "), m.ID[:]...), '\n'))
				outstanding--
				x.count("conc:touch+fin")
			}
			x.gate.RUnlock()
		}
		// leave: stop the flow (RDY 0), read what is still on the wire up to a barrier answer, then
		// reconcile with the real in-flight map so that no delivery goes unobserved
		x.gate.RLock()
		nc.Write([]byte("RDY 0\nTOUCH ffffffffffffffff\n"))
		x.gate.RUnlock()
		sawBarrier := false
		for tries := 0; tries < 200; tries++ {
			nc.SetReadDeadline(time.Now().Add(25 * time.Millisecond))
			typ, data, err := vfE2ReadFrame(rd)
			if err != nil {
				if ne, ok := err.(net.Error); ok && ne.Timeout() {
					if sawBarrier {
						break
					}
					continue
				}
				break
			}
			if typ == frameTypeError && strings.Contains(string(data), "ffffffffffffffff") {
				sawBarrier = true
				continue
			}
			if typ != frameTypeMessage {
				continue
			}
			m, err := decodeMessage(data)
			if err != nil {
				continue
			}
			seq := vfE2SeqOf(m.Body)
			ch.mu.Lock()
			if int(m.Attempts) != ch.lastAtt[seq]+1 {
				x.fail("conc-attempts", "message %d on t%d/%s carries attempts %d after %d", seq, ch.t, ch.name, m.Attempts, ch.lastAtt[seq])
			}
			ch.lastAtt[seq] = int(m.Attempts)
			ch.got[seq]++
			ch.holder[seq] = &vfE2CHold{conn: k, at: time.Now(), ignored: true}
			ch.mu.Unlock()
		}
		if rc := x.realChan(ch); rc != nil {
			var cid int64 = -1
			rc.RLock()
			for _, c := range rc.clients {
				cl := c.(*clientV2)
				cl.metaLock.RLock()
				if cl.ClientID == fmt.Sprintf("q%d", k) {
					cid = cl.ID
				}
				cl.metaLock.RUnlock()
			}
			rc.RUnlock()
			ch.mu.Lock()
			rc.inFlightMutex.Lock()
			for _, m := range rc.inFlightMessages {
				if m.clientID == cid {
					seq := vfE2SeqOf(m.Body)
					if int(m.Attempts) == ch.lastAtt[seq]+1 { // sent but not read by us
						ch.lastAtt[seq] = int(m.Attempts)
						ch.got[seq]++
						ch.holder[seq] = &vfE2CHold{conn: k, at: time.Now(), ignored: true}
						x.count("conc:unread-delivery")
					}
				}
			}
			rc.inFlightMutex.Unlock()
			ch.mu.Unlock()
		}
		ch.mu.Lock()
		for _, h := range ch.holder {
			if h.conn == k && !h.done {
				h.ignored = true
			}
		}
		ch.mu.Unlock()
		nc.Close()
		x.count("conc:reconnect")
	}
}

// quiescent check: everybody parked; wait until the pumps are idle, then examine the real state
func (x *vfE2C) check(final bool) {
	x.gate.Lock()
	defer x.gate.Unlock()
	time.Sleep(30 * time.Millisecond)
	for _, ch := range x.chans {
		x.n.RLock()
		tp := x.n.topicMap[fmt.Sprintf("t%d", ch.t)]
		x.n.RUnlock()
		if tp == nil {
			continue
		}
		tp.RLock()
		rc := tp.channelMap[ch.name]
		tp.RUnlock()
		if rc == nil {
			continue
		}
		// park the channel so that its queue can be read: paused channel => no pump selects on it;
		// holding exitMutex keeps the timeout / deferred scans and the topic pump out meanwhile
		rc.Pause()
		for i := 0; i < 400 && atomic.LoadInt64(&x.nbusy) > 0; i++ {
			time.Sleep(500 * time.Microsecond)
		}
		time.Sleep(3 * time.Millisecond)
		rc.exitMutex.Lock()
		var q []int
		if rc.memoryMsgChan != nil {
			n := len(rc.memoryMsgChan)
			for i := 0; i < n; i++ {
				select {
				case m := <-rc.memoryMsgChan:
					q = append(q, vfE2SeqOf(m.Body))
					rc.memoryMsgChan <- m
				default:
				}
			}
		}
		var ifs, dfs, cls []string
		rc.inFlightMutex.Lock()
		for _, m := range rc.inFlightMessages {
			ifs = append(ifs, fmt.Sprintf("%d:%d", vfE2SeqOf(m.Body), m.clientID))
		}
		nif := len(rc.inFlightMessages)
		if len(rc.inFlightPQ) != nif {
			x.fail("conc-inv", "t%d/%s: in-flight heap %d vs map %d at a quiescent point", ch.t, ch.name, len(rc.inFlightPQ), nif)
		}
		rc.inFlightMutex.Unlock()
		rc.deferredMutex.Lock()
		for _, it := range rc.deferredMessages {
			dfs = append(dfs, fmt.Sprintf("%d", vfE2SeqOf(it.Value.(*Message).Body)))
		}
		rc.deferredMutex.Unlock()
		rc.RLock()
		for _, c := range rc.clients {
			cl := c.(*clientV2)
			infl := atomic.LoadInt64(&cl.InFlightCount)
			if infl < 0 {
				x.fail("conc-negative", "t%d/%s: client %d in_flight_count = %d", ch.t, ch.name, cl.ID, infl)
			}
			cls = append(cls, fmt.Sprintf("%d:%d:%d", cl.ID, atomic.LoadInt64(&cl.ReadyCount), infl))
		}
		rc.RUnlock()
		sort.Strings(ifs)
		sort.Strings(dfs)
		sort.Strings(cls)
		var qs []string
		for _, s := range q {
			qs = append(qs, fmt.Sprint(s))
		}
		mem := len(q)
		dq := rc.backend.Depth()
		mc := atomic.LoadUint64(&rc.messageCount)
		x.out.Case(fmt.Sprintf("rchan %s %d %d %d %d q=%s if=%s df=%s cl=%s", vfE2B(ch.eph), x.n.getOpts().MemQueueSize, mem, dq, mc,
			vfE2Join(qs), vfE2Join(ifs), vfE2Join(dfs), vfE2Join(cls)), "rchan ok")
		x.count("conc:rchan")
		rc.exitMutex.Unlock()
		rc.UnPause()
	}
	code := 0
	_ = code
}

func (x *vfE2C) realChan(ch *vfE2CChan) *Channel {
	x.n.RLock()
	tp := x.n.topicMap[fmt.Sprintf("t%d", ch.t)]
	x.n.RUnlock()
	if tp == nil {
		return nil
	}
	tp.RLock()
	defer tp.RUnlock()
	return tp.channelMap[ch.name]
}

func vfE2Join(xs []string) string {
	if len(xs) == 0 {
		return "-"
	}
	return strings.Join(xs, ",")
}

// TestVerifE2Concurrent: the free-running leg.
func TestVerifE2Concurrent(t *testing.T) {
	secs := vfEnvInt("VERIF_E2_SECONDS", 8)
	out := vfOpen("e2conc")
	defer out.Close()
	r := vfNewRand(909)
	nfails := 0
	rounds := 0
	t0 := time.Now()
	for time.Since(t0) < time.Duration(secs)*time.Second && nfails == 0 {
		rounds++
		dir := t.TempDir()
		opts := NewOptions()
		opts.Logger = vfE2NopLogger{}
		opts.TCPAddress, opts.HTTPAddress, opts.HTTPSAddress = vfLoop3()
		opts.DataPath = dir
		opts.MemQueueSize = int64([]int{0, 2, 5, 10000}[r.Intn(4)])
		opts.MaxBytesPerFile = 2048
		opts.MsgTimeout = 1200 * time.Millisecond
		opts.QueueScanInterval = 20 * time.Millisecond
		opts.ClientTimeout = 10 * time.Minute
		opts.MaxHeartbeatInterval = 10 * time.Minute
		opts.MinOutputBufferTimeout = time.Millisecond
		n, err := New(opts)
		if err != nil {
			t.Fatal(err)
		}
		go n.Main()
		x := &vfE2C{n: n, addr: n.RealTCPAddr().String(), acked: map[int]map[int]bool{1: {}, 2: {}}, hist: map[string]int64{},
			out: out, mtMs: 1200, nextSeq: int64(rounds) * 1000000}
		for tt := 1; tt <= 2; tt++ {
			tp := n.GetTopic(fmt.Sprintf("t%d", tt))
			for c := 1; c <= 2; c++ {
				name := fmt.Sprintf("c%d", c)
				tp.GetChannel(name)
				x.chans = append(x.chans, &vfE2CChan{t: tt, c: c, name: name, holder: map[int]*vfE2CHold{}, lastAtt: map[int]int{},
					got: map[int]int{}, answered: map[int]int{}})
			}
		}
		VerifSetHook("proto.pump.afterRecv", func(string) { atomic.AddInt64(&x.nbusy, 1) })
		VerifSetHook("chan.inflight.afterMapPush", func(string) {})
		// a delivery is complete when the pump is back at its guard; count departures per goroutine
		// approximately: every afterRecv is followed by exactly one afterGuard of the same goroutine
		var gmu sync.Mutex
		gbusy := map[int64]bool{}
		VerifSetHook("proto.pump.afterRecv", func(string) {
			atomic.AddInt64(&x.nbusy, 1)
			g := vfE2Gid()
			gmu.Lock()
			gbusy[g] = true
			gmu.Unlock()
		})
		VerifSetHook("proto.pump.afterGuard", func(string) {
			g := vfE2Gid()
			gmu.Lock()
			if gbusy[g] {
				delete(gbusy, g)
				atomic.AddInt64(&x.nbusy, -1)
			}
			gmu.Unlock()
		})
		var pw, cw sync.WaitGroup
		for p := 0; p < 3; p++ {
			pw.Add(1)
			go x.publisher(p, &vfRand{s: r.Next()}, &pw)
		}
		for i, ch := range x.chans {
			for j := 0; j < 2; j++ {
				cw.Add(1)
				go x.consumer(ch, &vfRand{s: r.Next()}, j == 1 && i%2 == 0, &cw)
			}
		}
		roundT := time.Now()
		for time.Since(roundT) < 1500*time.Millisecond {
			time.Sleep(250 * time.Millisecond)
			x.check(false)
		}
		atomic.StoreInt32(&x.stop, 1)
		pw.Wait()
		cw.Wait()
		// drain: one well-behaved consumer per channel finishes everything; in-flight leftovers are
		// released by scanning at +infinity
		for _, ch := range x.chans {
			tp := n.GetTopic(fmt.Sprintf("t%d", ch.t))
			rc := tp.GetChannel(ch.name)
			nc, rd := x.dial()
			ident := `{"client_id":"drain","hostname":"h","feature_negotiation":false,"output_buffer_size":-1}`
			var sz [4]byte
			binary.BigEndian.PutUint32(sz[:], uint32(len(ident)))
			nc.Write(append(append([]byte("IDENTIFY\n"), sz[:]...), ident...))
			vfE2ReadFrame(rd)
			nc.Write([]byte(fmt.Sprintf("SUB t%d %s\nRDY 100\n", ch.t, ch.name)))
			vfE2ReadFrame(rd)
			deadline := time.Now().Add(15 * time.Second)
			idle := 0
			for time.Now().Before(deadline) {
				rc.inFlightMutex.Lock()
				ni := len(rc.inFlightMessages)
				rc.inFlightMutex.Unlock()
				rc.deferredMutex.Lock()
				nd := len(rc.deferredMessages)
				rc.deferredMutex.Unlock()
				if rc.Depth() == 0 && ni == 0 && nd == 0 && tp.Depth() == 0 {
					idle++
					if idle > 3 {
						break
					}
					time.Sleep(10 * time.Millisecond)
					continue
				}
				idle = 0
				nc.SetReadDeadline(time.Now().Add(30 * time.Millisecond))
				typ, data, err := vfE2ReadFrame(rd)
				if err != nil {
					if ne, ok := err.(net.Error); ok && ne.Timeout() {
						continue // leftovers of vanished / ignoring consumers come back through the real queueScanLoop
					}
					break
				}
				if typ != frameTypeMessage {
					continue
				}
				m, _ := decodeMessage(data)
				seq := vfE2SeqOf(m.Body)
				ch.mu.Lock()
				if int(m.Attempts) != ch.lastAtt[seq]+1 {
					x.fail("conc-attempts", "drain: message %d on t%d/%s carries attempts %d after %d", seq, ch.t, ch.name, m.Attempts, ch.lastAtt[seq])
				}
				ch.lastAtt[seq] = int(m.Attempts)
				ch.got[seq]++
				ch.answered[seq]++
				ch.mu.Unlock()
				nc.Write(append(append([]byte("FIN "), m.ID[:]...), '\n'))
			}
			nc.Close()
			// ledger
			x.ackMu.Lock()
			lost := 0
			for s := range x.acked[ch.t] {
				if ch.got[s] == 0 {
					lost++
					if lost <= 3 {
						x.fail("conc-ledger", "message %d was acknowledged on t%d but never delivered on %s", s, ch.t, ch.name)
					}
				}
			}
			for s := range ch.got {
				if !x.acked[ch.t][s] {
					x.fail("conc-ledger", "message %d delivered on t%d/%s was never acknowledged to a publisher", s, ch.t, ch.name)
				}
			}
			mc := atomic.LoadUint64(&rc.messageCount)
			if int(mc) != len(x.acked[ch.t]) {
				x.fail("conc-conservation", "t%d/%s message_count %d but %d publishes were acknowledged", ch.t, ch.name, mc, len(x.acked[ch.t]))
			}
			x.ackMu.Unlock()
		}
		for _, tt := range []int{1, 2} {
			tp := n.GetTopic(fmt.Sprintf("t%d", tt))
			if mc := atomic.LoadUint64(&tp.messageCount); int(mc) != len(x.acked[tt]) {
				x.fail("conc-conservation", "topic t%d message_count %d but %d acknowledged", tt, mc, len(x.acked[tt]))
			}
		}
		x.count("conc:round")
		x.hist["conc:deliveries"] += x.deliv
		x.hist["conc:wellbehaved-answer-refused"] += x.finErrs
		n.Exit()
		VerifClearHooks()
		nfails += len(x.fails)
		var ks []string
		for k := range x.hist {
			ks = append(ks, k)
		}
		sort.Strings(ks)
		if nfails > 0 || time.Since(t0) >= time.Duration(secs)*time.Second-2*time.Second {
			for _, k := range ks {
				fmt.Printf("HIST %s %d\n", k, x.hist[k])
			}
		}
	}
	fmt.Printf("E2-DONE ops=%d lines=%d fails=%d\n", rounds, out.N, nfails)
}
