package nsqd

// Corr-E2 harness, part 7: the OUTPUT side of one consumer connection — protocolV2.messagePump with
// its `flushed` flag, the flusher ticker (output_buffer_timeout), the forced flush when the consumer
// is not ready, the one-shot IDENTIFY / SUB events, the heartbeat, and the bufio writer it shares
// with the IOLoop's responses (model: lean/Nsq/Model/Pump.lean, theorems: Nsq.Props.C03Pump).
//
// A private NSQD; the consumer is a net.Pipe whose server end is wrapped so that every Write on the
// connection (= every non-empty flush of the bufio writer) is recorded with the frames it carries.
// The real IOLoop + messagePump run on it. Events are logged in real order:
//   P top            hook proto.pump.afterGuard (the pump evaluated its guard and enters the select)
//   P recv           hook proto.pump.afterRecv  (the pump took a message off a queue and will write it)
//   P write M,M,R    one Write on the connection: M message, R response/error, H heartbeat
// and the harness's own lines, each logged BEFORE the command is sent:
//   P rdy n | P infl n | P paused b | P expect-resp | P idpend ob hb sample | P subpend
// `P settle` compares, at quiescence (pump parked in its select), the number of message frames still
// in the bufio writer and the number written so far. The Lean driver replays the lines through the
// model as an acceptor (a Write / a receive the model cannot explain is REJECTed).
//
// Direct oracles (independent of the model):
//   pump-late-flush  with a running output-buffer ticker of T ms a written message is on the socket
//                    within T + 1.5 s (flushed by the next flusher tick or earlier)
//   pump-newer       after RDY 0 / pause has taken effect (the pump evaluated its guard and parked)
//                    nothing published later reaches the consumer, nor is it taken off the queue,
//                    until RDY is raised / unpause; then it is
//   pump-order       message frames reach the socket in the order the pump received them, each once
//   pump-lost-frame  at the end every message the pump received was read by the consumer

import (
	"encoding/binary"
	"encoding/json"
	"fmt"
	"io"
	"net"
	"os"
	"sort"
	"strings"
	"sync"
	"sync/atomic"
	"testing"
	"time"
)

type vfE2PumpLog struct {
	mu     sync.Mutex
	ev     []string
	recvAt []time.Time // per received message (pump side)
	wrote  int         // message frames that reached the socket
	wroteT []time.Time
}

func (l *vfE2PumpLog) add(s string) {
	l.mu.Lock()
	l.ev = append(l.ev, s)
	l.mu.Unlock()
}

func (l *vfE2PumpLog) n() int {
	l.mu.Lock()
	defer l.mu.Unlock()
	return len(l.ev)
}

type vfE2PumpConn struct {
	net.Conn
	log *vfE2PumpLog
}

func (c *vfE2PumpConn) Write(b []byte) (int, error) {
	var kinds []string
	nm := 0
	for p := 0; p+8 <= len(b); {
		sz := int(binary.BigEndian.Uint32(b[p:]))
		typ := int32(binary.BigEndian.Uint32(b[p+4:]))
		end := p + 4 + sz
		if sz < 4 || end > len(b) {
			kinds = append(kinds, "?")
			break
		}
		switch {
		case typ == frameTypeMessage:
			kinds = append(kinds, "M")
			nm++
		case typ == frameTypeResponse && string(b[p+8:end]) == "_heartbeat_":
			kinds = append(kinds, "H")
		default:
			kinds = append(kinds, "R")
		}
		p = end
	}
	c.log.mu.Lock()
	c.log.ev = append(c.log.ev, "P write "+strings.Join(kinds, ","))
	now := time.Now()
	for i := 0; i < nm; i++ {
		c.log.wroteT = append(c.log.wroteT, now)
	}
	c.log.wrote += nm
	c.log.mu.Unlock()
	return c.Conn.Write(b)
}

type vfE2Pump struct {
	out    *vfOut
	r      *vfRand
	hist   map[string]int
	fails  int
	ep     int
	nOps   int
	log    *vfE2PumpLog
	n      *NSQD
	cl     *clientV2
	peer   net.Conn
	topic  *Topic
	ch     *Channel
	rmu    sync.Mutex
	got    [][]byte // message ids read by the consumer, in order
	resp   int      // response / error frames read
	flushd int      // log lines already emitted
	rdy    int
	infl   int
	finIdx int
	dead   bool
	paused bool
	tick   int // output_buffer_timeout in ms: -1 disabled, small = running, large = never within the test
	hb     bool
	pubs   int
}

func (h *vfE2Pump) fail(key, format string, a ...interface{}) {
	h.fails++
	fmt.Printf("ORACLE-FAIL %s ep=%d op=%d %s\n", key, h.ep, h.nOps, fmt.Sprintf(format, a...))
}

// emit writes the log lines gathered so far as op lines (impl answer "ok")
func (h *vfE2Pump) emit() {
	h.log.mu.Lock()
	ev := h.log.ev[h.flushd:]
	h.flushd = len(h.log.ev)
	lines := append([]string{}, ev...)
	h.log.mu.Unlock()
	for _, l := range lines {
		h.out.Case(l, "ok")
		h.hist["pump:"+strings.Fields(l)[1]]++
	}
}

func (h *vfE2Pump) send(line string, body []byte) {
	b := []byte(line + "\n")
	if body != nil {
		var sz [4]byte
		binary.BigEndian.PutUint32(sz[:], uint32(len(body)))
		b = append(append(b, sz[:]...), body...)
	}
	h.peer.SetWriteDeadline(time.Now().Add(5 * time.Second))
	if _, err := h.peer.Write(b); err != nil && !h.dead {
		h.dead = true
		h.fail("no-reply", "pump leg: the connection does not take `%s` any more: %v", line, err)
	}
}

func (h *vfE2Pump) reader() {
	for {
		var hdr [8]byte
		if _, err := io.ReadFull(h.peer, hdr[:]); err != nil {
			return
		}
		sz := int(binary.BigEndian.Uint32(hdr[:4])) - 4
		data := make([]byte, sz)
		if _, err := io.ReadFull(h.peer, data); err != nil {
			return
		}
		typ := int32(binary.BigEndian.Uint32(hdr[4:]))
		if os.Getenv("VERIF_PUMP_DEBUG") != "" && typ != frameTypeMessage {
			fmt.Printf("DEBUG frame type=%d %q\n", typ, data)
		}
		h.rmu.Lock()
		if typ == frameTypeMessage && len(data) >= 26 {
			h.got = append(h.got, append([]byte{}, data[10:26]...))
		} else if !(typ == frameTypeResponse && string(data) == "_heartbeat_") {
			h.resp++
		}
		h.rmu.Unlock()
	}
}

func (h *vfE2Pump) nresp() int {
	h.rmu.Lock()
	defer h.rmu.Unlock()
	return h.resp
}

func (h *vfE2Pump) ngot() int {
	h.rmu.Lock()
	defer h.rmu.Unlock()
	return len(h.got)
}

// quiesce: `cond` holds, every pump is parked in its select and no event arrived for three polls
func (h *vfE2Pump) quiesce(what string, cond func() bool) bool {
	deadline := time.Now().Add(8 * time.Second)
	stable, last := 0, -1
	for time.Now().Before(deadline) {
		idle, _ := vfE2PumpsIdle()
		n := h.log.n()
		if idle && n == last && (cond == nil || cond()) {
			stable++
			if stable >= 3 {
				return true
			}
		} else {
			stable = 0
		}
		last = n
		time.Sleep(500 * time.Microsecond)
	}
	idle, why := vfE2PumpsIdle()
	key := "settle"
	if int(atomic.LoadInt64(&h.cl.InFlightCount)) > h.infl {
		key = "rdy" // the pump took a message although, by the harness's books, the consumer was not ready
	}
	h.fail(key, "pump leg: no quiescence after %s (books: rdy=%d in_flight=%d paused=%v published=%d; client: ready_count=%d in_flight_count=%d message_count=%d; depth=%d idle=%v %s)",
		what, h.rdy, h.infl, h.paused, h.pubs, atomic.LoadInt64(&h.cl.ReadyCount), atomic.LoadInt64(&h.cl.InFlightCount),
		atomic.LoadUint64(&h.cl.MessageCount), h.ch.Depth(), idle, why)
	return false
}

const vfE2PumpBody = 10
const vfE2PumpFrame = 4 + 4 + 26 + vfE2PumpBody

func (h *vfE2Pump) tickRunning() bool { return h.tick > 0 && h.tick < 100000 }

func (h *vfE2Pump) buffered() int {
	h.cl.writeLock.Lock()
	defer h.cl.writeLock.Unlock()
	return h.cl.Writer.Buffered()
}

func (h *vfE2Pump) settle(what string, cond func() bool) bool {
	if h.tickRunning() {
		// oracle pump-late-flush: a running ticker empties the buffer within T (+ slack)
		if !h.quiesce(what, cond) {
			h.emit()
			return false
		}
		dl := time.Now().Add(time.Duration(h.tick)*time.Millisecond + 1500*time.Millisecond)
		for h.buffered() > 0 {
			if time.Now().After(dl) {
				h.emit()
				h.fail("pump-late-flush", "output_buffer_timeout %d ms: %d message frame(s) written by the pump are still in the output buffer %d ms later (after %s)",
					h.tick, h.buffered()/vfE2PumpFrame, h.tick+1500, what)
				return false
			}
			time.Sleep(500 * time.Microsecond)
		}
		h.hist["pump:oracle:tick"]++
	}
	nb := 0
	for try := 0; ; try++ {
		if !h.quiesce(what, cond) {
			h.emit()
			return false
		}
		h.emit()
		h.cl.writeLock.Lock()
		nb = h.cl.Writer.Buffered()
		n := h.log.n()
		h.cl.writeLock.Unlock()
		if idle, _ := vfE2PumpsIdle(); n == h.flushd && idle {
			break
		}
		if try > 200 {
			h.fail("settle", "pump leg: events keep arriving after %s", what)
			return false
		}
	}
	sent := atomic.LoadUint64(&h.cl.MessageCount)
	h.out.Case("P settle", fmt.Sprintf("quiet buf=%d insel=1 sent=%d", nb/vfE2PumpFrame, sent))
	if nb%vfE2PumpFrame != 0 {
		h.fail("bad-frame", "pump leg: %d bytes buffered is not a whole number of message frames", nb)
	}
	h.hist["pump:settle"]++
	return true
}

func (h *vfE2Pump) line(l string) {
	h.log.add(l)
}

func (h *vfE2Pump) pub() {
	m := NewMessage(h.topic.GenerateID(), make([]byte, vfE2PumpBody))
	h.topic.PutMessage(m)
	h.pubs++
}

// ready by the harness's own books
func (h *vfE2Pump) ready() bool { return !h.paused && h.rdy > 0 && h.infl < h.rdy }

// afterPub: how many of the pending messages the pump will take now (one per guard evaluation
// while ready)
func (h *vfE2Pump) expectTaken(pending int) int {
	k := 0
	infl := h.infl
	for pending > 0 && !h.paused && h.rdy > 0 && infl < h.rdy {
		k++
		infl++
		pending--
	}
	return k
}

func (h *vfE2Pump) episode() {
	h.ep++
	dir, err := os.MkdirTemp(os.Getenv("VERIF_OUT"), "e2pump-")
	if err != nil {
		panic(err)
	}
	defer os.RemoveAll(dir)
	opts := NewOptions()
	opts.Logger = vfE2NopLogger{}
	opts.TCPAddress, opts.HTTPAddress, opts.HTTPSAddress = vfLoop3()
	opts.DataPath = dir
	opts.ClientTimeout = 20 * time.Minute
	opts.MaxHeartbeatInterval = 20 * time.Minute
	opts.MinOutputBufferTimeout = time.Millisecond
	opts.MaxOutputBufferTimeout = time.Hour
	opts.QueueScanInterval = time.Hour
	opts.StatsdAddress = ""
	opts.MemQueueSize = []int64{0, 2, 10000}[h.r.Intn(3)]
	n, err := New(opts)
	if err != nil {
		panic(err)
	}
	h.n = n
	go n.Main()
	defer n.Exit()
	h.topic = n.GetTopic("vfe2_pump")
	h.ch = h.topic.GetChannel("c")
	h.log = &vfE2PumpLog{}
	h.flushd, h.rdy, h.infl, h.finIdx, h.paused, h.pubs = 0, 0, 0, 0, false, 0
	h.got, h.resp, h.dead = nil, 0, false
	VerifSetHook("proto.pump.afterGuard", func(string) { h.log.add("P top") })
	VerifSetHook("proto.pump.afterRecv", func(string) {
		h.log.mu.Lock()
		h.log.ev = append(h.log.ev, "P recv")
		h.log.recvAt = append(h.log.recvAt, time.Now())
		h.log.mu.Unlock()
	})
	defer VerifClearHooks()
	srv, peer := net.Pipe()
	h.peer = peer
	prot := &protocolV2{nsqd: n}
	h.cl = prot.NewClient(&vfE2PumpConn{Conn: srv, log: h.log}).(*clientV2)
	done := make(chan bool)
	go func() { prot.IOLoop(h.cl); close(done) }()
	go h.reader()
	defer func() {
		peer.Close()
		select {
		case <-done:
		case <-time.After(5 * time.Second):
			h.fail("exit-hang", "pump leg: IOLoop did not exit after the consumer closed")
		}
	}()
	h.out.Case("reset", "ok")
	// configuration of the episode
	switch h.r.Intn(5) {
	case 0:
		h.tick = -1
	case 1, 2:
		h.tick = 8 + h.r.Intn(30)
	default:
		h.tick = 1200000
	}
	h.hb = h.ep%9 == 4
	hbv := 1200000 // SUB refuses disabled heartbeats: 20 min = never within the test
	if h.hb {
		hbv = 1000
	}
	h.hist[fmt.Sprintf("pump:cfg:tick=%s:hb=%v", map[bool]string{true: "off", false: map[bool]string{true: "never", false: "running"}[h.tick > 100000]}[h.tick < 0], h.hb)]++
	if !h.settle("start", nil) {
		return
	}
	body, _ := json.Marshal(map[string]interface{}{"client_id": "vf", "hostname": "vf", "feature_negotiation": true,
		"heartbeat_interval": hbv, "output_buffer_timeout": h.tick, "msg_timeout": 600000})
	h.line(fmt.Sprintf("P idpend %s 1 0", vfE2B(h.tick > 0)))
	h.line("P expect-resp")
	r0 := h.nresp()
	h.send("IDENTIFY", body)
	if !h.settle("IDENTIFY", func() bool { return h.nresp() == r0+1 }) {
		return
	}
	h.line("P subpend")
	h.line("P expect-resp")
	r0 = h.nresp()
	h.send("SUB vfe2_pump c", nil)
	if !h.settle("SUB", func() bool { return h.nresp() == r0+1 }) {
		return
	}
	steps := 14 + h.r.Intn(22)
	hbWaited := false
	for i := 0; i < steps && h.fails < 5 && !h.dead; i++ {
		h.nOps++
		pending := h.pubs - int(atomic.LoadUint64(&h.cl.MessageCount))
		k := h.r.Intn(12)
		if i == 0 {
			k = 3 // prologue: RDY n (n >= 2) …
		} else if i == 1 {
			k = 0 // … and one publish: a message written while the consumer stays ready (buffered / ticker)
		}
		switch {
		case k < 3 || k >= 10: // publish one message
			take := h.expectTaken(pending + 1)
			want := int(atomic.LoadUint64(&h.cl.MessageCount)) + take
			h.pub()
			h.infl += take
			if !h.settle("pub", func() bool { return int(atomic.LoadUint64(&h.cl.MessageCount)) == want }) {
				return
			}
			h.hist["pump:op:pub"]++
		case k < 6: // RDY n
			nr := 1 + h.r.Intn(8)
			if h.r.Intn(4) == 0 {
				nr = 0
			}
			if i == 0 {
				nr = 2 + h.r.Intn(6)
			}
			h.rdy = nr
			take := h.expectTaken(pending)
			h.line(fmt.Sprintf("P rdy %d", nr))
			want := int(atomic.LoadUint64(&h.cl.MessageCount)) + take
			h.send(fmt.Sprintf("RDY %d", nr), nil)
			h.infl += take
			if !h.settle("RDY", func() bool {
				return atomic.LoadInt64(&h.cl.ReadyCount) == int64(nr) && int(atomic.LoadUint64(&h.cl.MessageCount)) == want
			}) {
				return
			}
			h.hist["pump:op:rdy"]++
		case k < 8: // FIN the oldest message the consumer has READ (it may hold more, still buffered)
			h.rmu.Lock()
			var id []byte
			if h.finIdx < len(h.got) {
				id = h.got[h.finIdx]
				h.finIdx++
			}
			h.rmu.Unlock()
			if id == nil {
				continue
			}
			h.infl--
			take := h.expectTaken(pending)
			h.line(fmt.Sprintf("P infl %d", h.infl))
			want := int(atomic.LoadUint64(&h.cl.MessageCount)) + take
			fin := int(atomic.LoadUint64(&h.cl.FinishCount)) + 1
			h.send("FIN "+string(id), nil)
			h.infl += take
			if !h.settle("FIN", func() bool {
				return int(atomic.LoadUint64(&h.cl.FinishCount)) == fin && int(atomic.LoadUint64(&h.cl.MessageCount)) == want
			}) {
				return
			}
			h.hist["pump:op:fin"]++
		case k < 9: // a command that is answered (error frame): flushes what is buffered, in order
			h.line("P expect-resp")
			r0 := h.nresp()
			h.send("TOUCH ffffffffffffffff", nil)
			if !h.settle("TOUCH", func() bool { return h.nresp() == r0+1 }) {
				return
			}
			h.hist["pump:op:respond"]++
		default: // pause / unpause the channel
			h.paused = !h.paused
			take := h.expectTaken(pending)
			h.line(fmt.Sprintf("P paused %s", vfE2B(h.paused)))
			want := int(atomic.LoadUint64(&h.cl.MessageCount)) + take
			if h.paused {
				h.ch.Pause()
			} else {
				h.ch.UnPause()
			}
			h.infl += take
			if !h.settle("pause", func() bool { return int(atomic.LoadUint64(&h.cl.MessageCount)) == want }) {
				return
			}
			h.hist["pump:op:pause"]++
		}
		// oracle pump-newer: not ready (by the harness's books) and parked ⇒ a publish now is neither
		// taken off the queue nor sent
		if !h.ready() && h.r.Intn(5) == 0 {
			mc, g := atomic.LoadUint64(&h.cl.MessageCount), h.ngot()
			h.log.mu.Lock()
			w0 := h.log.wrote
			h.log.mu.Unlock()
			h.pub()
			time.Sleep(12 * time.Millisecond)
			h.log.mu.Lock()
			w1 := h.log.wrote
			h.log.mu.Unlock()
			if atomic.LoadUint64(&h.cl.MessageCount) != mc || w1 != w0 {
				h.fail("pump-newer", "rdy=%d in_flight=%d paused=%v had taken effect (pump parked), yet a message published afterwards was taken/sent (message_count %d -> %d, frames on the socket %d -> %d, read %d)",
					h.rdy, h.infl, h.paused, mc, atomic.LoadUint64(&h.cl.MessageCount), w0, w1, g)
			}
			if !h.settle("pub-while-not-ready", nil) {
				return
			}
			h.hist["pump:oracle:newer"]++
		}
		if h.hb && !hbWaited && i > 3 {
			// one heartbeat while (possibly) buffered: it flushes what is buffered before it
			hbWaited = true
			time.Sleep(1100 * time.Millisecond)
			h.send("NOP", nil)
			if !h.settle("heartbeat", nil) {
				return
			}
			h.hist["pump:op:heartbeat-wait"]++
		}
	}
	// end: RDY 0 forces everything out; every received message must have been read, in order, once
	h.line("P rdy 0")
	h.rdy = 0
	h.send("RDY 0", nil)
	if !h.settle("final RDY 0", func() bool { return atomic.LoadInt64(&h.cl.ReadyCount) == 0 }) {
		return
	}
	time.Sleep(2 * time.Millisecond)
	h.log.mu.Lock()
	nr, nw := len(h.log.recvAt), h.log.wrote
	h.log.mu.Unlock()
	if nw != nr {
		h.fail("pump-lost-frame", "the pump received %d messages, %d message frames reached the socket after the final RDY 0", nr, nw)
	}
	ids := map[string]int{}
	h.ch.inFlightMutex.Lock()
	for id := range h.ch.inFlightMessages {
		ids[string(id[:])]++
	}
	h.ch.inFlightMutex.Unlock()
	if len(ids) != h.infl {
		h.fail("pump-order", "in-flight map holds %d messages, the harness's books say %d", len(ids), h.infl)
	}
}

// TestVerifE2Pump: generated episodes on the output side of one consumer connection.
func TestVerifE2Pump(t *testing.T) {
	h := &vfE2Pump{out: vfOpen("pump"), r: vfNewRand(707), hist: map[string]int{}}
	budget := time.Duration(vfEnvInt("VERIF_E2_SECONDS", 6)) * time.Second
	t0 := time.Now()
	for time.Since(t0) < budget && h.fails < 5 {
		h.episode()
	}
	h.out.Close()
	var ks []string
	for k := range h.hist {
		ks = append(ks, k)
	}
	sort.Strings(ks)
	for _, k := range ks {
		fmt.Printf("HIST %s %d\n", k, h.hist[k])
	}
	fmt.Printf("E2-DONE ops=%d lines=%d fails=%d\n", h.nOps, h.out.N, h.fails)
}
