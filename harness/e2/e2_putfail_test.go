package nsqd

// Audit B3 (open finding C13 `chan-backend-write-fails`): `Channel.put` falls back to the channel's disk backend
// when the memory queue is full; if that write fails (disk full, I/O error) the callers — REQ with delay 0, the
// in-flight timeout scan, the deferred scan — have already taken the message out of the in-flight / deferred
// structures: the message is lost for the channel, and on the REQ path `client.RequeuedMessage()` is skipped, so
// the consumer's `in_flight_count` stays one too high for ever (its RDY window is one smaller) and the channel's
// `requeue_count` disagrees with the client's. The model's `enqueue` never fails on a durable channel (named
// assumption "channel backend writes succeed"); this leg injects the write error into the real code.

import (
	"errors"
	"fmt"
	"sync/atomic"
	"testing"
	"time"

	"github.com/nsqio/go-nsq"
)

type vfE2FailBackend struct {
	BackendQueue
	fail int32
}

func (b *vfE2FailBackend) Put(d []byte) error {
	if atomic.LoadInt32(&b.fail) == 1 {
		return errors.New("verif: injected backend write error")
	}
	return b.BackendQueue.Put(d)
}

func vfE2PFWait(cond func() bool) bool {
	for i := 0; i < 600; i++ {
		if cond() {
			return true
		}
		time.Sleep(5 * time.Millisecond)
	}
	return false
}

func TestVerifE2PutFail(t *testing.T) {
	for _, path := range []string{"req", "timeout"} {
		func() {
			opts := NewOptions()
			opts.Logger = nil
			opts.LogLevel = LOG_FATAL
			opts.DataPath = t.TempDir()
			opts.MemQueueSize = 1
			opts.QueueScanInterval = time.Hour
			tcpAddr, _, nsqd := vfStartNSQD(opts)
			defer nsqd.Exit()
			topic := nsqd.GetTopic("vf_putfail")
			ch := topic.GetChannel("c")
			fb := &vfE2FailBackend{BackendQueue: ch.backend}
			ch.backend = fb // before any consumer subscribes
			conn, err := mustConnectNSQD(tcpAddr)
			if err != nil {
				t.Fatal(err)
			}
			defer conn.Close()
			identify(t, conn, nil, frameTypeResponse)
			sub(t, conn, "vf_putfail", "c")
			nsq.Ready(1).WriteTo(conn)
			m1 := NewMessage(topic.GenerateID(), []byte("one"))
			topic.PutMessage(m1)
			if _, err := nsq.ReadResponse(conn); err != nil {
				t.Fatal(err)
			}
			m2 := NewMessage(topic.GenerateID(), []byte("two")) // fills the memory queue (RDY 1, 1 in flight)
			topic.PutMessage(m2)
			if !vfE2PFWait(func() bool { return ch.Depth() == 1 }) {
				fmt.Printf("PUTFAIL path=%s inconclusive: depth never became 1\n", path)
				return
			}
			atomic.StoreInt32(&fb.fail, 1)
			answer := "-"
			if path == "req" {
				nsq.Requeue(nsq.MessageID(m1.ID), 0).WriteTo(conn)
				resp, err := nsq.ReadResponse(conn)
				if err != nil {
					t.Fatal(err)
				}
				_, data, _ := nsq.UnpackResponse(resp)
				answer = string(data)
				if len(answer) > 12 {
					answer = answer[:12]
				}
			} else {
				nsq.Ready(0).WriteTo(conn)
				time.Sleep(30 * time.Millisecond)
				ch.processInFlightQueue(time.Now().Add(2 * time.Hour).UnixNano())
			}
			atomic.StoreInt32(&fb.fail, 0)
			time.Sleep(50 * time.Millisecond)
			st := nsqd.GetStats("vf_putfail", "c", true)
			cs := st.Topics[0].Channels[0]
			cl := cs.Clients[0].(ClientV2Stats)
			located := cs.Depth + int64(cs.InFlightCount) + int64(cs.DeferredCount)
			lost := int64(cs.MessageCount) - located
			skew := cl.InFlightCount - int64(cs.InFlightCount)
			fmt.Printf("PUTFAIL path=%s reproduced=%v answer=%q channel: message_count=%d depth=%d in_flight=%d deferred=%d requeue_count=%d timeout_count=%d lost=%d client: in_flight_count=%d requeue_count=%d counter-skew=%d\n",
				path, lost != 0 || skew != 0, answer, cs.MessageCount, cs.Depth, cs.InFlightCount, cs.DeferredCount, cs.RequeueCount, cs.TimeoutCount,
				lost, cl.InFlightCount, cl.RequeueCount, skew)
		}()
	}
}
