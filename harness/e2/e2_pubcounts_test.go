package nsqd

// Audit B26 (C13, producers in /stats; finding `stats-pubcounts-break`, fix F49): `clientV2.Stats(topicName)` builds
// `pub_counts` with a loop over the map `c.pubCounts` that `break`s after the first entry it appended. With a topic
// filter at most one key matches; without one (plain `/stats`, nsqadmin's node view) a connection that published to
// two or more topics reports ONE of them (Go map order). Model `Nsq.Model.PubCounts` (`pubCountsOf false` / `true`),
// theorems `Nsq.Props.C13Pub`. This leg runs the real PUB / MPUB / DPUB commands over TCP and reads the real `/stats`
// over HTTP (JSON unfiltered, JSON per topic, text); the oracle is evaluated on the implementation's own output
// against the harness's books of what each connection published (acknowledged with OK).

import (
	"encoding/json"
	"fmt"
	"io"
	"net"
	"net/http"
	"regexp"
	"sort"
	"strconv"
	"strings"
	"testing"
	"time"

	"github.com/nsqio/go-nsq"
)

type vfE2PCProducer struct {
	id    string
	conn  net.Conn
	port  string
	books map[string]uint64 // topic -> messages acknowledged
}

type vfE2PCStats struct {
	Producers []struct {
		ClientID      string `json:"client_id"`
		RemoteAddress string `json:"remote_address"`
		PubCounts     []struct {
			Topic string `json:"topic"`
			Count uint64 `json:"count"`
		} `json:"pub_counts"`
	} `json:"producers"`
}

func vfE2PCFmt(m map[string]uint64) string {
	if len(m) == 0 {
		return "-"
	}
	ks := make([]string, 0, len(m))
	for k := range m {
		ks = append(ks, k)
	}
	sort.Strings(ks)
	out := make([]string, 0, len(ks))
	for _, k := range ks {
		out = append(out, fmt.Sprintf("%s=%d", k, m[k]))
	}
	return strings.Join(out, ",")
}

func vfE2PCSum(m map[string]uint64) uint64 {
	var s uint64
	for _, v := range m {
		s += v
	}
	return s
}

// vfE2PCClass compares one listed answer with what is expected: "ok", "break" (a strict subset of the expected
// topics, every listed count right: the shape of the known finding) or "wrong" (anything else: a count that is
// off, a topic never published to, a topic listed twice).
func vfE2PCClass(listed, expected map[string]uint64, dup bool) string {
	if dup {
		return "wrong"
	}
	for k, v := range listed {
		if ev, ok := expected[k]; !ok || ev != v {
			return "wrong"
		}
	}
	if len(listed) == len(expected) {
		return "ok"
	}
	return "break"
}

func vfE2PCGet(url string) ([]byte, error) {
	cl := &http.Client{Timeout: 10 * time.Second}
	resp, err := cl.Get(url)
	if err != nil {
		return nil, err
	}
	defer resp.Body.Close()
	if resp.StatusCode != 200 {
		return nil, fmt.Errorf("status %d", resp.StatusCode)
	}
	return io.ReadAll(resp.Body)
}

// vfE2PCJSON: client_id -> listed pub_counts (dup = some topic listed twice) for one JSON /stats answer.
func vfE2PCJSON(url string) (map[string]map[string]uint64, map[string]bool, error) {
	body, err := vfE2PCGet(url)
	if err != nil {
		return nil, nil, err
	}
	var st vfE2PCStats
	if err := json.Unmarshal(body, &st); err != nil {
		return nil, nil, err
	}
	out := map[string]map[string]uint64{}
	dup := map[string]bool{}
	for _, p := range st.Producers {
		m := map[string]uint64{}
		for _, pc := range p.PubCounts {
			if _, seen := m[pc.Topic]; seen {
				dup[p.ClientID] = true
			}
			m[pc.Topic] += pc.Count
		}
		out[p.ClientID] = m
	}
	return out, dup, nil
}

var vfE2PCTextRe = regexp.MustCompile(`\[V2 (\S+):(\d+) [^\]]*\] msgs: (\d+)\s+topics: (\S*) connected:`)

// vfE2PCText: remote port -> (msgs total, listed topics) of the producer lines of the text /stats.
func vfE2PCText(url string) (map[string]uint64, map[string]map[string]uint64, map[string]bool, error) {
	body, err := vfE2PCGet(url)
	if err != nil {
		return nil, nil, nil, err
	}
	tot := map[string]uint64{}
	out := map[string]map[string]uint64{}
	dup := map[string]bool{}
	for _, mm := range vfE2PCTextRe.FindAllStringSubmatch(string(body), -1) {
		port := mm[2]
		n, _ := strconv.ParseUint(mm[3], 10, 64)
		tot[port] = n
		m := map[string]uint64{}
		for _, kv := range strings.Split(mm[4], ",") {
			p := strings.SplitN(kv, "=", 2)
			if len(p) != 2 {
				continue
			}
			c, _ := strconv.ParseUint(p[1], 10, 64)
			if _, seen := m[p[0]]; seen {
				dup[port] = true
			}
			m[p[0]] += c
		}
		out[port] = m
	}
	return tot, out, dup, nil
}

func TestVerifE2PubCounts(t *testing.T) {
	rnd := vfNewRand(0xB26)
	opts := NewOptions()
	opts.Logger = nil
	opts.LogLevel = LOG_FATAL
	opts.DataPath = t.TempDir()
	tcpAddr, httpAddr, nsqd := vfStartNSQD(opts)
	defer nsqd.Exit()
	topics := []string{"vf_pc_A", "vf_pc_B", "vf_pc_C"}
	idle := "vf_pc_D" // exists, nobody publishes to it
	nsqd.GetTopic(idle)

	mk := func(id string) *vfE2PCProducer {
		conn, err := mustConnectNSQD(tcpAddr)
		if err != nil {
			t.Fatal(err)
		}
		identify(t, conn, map[string]interface{}{"client_id": id, "hostname": id, "user_agent": "vf"}, frameTypeResponse)
		_, port, _ := net.SplitHostPort(conn.LocalAddr().String())
		return &vfE2PCProducer{id: id, conn: conn, port: port, books: map[string]uint64{}}
	}
	p1 := mk("vfp1")
	defer p1.conn.Close()
	p2 := mk("vfp2")
	defer p2.conn.Close()

	// command script: (producer, topic, kind, n). p1: every topic, first an MPUB of >= 2 bodies (so that an MPUB counted
	// as one message cannot hide), then a random mix up to the target; p2: topic B only.
	type cmd struct {
		p     *vfE2PCProducer
		topic string
		kind  string
		n     int
	}
	var cmds []cmd
	hist := map[string]int{}
	plan := func(p *vfE2PCProducer, topic string, target int) {
		first := 2 + rnd.Intn(3)
		if first > target {
			first = target
		}
		cmds = append(cmds, cmd{p, topic, "MPUB", first})
		left := target - first
		for left > 0 {
			switch rnd.Intn(4) {
			case 0:
				n := 1 + rnd.Intn(left)
				if n > 5 {
					n = 5
				}
				cmds = append(cmds, cmd{p, topic, "MPUB", n})
				left -= n
			case 1:
				cmds = append(cmds, cmd{p, topic, "DPUB", 1})
				left--
			default:
				cmds = append(cmds, cmd{p, topic, "PUB", 1})
				left--
			}
		}
	}
	targets := map[string]int{}
	for _, tp := range topics {
		targets[tp] = 2 + rnd.Intn(9)
		plan(p1, tp, targets[tp])
	}
	p2target := 2 + rnd.Intn(6)
	plan(p2, topics[1], p2target)
	for i := len(cmds) - 1; i > 0; i-- { // the order of the commands (topics interleaved) from the seed
		j := rnd.Intn(i + 1)
		cmds[i], cmds[j] = cmds[j], cmds[i]
	}
	for _, c := range cmds {
		var err error
		switch c.kind {
		case "PUB":
			_, err = nsq.Publish(c.topic, rnd.Bytes(1+rnd.Intn(20))).WriteTo(c.p.conn)
		case "DPUB":
			_, err = nsq.DeferredPublish(c.topic, time.Duration(1+rnd.Intn(50))*time.Millisecond, rnd.Bytes(1+rnd.Intn(20))).WriteTo(c.p.conn)
		case "MPUB":
			bodies := make([][]byte, c.n)
			for i := range bodies {
				bodies[i] = rnd.Bytes(1 + rnd.Intn(20))
			}
			var mc *nsq.Command
			mc, err = nsq.MultiPublish(c.topic, bodies)
			if err == nil {
				_, err = mc.WriteTo(c.p.conn)
			}
		}
		if err != nil {
			t.Fatal(err)
		}
		resp, err := nsq.ReadResponse(c.p.conn)
		if err != nil {
			t.Fatal(err)
		}
		ft, data, _ := nsq.UnpackResponse(resp)
		if ft != frameTypeResponse || string(data) != "OK" {
			t.Fatalf("%s %s n=%d answered %d %q", c.kind, c.topic, c.n, ft, data)
		}
		c.p.books[c.topic] += uint64(c.n)
		hist[c.kind]++
		hist["msgs"] += c.n
	}
	fmt.Printf("PUBCOUNTS-DIST commands=%d PUB=%d DPUB=%d MPUB=%d messages=%d p1=%s p2=%s\n",
		len(cmds), hist["PUB"], hist["DPUB"], hist["MPUB"], hist["msgs"], vfE2PCFmt(p1.books), vfE2PCFmt(p2.books))

	base := "http://" + httpAddr.String() + "/stats"
	const rounds = 6 // the unfiltered answer is asked several times: the map order differs from request to request
	for _, p := range []*vfE2PCProducer{p1, p2} {
		isBreak, isWrong := false, false
		var detail []string
		note := func(view, class string, listed map[string]uint64) {
			if class == "break" {
				isBreak = true
			}
			if class == "wrong" {
				isWrong = true
			}
			if class != "ok" {
				d := fmt.Sprintf("%s:%s[%s]", view, class, vfE2PCFmt(listed))
				for _, o := range detail {
					if o == d {
						return
					}
				}
				detail = append(detail, d)
			}
		}
		seen := map[string]bool{}
		var lastListed map[string]uint64
		for r := 0; r < rounds; r++ {
			all, dup, err := vfE2PCJSON(base + "?format=json")
			if err != nil {
				t.Fatal(err)
			}
			listed, ok := all[p.id]
			if !ok {
				isWrong = true
				detail = append(detail, "json:producer-missing")
				continue
			}
			lastListed = listed
			seen[vfE2PCFmt(listed)] = true
			note("json", vfE2PCClass(listed, p.books, dup[p.id]), listed)
		}
		// the per-topic filtered answers, and their union
		union := map[string]uint64{}
		for _, tp := range append(append([]string{}, topics...), idle) {
			all, dup, err := vfE2PCJSON(base + "?format=json&topic=" + tp)
			if err != nil {
				t.Fatal(err)
			}
			listed, ok := all[p.id]
			if !ok {
				isWrong = true
				detail = append(detail, "filtered("+tp+"):producer-missing")
				continue
			}
			want := map[string]uint64{}
			if n, pub := p.books[tp]; pub {
				want[tp] = n
			}
			// with a filter nothing may be missing: any difference is a different failure than the known one
			if vfE2PCClass(listed, want, dup[p.id]) != "ok" {
				note("filtered("+tp+")", "wrong", listed)
			}
			for k, v := range listed {
				union[k] += v
			}
		}
		unionAgrees := vfE2PCFmt(union) == vfE2PCFmt(lastListed)
		// text format
		tot, txt, tdup, err := vfE2PCText(base)
		if err != nil {
			t.Fatal(err)
		}
		tl, ok := txt[p.port]
		if !ok {
			isWrong = true
			detail = append(detail, "text:producer-missing")
		} else {
			note("text", vfE2PCClass(tl, p.books, tdup[p.port]), tl)
			if tot[p.port] != vfE2PCSum(tl) {
				isWrong = true
				detail = append(detail, fmt.Sprintf("text:msgs=%d!=sum", tot[p.port]))
			}
		}
		var answers []string
		for k := range seen {
			answers = append(answers, k)
		}
		sort.Strings(answers)
		dtl := "-"
		if len(detail) > 0 {
			dtl = strings.Join(detail, ";")
		}
		fmt.Printf("PUBCOUNTS reproduced=%v wrong=%v producer=%s listed=%s expected=%s listed-sum=%d published=%d unfiltered-answers=%d/%d filtered-union=%s union-agrees=%v text=%s detail=%s\n",
			isBreak, isWrong, p.id, strings.Join(answers, "|"), vfE2PCFmt(p.books), vfE2PCSum(lastListed), vfE2PCSum(p.books),
			len(seen), rounds, vfE2PCFmt(union), unionAgrees, vfE2PCFmt(tl), dtl)
	}
}
