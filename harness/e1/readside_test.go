package nsqd

// C07 / C11, round 11 (builder proto4): the READ side of a second (or first) stack-changing IDENTIFY.
// Every Upgrade* replaces client.Reader; whatever the replaced readers had already taken off the
// socket is gone: the 16 KiB bufio.Reader, the 4 KiB bufio.Reader inside flate.NewReader (net.Conn /
// tls.Conn are not io.ByteReaders), the decoded rest of a snappy chunk, tls.Conn's rawInput / input.
//
// TestVerifReadSideProbe is an EXPERIMENT on the real daemon over TCP (not part of ./check): what
// happens to commands a client pipelines BEHIND a stack-changing IDENTIFY without waiting for its
// response. Output: lines `READSIDE <case> <observation>`.

import (
	"bytes"
	"compress/flate"
	"crypto/tls"
	"encoding/binary"
	"fmt"
	"io"
	"net"
	"path/filepath"
	"testing"
	"time"

	"github.com/golang/snappy"
)

func vfE1RIdentify(js string) []byte {
	var b bytes.Buffer
	b.WriteString("IDENTIFY\n")
	binary.Write(&b, binary.BigEndian, int32(len(js)))
	b.WriteString(js)
	return b.Bytes()
}

func vfE1RPub(topic string, body []byte) []byte {
	var b bytes.Buffer
	b.WriteString("PUB " + topic + "\n")
	binary.Write(&b, binary.BigEndian, int32(len(body)))
	b.Write(body)
	return b.Bytes()
}

func vfE1RFrame(r io.Reader, conn net.Conn, d time.Duration) (string, error) {
	conn.SetReadDeadline(time.Now().Add(d))
	var hdr [4]byte
	if _, err := io.ReadFull(r, hdr[:]); err != nil {
		return "", err
	}
	sz := binary.BigEndian.Uint32(hdr[:])
	if sz < 4 || sz > 1<<20 {
		return "", fmt.Errorf("frame size %d", sz)
	}
	b := make([]byte, sz)
	if _, err := io.ReadFull(r, b); err != nil {
		return "", err
	}
	s := string(b[4:])
	if len(s) > 24 {
		s = s[:24] + "..."
	}
	return fmt.Sprintf("%d:%s", binary.BigEndian.Uint32(b[:4]), s), nil
}

func TestVerifReadSideProbe(t *testing.T) {
	certDir := vfE1SCertDir()
	opts := NewOptions()
	opts.Logger = nil
	opts.LogLevel = LOG_FATAL
	opts.DataPath = t.TempDir()
	opts.SnappyEnabled, opts.DeflateEnabled = true, true
	opts.TLSCert = filepath.Join(certDir, "server.pem")
	opts.TLSKey = filepath.Join(certDir, "server.key")
	_, _, nsqd := vfStartNSQD(opts)
	defer nsqd.Exit()
	depth := func(topic string) int64 {
		tp := nsqd.GetTopic(topic)
		return tp.Depth()
	}
	dial := func() net.Conn {
		c, err := net.DialTimeout("tcp", nsqd.RealTCPAddr().String(), 5*time.Second)
		if err != nil {
			t.Fatal(err)
		}
		c.Write([]byte("  V2"))
		return c
	}
	neg := func(kind string) string {
		return fmt.Sprintf(`{"feature_negotiation":true,"tls_v1":%v,"snappy":%v,"deflate":%v}`, kind == "tls", kind == "snappy", kind == "deflate")
	}

	// B: plain connection; IDENTIFY{snappy} and a plaintext PUB in ONE write
	{
		c := dial()
		c.Write(append(vfE1RIdentify(neg("snappy")), vfE1RPub("rsB", []byte("pipelined"))...))
		doc, e1 := vfE1RFrame(c, c, 3*time.Second)
		sr := snappy.NewReader(c)
		ok, e2 := vfE1RFrame(sr, c, 3*time.Second)
		extra, e3 := "(not read: a timeout would poison the snappy reader)", error(nil)
		//lint:ignore SA1019 unbuffered on purpose
		sw := snappy.NewWriter(c)
		sw.Write(vfE1RPub("rsB", []byte("after")))
		ok2, e4 := vfE1RFrame(sr, c, 3*time.Second)
		time.Sleep(200 * time.Millisecond)
		fmt.Printf("READSIDE B one-write IDENTIFY{snappy}+PUB(plain): doc=%q/%v ok=%q/%v answer-to-pipelined-PUB=%q/%v then PUB through snappy=%q/%v depth=%d (1 = only the PUB sent after the upgrade was executed: the pipelined one was dropped silently)\n",
			doc[:vfE1SMin(12, len(doc))], e1, ok, e2, extra, e3, ok2, e4, depth("rsB"))
		c.Close()
	}
	// C: the same PUB 300 ms later (still without reading the response): it reaches the NEW reader
	{
		c := dial()
		c.Write(vfE1RIdentify(neg("snappy")))
		time.Sleep(300 * time.Millisecond)
		c.Write(vfE1RPub("rsC", []byte("late-plain")))
		doc, e1 := vfE1RFrame(c, c, 3*time.Second)
		sr := snappy.NewReader(c)
		ok, e2 := vfE1RFrame(sr, c, 3*time.Second)
		extra, e3 := vfE1RFrame(sr, c, 2*time.Second)
		fmt.Printf("READSIDE C IDENTIFY{snappy}, 300 ms, PUB(plain): doc=%q/%v ok=%q/%v next=%q/%v depth=%d (plaintext decoded as snappy: connection closed, nothing executed)\n",
			doc[:vfE1SMin(12, len(doc))], e1, ok, e2, extra, e3, depth("rsC"))
		c.Close()
	}
	// D: SECOND upgrade: TLS first (compliant), then IDENTIFY{snappy}+PUB in one TLS record
	{
		c := dial()
		c.Write(vfE1RIdentify(neg("tls")))
		vfE1RFrame(c, c, 3*time.Second)
		tc := tls.Client(c, &tls.Config{InsecureSkipVerify: true})
		c.SetDeadline(time.Now().Add(5 * time.Second))
		if err := tc.Handshake(); err != nil {
			t.Fatal(err)
		}
		c.SetDeadline(time.Time{})
		ok0, _ := vfE1RFrame(tc, c, 3*time.Second)
		tc.Write(append(vfE1RIdentify(neg("snappy")), vfE1RPub("rsD", []byte("pipelined-in-tls"))...))
		doc, e1 := vfE1RFrame(tc, c, 3*time.Second)
		sr := snappy.NewReader(tc)
		ok, e2 := vfE1RFrame(sr, c, 3*time.Second)
		extra, e3 := "(not read: a timeout would poison the snappy reader)", error(nil)
		//lint:ignore SA1019 unbuffered on purpose
		sw := snappy.NewWriter(tc)
		sw.Write(vfE1RPub("rsD", []byte("after")))
		ok2, e4 := vfE1RFrame(sr, c, 3*time.Second)
		time.Sleep(200 * time.Millisecond)
		fmt.Printf("READSIDE D tls(ok=%q), then one record IDENTIFY{snappy}+PUB: doc=%q/%v ok=%q/%v answer-to-pipelined-PUB=%q/%v then PUB through snappy=%q/%v depth=%d\n",
			ok0, doc[:vfE1SMin(12, len(doc))], e1, ok, e2, extra, e3, ok2, e4, depth("rsD"))
		c.Close()
	}
	// E: deflate first (compliant), then IDENTIFY{snappy}+PUB in one deflate flush: lost in flate's own bufio / window
	{
		c := dial()
		c.Write(vfE1RIdentify(neg("deflate")))
		vfE1RFrame(c, c, 3*time.Second)
		fr := flate.NewReader(vfE1SByteReader{c})
		fw, _ := flate.NewWriter(c, 3)
		ok0, _ := vfE1RFrame(fr, c, 3*time.Second)
		fw.Write(append(vfE1RIdentify(neg("snappy")), vfE1RPub("rsE", []byte("pipelined-in-deflate"))...))
		fw.Flush()
		doc, e1 := vfE1RFrame(fr, c, 3*time.Second)
		sr := snappy.NewReader(&vfE1SSkipR{r: c})
		ok, e2 := vfE1RFrame(sr, c, 3*time.Second)
		extra, e3 := "(not read: a timeout would poison the snappy reader)", error(nil)
		//lint:ignore SA1019 unbuffered on purpose
		sw := snappy.NewWriter(c)
		sw.Write(vfE1RPub("rsE", []byte("after")))
		ok2, e4 := vfE1RFrame(sr, c, 3*time.Second)
		time.Sleep(200 * time.Millisecond)
		fmt.Printf("READSIDE E deflate(ok=%q), then one flush IDENTIFY{snappy}+PUB: doc=%q/%v ok=%q/%v answer-to-pipelined-PUB=%q/%v then PUB through snappy=%q/%v depth=%d\n",
			ok0, doc[:vfE1SMin(12, len(doc))], e1, ok, e2, extra, e3, ok2, e4, depth("rsE"))
		c.Close()
	}
	// F: the compliant client (waits for every response) through deflate > snappy > tls > deflate: nothing lost
	{
		c := dial()
		var r io.Reader = c
		var w io.Writer = c
		var fl func() error
		send := func(p []byte) {
			w.Write(p)
			if fl != nil {
				fl()
			}
		}
		var under io.ReadWriter = c
		lost := 0
		for i, kind := range []string{"deflate", "snappy", "tls", "deflate", "snappy"} {
			send(vfE1RIdentify(neg(kind)))
			if _, err := vfE1RFrame(r, c, 3*time.Second); err != nil {
				fmt.Printf("READSIDE F step %d %s: document: %v\n", i, kind, err)
				lost++
				break
			}
			switch kind {
			case "deflate":
				r = flate.NewReader(vfE1SByteReader{under})
				fw, _ := flate.NewWriter(under, 3)
				w, fl = fw, fw.Flush
			case "snappy":
				r = snappy.NewReader(&vfE1SSkipR{r: under})
				//lint:ignore SA1019 unbuffered on purpose
				w, fl = snappy.NewWriter(under), nil
			case "tls":
				tc := tls.Client(&vfE1SSkip{Conn: c, vfE1SSkipR: vfE1SSkipR{r: c}}, &tls.Config{InsecureSkipVerify: true})
				c.SetDeadline(time.Now().Add(5 * time.Second))
				if err := tc.Handshake(); err != nil {
					fmt.Printf("READSIDE F step %d tls handshake: %v\n", i, err)
					lost++
				}
				c.SetDeadline(time.Time{})
				under, r, w, fl = tc, tc, tc, nil
			}
			if ok, err := vfE1RFrame(r, c, 3*time.Second); err != nil || ok != "0:OK" {
				fmt.Printf("READSIDE F step %d %s: OK after upgrade: %q %v\n", i, kind, ok, err)
				lost++
				break
			}
			send(vfE1RPub("rsF", []byte(fmt.Sprintf("m%d", i))))
			if ok, err := vfE1RFrame(r, c, 3*time.Second); err != nil || ok != "0:OK" {
				fmt.Printf("READSIDE F step %d %s: PUB: %q %v\n", i, kind, ok, err)
				lost++
				break
			}
		}
		fmt.Printf("READSIDE F compliant client, deflate>snappy>tls>deflate>snappy with a PUB after each: failures=%d depth=%d (5 = every PUB executed)\n", lost, depth("rsF"))
		c.Close()
	}
}
