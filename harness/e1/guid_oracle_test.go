package nsqd

// API-only oracles for C12 (no access to guidFactory fields: this file keeps compiling when the
// internals of nsqd/guid.go change). Uses NewGUIDFactory, (*guidFactory).NewGUID,
// Topic.GenerateID and guid.Hex only.

import (
	"fmt"
	"os"
	"sort"
	"sync"
	"testing"
)

// TestVerifGuidOracle: the property itself on the implementation — concurrent publishers on one
// real Topic; ids are globally distinct and each goroutine sees strictly increasing ids
// (a consequence of "strictly increasing in generation order" that needs no instrumentation).
func TestVerifGuidOracle(t *testing.T) {
	opts := NewOptions()
	opts.Logger = nil
	opts.LogLevel = LOG_FATAL
	opts.TCPAddress, opts.HTTPAddress = vfLoop2()
	opts.HTTPSAddress = ""
	opts.DataPath = t.TempDir()
	opts.ID = int64(vfEnvInt("VERIF_NODEID", 1023))
	nsqd, err := New(opts)
	if err != nil {
		t.Fatal(err)
	}
	defer nsqd.Exit()
	topic := nsqd.GetTopic("vf_guid")
	workers, per := 16, vfEnvInt("VERIF_N", 20000)
	res := make([][]MessageID, workers)
	var wg sync.WaitGroup
	for w := 0; w < workers; w++ {
		wg.Add(1)
		go func(w int) {
			defer wg.Done()
			ids := make([]MessageID, 0, per)
			for i := 0; i < per; i++ {
				ids = append(ids, topic.GenerateID())
			}
			res[w] = ids
		}(w)
	}
	wg.Wait()
	fail := func(what string) {
		fmt.Printf("ORACLE-FAIL %s\n", what)
		if p := os.Getenv("VERIF_OUT"); p != "" {
			os.WriteFile(p+"/oracle_fail.txt", []byte(what+"\n"), 0o644)
		}
		t.Fail()
	}
	all := make([]string, 0, workers*per)
	for w := range res {
		for i, id := range res[w] {
			if i > 0 && string(res[w][i-1][:]) >= string(id[:]) {
				fail(fmt.Sprintf("not increasing within publisher %d: %s then %s", w, res[w][i-1][:], id[:]))
				return
			}
			for _, c := range id {
				if !(c >= '0' && c <= '9' || c >= 'a' && c <= 'f') {
					fail(fmt.Sprintf("id %q is not 16 lower-case hex characters", id[:]))
					return
				}
			}
			all = append(all, string(id[:]))
		}
	}
	sort.Strings(all)
	for i := 1; i < len(all); i++ {
		if all[i] == all[i-1] {
			fail("duplicate id " + all[i])
			return
		}
	}
	fmt.Printf("ORACLE-OK ids=%d distinct=%d\n", len(all), len(all))
}


// TestVerifGuidBurst: one goroutine calls NewGUID back to back on a bare factory (each call
// stands for the next publisher's request), so the 4096 ids of a pseudo-millisecond are used up
// many times. Every id that was actually returned must be strictly above the previous one
// (hence never repeated), also as the 16-character hex string consumers see.
func TestVerifGuidBurst(t *testing.T) {
	calls := vfEnvInt("VERIF_N", 200000)
	node := int64(vfEnvInt("VERIF_NODEID", 1))
	f := NewGUIDFactory(node)
	ids := make([]guid, 0, calls)
	errs := map[string]int{}
	for i := 0; i < calls; i++ {
		id, err := f.NewGUID()
		if err != nil {
			errs[err.Error()]++
			continue
		}
		ids = append(ids, id)
	}
	expired := errs[ErrSequenceExpired.Error()]
	for i := 1; i < len(ids); i++ {
		if ids[i] <= ids[i-1] {
			a, b := ids[i-1].Hex(), ids[i].Hex()
			what := fmt.Sprintf("node-id %d, back-to-back NewGUID: id #%d = %s follows id #%d = %s (same id handed out twice: %v)",
				node, i, b[:], i-1, a[:], ids[i] == ids[i-1])
			// was it already handed out earlier? (duplicate rather than merely decreasing)
			for j := 0; j < i; j++ {
				if ids[j] == ids[i] {
					what += fmt.Sprintf("; id #%d equals id #%d", i, j)
					break
				}
			}
			fmt.Printf("BURST-FAIL %s\n", what)
			if p := os.Getenv("VERIF_OUT"); p != "" {
				os.WriteFile(p+"/burst_fail.txt", []byte(what+"\n"), 0o644)
			}
			t.Fail()
			return
		}
	}
	fmt.Printf("BURST-OK node=%d calls=%d ids=%d sequenceExpired=%d errors=%v\n", node, calls, len(ids), expired, errs)
}

// TestVerifGuidTopicBurst: the same through Topic.GenerateID of a running nsqd from a single
// goroutine (no lock contention, so more than 4096 requests per pseudo-millisecond happen).
func TestVerifGuidTopicBurst(t *testing.T) {
	opts := NewOptions()
	opts.Logger = nil
	opts.LogLevel = LOG_FATAL
	opts.TCPAddress, opts.HTTPAddress = vfLoop2()
	opts.HTTPSAddress = ""
	opts.DataPath = t.TempDir()
	opts.ID = int64(vfEnvInt("VERIF_NODEID", 1))
	nsqd, err := New(opts)
	if err != nil {
		t.Fatal(err)
	}
	defer nsqd.Exit()
	topic := nsqd.GetTopic("vf_guid_burst")
	n := vfEnvInt("VERIF_N", 100000)
	ids := make([]MessageID, n)
	for i := range ids {
		ids[i] = topic.GenerateID()
	}
	seen := make(map[MessageID]int, n)
	for i, id := range ids {
		if j, dup := seen[id]; dup {
			what := fmt.Sprintf("node-id %d, Topic.GenerateID loop: id %s handed out twice (#%d and #%d)", opts.ID, id[:], j, i)
			fmt.Printf("BURST-FAIL %s\n", what)
			t.Fail()
			return
		}
		seen[id] = i
		if i > 0 && string(ids[i-1][:]) >= string(id[:]) {
			what := fmt.Sprintf("node-id %d, Topic.GenerateID loop: id #%d = %s does not follow #%d = %s in increasing order", opts.ID, i, id[:], i-1, ids[i-1][:])
			fmt.Printf("BURST-FAIL %s\n", what)
			t.Fail()
			return
		}
	}
	fmt.Printf("BURST-OK node=%d topic-ids=%d\n", opts.ID, n)
}
