package nsqd

// C07 (codec half): the real byte-format code vs the Lean model.
//
//   enc <ts> <attempts> <idhex> <bodyhex>   Message.WriteTo into a bytes.Buffer
//   dec <hex>                               decodeMessage
//   frame <type> <hex>                      protocol.SendFramedResponse
//   frames <hexstream>                      client-side reader: go-nsq ReadResponse + UnpackResponse in a loop
//   mpub <maxMsg> <maxBody> <hex>           readMPUB on a real topic
//   textmpub <maxMsg> <maxBody> <hex>       HTTP POST /mpub (text mode) on an in-process nsqd; bodies read back
//   hpub|hpubcl <maxMsg> <hex>              HTTP POST /pub (chunked | Content-Length); the enqueued body read back
//   bufw <cap> (w<hex>|f)…                  bufio.Writer of that size over a sink
//
// Every case also carries a direct oracle (round trip on the implementation itself).

import (
	"bufio"
	"bytes"
	"encoding/binary"
	"fmt"
	"io"
	"net"
	"net/http"
	"os"
	"strconv"
	"strings"
	"testing"
	"time"

	"github.com/nsqio/go-nsq"
	"github.com/nsqio/nsq/internal/protocol"
)

// vfE1Body: generated message bodies — sizes around the limits and buffer sizes, content classes.
func vfE1Body(r *vfRand, maxSize int) []byte {
	sizes := []int{0, 1, 2, 3, 4, 7, 8, 25, 26, 27, 63, 64, 65, 100, 4095, 4096, 4097, 16383, 16384, 16385, maxSize - 1, maxSize, maxSize + 1}
	var n int
	switch r.Intn(4) {
	case 0:
		n = sizes[r.Intn(len(sizes))]
	case 1:
		n = r.Intn(200)
	default:
		n = r.Intn(40)
	}
	if n < 0 {
		n = 0
	}
	if n > maxSize+1 {
		n = maxSize + 1
	}
	b := make([]byte, n)
	switch r.Intn(7) {
	case 0: // all zero
	case 1: // newline heavy
		for i := range b {
			if r.Intn(3) == 0 {
				b[i] = '\n'
			} else {
				b[i] = byte('a' + r.Intn(3))
			}
		}
	case 2: // looks like a frame header: size, frame type 2, then a message envelope
		copy(b, vfE1FrameLookalike(r))
	case 3: // protocol look-alikes
		copy(b, []byte("FIN 0123456789abcdef\nREQ 0123456789abcdef 0\n  V2MPUB t\n\x00\x00\x00\x01\x00\x00\x00\x01x"))
	case 4: // 0xff / high bytes
		for i := range b {
			b[i] = byte(0xf0 + r.Intn(16))
		}
	default:
		copy(b, r.Bytes(n))
	}
	return b
}

func vfE1FrameLookalike(r *vfRand) []byte {
	var buf bytes.Buffer
	inner := r.Bytes(r.Intn(20))
	binary.Write(&buf, binary.BigEndian, int32(len(inner)+30))
	binary.Write(&buf, binary.BigEndian, int32(2))
	binary.Write(&buf, binary.BigEndian, time.Now().UnixNano())
	binary.Write(&buf, binary.BigEndian, uint16(1))
	buf.WriteString("0123456789abcdef")
	buf.Write(inner)
	return buf.Bytes()
}

type vfE1WireEnv struct {
	t        *testing.T
	nsqd     *NSQD
	httpAddr net.Addr
	topic    *Topic
	seq      int
	hist     map[string]int
}

func vfE1HexList(bs [][]byte) string {
	if len(bs) == 0 {
		return "-"
	}
	parts := make([]string, len(bs))
	for i, b := range bs {
		parts[i] = vfHex(b)
	}
	return strings.Join(parts, ",")
}

func (e *vfE1WireEnv) exec(line string) (string, string) {
	t := e.t
	w := strings.Fields(line)
	fail := func(format string, a ...interface{}) {
		fmt.Printf("ORACLE-FAIL "+format+"\n", a...)
		t.Fail()
	}
	switch w[0] {
	case "enc":
		ts, _ := strconv.ParseInt(w[1], 10, 64)
		att, _ := strconv.ParseUint(w[2], 10, 16)
		var id MessageID
		copy(id[:], vfE1Unhex(w[3]))
		body := vfE1Unhex(w[4])
		m := &Message{ID: id, Body: body, Timestamp: ts, Attempts: uint16(att)}
		var buf bytes.Buffer
		nw, err := m.WriteTo(&buf)
		if err != nil || int(nw) != buf.Len() {
			return line, fmt.Sprintf("writeerr:%v:%d", err, nw)
		}
		// direct oracle: what was written decodes to the same message
		m2, err := decodeMessage(buf.Bytes())
		if err != nil || m2.ID != id || !bytes.Equal(m2.Body, body) || m2.Timestamp != ts || m2.Attempts != uint16(att) {
			fail("decodeMessage(WriteTo(m)) != m for ts=%d attempts=%d id=%x body=%s", ts, att, id, vfHex(body))
		}
		// …and the client library sees the same
		if cm, err := nsq.DecodeMessage(buf.Bytes()); err != nil || string(cm.ID[:]) != string(id[:]) || !bytes.Equal(cm.Body, body) || cm.Timestamp != ts || cm.Attempts != uint16(att) {
			fail("go-nsq DecodeMessage(WriteTo(m)) != m for ts=%d attempts=%d id=%x body=%s", ts, att, id, vfHex(body))
		}
		e.hist["enc"]++
		return line, vfHex(buf.Bytes())
	case "dec":
		b := vfE1Unhex(w[1])
		m, err := decodeMessage(b)
		if err != nil {
			e.hist["dec:err"]++
			return line, "err"
		}
		e.hist["dec:ok"]++
		return line, fmt.Sprintf("%d %d %s %s", m.Timestamp, m.Attempts, vfHex(m.ID[:]), vfHex(m.Body))
	case "frame":
		ft, _ := strconv.ParseInt(w[1], 10, 32)
		d := vfE1Unhex(w[2])
		var buf bytes.Buffer
		nw, err := protocol.SendFramedResponse(&buf, int32(ft), d)
		if err != nil || nw != buf.Len() {
			return line, fmt.Sprintf("writeerr:%v:%d", err, nw)
		}
		resp, err := nsq.ReadResponse(bytes.NewReader(buf.Bytes()))
		if err != nil {
			fail("client cannot read frame type %d data %s: %v", ft, vfHex(d), err)
		} else if ft2, d2, err := nsq.UnpackResponse(resp); err != nil || ft2 != int32(ft) || !bytes.Equal(d2, d) {
			fail("client read frame (%d,%s) as (%d,%s)", ft, vfHex(d), ft2, vfHex(d2))
		}
		e.hist["frame"]++
		return line, vfHex(buf.Bytes())
	case "frames":
		s := vfE1Unhex(w[1])
		rd := bytes.NewReader(s)
		var parts []string
		for rd.Len() > 0 {
			resp, err := nsq.ReadResponse(rd)
			if err != nil {
				e.hist["frames:err"]++
				return line, "err"
			}
			ft, d, err := nsq.UnpackResponse(resp)
			if err != nil {
				e.hist["frames:err"]++
				return line, "err"
			}
			parts = append(parts, fmt.Sprintf("%d:%s", ft, vfHex(d)))
		}
		e.hist["frames:ok"]++
		if len(parts) == 0 {
			return line, "-"
		}
		return line, strings.Join(parts, ",")
	case "mpub":
		maxMsg, _ := strconv.ParseInt(w[1], 10, 64)
		maxBody, _ := strconv.ParseInt(w[2], 10, 64)
		s := vfE1Unhex(w[3])
		rd := bytes.NewReader(s)
		tmp := make([]byte, 4)
		msgs, err := readMPUB(rd, tmp, e.topic, maxMsg, maxBody)
		if err != nil {
			code := "?"
			if ce, ok := err.(*protocol.FatalClientErr); ok {
				code = ce.Code
			}
			if len(msgs) != 0 {
				fail("readMPUB failed (%v) yet returned %d messages", err, len(msgs))
			}
			e.hist["mpub:"+code]++
			return line, code
		}
		bodies := make([][]byte, len(msgs))
		seen := map[MessageID]bool{}
		for i, m := range msgs {
			bodies[i] = m.Body
			if seen[m.ID] {
				fail("readMPUB gave two messages the same id %s", m.ID[:])
			}
			seen[m.ID] = true
			if len(m.Body) == 0 || int64(len(m.Body)) > maxMsg {
				fail("readMPUB accepted a body of %d bytes (max-msg-size %d)", len(m.Body), maxMsg)
			}
		}
		e.hist["mpub:ok"]++
		return line, fmt.Sprintf("ok %d %s rest=%d", len(msgs), vfE1HexList(bodies), rd.Len())
	case "textmpub", "textmpubcl":
		maxMsg, _ := strconv.ParseInt(w[1], 10, 64)
		maxBody, _ := strconv.ParseInt(w[2], 10, 64)
		s := vfE1Unhex(w[3])
		o2 := *e.nsqd.getOpts()
		o2.MaxMsgSize, o2.MaxBodySize = maxMsg, maxBody
		e.nsqd.swapOpts(&o2)
		e.seq++
		tname := fmt.Sprintf("vf_text_%d", e.seq)
		// "textmpub": chunked (unknown Content-Length), the size check is the limit reader's;
		// "textmpubcl": Content-Length known, checked first
		var body io.Reader = bytes.NewReader(s)
		if w[0] == "textmpub" {
			body = struct{ io.Reader }{body}
		}
		resp, err := http.Post(fmt.Sprintf("http://%s/mpub?topic=%s", e.httpAddr, tname), "application/octet-stream", body)
		if err != nil {
			return line, "httperr:" + err.Error()
		}
		rb, _ := io.ReadAll(resp.Body)
		resp.Body.Close()
		topic := e.nsqd.GetTopic(tname)
		var got [][]byte
	drain:
		for {
			select {
			case m := <-topic.memoryMsgChan:
				got = append(got, m.Body)
			default:
				break drain
			}
		}
		defer e.nsqd.DeleteExistingTopic(tname)
		if resp.StatusCode != 200 {
			if len(got) != 0 {
				fail("/mpub answered %d %s yet enqueued %d messages", resp.StatusCode, rb, len(got))
			}
			for _, code := range []string{"BODY_TOO_BIG", "MSG_TOO_BIG"} {
				if strings.Contains(string(rb), code) {
					e.hist["textmpub:"+code]++
					return line, code
				}
			}
			return line, fmt.Sprintf("other:%d:%s", resp.StatusCode, rb)
		}
		// direct oracle: the enqueued bodies are the non-empty newline-separated pieces, byte exact
		var want [][]byte
		for _, p := range bytes.Split(s, []byte("\n")) {
			if len(p) > 0 {
				want = append(want, p)
			}
		}
		if len(want) != len(got) {
			fail("/mpub text: %d pieces sent, %d messages enqueued (body %s)", len(want), len(got), vfHex(s))
		} else {
			for i := range want {
				if !bytes.Equal(want[i], got[i]) {
					fail("/mpub text: piece %d sent as %s enqueued as %s", i, vfHex(want[i]), vfHex(got[i]))
				}
			}
		}
		e.hist["textmpub:ok"]++
		return line, fmt.Sprintf("ok %d %s", len(got), vfE1HexList(got))
	case "hpub", "hpubcl": // HTTP POST /pub, chunked ("hpub") or with a Content-Length ("hpubcl")
		maxMsg, _ := strconv.ParseInt(w[1], 10, 64)
		s := vfE1Unhex(w[2])
		o2 := *e.nsqd.getOpts()
		o2.MaxMsgSize = maxMsg
		e.nsqd.swapOpts(&o2)
		e.seq++
		tname := fmt.Sprintf("vf_hpub_%d", e.seq)
		var body io.Reader = bytes.NewReader(s)
		if w[0] == "hpub" {
			body = struct{ io.Reader }{body}
		}
		resp, err := http.Post(fmt.Sprintf("http://%s/pub?topic=%s", e.httpAddr, tname), "application/octet-stream", body)
		if err != nil {
			return line, "httperr:" + err.Error()
		}
		rb, _ := io.ReadAll(resp.Body)
		resp.Body.Close()
		topic := e.nsqd.GetTopic(tname)
		var got [][]byte
	drainp:
		for {
			select {
			case m := <-topic.memoryMsgChan:
				got = append(got, m.Body)
			default:
				break drainp
			}
		}
		defer e.nsqd.DeleteExistingTopic(tname)
		if resp.StatusCode != 200 {
			if len(got) != 0 {
				fail("/pub answered %d %s yet enqueued %d messages", resp.StatusCode, rb, len(got))
			}
			for _, code := range []string{"MSG_TOO_BIG", "MSG_EMPTY"} {
				if strings.Contains(string(rb), code) {
					e.hist["hpub:"+code]++
					return line, code
				}
			}
			return line, fmt.Sprintf("other:%d:%s", resp.StatusCode, rb)
		}
		// direct oracle: exactly the body sent was enqueued, once
		if len(got) != 1 || !bytes.Equal(got[0], s) {
			fail("/pub accepted a %d-byte body (max-msg-size %d) and enqueued %d message(s), first %d bytes long", len(s), maxMsg, len(got), func() int {
				if len(got) > 0 {
					return len(got[0])
				}
				return 0
			}())
		}
		e.hist["hpub:ok"]++
		return line, "ok " + vfE1HexList(got)
	case "bufw":
		capn, _ := strconv.Atoi(w[1])
		var sink bytes.Buffer
		bw := bufio.NewWriterSize(&sink, capn)
		var all []byte
		for _, o := range w[2:] {
			if o == "f" {
				bw.Flush()
			} else {
				p := vfE1Unhex(o[1:])
				bw.Write(p)
				all = append(all, p...)
			}
		}
		bufd := all[sink.Len():]
		if !bytes.Equal(append(append([]byte{}, sink.Bytes()...), bufd...), all) || bw.Buffered() != len(bufd) {
			fail("bufio.Writer(%d): sink+buffer is not what was written", capn)
		}
		e.hist["bufw"]++
		return line, fmt.Sprintf("sink=%s buf=%s", vfHex(sink.Bytes()), vfHex(bufd))
	}
	return line, "bad-op"
}

func TestVerifWireCorr(t *testing.T) {
	out := vfOpen("wire")
	defer out.Close()
	r := vfNewRand(61)
	n := vfEnvInt("VERIF_N", 3000)
	opts := NewOptions()
	opts.Logger = nil
	opts.LogLevel = LOG_FATAL
	opts.DataPath = t.TempDir()
	opts.MemQueueSize = 100000
	_, httpAddr, nsqd := vfStartNSQD(opts)
	defer nsqd.Exit()
	defer vfE1PanicGuard("a codec call", out)()
	e := &vfE1WireEnv{t: t, nsqd: nsqd, httpAddr: httpAddr, topic: nsqd.GetTopic("vf_wire"), hist: map[string]int{}}
	run := func(line string) {
		op, impl := e.exec(line)
		out.Case(op, impl)
	}
	for _, f := range strings.Split(os.Getenv("VERIF_CORPUS"), ":") {
		if f == "" {
			continue
		}
		raw, err := os.ReadFile(f)
		if err != nil {
			t.Fatalf("corpus %s: %v", f, err)
		}
		for _, line := range strings.Split(string(raw), "\n") {
			line = strings.TrimSpace(line)
			if line == "" || strings.HasPrefix(line, "#") {
				continue
			}
			run(line)
			e.hist["corpus"]++
		}
	}
	const maxMsg = 20000
	ts := func() int64 {
		switch r.Intn(6) {
		case 0:
			return 0
		case 1:
			return -1
		case 2:
			return int64(r.Next())
		case 3:
			return 1<<63 - 1
		case 4:
			return -1 << 63
		}
		return time.Now().UnixNano()
	}
	att := func() uint64 {
		switch r.Intn(5) {
		case 0:
			return 0
		case 1:
			return 65535
		case 2:
			return 256
		case 3:
			return 255
		}
		return uint64(r.Intn(65536))
	}
	id := func() []byte {
		if r.Intn(3) == 0 {
			return r.Bytes(16)
		}
		return []byte(fmt.Sprintf("%016x", r.Next()))
	}
	for i := 0; i < n; i++ {
		switch k := r.Intn(21); {
		case k < 4:
			run(fmt.Sprintf("enc %d %d %s %s", ts(), att(), vfHex(id()), vfHex(vfE1Body(r, maxMsg))))
		case k < 7: // decode: valid encodings, truncations, short and random buffers
			var buf bytes.Buffer
			var mid MessageID
			copy(mid[:], id())
			(&Message{ID: mid, Body: vfE1Body(r, 300), Timestamp: ts(), Attempts: uint16(att())}).WriteTo(&buf)
			b := buf.Bytes()
			switch r.Intn(4) {
			case 0:
				b = b[:r.Intn(len(b)+1)]
			case 1:
				b = r.Bytes(r.Intn(40))
			case 2:
				b = b[:vfE1Min(len(b), 24+r.Intn(4))]
			}
			run("dec " + vfHex(b))
		case k < 9:
			ft := []int32{0, 1, 2, 2, 2, 7, -1, 1 << 30}[r.Intn(8)]
			run(fmt.Sprintf("frame %d %s", ft, vfHex(vfE1Body(r, maxMsg))))
		case k < 12: // a stream of frames (bodies may themselves look like frames), sometimes damaged
			var buf bytes.Buffer
			for j := r.Intn(5); j >= 0; j-- {
				d := vfE1Body(r, 300)
				if r.Intn(3) == 0 { // a message frame
					var mb bytes.Buffer
					var mid MessageID
					copy(mid[:], id())
					(&Message{ID: mid, Body: d, Timestamp: ts(), Attempts: uint16(att())}).WriteTo(&mb)
					protocol.SendFramedResponse(&buf, 2, mb.Bytes())
				} else {
					protocol.SendFramedResponse(&buf, int32(r.Intn(3)), d)
				}
			}
			b := buf.Bytes()
			switch r.Intn(8) {
			case 0:
				b = b[:r.Intn(len(b)+1)] // truncated
			case 1:
				b = append(b, r.Bytes(1+r.Intn(6))...) // trailing garbage
			case 2:
				if len(b) >= 4 {
					b = append([]byte{}, b...)
					if r.Intn(2) == 0 {
						b[0] ^= 0x80 // negative size
					} else {
						b[2+r.Intn(2)] ^= byte(1 << uint(r.Intn(8))) // damaged size (low bytes: no giant allocation)
					}
				}
			case 3:
				b = append([]byte{0, 0, 0, byte(r.Intn(5))}, r.Bytes(r.Intn(5))...) // size < 4
			}
			run("frames " + vfHex(b))
		case k < 16: // MPUB bodies: valid batches and malformed ones
			mm, mb := int64(200), int64(2000)
			if r.Intn(4) == 0 {
				mm, mb = int64(1+r.Intn(50)), int64(r.Intn(400))
			}
			cnt := 1 + r.Intn(6)
			var buf bytes.Buffer
			declared := int32(cnt)
			switch r.Intn(12) {
			case 0:
				declared = 0
			case 1:
				declared = -int32(r.Intn(3)) - 1
			case 2:
				declared = int32((mb-4)/5) + int32(r.Intn(3)) - 1
			case 3:
				declared += int32(r.Intn(3)) - 1
			}
			binary.Write(&buf, binary.BigEndian, declared)
			for j := 0; j < cnt; j++ {
				d := vfE1Body(r, int(mm))
				sz := int32(len(d))
				switch r.Intn(15) {
				case 0:
					sz = 0
				case 1:
					sz = -1
				case 2:
					sz = int32(mm) + 1
				case 3:
					sz++
				}
				binary.Write(&buf, binary.BigEndian, sz)
				buf.Write(d)
			}
			b := buf.Bytes()
			if r.Intn(8) == 0 {
				b = b[:r.Intn(len(b)+1)]
			}
			if r.Intn(6) == 0 {
				b = append(b, r.Bytes(r.Intn(5))...)
			}
			run(fmt.Sprintf("mpub %d %d %s", mm, mb, vfHex(b)))
		case k < 18: // text /mpub
			mm, mb := int64(60), int64(400)
			var buf bytes.Buffer
			for j := r.Intn(8); j >= 0; j-- {
				var piece []byte
				switch r.Intn(6) {
				case 0: // empty line
				case 1:
					piece = bytes.ReplaceAll(vfE1Body(r, int(mm)), []byte("\n"), []byte("x"))
				case 2:
					piece = []byte("\r")
				default:
					piece = bytes.ReplaceAll(r.Bytes(r.Intn(30)), []byte("\n"), []byte("y"))
				}
				buf.Write(piece)
				if j > 0 || r.Intn(2) == 0 {
					buf.WriteByte('\n')
				}
			}
			b := buf.Bytes()
			switch r.Intn(10) {
			case 0: // exactly at / just over the body limit
				b = append(b, bytes.Repeat([]byte("z\n"), int(mb))...)
				b = b[:int(mb)+r.Intn(3)-1]
			case 1:
				b = nil
			}
			run(fmt.Sprintf("%s %d %d %s", []string{"textmpub", "textmpubcl"}[r.Intn(2)], mm, mb, vfHex(b)))
		case k < 19: // HTTP /pub body limits (chunked and Content-Length): 0, 1, max-1, max, max+1, beyond
			mm := int64(50 + r.Intn(3000))
			sz := []int{0, 1, int(mm) - 1, int(mm), int(mm) + 1, int(mm) + 2, 2*int(mm) + 7, r.Intn(int(mm) + 1)}[r.Intn(8)]
			b := vfE1Body(r, sz)
			if len(b) != sz && r.Intn(2) == 0 {
				b = r.Bytes(sz)
			}
			run(fmt.Sprintf("%s %d %s", []string{"hpub", "hpubcl"}[r.Intn(2)], mm, vfHex(b)))
		default: // bufio.Writer
			capn := []int{1, 2, 16, 64, 100}[r.Intn(5)]
			ops := []string{}
			for j := 1 + r.Intn(8); j > 0; j-- {
				if r.Intn(4) == 0 {
					ops = append(ops, "f")
				} else {
					sz := []int{0, 1, 4, capn - 1, capn, capn + 1, 2*capn + 3, r.Intn(3 * capn)}[r.Intn(8)]
					if sz < 0 {
						sz = 0
					}
					ops = append(ops, "w"+vfHex(r.Bytes(sz)))
				}
			}
			run(fmt.Sprintf("bufw %d %s", capn, strings.Join(ops, " ")))
		}
	}
	fmt.Printf("WIRE-HIST %v\n", e.hist)
}
