package nsqd

// C07 / C11, audit round 7 item A2: which transport the connection's output writer hands its
// bytes to after IDENTIFY has been sent MORE THAN ONCE (IDENTIFY is guarded by State == stateInit
// alone, so a client may re-IDENTIFY after a TLS / snappy / deflate upgrade).
//
//   TestVerifStackCorr   white-box correspondence of Nsq.Model.WireStack (`stack` op lines): a real
//                        clientV2 over a recording net.Conn; real protocolV2.Send, Flush,
//                        SetOutputBuffer, UpgradeSnappy, UpgradeDeflate; the recorded raw bytes are
//                        decoded the way a client does — the bytes that arrived while stack k was
//                        negotiated with the decoder of stack k.
//   TestVerifReidentify  network end-to-end (incl. TLS, --tls-required): negotiate, IDENTIFY again
//                        with an output_buffer_size, SUB, receive messages — everything must arrive
//                        THROUGH the negotiated stack; the raw socket is sniffed for cleartext.
//
// Output: stack.ops/.impl (correspondence), lines `ORACLE-FAIL <key> ...`, `STACK-HIST k=v ...`,
// `REIDENT-CASE ...`, `REIDENT-FAIL key=... combo=...`, `REIDENT-OK cases=<n> ...`.

import (
	"bytes"
	"compress/flate"
	"crypto/tls"
	"encoding/binary"
	"fmt"
	"io"
	"net"
	"os"
	"path/filepath"
	"sort"
	"strconv"
	"strings"
	"sync"
	"sync/atomic"
	"testing"
	"time"

	"github.com/golang/snappy"
	"github.com/nsqio/nsq/internal/protocol"
)

// ---------------------------------------------------------------------------------------------
// white-box correspondence
// ---------------------------------------------------------------------------------------------

type vfE1SAddr struct{}

func (vfE1SAddr) Network() string { return "pipe" }
func (vfE1SAddr) String() string  { return "127.0.0.1:1" }

// vfE1SQ is one direction of an in-memory connection (unbounded, so a Write never blocks).
type vfE1SQ struct {
	mu       sync.Mutex
	cond     *sync.Cond
	buf      []byte
	closed   bool
	nonblock bool // Read returns a temporary timeout error instead of waiting
}

func vfE1SNewQ() *vfE1SQ {
	q := &vfE1SQ{}
	q.cond = sync.NewCond(&q.mu)
	return q
}

type vfE1SWouldBlock struct{}

func (vfE1SWouldBlock) Error() string   { return "vfE1S: no data (non-blocking read)" }
func (vfE1SWouldBlock) Timeout() bool   { return true }
func (vfE1SWouldBlock) Temporary() bool { return true }

func (q *vfE1SQ) write(p []byte) {
	q.mu.Lock()
	q.buf = append(q.buf, p...)
	q.cond.Broadcast()
	q.mu.Unlock()
}

func (q *vfE1SQ) read(p []byte) (int, error) {
	q.mu.Lock()
	defer q.mu.Unlock()
	deadline := time.Now().Add(20 * time.Second)
	for len(q.buf) == 0 {
		if q.closed {
			return 0, io.EOF
		}
		if q.nonblock {
			return 0, vfE1SWouldBlock{}
		}
		if time.Now().After(deadline) {
			return 0, io.ErrNoProgress
		}
		t := time.AfterFunc(time.Second, q.cond.Broadcast)
		q.cond.Wait()
		t.Stop()
	}
	n := copy(p, q.buf)
	q.buf = q.buf[n:]
	return n, nil
}

func (q *vfE1SQ) set(nonblock bool) {
	q.mu.Lock()
	q.nonblock = nonblock
	q.cond.Broadcast()
	q.mu.Unlock()
}

func (q *vfE1SQ) discard() {
	q.mu.Lock()
	q.buf = nil
	q.mu.Unlock()
}

func (q *vfE1SQ) close() {
	q.mu.Lock()
	q.closed = true
	q.cond.Broadcast()
	q.mu.Unlock()
}

// vfE1SRec is the server side's net.Conn: records everything written to the "socket" (buf) and
// hands it to the client side (s2c); reads what the client side wrote (only a TLS handshake does).
type vfE1SRec struct {
	mu  sync.Mutex
	buf []byte
	s2c *vfE1SQ
	c2s *vfE1SQ
}

func vfE1SNewRec() *vfE1SRec { return &vfE1SRec{s2c: vfE1SNewQ(), c2s: vfE1SNewQ()} }

func (c *vfE1SRec) Write(p []byte) (int, error) {
	c.mu.Lock()
	c.buf = append(c.buf, p...)
	c.mu.Unlock()
	c.s2c.write(p)
	return len(p), nil
}
func (c *vfE1SRec) Read(p []byte) (int, error)         { return c.c2s.read(p) }
func (c *vfE1SRec) Close() error                       { return nil }
func (c *vfE1SRec) LocalAddr() net.Addr                { return vfE1SAddr{} }
func (c *vfE1SRec) RemoteAddr() net.Addr               { return vfE1SAddr{} }
func (c *vfE1SRec) SetDeadline(t time.Time) error      { return nil }
func (c *vfE1SRec) SetReadDeadline(t time.Time) error  { return nil }
func (c *vfE1SRec) SetWriteDeadline(t time.Time) error { return nil }
func (c *vfE1SRec) Len() int {
	c.mu.Lock()
	defer c.mu.Unlock()
	return len(c.buf)
}

// vfE1SPeer is the client's end of the same connection (what a TLS client runs on).
type vfE1SPeer struct{ rec *vfE1SRec }

func (c vfE1SPeer) Write(p []byte) (int, error)        { c.rec.c2s.write(p); return len(p), nil }
func (c vfE1SPeer) Read(p []byte) (int, error)         { return c.rec.s2c.read(p) }
func (c vfE1SPeer) Close() error                       { return nil }
func (c vfE1SPeer) LocalAddr() net.Addr                { return vfE1SAddr{} }
func (c vfE1SPeer) RemoteAddr() net.Addr               { return vfE1SAddr{} }
func (c vfE1SPeer) SetDeadline(t time.Time) error      { return nil }
func (c vfE1SPeer) SetReadDeadline(t time.Time) error  { return nil }
func (c vfE1SPeer) SetWriteDeadline(t time.Time) error { return nil }

// vfE1SDecode decodes what arrived while stack `kind` was negotiated ("plain", "snappy", "deflate").
func vfE1SDecode(kind string, raw []byte) ([]byte, error) {
	switch kind {
	case "plain":
		return raw, nil
	case "snappy":
		return io.ReadAll(snappy.NewReader(bytes.NewReader(raw)))
	default:
		b, err := io.ReadAll(flate.NewReader(bytes.NewReader(raw)))
		if err == io.ErrUnexpectedEOF {
			err = nil // the server only sync-flushes, it never closes the deflate stream
		}
		return b, err
	}
}

// vfE1SStaleKinds: the upgrade orders that leave a stale flate writer on /repo d6aa4e3 — the last upgrade that is
// not TLS is a deflate and at least one TLS upgrade followed it (Model.WireStack.staleAfter).
func vfE1SStaleKinds(ups []string) bool {
	i := len(ups) - 1
	for i >= 0 && ups[i] == "tls" {
		i--
	}
	return i >= 0 && i < len(ups)-1 && ups[i] == "deflate"
}

// vfE1SExec runs one `stack` line on the real code.
//
//	stack <token>...   r<hex>  Send(frameTypeResponse, data)  (write + Flush)
//	                   m<hex>  a message frame, not flushed (what messagePump does); only after `s`
//	                   f       client.Flush()
//	                   b<n>    SetOutputBuffer(n, 0)    n = -1 | 64..max
//	                   us      UpgradeSnappy()         ud<level>  UpgradeDeflate(level)
//	                   ut      UpgradeTLS() (a real handshake with a crypto/tls client on the in-memory connection)
//	                   s       SUB accepted (state leaves init; nothing on the wire)
//
// The client decodes like a real one: stacks built on the raw connection offline from the recorded bytes
// that arrived while the stack was negotiated; from the first TLS upgrade on through the LIVE TLS client of the
// latest handshake (always on the raw connection, as tls.Server(c.Conn) is), compression decoded on its plaintext.
// A fatal error of the TLS client ends the line: `k:cut:<decoded on stack k before it>` and `dead`.
func vfE1SExec(n *NSQD, line string, hist map[string]int) (string, []string) {
	w := strings.Fields(line)
	rec := vfE1SNewRec()
	c := newClientV2(-1, rec, n)
	c.HeartbeatInterval = 0
	p := &protocolV2{nsqd: n}
	kinds := []string{"plain"}
	live := []bool{false}  // stack k is read through the live TLS client
	plain := [][]byte{nil} // live stacks: the TLS plaintext that arrived while stack k was negotiated
	var ups []string       // upgrade kinds in order
	cuts := []int{}        // raw offset at which stack k+1 begins
	var all []byte         // every frame handed to Send, in order
	var fails []string
	var tc *tls.Conn
	var tlsErr error
	dead := false
	drain := func() {
		if tc == nil || dead {
			return
		}
		rec.s2c.set(true)
		defer rec.s2c.set(false)
		buf := make([]byte, 32768)
		for {
			k, err := tc.Read(buf)
			plain[len(plain)-1] = append(plain[len(plain)-1], buf[:k]...)
			if err != nil {
				if _, ok := err.(vfE1SWouldBlock); !ok {
					dead, tlsErr = true, err
				}
				return
			}
		}
	}
	push := func(kind string, isLive bool) {
		drain()
		cuts = append(cuts, rec.Len())
		kinds = append(kinds, kind)
		live = append(live, isLive)
		plain = append(plain, nil)
	}
	for _, tok := range w[1:] {
		if dead {
			break
		}
		switch {
		case tok == "f":
			c.writeLock.Lock()
			c.Flush()
			c.writeLock.Unlock()
		case tok == "s":
			atomic.StoreInt32(&c.State, stateSubscribed)
		case tok == "us":
			push("snappy", tc != nil)
			ups = append(ups, "snappy")
			c.UpgradeSnappy()
			hist["upgrade:snappy"]++
		case tok == "ut":
			push("plain", true)
			ups = append(ups, "tls")
			rec.s2c.discard() // bytes of the stacks on the raw connection: decoded offline from rec.buf
			srvErr := make(chan error, 1)
			go func() { srvErr <- c.UpgradeTLS() }()
			ntc := tls.Client(vfE1SPeer{rec}, &tls.Config{InsecureSkipVerify: true})
			cerr := ntc.Handshake()
			serr := <-srvErr
			if cerr != nil || serr != nil {
				rec.s2c.close()
				rec.c2s.close()
				return line, []string{fmt.Sprintf("ORACLE-FAIL stack-harness TLS handshake failed: client %v server %v", cerr, serr)}
			}
			tc = ntc
			hist["upgrade:tls"]++
			if len(ups) > 1 {
				hist["upgrade:tls-after-"+ups[len(ups)-2]]++
			}
		case strings.HasPrefix(tok, "ud"):
			lv, _ := strconv.Atoi(tok[2:])
			push("deflate", tc != nil)
			ups = append(ups, "deflate")
			c.UpgradeDeflate(lv)
			hist["upgrade:deflate"]++
		case tok[0] == 'b':
			sz, _ := strconv.Atoi(tok[1:])
			if err := c.SetOutputBuffer(sz, 0); err != nil {
				return line, []string{fmt.Sprintf("ORACLE-FAIL stack-harness SetOutputBuffer(%d) refused: %v", sz, err)}
			}
			if len(kinds) > 1 {
				hist["rebuffer-after-upgrade"]++
			} else {
				hist["rebuffer-plain"]++
			}
		case tok[0] == 'r' || tok[0] == 'm':
			data := vfE1Unhex(tok[1:])
			var fb bytes.Buffer
			ft := int32(frameTypeResponse)
			if tok[0] == 'm' {
				ft = frameTypeMessage
			}
			protocol.SendFramedResponse(&fb, ft, data)
			all = append(all, fb.Bytes()...)
			if err := p.Send(c, ft, data); err != nil {
				return line, []string{fmt.Sprintf("ORACLE-FAIL stack-harness Send failed: %v", err)}
			}
		}
		drain()
	}
	raw := append([]byte(nil), rec.buf...)
	cuts = append(cuts, len(raw))
	var parts []string
	var seen []byte
	garbled := false
	from := 0
	for k, kind := range kinds {
		seg := raw[from:cuts[k]]
		from = cuts[k]
		if live[k] {
			seg = plain[k]
		}
		dec, err := vfE1SDecode(kind, seg)
		if dead && k == len(kinds)-1 {
			parts = append(parts, fmt.Sprintf("%d:cut:%s", k, vfHex(dec)), "dead")
			seen = append(seen, dec...)
			break
		}
		if err != nil {
			parts = append(parts, fmt.Sprintf("%d:garbled", k))
			garbled = true
			continue
		}
		parts = append(parts, fmt.Sprintf("%d:ok:%s", k, vfHex(dec)))
		seen = append(seen, dec...)
	}
	c.writeLock.Lock()
	buffered := c.Writer.Buffered()
	c.writeLock.Unlock()
	if !dead {
		parts = append(parts, fmt.Sprintf("buf=%d", buffered))
	}
	// direct oracle (no model): what the client decodes, stack by stack, is the frames sent minus
	// what is still buffered
	if dead || garbled || len(seen)+buffered != len(all) || !bytes.Equal(seen, all[:len(seen)]) {
		hist["oracle:fail"]++
		where := "undecodable"
		if dead {
			where = fmt.Sprintf("the TLS session broke after %d of %d bytes: %v", len(seen), len(all)-buffered, tlsErr)
		} else if !garbled {
			where = fmt.Sprintf("decoded %d of %d bytes", len(seen), len(all)-buffered)
		}
		clear := ""
		if len(kinds) > 1 && len(all) > 0 && !live[len(kinds)-1] {
			last := raw[cuts[len(kinds)-2]:]
			if i := bytes.Index(last, all[len(all)-vfE1SMin(len(all), 10):]); i >= 0 {
				clear = "; the last frame is readable as CLEARTEXT on the raw connection"
			}
		}
		key := "second-identify-cleartext"
		names := append([]string(nil), kinds...)
		for k := range names {
			if live[k] {
				names[k] = "tls+" + names[k]
			}
		}
		if dead && vfE1SStaleKinds(ups) {
			hist["oracle:fail:tls-after-deflate"]++
			key = "tls-after-deflate-garbled"
			tail := raw[cuts[len(kinds)-2]:]
			if bytes.HasSuffix(tail, []byte{0, 0, 0, 0xff, 0xff}) {
				clear = "; the deflate sync marker 00 00 00 ff ff is on the raw connection behind the TLS records"
			} else {
				clear = "; the last bytes on the raw connection are a record of the superseded TLS session"
			}
		}
		fails = append(fails, fmt.Sprintf("ORACLE-FAIL %s white-box: after `%s` the client, decoding with the negotiated stack (%s), does not receive the frames the server sent (%s)%s",
			key, strings.Join(w[1:], " "), strings.Join(names, ">"), where, clear))
	} else {
		hist["oracle:ok"]++
	}
	return strings.Join(parts, " "), fails
}

func vfE1SMin(a, b int) int {
	if a < b {
		return a
	}
	return b
}

func vfE1SGen(r *vfRand, maxBuf int, deflateThenSnappy bool) string {
	toks := []string{"stack"}
	sub := false
	nUp := 0
	nTLS := 0
	deflated := false
	steps := 2 + r.Intn(9)
	frame := func() string {
		switch r.Intn(4) {
		case 0:
			return "4f4b"
		case 1:
			return vfHex(r.Bytes(1 + r.Intn(40)))
		case 2:
			return vfHex(r.Bytes(60 + r.Intn(200)))
		}
		return vfHex(bytes.Repeat([]byte{byte(r.Intn(256))}, 1+r.Intn(300)))
	}
	size := func() string {
		switch r.Intn(5) {
		case 0:
			return "b-1"
		case 1:
			return "b64"
		case 2:
			return fmt.Sprintf("b%d", maxBuf)
		}
		return fmt.Sprintf("b%d", 64+r.Intn(maxBuf-63))
	}
	for i := 0; i < steps; i++ {
		k := r.Intn(10)
		switch {
		case !sub && k < 3:
			toks = append(toks, size())
		case !sub && k < 5 && nUp < 3:
			// snappy negotiated after deflate is a finding of its own on the tree before F30
			// (snappy-after-deflate-garbled: the orphaned flate.Writer keeps being flushed); it is
			// generated only when the tree has the fix, and replayed oracle-only otherwise.
			// TLS after deflate (finding tls-after-deflate-garbled of /repo d6aa4e3, fixed by F30b = /repo d424240)
			// IS inside the model (Model.WireStack.kstep): generated on every tree
			u := r.Intn(5)
			switch {
			case u < 2 && nTLS < 2:
				toks = append(toks, "ut")
				nTLS++
			case u < 4 && (deflateThenSnappy || !deflated):
				toks = append(toks, "us")
			default:
				toks = append(toks, fmt.Sprintf("ud%d", 1+r.Intn(9)))
				deflated = true
			}
			nUp++
			toks = append(toks, "r4f4b")
		case !sub && k == 5:
			toks = append(toks, "s")
			sub = true
		case sub && k < 6:
			toks = append(toks, "m"+frame())
		case k == 9:
			toks = append(toks, "f")
		default:
			toks = append(toks, "r"+frame())
		}
	}
	toks = append(toks, "f")
	return strings.Join(toks, " ")
}

func vfE1SCertDir() string {
	for _, c := range []string{filepath.Join(os.Getenv("VERIF_REPO"), "nsqd", "test", "certs"), "/repo/nsqd/test/certs", "./test/certs"} {
		if _, err := os.Stat(filepath.Join(c, "server.pem")); err == nil {
			return c
		}
	}
	return ""
}

func TestVerifStackCorr(t *testing.T) {
	out := vfOpen("stack")
	defer out.Close()
	r := vfNewRand(0x57AC)
	n := vfEnvInt("VERIF_N", 600)
	opts := NewOptions()
	opts.Logger = nil
	opts.LogLevel = LOG_FATAL
	opts.DataPath = t.TempDir()
	opts.SnappyEnabled, opts.DeflateEnabled = true, true
	certDir := vfE1SCertDir()
	if certDir == "" {
		t.Fatalf("TLS test certificates not found (set VERIF_REPO)")
	}
	opts.TLSCert = filepath.Join(certDir, "server.pem")
	opts.TLSKey = filepath.Join(certDir, "server.key")
	_, _, nsqd := vfStartNSQD(opts)
	defer nsqd.Exit()
	defer vfE1PanicGuard("a writer-stack call", out)()
	hist := map[string]int{}
	failed := false
	run := func(line string) {
		impl, fails := vfE1SExec(nsqd, line, hist)
		out.Case(line, impl)
		for _, f := range fails {
			fmt.Println(f)
			failed = true
		}
	}
	for _, f := range strings.Split(os.Getenv("VERIF_CORPUS"), ":") {
		if f == "" {
			continue
		}
		raw, err := os.ReadFile(f)
		if err != nil {
			t.Fatalf("corpus %s: %v", f, err)
		}
		for _, line := range strings.Split(string(raw), "\n") {
			line = strings.TrimSpace(line)
			if strings.HasPrefix(line, "stack ") {
				run(line)
				hist["corpus"]++
			}
		}
	}
	// oracle-only replays (not part of the correspondence stream): `<key> stack ...` lines
	if f := os.Getenv("VERIF_STACK_ORACLE_ONLY"); f != "" {
		raw, err := os.ReadFile(f)
		if err != nil {
			t.Fatalf("oracle-only corpus %s: %v", f, err)
		}
		for _, line := range strings.Split(string(raw), "\n") {
			w := strings.SplitN(strings.TrimSpace(line), " ", 2)
			if len(w) != 2 || !strings.HasPrefix(w[1], "stack ") {
				continue
			}
			_, fails := vfE1SExec(nsqd, w[1], hist)
			hist["oracle-only"]++
			for _, f := range fails {
				fmt.Println(strings.Replace(f, "ORACLE-FAIL second-identify-cleartext", "ORACLE-FAIL "+w[0], 1))
				failed = true
			}
		}
	}
	for i := 0; i < n; i++ {
		run(vfE1SGen(r, int(opts.MaxOutputBufferSize), os.Getenv("VERIF_STACK_DS") == "1"))
	}
	keys := make([]string, 0, len(hist))
	for k := range hist {
		keys = append(keys, k)
	}
	sort.Strings(keys)
	var hs []string
	for _, k := range keys {
		hs = append(hs, fmt.Sprintf("%s=%d", k, hist[k]))
	}
	fmt.Println("STACK-HIST " + strings.Join(hs, " "))
	if failed {
		t.Fail()
	}
}

// ---------------------------------------------------------------------------------------------
// network end-to-end: IDENTIFY twice
// ---------------------------------------------------------------------------------------------

// vfE1STap records every byte read off the raw socket (what an eavesdropper sees).
type vfE1STap struct {
	net.Conn
	mu  sync.Mutex
	got []byte
}

func (c *vfE1STap) Read(p []byte) (int, error) {
	n, err := c.Conn.Read(p)
	if n > 0 {
		c.mu.Lock()
		c.got = append(c.got, p[:n]...)
		c.mu.Unlock()
	}
	return n, err
}

func (c *vfE1STap) mark() int {
	c.mu.Lock()
	defer c.mu.Unlock()
	return len(c.got)
}

func (c *vfE1STap) since(m int) []byte {
	c.mu.Lock()
	defer c.mu.Unlock()
	return append([]byte(nil), c.got[m:]...)
}

type vfE1SCli struct {
	tap   *vfE1STap
	r     io.Reader
	w     io.Writer
	flush func() error
}

func (c *vfE1SCli) send(p []byte) error {
	c.tap.SetWriteDeadline(time.Now().Add(10 * time.Second))
	_, err := c.w.Write(p)
	if err == nil && c.flush != nil {
		err = c.flush()
	}
	return err
}

func (c *vfE1SCli) identify(js string) error {
	var b bytes.Buffer
	b.WriteString("IDENTIFY\n")
	binary.Write(&b, binary.BigEndian, int32(len(js)))
	b.WriteString(js)
	return c.send(b.Bytes())
}

// frame reads one frame through the negotiated stack (heartbeats are answered and skipped).
func (c *vfE1SCli) frame(d time.Duration) (int32, []byte, error) {
	for {
		c.tap.SetReadDeadline(time.Now().Add(d))
		var hdr [4]byte
		if _, err := io.ReadFull(c.r, hdr[:]); err != nil {
			return 0, nil, err
		}
		sz := int32(binary.BigEndian.Uint32(hdr[:]))
		if sz < 4 || sz > 1<<20 {
			return 0, nil, fmt.Errorf("frame size field %d (0x%x)", sz, hdr)
		}
		b := make([]byte, sz)
		if _, err := io.ReadFull(c.r, b); err != nil {
			return 0, nil, err
		}
		ft := int32(binary.BigEndian.Uint32(b[:4]))
		if ft == frameTypeResponse && bytes.Equal(b[4:], []byte("_heartbeat_")) {
			c.send([]byte("NOP\n"))
			continue
		}
		return ft, b[4:], nil
	}
}

type vfE1SCombo struct {
	tls   bool
	comp  string   // none | snappy | deflate
	buf1  int      // output_buffer_size of the first IDENTIFY
	buf2  int      // output_buffer_size of the IDENTIFY after the upgrades (0 = none: control)
	again int      // how many further IDENTIFYs after that one
	more  []string // further IDENTIFYs that negotiate an upgrade, in order, after the first: tls | snappy | deflate
}

func (c vfE1SCombo) String() string {
	t := 0
	if c.tls {
		t = 1
	}
	more := "-"
	if len(c.more) > 0 {
		more = strings.Join(c.more, ">")
	}
	return fmt.Sprintf("tls=%d comp=%s buf1=%d more=%s buf2=%d again=%d", t, c.comp, c.buf1, more, c.buf2, c.again)
}

// vfE1SReident runs one connection; returns "" or the failure text.
func vfE1SReident(n *NSQD, cb vfE1SCombo, idx int, r *vfRand) (key, what string) {
	raw, err := net.DialTimeout("tcp", n.RealTCPAddr().String(), 5*time.Second)
	if err != nil {
		return "harness", "cannot connect: " + err.Error()
	}
	defer raw.Close()
	tap := &vfE1STap{Conn: raw}
	c := &vfE1SCli{tap: tap, r: tap, w: tap}
	if err := c.send([]byte("  V2")); err != nil {
		return "harness", err.Error()
	}
	var ups []string             // the upgrades performed so far, in order
	var base io.ReadWriter = tap // what compression wraps: the raw socket or the latest TLS session
	mStale := -1                 // tap offset at which a stale flate writer came into being (/repo d6aa4e3)
	marker := []byte{0, 0, 0, 0xff, 0xff}
	// fail: a failure while a deflate writer of an earlier IDENTIFY is still installed underneath a later TLS
	// session is the finding tls-after-deflate-garbled, whatever the step it shows up in
	fail := func(key, what string) (string, string) {
		if vfE1SStaleKinds(ups) {
			note := ""
			if mStale >= 0 && bytes.Contains(tap.since(mStale), marker) {
				note = "; the deflate sync marker 00 00 00 ff ff is on the raw socket between the TLS records"
			}
			return "tls-after-deflate-garbled", fmt.Sprintf("after the upgrades %s: %s%s", strings.Join(ups, ">"), what, note)
		}
		return key, what
	}
	expectOK := func(ctx string) string {
		ft, data, err := c.frame(10 * time.Second)
		if err != nil || ft != frameTypeResponse || string(data) != "OK" {
			return fmt.Sprintf("%s: frame %d %q err=%v", ctx, ft, data, err)
		}
		return ""
	}
	// afterDeflate: the stack being left is deflate on the raw socket. Its stream is never terminated, and every
	// unsolicited client.Flush() of messagePump (forced flush while not subscribed, heartbeat) appends one more
	// sync marker 00 00 00 ff ff to it — possibly AFTER the IDENTIFY response the client has just decoded. A client
	// that leaves deflate has to skip such markers in front of the next stack's first byte (TLS: 0x16, snappy: 0xff).
	afterDeflate := func() bool {
		i := len(ups) - 1
		for i >= 0 && ups[i] == "tls" {
			i--
		}
		return i >= 0 && ups[i] == "deflate"
	}
	upTLS := func() string {
		// the server wraps the RAW connection (tls.Server(c.Conn)), also when a session exists already
		var under net.Conn = tap
		if afterDeflate() && !vfE1SStaleKinds(ups) {
			under = &vfE1SSkip{Conn: tap, vfE1SSkipR: vfE1SSkipR{r: tap}}
		}
		mh := tap.mark()
		tc := tls.Client(under, &tls.Config{InsecureSkipVerify: true})
		tap.SetDeadline(time.Now().Add(10 * time.Second))
		if err := tc.Handshake(); err != nil {
			return fmt.Sprintf("TLS handshake: %v (first bytes on the socket: %x)", err, tap.since(mh)[:vfE1SMin(16, len(tap.since(mh)))])
		}
		if sk, ok := under.(*vfE1SSkip); ok && sk.skipped > 0 {
			fmt.Printf("REIDENT-NOTE %d deflate sync marker(s) of the stack being left arrived in front of the TLS handshake (unsolicited Flush)\n", sk.skipped)
		}
		tap.SetDeadline(time.Time{})
		base = tc
		c.r, c.w, c.flush = tc, tc, nil
		ups = append(ups, "tls")
		if vfE1SStaleKinds(ups) && mStale < 0 {
			mStale = tap.mark()
		}
		return expectOK("OK after TLS upgrade")
	}
	upComp := func(kind string) string {
		switch kind {
		case "snappy":
			var rd io.Reader = base
			if len(ups) > 0 && ups[len(ups)-1] == "deflate" {
				rd = &vfE1SSkipR{r: base} // see afterDeflate
			}
			c.r = snappy.NewReader(rd)
			//lint:ignore SA1019 unbuffered on purpose: one command, one write
			c.w = snappy.NewWriter(base)
			c.flush = nil
		case "deflate":
			// an io.ByteReader, so that flate does NOT wrap it in a bufio.Reader: a read-ahead would swallow the
			// first bytes of the NEXT stack when a later IDENTIFY replaces this one
			c.r = flate.NewReader(vfE1SByteReader{base})
			fw, _ := flate.NewWriter(base, 3)
			c.w = fw
			c.flush = fw.Flush
		}
		ups = append(ups, kind)
		return expectOK("OK after " + kind + " upgrade")
	}
	js := fmt.Sprintf(`{"client_id":"vfreid","feature_negotiation":true,"tls_v1":%v,"snappy":%v,"deflate":%v,"deflate_level":3,"output_buffer_size":%d}`,
		cb.tls, cb.comp == "snappy", cb.comp == "deflate", cb.buf1)
	if err := c.identify(js); err != nil {
		return "harness", err.Error()
	}
	ft, data, err := c.frame(10 * time.Second)
	if err != nil || ft != frameTypeResponse || !bytes.Contains(data, []byte(`"max_rdy_count"`)) {
		return "harness", fmt.Sprintf("first IDENTIFY: frame %d %q err=%v", ft, data, err)
	}
	if cb.tls {
		if e := upTLS(); e != "" {
			return "harness", e
		}
	}
	if cb.comp != "none" {
		if e := upComp(cb.comp); e != "" {
			return "harness", e
		}
	}
	// further IDENTIFYs, each negotiating one more upgrade, sent THROUGH the stack negotiated so far
	for i, kind := range cb.more {
		js := fmt.Sprintf(`{"client_id":"vfreid","feature_negotiation":true,"tls_v1":%v,"snappy":%v,"deflate":%v,"deflate_level":%d}`,
			kind == "tls", kind == "snappy", kind == "deflate", 1+r.Intn(9))
		if err := c.identify(js); err != nil {
			return fail("harness", fmt.Sprintf("IDENTIFY #%d {%s} write: %v", i+2, kind, err))
		}
		ft, data, err := c.frame(10 * time.Second)
		if err != nil || ft != frameTypeResponse || !bytes.Contains(data, []byte(`"max_rdy_count"`)) {
			return fail("harness", fmt.Sprintf("IDENTIFY #%d {%s}: the negotiation document does not arrive through the negotiated transport: frame %d %q err=%v", i+2, kind, ft, data, err))
		}
		e := ""
		if kind == "tls" {
			e = upTLS()
		} else {
			e = upComp(kind)
		}
		if e != "" {
			return fail("harness", fmt.Sprintf("IDENTIFY #%d {%s}: %s", i+2, kind, e))
		}
	}
	hasTLS := false
	for _, u := range ups {
		hasTLS = hasTLS || u == "tls"
	}
	// from here on an eavesdropper on the raw socket must not see protocol plaintext if anything
	// was negotiated, and the client must receive everything through its stack
	m0 := tap.mark()
	// (only meaningful under TLS: snappy stores short / incompressible data as literals)
	sniff := func(needle []byte) bool { return hasTLS && bytes.Contains(tap.since(m0), needle) }
	okFrame := []byte{0, 0, 0, 6, 0, 0, 0, 0, 'O', 'K'}
	for k := 0; k <= cb.again; k++ {
		sz := cb.buf2
		if k > 0 {
			sz = []int{-1, 64, 777, 16384}[r.Intn(4)]
		}
		if sz == 0 && k == 0 {
			break // control: no IDENTIFY with a buffer size after the upgrades
		}
		if err := c.identify(fmt.Sprintf(`{"client_id":"vfreid","output_buffer_size":%d}`, sz)); err != nil {
			return fail("harness", "second IDENTIFY write: "+err.Error())
		}
		_, _, err := c.frame(15 * time.Second)
		if ne, ok := err.(net.Error); ok && ne.Timeout() && !sniff(okFrame) {
			return fail("harness", fmt.Sprintf("IDENTIFY #%d: no answer within 15 s (%v)", k+2+len(cb.more), err))
		}
		if err != nil || sniff(okFrame) {
			clear := ""
			if sniff(okFrame) {
				clear = "; the plain frame 00000006 00000000 \"OK\" is on the raw socket"
			}
			return fail("second-identify-cleartext", fmt.Sprintf("IDENTIFY #%d (output_buffer_size %d) after the upgrade is not answered through the negotiated transport (%v)%s", k+2+len(cb.more), sz, err, clear))
		}
	}
	topic := fmt.Sprintf("vfreid%d", idx)
	t := n.GetTopic(topic)
	t.GetChannel("c")
	if err := c.send([]byte("SUB " + topic + " c\n")); err != nil {
		return fail("harness", err.Error())
	}
	if e := expectOK("OK after SUB"); e != "" {
		if sniff(okFrame) {
			return "second-identify-cleartext", "the answer to SUB went to the raw socket in cleartext: " + e
		}
		return fail("harness", e)
	}
	nmsg := 3 + r.Intn(4)
	if err := c.send([]byte(fmt.Sprintf("RDY %d\n", nmsg))); err != nil {
		return fail("harness", err.Error())
	}
	want := map[string]bool{}
	var secret []byte
	for i := 0; i < nmsg; i++ {
		body := append([]byte(fmt.Sprintf("SECRET-%d-%d-", idx, i)), r.Bytes(1+r.Intn(300))...)
		if i == 0 {
			secret = body[:12]
		}
		want[string(body)] = true
		t.PutMessage(NewMessage(t.GenerateID(), body))
	}
	for len(want) > 0 {
		ft, data, err := c.frame(20 * time.Second)
		if ne, ok := err.(net.Error); ok && ne.Timeout() && !sniff(secret) {
			return fail("harness", fmt.Sprintf("%d of %d messages did not arrive within 20 s (%v)", len(want), nmsg, err))
		}
		if err != nil {
			clear := ""
			if sniff(secret) {
				clear = "; a message body is readable in CLEARTEXT on the raw socket"
			}
			return fail("second-identify-cleartext", fmt.Sprintf("%d of %d messages did not arrive through the negotiated transport (%v)%s", len(want), nmsg, err, clear))
		}
		if ft != frameTypeMessage || len(data) < 26 {
			return "reident-frame", fmt.Sprintf("unexpected frame %d %q while waiting for messages", ft, data)
		}
		body := string(data[26:])
		if !want[body] {
			return "reident-body", fmt.Sprintf("a delivered body is not one that was published (%d bytes)", len(body))
		}
		delete(want, body)
		c.send([]byte("FIN " + string(data[10:26]) + "\n"))
	}
	if sniff(secret) {
		return "second-identify-cleartext", "a message body is readable in cleartext on the raw socket although the client decoded it"
	}
	return "", ""
}

// vfE1SSkipR drops deflate sync markers (00 00 00 ff ff) in front of the first byte of the next stack.
type vfE1SSkipR struct {
	r       io.Reader
	done    bool
	skipped int
}

func (c *vfE1SSkipR) Read(p []byte) (int, error) {
	for !c.done {
		var one [1]byte
		if _, err := io.ReadFull(c.r, one[:]); err != nil {
			return 0, err
		}
		if one[0] != 0 {
			c.done = true
			p[0] = one[0]
			return 1, nil
		}
		var rest [4]byte
		if _, err := io.ReadFull(c.r, rest[:]); err != nil {
			return 0, err
		}
		if rest != [4]byte{0, 0, 0xff, 0xff} {
			return 0, fmt.Errorf("vfE1SSkip: %x%x in front of the next stack is not a deflate sync marker", one, rest)
		}
		c.skipped++
	}
	return c.r.Read(p)
}

// vfE1SSkip: the same as a net.Conn (what a TLS client runs on)
type vfE1SSkip struct {
	net.Conn
	vfE1SSkipR
}

func (c *vfE1SSkip) Read(p []byte) (int, error) { return c.vfE1SSkipR.Read(p) }

type vfE1SByteReader struct{ io.Reader }

func (b vfE1SByteReader) ReadByte() (byte, error) {
	var one [1]byte
	_, err := io.ReadFull(b.Reader, one[:])
	return one[0], err
}

// vfE1SOrders: sequences of IDENTIFYs that negotiate upgrades one after the other (round 11). The first entry is the
// first IDENTIFY ("tls+deflate" = both in one IDENTIFY: the server performs TLS first), the rest go to `more`.
var vfE1SOrders = [][]string{
	{"deflate", "tls"}, {"snappy", "tls"}, {"tls", "deflate", "tls"}, {"tls", "snappy", "tls"}, {"tls", "tls"},
	{"tls+deflate", "tls"}, {"tls+snappy", "tls"}, {"deflate", "tls", "snappy"}, {"deflate", "tls", "deflate"},
	{"deflate", "tls", "tls"}, {"tls+deflate", "tls", "snappy"}, {"deflate", "snappy"}, {"snappy", "deflate"},
	{"deflate", "deflate"}, {"snappy", "deflate", "tls"}, {"tls", "deflate", "snappy", "tls"},
}

func TestVerifReidentify(t *testing.T) {
	certDir := vfE1SCertDir()
	if certDir == "" {
		t.Fatalf("TLS test certificates not found (set VERIF_REPO)")
	}
	r := vfNewRand(0x1DE2)
	rounds := vfEnvInt("VERIF_N", 1)
	failed := 0
	cases := 0
	for _, required := range []bool{false, true} {
		opts := NewOptions()
		opts.Logger = nil
		opts.LogLevel = LOG_FATAL
		opts.DataPath = t.TempDir()
		opts.SnappyEnabled, opts.DeflateEnabled = true, true
		opts.MaxDeflateLevel = 9
		opts.TLSCert = filepath.Join(certDir, "server.pem")
		opts.TLSKey = filepath.Join(certDir, "server.key")
		if required {
			opts.TLSRequired = TLSRequired
		}
		opts.MsgTimeout = 10 * time.Minute
		_, _, nsqd := vfStartNSQD(opts)
		for round := 0; round < rounds; round++ {
			var combos []vfE1SCombo
			for _, tl := range []bool{false, true} {
				if required && !tl {
					continue
				}
				for _, comp := range []string{"none", "snappy", "deflate"} {
					for _, buf2 := range []int{0, -1, 64, 4096} {
						cb := vfE1SCombo{tls: tl, comp: comp, buf1: []int{0, 64, 16384}[r.Intn(3)], buf2: buf2}
						if buf2 != 0 {
							cb.again = r.Intn(3)
						}
						combos = append(combos, cb)
					}
				}
			}
			// round 11: several IDENTIFYs that negotiate upgrades, in every order that matters
			for _, ord := range vfE1SOrders {
				first := ord[0]
				cb := vfE1SCombo{tls: strings.HasPrefix(first, "tls"), comp: "none", more: ord[1:]}
				if required && !cb.tls {
					continue
				}
				if i := strings.Index(first, "+"); i >= 0 {
					cb.comp = first[i+1:]
				} else if first != "tls" {
					cb.comp = first
				}
				cb.buf1 = []int{0, 64, 16384}[r.Intn(3)]
				combos = append(combos, cb)
				cb.buf2 = []int{-1, 64, 4096}[r.Intn(3)]
				cb.again = r.Intn(2)
				combos = append(combos, cb)
			}
			for _, cb := range combos {
				key, what := vfE1SReident(nsqd, cb, cases, r)
				cases++
				req := 0
				if required {
					req = 1
				}
				if key != "" {
					failed++
					fmt.Printf("REIDENT-FAIL key=%s combo=tls-required=%d %s what=%s\n", key, req, cb, strings.ReplaceAll(what, "\n", " "))
				} else {
					fmt.Printf("REIDENT-CASE tls-required=%d %s ok\n", req, cb)
				}
			}
		}
		nsqd.Exit()
	}
	fmt.Printf("REIDENT-OK cases=%d failed=%d\n", cases, failed)
	if failed > 0 {
		t.Fail()
	}
}
