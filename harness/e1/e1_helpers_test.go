package nsqd

// Helpers shared by the engine-E1 harness files (compiled together with any subset of them).

import (
	"encoding/hex"
	"fmt"
	"os"
	"runtime"
	"strings"
)

// vfE1PanicGuard: `defer vfE1PanicGuard(what, out)()`. A panic of the code under test inside a critical
// section leaves its mutex locked, so the deferred nsqd.Exit() of a harness would hang: report the
// panic as what it is (a failing input = this run) and leave the process at once.
func vfE1PanicGuard(what string, out *vfOut) func() {
	return func() {
		if e := recover(); e != nil {
			fmt.Printf("ORACLE-FAIL PANIC: %s panicked: %v\n%s\n", what, e, vfE1Stack())
			if out != nil {
				out.Close()
			}
			os.Exit(3)
		}
	}
}

func vfE1Stack() string {
	buf := make([]byte, 4096)
	n := runtime.Stack(buf, false)
	lines := strings.Split(string(buf[:n]), "\n")
	var keep []string
	for _, l := range lines {
		if strings.Contains(l, "nsqio/nsq") && !strings.Contains(l, "zz_verif") {
			keep = append(keep, strings.TrimSpace(l))
		}
		if len(keep) >= 6 {
			break
		}
	}
	return "  at " + strings.Join(keep, " <- ")
}


func vfE1Unhex(h string) []byte {
	if h == "-" {
		return nil
	}
	b, err := hex.DecodeString(h)
	if err != nil {
		panic("bad hex in op line: " + h)
	}
	return b
}


func vfE1MsgID(n int) MessageID {
	var id MessageID
	copy(id[:], fmt.Sprintf("%016d", n))
	return id
}

func vfE1IDNum(id MessageID) int {
	var n int
	fmt.Sscanf(string(id[:]), "%d", &n)
	return n
}


func vfE1Min64(a, b int64) int64 {
	if a < b {
		return a
	}
	return b
}


func vfE1Min(a, b int) int {
	if a < b {
		return a
	}
	return b
}
