package nsqd

// C04: msToDuration called directly (white-box: the helper exists only on trees with fix 43ed751;
// the check builds this file separately and goes on without it when it does not compile).

import (
	"fmt"
	"math"
	"testing"
)

func TestVerifMsToDurationCorr(t *testing.T) {
	out := vfOpen("ms")
	defer out.Close()
	r := vfNewRand(53)
	n := vfEnvInt("VERIF_N", 1000)
	for i := 0; i < n; i++ {
		var ms uint64
		switch r.Intn(5) {
		case 0:
			ms = 9223372036854 - 3 + uint64(r.Intn(7))
		case 1:
			ms = math.MaxUint64 - uint64(r.Intn(3))
		case 2:
			ms = uint64(r.Intn(10000))
		default:
			ms = r.Next() >> uint(r.Intn(64))
		}
		out.Case(fmt.Sprintf("ms2dur %d", ms), fmt.Sprint(int64(msToDuration(ms))))
	}
}
