package nsqd

// C04 (timing half): the real heaps and the real Channel deadline operations vs the Lean model.
//
//   TestVerifPQCorr    inFlightPqueue and pqueue.PriorityQueue(+container/heap) on generated
//                      arrays (heaps reached by random histories AND arbitrary arrays), every
//                      operation compared on the whole array incl. every index field.
//   TestVerifChanCorr  StartInFlightTimeout / TouchMessage / FinishMessage / RequeueMessage /
//                      StartDeferredTimeout / processInFlightQueue(t) / processDeferredQueue(t)
//                      called on a real Channel of an in-process nsqd whose queueScanLoop is
//                      parked; `now` is read back white-box. Direct oracle: never early + nothing
//                      due left behind, on the real channel.
//   TestVerifUniqCorr  util.UniqRands with a recorded math/rand stream.

import (
	"container/heap"
	"fmt"
	"math/rand"
	"net"
	"os"
	"sort"
	"strings"
	"sync"
	"sync/atomic"
	"testing"
	"time"

	"github.com/nsqio/go-nsq"
	"github.com/nsqio/nsq/internal/pqueue"
	"github.com/nsqio/nsq/internal/util"
)

type vfE1Ent struct {
	id    int
	pri   int64
	index int
}

func vfE1Dump(es []vfE1Ent) string {
	if len(es) == 0 {
		return "-"
	}
	parts := make([]string, len(es))
	for i, e := range es {
		parts[i] = fmt.Sprintf("%d:%d:%d", e.id, e.pri, e.index)
	}
	return strings.Join(parts, ",")
}

func vfE1FromIF(pq inFlightPqueue) []vfE1Ent {
	out := make([]vfE1Ent, len(pq))
	for i, m := range pq {
		out[i] = vfE1Ent{vfE1IDNum(m.ID), m.pri, m.index}
	}
	return out
}

// vfE1Cap: capacity of the rebuilt heap, a function of its length so that a line replays the same
// way: exactly full (Push must grow), a little room, or mostly empty and large (Pop shrinks).
func vfE1Cap(n int) int {
	switch n % 3 {
	case 0:
		if n == 0 {
			return 1 // (a heap created with capacity 0 panics on its first Push: c*2 = 0; nsqd always asks for >= 1)
		}
		return n
	case 1:
		return n + 4
	}
	return 64 + n
}

func vfE1ToIF(es []vfE1Ent) inFlightPqueue {
	pq := newInFlightPqueue(vfE1Cap(len(es)))
	for _, e := range es {
		pq = append(pq, &Message{ID: vfE1MsgID(e.id), pri: e.pri, index: e.index})
	}
	return pq
}

func vfE1FromPQ(pq pqueue.PriorityQueue) []vfE1Ent {
	out := make([]vfE1Ent, len(pq))
	for i, it := range pq {
		out[i] = vfE1Ent{it.Value.(int), it.Priority, it.Index}
	}
	return out
}

func vfE1ToPQ(es []vfE1Ent) pqueue.PriorityQueue {
	pq := pqueue.New(vfE1Cap(len(es)))
	for _, e := range es {
		pq = append(pq, &pqueue.Item{Value: e.id, Priority: e.pri, Index: e.index})
	}
	return pq
}

// vfE1GenArray: a heap reached by a random history (mostly), or an arbitrary array.
func vfE1GenArray(r *vfRand, nextID *int) []vfE1Ent {
	n := r.Intn(14)
	if r.Intn(10) == 0 {
		n = 20 + r.Intn(40)
	}
	pris := func() int64 {
		switch r.Intn(6) {
		case 0:
			return int64(r.Intn(4)) // many ties
		case 1:
			return int64(r.Next()) // any int64
		default:
			return int64(r.Intn(1000))
		}
	}
	es := make([]vfE1Ent, 0, n)
	if r.Intn(4) == 0 {
		// arbitrary contents: order and (sometimes) indices unrelated to a heap
		for i := 0; i < n; i++ {
			*nextID++
			ix := i
			if r.Intn(8) == 0 {
				ix = r.Intn(n + 2)
			}
			es = append(es, vfE1Ent{*nextID, pris(), ix})
		}
		return es
	}
	pq := newInFlightPqueue(4)
	for i := 0; i < n; i++ {
		*nextID++
		pq.Push(&Message{ID: vfE1MsgID(*nextID), pri: pris()})
		if len(pq) > 1 && r.Intn(5) == 0 {
			pq.Remove(r.Intn(len(pq)))
		}
	}
	return vfE1FromIF(pq)
}

func vfE1Popped(x *vfE1Ent, after []vfE1Ent, panicked bool, isNil bool) string {
	if panicked {
		return "panic"
	}
	if isNil {
		return "nil"
	}
	return fmt.Sprintf("%d:%d:%d | %s", x.id, x.pri, x.index, vfE1Dump(after))
}

func vfE1ParseDump(d string) []vfE1Ent {
	if d == "-" {
		return nil
	}
	var es []vfE1Ent
	for _, p := range strings.Split(d, ",") {
		var e vfE1Ent
		fmt.Sscanf(strings.ReplaceAll(p, ":", " "), "%d %d %d", &e.id, &e.pri, &e.index)
		es = append(es, e)
	}
	return es
}

// vfE1PQExec runs one heap operation line (`pq1|pq2 push|pop|remove|peek <array> …`) on the real
// heap built from the array in the line and returns the canonical answer.
func vfE1PQExec(t *testing.T, line string, hist map[string]int) string {
	w := strings.Fields(line)
	if len(w) < 3 {
		return "bad-op"
	}
	es := vfE1ParseDump(w[2])
	num := func(i int) int64 {
		var v int64
		fmt.Sscanf(w[i], "%d", &v)
		return v
	}
	guard := func(f func()) (panicked bool) {
		defer func() {
			if recover() != nil {
				panicked = true
			}
		}()
		f()
		return
	}
	switch w[0] + " " + w[1] {
	case "pq1 push":
		pq := vfE1ToIF(es)
		hist["push"]++
		if guard(func() { pq.Push(&Message{ID: vfE1MsgID(int(num(3))), pri: num(4)}) }) {
			return "panic"
		}
		if guard(func() { _ = vfE1FromIF(pq) }) {
			return "panic" // a nil entry was left in the array
		}
		return vfE1Dump(vfE1FromIF(pq))
	case "pq2 push":
		pq := vfE1ToPQ(es)
		hist["push"]++
		if guard(func() { heap.Push(&pq, &pqueue.Item{Value: int(num(3)), Priority: num(4)}) }) {
			return "panic"
		}
		if guard(func() { _ = vfE1FromPQ(pq) }) {
			return "panic"
		}
		return vfE1Dump(vfE1FromPQ(pq))
	case "pq1 pop", "pq1 remove":
		pq := vfE1ToIF(es)
		var x *Message
		p := guard(func() {
			if w[1] == "pop" {
				x = pq.Pop()
			} else {
				x = pq.Remove(int(num(3)))
			}
		})
		hist[w[1]+"1"]++
		var xe *vfE1Ent
		if x != nil {
			xe = &vfE1Ent{vfE1IDNum(x.ID), x.pri, x.index}
		}
		return vfE1Popped(xe, vfE1FromIF(pq), p, false)
	case "pq2 remove":
		pq := vfE1ToPQ(es)
		var x *pqueue.Item
		p := guard(func() { x = heap.Remove(&pq, int(num(3))).(*pqueue.Item) })
		hist["remove2"]++
		var xe *vfE1Ent
		if x != nil {
			xe = &vfE1Ent{x.Value.(int), x.Priority, x.Index}
		}
		return vfE1Popped(xe, vfE1FromPQ(pq), p, false)
	case "pq1 peek":
		pq := vfE1ToIF(es)
		tmax := num(3)
		x, _ := pq.PeekAndShift(tmax)
		var xe *vfE1Ent
		if x != nil {
			xe = &vfE1Ent{vfE1IDNum(x.ID), x.pri, x.index}
			if x.pri > tmax {
				fmt.Printf("ORACLE-FAIL early: inFlightPqueue.PeekAndShift(%d) released pri %d from %s\n", tmax, x.pri, w[2])
				t.Fail()
			}
			hist["peek1-some"]++
		} else {
			hist["peek1-nil"]++
		}
		return vfE1Popped(xe, vfE1FromIF(pq), false, x == nil)
	case "pq2 peek":
		pq := vfE1ToPQ(es)
		tmax := num(3)
		x, _ := pq.PeekAndShift(tmax)
		var xe *vfE1Ent
		if x != nil {
			xe = &vfE1Ent{x.Value.(int), x.Priority, x.Index}
			if x.Priority > tmax {
				fmt.Printf("ORACLE-FAIL early: PriorityQueue.PeekAndShift(%d) released pri %d from %s\n", tmax, x.Priority, w[2])
				t.Fail()
			}
			hist["peek2-some"]++
		} else {
			hist["peek2-nil"]++
		}
		return vfE1Popped(xe, vfE1FromPQ(pq), false, x == nil)
	}
	return "bad-op"
}

func TestVerifPQCorr(t *testing.T) {
	out := vfOpen("pq")
	defer out.Close()
	r := vfNewRand(41)
	n := vfEnvInt("VERIF_N", 20000)
	nextID := 0
	hist := map[string]int{}
	for _, f := range strings.Split(os.Getenv("VERIF_CORPUS"), ":") {
		if f == "" {
			continue
		}
		raw, err := os.ReadFile(f)
		if err != nil {
			t.Fatalf("corpus %s: %v", f, err)
		}
		for _, line := range strings.Split(string(raw), "\n") {
			line = strings.TrimSpace(line)
			if strings.HasPrefix(line, "pq1 ") || strings.HasPrefix(line, "pq2 ") {
				out.Case(line, vfE1PQExec(t, line, hist))
			}
		}
	}
	for i := 0; i < n; i++ {
		es := vfE1GenArray(r, &nextID)
		dump := vfE1Dump(es)
		var tmax int64
		if len(es) > 0 {
			e := es[r.Intn(len(es))]
			tmax = e.pri + int64(r.Intn(3)) - 1
			if r.Intn(3) == 0 {
				tmax = es[0].pri + int64(r.Intn(3)) - 1
			}
		} else {
			tmax = int64(r.Intn(10))
		}
		var line string
		switch op := r.Intn(9); op {
		case 0, 1: // push (both variants)
			nextID++
			pri := int64(r.Intn(1000))
			if r.Intn(5) == 0 && len(es) > 0 {
				pri = es[r.Intn(len(es))].pri
			}
			line = fmt.Sprintf("pq%d push %s %d %d", op+1, dump, nextID, pri)
		case 2:
			line = "pq1 pop " + dump
		case 3, 4: // remove i (sometimes out of range)
			k := r.Intn(len(es) + 1)
			if r.Intn(6) != 0 && len(es) > 0 {
				k = r.Intn(len(es))
			}
			line = fmt.Sprintf("pq%d remove %s %d", op-2, dump, k)
		case 5, 6:
			line = fmt.Sprintf("pq1 peek %s %d", dump, tmax)
		default:
			line = fmt.Sprintf("pq2 peek %s %d", dump, tmax)
		}
		out.Case(line, vfE1PQExec(t, line, hist))
	}
	fmt.Printf("PQ-HIST %v\n", hist)
}

// ---------------------------------------------------------------------------------------------

func vfE1ChanDump(c *Channel, ready []int) string {
	c.inFlightMutex.Lock()
	ifpq := vfE1Dump(vfE1FromIF(c.inFlightPQ))
	ifm := make([]string, 0, len(c.inFlightMessages))
	keys := make([]int, 0, len(c.inFlightMessages))
	byID := map[int]*Message{}
	for id, m := range c.inFlightMessages {
		keys = append(keys, vfE1IDNum(id))
		byID[vfE1IDNum(id)] = m
	}
	sort.Ints(keys)
	for _, k := range keys {
		m := byID[k]
		ifm = append(ifm, fmt.Sprintf("%d:%d:%d", k, m.clientID, m.deliveryTS.UnixNano()))
	}
	c.inFlightMutex.Unlock()
	c.deferredMutex.Lock()
	des := make([]vfE1Ent, len(c.deferredPQ))
	for i, it := range c.deferredPQ {
		des[i] = vfE1Ent{vfE1IDNum(it.Value.(*Message).ID), it.Priority, it.Index}
	}
	dkeys := make([]int, 0, len(c.deferredMessages))
	for id := range c.deferredMessages {
		dkeys = append(dkeys, vfE1IDNum(id))
	}
	sort.Ints(dkeys)
	c.deferredMutex.Unlock()
	join := func(xs []string) string {
		if len(xs) == 0 {
			return "-"
		}
		return strings.Join(xs, ",")
	}
	ds := make([]string, len(dkeys))
	for i, k := range dkeys {
		ds[i] = fmt.Sprint(k)
	}
	rs := make([]string, len(ready))
	for i, k := range ready {
		rs[i] = fmt.Sprint(k)
	}
	return fmt.Sprintf("ifpq=%s ifmap=%s dpq=%s dmap=%s ready=%s", ifpq, join(ifm), vfE1Dump(des), join(ds), join(rs))
}

func vfE1Drain(c *Channel) []int {
	var ids []int
	for {
		select {
		case m := <-c.memoryMsgChan:
			ids = append(ids, vfE1IDNum(m.ID))
		default:
			return ids
		}
	}
}

func vfE1ResName(err error) string {
	if err == nil {
		return "ok"
	}
	switch err.Error() {
	case "ID already in flight":
		return "alreadyInFlight"
	case "ID not in flight":
		return "notInFlight"
	case "client does not own message":
		return "notOwner"
	case "ID already deferred":
		return "alreadyDeferred"
	}
	return "other:" + err.Error()
}

func vfE1HeapChecks(es []vfE1Ent) string {
	ord, idx := true, true
	for k, e := range es {
		if k > 0 && es[(k-1)/2].pri > e.pri {
			ord = false
		}
		if e.index != k {
			idx = false
		}
	}
	return fmt.Sprintf("ord=%v idx=%v", ord, idx)
}

func TestVerifChanCorr(t *testing.T) {
	out := vfOpen("chan")
	defer out.Close()
	r := vfNewRand(43)
	n := vfEnvInt("VERIF_N", 3000)
	opts := NewOptions()
	opts.Logger = nil
	opts.LogLevel = LOG_FATAL
	opts.TCPAddress, opts.HTTPAddress = vfLoop2()
	opts.HTTPSAddress = ""
	opts.DataPath = t.TempDir()
	opts.MemQueueSize = 100000
	opts.QueueScanInterval = time.Hour // park the background scan: the harness owns the clock
	opts.QueueScanRefreshInterval = time.Hour
	nsqd, err := New(opts)
	if err != nil {
		t.Fatal(err)
	}
	go nsqd.Main()
	defer nsqd.Exit()
	defer vfE1PanicGuard("an operation on the real Channel", out)()
	hist := map[string]int{}
	fail := func(what string) {
		fmt.Printf("ORACLE-FAIL %s\n", what)
		if p := os.Getenv("VERIF_OUT"); p != "" {
			os.WriteFile(p+"/chan_oracle_fail.txt", []byte(what+"\n"), 0o644)
		}
		t.Fail()
	}
	maxChoices := []time.Duration{15 * time.Minute, 90 * time.Second, 5 * time.Second}
	timeouts := []time.Duration{time.Second, 60 * time.Second, 5 * time.Second, 90 * time.Second, 1500 * time.Millisecond}
	episodes := 0
	for done := 0; done < n; episodes++ {
		topic := nsqd.GetTopic(fmt.Sprintf("vf_chan_%d", episodes))
		c := topic.GetChannel("ch")
		// per-episode MaxMsgTimeout
		o2 := *nsqd.getOpts()
		o2.MaxMsgTimeout = maxChoices[r.Intn(len(maxChoices))]
		nsqd.swapOpts(&o2)
		maxMsg := o2.MaxMsgTimeout
		out.Case("ch reset", "ok "+vfE1ChanDump(c, nil))
		nextID := 0
		live := map[int]*Message{} // every message object the channel may hold
		dts0 := map[int]int64{}    // delivery time of each in-flight message as the harness saw it (not re-read)
		ready := []int{}            // ids currently "delivered to put" and available for re-delivery
		pick := func(m map[int]*Message) int {
			if len(m) == 0 || r.Intn(12) == 0 {
				return 9000 + r.Intn(3) // unknown id
			}
			keys := make([]int, 0, len(m))
			for k := range m {
				keys = append(keys, k)
			}
			sort.Ints(keys)
			return keys[r.Intn(len(keys))]
		}
		inflightIDs := func() map[int]*Message {
			c.inFlightMutex.Lock()
			defer c.inFlightMutex.Unlock()
			m := map[int]*Message{}
			for id, msg := range c.inFlightMessages {
				m[vfE1IDNum(id)] = msg
			}
			return m
		}
		steps := 20 + r.Intn(60)
		for s := 0; s < steps && done < n; s++ {
			done++
			switch k := r.Intn(20); {
			case k < 6: // StartInFlightTimeout (new message, a re-delivery, or an id already in flight)
				var id int
				switch {
				case len(ready) > 0 && r.Intn(2) == 0:
					id = ready[0]
					ready = ready[1:]
				case r.Intn(10) == 0:
					id = pick(inflightIDs())
				default:
					nextID++
					id = nextID
				}
				msg := &Message{ID: vfE1MsgID(id)}
				client := int64(1 + r.Intn(2))
				to := timeouts[r.Intn(len(timeouts))]
				if to > maxMsg {
					to = maxMsg
				}
				t0 := time.Now().UnixNano()
				err := c.StartInFlightTimeout(msg, client, to)
				now := msg.pri - int64(to)
				if err == nil {
					live[id] = msg
					dts0[id] = msg.deliveryTS.UnixNano()
					// direct oracle: the deadline is never before delivery + timeout
					if msg.pri < msg.deliveryTS.UnixNano()+int64(to) || msg.pri < t0+int64(to) {
						fail(fmt.Sprintf("EARLY-DEADLINE: in-flight deadline %d is before deliveryTS+timeout = %d (msg %d, timeout %d)",
							msg.pri, msg.deliveryTS.UnixNano()+int64(to), id, int64(to)))
					}
				}
				out.Case(fmt.Sprintf("ch inflight %d %d %d %d", now, id, client, int64(to)),
					vfE1ResName(err)+" "+vfE1ChanDump(c, vfE1Drain(c)))
				hist["inflight:"+vfE1ResName(err)]++
			case k < 8: // back-date deliveryTS (white-box) so that TOUCH meets the cap
				m := inflightIDs()
				if len(m) == 0 {
					done--
					continue
				}
				id := pick(m)
				msg, ok := m[id]
				if !ok {
					done--
					continue
				}
				age := time.Duration(r.Intn(int(maxMsg/time.Millisecond)+2000)) * time.Millisecond
				dts := time.Now().Add(-age).UnixNano()
				c.inFlightMutex.Lock()
				msg.deliveryTS = time.Unix(0, dts)
				c.inFlightMutex.Unlock()
				dts0[id] = dts
				out.Case(fmt.Sprintf("ch setdts %d %d", id, dts), "ok "+vfE1ChanDump(c, nil))
				hist["setdts"]++
			case k < 12: // TouchMessage
				m := inflightIDs()
				id := pick(m)
				client := int64(1 + r.Intn(2))
				if msg, ok := m[id]; ok && r.Intn(5) != 0 {
					client = msg.clientID
				}
				mt := timeouts[r.Intn(len(timeouts))]
				var dts int64
				if msg, ok := m[id]; ok {
					dts = msg.deliveryTS.UnixNano()
				}
				t0 := time.Now().UnixNano()
				err := c.TouchMessage(client, vfE1MsgID(id), mt)
				now := t0
				if err == nil {
					msg := m[id]
					if msg.pri == dts+int64(maxMsg) && msg.pri != 0 {
						// capped: any clock reading from this one on gives the same deadline
						if lo := dts + int64(maxMsg) - int64(mt); lo > now {
							now = lo
						}
						hist["touch:capped"]++
					} else {
						now = msg.pri - int64(mt)
						hist["touch:plain"]++
					}
					if lo := vfE1Min64(t0+int64(mt), dts+int64(maxMsg)); msg.pri < lo {
						fail(fmt.Sprintf("EARLY-DEADLINE: TOUCH at >= %d set deadline %d, before min(now+msgTimeout, deliveryTS+MaxMsgTimeout) = %d (msg %d)", t0, msg.pri, lo, id))
					}
					if d0, ok := dts0[id]; ok && msg.pri > d0+int64(maxMsg) {
						fail(fmt.Sprintf("TOUCH sequence moved the deadline of msg %d to %d, beyond its delivery time %d + MaxMsgTimeout %d", id, msg.pri, d0, int64(maxMsg)))
					}
					if msg.pri > dts+int64(maxMsg) {
						fail(fmt.Sprintf("TOUCH set deadline %d beyond deliveryTS+MaxMsgTimeout = %d (msg %d, msgTimeout %d)", msg.pri, dts+int64(maxMsg), id, int64(mt)))
					}
				} else {
					hist["touch:"+vfE1ResName(err)]++
				}
				out.Case(fmt.Sprintf("ch touch %d %d %d %d %d", now, client, id, int64(mt), int64(maxMsg)),
					vfE1ResName(err)+" "+vfE1ChanDump(c, vfE1Drain(c)))
			case k < 13: // FinishMessage
				m := inflightIDs()
				id := pick(m)
				client := int64(1 + r.Intn(2))
				if msg, ok := m[id]; ok && r.Intn(5) != 0 {
					client = msg.clientID
				}
				err := c.FinishMessage(client, vfE1MsgID(id))
				if err == nil {
					delete(live, id)
				}
				out.Case(fmt.Sprintf("ch finish %d %d", client, id), vfE1ResName(err)+" "+vfE1ChanDump(c, vfE1Drain(c)))
				hist["finish:"+vfE1ResName(err)]++
			case k < 16: // RequeueMessage (0 = at once, else deferred)
				m := inflightIDs()
				id := pick(m)
				client := int64(1 + r.Intn(2))
				if msg, ok := m[id]; ok && r.Intn(5) != 0 {
					client = msg.clientID
				}
				var d time.Duration
				if r.Intn(3) != 0 {
					d = time.Duration(1+r.Intn(5000)) * time.Millisecond
					if r.Intn(4) == 0 {
						d = []time.Duration{1, time.Microsecond, time.Millisecond, 2 * time.Millisecond}[r.Intn(4)]
					}
				}
				t0 := time.Now().UnixNano()
				err := c.RequeueMessage(client, vfE1MsgID(id), d)
				now := t0
				if err == nil && d != 0 {
					c.deferredMutex.Lock()
					if it, ok := c.deferredMessages[vfE1MsgID(id)]; ok {
						now = it.Priority - int64(d)
						if it.Priority < t0+int64(d) {
							fail(fmt.Sprintf("EARLY-DEADLINE: REQ with delay %d at >= %d parked until %d only", int64(d), t0, it.Priority))
						}
					}
					c.deferredMutex.Unlock()
				}
				got := vfE1Drain(c)
				ready = append(ready, got...)
				out.Case(fmt.Sprintf("ch requeue %d %d %d %d", now, client, id, int64(d)), vfE1ResName(err)+" "+vfE1ChanDump(c, got))
				hist["requeue:"+vfE1ResName(err)]++
			case k < 17: // StartDeferredTimeout (deferred publish reaching the channel)
				nextID++
				id := nextID
				if r.Intn(8) == 0 {
					c.deferredMutex.Lock()
					for mid := range c.deferredMessages {
						id = vfE1IDNum(mid)
						break
					}
					c.deferredMutex.Unlock()
				}
				msg := &Message{ID: vfE1MsgID(id)}
				d := time.Duration(1+r.Intn(5000)) * time.Millisecond
				t0 := time.Now().UnixNano()
				err := c.StartDeferredTimeout(msg, d)
				now := t0
				if err == nil {
					live[id] = msg
					c.deferredMutex.Lock()
					now = c.deferredMessages[vfE1MsgID(id)].Priority - int64(d)
					c.deferredMutex.Unlock()
					if now < t0 {
						fail(fmt.Sprintf("EARLY-DEADLINE: deferred by %d at >= %d parked until %d only", int64(d), t0, now+int64(d)))
					}
				}
				out.Case(fmt.Sprintf("ch defer %d %d %d", now, id, int64(d)), vfE1ResName(err)+" "+vfE1ChanDump(c, vfE1Drain(c)))
				hist["defer:"+vfE1ResName(err)]++
			default: // scans at a chosen instant
				inflight := k < 19
				var pris []int64
				var before []vfE1Ent
				if inflight {
					c.inFlightMutex.Lock()
					before = vfE1FromIF(c.inFlightPQ)
					c.inFlightMutex.Unlock()
				} else {
					c.deferredMutex.Lock()
					for _, it := range c.deferredPQ {
						before = append(before, vfE1Ent{vfE1IDNum(it.Value.(*Message).ID), it.Priority, it.Index})
					}
					c.deferredMutex.Unlock()
				}
				for _, e := range before {
					pris = append(pris, e.pri)
				}
				sort.Slice(pris, func(i, j int) bool { return pris[i] < pris[j] })
				var ts int64
				switch {
				case len(pris) == 0 || r.Intn(6) == 0:
					ts = time.Now().UnixNano()
				case r.Intn(5) == 0:
					ts = pris[len(pris)-1] + 1 // everything due
				default:
					ts = pris[r.Intn(len(pris))] + int64(r.Intn(3)) - 1 // at / just before / just after a deadline
				}
				var dirty bool
				if inflight {
					dirty = c.processInFlightQueue(ts)
				} else {
					dirty = c.processDeferredQueue(ts)
				}
				got := vfE1Drain(c)
				ready = append(ready, got...)
				// direct oracle on the real channel: never early, nothing due left behind
				priOf := map[int]int64{}
				for _, e := range before {
					priOf[e.id] = e.pri
				}
				rel := make([]string, 0, len(got))
				for _, id := range got {
					p := priOf[id]
					if p > ts {
						fail(fmt.Sprintf("EARLY: scan at t=%d released message %d whose deadline is %d (%d ns early; inflight=%v)", ts, id, p, p-ts, inflight))
					}
					rel = append(rel, fmt.Sprintf("%d:%d:-1", id, p))
				}
				var after []vfE1Ent
				if inflight {
					c.inFlightMutex.Lock()
					after = vfE1FromIF(c.inFlightPQ)
					c.inFlightMutex.Unlock()
				} else {
					c.deferredMutex.Lock()
					for _, it := range c.deferredPQ {
						after = append(after, vfE1Ent{vfE1IDNum(it.Value.(*Message).ID), it.Priority, it.Index})
					}
					c.deferredMutex.Unlock()
				}
				for _, e := range after {
					if e.pri <= ts {
						fail(fmt.Sprintf("LATE: scan at t=%d left message %d with deadline %d in the queue (inflight=%v)", ts, e.id, e.pri, inflight))
					}
				}
				if dirty != (len(got) > 0) {
					fail(fmt.Sprintf("scan at t=%d reported dirty=%v but released %d messages", ts, dirty, len(got)))
				}
				relS := "-"
				if len(rel) > 0 {
					relS = strings.Join(rel, ",")
				}
				name := "scanif"
				if !inflight {
					name = "scandef"
				}
				out.Case(fmt.Sprintf("ch %s %d", name, ts),
					fmt.Sprintf("dirty=%v rel=%s %s %s", dirty, relS, vfE1ChanDump(c, got), vfE1HeapChecks(after)))
				hist[name+fmt.Sprintf(":released%d", vfE1Min(len(got), 3))]++
			}
		}
	}
	fmt.Printf("CHAN-HIST episodes=%d %v\n", episodes, hist)
}


// ---------------------------------------------------------------------------------------------

func TestVerifUniqCorr(t *testing.T) {
	out := vfOpen("uniq")
	defer out.Close()
	r := vfNewRand(47)
	n := vfEnvInt("VERIF_N", 3000)
	for i := 0; i < n; i++ {
		q := r.Intn(25)
		maxval := r.Intn(30)
		switch r.Intn(6) {
		case 0:
			q = 20 // QueueScanSelectionCount default
		case 1:
			maxval = q
		}
		seed := int64(r.Next() >> 1)
		rand.Seed(seed)
		k := q
		if maxval < k {
			k = maxval
		}
		rs := make([]string, k)
		for j := range rs {
			rs[j] = fmt.Sprint(rand.Int())
		}
		rand.Seed(seed)
		got := util.UniqRands(q, maxval)
		// direct oracle: min(q, maxval) distinct indices below maxval; all of them when maxval <= q
		seen := map[int]bool{}
		for _, x := range got {
			if x < 0 || x >= maxval || seen[x] {
				fmt.Printf("ORACLE-FAIL UniqRands(%d,%d) = %v: index out of range or repeated\n", q, maxval, got)
				t.Fail()
			}
			seen[x] = true
		}
		if len(got) != k {
			fmt.Printf("ORACLE-FAIL UniqRands(%d,%d) returned %d indices, want %d\n", q, maxval, len(got), k)
			t.Fail()
		}
		gs := make([]string, len(got))
		for j, x := range got {
			gs[j] = fmt.Sprint(x)
		}
		join := func(xs []string) string {
			if len(xs) == 0 {
				return "-"
			}
			return strings.Join(xs, ",")
		}
		out.Case(fmt.Sprintf("uniq %d %d %s", q, maxval, join(rs)), join(gs))
	}
}

// ---------------------------------------------------------------------------------------------
// TestVerifWallClock: the property as a client sees it, on a daemon with the default scan
// interval. Only EARLY delivery fails (lower bounds taken before the request is sent, so they
// are sound under any load); lateness is measured and reported.
func TestVerifWallClock(t *testing.T) {
	opts := NewOptions()
	opts.Logger = nil
	opts.LogLevel = LOG_FATAL
	opts.DataPath = t.TempDir()
	opts.MaxMsgTimeout = 3 * time.Second
	opts.MaxReqTimeout = time.Hour
	// queueScanLoop works on a cached channel list refreshed every QueueScanRefreshInterval (5 s by
	// default): a channel created since the last refresh is not scanned until the next one (measured
	// here with the default: every scenario ~5 s late). The scenarios create their channels on the
	// fly, so refresh quickly; VERIF_WALL_DEFAULT_REFRESH=1 keeps the default to observe that effect.
	if os.Getenv("VERIF_WALL_DEFAULT_REFRESH") == "" {
		opts.QueueScanRefreshInterval = 100 * time.Millisecond
	}
	tcpAddr, _, nsqd := vfStartNSQD(opts)
	defer nsqd.Exit()
	defer vfE1PanicGuard("a wall-clock scenario", nil)()
	rounds := vfEnvInt("VERIF_N", 2)
	type result struct {
		what  string
		early time.Duration // > 0: delivered that much before it was allowed
		late  time.Duration
	}
	resCh := make(chan result, 1000)
	var wg sync.WaitGroup
	r := vfNewRand(71)
	scenario := func(kind string, idx int, d time.Duration) {
		defer wg.Done()
		defer func() {
			if e := recover(); e != nil {
				resCh <- result{what: fmt.Sprintf("%s#%d: harness error: %v", kind, idx, e), early: -1}
			}
		}()
		topicName := fmt.Sprintf("vf_wall_%s_%d", kind, idx)
		topic := nsqd.GetTopic(topicName)
		topic.GetChannel("ch")
		conn, err := mustConnectNSQD(tcpAddr)
		if err != nil {
			panic(err)
		}
		defer conn.Close()
		conn.SetDeadline(time.Now().Add(20 * time.Second))
		identify(nil, conn, map[string]interface{}{"msg_timeout": 1000}, frameTypeResponse)
		sub(nil, conn, topicName, "ch")
		nsq.Ready(1).WriteTo(conn)
		recv := func() (*nsq.Message, time.Time) {
			for {
				resp, err := nsq.ReadResponse(conn)
				if err != nil {
					panic(err)
				}
				ft, data, _ := nsq.UnpackResponse(resp)
				if ft == frameTypeResponse && string(data) == "_heartbeat_" {
					nsq.Nop().WriteTo(conn)
					continue
				}
				if ft != frameTypeMessage {
					panic(fmt.Sprintf("unexpected frame %d %q", ft, data))
				}
				m, err := nsq.DecodeMessage(data)
				if err != nil {
					panic(err)
				}
				return m, time.Now()
			}
		}
		body := []byte(fmt.Sprintf("%s-%d", kind, idx))
		report := func(what string, got time.Time, notBefore time.Time, expected time.Time) {
			res := result{what: fmt.Sprintf("%s#%d %s", kind, idx, what)}
			if got.Before(notBefore) {
				res.early = notBefore.Sub(got)
			}
			res.late = got.Sub(expected)
			resCh <- res
		}
		switch kind {
		case "dpub":
			pc, err := mustConnectNSQD(tcpAddr)
			if err != nil {
				panic(err)
			}
			defer pc.Close()
			identify(nil, pc, nil, frameTypeResponse)
			t0 := time.Now()
			cmd := nsq.DeferredPublish(topicName, d, body)
			cmd.WriteTo(pc)
			_, at := recv()
			report(fmt.Sprintf("defer %v", d), at, t0.Add(d), t0.Add(d))
		case "dpub2": // the same deferred publish reaches every further channel of the topic: not early there either
			// Topic.messagePump hands the original to the first channel of its slice and a COPY to each other one; the
			// slice is filled in map order (the channel created first comes first 7 times out of 8), so the copies are
			// the later channels almost always. Every channel has a consumer of its own and every consumer is read by
			// a goroutine of its own that stamps its arrival itself: reading them one after the other stamped a later
			// channel only after the first one's deferral had run out, and a copy that lost its deferral (delivered at
			// once on its channel) went unnoticed unless the map order happened to make `ch` the copy (seeded C04-m1).
			nch := 2 + idx%2 // two or three channels
			type arrival struct {
				at  time.Time
				err string
			}
			arr := make([]chan arrival, nch)
			arr[0] = make(chan arrival, 1)
			for k := 1; k < nch; k++ {
				name := fmt.Sprintf("ch%d", k+1)
				topic.GetChannel(name)
				ck, err := mustConnectNSQD(tcpAddr)
				if err != nil {
					panic(err)
				}
				defer ck.Close()
				ck.SetDeadline(time.Now().Add(20 * time.Second))
				identify(nil, ck, nil, frameTypeResponse)
				sub(nil, ck, topicName, name)
				nsq.Ready(1).WriteTo(ck)
				arr[k] = make(chan arrival, 1)
				go func(ck net.Conn, out chan arrival) {
					for {
						resp, err := nsq.ReadResponse(ck)
						at := time.Now()
						if err != nil {
							out <- arrival{err: err.Error()}
							return
						}
						ft, data, _ := nsq.UnpackResponse(resp)
						if ft == frameTypeResponse && string(data) == "_heartbeat_" {
							nsq.Nop().WriteTo(ck)
							continue
						}
						if ft != frameTypeMessage {
							out <- arrival{err: fmt.Sprintf("unexpected frame %d %q", ft, data)}
							return
						}
						out <- arrival{at: at}
						return
					}
				}(ck, arr[k])
			}
			pc, err := mustConnectNSQD(tcpAddr)
			if err != nil {
				panic(err)
			}
			defer pc.Close()
			identify(nil, pc, nil, frameTypeResponse)
			t0 := time.Now()
			nsq.DeferredPublish(topicName, d, body).WriteTo(pc)
			go func() {
				defer func() {
					if e := recover(); e != nil {
						arr[0] <- arrival{err: fmt.Sprint(e)}
					}
				}()
				_, at := recv()
				arr[0] <- arrival{at: at}
			}()
			for k := 0; k < nch; k++ {
				a := <-arr[k]
				if a.err != "" {
					panic(fmt.Sprintf("dpub2: channel %d of %d: %s", k+1, nch, a.err))
				}
				report(fmt.Sprintf("defer %v (channel %d of %d)", d, k+1, nch), a.at, t0.Add(d), t0.Add(d))
			}
		case "req":
			topic.PutMessage(NewMessage(topic.GenerateID(), body))
			m, _ := recv()
			t0 := time.Now()
			nsq.Requeue(m.ID, d).WriteTo(conn)
			m2, at := recv()
			if m2.ID != m.ID || m2.Attempts != 2 {
				panic("requeue: another message came back")
			}
			report(fmt.Sprintf("requeue %v", d), at, t0.Add(d), t0.Add(d))
		case "timeout":
			t0 := time.Now()
			topic.PutMessage(NewMessage(topic.GenerateID(), body))
			m, first := recv()
			m2, at := recv() // never answered: msg_timeout (1 s) must pass first
			if m2.ID != m.ID || m2.Attempts != 2 {
				panic("timeout: another message came back")
			}
			report("msg_timeout 1s", at, t0.Add(time.Second), first.Add(time.Second))
		case "touch":
			t0 := time.Now()
			topic.PutMessage(NewMessage(topic.GenerateID(), body))
			m, first := recv()
			var lastTouch time.Time
			for k := 0; k < int(d/time.Millisecond); k++ { // d encodes the number of touches
				time.Sleep(600 * time.Millisecond)
				lastTouch = time.Now()
				nsq.Touch(m.ID).WriteTo(conn)
			}
			m2, at := recv()
			if m2.ID != m.ID {
				panic("touch: another message came back")
			}
			// allowed not before min(lastTouch + 1s, publish + 3s (cap)); expected at min(lastTouch+1s, first+3s)
			nb := lastTouch.Add(time.Second)
			if c := t0.Add(3 * time.Second); c.Before(nb) {
				nb = c
			}
			exp := lastTouch.Add(time.Second)
			if c := first.Add(3 * time.Second); c.Before(exp) {
				exp = c
			}
			report(fmt.Sprintf("%d touches", int(d/time.Millisecond)), at, nb, exp)
		}
	}
	idx := 0
	for k := 0; k < rounds; k++ {
		for _, d := range []time.Duration{time.Duration(1+r.Intn(40)) * time.Millisecond, time.Duration(90+r.Intn(30)) * time.Millisecond, time.Duration(200+r.Intn(400)) * time.Millisecond} {
			for _, kind := range []string{"dpub", "req", "dpub2"} {
				idx++
				wg.Add(1)
				go scenario(kind, idx, d)
			}
		}
		idx++
		wg.Add(1)
		go scenario("timeout", idx, 0)
		for _, touches := range []int{1, 2, 6} {
			idx++
			wg.Add(1)
			go scenario("touch", idx, time.Duration(touches)*time.Millisecond)
		}
	}
	wg.Wait()
	close(resCh)
	var worstLate time.Duration
	n, lateCount := 0, 0
	bound := opts.QueueScanRefreshInterval + 3*opts.QueueScanInterval + 250*time.Millisecond
	for res := range resCh {
		n++
		if res.early < 0 {
			fmt.Printf("WALL-ERROR %s\n", res.what)
			t.Fail()
			continue
		}
		if res.early > 0 {
			fmt.Printf("ORACLE-FAIL EARLY (wall clock): %s delivered %v before it was allowed\n", res.what, res.early)
			t.Fail()
		}
		if res.late > worstLate {
			worstLate = res.late
		}
		if res.late > bound {
			lateCount++
			fmt.Printf("WALL-LATE %s: %v after the deadline (bound %v on an idle machine)\n", res.what, res.late, bound)
		}
	}
	fmt.Printf("WALL-OK scenarios=%d worst-lateness=%v beyond-bound=%d bound=%v\n", n, worstLate, lateCount, bound)
}


// TestVerifTouchTCP: TOUCH over a real connection restarts the timeout with the msg_timeout the
// client NEGOTIATED (not a daemon default), capped at deliveryTS + max-msg-timeout. The deadline
// is read white-box; the bounds are clock readings taken around the command.
func TestVerifTouchTCP(t *testing.T) {
	opts := NewOptions()
	opts.Logger = nil
	opts.LogLevel = LOG_FATAL
	opts.DataPath = t.TempDir()
	opts.QueueScanInterval = time.Hour
	opts.QueueScanRefreshInterval = time.Hour
	opts.MsgTimeout = 61 * time.Second
	opts.MaxMsgTimeout = 17 * time.Minute
	opts.MaxReqTimeout = 47 * time.Minute
	tcpAddr, _, nsqd := vfStartNSQD(opts)
	defer nsqd.Exit()
	defer vfE1PanicGuard("TOUCH over TCP", nil)()
	r := vfNewRand(73)
	n := vfEnvInt("VERIF_N", 20)
	okCount := 0
	for i := 0; i < n; i++ {
		mtMs := []int{1000, 1001, 5000, 60000, 61000, 300000, 1020000}[r.Intn(7)]
		topicName := fmt.Sprintf("vf_touch_%d", i)
		topic := nsqd.GetTopic(topicName)
		ch := topic.GetChannel("ch")
		conn, err := mustConnectNSQD(tcpAddr)
		if err != nil {
			t.Fatal(err)
		}
		conn.SetDeadline(time.Now().Add(10 * time.Second))
		identify(t, conn, map[string]interface{}{"msg_timeout": mtMs}, frameTypeResponse)
		sub(t, conn, topicName, "ch")
		nsq.Ready(1).WriteTo(conn)
		topic.PutMessage(NewMessage(topic.GenerateID(), []byte("touch")))
		resp, err := nsq.ReadResponse(conn)
		if err != nil {
			t.Fatal(err)
		}
		_, data, _ := nsq.UnpackResponse(resp)
		m, err := nsq.DecodeMessage(data)
		if err != nil {
			t.Fatal(err)
		}
		var id MessageID
		copy(id[:], m.ID[:])
		ch.inFlightMutex.Lock()
		msg := ch.inFlightMessages[id]
		first := msg.pri
		dts := msg.deliveryTS.UnixNano()
		ch.inFlightMutex.Unlock()
		mt := int64(mtMs) * int64(time.Millisecond)
		if first != dts+mt {
			fmt.Printf("ORACLE-FAIL first delivery deadline %d is not deliveryTS + negotiated msg_timeout %dms = %d\n", first, mtMs, dts+mt)
			t.Fail()
		}
		time.Sleep(time.Duration(1+r.Intn(5)) * time.Millisecond)
		t0 := time.Now().UnixNano()
		nsq.Touch(m.ID).WriteTo(conn)
		// wait until the deadline moved (TOUCH has no response)
		var pri int64
		for k := 0; k < 2000; k++ {
			ch.inFlightMutex.Lock()
			if mm, ok := ch.inFlightMessages[id]; ok {
				pri = mm.pri
			}
			ch.inFlightMutex.Unlock()
			if pri != first && pri != 0 {
				break
			}
			time.Sleep(100 * time.Microsecond)
		}
		t1 := time.Now().UnixNano()
		capAt := dts + int64(opts.MaxMsgTimeout)
		lo, hi := vfE1Min64(t0+mt, capAt), vfE1Min64(t1+mt, capAt)
		if pri < lo || pri > hi {
			fmt.Printf("ORACLE-FAIL TOUCH over TCP with negotiated msg_timeout %dms: new deadline %d is outside [%d, %d] (= min(now + msg_timeout, deliveryTS + max-msg-timeout)); it is now+%dms\n",
				mtMs, pri, lo, hi, (pri-t0)/1000000)
			t.Fail()
		} else {
			okCount++
		}
		conn.Close()
	}
	fmt.Printf("TOUCHTCP-OK cases=%d\n", okCount)
}

// ---------------------------------------------------------------------------------------------
// TestVerifScanLoop: the REAL queueScanLoop / queueScanWorker of a running daemon (short scan
// interval) with one busy channel among idle ones: a consumer that never answers lets a steady
// stream of in-flight messages time out (every scan finds expired in-flight work on that channel)
// while a message requeued with delay d and a message deferred by d wait on the same channel.
// Boundedly late: each must come back once it is due. The oracle is generous and load-independent:
// it fails only if the message is still parked after d + max(10 scan intervals, 1.5 s) AND the scan
// loop has demonstrably kept scanning that channel meanwhile (>= 10 more rounds of in-flight
// timeouts released after the due time). Early-side jitter never fails here.
func TestVerifScanLoop(t *testing.T) {
	opts := NewOptions()
	opts.Logger = nil
	opts.LogLevel = LOG_FATAL
	opts.DataPath = t.TempDir()
	opts.MemQueueSize = 1000
	opts.QueueScanInterval = 25 * time.Millisecond
	opts.QueueScanRefreshInterval = 50 * time.Millisecond
	_, _, nsqd := vfStartNSQD(opts)
	defer nsqd.Exit()
	defer vfE1PanicGuard("the scan-loop scenario", nil)()
	r := vfNewRand(79)
	idle := 3 + r.Intn(5) // 4..8 channels in all: one dirty channel stays <= 25 %, no immediate rescan
	busy := nsqd.GetTopic("vf_scan_busy").GetChannel("busy")
	for i := 0; i < idle; i++ {
		nsqd.GetTopic(fmt.Sprintf("vf_scan_idle_%d", i)).GetChannel("idle")
	}
	time.Sleep(150 * time.Millisecond) // let the scan loop refresh its channel list
	const streamN = 10
	streamTimeout := time.Duration(10+r.Intn(8)) * time.Millisecond // < scan interval: expired at every scan
	d := time.Duration(100+r.Intn(150)) * time.Millisecond
	type arrival struct {
		id int
		at time.Time
	}
	arrivals := make(chan arrival, 16)
	stop := make(chan struct{})
	var wg sync.WaitGroup
	wg.Add(1)
	go func() { // the consumer that never answers
		defer wg.Done()
		for {
			select {
			case m := <-busy.memoryMsgChan:
				id := vfE1IDNum(m.ID)
				if id >= 1000 {
					arrivals <- arrival{id, time.Now()}
					continue
				}
				busy.StartInFlightTimeout(m, 1, streamTimeout)
			case <-stop:
				return
			}
		}
	}()
	for i := 1; i <= streamN; i++ {
		busy.PutMessage(&Message{ID: vfE1MsgID(i), Body: []byte("stream")})
	}
	time.Sleep(3 * opts.QueueScanInterval) // the stream is cycling
	// (a) REQ with delay d  (b) deferred publish with delay d, both on the busy channel
	reqMsg := &Message{ID: vfE1MsgID(1001), Body: []byte("requeued")}
	busy.StartInFlightTimeout(reqMsg, 2, 10*time.Minute)
	t0 := time.Now()
	if err := busy.RequeueMessage(2, reqMsg.ID, d); err != nil {
		t.Fatal(err)
	}
	busy.PutMessageDeferred(&Message{ID: vfE1MsgID(1002), Body: []byte("deferred")}, d)
	due := t0.Add(d)
	grace := 10 * opts.QueueScanInterval
	if grace < 1500*time.Millisecond {
		grace = 1500 * time.Millisecond
	}
	got := map[int]time.Time{}
	var countAtDue uint64
	dueSeen := false
	hardStop := time.Now().Add(20 * time.Second)
	verdict := ""
	for len(got) < 2 && verdict == "" {
		select {
		case a := <-arrivals:
			got[a.id] = a.at
		case <-time.After(5 * time.Millisecond):
		}
		now := time.Now()
		if !dueSeen && !now.Before(due) {
			dueSeen = true
			countAtDue = atomic.LoadUint64(&busy.timeoutCount)
		}
		if dueSeen && now.After(due.Add(grace)) {
			rounds := (atomic.LoadUint64(&busy.timeoutCount) - countAtDue) / streamN
			if rounds >= 10 {
				verdict = "late"
			} else if now.After(hardStop) {
				verdict = "inconclusive"
			}
		}
	}
	close(stop)
	wg.Wait()
	scenario := fmt.Sprintf("scan interval %v, 1 busy + %d idle channels, %d in-flight messages timing out every %v on the busy channel, REQ delay / defer %v",
		opts.QueueScanInterval, idle, streamN, streamTimeout, d)
	switch verdict {
	case "late":
		rounds := (atomic.LoadUint64(&busy.timeoutCount) - countAtDue) / streamN
		for id, name := range map[int]string{1001: "the message requeued with delay", 1002: "the message deferred by"} {
			if _, ok := got[id]; !ok {
				fmt.Printf("ORACLE-FAIL STARVED: %s %v is still parked %v after it was due, although the scan loop released in-flight timeouts of the same channel in about %d scans since then (%s)\n",
					name, d, time.Since(due).Round(time.Millisecond), rounds, scenario)
			}
		}
		t.Fail()
	case "inconclusive":
		fmt.Printf("SCANLOOP-INCONCLUSIVE the scan loop made too little progress to judge (%s)\n", scenario)
	default:
		worst := time.Duration(0)
		for _, at := range got {
			if l := at.Sub(due); l > worst {
				worst = l
			}
		}
		fmt.Printf("SCANLOOP-OK lateness=%v timeouts=%d (%s)\n", worst.Round(time.Millisecond), atomic.LoadUint64(&busy.timeoutCount), scenario)
	}
}

// ---------------------------------------------------------------------------------------------
// TestVerifScanLoopDirty: the REAL queueScanLoop with its dirty loop OPEN. Exactly 1 busy + 2 idle
// channels: one dirty channel of three is 33 % > QueueScanDirtyPercent (25 %), so every tick that
// finds expired in-flight work on the busy channel takes `goto loop` (TestVerifScanLoop, with >= 4
// channels, never does). A stream of in-flight messages expires at every scan; a message requeued
// with delay d and a message deferred by d wait on the busy channel and must be released.
// Two variants, one NSQD each: QueueScanSelectionCount = default (20) and = number of channels + 1
// (the boundary of `num > len(channels)`).
//
// Oracle (direct, on the implementation, load-independent). FAIL only on positive evidence:
//   SCANNER-STOPPED  a parked message is still in deferredMessages >= max(40 intervals, 1 s) after it was
//                    due, busy.timeoutCount has not moved for that long although the oldest in-flight
//                    message of the channel is overdue by that long, while a control goroutine on the
//                    harness's own ticker of the SAME period as the scan interval ran >= 40 times since
//                    the last release (timers fire and the Go scheduler serves goroutines of this process).
//   STARVED          as in TestVerifScanLoop: still parked although >= 10 further rounds of in-flight
//                    timeouts of the same channel were released after the due time.
// Anything else after the hard stop is SCANLOOPDIRTY-INCONCLUSIVE (a note). Early-side jitter never fails.
// "repeats-entered=a/b": hook chan.scan.afterPQPop arms, during a dirty round, a probe in-flight message
// that falls due 1 ns later (after that round's clock reading): a of b probes were released within half an
// interval of being armed, which only the immediate re-scan does (information, never a failure; 0 of >= 3 prints
// SCANLOOPDIRTY-NOREPEAT, a note).
func TestVerifScanLoopDirty(t *testing.T) {
	defer vfE1PanicGuard("the dirty-scan-loop scenario", nil)()
	defer VerifClearHooks()
	r := vfNewRand(83)
	for _, variant := range []string{"default", "channels+1"} {
		if !vfE1ScanLoopDirty(t, r, variant) {
			t.Fail()
			return // the scanner of this tree is broken: the second variant would only repeat it
		}
	}
}

func vfE1ScanLoopDirty(t *testing.T, r *vfRand, variant string) bool {
	const nChannels = 3
	opts := NewOptions()
	opts.Logger = nil
	opts.LogLevel = LOG_FATAL
	opts.DataPath = t.TempDir()
	opts.MemQueueSize = 1000
	opts.QueueScanInterval = time.Duration(20+r.Intn(6)) * time.Millisecond
	opts.QueueScanRefreshInterval = 50 * time.Millisecond
	if variant == "channels+1" {
		opts.QueueScanSelectionCount = nChannels + 1
	}
	interval := opts.QueueScanInterval
	_, _, nsqd := vfStartNSQD(opts)
	busy := nsqd.GetTopic("vf_dirty_busy").GetChannel("busy")
	for i := 0; i < nChannels-1; i++ {
		nsqd.GetTopic(fmt.Sprintf("vf_dirty_idle_%d", i)).GetChannel("idle")
	}
	time.Sleep(150 * time.Millisecond) // let the scan loop refresh its channel list
	const streamN = 10
	streamTimeout := time.Duration(8+r.Intn(8)) * time.Millisecond // < scan interval: expired at every scan
	d := time.Duration(100+r.Intn(150)) * time.Millisecond

	// probes: armed inside a dirty round, due 1 ns later => released by the immediate re-scan if there is one
	var probeMu sync.Mutex
	var probeArmedAt time.Time
	probeN, probeFast, probeSeen := 0, 0, 0
	VerifSetHook("chan.scan.afterPQPop", func(string) {
		probeMu.Lock()
		if !probeArmedAt.IsZero() {
			probeMu.Unlock()
			return
		}
		probeN++
		id := 2000 + probeN
		probeArmedAt = time.Now()
		probeMu.Unlock()
		busy.StartInFlightTimeout(&Message{ID: vfE1MsgID(id), Body: []byte("probe")}, 3, time.Nanosecond)
	})

	type arrival struct {
		id int
		at time.Time
	}
	arrivals := make(chan arrival, 16)
	stop := make(chan struct{})
	var ctlTicks int64
	var wg sync.WaitGroup
	wg.Add(2)
	go func() { // the consumer that never answers
		defer wg.Done()
		for {
			select {
			case m := <-busy.memoryMsgChan:
				id := vfE1IDNum(m.ID)
				switch {
				case id >= 2000: // a probe came back
					probeMu.Lock()
					probeSeen++
					if time.Since(probeArmedAt) < interval/2 {
						probeFast++
					}
					probeArmedAt = time.Time{}
					probeMu.Unlock()
				case id >= 1000:
					arrivals <- arrival{id, time.Now()}
				default:
					busy.StartInFlightTimeout(m, 1, streamTimeout)
				}
			case <-stop:
				return
			}
		}
	}()
	ctl := time.NewTicker(interval) // the control: same period as the scan loop's ticker, same runtime, same scheduler
	go func() {
		defer wg.Done()
		defer ctl.Stop()
		for {
			select {
			case <-ctl.C:
				atomic.AddInt64(&ctlTicks, 1)
			case <-stop:
				return
			}
		}
	}()
	for i := 1; i <= streamN; i++ {
		busy.PutMessage(&Message{ID: vfE1MsgID(i), Body: []byte("stream")})
	}
	time.Sleep(3 * interval) // the stream is cycling
	reqMsg := &Message{ID: vfE1MsgID(1001), Body: []byte("requeued")}
	busy.StartInFlightTimeout(reqMsg, 2, 10*time.Minute)
	t0 := time.Now()
	if err := busy.RequeueMessage(2, reqMsg.ID, d); err != nil {
		t.Fatal(err)
	}
	busy.PutMessageDeferred(&Message{ID: vfE1MsgID(1002), Body: []byte("deferred")}, d)
	due := t0.Add(d)
	grace := 40 * interval
	if grace < time.Second {
		grace = time.Second
	}
	hardStop := due.Add(grace + 3*time.Second)
	names := map[int]string{1001: "requeued with delay", 1002: "deferred by"}
	parked := func() []int { // which of the two are still held by the channel's deferred map
		var ids []int
		busy.deferredMutex.Lock()
		for _, id := range []int{1001, 1002} {
			if _, ok := busy.deferredMessages[vfE1MsgID(id)]; ok {
				ids = append(ids, id)
			}
		}
		busy.deferredMutex.Unlock()
		return ids
	}
	oldestInFlight := func(now time.Time) (int, time.Duration) { // (in flight, how long the root is overdue)
		busy.inFlightMutex.Lock()
		defer busy.inFlightMutex.Unlock()
		if len(busy.inFlightPQ) == 0 {
			return 0, 0
		}
		return len(busy.inFlightPQ), time.Duration(now.UnixNano() - busy.inFlightPQ[0].pri)
	}
	got := map[int]time.Time{}
	lastCount := atomic.LoadUint64(&busy.timeoutCount)
	lastMove, ticksAtMove := time.Now(), atomic.LoadInt64(&ctlTicks)
	var countAtDue uint64
	dueSeen := false
	verdict, evidence := "", ""
	for len(got) < 2 && verdict == "" {
		select {
		case a := <-arrivals:
			got[a.id] = a.at
		case <-time.After(5 * time.Millisecond):
		}
		now := time.Now()
		ticks := atomic.LoadInt64(&ctlTicks)
		if c := atomic.LoadUint64(&busy.timeoutCount); c != lastCount {
			lastCount, lastMove, ticksAtMove = c, now, ticks
		}
		if !dueSeen && !now.Before(due) {
			dueSeen = true
			countAtDue = lastCount
		}
		if !dueSeen || now.Before(due.Add(grace)) {
			continue
		}
		held := parked()
		nInFlight, overdue := oldestInFlight(now)
		silent, silentTicks := now.Sub(lastMove), ticks-ticksAtMove
		rounds := (lastCount - countAtDue) / streamN
		switch {
		case len(held) > 0 && silent >= grace && silentTicks >= 40 && nInFlight > 0 && overdue >= grace:
			verdict = "stopped"
			evidence = fmt.Sprintf("the scan loop has released nothing for %v: timeoutCount of the channel stands at %d, %d messages are in flight and the oldest is overdue by %v, "+
				"although a control goroutine on the harness's own %v ticker ran %d times since the last release",
				silent.Round(time.Millisecond), lastCount, nInFlight, overdue.Round(time.Millisecond), interval, silentTicks)
		case len(held) > 0 && rounds >= 10:
			verdict = "starved"
			evidence = fmt.Sprintf("although the scan loop released in-flight timeouts of the same channel in about %d scans since then", rounds)
		case now.After(hardStop):
			verdict = "inconclusive"
			evidence = fmt.Sprintf("still parked %v, no release for %v, control ticks since %d, in flight %d, oldest overdue by %v, rounds since due %d",
				held, silent.Round(time.Millisecond), silentTicks, nInFlight, overdue.Round(time.Millisecond), rounds)
		}
	}
	close(stop)
	wg.Wait()
	VerifSetHook("chan.scan.afterPQPop", nil)
	probeMu.Lock()
	repeats := fmt.Sprintf("%d/%d", probeFast, probeSeen)
	probeMu.Unlock()
	scenario := fmt.Sprintf("variant %s: scan interval %v, selection count %d, 1 busy + %d idle channels (one dirty = %d %% > 25 %%), %d in-flight messages timing out every %v on the busy channel, REQ delay / defer %v, VERIF_SEED=%d",
		variant, interval, opts.QueueScanSelectionCount, nChannels-1, 100/nChannels, streamN, streamTimeout, d, vfEnvInt("VERIF_SEED", 1))
	ok := true
	switch verdict {
	case "stopped", "starved":
		ok = false
		var what []string
		for _, id := range parked() {
			what = append(what, fmt.Sprintf("the message %s %v", names[id], d))
		}
		fmt.Printf("ORACLE-FAIL %s: %s: still parked in deferredMessages %v after the delay ran out, %s (%s)\n",
			map[string]string{"stopped": "SCANNER-STOPPED", "starved": "STARVED"}[verdict], strings.Join(what, " and "),
			time.Since(due).Round(time.Millisecond), evidence, scenario)
	case "inconclusive":
		fmt.Printf("SCANLOOPDIRTY-INCONCLUSIVE too little evidence to judge: %s (%s)\n", evidence, scenario)
	default:
		worst := time.Duration(0)
		for _, at := range got {
			if l := at.Sub(due); l > worst {
				worst = l
			}
		}
		fmt.Printf("SCANLOOPDIRTY-OK lateness=%v repeats-entered=%s timeouts=%d (%s)\n", worst.Round(time.Millisecond), repeats, atomic.LoadUint64(&busy.timeoutCount), scenario)
	}
	if probeSeen >= 3 && probeFast == 0 {
		fmt.Printf("SCANLOOPDIRTY-NOREPEAT none of %d dirty rounds was followed by an immediate re-scan (the probe armed in the round waited for the next tick): the 25 %% dirty loop of queueScanLoop is not taken on this tree; lateness is unaffected (%s)\n", probeSeen, scenario)
	}
	// a stopped scanner never leaves queueScanLoop, so NSQD.Exit() would wait for ever: bounded wait
	exited := make(chan struct{})
	go func() { nsqd.Exit(); close(exited) }()
	select {
	case <-exited:
	case <-time.After(2 * time.Second):
		fmt.Printf("SCANLOOPDIRTY-NOTE NSQD.Exit() did not return within 2s (variant %s, verdict %q): abandoned\n", variant, verdict)
	}
	return ok
}

// ---------------------------------------------------------------------------------------------
// TestVerifScanWindowReplay: hook-steered replay, on the real Channel, of the schedule of
// Props.C04.never_early_micro_false (finding C04 `scan-window-requeue`, fixed by F16 = /repo 512db6c): between the scan's
// heap pop and its map pop (hook point chan.scan.afterPQPop) the holder REQs the message with delay
// 0 and the same *Message is delivered again. Every step is one complete critical section of the
// real code, so the schedule is one the Go scheduler can produce.
//   SCANWINDOW reproduced=true …   the fresh delivery was timed out by the old scan (still broken)
//   SCANWINDOW reproduced=false …  it stayed in flight until its own deadline
func TestVerifScanWindowReplay(t *testing.T) {
	opts := NewOptions()
	opts.Logger = nil
	opts.LogLevel = LOG_FATAL
	opts.DataPath = t.TempDir()
	opts.MemQueueSize = 100
	opts.QueueScanInterval = time.Hour
	opts.QueueScanRefreshInterval = time.Hour
	_, _, nsqd := vfStartNSQD(opts)
	defer nsqd.Exit()
	defer vfE1PanicGuard("the scan-window replay", nil)()
	defer VerifClearHooks()
	c := nsqd.GetTopic("vf_scanwin").GetChannel("ch")
	msg := &Message{ID: vfE1MsgID(1), Body: []byte("m")}
	if err := c.StartInFlightTimeout(msg, 1, 10*time.Millisecond); err != nil {
		t.Fatal(err)
	}
	oldDeadline := msg.pri
	fresh := 60 * time.Second
	var newDeadline int64
	steps := []string{}
	fired := false
	VerifSetHook("chan.scan.afterPQPop", func(string) {
		if fired {
			return
		}
		fired = true
		// the holder's REQ 0 …
		if err := c.RequeueMessage(1, msg.ID, 0); err != nil {
			steps = append(steps, "REQ failed: "+err.Error())
			return
		}
		steps = append(steps, "REQ 0 by client 1 accepted")
		// … and the pump of another consumer takes it from the memory queue and delivers it again
		select {
		case m := <-c.memoryMsgChan:
			if err := c.StartInFlightTimeout(m, 2, fresh); err != nil {
				steps = append(steps, "redelivery failed: "+err.Error())
				return
			}
			newDeadline = m.pri
			steps = append(steps, fmt.Sprintf("redelivered to client 2 (same object: %v), deadline now+%v", m == msg, fresh))
		default:
			steps = append(steps, "nothing to redeliver")
		}
	})
	dirty := c.processInFlightQueue(oldDeadline) // a scan exactly at the first delivery's deadline
	c.inFlightMutex.Lock()
	_, stillInFlight := c.inFlightMessages[msg.ID]
	inHeap := false
	for _, m := range c.inFlightPQ {
		if m == msg {
			inHeap = true
		}
	}
	c.inFlightMutex.Unlock()
	released := 0
	for {
		select {
		case <-c.memoryMsgChan:
			released++
			continue
		default:
		}
		break
	}
	reproduced := fired && newDeadline != 0 && !stillInFlight && released > 0
	fmt.Printf("SCANWINDOW reproduced=%v hook-fired=%v steps=%q scan-dirty=%v in-flight-map=%v heap=%v handed-to-put-again=%d early-by=%v\n",
		reproduced, fired, steps, dirty, stillInFlight, inHeap, released, time.Duration(newDeadline-oldDeadline))
}

// TestVerifStaleHeapReplay — audit A3 / fix F48 = /repo 88fd245 (finding C04 `stale-heap-entry-hides-due`, fixed): a late
// `REQ M 0` of the SAME connection, processed between the in-flight-map insert and the deadline-heap insert of
// M's redelivery (hook chan.inflight.afterMapPush), leaves a heap entry for an object that is queued again; its
// next delivery rewrites msg.pri in place inside the heap; processInFlightQueue then does not see X although X is
// overdue. Lean: Props.C04Micro.scan_complete_micro_false (pre-F48 shape), stale_entry_impossible_fixed (F48 shape).
// Owns the clock: the scans are called with chosen times.
func TestVerifStaleHeapReplay(t *testing.T) {
	opts := NewOptions()
	opts.Logger = nil
	opts.LogLevel = LOG_FATAL
	opts.DataPath = t.TempDir()
	opts.MemQueueSize = 100
	opts.QueueScanInterval = time.Hour
	opts.QueueScanRefreshInterval = time.Hour
	_, _, nsqd := vfStartNSQD(opts)
	defer nsqd.Exit()
	defer vfE1PanicGuard("the stale-heap replay", nil)()
	defer VerifClearHooks()
	c := nsqd.GetTopic("vf_staleheap").GetChannel("ch")
	m := &Message{ID: vfE1MsgID(1), Body: []byte("M")}
	x := &Message{ID: vfE1MsgID(2), Body: []byte("X")}
	steps := []string{}
	c.PutMessage(m)
	take := func() *Message {
		select {
		case g := <-c.memoryMsgChan:
			g.Attempts++
			return g
		default:
			return nil
		}
	}
	// delivery 1 of M to connection 1, ignored, timed out by a scan one second later
	g := take()
	if g == nil {
		t.Fatal("M not queued")
	}
	c.StartInFlightTimeout(g, 1, 10*time.Millisecond)
	c.processInFlightQueue(time.Now().Add(time.Second).UnixNano())
	// delivery 2 of M to connection 1; its late REQ (for delivery 1) runs inside the delivery window
	g = take()
	if g == nil {
		t.Fatal("M not requeued by the first timeout")
	}
	fired := false
	VerifSetHook("chan.inflight.afterMapPush", func(string) {
		if fired {
			return
		}
		fired = true
		if err := c.RequeueMessage(1, m.ID, 0); err != nil {
			steps = append(steps, "late REQ refused: "+err.Error())
		} else {
			steps = append(steps, "late REQ M 0 by connection 1 accepted inside the delivery window")
		}
	})
	c.StartInFlightTimeout(g, 1, time.Second)
	c.inFlightMutex.Lock()
	staleAfterWindow := len(c.inFlightPQ) - len(c.inFlightMessages)
	c.inFlightMutex.Unlock()
	// X to connection 2 with a 2 s timeout
	t0 := time.Now()
	c.StartInFlightTimeout(x, 2, 2*time.Second)
	// delivery 3 of M (same object) to connection 3 with a 60 s timeout
	if g = take(); g != nil {
		c.StartInFlightTimeout(g, 3, 60*time.Second)
		steps = append(steps, fmt.Sprintf("M redelivered to connection 3 (same object: %v) with 60s", g == m))
	}
	c.inFlightMutex.Lock()
	heapLen, mapLen := len(c.inFlightPQ), len(c.inFlightMessages)
	heapOK := true
	for i := 1; i < len(c.inFlightPQ); i++ {
		if c.inFlightPQ[(i-1)/2].pri > c.inFlightPQ[i].pri {
			heapOK = false
		}
	}
	c.inFlightMutex.Unlock()
	held := func() bool {
		c.inFlightMutex.Lock()
		defer c.inFlightMutex.Unlock()
		_, ok := c.inFlightMessages[x.ID]
		return ok
	}
	d1 := c.processInFlightQueue(t0.Add(3 * time.Second).UnixNano())
	late1 := held()
	d2 := c.processInFlightQueue(t0.Add(59 * time.Second).UnixNano())
	late2 := held()
	reproduced := fired && (late1 || late2)
	fmt.Printf("STALEHEAP reproduced=%v hook-fired=%v steps=%q stale-entries-after-window=%d heap=%d map=%d heap-order-ok=%v scan(X.deadline+1s): dirty=%v X-still-in-flight=%v scan(X.deadline+57s): dirty=%v X-still-in-flight=%v\n",
		reproduced, fired, steps, staleAfterWindow, heapLen, mapLen, heapOK, d1, late1, d2, late2)
}
