package nsqd

// C04 (numeric half): how the real code reads delays/timeouts written as text.
//
//   b10 <hex>                      protocol.ByteToBase10 (direct)
//   (ms2dur <ms>                   msToDuration, direct: num_ms_test.go — separate so that this file
//                                  keeps compiling on trees without that helper)
//   req <maxReq> <hex>             the real protocolV2.REQ handler on a real channel; the duration it
//                                  requeued with is resolved from the deferred deadline (white-box)
//   reqtcp <maxReq> <hex> <lo> <hi> REQ over a real TCP connection; [lo,hi] brackets the delay observed
//   dpub <maxReq> <hex>            DPUB over a real TCP connection; msg.deferred read back white-box
//   hdefer <maxReq> <hex>          HTTP POST /pub?defer=…; msg.deferred read back white-box
//   setmsgtimeout <max> <cur> <v>  clientV2.SetMsgTimeout (direct)

import (
	"bytes"
	"fmt"
	"io"
	"net"
	"net/http"
	"net/url"
	"os"
	"strconv"
	"strings"
	"testing"
	"time"

	"github.com/nsqio/go-nsq"
	"github.com/nsqio/nsq/internal/protocol"
)

// vfE1Spellings: ways of writing (or failing to write) a number. tcpSafe: no space / newline.
func vfE1Spelling(r *vfRand, maxReqMs uint64, tcpSafe bool) string {
	u := func(x uint64) string { return fmt.Sprintf("%d", x) }
	for {
		var s string
		switch r.Intn(24) {
		case 0:
			s = "0"
		case 1:
			s = "1"
		case 2:
			s = u(maxReqMs)
		case 3:
			s = u(maxReqMs + 1)
		case 4:
			if maxReqMs > 0 {
				s = u(maxReqMs - 1)
			} else {
				s = "0"
			}
		case 5:
			s = u(uint64(r.Intn(100000)))
		case 6:
			s = "18446744073709551615"
		case 7:
			s = "18446744073709551616"
		case 8:
			s = "18446744073709551621" // pre-fix: parsed as 5
		case 9:
			s = "18446744073710" // pre-fix: 448 µs
		case 10:
			s = []string{"9223372036854", "9223372036855", "9223372036854775807", "9223372036854775808", "9223372036854775809", "9223372036853"}[r.Intn(6)]
		case 11: // 2^64 ± k, 2^64 * j + small
			k := uint64(r.Intn(2000))
			s = "1844674407370955" + fmt.Sprintf("%04d", 1616+k)
		case 12: // 40 digits
			b := make([]byte, 40)
			for i := range b {
				b[i] = byte('0' + r.Intn(10))
			}
			s = string(b)
		case 13: // leading zeros
			s = strings.Repeat("0", 1+r.Intn(30)) + u(uint64(r.Intn(5000)))
		case 14:
			s = []string{"+5", "-5", "-0", "+0", "-1", "+", "-", "--5", "+-5", "-9223372036854775808", "-9223372036854775809"}[r.Intn(11)]
		case 15:
			s = []string{" 5", "5 ", " ", "5 5", "\t5", "5\t", "5\n", "\n5"}[r.Intn(8)]
		case 16:
			s = []string{"0x10", "ff", "0b11", "0o7", "1e3", "1_000", "1.5", "5ms", "1,000", "٣", "５", "NaN", "inf"}[r.Intn(13)]
		case 17:
			s = ""
		case 18: // a digit string with one wrong byte
			b := []byte(u(uint64(r.Intn(1000000))))
			b[r.Intn(len(b))] = byte(r.Next())
			s = string(b)
		case 19: // multiples of 2^64 plus a small value (wrap candidates)
			s = []string{"36893488147419103237", "184467440737095516165", "18446744073709552616", "18446744073709556616"}[r.Intn(4)]
		case 20: // 2^63/10^6 region ± k
			s = u(9223372036854 - 3 + uint64(r.Intn(7)))
		default:
			s = u(r.Next() >> uint(r.Intn(64)))
		}
		// on the wire a command line is split at spaces and its trailing "\n" / "\r\n" removed:
		// such spellings are not one parameter
		if tcpSafe && (strings.ContainsAny(s, " \n") || strings.HasSuffix(s, "\r")) {
			continue
		}
		return s
	}
}

func vfE1FindDeferred(c *Channel, body []byte, wait time.Duration) (*Message, int64, bool) {
	deadline := time.Now().Add(wait)
	for {
		c.deferredMutex.Lock()
		for _, it := range c.deferredMessages {
			m := it.Value.(*Message)
			if bytes.Equal(m.Body, body) {
				pri := it.Priority
				c.deferredMutex.Unlock()
				return m, pri, true
			}
		}
		c.deferredMutex.Unlock()
		select {
		case m := <-c.memoryMsgChan:
			if bytes.Equal(m.Body, body) {
				return m, 0, true
			}
		default:
		}
		if time.Now().After(deadline) {
			return nil, 0, false
		}
		time.Sleep(200 * time.Microsecond)
	}
}

// vfE1Resolve: the duration d with deadline = now + d for some now in [t0,t1], knowing that d is 0,
// a whole number of milliseconds, or maxReq. "" if none or ambiguous.
func vfE1Resolve(pri, t0, t1, maxReq int64) string {
	lo, hi := pri-t1, pri-t0
	if hi-lo >= 500000 {
		return "" // the call took too long (loaded machine): several millisecond counts would fit
	}
	var cands []int64
	k := lo / 1000000
	for _, m := range []int64{k, k + 1} {
		if m*1000000 >= lo && m*1000000 <= hi {
			cands = append(cands, m*1000000)
		}
	}
	if maxReq >= lo && maxReq <= hi && maxReq%1000000 != 0 {
		cands = append(cands, maxReq)
	}
	if len(cands) == 1 {
		return fmt.Sprint(cands[0])
	}
	return ""
}

// vfE1NumEnv: one in-process nsqd (queue scan parked) on which numeric cases are executed.
type vfE1NumEnv struct {
	t        *testing.T
	nsqd     *NSQD
	tcpAddr  net.Addr
	httpAddr net.Addr
	prot     *protocolV2
	ch       *Channel // channel for the direct REQ handler cases
	wch      *Channel // channel behind the wire cases (topic vf_numw)
	seq      int
	hist     map[string]int
}

func vfE1NewNumEnv(t *testing.T) *vfE1NumEnv {
	opts := NewOptions()
	opts.Logger = nil
	opts.LogLevel = LOG_FATAL
	opts.DataPath = t.TempDir()
	opts.MemQueueSize = 100000
	opts.QueueScanInterval = time.Hour
	opts.QueueScanRefreshInterval = time.Hour
	tcpAddr, httpAddr, nsqd := vfStartNSQD(opts)
	e := &vfE1NumEnv{t: t, nsqd: nsqd, tcpAddr: tcpAddr, httpAddr: httpAddr, prot: &protocolV2{nsqd: nsqd}, hist: map[string]int{}}
	e.ch = nsqd.GetTopic("vf_num").GetChannel("ch")
	e.wch = nsqd.GetTopic("vf_numw").GetChannel("ch")
	return e
}

func (e *vfE1NumEnv) setMaxReq(d time.Duration) {
	o2 := *e.nsqd.getOpts()
	o2.MaxReqTimeout = d
	// distinct values for the other duration options, so a handler reading the wrong one shows
	o2.MaxMsgTimeout = 17 * time.Minute
	o2.MsgTimeout = 61 * time.Second
	e.nsqd.swapOpts(&o2)
}

func (e *vfE1NumEnv) connect() net.Conn {
	conn, err := mustConnectNSQD(e.tcpAddr)
	if err != nil {
		e.t.Fatal(err)
	}
	conn.SetDeadline(time.Now().Add(10 * time.Second))
	identify(e.t, conn, nil, frameTypeResponse)
	return conn
}

// exec runs one operation line on the real code. It returns the (possibly completed) operation
// line, the implementation's canonical answer, and redo=true when the case could not be
// resolved (clock bracket too wide) and should simply be dropped.
func (e *vfE1NumEnv) exec(line string) (op string, impl string, redo bool) {
	t := e.t
	w := strings.Fields(line)
	fail := func(format string, a ...interface{}) {
		fmt.Printf("ORACLE-FAIL "+format+"\n", a...)
		t.Fail()
	}
	op = line
	switch w[0] {
	case "b10":
		s := vfE1Unhex(w[1])
		v, err := protocol.ByteToBase10(s)
		if err != nil {
			if v != 0 {
				fail("ByteToBase10(%q) failed but returned %d", s, v)
			}
			e.hist["b10:err"]++
			return op, "err", false
		}
		e.hist["b10:ok"]++
		return op, fmt.Sprintf("ok %d", v), false
	case "setmsgtimeout":
		maxMT, _ := strconv.ParseInt(w[1], 10, 64)
		v, _ := strconv.ParseInt(w[3], 10, 64)
		o2 := *e.nsqd.getOpts()
		o2.MaxMsgTimeout = time.Duration(maxMT)
		o2.MaxReqTimeout = 47 * time.Minute
		e.nsqd.swapOpts(&o2)
		cl := newClientV2(1, nil, e.nsqd)
		cur, _ := strconv.ParseInt(w[2], 10, 64)
		cl.MsgTimeout = time.Duration(cur)
		err := cl.SetMsgTimeout(int(v))
		if err != nil {
			e.hist["setmsgtimeout:invalid"]++
			return op, "invalid", false
		}
		if int64(cl.MsgTimeout) != cur && (cl.MsgTimeout < time.Second || cl.MsgTimeout > time.Duration(maxMT)) {
			fail("SetMsgTimeout(%d) accepted %v outside [1s, %v]", v, cl.MsgTimeout, time.Duration(maxMT))
		}
		e.hist["setmsgtimeout:ok"]++
		return op, fmt.Sprint(int64(cl.MsgTimeout)), false
	case "req": // the real handler on a real channel
		mr, _ := strconv.ParseInt(w[1], 10, 64)
		maxReq := time.Duration(mr)
		e.setMaxReq(maxReq)
		s := vfE1Unhex(w[2])
		e.seq++
		msg := &Message{ID: vfE1MsgID(e.seq), Body: []byte(fmt.Sprintf("req-%d", e.seq))}
		cl := newClientV2(int64(1000+e.seq), nil, e.nsqd)
		cl.Channel = e.ch
		cl.State = stateSubscribed
		if err := e.ch.StartInFlightTimeout(msg, cl.ID, time.Minute); err != nil {
			t.Fatal(err)
		}
		t0 := time.Now().UnixNano()
		_, err := e.prot.REQ(cl, [][]byte{[]byte("REQ"), msg.ID[:], s})
		t1 := time.Now().UnixNano()
		if err != nil {
			e.ch.FinishMessage(cl.ID, msg.ID)
			e.hist["req:err"]++
			if ce, ok := err.(*protocol.FatalClientErr); ok && ce.Code == "E_INVALID" {
				return op, "err", false
			}
			return op, "other:" + err.Error(), false
		}
		_, pri, found := vfE1FindDeferred(e.ch, msg.Body, 15*time.Second)
		if !found {
			return op, "lost", false
		}
		e.hist["req:ok"]++
		if pri == 0 {
			return op, "0", false
		}
		// direct oracle: the requeue delay never exceeds max-req-timeout
		if pri-t1 > int64(maxReq) {
			fail("REQ %q with max-req-timeout %v deferred by at least %d ns", s, maxReq, pri-t1)
		}
		d := vfE1Resolve(pri, t0, t1, int64(maxReq))
		if d == "" {
			return op, "", true
		}
		return op, d, false
	case "dpub": // over a real TCP connection
		mr, _ := strconv.ParseInt(w[1], 10, 64)
		maxReq := time.Duration(mr)
		e.setMaxReq(maxReq)
		s := vfE1Unhex(w[2])
		e.seq++
		body := []byte(fmt.Sprintf("dpub-%d", e.seq))
		conn := e.connect()
		defer conn.Close()
		fmt.Fprintf(conn, "DPUB vf_numw %s\n", s)
		var sz [4]byte
		sz[3] = byte(len(body))
		conn.Write(sz[:])
		conn.Write(body)
		resp, err := nsq.ReadResponse(conn)
		if err != nil {
			return op, "readerr:" + err.Error(), false
		}
		ft, data, _ := nsq.UnpackResponse(resp)
		switch {
		case ft == frameTypeResponse && string(data) == "OK":
			m, _, found := vfE1FindDeferred(e.wch, body, 15*time.Second)
			if !found {
				return op, "lost", false
			}
			if m.deferred < 0 || m.deferred > maxReq {
				fail("DPUB %q accepted with delay %v outside [0, %v]", s, m.deferred, maxReq)
			}
			e.hist["dpub:ok"]++
			return op, fmt.Sprint(int64(m.deferred)), false
		case ft == frameTypeError && strings.HasPrefix(string(data), "E_INVALID DPUB could not parse"):
			e.hist["dpub:parse"]++
			return op, "parse", false
		case ft == frameTypeError && strings.HasPrefix(string(data), "E_INVALID DPUB timeout"):
			e.hist["dpub:range"]++
			return op, "range", false
		}
		return op, fmt.Sprintf("other:%d:%s", ft, data), false
	case "hdefer": // HTTP POST /pub?defer=
		mr, _ := strconv.ParseInt(w[1], 10, 64)
		maxReq := time.Duration(mr)
		e.setMaxReq(maxReq)
		s := vfE1Unhex(w[2])
		e.seq++
		body := []byte(fmt.Sprintf("hpub-%d", e.seq))
		q := url.Values{"topic": {"vf_numw"}, "defer": {string(s)}}
		resp, err := http.Post(fmt.Sprintf("http://%s/pub?%s", e.httpAddr, q.Encode()), "application/octet-stream", bytes.NewReader(body))
		if err != nil {
			return op, "httperr:" + err.Error(), false
		}
		rb, _ := io.ReadAll(resp.Body)
		resp.Body.Close()
		switch {
		case resp.StatusCode == 200:
			m, _, found := vfE1FindDeferred(e.wch, body, 15*time.Second)
			if !found {
				return op, "lost", false
			}
			if m.deferred < 0 || m.deferred > maxReq {
				fail("/pub?defer=%q accepted with delay %v outside [0, %v]", s, m.deferred, maxReq)
			}
			e.hist["hdefer:ok"]++
			return op, fmt.Sprint(int64(m.deferred)), false
		case resp.StatusCode == 400 && strings.Contains(string(rb), "INVALID_DEFER"):
			e.hist["hdefer:invalid"]++
			return op, "invalid", false
		}
		return op, fmt.Sprintf("other:%d:%s", resp.StatusCode, rb), false
	case "reqtcp": // REQ on TCP: the observed delay bracket must contain the model's answer
		mr, _ := strconv.ParseInt(w[1], 10, 64)
		maxReq := time.Duration(mr)
		e.setMaxReq(maxReq)
		s := vfE1Unhex(w[2])
		e.seq++
		body := []byte(fmt.Sprintf("reqtcp-%d", e.seq))
		tname := fmt.Sprintf("vf_numr_%d", e.seq)
		rt := e.nsqd.GetTopic(tname)
		rch := rt.GetChannel("ch")
		conn := e.connect()
		defer conn.Close()
		sub(t, conn, tname, "ch")
		if _, err := nsq.Ready(1).WriteTo(conn); err != nil {
			t.Fatal(err)
		}
		rt.PutMessage(NewMessage(rt.GenerateID(), body))
		resp, err := nsq.ReadResponse(conn)
		if err != nil {
			t.Fatalf("reqtcp: no message: %v", err)
		}
		_, data, _ := nsq.UnpackResponse(resp)
		m, err := nsq.DecodeMessage(data)
		if err != nil {
			t.Fatalf("reqtcp: decode: %v", err)
		}
		t0 := time.Now().UnixNano()
		fmt.Fprintf(conn, "REQ %s %s\n", m.ID[:], s)
		// an error frame arrives at once; success is silent (or, with delay 0, the message comes back)
		conn.SetReadDeadline(time.Now().Add(30 * time.Millisecond))
		resp, err = nsq.ReadResponse(conn)
		opn := fmt.Sprintf("reqtcp %d %s", int64(maxReq), vfHex(s))
		if err == nil {
			ft, d, _ := nsq.UnpackResponse(resp)
			t1 := time.Now().UnixNano()
			if ft == frameTypeError && strings.HasPrefix(string(d), "E_INVALID REQ could not parse") {
				e.hist["reqtcp:err"]++
				return opn + " 0 0", "err", false
			} else if m2, e2 := nsq.DecodeMessage(d); ft == frameTypeMessage && e2 == nil && m2.ID == m.ID {
				e.hist["reqtcp:redelivered"]++
				return fmt.Sprintf("%s 0 %d", opn, t1-t0), "ok in=true", false
			}
			return opn + " 0 0", fmt.Sprintf("other:%d:%s", ft, d), false
		}
		_, pri, found := vfE1FindDeferred(rch, body, 15*time.Second)
		t1 := time.Now().UnixNano()
		e.hist["reqtcp:ok"]++
		if !found {
			return opn + " 0 0", "lost", false
		}
		if pri == 0 {
			return opn + " 0 0", "ok in=true", false
		}
		return fmt.Sprintf("%s %d %d", opn, pri-t1, pri-t0), "ok in=true", false
	}
	return op, "bad-op", false
}

var vfE1MaxReqs = []time.Duration{time.Hour, 5 * time.Second, 5000500 * time.Microsecond, 0, time.Millisecond, 1<<63 - 1}

func TestVerifNumCorr(t *testing.T) {
	out := vfOpen("num")
	defer out.Close()
	r := vfNewRand(51)
	n := vfEnvInt("VERIF_N", 4000)
	e := vfE1NewNumEnv(t)
	defer e.nsqd.Exit()
	defer vfE1PanicGuard("a numeric handler call", out)()
	run := func(line string) {
		for try := 0; try < 5; try++ {
			op, impl, redo := e.exec(line)
			if !redo {
				out.Case(op, impl)
				return
			}
		}
	}
	// committed corpus first (minimised past failures, fixed findings): VERIF_CORPUS = files
	for _, f := range strings.Split(os.Getenv("VERIF_CORPUS"), ":") {
		if f == "" {
			continue
		}
		raw, err := os.ReadFile(f)
		if err != nil {
			t.Fatalf("corpus %s: %v", f, err)
		}
		for _, line := range strings.Split(string(raw), "\n") {
			line = strings.TrimSpace(line)
			if line == "" || strings.HasPrefix(line, "#") {
				continue
			}
			run(line)
			e.hist["corpus"]++
		}
	}
	fmt.Printf("NUM-CORPUS lines=%d\n", e.hist["corpus"])
	for i := 0; i < n; i++ {
		s := vfE1Spelling(r, []uint64{3600000, 5000, 0, 1}[r.Intn(4)], false)
		run("b10 " + vfHex([]byte(s)))
	}
	for i := 0; i < n/4; i++ {
		maxMT := []time.Duration{15 * time.Minute, 90 * time.Second, 1500 * time.Millisecond, 2000500 * time.Microsecond, time.Second, 999 * time.Millisecond}[r.Intn(6)]
		lim := int64(maxMT / time.Millisecond)
		var v int64
		switch r.Intn(10) {
		case 0:
			v = 0
		case 1:
			v = 999
		case 2:
			v = 1000
		case 3:
			v = 1001
		case 4:
			v = lim
		case 5:
			v = lim + 1
		case 6:
			v = lim - 1
		case 7:
			v = -int64(r.Intn(5000))
		case 8:
			v = int64(r.Next() >> uint(1+r.Intn(63)))
		default:
			v = int64(r.Intn(int(lim) + 2000))
		}
		run(fmt.Sprintf("setmsgtimeout %d %d %d", int64(maxMT), int64(61*time.Second), v))
	}
	for i := 0; i < n/2; i++ {
		maxReq := vfE1MaxReqs[r.Intn(len(vfE1MaxReqs)-1)] // (not the ~292-year one: its deadline does not fit UnixNano)
		s := vfE1Spelling(r, uint64(maxReq/time.Millisecond), false)
		run(fmt.Sprintf("req %d %s", int64(maxReq), vfHex([]byte(s))))
	}
	for i := 0; i < n/10; i++ {
		maxReq := vfE1MaxReqs[r.Intn(len(vfE1MaxReqs))]
		s := vfE1Spelling(r, uint64(maxReq/time.Millisecond), true)
		run(fmt.Sprintf("dpub %d %s", int64(maxReq), vfHex([]byte(s))))
	}
	for i := 0; i < n/10; i++ {
		maxReq := vfE1MaxReqs[r.Intn(len(vfE1MaxReqs))]
		s := vfE1Spelling(r, uint64(maxReq/time.Millisecond), false)
		run(fmt.Sprintf("hdefer %d %s", int64(maxReq), vfHex([]byte(s))))
	}
	for i := 0; i < n/20; i++ {
		maxReq := vfE1MaxReqs[r.Intn(3)]
		s := vfE1Spelling(r, uint64(maxReq/time.Millisecond), true)
		run(fmt.Sprintf("reqtcp %d %s", int64(maxReq), vfHex([]byte(s))))
	}
	fmt.Printf("NUM-HIST %v\n", e.hist)
}
