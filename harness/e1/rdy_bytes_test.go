package nsqd

// C03.4 over bytes (audit item A9): the real RDY handler on a real subscribed connection, for generated
// spellings of the count, against the model `Model.RdyBytes.rdyArg` (driver op `rdy`).
//   line:  rdy <max-rdy-count> <hex of the count parameter | none>
//   impl:  ok <ready count read back> | E_INVALID parse | E_INVALID range <count>

import (
	"fmt"
	"regexp"
	"testing"

	"github.com/nsqio/nsq/internal/protocol"
)

var vfE1RdyRange = regexp.MustCompile(`RDY count (-?\d+) out of range`)

func TestVerifRdyBytesCorr(t *testing.T) {
	out := vfOpen("rdybytes")
	defer out.Close()
	r := vfNewRand(303)
	n := vfEnvInt("VERIF_N", 4000)
	opts := NewOptions()
	opts.Logger = nil
	opts.LogLevel = LOG_FATAL
	opts.DataPath = t.TempDir()
	opts.TCPAddress, opts.HTTPAddress = vfLoop2()
	opts.HTTPSAddress = ""
	nsqd, err := New(opts)
	if err != nil {
		t.Fatal(err)
	}
	defer nsqd.Exit()
	prot := &protocolV2{nsqd: nsqd}
	ch := nsqd.GetTopic("vf_rdy").GetChannel("c")
	maxChoices := []int64{2500, 0, 1, 7, 100000, 1<<63 - 1}
	hist := map[string]int{}
	for i := 0; i < n; i++ {
		maxRdy := maxChoices[r.Intn(len(maxChoices))]
		o2 := *nsqd.getOpts()
		o2.MaxRdyCount = maxRdy
		nsqd.swapOpts(&o2)
		cl := newClientV2(int64(5000+i), nil, nsqd)
		cl.Channel = ch
		cl.State = stateSubscribed
		var params [][]byte
		arg := "none"
		if r.Intn(12) == 0 {
			params = [][]byte{[]byte("RDY")}
		} else {
			var s string
			switch r.Intn(4) {
			case 0: // around the maximum
				s = fmt.Sprintf("%d", uint64(maxRdy)+uint64(r.Intn(3))-1)
			default:
				s = vfE1Spelling(r, uint64(maxRdy), false)
			}
			params = [][]byte{[]byte("RDY"), []byte(s)}
			arg = vfHex([]byte(s))
		}
		_, err := prot.RDY(cl, params)
		var impl string
		switch e := err.(type) {
		case nil:
			impl = fmt.Sprintf("ok %d", cl.ReadyCount)
		case *protocol.FatalClientErr:
			if m := vfE1RdyRange.FindStringSubmatch(e.Desc); m != nil && e.Code == "E_INVALID" {
				impl = "E_INVALID range " + m[1]
			} else if e.Code == "E_INVALID" {
				impl = "E_INVALID parse"
			} else {
				impl = "other " + e.Code
			}
		default:
			impl = "other " + err.Error()
		}
		key := "ok"
		if err != nil {
			key = impl[:vfE1Min(len(impl), 15)]
		}
		hist[key]++
		out.Case(fmt.Sprintf("rdy %d %s", maxRdy, arg), impl)
	}
	fmt.Printf("RDY-HIST %v\n", hist)
}
