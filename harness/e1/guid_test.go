package nsqd

import (
	"fmt"
	"os"
	"sort"
	"sync"
	"testing"
	"time"
)

// TestVerifGuidCorr: real guidFactory.NewGUID on generated pre-states vs the Lean model.
// line:  guid <nodeID> <seq> <lastTs> <lastID> <now>   ->   <id> <err> <seq'> <lastTs'> <lastID'>
func TestVerifGuidCorr(t *testing.T) {
	out := vfOpen("guid")
	defer out.Close()
	r := vfNewRand(12)
	n := vfEnvInt("VERIF_N", 20000)
	errName := func(err error) string {
		switch err {
		case nil:
			return "none"
		case ErrTimeBackwards:
			return "timeBackwards"
		case ErrSequenceExpired:
			return "sequenceExpired"
		case ErrIDBackwards:
			return "idBackwards"
		}
		return "other"
	}
	for i := 0; i < n; {
		var node int64
		switch r.Intn(8) {
		case 0:
			node = 0
		case 1:
			node = 1023
		case 2:
			node = int64(r.Next()) // out of range: the factory itself does not check
		default:
			node = int64(r.Intn(1024))
		}
		ts := time.Now().UnixNano() >> 20
		var lastTs int64
		switch r.Intn(7) {
		case 0, 1, 2:
			lastTs = ts // same pseudo-millisecond
		case 3:
			lastTs = ts - 1 - int64(r.Intn(5))
		case 4:
			lastTs = ts + 1 + int64(r.Intn(5)) // clock stepped back
		case 5:
			lastTs = 0
		default:
			lastTs = int64(r.Next())
		}
		var seq int64
		switch r.Intn(6) {
		case 0:
			seq = 0
		case 1:
			seq = 4094
		case 2:
			seq = 4095
		case 3:
			seq = int64(r.Next())
		default:
			seq = int64(r.Intn(4096))
		}
		nextSeq := (seq + 1) & sequenceMask
		if lastTs != ts {
			nextSeq = 0
		}
		about := ((ts - twepoch) << timestampShift) | (node << nodeIDShift) | nextSeq
		var lastID int64
		switch r.Intn(8) {
		case 0:
			lastID = 0
		case 1:
			lastID = about // equal: must be refused
		case 2:
			lastID = about - 1
		case 3:
			lastID = about + 1
		case 4:
			lastID = about + int64(r.Intn(1<<22))
		case 5:
			lastID = int64(r.Next())
		default:
			lastID = about - 1 - int64(r.Intn(1<<30))
		}
		f := &guidFactory{nodeID: node, sequence: seq, lastTimestamp: lastTs, lastID: guid(lastID)}
		t0 := time.Now().UnixNano() >> 20
		id, err := f.NewGUID()
		t1 := time.Now().UnixNano() >> 20
		if t0 != t1 || t0 != ts {
			continue // clock ticked across the call: the reading used is ambiguous, redo the case
		}
		out.Case(fmt.Sprintf("guid %d %d %d %d %d", node, seq, lastTs, lastID, t0<<20),
			fmt.Sprintf("%d %s %d %d %d", int64(id), errName(err), f.sequence, f.lastTimestamp, int64(f.lastID)))
		i++
	}
	// Hex: real guid.Hex vs model
	for i := 0; i < n/4; i++ {
		var g int64
		switch r.Intn(6) {
		case 0:
			g = int64(r.Intn(4))
		case 1:
			g = -int64(r.Intn(4)) - 1
		case 2:
			g = int64(uint64(1)<<uint(r.Intn(64))) - int64(r.Intn(2))
		default:
			g = int64(r.Next())
		}
		h := guid(g).Hex()
		out.Case(fmt.Sprintf("hex %d", g), string(h[:]))
	}
}

// TestVerifGuidOracle: the property itself on the implementation — concurrent publishers on one
// real Topic; ids are globally distinct and each goroutine sees strictly increasing ids
// (a consequence of "strictly increasing in generation order" that needs no instrumentation).
func TestVerifGuidOracle(t *testing.T) {
	opts := NewOptions()
	opts.Logger = nil
	opts.LogLevel = LOG_FATAL
	opts.TCPAddress, opts.HTTPAddress, opts.HTTPSAddress = "127.0.0.1:0", "127.0.0.1:0", ""
	opts.DataPath = t.TempDir()
	opts.ID = int64(vfEnvInt("VERIF_NODEID", 1023))
	nsqd, err := New(opts)
	if err != nil {
		t.Fatal(err)
	}
	defer nsqd.Exit()
	topic := nsqd.GetTopic("vf_guid")
	workers, per := 16, vfEnvInt("VERIF_N", 20000)
	res := make([][]MessageID, workers)
	var wg sync.WaitGroup
	for w := 0; w < workers; w++ {
		wg.Add(1)
		go func(w int) {
			defer wg.Done()
			ids := make([]MessageID, 0, per)
			for i := 0; i < per; i++ {
				ids = append(ids, topic.GenerateID())
			}
			res[w] = ids
		}(w)
	}
	wg.Wait()
	fail := func(what string) {
		fmt.Printf("ORACLE-FAIL %s\n", what)
		if p := os.Getenv("VERIF_OUT"); p != "" {
			os.WriteFile(p+"/oracle_fail.txt", []byte(what+"\n"), 0o644)
		}
		t.Fail()
	}
	all := make([]string, 0, workers*per)
	for w := range res {
		for i, id := range res[w] {
			if i > 0 && string(res[w][i-1][:]) >= string(id[:]) {
				fail(fmt.Sprintf("not increasing within publisher %d: %s then %s", w, res[w][i-1][:], id[:]))
				return
			}
			for _, c := range id {
				if !(c >= '0' && c <= '9' || c >= 'a' && c <= 'f') {
					fail(fmt.Sprintf("id %q is not 16 lower-case hex characters", id[:]))
					return
				}
			}
			all = append(all, string(id[:]))
		}
	}
	sort.Strings(all)
	for i := 1; i < len(all); i++ {
		if all[i] == all[i-1] {
			fail("duplicate id " + all[i])
			return
		}
	}
	fmt.Printf("ORACLE-OK ids=%d distinct=%d\n", len(all), len(all))
}
