package nsqd

import (
	"fmt"
	"testing"
	"time"
)

// TestVerifGuidCorr: real guidFactory.NewGUID on generated pre-states vs the Lean model.
// line:  guid <nodeID> <seq> <lastTs> <lastID> <now>   ->   <id> <err> <seq'> <lastTs'> <lastID'>
func TestVerifGuidCorr(t *testing.T) {
	out := vfOpen("guid")
	defer out.Close()
	r := vfNewRand(12)
	n := vfEnvInt("VERIF_N", 20000)
	errName := func(err error) string {
		switch err {
		case nil:
			return "none"
		case ErrTimeBackwards:
			return "timeBackwards"
		case ErrSequenceExpired:
			return "sequenceExpired"
		case ErrIDBackwards:
			return "idBackwards"
		}
		return "other"
	}
	for i := 0; i < n; {
		var node int64
		switch r.Intn(8) {
		case 0:
			node = 0
		case 1:
			node = 1023
		case 2:
			node = int64(r.Next()) // out of range: the factory itself does not check
		default:
			node = int64(r.Intn(1024))
		}
		ts := time.Now().UnixNano() >> 20
		var lastTs int64
		switch r.Intn(7) {
		case 0, 1, 2:
			lastTs = ts // same pseudo-millisecond
		case 3:
			lastTs = ts - 1 - int64(r.Intn(5))
		case 4:
			lastTs = ts + 1 + int64(r.Intn(5)) // clock stepped back
		case 5:
			lastTs = 0
		default:
			lastTs = int64(r.Next())
		}
		var seq int64
		switch r.Intn(6) {
		case 0:
			seq = 0
		case 1:
			seq = 4094
		case 2:
			seq = 4095
		case 3:
			seq = int64(r.Next())
		default:
			seq = int64(r.Intn(4096))
		}
		nextSeq := (seq + 1) & sequenceMask
		if lastTs != ts {
			nextSeq = 0
		}
		about := ((ts - twepoch) << timestampShift) | (node << nodeIDShift) | nextSeq
		var lastID int64
		switch r.Intn(8) {
		case 0:
			lastID = 0
		case 1:
			lastID = about // equal: must be refused
		case 2:
			lastID = about - 1
		case 3:
			lastID = about + 1
		case 4:
			lastID = about + int64(r.Intn(1<<22))
		case 5:
			lastID = int64(r.Next())
		default:
			lastID = about - 1 - int64(r.Intn(1<<30))
		}
		f := &guidFactory{nodeID: node, sequence: seq, lastTimestamp: lastTs, lastID: guid(lastID)}
		t0 := time.Now().UnixNano() >> 20
		id, err := f.NewGUID()
		t1 := time.Now().UnixNano() >> 20
		if t0 != t1 || t0 != ts {
			continue // clock ticked across the call: the reading used is ambiguous, redo the case
		}
		out.Case(fmt.Sprintf("guid %d %d %d %d %d", node, seq, lastTs, lastID, t0<<20),
			fmt.Sprintf("%d %s %d %d %d", int64(id), errName(err), f.sequence, f.lastTimestamp, int64(f.lastID)))
		i++
	}
	// Hex: real guid.Hex vs model
	for i := 0; i < n/4; i++ {
		var g int64
		switch r.Intn(6) {
		case 0:
			g = int64(r.Intn(4))
		case 1:
			g = -int64(r.Intn(4)) - 1
		case 2:
			g = int64(uint64(1)<<uint(r.Intn(64))) - int64(r.Intn(2))
		default:
			g = int64(r.Next())
		}
		h := guid(g).Hex()
		out.Case(fmt.Sprintf("hex %d", g), string(h[:]))
	}
}
