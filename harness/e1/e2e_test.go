package nsqd

// End-to-end message integrity oracle (property C07), compiled into the real package through
// `go test -c -overlay` (white box: uses unexported state of NSQD/Topic/Channel to decide
// quiescence and "missing", never to decide what a correct delivery looks like).
//
// A real in-process nsqd (tiny memory queue, tiny disk-queue files, TLS/snappy/deflate enabled) is
// driven over the network exactly like a client would: IDENTIFY feature negotiation, TLS upgrade,
// compression upgrade, SUB/RDY/FIN/REQ, PUB/MPUB/DPUB and HTTP /pub, /pub?defer, /mpub (text and
// binary). Every delivered frame is decoded with the client-side decoder and matched against the
// publisher's records.
//
// stdout protocol (one line each):
//   E2E-COMBO tls=<0|1> comp=<none|snappy|deflateN> buf=<n> timeout=<n> restart=<0|1> published=<n>
//             deliveries=<n> redeliveries=<n> rejected=<n> paths=<pub:n,mpub:n,dpub:n,hpub:n,hdefer:n,hmpubtext:n,hmpubbin:n>
//   E2E-NOTE  <free text>                    (observations that are not integrity failures)
//   E2E-OK combos=<n> published=<n> deliveries=<n> redeliveries=<n> bytes=<n>
//   E2E-FAIL key=<key> what=<one line>       (first integrity failure; details in $VERIF_OUT/e2e_fail.txt)
//             keys: body-mismatch id-format id-changed ts-changed ts-outside-window attempts missing
//                   unexpected early rejected-accepted pub-refused proto-error decode buffer-swap
//   E2E-ERROR what=<one line>                (infrastructure problem, not an integrity failure)
//
// env: VERIF_SEED, VERIF_N (messages per combination, 40), VERIF_E2E_COMBOS (10; 0 = all 264),
//      VERIF_E2E_PAR (combinations in parallel, 8), VERIF_E2E_MAXMSG (40000), VERIF_REPO, VERIF_OUT.

import (
	"bytes"
	"compress/flate"
	"crypto/tls"
	"encoding/binary"
	"encoding/json"
	"errors"
	"fmt"
	"io"
	"net"
	"net/http"
	"os"
	"path/filepath"
	"runtime"
	"strings"
	"sync"
	"sync/atomic"
	"testing"
	"time"

	"github.com/golang/snappy"
	"github.com/nsqio/go-nsq"
	"github.com/nsqio/nsq/internal/protocol"
)

// ---------------------------------------------------------------------------------------------
// run-wide state, failure reporting
// ---------------------------------------------------------------------------------------------

type vfE2EAbort struct{} // panic value used to unwind a harness goroutine after fail/error/stop

type vfE2ERun struct {
	t       *testing.T
	seed    string
	n       int
	maxMsg  int
	maxBody int
	certDir string
	baseDir string
	httpc   *http.Client

	outMu   sync.Mutex
	once    sync.Once
	stopped int32
	stopCh  chan struct{}

	nsqdMu sync.Mutex
	nsqds  []*NSQD

	combos, published, deliveries, redeliveries, bytes int64
	looseEarly, looseTotal, strictTotal                int64
	onDisk, inMem                                      int64 // queued in the channels when their consumer said RDY
}

func (g *vfE2ERun) printf(format string, a ...interface{}) {
	g.outMu.Lock()
	fmt.Printf(format, a...)
	g.outMu.Unlock()
}

func (g *vfE2ERun) isStopped() bool { return atomic.LoadInt32(&g.stopped) == 1 }

func (g *vfE2ERun) check() {
	if g.isStopped() {
		panic(vfE2EAbort{})
	}
}

func vfE2EOneLine(s string) string {
	s = strings.ReplaceAll(s, "\n", "\\n")
	s = strings.ReplaceAll(s, "\r", "\\r")
	if len(s) > 900 {
		s = s[:900] + "..."
	}
	return s
}

// fail reports the FIRST integrity failure and unwinds the calling goroutine.
func (g *vfE2ERun) fail(key, what, detail string) {
	g.once.Do(func() {
		atomic.StoreInt32(&g.stopped, 1)
		g.printf("E2E-FAIL key=%s what=%s\n", key, vfE2EOneLine(what))
		if p := os.Getenv("VERIF_OUT"); p != "" {
			txt := fmt.Sprintf("key=%s\nwhat=%s\nseed=%s\nreplay: VERIF_SEED=%s VERIF_N=%d VERIF_E2E_COMBOS=%d VERIF_E2E_PAR=%d VERIF_E2E_MAXMSG=%d ./e2e.test -test.run '^TestVerifE2E$' -test.count=1\n%s\n",
				key, what, g.seed, g.seed, g.n, vfEnvInt("VERIF_E2E_COMBOS", 10), vfEnvInt("VERIF_E2E_PAR", 8), g.maxMsg, detail)
			os.WriteFile(filepath.Join(p, "e2e_fail.txt"), []byte(txt), 0o644)
		}
		g.t.Fail()
		close(g.stopCh)
	})
	panic(vfE2EAbort{})
}

// errorf reports an infrastructure problem (distinct from an integrity failure).
func (g *vfE2ERun) errorf(format string, a ...interface{}) {
	g.once.Do(func() {
		atomic.StoreInt32(&g.stopped, 1)
		g.printf("E2E-ERROR what=%s\n", vfE2EOneLine(fmt.Sprintf(format, a...)))
		g.t.Fail()
		close(g.stopCh)
	})
	panic(vfE2EAbort{})
}

// guard runs f and swallows the harness' own abort panic (any other panic propagates and kills
// the test binary, which is what we want for a panic inside nsqd or a harness bug).
func (g *vfE2ERun) guard(f func()) {
	defer func() {
		if r := recover(); r != nil {
			if _, ok := r.(vfE2EAbort); ok {
				return
			}
			panic(r)
		}
	}()
	f()
}

func (g *vfE2ERun) sleep(d time.Duration) {
	select {
	case <-time.After(d):
	case <-g.stopCh:
		panic(vfE2EAbort{})
	}
}

func vfE2ECertDir() string {
	var cands []string
	if r := os.Getenv("VERIF_REPO"); r != "" {
		cands = append(cands, filepath.Join(r, "nsqd", "test", "certs"))
	}
	if _, file, _, ok := runtime.Caller(0); ok {
		cands = append(cands, filepath.Join(filepath.Dir(file), "test", "certs"))
	}
	cands = append(cands, "/repo/nsqd/test/certs", "./test/certs")
	for _, c := range cands {
		if _, err := os.Stat(filepath.Join(c, "server.pem")); err == nil {
			return c
		}
	}
	return ""
}

func (g *vfE2ERun) newOpts(dataPath string) *Options {
	opts := NewOptions()
	opts.Logger = nil
	opts.LogLevel = LOG_FATAL
	opts.TCPAddress, opts.HTTPAddress, opts.HTTPSAddress = vfLoop3()
	opts.DataPath = dataPath
	opts.MemQueueSize = 3
	opts.MaxBytesPerFile = 4096
	opts.SyncEvery = 7
	opts.SyncTimeout = 200 * time.Millisecond
	opts.MaxMsgSize = int64(g.maxMsg)
	opts.MaxBodySize = int64(g.maxBody)
	opts.SnappyEnabled = true
	opts.DeflateEnabled = true
	opts.MaxDeflateLevel = 9
	opts.TLSCert = filepath.Join(g.certDir, "server.pem")
	opts.TLSKey = filepath.Join(g.certDir, "server.key")
	opts.MsgTimeout = 10 * time.Minute // nothing may time out by accident, even on a loaded machine
	opts.MaxReqTimeout = 60 * time.Second
	opts.QueueScanInterval = 20 * time.Millisecond
	opts.QueueScanRefreshInterval = 100 * time.Millisecond
	opts.QueueScanSelectionCount = 64
	return opts
}

// startNSQD starts a daemon like apps/nsqd does (LoadMetadata, PersistMetadata, Main).
func (g *vfE2ERun) startNSQD(dataPath string) *NSQD {
	n, err := New(g.newOpts(dataPath))
	if err != nil {
		g.errorf("cannot create nsqd on %s: %v", dataPath, err)
	}
	if err = n.LoadMetadata(); err != nil {
		g.errorf("LoadMetadata on %s: %v", dataPath, err)
	}
	if err = n.PersistMetadata(); err != nil {
		g.errorf("PersistMetadata on %s: %v", dataPath, err)
	}
	go func() {
		if err := n.Main(); err != nil {
			g.printf("E2E-NOTE nsqd.Main returned %v\n", err)
		}
	}()
	g.nsqdMu.Lock()
	g.nsqds = append(g.nsqds, n)
	g.nsqdMu.Unlock()
	return n
}

func (g *vfE2ERun) exitNSQD(n *NSQD) bool {
	done := make(chan struct{})
	go func() { n.Exit(); close(done) }()
	select {
	case <-done:
		return true
	case <-time.After(30 * time.Second):
		return false
	}
}

// ---------------------------------------------------------------------------------------------
// client connection: framing with partial-frame diagnostics, IDENTIFY negotiation, upgrades
// ---------------------------------------------------------------------------------------------

type vfE2EDecodeErr struct{ msg string }

func (e *vfE2EDecodeErr) Error() string { return e.msg }

type vfE2EFeat struct {
	tls     bool
	comp    string // none | snappy | deflate
	level   int
	buf     int
	timeout int
}

func (f vfE2EFeat) String() string {
	c := f.comp
	if c == "deflate" {
		c = fmt.Sprintf("deflate%d", f.level)
	}
	t := 0
	if f.tls {
		t = 1
	}
	return fmt.Sprintf("tls=%d comp=%s buf=%d timeout=%d", t, c, f.buf, f.timeout)
}

type vfE2EFrame struct {
	ft   int32
	data []byte
	at   int64
	err  error
}

type vfE2EConn struct {
	g     *vfE2ERun
	desc  string
	raw   net.Conn
	r     io.Reader
	w     io.Writer
	flush func() error
	// progress of the frame currently being read (for stall diagnostics)
	got, need, last int64
	closed          int32
	done            chan struct{}
	frames          chan vfE2EFrame
}

func (c *vfE2EConn) readFull(buf []byte) error {
	n := 0
	for n < len(buf) {
		m, err := c.r.Read(buf[n:])
		if m > 0 {
			n += m
			atomic.AddInt64(&c.got, int64(m))
			atomic.StoreInt64(&c.last, time.Now().UnixNano())
		}
		if err != nil {
			if n == len(buf) {
				return nil
			}
			return err
		}
	}
	return nil
}

// readFrame is nsq.ReadResponse + nsq.UnpackResponse with resumable progress accounting and a
// sanity bound on the size field.
func (c *vfE2EConn) readFrame() (int32, []byte, error) {
	atomic.StoreInt64(&c.got, 0)
	atomic.StoreInt64(&c.need, -1)
	var hdr [4]byte
	if err := c.readFull(hdr[:]); err != nil {
		return 0, nil, err
	}
	size := int64(int32(binary.BigEndian.Uint32(hdr[:])))
	atomic.StoreInt64(&c.need, size+4)
	if size < 4 || size > int64(c.g.maxMsg)+4096 {
		return 0, nil, &vfE2EDecodeErr{fmt.Sprintf("frame size field is %d (0x%s), outside [4,%d]", size, vfHex(hdr[:]), c.g.maxMsg+4096)}
	}
	buf := make([]byte, size)
	if err := c.readFull(buf); err != nil {
		return 0, nil, err
	}
	atomic.StoreInt64(&c.got, 0)
	atomic.StoreInt64(&c.need, -1)
	ft, data, err := nsq.UnpackResponse(buf)
	if err != nil {
		return 0, nil, &vfE2EDecodeErr{"UnpackResponse: " + err.Error()}
	}
	return ft, data, nil
}

func (c *vfE2EConn) partial() (got, need int64, idle time.Duration) {
	got, need = atomic.LoadInt64(&c.got), atomic.LoadInt64(&c.need)
	idle = time.Duration(time.Now().UnixNano() - atomic.LoadInt64(&c.last))
	return
}

// readProblem classifies a read error: a stream that stops or ends in the middle of a frame, or
// an absurd size field, is a framing (integrity) failure; everything else is infrastructure.
func (c *vfE2EConn) readProblem(err error, ctx string) {
	c.g.check()
	var de *vfE2EDecodeErr
	if errors.As(err, &de) {
		c.g.fail("decode", fmt.Sprintf("%s: %s: %s", c.desc, ctx, de.msg), "")
	}
	got, need, _ := c.partial()
	if got > 0 {
		c.g.fail("decode", fmt.Sprintf("%s: %s: stream stopped in the middle of a frame: size field announces %d bytes (incl. the 4 size bytes), only %d arrived (%v)", c.desc, ctx, need, got, err), "")
	}
	c.g.errorf("%s: %s: %v", c.desc, ctx, err)
}

func (c *vfE2EConn) send(cmd *nsq.Command) {
	var b bytes.Buffer
	cmd.WriteTo(&b)
	c.sendRaw(b.Bytes())
}

func (c *vfE2EConn) sendRaw(p []byte) {
	c.raw.SetWriteDeadline(time.Now().Add(15 * time.Second))
	_, err := c.w.Write(p)
	if err == nil && c.flush != nil {
		err = c.flush()
	}
	if err != nil {
		c.g.check()
		c.g.errorf("%s: write failed: %v", c.desc, err)
	}
}

// roundTrip sends a command and synchronously reads its answer (heartbeats answered on the way).
func (c *vfE2EConn) roundTrip(cmd *nsq.Command, ctx string) (int32, []byte, error) {
	c.send(cmd)
	for {
		c.raw.SetReadDeadline(time.Now().Add(12 * time.Second))
		ft, data, err := c.readFrame()
		if err != nil {
			return 0, nil, err
		}
		if ft == nsq.FrameTypeResponse && bytes.Equal(data, []byte("_heartbeat_")) {
			c.send(nsq.Nop())
			continue
		}
		return ft, data, nil
	}
}

func (c *vfE2EConn) expectOK(ctx string) {
	c.raw.SetReadDeadline(time.Now().Add(10 * time.Second))
	ft, data, err := c.readFrame()
	if err != nil {
		c.readProblem(err, ctx)
	}
	if ft != nsq.FrameTypeResponse || !bytes.Equal(data, []byte("OK")) {
		c.g.errorf("%s: %s: expected OK, got frame type %d %q", c.desc, ctx, ft, vfE2ETrunc(data, 80))
	}
}

func (c *vfE2EConn) Close() {
	if atomic.CompareAndSwapInt32(&c.closed, 0, 1) {
		close(c.done)
		c.raw.Close()
	}
}

// startReader reads frames in a goroutine of its own with no deadline games (a read deadline that
// fires inside a compressed/TLS stream would poison the decoder state).
func (c *vfE2EConn) startReader() {
	c.raw.SetReadDeadline(time.Time{})
	c.frames = make(chan vfE2EFrame, 512)
	go func() {
		for {
			ft, data, err := c.readFrame()
			f := vfE2EFrame{ft: ft, data: data, at: time.Now().UnixNano(), err: err}
			select {
			case c.frames <- f:
			case <-c.done:
				return
			}
			if err != nil {
				return
			}
		}
	}()
}

func vfE2ETrunc(b []byte, n int) string {
	if len(b) > n {
		return string(b[:n]) + "..."
	}
	return string(b)
}

// dial connects and negotiates like a client: magic, IDENTIFY (JSON), then TLS, then compression,
// reading the extra OK frame nsqd sends after each upgrade.
func (g *vfE2ERun) dial(n *NSQD, f vfE2EFeat, desc string) *vfE2EConn {
	g.check()
	raw, err := net.DialTimeout("tcp", n.RealTCPAddr().String(), 5*time.Second)
	if err != nil {
		g.errorf("%s: cannot connect: %v", desc, err)
	}
	c := &vfE2EConn{g: g, desc: desc + " [" + f.String() + "]", raw: raw, r: raw, w: raw, done: make(chan struct{})}
	atomic.StoreInt64(&c.last, time.Now().UnixNano())
	c.sendRaw(nsq.MagicV2)
	ci := map[string]interface{}{
		"client_id":             "vfe2e",
		"hostname":              "vfe2e",
		"user_agent":            "vfe2e/1",
		"feature_negotiation":   true,
		"tls_v1":                f.tls,
		"snappy":                f.comp == "snappy",
		"deflate":               f.comp == "deflate",
		"output_buffer_size":    f.buf,
		"output_buffer_timeout": f.timeout,
	}
	if f.comp == "deflate" {
		ci["deflate_level"] = f.level
	}
	cmd, _ := nsq.Identify(ci)
	c.send(cmd)
	c.raw.SetReadDeadline(time.Now().Add(10 * time.Second))
	ft, data, err := c.readFrame()
	if err != nil {
		c.readProblem(err, "IDENTIFY response")
	}
	if ft != nsq.FrameTypeResponse {
		g.errorf("%s: IDENTIFY refused: frame type %d %q", c.desc, ft, vfE2ETrunc(data, 120))
	}
	var resp struct {
		TLSv1               bool  `json:"tls_v1"`
		Deflate             bool  `json:"deflate"`
		DeflateLevel        int   `json:"deflate_level"`
		Snappy              bool  `json:"snappy"`
		OutputBufferSize    int   `json:"output_buffer_size"`
		OutputBufferTimeout int64 `json:"output_buffer_timeout"`
	}
	if err := json.Unmarshal(data, &resp); err != nil {
		g.fail("decode", fmt.Sprintf("%s: IDENTIFY response is not JSON: %q (%v)", c.desc, vfE2ETrunc(data, 120), err), "")
	}
	opts := n.getOpts()
	wantBuf, wantTo := f.buf, int64(f.timeout)
	switch {
	case f.timeout == -1:
		wantTo = 0
	case f.timeout == 0:
		wantTo = int64(opts.OutputBufferTimeout / time.Millisecond)
	}
	switch {
	case f.buf == -1:
		wantBuf, wantTo = 1, 0
	case f.buf == 0:
		wantBuf = defaultBufferSize
	}
	if resp.TLSv1 != f.tls || resp.Snappy != (f.comp == "snappy") || resp.Deflate != (f.comp == "deflate") ||
		(f.comp == "deflate" && resp.DeflateLevel != f.level) || resp.OutputBufferSize != wantBuf || resp.OutputBufferTimeout != wantTo {
		g.errorf("%s: negotiation answered %s, expected buffer %d timeout %d", c.desc, data, wantBuf, wantTo)
	}
	if f.tls {
		tc := tls.Client(raw, &tls.Config{InsecureSkipVerify: true})
		raw.SetDeadline(time.Now().Add(5 * time.Second))
		if err := tc.Handshake(); err != nil {
			g.check()
			g.errorf("%s: TLS handshake: %v", c.desc, err)
		}
		raw.SetDeadline(time.Time{})
		c.r, c.w = tc, tc
		c.expectOK("OK after TLS upgrade")
	}
	switch f.comp {
	case "snappy":
		under := c.r.(io.ReadWriter)
		c.r = snappy.NewReader(under)
		//lint:ignore SA1019 unbuffered on purpose: one command, one write
		c.w = snappy.NewWriter(under)
		c.expectOK("OK after snappy upgrade")
	case "deflate":
		under := c.r.(io.ReadWriter)
		c.r = flate.NewReader(under)
		fw, _ := flate.NewWriter(under, f.level)
		c.w = fw
		c.flush = fw.Flush
		c.expectOK("OK after deflate upgrade")
	}
	return c
}

// probeBufferSwap is the one white-box probe of this file. IDENTIFY's output_buffer_size replaces
// the connection's bufio.Writer; bytes still buffered in the old writer must reach the wire first.
// Over the network that situation cannot be produced (only message frames are left un-flushed,
// they need SUB, and IDENTIFY is refused after SUB), so the e2e runs cannot see a missing flush;
// here frames are written exactly like messagePump does, around a real clientV2.SetOutputBuffer.
func (g *vfE2ERun) probeBufferSwap(n *NSQD) {
	r := vfNewRand(0xE2EB0F)
	opts := n.getOpts()
	frame := func(body []byte) []byte {
		var b bytes.Buffer
		protocol.SendFramedResponse(&b, frameTypeMessage, body)
		return b.Bytes()
	}
	for _, size := range []int{-1, 64, 0, int(opts.MaxOutputBufferSize)} {
		for _, to := range []int{-1, int(opts.MinOutputBufferTimeout / time.Millisecond), 0} {
			srv, cli := net.Pipe()
			got := make(chan []byte, 1)
			go func() { b, _ := io.ReadAll(cli); got <- b }()
			c := newClientV2(-1, srv, n)
			b1, b2 := r.Bytes(1+r.Intn(300)), r.Bytes(1+r.Intn(300))
			c.writeLock.Lock()
			protocol.SendFramedResponse(c.Writer, frameTypeMessage, b1)
			c.writeLock.Unlock()
			err := c.SetOutputBuffer(size, to)
			c.writeLock.Lock()
			protocol.SendFramedResponse(c.Writer, frameTypeMessage, b2)
			c.Flush()
			c.writeLock.Unlock()
			srv.Close()
			var wire []byte
			select {
			case wire = <-got:
			case <-time.After(10 * time.Second):
				cli.Close()
				g.errorf("buffer swap probe: reader did not finish")
			}
			cli.Close()
			want := append(frame(b1), frame(b2)...)
			if err != nil || !bytes.Equal(wire, want) {
				off, e, w := vfE2EDiffWindow(want, wire)
				g.fail("buffer-swap", fmt.Sprintf("white-box probe: a frame buffered before SetOutputBuffer(%d,%d) did not reach the wire intact (err=%v, expected %d bytes, got %d, first difference at offset %d)",
					size, to, err, len(want), len(wire), off), fmt.Sprintf("expected: %s\ngot:      %s\n", e, w))
			}
		}
	}
}

// ---------------------------------------------------------------------------------------------
// combinations
// ---------------------------------------------------------------------------------------------

type vfE2ECombo struct {
	idx     int
	feat    vfE2EFeat
	restart bool
}

func (c vfE2ECombo) String() string {
	r := 0
	if c.restart {
		r = 1
	}
	return fmt.Sprintf("%s restart=%d", c.feat.String(), r)
}

func vfE2EAllCombos(maxBuf int, minTimeout int) []vfE2ECombo {
	var all []vfE2ECombo
	comps := []vfE2EFeat{{comp: "none"}, {comp: "snappy"}}
	for l := 1; l <= 9; l++ {
		comps = append(comps, vfE2EFeat{comp: "deflate", level: l})
	}
	for _, tl := range []bool{false, true} {
		for _, cp := range comps {
			for _, b := range []int{-1, 64, 0, maxBuf} {
				for _, to := range []int{-1, minTimeout, 0} {
					all = append(all, vfE2ECombo{feat: vfE2EFeat{tls: tl, comp: cp.comp, level: cp.level, buf: b, timeout: to}})
				}
			}
		}
	}
	return all
}

func vfE2EPickCombos(want int, maxBuf, minTimeout int) []vfE2ECombo {
	all := vfE2EAllCombos(maxBuf, minTimeout)
	r := vfNewRand(0xE2E0C0)
	find := func(f vfE2EFeat) int {
		for i, c := range all {
			if c.feat == f {
				return i
			}
		}
		panic("combination not in matrix")
	}
	mandatory := []int{
		find(vfE2EFeat{tls: false, comp: "none", buf: 0, timeout: 0}),
		find(vfE2EFeat{tls: true, comp: "snappy", buf: 64, timeout: -1}),
		find(vfE2EFeat{tls: true, comp: "deflate", level: 6, buf: maxBuf, timeout: minTimeout}),
		find(vfE2EFeat{tls: false, comp: "deflate", level: 1, buf: -1, timeout: -1}),
	}
	var pick []int
	if want <= 0 || want >= len(all) {
		for i := range all {
			pick = append(pick, i)
		}
	} else {
		seen := map[int]bool{}
		for _, m := range mandatory {
			if len(pick) < want {
				pick = append(pick, m)
				seen[m] = true
			}
		}
		for len(pick) < want {
			i := r.Intn(len(all))
			if !seen[i] {
				seen[i] = true
				pick = append(pick, i)
			}
		}
	}
	// restarts: always the (TLS,snappy,64,-1) combination when present (else the first one),
	// plus pseudo-random others when the run is large enough
	restarts := map[int]bool{}
	if len(pick) >= 2 {
		restarts[mandatory[1]] = true
	} else {
		restarts[pick[0]] = true
	}
	extra := 0
	if len(pick) >= 6 {
		extra = 1
	}
	if len(pick) >= 100 {
		extra = 5
	}
	for tries := 0; extra > 0 && tries < 1000; tries++ {
		i := pick[r.Intn(len(pick))]
		if !restarts[i] {
			restarts[i] = true
			extra--
		}
	}
	var out []vfE2ECombo
	for k, i := range pick {
		c := all[i]
		c.idx = k
		c.restart = restarts[i]
		out = append(out, c)
	}
	return out
}

// ---------------------------------------------------------------------------------------------
// publish records and per-channel delivery state
// ---------------------------------------------------------------------------------------------

const (
	vfE2EStPending  = iota // published (or requeued/in flight before a restart), not delivered since
	vfE2EStInFlight        // delivered, not answered
	vfE2EStRequeued        // answered REQ
	vfE2EStFinished        // answered FIN
)

type vfE2EChState struct {
	state      int
	deliveries int
	id         string
	ts         int64
	reqAt      int64 // wall clock just before the last REQ was written (0: none in this phase)
	reqDelayMs int
}

type vfE2ERec struct {
	idx     int
	body    []byte
	class   string
	path    string
	t0, t1  int64
	deferMs int
	strict  bool // deferred publish done while the topic's memory queue had room (timer kept)
	ch      [2]vfE2EChState
}

var vfE2EPaths = []string{"pub", "mpub", "dpub", "hpub", "hdefer", "hmpubtext", "hmpubbin"}
var vfE2EPathDraw = []string{"pub", "pub", "pub", "dpub", "dpub", "dpub", "hpub", "hpub", "hpub", "hdefer", "hdefer", "hdefer", "mpub", "hmpubtext", "hmpubbin"}
var vfE2EChNames = [2]string{"ch_a", "ch_b"}

type vfE2EComboRun struct {
	g     *vfE2ERun
	combo vfE2ECombo
	topic string
	nsqd  *NSQD
	r     *vfRand

	mu       sync.Mutex
	recs     []*vfE2ERec
	byBody   map[string]*vfE2ERec
	byID     map[string]*vfE2ERec
	used     map[string]bool   // every body ever generated in this combination
	rejected map[string]string // bodies that must never be delivered -> description
	phase    int32             // 0 normal, 1 before restart, 2 after restart

	pubCount   int32
	pubDone    int32
	pathCount  map[string]int
	nRejected  int
	deliveries [2]int
	redeliv    [2]int
	bytes      [2]int64
	looseEarly int
}

func (cb *vfE2EComboRun) where(chIdx int, rec *vfE2ERec) string {
	s := fmt.Sprintf("combo{%s} topic=%s", cb.combo, cb.topic)
	if chIdx >= 0 {
		s += " channel=" + vfE2EChNames[chIdx]
	}
	if rec != nil {
		s += fmt.Sprintf(" path=%s size=%d class=%s rec=%d defer=%dms", rec.path, len(rec.body), rec.class, rec.idx, rec.deferMs)
	}
	if p := atomic.LoadInt32(&cb.phase); p != 0 {
		s += fmt.Sprintf(" phase=%s", []string{"", "before-restart", "after-restart"}[p])
	}
	return s
}

func (cb *vfE2EComboRun) recDetail(rec *vfE2ERec) string {
	if rec == nil {
		return "record: none\n"
	}
	var b strings.Builder
	fmt.Fprintf(&b, "record %d: path=%s size=%d class=%s defer=%dms strict=%v window=[%d,%d]\n", rec.idx, rec.path, len(rec.body), rec.class, rec.deferMs, rec.strict, rec.t0, rec.t1)
	for i := range rec.ch {
		st := rec.ch[i]
		fmt.Fprintf(&b, "  %s: state=%d deliveries=%d id=%q ts=%d lastReqAt=%d reqDelay=%dms\n", vfE2EChNames[i], st.state, st.deliveries, st.id, st.ts, st.reqAt, st.reqDelayMs)
	}
	return b.String()
}

// diffWindow returns the first differing offset and at most 200 bytes of each side around it.
func vfE2EDiffWindow(exp, got []byte) (int, string, string) {
	n := len(exp)
	if len(got) < n {
		n = len(got)
	}
	off := n
	for i := 0; i < n; i++ {
		if exp[i] != got[i] {
			off = i
			break
		}
	}
	lo := off - 100
	if lo < 0 {
		lo = 0
	}
	cut := func(b []byte) string {
		hi := lo + 200
		if hi > len(b) {
			hi = len(b)
		}
		if lo >= hi {
			return "-"
		}
		return vfHex(b[lo:hi])
	}
	return off, cut(exp), cut(got)
}

func (cb *vfE2EComboRun) bodyDetail(rec *vfE2ERec, got []byte, frame []byte) string {
	var b strings.Builder
	b.WriteString(cb.recDetail(rec))
	if rec != nil {
		off, e, g := vfE2EDiffWindow(rec.body, got)
		lo := off - 100
		if lo < 0 {
			lo = 0
		}
		fmt.Fprintf(&b, "expected len=%d got len=%d first difference at offset %d; windows start at offset %d\nexpected: %s\ngot:      %s\n", len(rec.body), len(got), off, lo, e, g)
	} else {
		_, _, g := vfE2EDiffWindow(nil, got)
		fmt.Fprintf(&b, "got len=%d: %s\n", len(got), g)
	}
	if frame != nil {
		h := frame
		if len(h) > 64 {
			h = h[:64]
		}
		fmt.Fprintf(&b, "frame data (first %d of %d bytes): %s\n", len(h), len(frame), vfHex(h))
	}
	return b.String()
}

// ---------------------------------------------------------------------------------------------
// body generation
// ---------------------------------------------------------------------------------------------

func (cb *vfE2EComboRun) sizes() []int {
	m := cb.g.maxMsg
	return []int{1, 2, 3, 25, 26, 27, 4095, 4096, 4097, 16383, 16384, 16385, m - 1, m}
}

var vfE2ETokens = []string{"FIN ", "REQ ", "PUB t\n", "MPUB t\n", "DPUB t 5\n", "\n", "\r\n", "  V2", "NOP\n", "CLS\n",
	"_heartbeat_", "OK", "E_INVALID ", "E_BAD_MESSAGE", "RDY 1\n", "0123456789abcdef", "SUB t c\n", "IDENTIFY\n", " ", "TOUCH ", "\n\n"}

func (cb *vfE2EComboRun) genOnce(r *vfRand, text bool) ([]byte, string) {
	sizes := cb.sizes()
	var size int
	if k := r.Intn(len(sizes) + 6); k < len(sizes) {
		size = sizes[k]
	} else {
		size = 1 + r.Intn(300)
	}
	if size > cb.g.maxMsg {
		size = cb.g.maxMsg
	}
	if size < 1 {
		size = 1
	}
	class := []string{"random", "zero", "newlines", "framehdr", "ascii"}[r.Intn(5)]
	if text && class == "newlines" {
		class = "random"
	}
	b := make([]byte, size)
	switch class {
	case "random":
		copy(b, r.Bytes(size))
	case "zero":
	case "newlines":
		for i := range b {
			if r.Intn(10) < 7 {
				b[i] = '\n'
			} else {
				b[i] = byte(r.Next())
			}
		}
	case "framehdr":
		copy(b, r.Bytes(size))
		var h [34]byte
		binary.BigEndian.PutUint32(h[0:4], uint32(30+r.Intn(64)))
		binary.BigEndian.PutUint32(h[4:8], uint32(frameTypeMessage))
		binary.BigEndian.PutUint64(h[8:16], uint64(time.Now().UnixNano()))
		binary.BigEndian.PutUint16(h[16:18], uint16(1+r.Intn(3)))
		copy(h[18:34], fmt.Sprintf("%016x", r.Next()))
		copy(b, h[:])
		if size > 200 { // a second look-alike header deeper in the body
			copy(b[size/2:], h[:])
		}
	case "ascii":
		var s []byte
		for len(s) < size {
			if r.Intn(4) == 0 {
				s = append(s, fmt.Sprintf("%016x", r.Next())...)
			} else {
				s = append(s, vfE2ETokens[r.Intn(len(vfE2ETokens))]...)
			}
		}
		copy(b, s)
	}
	if text {
		for i := range b {
			if b[i] == '\n' {
				b[i] = ' '
			}
		}
		class += "+nonl"
	}
	return b, class
}

// gen returns a body distinct from every other body of this combination.
func (cb *vfE2EComboRun) gen(r *vfRand, text bool) ([]byte, string) {
	for {
		b, class := cb.genOnce(r, text)
		cb.mu.Lock()
		dup := cb.used[string(b)]
		if !dup {
			cb.used[string(b)] = true
		}
		cb.mu.Unlock()
		if !dup {
			return b, class
		}
	}
}

// ---------------------------------------------------------------------------------------------
// publisher
// ---------------------------------------------------------------------------------------------

func (cb *vfE2EComboRun) httpBase(r *vfRand) string {
	if cb.combo.feat.tls && r.Intn(2) == 0 {
		return "https://" + cb.nsqd.RealHTTPSAddr().String()
	}
	return "http://" + cb.nsqd.RealHTTPAddr().String()
}

func (cb *vfE2EComboRun) httpPost(url string, body []byte) (int, string, error) {
	resp, err := cb.g.httpc.Post(url, "application/octet-stream", bytes.NewReader(body))
	if err != nil {
		return 0, "", err
	}
	defer resp.Body.Close()
	data, _ := io.ReadAll(io.LimitReader(resp.Body, 4096))
	return resp.StatusCode, string(data), nil
}

func (cb *vfE2EComboRun) register(bodies [][]byte, classes []string, path string, deferMs int, strict bool) []*vfE2ERec {
	cb.mu.Lock()
	defer cb.mu.Unlock()
	var out []*vfE2ERec
	for i, b := range bodies {
		rec := &vfE2ERec{idx: len(cb.recs), body: b, class: classes[i], path: path, deferMs: deferMs, strict: strict}
		cb.recs = append(cb.recs, rec)
		cb.byBody[string(b)] = rec
		out = append(out, rec)
	}
	return out
}

// waitTopicMemRoom waits until the topic's memory queue is empty: a deferred message published
// now (we are the only publisher of this topic) is handed to the channels in memory and keeps
// its timer. (A deferred message that overflows to the topic's disk queue loses the timer - that
// is documented nsqd behaviour, see Topic.put - so the "never early" check only applies here.)
func (cb *vfE2EComboRun) waitTopicMemRoom() bool {
	t, err := cb.nsqd.GetExistingTopic(cb.topic)
	if err != nil {
		return false
	}
	for i := 0; i < 400; i++ {
		if len(t.memoryMsgChan) == 0 {
			return true
		}
		cb.g.sleep(2 * time.Millisecond)
	}
	return false
}

func (cb *vfE2EComboRun) publishAll(pc *vfE2EConn) {
	g := cb.g
	r := vfNewRand(0xE2E10000 + uint64(cb.combo.idx)*7919)
	remaining := g.n
	for remaining > 0 {
		g.check()
		// single-body paths are drawn three times as often as the multi-publish ones, which carry
		// 2..5 bodies each, so that every path gets a similar share of the bodies
		path := vfE2EPathDraw[r.Intn(len(vfE2EPathDraw))]
		k := 1
		if path == "mpub" || path == "hmpubtext" || path == "hmpubbin" {
			k = 2 + r.Intn(4)
			if k > remaining {
				k = remaining
			}
		}
		text := path == "hmpubtext"
		var bodies [][]byte
		var classes []string
		total := 0
		for i := 0; i < k; i++ {
			b, class := cb.gen(r, text)
			if i > 0 && total+len(b)+8 > g.maxBody-1024 {
				break
			}
			total += len(b) + 8
			bodies = append(bodies, b)
			classes = append(classes, class)
		}
		deferMs, strict := 0, false
		if path == "dpub" || path == "hdefer" {
			deferMs = 1 + r.Intn(30)
			if r.Intn(4) != 0 {
				strict = cb.waitTopicMemRoom()
			}
		}
		recs := cb.register(bodies, classes, path, deferMs, strict)
		t0 := time.Now().UnixNano()
		cb.mu.Lock()
		for _, rec := range recs {
			rec.t0 = t0
		}
		cb.mu.Unlock()
		cb.publish(pc, r, path, bodies, deferMs, recs[0])
		t1 := time.Now().UnixNano()
		cb.mu.Lock()
		for _, rec := range recs {
			rec.t1 = t1
		}
		cb.pathCount[path] += len(recs)
		cb.mu.Unlock()
		atomic.AddInt32(&cb.pubCount, int32(len(recs)))
		remaining -= len(recs)
	}
	cb.rejections(r)
	atomic.StoreInt32(&cb.pubDone, 1)
}

func (cb *vfE2EComboRun) publish(pc *vfE2EConn, r *vfRand, path string, bodies [][]byte, deferMs int, rec *vfE2ERec) {
	g := cb.g
	refused := func(how string) {
		g.fail("pub-refused", fmt.Sprintf("valid publish refused (%s): %s bodies=%d", how, cb.where(-1, rec), len(bodies)), cb.recDetail(rec))
	}
	tcp := func(cmd *nsq.Command) {
		ft, data, err := pc.roundTrip(cmd, path)
		if err != nil {
			pc.readProblem(err, "response to "+path)
		}
		if ft != nsq.FrameTypeResponse || !bytes.Equal(data, []byte("OK")) {
			refused(fmt.Sprintf("frame type %d %q", ft, vfE2ETrunc(data, 120)))
		}
	}
	web := func(url string, body []byte) {
		code, txt, err := cb.httpPost(url, body)
		if err != nil {
			g.check()
			g.errorf("%s: HTTP %s: %v", cb.where(-1, rec), path, err)
		}
		if code != 200 || txt != "OK" {
			refused(fmt.Sprintf("HTTP %d %q", code, vfE2ETrunc([]byte(txt), 120)))
		}
	}
	switch path {
	case "pub":
		tcp(nsq.Publish(cb.topic, bodies[0]))
	case "dpub":
		tcp(nsq.DeferredPublish(cb.topic, time.Duration(deferMs)*time.Millisecond, bodies[0]))
	case "mpub":
		cmd, _ := nsq.MultiPublish(cb.topic, bodies)
		tcp(cmd)
	case "hpub":
		web(cb.httpBase(r)+"/pub?topic="+cb.topic, bodies[0])
	case "hdefer":
		web(fmt.Sprintf("%s/pub?topic=%s&defer=%d", cb.httpBase(r), cb.topic, deferMs), bodies[0])
	case "hmpubtext":
		body := bytes.Join(bodies, []byte("\n"))
		if r.Intn(2) == 0 {
			body = append(body, '\n')
		}
		web(cb.httpBase(r)+"/mpub?topic="+cb.topic, body)
	case "hmpubbin":
		cmd, _ := nsq.MultiPublish(cb.topic, bodies)
		web(cb.httpBase(r)+"/mpub?topic="+cb.topic+"&binary=true", cmd.Body)
	}
}

// rejections: an empty body and a body of max-msg-size+1 on every publish path must be refused and
// deliver nothing (for the multi-publish paths together with valid companions: all or nothing).
func (cb *vfE2EComboRun) rejections(r *vfRand) {
	g := cb.g
	mark := func(b []byte, what string) {
		cb.mu.Lock()
		cb.used[string(b)] = true
		cb.rejected[string(b)] = what
		cb.mu.Unlock()
	}
	over := func() []byte {
		for {
			b := r.Bytes(g.maxMsg + 1)
			for i := range b {
				if b[i] == '\n' {
					b[i] = 0x0b
				}
			}
			cb.mu.Lock()
			dup := cb.used[string(b)]
			cb.mu.Unlock()
			if !dup {
				return b
			}
		}
	}
	companion := func(text bool, what string) []byte {
		b, _ := cb.gen(r, text)
		mark(b, what+" (valid companion of a refused multi-publish)")
		return b
	}
	accepted := func(what string, how string) {
		g.fail("rejected-accepted", fmt.Sprintf("%s was accepted (%s): %s", what, how, cb.where(-1, nil)), "")
	}
	tcp := func(what string, build func() []byte) {
		c := g.dial(cb.nsqd, vfE2EFeat{tls: cb.combo.feat.tls, comp: cb.combo.feat.comp, level: cb.combo.feat.level}, "rejection "+what+" "+cb.topic)
		defer c.Close()
		// nsqd refuses as soon as it has read the size and closes the connection while we may still
		// be writing the body: a failed write, or a reset that swallows the error frame, is a refusal
		c.raw.SetWriteDeadline(time.Now().Add(15 * time.Second))
		_, werr := c.w.Write(build())
		if werr == nil && c.flush != nil {
			werr = c.flush()
		}
		c.raw.SetReadDeadline(time.Now().Add(12 * time.Second))
		ft, data, err := c.readFrame()
		if err != nil {
			var ne net.Error
			if got, _, _ := c.partial(); got > 0 || (errors.As(err, &ne) && ne.Timeout()) || errors.As(err, new(*vfE2EDecodeErr)) {
				c.readProblem(err, "answer to "+what)
			}
			g.check()
		} else if ft != nsq.FrameTypeError {
			accepted(what, fmt.Sprintf("frame type %d %q", ft, vfE2ETrunc(data, 80)))
		}
		_ = werr
		cb.mu.Lock()
		cb.nRejected++
		cb.mu.Unlock()
	}
	cmdBytes := func(cmd *nsq.Command) []byte {
		var b bytes.Buffer
		cmd.WriteTo(&b)
		return b.Bytes()
	}
	web := func(what, url string, body []byte, okMayBe200 bool) {
		code, txt, err := cb.httpPost(url, body)
		if err != nil {
			g.check()
			g.errorf("%s: HTTP rejection case %s: %v", cb.where(-1, nil), what, err)
		}
		if code == 200 && !okMayBe200 {
			accepted(what, fmt.Sprintf("HTTP %d %q", code, txt))
		}
		cb.mu.Lock()
		cb.nRejected++
		cb.mu.Unlock()
	}
	empty := []byte{}
	base := cb.httpBase(r)
	// TCP PUB / DPUB / MPUB
	tcp("PUB max+1", func() []byte {
		b := over()
		mark(b, "PUB of max-msg-size+1")
		return cmdBytes(nsq.Publish(cb.topic, b))
	})
	tcp("PUB empty", func() []byte { return []byte("PUB " + cb.topic + "\n\x00\x00\x00\x00") })
	tcp("DPUB max+1", func() []byte {
		b := over()
		mark(b, "DPUB of max-msg-size+1")
		return cmdBytes(nsq.DeferredPublish(cb.topic, 2*time.Millisecond, b))
	})
	tcp("DPUB empty", func() []byte { return []byte("DPUB " + cb.topic + " 2\n\x00\x00\x00\x00") })
	tcp("MPUB with one max+1", func() []byte {
		b := over()
		mark(b, "MPUB member of max-msg-size+1")
		cmd, _ := nsq.MultiPublish(cb.topic, [][]byte{companion(false, "MPUB"), b, companion(false, "MPUB")})
		return cmdBytes(cmd)
	})
	tcp("MPUB with one empty", func() []byte {
		cmd, _ := nsq.MultiPublish(cb.topic, [][]byte{companion(false, "MPUB"), empty, companion(false, "MPUB")})
		return cmdBytes(cmd)
	})
	// HTTP
	b := over()
	mark(b, "HTTP /pub of max-msg-size+1")
	web("HTTP /pub max+1", base+"/pub?topic="+cb.topic, b, false)
	web("HTTP /pub empty", base+"/pub?topic="+cb.topic, empty, false)
	b = over()
	mark(b, "HTTP /pub?defer of max-msg-size+1")
	web("HTTP /pub?defer max+1", base+"/pub?topic="+cb.topic+"&defer=3", b, false)
	web("HTTP /pub?defer empty", base+"/pub?topic="+cb.topic+"&defer=3", empty, false)
	b = over()
	mark(b, "HTTP text /mpub line of max-msg-size+1")
	web("HTTP /mpub text with one max+1", base+"/mpub?topic="+cb.topic,
		bytes.Join([][]byte{companion(true, "text /mpub"), b, companion(true, "text /mpub")}, []byte("\n")), false)
	// empty lines in text mode are silently dropped by design: 200 is fine, nothing may be delivered
	web("HTTP /mpub text only empty lines", base+"/mpub?topic="+cb.topic, []byte("\n\n\n"), true)
	b = over()
	mark(b, "HTTP binary /mpub member of max-msg-size+1")
	cmd, _ := nsq.MultiPublish(cb.topic, [][]byte{companion(false, "binary /mpub"), b})
	web("HTTP /mpub binary with one max+1", base+"/mpub?topic="+cb.topic+"&binary=true", cmd.Body, false)
	cmd, _ = nsq.MultiPublish(cb.topic, [][]byte{companion(false, "binary /mpub"), empty})
	web("HTTP /mpub binary with one empty", base+"/mpub?topic="+cb.topic+"&binary=true", cmd.Body, false)
}

// ---------------------------------------------------------------------------------------------
// white-box view of a channel (only used to decide quiescence / "nothing left to deliver")
// ---------------------------------------------------------------------------------------------

type vfE2EChanView struct {
	ok                     bool
	topicDepth, depth      int64
	inFlight, deferred     int
	clients                int
	finCount, requeueCount uint64
	clientInFlight         int64
}

func (cb *vfE2EComboRun) view(chIdx int) vfE2EChanView {
	var v vfE2EChanView
	t, err := cb.nsqd.GetExistingTopic(cb.topic)
	if err != nil {
		return v
	}
	ch, err := t.GetExistingChannel(vfE2EChNames[chIdx])
	if err != nil {
		return v
	}
	v.ok = true
	v.topicDepth = t.Depth()
	v.depth = ch.Depth()
	ch.inFlightMutex.Lock()
	v.inFlight = len(ch.inFlightMessages)
	ch.inFlightMutex.Unlock()
	ch.deferredMutex.Lock()
	v.deferred = len(ch.deferredMessages)
	ch.deferredMutex.Unlock()
	ch.RLock()
	for _, c := range ch.clients {
		v.clients++
		if c2, ok := c.(*clientV2); ok {
			v.finCount += atomic.LoadUint64(&c2.FinishCount)
			v.requeueCount += atomic.LoadUint64(&c2.RequeueCount)
			v.clientInFlight += atomic.LoadInt64(&c2.InFlightCount)
		}
	}
	ch.RUnlock()
	return v
}

// serverBuffered returns how many bytes nsqd still holds in the bufio.Writer of the channel's
// consumers (ok=false: could not take the write lock within a second, nsqd is busy writing).
func (cb *vfE2EComboRun) serverBuffered(chIdx int) (int, bool) {
	res := make(chan int, 1)
	go func() {
		n := 0
		if t, err := cb.nsqd.GetExistingTopic(cb.topic); err == nil {
			if ch, err := t.GetExistingChannel(vfE2EChNames[chIdx]); err == nil {
				ch.RLock()
				var cl []*clientV2
				for _, c := range ch.clients {
					if c2, ok := c.(*clientV2); ok {
						cl = append(cl, c2)
					}
				}
				ch.RUnlock()
				for _, c2 := range cl {
					c2.writeLock.RLock()
					n += c2.Writer.Buffered()
					c2.writeLock.RUnlock()
				}
			}
		}
		res <- n
	}()
	select {
	case n := <-res:
		return n, true
	case <-time.After(time.Second):
		return 0, false
	}
}

// ---------------------------------------------------------------------------------------------
// consumer
// ---------------------------------------------------------------------------------------------

type vfE2EConsumer struct {
	cb         *vfE2EComboRun
	chIdx      int
	conn       *vfE2EConn
	rdy        int
	startAfter int
	fastNudge  bool // server side flush timer disabled: buffered frames need a "not ready" edge
	started    bool
	zeroAt     time.Time // non-zero while a nudge (RDY 0 ... RDY n) is in progress
	lastNudge  time.Time
	finSent    uint64
	reqSent    uint64
	handled    int
	unacked    int
}

func (cb *vfE2EComboRun) newConsumer(chIdx int, f vfE2EFeat) *vfE2EConsumer {
	g := cb.g
	conn := g.dial(cb.nsqd, f, fmt.Sprintf("consumer %s/%s", cb.topic, vfE2EChNames[chIdx]))
	ft, data, err := conn.roundTrip(nsq.Subscribe(cb.topic, vfE2EChNames[chIdx]), "SUB")
	if err != nil {
		conn.readProblem(err, "answer to SUB")
	}
	if ft != nsq.FrameTypeResponse || !bytes.Equal(data, []byte("OK")) {
		g.errorf("%s: SUB refused: frame type %d %q", conn.desc, ft, vfE2ETrunc(data, 100))
	}
	conn.startReader()
	return &vfE2EConsumer{cb: cb, chIdx: chIdx, conn: conn, fastNudge: f.timeout == -1 || f.buf == -1}
}

func vfE2EValidID(id []byte) bool {
	if len(id) != 16 {
		return false
	}
	for _, c := range id {
		if !(c >= '0' && c <= '9' || c >= 'a' && c <= 'f') {
			return false
		}
	}
	return true
}

// decision is a pure function of (seed, combination, channel, record, delivery number), so that
// it does not depend on arrival order.
func (c *vfE2EConsumer) decision(rec *vfE2ERec, delivery int) *vfRand {
	return vfNewRand(0xE2EDEC0000 + uint64(c.cb.combo.idx)<<32 + uint64(c.chIdx)<<28 + uint64(rec.idx)<<8 + uint64(delivery))
}

func (c *vfE2EConsumer) nearest(got []byte) *vfE2ERec {
	var best *vfE2ERec
	bestScore := -1 << 62
	for _, rec := range c.cb.recs {
		p := 0
		for p < len(got) && p < len(rec.body) && got[p] == rec.body[p] {
			p++
		}
		s := 0
		for s < len(got)-p && s < len(rec.body)-p && got[len(got)-1-s] == rec.body[len(rec.body)-1-s] {
			s++
		}
		d := len(got) - len(rec.body)
		if d < 0 {
			d = -d
		}
		score := 4*(p+s) - d
		if score > bestScore {
			best, bestScore = rec, score
		}
	}
	return best
}

func (c *vfE2EConsumer) handleMessage(f vfE2EFrame) {
	cb, g := c.cb, c.cb.g
	data := f.data
	phase := int(atomic.LoadInt32(&cb.phase))
	if len(data) < 26 {
		g.fail("decode", fmt.Sprintf("message frame of %d bytes, shorter than the 26-byte header: %s", len(data), cb.where(c.chIdx, nil)),
			"frame data: "+vfHex(data)+"\n")
	}
	// client-side decoders: go-nsq's and a plain 8+2+16+body split must agree
	m, err := nsq.DecodeMessage(data)
	if err != nil {
		g.fail("decode", fmt.Sprintf("nsq.DecodeMessage: %v: %s", err, cb.where(c.chIdx, nil)), "frame data: "+vfHex(data)+"\n")
	}
	ts := int64(binary.BigEndian.Uint64(data[0:8]))
	attempts := int(binary.BigEndian.Uint16(data[8:10]))
	idb := data[10:26]
	body := data[26:]
	if m.Timestamp != ts || int(m.Attempts) != attempts || !bytes.Equal(m.ID[:], idb) || !bytes.Equal(m.Body, body) {
		g.fail("decode", "nsq.DecodeMessage disagrees with the 8+2+16+body layout: "+cb.where(c.chIdx, nil), "frame data: "+vfHex(data[:26])+"\n")
	}
	id := string(idb)

	cb.mu.Lock()
	defer cb.mu.Unlock()
	cb.deliveries[c.chIdx]++
	cb.bytes[c.chIdx] += int64(len(body))
	if attempts > 1 {
		cb.redeliv[c.chIdx]++
	}
	c.handled++

	if !vfE2EValidID(idb) {
		rec := cb.byBody[string(body)]
		if rec == nil {
			rec = c.nearest(body)
		}
		g.fail("id-format", fmt.Sprintf("message id %q is not 16 hex characters: %s", id, cb.where(c.chIdx, nil)),
			fmt.Sprintf("ts=%d attempts=%d id=%s\n", ts, attempts, vfHex(idb))+"nearest record by body:\n"+cb.bodyDetail(rec, body, data))
	}
	rec := cb.byBody[string(body)]
	if rec == nil {
		if what, ok := cb.rejected[string(body)]; ok {
			g.fail("rejected-accepted", fmt.Sprintf("a body that nsqd refused was delivered (%s, %d bytes, id %s): %s", what, len(body), id, cb.where(c.chIdx, nil)),
				cb.bodyDetail(nil, body, data))
		}
		if r2 := cb.byID[id]; r2 != nil {
			off, _, _ := vfE2EDiffWindow(r2.body, body)
			g.fail("body-mismatch", fmt.Sprintf("id %s attempts=%d: body differs from the published one (got %d bytes, published %d, first difference at offset %d): %s",
				id, attempts, len(body), len(r2.body), off, cb.where(c.chIdx, r2)), fmt.Sprintf("id=%s ts=%d attempts=%d\n", id, ts, attempts)+cb.bodyDetail(r2, body, data))
		}
		r2 := c.nearest(body)
		off, _, _ := vfE2EDiffWindow(r2.body, body)
		g.fail("body-mismatch", fmt.Sprintf("id %s attempts=%d: delivered body (%d bytes) equals no published body; nearest is rec %d (%d bytes, first difference at offset %d): %s",
			id, attempts, len(body), r2.idx, len(r2.body), off, cb.where(c.chIdx, r2)), fmt.Sprintf("id=%s ts=%d attempts=%d\n", id, ts, attempts)+cb.bodyDetail(r2, body, data))
	}
	st := &rec.ch[c.chIdx]
	detail := func() string {
		return fmt.Sprintf("delivery: id=%s ts=%d attempts=%d received_at=%d\n", id, ts, attempts, f.at) + cb.recDetail(rec)
	}
	switch st.state {
	case vfE2EStFinished:
		g.fail("unexpected", fmt.Sprintf("message delivered again after it was FIN'd (id %s attempts=%d): %s", id, attempts, cb.where(c.chIdx, rec)), detail())
	case vfE2EStInFlight:
		g.fail("unexpected", fmt.Sprintf("message delivered a second time while the first delivery is still un-answered and far from its timeout (id %s attempts=%d): %s", id, attempts, cb.where(c.chIdx, rec)), detail())
	}
	if st.deliveries == 0 {
		if other := cb.byID[id]; other != nil && other != rec {
			g.fail("id-changed", fmt.Sprintf("id %s is used for two different bodies (rec %d and rec %d): %s", id, other.idx, rec.idx, cb.where(c.chIdx, rec)), detail()+cb.recDetail(other))
		}
		cb.byID[id] = rec
		if o := rec.ch[1-c.chIdx]; o.deliveries > 0 {
			if o.id != id {
				g.fail("id-changed", fmt.Sprintf("id differs between channels: %s on %s, %s on %s: %s", id, vfE2EChNames[c.chIdx], o.id, vfE2EChNames[1-c.chIdx], cb.where(c.chIdx, rec)), detail())
			}
			if o.ts != ts {
				g.fail("ts-changed", fmt.Sprintf("timestamp differs between channels: %d on %s, %d on %s (id %s): %s", ts, vfE2EChNames[c.chIdx], o.ts, vfE2EChNames[1-c.chIdx], id, cb.where(c.chIdx, rec)), detail())
			}
		}
		if ts < rec.t0 || (rec.t1 != 0 && ts > rec.t1) {
			g.fail("ts-outside-window", fmt.Sprintf("timestamp %d outside the publish call window [%d,%d] (id %s): %s", ts, rec.t0, rec.t1, id, cb.where(c.chIdx, rec)), detail())
		}
		if rec.deferMs > 0 && phase != 2 {
			early := f.at < rec.t0+int64(rec.deferMs)*int64(time.Millisecond)
			if early && rec.strict {
				g.fail("early", fmt.Sprintf("deferred message arrived %.3fms after the publish call started, before its %dms delay (id %s): %s",
					float64(f.at-rec.t0)/1e6, rec.deferMs, id, cb.where(c.chIdx, rec)), detail())
			}
			if early {
				cb.looseEarly++
			}
			if f.at > rec.t1+int64(rec.deferMs)*int64(time.Millisecond)+int64(5*time.Second) && rec.t1 != 0 && phase == 0 {
				g.printf("E2E-NOTE deferred message more than 5s late: %s\n", cb.where(c.chIdx, rec))
			}
		}
		st.id, st.ts = id, ts
	} else {
		if st.id != id {
			g.fail("id-changed", fmt.Sprintf("redelivery carries id %s, first delivery had %s: %s", id, st.id, cb.where(c.chIdx, rec)), detail())
		}
		if st.ts != ts {
			g.fail("ts-changed", fmt.Sprintf("redelivery carries timestamp %d, first delivery had %d (id %s): %s", ts, st.ts, id, cb.where(c.chIdx, rec)), detail())
		}
		if st.reqAt != 0 && f.at < st.reqAt+int64(st.reqDelayMs)*int64(time.Millisecond) {
			g.fail("early", fmt.Sprintf("requeued message came back %.3fms after REQ %d (id %s): %s", float64(f.at-st.reqAt)/1e6, st.reqDelayMs, id, cb.where(c.chIdx, rec)), detail())
		}
	}
	st.deliveries++
	st.reqAt = 0
	if attempts != st.deliveries {
		g.fail("attempts", fmt.Sprintf("attempts field is %d on delivery number %d of id %s: %s", attempts, st.deliveries, id, cb.where(c.chIdx, rec)), detail())
	}

	// answer
	d := c.decision(rec, st.deliveries)
	x := d.Intn(100)
	var mid nsq.MessageID
	copy(mid[:], idb)
	fin := func() {
		c.conn.send(nsq.Finish(mid))
		c.finSent++
		st.state = vfE2EStFinished
	}
	req := func(ms int) {
		st.reqAt = time.Now().UnixNano()
		st.reqDelayMs = ms
		c.conn.send(nsq.Requeue(mid, time.Duration(ms)*time.Millisecond))
		c.reqSent++
		st.state = vfE2EStRequeued
	}
	switch phase {
	case 0:
		switch {
		case st.deliveries == 1 && x < 25:
			req(d.Intn(21))
		case st.deliveries == 2 && x < 10:
			req(d.Intn(6))
		default:
			fin()
		}
	case 1:
		switch {
		case st.deliveries == 1 && x < 40:
			fin()
		case st.deliveries == 1 && x < 60:
			req(1 + d.Intn(10))
		case st.deliveries == 1 && x < 80:
			req(30000)
		case st.deliveries > 1 && x < 50:
			fin()
		default:
			st.state = vfE2EStInFlight
			c.unacked++
		}
	case 2:
		if x < 15 && st.deliveries < 4 {
			req(d.Intn(6))
		} else {
			fin()
		}
	}
}

func (c *vfE2EConsumer) handleFrame(f vfE2EFrame) {
	g := c.cb.g
	if f.err != nil {
		c.conn.readProblem(f.err, "reading from "+vfE2EChNames[c.chIdx])
	}
	switch f.ft {
	case nsq.FrameTypeMessage:
		c.handleMessage(f)
	case nsq.FrameTypeResponse:
		if bytes.Equal(f.data, []byte("_heartbeat_")) {
			c.conn.send(nsq.Nop())
		}
	case nsq.FrameTypeError:
		g.fail("proto-error", fmt.Sprintf("nsqd answered a consumer command with an error frame %q: %s", vfE2ETrunc(f.data, 200), c.cb.where(c.chIdx, nil)), "")
	default:
		g.fail("decode", fmt.Sprintf("unknown frame type %d (%d data bytes): %s", f.ft, len(f.data), c.cb.where(c.chIdx, nil)), "frame data: "+vfHex(f.data[:vfE2EMin(len(f.data), 64)])+"\n")
	}
}

func vfE2EMin(a, b int) int {
	if a < b {
		return a
	}
	return b
}

func (c *vfE2EConsumer) unfinished() (int, *vfE2ERec) {
	c.cb.mu.Lock()
	defer c.cb.mu.Unlock()
	n := 0
	var first *vfE2ERec
	for _, rec := range c.cb.recs {
		if rec.ch[c.chIdx].state != vfE2EStFinished {
			n++
			if first == nil {
				first = rec
			}
		}
	}
	return n, first
}

// run consumes in the given phase. phase 0/2: until every published body is FIN'd on this
// channel and nsqd holds nothing more for it. phase 1: until about `target` frames were handled,
// then RDY 0 and wait until nsqd has processed every answer and every in-flight message was seen.
func (c *vfE2EConsumer) run(phase int, target int) {
	cb, g := c.cb, c.cb.g
	tick := time.NewTicker(10 * time.Millisecond)
	defer tick.Stop()
	begin := time.Now()
	lastFrame := time.Now()
	c.lastNudge = time.Now()
	c.started = false
	c.zeroAt = time.Time{}
	draining := false // phase 1: RDY 0 sent
	var emptySince time.Time
	quietChecks := 0
	for {
		gotFrame := false
		select {
		case f := <-c.conn.frames:
			lastFrame = time.Now()
			gotFrame = true
			c.handleFrame(f)
		case <-tick.C:
		case <-g.stopCh:
			panic(vfE2EAbort{})
		}
		now := time.Now()
		if now.Sub(begin) > 150*time.Second {
			g.errorf("combination exceeded its 150s budget: %s", cb.where(c.chIdx, nil))
		}
		pubDone := atomic.LoadInt32(&cb.pubDone) == 1
		if !c.started {
			if pubDone || int(atomic.LoadInt32(&cb.pubCount)) >= c.startAfter {
				if t, err := cb.nsqd.GetExistingTopic(cb.topic); err == nil {
					if ch, err := t.GetExistingChannel(vfE2EChNames[c.chIdx]); err == nil {
						atomic.AddInt64(&g.onDisk, ch.backend.Depth())
						atomic.AddInt64(&g.inMem, int64(len(ch.memoryMsgChan)))
					}
				}
				c.conn.send(nsq.Ready(c.rdy))
				c.started = true
				c.lastNudge = now
			}
			if now.Sub(lastFrame) > 60*time.Second {
				g.errorf("publisher did not make progress for 60s: %s", cb.where(c.chIdx, nil))
			}
			continue
		}
		// a frame that stays incomplete although the server was asked to flush is a framing failure
		if got, need, idle := c.conn.partial(); got > 0 && idle > 8*time.Second {
			if n, ok := cb.serverBuffered(c.chIdx); !ok || n > 0 {
				// the rest of the frame is still in nsqd's output buffer: nsqd is stuck, the framing is fine
				g.errorf("nsqd stopped flushing in the middle of a frame for %v (%d of %d bytes arrived, %d bytes still buffered in nsqd, lock ok=%v): %s",
					idle.Round(time.Millisecond), got, need, n, ok, cb.where(c.chIdx, nil))
			}
			g.fail("decode", fmt.Sprintf("stream stopped in the middle of a frame for %v: size field announces %d bytes (incl. the 4 size bytes), only %d arrived: %s",
				idle.Round(time.Millisecond), need, got, cb.where(c.chIdx, nil)), "")
		}
		if gotFrame {
			quietChecks = 0
			emptySince = time.Time{}
		}
		if phase == 1 {
			if !draining && (c.handled >= target) {
				if !c.zeroAt.IsZero() {
					c.zeroAt = time.Time{}
				} else {
					c.conn.send(nsq.Ready(0))
				}
				draining = true
			}
			if draining {
				if gotFrame || now.Sub(lastFrame) < 30*time.Millisecond {
					continue
				}
				v := cb.view(c.chIdx)
				if v.ok && v.finCount == c.finSent && v.requeueCount == c.reqSent && v.inFlight == c.unacked && v.clientInFlight == int64(c.unacked) {
					quietChecks++
					if quietChecks >= 3 {
						return
					}
				} else {
					quietChecks = 0
				}
				if now.Sub(lastFrame) > 20*time.Second {
					g.errorf("no quiescence 20s after RDY 0 (fin %d/%d req %d/%d inflight %d unacked %d): %s", v.finCount, c.finSent, v.requeueCount, c.reqSent, v.inFlight, c.unacked, cb.where(c.chIdx, nil))
				}
				continue
			}
		}
		// nudge: RDY 0, a little later RDY n again. "Not ready" makes nsqd flush its output buffer,
		// which nothing else does when the client disabled the output buffer timeout.
		idle := now.Sub(lastFrame)
		if !c.zeroAt.IsZero() {
			if now.Sub(c.zeroAt) >= 15*time.Millisecond {
				c.conn.send(nsq.Ready(c.rdy))
				c.zeroAt = time.Time{}
				c.lastNudge = now
			}
		} else {
			gap := time.Second
			if c.fastNudge {
				gap = 40 * time.Millisecond
			}
			if idle > gap && now.Sub(c.lastNudge) > gap {
				c.conn.send(nsq.Ready(0))
				c.zeroAt = now
			}
		}
		if phase == 1 || !pubDone {
			if idle > 20*time.Second && pubDone {
				g.errorf("no message for 20s: %s", cb.where(c.chIdx, nil))
			}
			continue
		}
		left, first := c.unfinished()
		if idle < 25*time.Millisecond {
			continue
		}
		v := cb.view(c.chIdx)
		answered := v.ok && v.finCount == c.finSent && v.requeueCount == c.reqSent
		empty := answered && v.topicDepth == 0 && v.depth == 0 && v.inFlight == 0 && v.deferred == 0
		if left == 0 {
			// everything FIN'd: nsqd must agree that nothing is left (anything still queued would be
			// delivered to us and flagged as "unexpected" by handleMessage)
			if empty {
				quietChecks++
				if quietChecks >= 3 {
					return
				}
			} else {
				quietChecks = 0
				if idle > 5*time.Second {
					g.fail("unexpected", fmt.Sprintf("every body was FIN'd but the channel is not empty (depth=%d inflight=%d deferred=%d topic depth=%d): %s", v.depth, v.inFlight, v.deferred, v.topicDepth, cb.where(c.chIdx, nil)), "")
				}
			}
			continue
		}
		if empty {
			if emptySince.IsZero() {
				emptySince = now
			}
			if now.Sub(emptySince) > 800*time.Millisecond && idle > time.Second {
				g.fail("missing", fmt.Sprintf("%d published bodies were never delivered (or not delivered again after the restart) and nsqd holds nothing more for the channel; first: %s", left, cb.where(c.chIdx, first)), cb.recDetail(first))
			}
		} else {
			emptySince = time.Time{}
		}
		if idle > 20*time.Second {
			g.errorf("no message for 20s although %d bodies are outstanding (depth=%d inflight=%d deferred=%d topic depth=%d fin %d/%d): %s", left, v.depth, v.inFlight, v.deferred, v.topicDepth, v.finCount, c.finSent, cb.where(c.chIdx, first))
		}
	}
}

// ---------------------------------------------------------------------------------------------
// one combination
// ---------------------------------------------------------------------------------------------

func (cb *vfE2EComboRun) parallel(fs ...func()) {
	var wg sync.WaitGroup
	for _, f := range fs {
		wg.Add(1)
		f := f
		go func() {
			defer wg.Done()
			cb.g.guard(f)
		}()
	}
	wg.Wait()
	cb.g.check()
}

func (cb *vfE2EComboRun) finalCheck() {
	g := cb.g
	cb.mu.Lock()
	defer cb.mu.Unlock()
	for _, rec := range cb.recs {
		a, b := rec.ch[0], rec.ch[1]
		for i, st := range rec.ch {
			if st.state != vfE2EStFinished || st.deliveries == 0 {
				g.fail("missing", "body not delivered and FIN'd on every channel: "+cb.where(i, rec), cb.recDetail(rec))
			}
			if st.ts < rec.t0 || st.ts > rec.t1 {
				g.fail("ts-outside-window", fmt.Sprintf("timestamp %d outside the publish call window [%d,%d] (id %s): %s", st.ts, rec.t0, rec.t1, st.id, cb.where(i, rec)), cb.recDetail(rec))
			}
		}
		if a.id != b.id {
			g.fail("id-changed", fmt.Sprintf("id differs between channels (%s vs %s): %s", a.id, b.id, cb.where(-1, rec)), cb.recDetail(rec))
		}
		if a.ts != b.ts {
			g.fail("ts-changed", fmt.Sprintf("timestamp differs between channels (%d vs %d, id %s): %s", a.ts, b.ts, a.id, cb.where(-1, rec)), cb.recDetail(rec))
		}
	}
}

func (g *vfE2ERun) runCombo(combo vfE2ECombo, shared *NSQD) {
	cb := &vfE2EComboRun{g: g, combo: combo, topic: fmt.Sprintf("vfe2e_%s_%03d", g.seed, combo.idx), nsqd: shared,
		r: vfNewRand(0xE2E20000 + uint64(combo.idx)*104729), byBody: map[string]*vfE2ERec{}, byID: map[string]*vfE2ERec{},
		used: map[string]bool{}, rejected: map[string]string{}, pathCount: map[string]int{}}
	var dataPath string
	if combo.restart {
		dataPath = filepath.Join(g.baseDir, fmt.Sprintf("restart_%03d", combo.idx))
		if err := os.MkdirAll(dataPath, 0o755); err != nil {
			g.errorf("mkdir %s: %v", dataPath, err)
		}
		cb.nsqd = g.startNSQD(dataPath)
	}
	var conns []*vfE2EConn
	closeAll := func() {
		for _, c := range conns {
			c.Close()
		}
		conns = nil
	}
	defer closeAll()
	plain := vfE2EFeat{comp: "none"}
	connect := func() (*vfE2EConsumer, *vfE2EConsumer) {
		a := cb.newConsumer(0, combo.feat)
		conns = append(conns, a.conn)
		b := cb.newConsumer(1, plain)
		conns = append(conns, b.conn)
		rdys := []int{1, 2, 5, 100}
		a.rdy, b.rdy = rdys[cb.r.Intn(len(rdys))], rdys[cb.r.Intn(len(rdys))]
		a.startAfter, b.startAfter = cb.r.Intn(g.n+1), cb.r.Intn(g.n+1)
		return a, b
	}
	a, b := connect()
	pub := g.dial(cb.nsqd, vfE2EFeat{tls: combo.feat.tls, comp: combo.feat.comp, level: combo.feat.level}, "publisher "+cb.topic)
	conns = append(conns, pub)

	if !combo.restart {
		cb.parallel(func() { cb.publishAll(pub) }, func() { a.run(0, 0) }, func() { b.run(0, 0) })
	} else {
		atomic.StoreInt32(&cb.phase, 1)
		// publish everything first (consumers subscribed but not ready: memory queue of 3, rest on disk)
		cb.parallel(func() { cb.publishAll(pub) })
		a.rdy, b.rdy = g.n+16, g.n+16 // un-answered messages must not exhaust RDY
		a.startAfter, b.startAfter = 0, 0
		ta, tb := g.n/3+cb.r.Intn(g.n/3+1), g.n/3+cb.r.Intn(g.n/3+1)
		cb.parallel(func() { a.run(1, ta) }, func() { b.run(1, tb) })
		closeAll()
		if !g.exitNSQD(cb.nsqd) {
			g.errorf("nsqd.Exit did not return within 30s: %s", cb.where(-1, nil))
		}
		g.check()
		// everything that was not FIN'd must come back from the same data path
		cb.mu.Lock()
		for _, rec := range cb.recs {
			for i := range rec.ch {
				if rec.ch[i].state != vfE2EStFinished {
					rec.ch[i].state = vfE2EStPending
				}
				rec.ch[i].reqAt = 0
			}
		}
		cb.mu.Unlock()
		atomic.StoreInt32(&cb.phase, 2)
		cb.nsqd = g.startNSQD(dataPath)
		a, b = connect()
		a.startAfter, b.startAfter = 0, 0
		cb.parallel(func() { a.run(2, 0) }, func() { b.run(2, 0) })
	}
	cb.finalCheck()
	closeAll()
	if combo.restart {
		if !g.exitNSQD(cb.nsqd) {
			g.errorf("nsqd.Exit did not return within 30s: %s", cb.where(-1, nil))
		}
	} else {
		cb.nsqd.DeleteExistingTopic(cb.topic)
	}
	var paths []string
	for _, p := range vfE2EPaths {
		paths = append(paths, fmt.Sprintf("%s:%d", p, cb.pathCount[p]))
	}
	t, r := 0, 0
	if combo.feat.tls {
		t = 1
	}
	if combo.restart {
		r = 1
	}
	comp := combo.feat.comp
	if comp == "deflate" {
		comp = fmt.Sprintf("deflate%d", combo.feat.level)
	}
	del, red, byt := cb.deliveries[0]+cb.deliveries[1], cb.redeliv[0]+cb.redeliv[1], cb.bytes[0]+cb.bytes[1]
	var loose, strict int
	for _, rec := range cb.recs {
		if rec.deferMs > 0 {
			if rec.strict {
				strict++
			} else {
				loose++
			}
		}
	}
	g.check()
	g.printf("E2E-COMBO tls=%d comp=%s buf=%d timeout=%d restart=%d published=%d deliveries=%d redeliveries=%d rejected=%d paths=%s\n",
		t, comp, combo.feat.buf, combo.feat.timeout, r, len(cb.recs), del, red, cb.nRejected, strings.Join(paths, ","))
	atomic.AddInt64(&g.combos, 1)
	atomic.AddInt64(&g.published, int64(len(cb.recs)))
	atomic.AddInt64(&g.deliveries, int64(del))
	atomic.AddInt64(&g.redeliveries, int64(red))
	atomic.AddInt64(&g.bytes, byt)
	atomic.AddInt64(&g.looseEarly, int64(cb.looseEarly))
	atomic.AddInt64(&g.looseTotal, int64(loose))
	atomic.AddInt64(&g.strictTotal, int64(strict))
}

// ---------------------------------------------------------------------------------------------
// the test
// ---------------------------------------------------------------------------------------------

func TestVerifE2E(t *testing.T) {
	g := &vfE2ERun{t: t, seed: os.Getenv("VERIF_SEED"), stopCh: make(chan struct{})}
	if g.seed == "" {
		g.seed = "0"
	}
	g.n = vfEnvInt("VERIF_N", 40)
	if g.n < 4 {
		g.n = 4
	}
	if g.n > 2000 {
		g.n = 2000 // RDY of the restart consumers (n+16) must stay below max-rdy-count
	}
	g.maxMsg = vfEnvInt("VERIF_E2E_MAXMSG", 40000)
	if g.maxMsg < 20000 {
		g.maxMsg = 20000
	}
	g.maxBody = 5 * g.maxMsg
	g.certDir = vfE2ECertDir()
	g.baseDir = t.TempDir()
	g.httpc = &http.Client{Timeout: 20 * time.Second, Transport: &http.Transport{
		TLSClientConfig: &tls.Config{InsecureSkipVerify: true}, MaxIdleConnsPerHost: 16}}
	defer g.httpc.CloseIdleConnections()
	defer func() {
		// every daemon must be down before t.TempDir() is removed
		g.nsqdMu.Lock()
		all := append([]*NSQD(nil), g.nsqds...)
		g.nsqdMu.Unlock()
		for _, n := range all {
			if !g.exitNSQD(n) {
				g.printf("E2E-NOTE nsqd.Exit still running after 30s\n")
			}
		}
	}()
	ok := false
	g.guard(func() {
		if g.certDir == "" {
			g.errorf("TLS test certificates not found (set VERIF_REPO)")
		}
		sharedDir := filepath.Join(g.baseDir, "shared")
		if err := os.MkdirAll(sharedDir, 0o755); err != nil {
			g.errorf("mkdir: %v", err)
		}
		shared := g.startNSQD(sharedDir)
		g.probeBufferSwap(shared)
		opts := shared.getOpts()
		combos := vfE2EPickCombos(vfEnvInt("VERIF_E2E_COMBOS", 10), int(opts.MaxOutputBufferSize), int(opts.MinOutputBufferTimeout/time.Millisecond))
		par := vfEnvInt("VERIF_E2E_PAR", 8)
		if par < 1 {
			par = 1
		}
		sem := make(chan struct{}, par)
		var wg sync.WaitGroup
		for _, c := range combos {
			if g.isStopped() {
				break
			}
			sem <- struct{}{}
			wg.Add(1)
			c := c
			go func() {
				defer wg.Done()
				defer func() { <-sem }()
				g.guard(func() { g.runCombo(c, shared) })
			}()
		}
		wg.Wait()
		g.check()
		if int(g.combos) != len(combos) {
			g.errorf("only %d of %d combinations completed", g.combos, len(combos))
		}
		ok = true
	})
	if ok && !g.isStopped() {
		if g.looseTotal+g.strictTotal > 0 {
			g.printf("E2E-NOTE deferred publishes: %d checked strictly (never early), %d published without waiting for room in the topic memory queue, of which %d deliveries came before their delay (deferred timer is lost when the message overflows to the topic disk queue)\n",
				g.strictTotal, g.looseTotal, g.looseEarly)
		}
		g.printf("E2E-NOTE queued when the consumers turned ready: %d messages in channel disk queues, %d in channel memory queues\n", g.onDisk, g.inMem)
		g.printf("E2E-OK combos=%d published=%d deliveries=%d redeliveries=%d bytes=%d\n", g.combos, g.published, g.deliveries, g.redeliveries, g.bytes)
	}
}
